(* C08: the relation RK over parsers and one lemma per combinator of Model/PComb.v.
   [RK m Q p]: on every sorted input i (a suffix of the body B the cache refers to) whose key is >= m
   and every context satisfying the invariant Iv: a success leaves a suffix r of i, the value
   satisfies Q (key i) (key r), an error position is a suffix of i, and Iv is kept.
   Panic / NoFuel outcomes are unconstrained here (C04 shows they do not occur). *)
From GoldV Require Import Base Tokens Keywords Lexer AstKinds Tree Strings PComb Grammar RangeBase RangeRel.
From Coq Require Import Sorted Lia.

Ltac bsuf :=
  match goal with
  | Hb : RangeRel.BodyOK ?u ?i, Hs : Suffix ?r ?i |- RangeRel.BodyOK ?u ?r => exact (BodyOK_suffix u r i Hb Hs)
  end.

Section Rel.
  Variable u : univ.
  Variable Iv : ctx -> Prop.
  Variable B : input.
  Hypothesis I_diag : forall d c, DiagOK u d -> Iv c -> Iv (add_diag d c).

  Local Notation key := (key u).
  Local Notation BodyOK := (BodyOK u).
  Local Notation T := (T u).
  Local Notation TokIn := (TokIn u).
  Local Notation NodeOK := (NodeOK u).
  Local Notation RangeOK := (RangeOK u).
  Local Notation AllWf := (AllWf u).
  Local Notation top := (utop u).

  Definition post {A} (i : input) (Q : N -> N -> A -> Prop) (x : res A * ctx) : Prop :=
    match x with
    | (Ok r a, c') => Suffix r i /\ Q (key i) (key r) a /\ Iv c'
    | (Err e _, c') => Suffix e i /\ Iv c'
    | (_, _) => True
    end.

  Definition RK {A} (m : N) (Q : N -> N -> A -> Prop) (p : P A) : Prop :=
    forall i c, BodyOK i -> Suffix i B -> m <= key i -> Iv c -> post i Q (p i c).

  (* postcondition of a continuation: the lower bound is the key of the OUTER input *)
  Definition Shift {A} (Q : N -> N -> A -> Prop) (lo : N) : N -> N -> A -> Prop := fun _ hi a => Q lo hi a.

  Lemma RK_weaken {A} m m' (Q : N -> N -> A -> Prop) p : RK m Q p -> m <= m' -> RK m' Q p.
  Proof. intros H Hm i c Hb Hs Hk Hc. apply H; auto. lia. Qed.

  Lemma RK_conseq {A} m (Q Q' : N -> N -> A -> Prop) p :
    RK m Q p -> (forall lo hi a, m <= lo -> lo <= hi -> hi <= top -> Q lo hi a -> Q' lo hi a) -> RK m Q' p.
  Proof.
    intros H HQ i c Hb Hs Hk Hc. specialize (H i c Hb Hs Hk Hc).
    destruct (p i c) as [[r a|e msg|s|] c']; cbn [post] in *; auto.
    destruct H as (A1 & A2 & A3). repeat split; auto. apply HQ; auto.
    - apply key_suffix; auto.
    - apply key_le_top. eapply BodyOK_suffix; eauto.
  Qed.

  Lemma RK_ret {A} m (Q : N -> N -> A -> Prop) a :
    (forall k, m <= k -> k <= top -> Q k k a) -> RK m Q (ret a).
  Proof.
    intros H i c Hb Hs Hk Hc. unfold ret. cbn [post]. repeat split; [apply Suffix_refl| |exact Hc].
    apply H; [exact Hk|apply key_le_top; exact Hb].
  Qed.

  Lemma RK_ret_shift {A} m lo (Q : N -> N -> A -> Prop) a :
    (forall hi, m <= hi -> hi <= top -> Q lo hi a) -> RK m (Shift Q lo) (ret a).
  Proof. intro H. apply RK_ret. intros k H1 H2. unfold Shift. auto. Qed.

  Lemma RK_fail {A} m (Q : N -> N -> A -> Prop) msg : RK m Q (fail msg).
  Proof. intros i c Hb Hs Hk Hc. unfold fail. cbn [post]. split; [apply Suffix_refl|exact Hc]. Qed.

  Lemma RK_panic {A} m (Q : N -> N -> A -> Prop) site : RK m Q (fun i c => (@Panic A site, c)).
  Proof. intros i c Hb Hs Hk Hc. exact I. Qed.

  Lemma RK_bind {A C} m (Q1 : N -> N -> A -> Prop) (Q2 : N -> N -> C -> Prop) p k :
    RK m Q1 p ->
    (forall a lo mid, m <= lo -> lo <= mid -> Q1 lo mid a -> RK mid (Shift Q2 lo) (k a)) ->
    RK m Q2 (bind p k).
  Proof.
    intros Hp Hk i c Hb Hs Hm Hc. unfold bind. specialize (Hp i c Hb Hs Hm Hc).
    destruct (p i c) as [[r a|e msg|s|] c']; cbn [post] in *; auto.
    destruct Hp as (A1 & A2 & A3).
    assert (BodyOK r) as Hbr by bsuf.
    pose proof (key_suffix u r i Hb A1) as Hkr.
    specialize (Hk a (key i) (key r) Hm Hkr A2 r c' Hbr (Suffix_trans _ _ _ A1 Hs) (N.le_refl _) A3).
    destruct (k a r c') as [[r2 b|e2 msg2|s2|] c2]; cbn [post] in *; auto.
    - destruct Hk as (B1 & B2 & B3). repeat split; auto. eapply Suffix_trans; eauto.
    - destruct Hk as (B1 & B3). split; auto. eapply Suffix_trans; eauto.
  Qed.

  (* a bind inside a continuation keeps the outer lower bound *)
  Lemma RK_bind_shift {A C} m lo (Q1 : N -> N -> A -> Prop) (Q2 : N -> N -> C -> Prop) p k :
    RK m Q1 p ->
    (forall a lo' mid, m <= lo' -> lo' <= mid -> Q1 lo' mid a -> RK mid (Shift Q2 lo) (k a)) ->
    RK m (Shift Q2 lo) (bind p k).
  Proof. intros Hp Hk. eapply RK_bind; [exact Hp|]. intros a lo' mid H1 H2 H3. exact (Hk a lo' mid H1 H2 H3). Qed.

  (* a sub-parser in tail position of a continuation *)
  Lemma RK_tail {A} m lo (Q : N -> N -> A -> Prop) p : RK m Q p -> MonoQ Q -> lo <= m -> RK m (Shift Q lo) p.
  Proof.
    intros H HQ Hlo. eapply RK_conseq; [exact H|]. intros lo' hi a H1 H2 _ H3. unfold Shift.
    eapply HQ; eauto; lia.
  Qed.

  Lemma RK_prepend {A} m (Q : N -> N -> A -> Prop) pre p : RK m Q p -> RK m Q (prepend pre p).
  Proof.
    intros H i c Hb Hs Hk Hc. unfold prepend. specialize (H i c Hb Hs Hk Hc).
    destruct (p i c) as [[r a|e msg|s|] c']; cbn [post] in *; auto.
  Qed.

  Lemma RK_with_ctx m (f : ctx -> ctx) : (forall c, Iv c -> Iv (f c)) -> RK m (@TrueQ unit) (with_ctx f).
  Proof. intros H i c Hb Hs Hk Hc. unfold with_ctx. cbn [post]. repeat split; [apply Suffix_refl|auto]. Qed.

  Lemma RK_recover_at_error {A} m (Q : N -> N -> A -> Prop) p : RK m Q p -> RK m (OptQ Q) (recover_at_error p).
  Proof.
    intros H i c Hb Hs Hk Hc. unfold recover_at_error. specialize (H i c Hb Hs Hk Hc).
    destruct (p i c) as [[r a|e msg|s|] c']; cbn [post OptQ] in *; auto.
    destruct H as [H1 H2]. repeat split; auto.
  Qed.

  Lemma RK_opt {A} m (Q : N -> N -> A -> Prop) p : RK m Q p -> RK m (OptQ Q) (opt p).
  Proof.
    intros H i c Hb Hs Hk Hc. unfold opt. specialize (H i c Hb Hs Hk Hc).
    destruct (p i c) as [[r a|e msg|s|] c']; cbn [post OptQ] in *; auto.
    destruct H as [H1 H2]. repeat split; auto. apply Suffix_refl.
  Qed.

  (* ---------- tokens ---------- *)
  Lemma exp_token_go_spec ty orig l : BodyOK l ->
    match exp_token_go ty orig l with
    | Ok r t => Suffix r l /\ T t /\ key l <= traw t /\ traw t < key r /\ tty t = ty
    | Err e _ => e = orig
    | _ => False
    end.
  Proof.
    induction l as [|t l IH]; intro Hb; cbn [exp_token_go]; [reflexivity|].
    destruct (BodyOK_cons u _ _ Hb) as (Ht & Hbl & Hlt).
    destruct (tt_eqb (tty t) ty) eqn:E.
    - apply tt_eqb_eq in E. repeat split; auto; [apply Suffix_tl|cbn; lia].
    - destruct (is_comment t); [|reflexivity]. specialize (IH Hbl).
      destruct (exp_token_go ty orig l) as [r t'|e msg|s|]; auto.
      destruct IH as (A1 & A2 & A3 & A4 & A5). repeat split; auto.
      + eapply Suffix_trans; [exact A1|apply Suffix_tl].
      + change (RangeRel.key u (t :: l)) with (traw t). lia.
  Qed.

  Lemma RK_exp_token m ty : RK m (TokIn [ty]) (exp_token ty).
  Proof.
    intros i c Hb Hs Hk Hc. unfold exp_token. pose proof (exp_token_go_spec ty i i Hb) as H.
    destruct (exp_token_go ty i i) as [r t|e msg|s|]; cbn [post]; auto.
    - destruct H as (A1 & A2 & A3 & A4 & A5). repeat split; auto. left. auto.
    - subst. split; [apply Suffix_refl|exact Hc].
  Qed.

  Lemma exp_ident_val_go_spec v orig l : BodyOK l ->
    match exp_ident_val_go v orig l with
    | Ok r t => Suffix r l /\ T t /\ key l <= traw t /\ traw t < key r /\ tty t = TIdentifier
    | Err e _ => e = orig
    | _ => False
    end.
  Proof.
    induction l as [|t l IH]; intro Hb; cbn [exp_ident_val_go]; [reflexivity|].
    destruct (BodyOK_cons u _ _ Hb) as (Ht & Hbl & Hlt).
    destruct (tt_eqb (tty t) TIdentifier && str_eqb (upper (tval t)) (upper v)) eqn:E.
    - apply andb_true_iff in E as [E _]. apply tt_eqb_eq in E. repeat split; auto; [apply Suffix_tl|cbn; lia].
    - destruct (is_comment t); [|reflexivity]. specialize (IH Hbl).
      destruct (exp_ident_val_go v orig l) as [r t'|e msg|s|]; auto.
      destruct IH as (A1 & A2 & A3 & A4 & A5). repeat split; auto.
      + eapply Suffix_trans; [exact A1|apply Suffix_tl].
      + change (RangeRel.key u (t :: l)) with (traw t). lia.
  Qed.

  Lemma RK_exp_ident_with_value m v : RK m (TokIn [TIdentifier]) (exp_ident_with_value v).
  Proof.
    intros i c Hb Hs Hk Hc. unfold exp_ident_with_value. pose proof (exp_ident_val_go_spec v i i Hb) as H.
    destruct (exp_ident_val_go v i i) as [r t|e msg|s|]; cbn [post]; auto.
    - destruct H as (A1 & A2 & A3 & A4 & A5). repeat split; auto. left. auto.
    - subst. split; [apply Suffix_refl|exact Hc].
  Qed.

  (* take_until: the slice is a sorted list of tokens inside the window; so is the terminator *)
  Definition SliceQ (tys : list ttype) (lo hi : N) (x : list tok * option tok) : Prop :=
    BodyOK (fst x) /\ (forall t, In t (fst x) -> lo <= traw t /\ traw t < hi) /\ OptQ (TokIn tys) lo hi (snd x).

  Lemma take_until_go_spec tys l acc :
    let '(rest, body, term) := take_until_go tys l acc in
    exists mid, body = rev acc ++ mid /\
      l = mid ++ (match term with Some t => t :: rest | None => rest end) /\
      match term with Some t => In (tty t) tys | None => rest = [] end.
  Proof.
    revert acc. induction l as [|t l IH]; intro acc; cbn [take_until_go].
    - exists []. rewrite app_nil_r. auto.
    - destruct (existsb (tt_eqb (tty t)) tys) eqn:E.
      + exists []. rewrite app_nil_r. repeat split; auto.
        apply existsb_exists in E as (x & Hx & Ex). apply tt_eqb_eq in Ex. subst. exact Hx.
      + specialize (IH (t :: acc)). destruct (take_until_go tys l (t :: acc)) as [[rest body] term].
        destruct IH as (mid & A1 & A2 & A3). exists (t :: mid). cbn [rev] in A1. rewrite <- app_assoc in A1.
        repeat split; auto. cbn [app]. f_equal. exact A2.
  Qed.

  Lemma RK_take_until m tys : RK m (SliceQ tys) (take_until tys).
  Proof.
    intros i c Hb Hs Hk Hc. unfold take_until. pose proof (take_until_go_spec tys i []) as H.
    destruct (take_until_go tys i []) as [[rest body] term]. destruct H as (mid & A1 & A2 & A3).
    cbn [rev app] in A1. subst body. cbn [post]. unfold SliceQ. cbn [fst snd].
    assert (Suffix rest i) as Hsr.
    { destruct term as [t|]; [exists (mid ++ [t]); rewrite <- app_assoc; exact A2|exists mid; exact A2]. }
    split; [exact Hsr|]. split; [|exact Hc].
    assert (BodyOK mid) as Hbm by (rewrite A2 in Hb; eapply BodyOK_prefix; exact Hb).
    split; [exact Hbm|]. split.
    - intros t Ht. split; [apply key_in; auto; rewrite A2; apply in_or_app; auto|].
      destruct term as [t'|].
      + assert (BodyOK (t' :: rest)) as Hbt by (eapply BodyOK_suffix; [exact Hb|exists mid; exact A2]).
        destruct (BodyOK_cons u _ _ Hbt) as (_ & _ & Hlt).
        destruct Hb as [Hss _]. rewrite A2 in Hss.
        assert (rawlt t t') as Hr.
        { clear - Hss Ht. induction mid as [|x mid IH]; [destruct Ht|]. cbn [app] in Hss. inversion Hss; subst.
          destruct Ht as [<-|Ht]; [|auto]. rewrite Forall_forall in H2. apply H2. apply in_or_app. right. left. reflexivity. }
        unfold rawlt in Hr. lia.
      + subst rest. change (RangeRel.key u []) with top. apply (uHtop u).
        destruct Hb as [_ Hi]. apply Hi. rewrite A2. apply in_or_app. auto.
    - destruct term as [t'|]; cbn [OptQ]; [|exact I].
      assert (BodyOK (t' :: rest)) as Hbt by (eapply BodyOK_suffix; [exact Hb|exists mid; exact A2]).
      destruct (BodyOK_cons u _ _ Hbt) as (Ht' & _ & Hlt). repeat split; auto.
      apply key_in; auto. rewrite A2. apply in_or_app. right. left. reflexivity.
  Qed.

  (* ---------- alternatives ---------- *)
  Lemma RK_alt_go {A} m (Q : N -> N -> A -> Prop) ps : Forall (RK m Q) ps ->
    forall best i c, BodyOK i -> Suffix i B -> m <= key i -> Iv c ->
      match best with Some (e, _) => Suffix e i | None => True end ->
      post i Q (alt_go ps best i c).
  Proof.
    induction 1 as [|p ps Hp Hps IH]; intros best i c Hb Hs Hk Hc Hbest; cbn [alt_go].
    - destruct best as [[e msg]|]; cbn [post]; auto.
    - specialize (Hp i c Hb Hs Hk Hc).
      destruct (p i c) as [[r a|e msg|s|] c']; cbn [post] in *; auto.
      destruct Hp as [H1 H2]. apply IH; auto.
      destruct best as [[be bm]|]; [destruct (ilen e <? ilen be)|]; auto.
  Qed.

  Lemma RK_alt {A} m (Q : N -> N -> A -> Prop) ps : Forall (RK m Q) ps -> RK m Q (alt ps).
  Proof. intros H i c Hb Hs Hk Hc. unfold alt. apply (RK_alt_go m Q ps H None i c); auto. Qed.

  Lemma RK_tok_alt m tys : RK m (TokIn tys) (tok_alt tys).
  Proof.
    unfold tok_alt. apply RK_alt.
    assert (forall l, (forall x, In x l -> In x tys) -> Forall (RK m (TokIn tys)) (map exp_token l)) as H.
    { induction l as [|ty l IH]; intro Hl; cbn [map]; constructor.
      - eapply RK_conseq; [apply RK_exp_token|]. intros lo hi a _ _ _ Ha. eapply TokIn_weaken; [exact Ha|].
        intros x [<-|[]]. apply Hl. left. reflexivity.
      - apply IH. intros x Hx. apply Hl. right. exact Hx. }
    apply H. auto.
  Qed.


  (* ---------- helpers for the loops ---------- *)
  Lemma use_RK {A} m (Q : N -> N -> A -> Prop) p i c :
    RK m Q p -> BodyOK i -> Suffix i B -> m <= key i -> Iv c -> post i Q (p i c).
  Proof. intros H. apply H. Qed.

  Lemma step_snoc {A} (Q : N -> N -> A -> Prop) lo0 k1 k1' k2 k3 acc a : MonoQ Q ->
    Chain Q lo0 k1 (rev acc) -> Q k1' k2 a -> k1 <= k1' -> k1' <= k2 -> k2 <= k3 ->
    Chain Q lo0 k3 (rev (a :: acc)).
  Proof.
    intros HQ Hc Ha H1 H2 H3. cbn [rev]. eapply Chain_snoc; [exact HQ|exact Hc| |exact H1|lia].
    eapply HQ; [exact Ha|lia|exact H3].
  Qed.

  Lemma skip_suffix i e : Suffix e i -> Suffix (skip_after_error i e) i.
  Proof.
    intro H. unfold skip_after_error. destruct (ilen e =? ilen i); [|exact H].
    destruct e as [|t e]; cbn [tl]; [exact H|]. eapply Suffix_cons; exact H.
  Qed.

  (* ---------- token sequences ---------- *)
  Lemma RK_seq_tokens_gen tys0 tys : (forall x, In x tys -> In x tys0) ->
    forall m, RK m (fun lo hi l => Chain (TokIn tys0) lo hi l /\ length l = length tys) (seq_tokens tys).
  Proof.
    induction tys as [|ty tys IH]; intros Hin m; cbn [seq_tokens].
    - apply RK_ret. intros k H1 H2. split; [constructor; lia|reflexivity].
    - eapply RK_bind; [apply RK_exp_token|]. intros t lo mid H1 H2 Ht.
      eapply RK_bind_shift; [apply IH; intros x Hx; apply Hin; right; exact Hx|].
      intros l lo' mid' H3 H4 [Hc Hl]. apply RK_ret_shift. intros hi H5 H6. split; [|cbn [length]; congruence].
      apply (Chain_cons _ lo mid hi); [|exact H2|].
      + eapply TokIn_weaken; [exact Ht|]. intros x [<-|[]]. apply Hin. left. reflexivity.
      + eapply Chain_widen; [apply Mono_TokIn|exact Hc|lia|lia].
  Qed.

  Lemma RK_seq_tokens m tys :
    RK m (fun lo hi l => Chain (TokIn tys) lo hi l /\ length l = length tys) (seq_tokens tys).
  Proof. apply RK_seq_tokens_gen. auto. Qed.

  Lemma RK_sep_tokens_go item sep fuel : forall acc i c lo0,
    BodyOK i -> Suffix i B -> Iv c -> lo0 <= key i -> Chain (TokIn [item]) lo0 (key i) (rev acc) ->
    post i (Shift (Chain (TokIn [item])) lo0) (sep_tokens_go fuel item sep acc i c).
  Proof.
    induction fuel as [|f IH]; intros acc i c lo0 Hb Hs Hc Hlo Hch; [exact I|]. cbn [sep_tokens_go].
    pose proof (use_RK _ _ _ i c (RK_exp_token (key i) item) Hb Hs (N.le_refl _) Hc) as H1.
    destruct (exp_token item i c) as [[r t|e msg|s|] c1]; cbn [post] in *; auto.
    destruct H1 as (A1 & A2 & A3).
    assert (BodyOK r) as Hbr by bsuf.
    pose proof (key_suffix u r i Hb A1) as Hkr.
    pose proof (use_RK _ _ _ r c1 (RK_exp_token (key r) sep) Hbr (Suffix_trans _ _ _ A1 Hs) (N.le_refl _) A3) as H2.
    destruct (exp_token sep r c1) as [[r2 t2|e2 msg2|s2|] c2]; cbn [post] in *; auto.
    - destruct H2 as (B1 & B2 & B3).
      assert (BodyOK r2) as Hbr2 by bsuf.
      pose proof (key_suffix u r2 r Hbr B1) as Hkr2.
      specialize (IH (t :: acc) r2 c2 lo0 Hbr2 (Suffix_trans _ _ _ B1 (Suffix_trans _ _ _ A1 Hs)) B3 ltac:(lia)).
      specialize (IH (step_snoc _ _ _ _ _ _ _ _ (Mono_TokIn u _) Hch A2 (N.le_refl _) Hkr Hkr2)).
      destruct (sep_tokens_go f item sep (t :: acc) r2 c2) as [[r3 l3|e3 msg3|s3|] c3]; cbn [post] in *; auto.
      + destruct IH as (C1 & C2 & C3). repeat split; auto. eapply Suffix_trans; [exact C1|eapply Suffix_trans; eauto].
      + destruct IH as (C1 & C3). split; auto. eapply Suffix_trans; [exact C1|eapply Suffix_trans; eauto].
    - destruct H2 as (B1 & B3). split; [eapply Suffix_trans; eauto|]. split; [|exact B3]. unfold Shift.
      pose proof (key_suffix u e2 r Hbr B1) as Hke.
      exact (step_snoc _ _ _ _ _ _ _ _ (Mono_TokIn u _) Hch A2 (N.le_refl _) Hkr Hke).
  Qed.

  Lemma RK_sep_tokens m item sep : RK m (Chain (TokIn [item])) (sep_tokens item sep).
  Proof.
    intros i c Hb Hs Hk Hc. unfold sep_tokens.
    pose proof (RK_sep_tokens_go item sep (S (length i)) [] i c (key i) Hb Hs Hc (N.le_refl _)) as H.
    specialize (H ltac:(constructor; lia)).
    destruct (sep_tokens_go (S (length i)) item sep [] i c) as [[r l|e msg|s|] c1]; cbn [post] in *; auto.
  Qed.

  (* ---------- lists with error recovery ---------- *)
  Lemma RK_sep_list_rec {A} (Q : N -> N -> A -> Prop) p sep : MonoQ Q -> (forall m, RK m Q p) ->
    forall fuel prev acc i c lo0, T prev ->
    BodyOK i -> Suffix i B -> Iv c -> lo0 <= key i -> Chain Q lo0 (key i) (rev acc) ->
    post i (Shift (Chain Q) lo0) (sep_list_rec fuel p sep prev acc i c).
  Proof.
    intros HQ Hp. induction fuel as [|f IH]; intros prev acc i c lo0 Hprev Hb Hs Hc Hlo Hch; [exact I|]. cbn [sep_list_rec].
    pose proof (use_RK _ _ _ i c (Hp (key i)) Hb Hs (N.le_refl _) Hc) as H1.
    (* the state after the item: position, accumulator, context *)
    assert (forall r acc' c1, Suffix r i -> Iv c1 -> Chain Q lo0 (key r) (rev acc') ->
              post i (Shift (Chain Q) lo0)
                (match exp_token sep r c1 with
                 | (Ok r2 st, c2) => sep_list_rec f p sep st acc' r2 c2
                 | (Err e _, c2) => (Ok e (rev acc'), c2)
                 | (Panic s, c2) => (Panic s, c2)
                 | (NoFuel, c2) => (NoFuel, c2)
                 end)) as Hafter.
    { intros r acc' c1 A1 A3 Hch'.
      assert (BodyOK r) as Hbr by bsuf.
      pose proof (key_suffix u r i Hb A1) as Hkr.
      pose proof (use_RK _ _ _ r c1 (RK_exp_token (key r) sep) Hbr (Suffix_trans _ _ _ A1 Hs) (N.le_refl _) A3) as H2.
      destruct (exp_token sep r c1) as [[r2 t2|e2 msg2|s2|] c2]; cbn [post] in *; auto.
      - destruct H2 as (B1 & B2 & B3).
        assert (BodyOK r2) as Hbr2 by bsuf.
        pose proof (key_suffix u r2 r Hbr B1) as Hkr2.
        specialize (IH t2 acc' r2 c2 lo0 (proj1 B2) Hbr2 (Suffix_trans _ _ _ B1 (Suffix_trans _ _ _ A1 Hs)) B3 ltac:(lia)).
        specialize (IH ltac:(eapply Chain_widen; [exact HQ|exact Hch'|lia|lia])).
        destruct (sep_list_rec f p sep t2 acc' r2 c2) as [[r3 l3|e3 msg3|s3|] c3]; cbn [post] in *; auto.
        + destruct IH as (C1 & C2 & C3). repeat split; auto. eapply Suffix_trans; [exact C1|eapply Suffix_trans; eauto].
        + destruct IH as (C1 & C3). split; auto. eapply Suffix_trans; [exact C1|eapply Suffix_trans; eauto].
      - destruct H2 as (B1 & B3). split; [eapply Suffix_trans; eauto|]. split; [|exact B3]. unfold Shift.
        pose proof (key_suffix u e2 r Hbr B1) as Hke.
        eapply Chain_widen; [exact HQ|exact Hch'|lia|lia]. }
    destruct (p i c) as [[r a|e msg|s|] c1]; cbn [post] in *; auto.
    - destruct H1 as (A1 & A2 & A3). apply Hafter; auto.
      pose proof (key_suffix u r i Hb A1) as Hkr.
      exact (step_snoc _ _ _ _ _ _ _ _ HQ Hch A2 (N.le_refl _) Hkr (N.le_refl _)).
    - destruct H1 as (A1 & A3). apply Hafter; auto.
      + apply I_diag; [apply sep_diag_ok; auto|exact A3].
      + pose proof (key_suffix u e i Hb A1) as Hke. eapply Chain_widen; [exact HQ|exact Hch|lia|lia].
  Qed.

  Lemma RK_sep_list {A} m (Q : N -> N -> A -> Prop) p sep : MonoQ Q -> (forall m, RK m Q p) ->
    RK m (Chain Q) (sep_list p sep).
  Proof.
    intros HQ Hp i c Hb Hs Hk Hc. unfold sep_list.
    pose proof (use_RK _ _ _ i c (Hp (key i)) Hb Hs (N.le_refl _) Hc) as H1.
    destruct (p i c) as [[r a|e msg|s|] c1]; cbn [post] in *; auto.
    - destruct H1 as (A1 & A2 & A3).
      assert (BodyOK r) as Hbr by bsuf.
      pose proof (key_suffix u r i Hb A1) as Hkr.
      pose proof (use_RK _ _ _ r c1 (RK_exp_token (key r) sep) Hbr (Suffix_trans _ _ _ A1 Hs) (N.le_refl _) A3) as H2.
      destruct (exp_token sep r c1) as [[r2 t2|e2 msg2|s2|] c2]; cbn [post] in *; auto.
      + destruct H2 as (B1 & B2 & B3).
        assert (BodyOK r2) as Hbr2 by bsuf.
        pose proof (key_suffix u r2 r Hbr B1) as Hkr2.
        pose proof (RK_sep_list_rec Q p sep HQ Hp (S (length r2)) t2 [a] r2 c2 (key i) (proj1 B2) Hbr2
                      (Suffix_trans _ _ _ B1 (Suffix_trans _ _ _ A1 Hs)) B3 ltac:(lia)) as H3.
        specialize (H3 ltac:(cbn [rev app]; apply (Chain_cons _ (key i) (key r) (key r2)); [exact A2|lia|constructor; lia])).
        destruct (sep_list_rec (S (length r2)) p sep t2 [a] r2 c2) as [[r3 l3|e3 msg3|s3|] c3]; cbn [post] in *; auto.
        * destruct H3 as (C1 & C2 & C3). repeat split; auto. eapply Suffix_trans; [exact C1|eapply Suffix_trans; eauto].
        * destruct H3 as (C1 & C3). split; auto. eapply Suffix_trans; [exact C1|eapply Suffix_trans; eauto].
      + destruct H2 as (B1 & B3). split; [eapply Suffix_trans; eauto|]. split; [|exact B3].
        pose proof (key_suffix u e2 r Hbr B1) as Hke.
        apply (Chain_cons _ (key i) (key r) (key e2)); [exact A2|lia|constructor; lia].
    - destruct H1 as (A1 & A3). repeat split; auto. constructor. apply key_suffix; auto.
  Qed.

  (* ---------- loops ---------- *)
  Lemma RK_repeat_go {A} (Q : N -> N -> A -> Prop) p : MonoQ Q -> (forall m, RK m Q p) ->
    forall fuel acc i c lo0,
    BodyOK i -> Suffix i B -> Iv c -> lo0 <= key i -> Chain Q lo0 (key i) (rev acc) ->
    post i (Shift (Chain Q) lo0) (repeat_go fuel p acc i c).
  Proof.
    intros HQ Hp. induction fuel as [|f IH]; intros acc i c lo0 Hb Hs Hc Hlo Hch; [exact I|]. cbn [repeat_go].
    destruct i as [|t0 i']; [cbn [post]; repeat split; [apply Suffix_refl|exact Hch|exact Hc]|].
    set (i := t0 :: i') in *.
    pose proof (use_RK _ _ _ i c (Hp (key i)) Hb Hs (N.le_refl _) Hc) as H1.
    destruct (p i c) as [[r a|e msg|s|] c1]; cbn [post] in *; auto.
    - destruct H1 as (A1 & A2 & A3).
      assert (BodyOK r) as Hbr by bsuf.
      pose proof (key_suffix u r i Hb A1) as Hkr.
      specialize (IH (a :: acc) r c1 lo0 Hbr (Suffix_trans _ _ _ A1 Hs) A3 ltac:(lia)
                     (step_snoc _ _ _ _ _ _ _ _ HQ Hch A2 (N.le_refl _) Hkr (N.le_refl _))).
      destruct (repeat_go f p (a :: acc) r c1) as [[r3 l3|e3 msg3|s3|] c3]; cbn [post] in *; auto.
      + destruct IH as (C1 & C2 & C3). split; [eapply Suffix_trans; eauto|]. split; [exact C2|exact C3].
      + destruct IH as (C1 & C3). split; auto. eapply Suffix_trans; eauto.
    - destruct H1 as (A1 & A3).
      pose proof (skip_suffix i e A1) as Hsk.
      assert (BodyOK (skip_after_error i e)) as Hbr by bsuf.
      pose proof (key_suffix u _ i Hb Hsk) as Hkr.
      assert (BodyOK e) as Hbe by bsuf.
      specialize (IH acc (skip_after_error i e) (add_diag (diag_at i e msg) c1) lo0 Hbr (Suffix_trans _ _ _ Hsk Hs)
                     (I_diag _ _ (diag_at_ok u t0 i' e msg Hb Hbe) A3) ltac:(lia)
                     ltac:(eapply Chain_widen; [exact HQ|exact Hch|lia|lia])).
      destruct (repeat_go f p acc (skip_after_error i e) (add_diag (diag_at i e msg) c1)) as [[r3 l3|e3 msg3|s3|] c3]; cbn [post] in *; auto.
      + destruct IH as (C1 & C2 & C3). split; [eapply Suffix_trans; eauto|]. split; [exact C2|exact C3].
      + destruct IH as (C1 & C3). split; auto. eapply Suffix_trans; eauto.
  Qed.

  Lemma RK_repeat {A} m (Q : N -> N -> A -> Prop) p : MonoQ Q -> (forall m, RK m Q p) -> RK m (Chain Q) (repeat_w_ctx p).
  Proof.
    intros HQ Hp i c Hb Hs Hk Hc. unfold repeat_w_ctx.
    pose proof (RK_repeat_go Q p HQ Hp (S (length i)) [] i c (key i) Hb Hs Hc (N.le_refl _) ltac:(constructor; lia)) as H.
    destruct (repeat_go (S (length i)) p [] i c) as [[r l|e msg|s|] c1]; cbn [post] in *; auto.
  Qed.

  Definition UntilQ {A} (Q : N -> N -> A -> Prop) (Qs : N -> N -> tok -> Prop) : N -> N -> list A * option tok -> Prop :=
    PairQ (Chain Q) (OptQ Qs).

  Lemma RK_until_go {A} (Q : N -> N -> A -> Prop) Qs stop p : MonoQ Q -> MonoQ Qs ->
    (forall m, RK m Qs stop) -> (forall m, RK m Q p) ->
    forall fuel acc i c lo0,
    BodyOK i -> Suffix i B -> Iv c -> lo0 <= key i -> Chain Q lo0 (key i) (rev acc) ->
    post i (Shift (UntilQ Q Qs) lo0) (until_go fuel stop p acc i c).
  Proof.
    intros HQ HQs Hst Hp. induction fuel as [|f IH]; intros acc i c lo0 Hb Hs Hc Hlo Hch; [exact I|]. cbn [until_go].
    destruct i as [|t0 i']; [cbn [post]; repeat split; [apply Suffix_refl|exact Hch|exact Hc]|].
    set (i := t0 :: i') in *.
    pose proof (use_RK _ _ _ i c (Hst (key i)) Hb Hs (N.le_refl _) Hc) as H0.
    destruct (stop i c) as [[r0 t|e0 msg0|s0|] c0]; cbn [post] in *; auto.
    { destruct H0 as (A1 & A2 & A3). split; [exact A1|]. split; [|exact A3].
      pose proof (key_suffix u r0 i Hb A1) as Hkr. unfold Shift, UntilQ, PairQ. cbn [fst snd OptQ]. split.
      - eapply Chain_widen; [exact HQ|exact Hch|lia|lia].
      - eapply HQs; [exact A2|lia|lia]. }
    destruct H0 as (_ & Hc0).
    pose proof (use_RK _ _ _ i c0 (Hp (key i)) Hb Hs (N.le_refl _) Hc0) as H1.
    destruct (p i c0) as [[r a|e msg|s|] c1]; cbn [post] in *; auto.
    - destruct H1 as (A1 & A2 & A3).
      assert (BodyOK r) as Hbr by bsuf.
      pose proof (key_suffix u r i Hb A1) as Hkr.
      specialize (IH (a :: acc) r c1 lo0 Hbr (Suffix_trans _ _ _ A1 Hs) A3 ltac:(lia)
                     (step_snoc _ _ _ _ _ _ _ _ HQ Hch A2 (N.le_refl _) Hkr (N.le_refl _))).
      destruct (until_go f stop p (a :: acc) r c1) as [[r3 l3|e3 msg3|s3|] c3]; cbn [post] in *; auto.
      + destruct IH as (C1 & C2 & C3). split; [eapply Suffix_trans; eauto|]. split; [exact C2|exact C3].
      + destruct IH as (C1 & C3). split; auto. eapply Suffix_trans; eauto.
    - destruct H1 as (A1 & A3).
      pose proof (skip_suffix i e A1) as Hsk.
      assert (BodyOK (skip_after_error i e)) as Hbr by bsuf.
      pose proof (key_suffix u _ i Hb Hsk) as Hkr.
      assert (BodyOK e) as Hbe by bsuf.
      specialize (IH acc (skip_after_error i e) (add_diag (diag_at i e msg) c1) lo0 Hbr (Suffix_trans _ _ _ Hsk Hs)
                     (I_diag _ _ (diag_at_ok u t0 i' e msg Hb Hbe) A3) ltac:(lia)
                     ltac:(eapply Chain_widen; [exact HQ|exact Hch|lia|lia])).
      destruct (until_go f stop p acc (skip_after_error i e) (add_diag (diag_at i e msg) c1)) as [[r3 l3|e3 msg3|s3|] c3]; cbn [post] in *; auto.
      + destruct IH as (C1 & C2 & C3). split; [eapply Suffix_trans; eauto|]. split; [exact C2|exact C3].
      + destruct IH as (C1 & C3). split; auto. eapply Suffix_trans; eauto.
  Qed.

  Lemma RK_until {A} m (Q : N -> N -> A -> Prop) Qs stop p : MonoQ Q -> MonoQ Qs ->
    (forall m, RK m Qs stop) -> (forall m, RK m Q p) -> RK m (UntilQ Q Qs) (until_w_ctx stop p).
  Proof.
    intros HQ HQs Hst Hp i c Hb Hs Hk Hc. unfold until_w_ctx.
    pose proof (RK_until_go Q Qs stop p HQ HQs Hst Hp (S (length i)) [] i c (key i) Hb Hs Hc (N.le_refl _) ltac:(constructor; lia)) as H.
    destruct (until_go (S (length i)) stop p [] i c) as [[r l|e msg|s|] c1]; cbn [post] in *; auto.
  Qed.

  Lemma RK_until_strict_go {A} (Q : N -> N -> A -> Prop) Qs stop p : MonoQ Q -> MonoQ Qs ->
    (forall m, RK m Qs stop) -> (forall m, RK m Q p) ->
    forall fuel acc i c lo0,
    BodyOK i -> Suffix i B -> Iv c -> lo0 <= key i -> Chain Q lo0 (key i) (rev acc) ->
    post i (Shift (UntilQ Q Qs) lo0) (until_strict_go fuel stop p acc i c).
  Proof.
    intros HQ HQs Hst Hp. induction fuel as [|f IH]; intros acc i c lo0 Hb Hs Hc Hlo Hch; [exact I|]. cbn [until_strict_go].
    destruct i as [|t0 i']; [cbn [post]; repeat split; [apply Suffix_refl|exact Hch|exact Hc]|].
    set (i := t0 :: i') in *.
    pose proof (use_RK _ _ _ i c (Hst (key i)) Hb Hs (N.le_refl _) Hc) as H0.
    destruct (stop i c) as [[r0 t|e0 msg0|s0|] c0]; cbn [post] in *; auto.
    { destruct H0 as (A1 & A2 & A3). split; [exact A1|]. split; [|exact A3].
      pose proof (key_suffix u r0 i Hb A1) as Hkr. unfold Shift, UntilQ, PairQ. cbn [fst snd OptQ]. split.
      - eapply Chain_widen; [exact HQ|exact Hch|lia|lia].
      - eapply HQs; [exact A2|lia|lia]. }
    destruct H0 as (_ & Hc0).
    pose proof (use_RK _ _ _ i c0 (Hp (key i)) Hb Hs (N.le_refl _) Hc0) as H1.
    destruct (p i c0) as [[r a|e msg|s|] c1]; cbn [post] in *; auto.
    destruct H1 as (A1 & A2 & A3).
    assert (BodyOK r) as Hbr by bsuf.
    pose proof (key_suffix u r i Hb A1) as Hkr.
    specialize (IH (a :: acc) r c1 lo0 Hbr (Suffix_trans _ _ _ A1 Hs) A3 ltac:(lia)
                   (step_snoc _ _ _ _ _ _ _ _ HQ Hch A2 (N.le_refl _) Hkr (N.le_refl _))).
    destruct (until_strict_go f stop p (a :: acc) r c1) as [[r3 l3|e3 msg3|s3|] c3]; cbn [post] in *; auto.
    + destruct IH as (C1 & C2 & C3). split; [eapply Suffix_trans; eauto|]. split; [exact C2|exact C3].
    + destruct IH as (C1 & C3). split; auto. eapply Suffix_trans; eauto.
  Qed.

  Lemma RK_until_strict {A} m (Q : N -> N -> A -> Prop) Qs stop p : MonoQ Q -> MonoQ Qs ->
    (forall m, RK m Qs stop) -> (forall m, RK m Q p) -> RK m (UntilQ Q Qs) (until_strict stop p).
  Proof.
    intros HQ HQs Hst Hp i c Hb Hs Hk Hc. unfold until_strict.
    pose proof (RK_until_strict_go Q Qs stop p HQ HQs Hst Hp (S (length i)) [] i c (key i) Hb Hs Hc (N.le_refl _) ltac:(constructor; lia)) as H.
    destruct (until_strict_go (S (length i)) stop p [] i c) as [[r l|e msg|s|] c1]; cbn [post] in *; auto.
  Qed.

  Lemma RK_until_no_match_go {A} (Q : N -> N -> A -> Prop) p : MonoQ Q -> (forall m, RK m Q p) ->
    forall fuel acc i c lo0,
    BodyOK i -> Suffix i B -> Iv c -> lo0 <= key i -> Chain Q lo0 (key i) (rev acc) ->
    post i (Shift (Chain Q) lo0) (until_no_match_go fuel p acc i c).
  Proof.
    intros HQ Hp. induction fuel as [|f IH]; intros acc i c lo0 Hb Hs Hc Hlo Hch; [exact I|]. cbn [until_no_match_go].
    destruct i as [|t0 i']; [cbn [post]; repeat split; [apply Suffix_refl|exact Hch|exact Hc]|].
    set (i := t0 :: i') in *.
    pose proof (use_RK _ _ _ i c (Hp (key i)) Hb Hs (N.le_refl _) Hc) as H1.
    destruct (p i c) as [[r a|e msg|s|] c1]; cbn [post] in *; auto.
    - destruct H1 as (A1 & A2 & A3).
      assert (BodyOK r) as Hbr by bsuf.
      pose proof (key_suffix u r i Hb A1) as Hkr.
      specialize (IH (a :: acc) r c1 lo0 Hbr (Suffix_trans _ _ _ A1 Hs) A3 ltac:(lia)
                     (step_snoc _ _ _ _ _ _ _ _ HQ Hch A2 (N.le_refl _) Hkr (N.le_refl _))).
      destruct (until_no_match_go f p (a :: acc) r c1) as [[r3 l3|e3 msg3|s3|] c3]; cbn [post] in *; auto.
      + destruct IH as (C1 & C2 & C3). split; [eapply Suffix_trans; eauto|]. split; [exact C2|exact C3].
      + destruct IH as (C1 & C3). split; auto. eapply Suffix_trans; eauto.
    - destruct H1 as (A1 & A3). repeat split; [apply Suffix_refl|exact Hch|exact A3].
  Qed.

  Lemma RK_until_no_match {A} m (Q : N -> N -> A -> Prop) p : MonoQ Q -> (forall m, RK m Q p) ->
    RK m (Chain Q) (until_no_match p).
  Proof.
    intros HQ Hp i c Hb Hs Hk Hc. unfold until_no_match.
    pose proof (RK_until_no_match_go Q p HQ Hp (S (length i)) [] i c (key i) Hb Hs Hc (N.le_refl _) ltac:(constructor; lia)) as H.
    destruct (until_no_match_go (S (length i)) p [] i c) as [[r l|e msg|s|] c1]; cbn [post] in *; auto.
  Qed.


  (* ---------- node builders ---------- *)
  Local Notation sel_ok := (sel_ok u).
  Local Notation L := (uL u).

  Lemma NodeOK_intro k id raw rng at_ ch lo hi :
    RangeOK lo hi rng -> sel_ok (Node k id raw rng at_ ch) -> name_ok (Node k id raw rng at_ ch) ->
    Forall AllWf ch -> NodeOK lo hi (Node k id raw rng at_ ch).
  Proof.
    intros Hr Hs Hn Hc. split; [exact Hr|]. apply AllWf_node. split; [|exact Hc].
    split; [eapply RangeOK_wf; exact Hr|]. split; [eapply RangeOK_lines; exact Hr|]. split; assumption.
  Qed.

  Lemma mk_binop_ok lo hi lo1 hi1 lo2 hi2 op l r :
    NodeOK lo1 hi1 l -> NodeOK lo2 hi2 r -> hi1 <= lo2 -> lo <= lo1 -> hi1 <= hi ->
    NodeOK lo hi (mk_binop op l r).
  Proof.
    intros [Rl Al] [Rr Ar] H1 H2 H3. unfold mk_binop, new_range. apply NodeOK_intro.
    - eapply RangeOK_mk; eauto.
    - apply sel_ok_none; reflexivity.
    - apply name_ok_other; discriminate.
    - apply Forall_cons; [exact Al|apply Forall_cons; [exact Ar|apply Forall_nil]].
  Qed.

  (* the AstEmpty after a dangling dot: one column right of the dot up to the end of the token at
     the error position (or one column wide at the end of the input) *)
  Lemma empty_after_dot_ok op e : T op -> BodyOK e -> traw op < key e ->
    AllWf (empty_after_dot op e) /\
    pline (rend (nrange (empty_after_dot op e))) <= L /\
    exists b, T b /\ traw op <= traw b /\ pos_le (tstart b) (rend (nrange (empty_after_dot op e))).
  Proof.
    intros Hop Hbe Hlt. unfold empty_after_dot, new_range, tpos. cbn [nrange rstart rend pline pcol].
    pose proof (ts_lines _ _ (uHts u) op Hop) as Lop. pose proof (ts_wf _ _ (uHts u) op Hop) as Wop.
    destruct e as [|t e].
    - split; [|split].
      + apply AllWf_node. split; [|constructor]. split; [pos_solve|]. split; [pos_solve|].
        split; [apply sel_ok_none; reflexivity|apply name_ok_other; discriminate].
      + pos_solve.
      + exists op. split; [exact Hop|]. split; [lia|pos_solve].
    - destruct (BodyOK_cons u _ _ Hbe) as (Ht & _ & _). change (key (t :: e)) with (traw t) in Hlt.
      pose proof (ts_lines _ _ (uHts u) t Ht) as Lt. pose proof (ts_wf _ _ (uHts u) t Ht) as Wt.
      pose proof (ts_start_lt _ _ (uHts u) op t Hop Ht Hlt) as Hst.
      split; [|split].
      + apply AllWf_node. split; [|constructor]. split; [pos_solve|]. split; [pos_solve|].
        split; [apply sel_ok_none; reflexivity|apply name_ok_other; discriminate].
      + pos_solve.
      + exists t. split; [exact Ht|]. split; [lia|exact Wt].
  Qed.

  Lemma binop_empty_ok lo hi lo1 hi1 op l e :
    NodeOK lo1 hi1 l -> T op -> hi1 <= traw op -> BodyOK e -> traw op < key e -> lo <= lo1 -> hi1 <= hi ->
    NodeOK lo hi (mk_binop op l (empty_after_dot op e)).
  Proof.
    intros [Rl Al] Hop H1 Hbe Hlt H2 H3.
    destruct (empty_after_dot_ok op e Hop Hbe Hlt) as (Ae & Le & (b & Hb & Hk & Hp)).
    unfold mk_binop, new_range. apply NodeOK_intro.
    - destruct Rl as (Ll & ks & A1 & A2 & A3 & _). split; [unfold lines_le in *; cbn [rstart rend]; tauto|].
      exists ks. cbn [rstart rend]. repeat split; try lia; [exact A3|]. exists b. repeat split; [exact Hb|lia|exact Hp].
    - apply sel_ok_none; reflexivity.
    - apply name_ok_other; discriminate.
    - apply Forall_cons; [exact Al|apply Forall_cons; [exact Ae|apply Forall_nil]].
  Qed.

  (* ---------- binary operator chains ---------- *)
  Lemma RK_binops_go tys opp ep : (forall m, RK m (TokIn tys) opp) -> (forall m, RK m NodeOK ep) ->
    forall fuel left i c lo0,
    BodyOK i -> Suffix i B -> Iv c -> lo0 <= key i -> NodeOK lo0 (key i) left ->
    post i (Shift NodeOK lo0) (binops_go fuel opp ep left i c).
  Proof.
    intros Hopp Hep. induction fuel as [|f IH]; intros left i c lo0 Hb Hs Hc Hlo Hl; [exact I|]. cbn [binops_go].
    pose proof (use_RK _ _ _ i c (Hopp (key i)) Hb Hs (N.le_refl _) Hc) as H1.
    destruct (opp i c) as [[r op|e0 msg0|s0|] c1]; cbn [post] in *; auto.
    2:{ destruct H1 as [_ H1]. split; [apply Suffix_refl|split; [exact Hl|exact H1]]. }
    destruct H1 as (A1 & A2 & A3).
    assert (BodyOK r) as Hbr by bsuf.
    pose proof (key_suffix u r i Hb A1) as Hkr.
    pose proof (use_RK _ _ _ r c1 (Hep (key r)) Hbr (Suffix_trans _ _ _ A1 Hs) (N.le_refl _) A3) as H2.
    destruct (ep r c1) as [[r2 rn|e msg|s|] c2]; cbn [post] in *; auto.
    - destruct H2 as (B1 & B2 & B3).
      assert (BodyOK r2) as Hbr2 by bsuf.
      pose proof (key_suffix u r2 r Hbr B1) as Hkr2.
      specialize (IH (mk_binop op left rn) r2 c2 lo0 Hbr2 (Suffix_trans _ _ _ B1 (Suffix_trans _ _ _ A1 Hs)) B3 ltac:(lia)).
      specialize (IH ltac:(eapply (mk_binop_ok lo0 (key r2) lo0 (key i) (key r) (key r2)); eauto; lia)).
      destruct (binops_go f opp ep (mk_binop op left rn) r2 c2) as [[r3 a3|e3 msg3|s3|] c3]; cbn [post] in *; auto.
      + destruct IH as (C1 & C2 & C3). split; [eapply Suffix_trans; [exact C1|eapply Suffix_trans; eauto]|]. split; [exact C2|exact C3].
      + destruct IH as (C1 & C3). split; auto. eapply Suffix_trans; [exact C1|eapply Suffix_trans; eauto].
    - destruct H2 as (B1 & B3).
      destruct (tt_eqb (tty op) TDot).
      + assert (BodyOK e) as Hbe by bsuf.
        pose proof (key_suffix u e r Hbr B1) as Hke.
        destruct A2 as (Top & O1 & O2 & _).
        specialize (IH (mk_binop op left (empty_after_dot op e)) r c2 lo0 Hbr (Suffix_trans _ _ _ A1 Hs) B3 ltac:(lia)).
        specialize (IH ltac:(eapply (binop_empty_ok lo0 (key r) lo0 (key i)); eauto; lia)).
        destruct (binops_go f opp ep (mk_binop op left (empty_after_dot op e)) r c2) as [[r3 a3|e3 msg3|s3|] c3]; cbn [post] in *; auto.
        * destruct IH as (C1 & C2 & C3). split; [eapply Suffix_trans; eauto|]. split; [exact C2|exact C3].
        * destruct IH as (C1 & C3). split; auto. eapply Suffix_trans; eauto.
      + cbn [post]. split; [apply Suffix_refl|split; [exact Hl|exact B3]].
  Qed.

  Lemma RK_binops m tys opp ep : (forall m, RK m (TokIn tys) opp) -> (forall m, RK m NodeOK ep) ->
    RK m NodeOK (binops opp ep).
  Proof.
    intros Hopp Hep i c Hb Hs Hk Hc. unfold binops.
    pose proof (use_RK _ _ _ i c (Hep (key i)) Hb Hs (N.le_refl _) Hc) as H1.
    destruct (ep i c) as [[r ln|e msg|s|] c1]; cbn [post] in *; auto.
    destruct H1 as (A1 & A2 & A3).
    assert (BodyOK r) as Hbr by bsuf.
    pose proof (key_suffix u r i Hb A1) as Hkr.
    pose proof (RK_binops_go tys opp ep Hopp Hep (S (length r)) ln r c1 (key i) Hbr (Suffix_trans _ _ _ A1 Hs) A3 Hkr A2) as H2.
    destruct (binops_go (S (length r)) opp ep ln r c1) as [[r3 a3|e3 msg3|s3|] c3]; cbn [post] in *; auto.
    - destruct H2 as (C1 & C2 & C3). split; [eapply Suffix_trans; eauto|]. split; [exact C2|exact C3].
    - destruct H2 as (C1 & C3). split; auto. eapply Suffix_trans; eauto.
  Qed.

End Rel.
