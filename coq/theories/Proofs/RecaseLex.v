(* C17, lexer layer: changing the letter case inside word tokens (keywords, identifiers) changes
   nothing in the lexer's output but the spelling of those tokens' values.
   - word level: a re-cased word gives a similar token of the same kind; words are ASCII;
   - text level: a text re-cased inside the chunks of its word tokens (every other chunk --
     whitespace, literals, comments, numbers, operators, error characters -- left as written)
     lexes into pairwise similar items: same places, same kinds, same ranges, same errors. *)
From GoldV Require Import Base Tokens Keywords Lexer LexerProofs Recase RecaseBase.

(* ---------- characters: classes are invariant under case ---------- *)

Ltac dec_arith :=
  repeat match goal with
  | |- context[N.leb ?a ?b] => destruct (N.leb_spec a b); try (exfalso; lia)
  | |- context[N.eqb ?a ?b] => destruct (N.eqb_spec a b); try (exfalso; lia)
  | |- context[N.ltb ?a ?b] => destruct (N.ltb_spec a b); try (exfalso; lia)
  end; try reflexivity; try (exfalso; lia).

Definition upc_inv (p : N -> bool) : Prop := forall x y, upc x = upc y -> p x = p y.

Ltac upc_inv_start :=
  let x := fresh "x" in let y := fresh "y" in let H := fresh "H" in let Hl := fresh "Hl" in
  intros x y H; destruct (upc_eq_cases x y H) as [->|[[Hl ->]|[Hl ->]]]; [reflexivity| |];
  apply is_lower_bounds in Hl.

Lemma word_char_inv : upc_inv is_word_char.
Proof. upc_inv_start; unfold is_word_char, is_alpha, is_lower, is_upper, is_digit; dec_arith. Qed.

Lemma word_start_inv : upc_inv is_word_start.
Proof. upc_inv_start; unfold is_word_start, is_alpha, is_lower, is_upper; dec_arith. Qed.

Lemma digit_inv : upc_inv is_digit.
Proof. upc_inv_start; unfold is_digit; dec_arith. Qed.

Lemma num_char_inv : upc_inv is_num_char.
Proof. upc_inv_start; unfold is_num_char, is_alpha, is_lower, is_upper, is_digit; dec_arith. Qed.

Lemma blank_inv : upc_inv is_blank.
Proof. upc_inv_start; unfold is_blank; dec_arith. Qed.

Lemma not_eol_inv : upc_inv not_eol.
Proof. upc_inv_start; unfold not_eol; dec_arith. Qed.

(* a character that is not a letter is determined by its upper-casing: in particular every
   comparison with a character below 'A' (quotes, ';', '#', LF, CR, operators) is invariant *)
Lemma eqb_small x y k : upc x = upc y -> k < 65 -> (x =? k) = (y =? k).
Proof. revert x y. upc_inv_start; intro Hk; dec_arith. Qed.

Lemma upc_eq_nonalpha x y : upc x = upc y -> is_alpha x = false -> x = y.
Proof.
  intros H Ha. destruct (upc_eq_cases x y H) as [E|[[Hl E]|[Hl E]]]; [exact E| |];
    apply is_lower_bounds in Hl; exfalso; revert Ha; unfold is_alpha, is_lower, is_upper; subst; dec_arith;
    discriminate.
Qed.

Lemma single_op_inv x y : upc x = upc y -> single_op x = single_op y.
Proof. revert x y. upc_inv_start; unfold single_op; dec_arith. Qed.

Lemma double_op_ci c x x' : upc x = upc x' -> double_op c (Some x) = double_op c (Some x').
Proof.
  intro H. unfold double_op.
  rewrite (eqb_small x x' 60 H ltac:(lia)), (eqb_small x x' 61 H ltac:(lia)),
          (eqb_small x x' 62 H ltac:(lia)), (eqb_small x x' 38 H ltac:(lia)),
          (eqb_small x x' 43 H ltac:(lia)), (eqb_small x x' 45 H ltac:(lia)).
  reflexivity.
Qed.

Lemma word_start_char c : is_word_start c = true -> is_word_char c = true.
Proof.
  unfold is_word_start, is_word_char. destruct (is_alpha c), (is_digit c), (c =? 95); auto.
Qed.

Lemma word_char_ascii c : is_word_char c = true -> c < 128.
Proof.
  unfold is_word_char, is_alpha, is_lower, is_upper, is_digit.
  destruct (N.ltb_spec c 128) as [L|L]; [intros _; exact L|]. dec_arith. discriminate.
Qed.

Lemma word_start_ascii c : is_word_start c = true -> c < 128.
Proof. intro H. apply word_char_ascii. apply word_start_char. exact H. Qed.

(* a non-ASCII character (U+017F long s, U+FB01 fi ligature, U+212A Kelvin sign, ...) is never part
   of a word: the lexer reports it as an error character.  Hence create_word_token's Unicode
   to_uppercase only ever sees ASCII words, on which it coincides with the model's `upper`. *)
Lemma non_ascii_is_error off st c r : 128 <= c ->
  exists e, lex_step off st c r = (IErr e [c], st, r).
Proof.
  intro Hc. exists (mkErr (create_range st off 1) c). unfold lex_step.
  replace (is_blank c) with false by (unfold is_blank; dec_arith).
  replace (c =? 10) with false by dec_arith.
  replace (c =? 13) with false by dec_arith.
  replace (is_word_start c) with false by (unfold is_word_start, is_alpha, is_lower, is_upper; dec_arith).
  replace (is_digit c) with false by (unfold is_digit; dec_arith).
  replace (single_op c) with (@None ttype) by (unfold single_op; dec_arith).
  replace (c =? 39) with false by dec_arith.
  replace (c =? 34) with false by dec_arith.
  replace (c =? 59) with false by dec_arith.
  replace (c =? 35) with false by dec_arith.
  replace (double_op c match r with [] => None | x :: _ => Some x end) with (@None (ttype * str * bool))
    by (unfold double_op; dec_arith).
  reflexivity.
Qed.

(* ---------- strings ---------- *)

Lemma ci_eq_nil_l b : ci_eq [] b -> b = [].
Proof. unfold ci_eq, upper. destruct b; cbn [map]; [reflexivity|discriminate]. Qed.

Lemma ci_eq_cons_l x a b : ci_eq (x :: a) b ->
  exists y b', b = y :: b' /\ upc x = upc y /\ ci_eq a b'.
Proof.
  unfold ci_eq, upper. destruct b as [|y b']; cbn [map]; [discriminate|].
  intro H. inversion H. exists y, b'. auto.
Qed.

Lemma ci_eq_forallb p : upc_inv p -> forall w w', ci_eq w w' -> forallb p w = forallb p w'.
Proof.
  intros Hp w. induction w as [|c w IH]; intros w' H.
  - apply ci_eq_nil_l in H. subst. reflexivity.
  - destruct (ci_eq_cons_l _ _ _ H) as (c' & w2 & -> & Hc & Hw). cbn [forallb].
    rewrite (Hp _ _ Hc), (IH _ Hw). reflexivity.
Qed.

Lemma ci_eq_word w w' : ci_eq w w' -> forallb is_word_char w = forallb is_word_char w'.
Proof. apply ci_eq_forallb. exact word_char_inv. Qed.

Lemma utf8_len_word w : forallb is_word_char w = true -> utf8_len w = lenN w.
Proof.
  induction w as [|c w IH]; [reflexivity|]. cbn [forallb]. intro H. apply andb_true_iff in H as [H1 H2].
  unfold utf8_len in *. cbn [fold_right]. rewrite (IH H2), lenN_cons.
  apply word_char_ascii in H1. unfold utf8_len1. apply N.ltb_lt in H1. rewrite H1. lia.
Qed.

(* ---------- word level ---------- *)

Lemma classify_word_ty w : word_ty (classify w) = true.
Proof.
  unfold word_ty, classify. destruct (kw_lookup (upper w) kw_table) as [ty|] eqn:E.
  - apply orb_true_iff. right. apply existsb_exists. exists (upper w, ty).
    split; [apply kw_lookup_in; exact E|]. cbn [snd]. apply tt_eqb_eq. reflexivity.
  - apply orb_true_iff. left. apply tt_eqb_eq. reflexivity.
Qed.

(* the kind is decided by the upper-cased word only, the value is the spelling as written *)
Lemma word_token_kind st off w w' : ci_eq w w' ->
  tty (create_token st off (classify w) w) = classify w /\
  tty (create_token st off (classify w') w') = classify w /\
  tval (create_token st off (classify w) w) = w /\
  tval (create_token st off (classify w') w') = w'.
Proof.
  intro H. cbn [tty tval create_token]. rewrite (classify_ci w w' H). repeat split; reflexivity.
Qed.

Theorem word_token_recase st off w w' :
  forallb is_word_char w = true -> ci_eq w w' ->
  tok_sim (create_token st off (classify w) w) (create_token st off (classify w') w').
Proof.
  intros Hw H. pose proof Hw as Hw'. rewrite (ci_eq_word _ _ H) in Hw'.
  constructor; cbn [traw trange tty tval create_token].
  - reflexivity.
  - unfold lenN. rewrite (ci_eq_length _ _ H). reflexivity.
  - apply classify_ci. exact H.
  - exact H.
  - rewrite classify_word_ty. discriminate.
Qed.

(* ---------- the readers stop at the same place ---------- *)

Lemma span_hd p c r w rest : p c = true -> span p (c :: r) = (w, rest) -> exists a, w = c :: a.
Proof.
  intros Hc H. cbn [span] in H. rewrite Hc in H. destruct (span p r) as [a b]. inversion H. exists a. reflexivity.
Qed.

(* a span over re-cased text: same split, whatever follows has the same class *)
Lemma span_ci p : upc_inv p -> forall l w rest w' rest',
  span p l = (w, rest) -> ci_eq w w' -> ci_eq rest rest' -> span p (w' ++ rest') = (w', rest').
Proof.
  intros Hp l. induction l as [|c l IH]; intros w rest w' rest' H Hw Hr; cbn [span] in H.
  - inversion H; subst. apply ci_eq_nil_l in Hw. apply ci_eq_nil_l in Hr. subst. reflexivity.
  - destruct (p c) eqn:Ec.
    + destruct (span p l) as [a b] eqn:Es. inversion H; subst.
      destruct (ci_eq_cons_l _ _ _ Hw) as (c' & a' & -> & Hc & Ha).
      cbn [app span]. rewrite <- (Hp _ _ Hc), Ec. rewrite (IH _ _ _ _ eq_refl Ha Hr). reflexivity.
    + inversion H; subst. apply ci_eq_nil_l in Hw. subst w'.
      destruct (ci_eq_cons_l _ _ _ Hr) as (c' & l' & -> & Hc & Hl).
      cbn [app span]. rewrite <- (Hp _ _ Hc), Ec. reflexivity.
Qed.

Lemma firstn_firstn_app (n : nat) (l l2 : str) :
  (n <= length l)%nat -> firstn n (firstn n l ++ l2) = firstn n l.
Proof.
  intro H. rewrite firstn_app, firstn_firstn, Nat.min_id, firstn_length, (Nat.min_l _ _ H), Nat.sub_diag.
  cbn [firstn]. apply app_nil_r.
Qed.

(* a single-quoted literal: the text consumed, then a character of the same class as before *)
Lemma read_sq_ci_k k : forall l, (length l <= k)%nat -> forall off v rest nl n rest',
  read_sq l off = (v, rest, nl, n) -> ci_eq rest rest' ->
  read_sq (firstn (N.to_nat n) l ++ rest') off = (v, rest', nl, n).
Proof.
  induction k as [|k IH]; intros l Hk off v rest nl n rest' H Hr.
  { destruct l; [|cbn [length] in Hk; lia]. cbn [read_sq] in H. inversion H; subst.
    apply ci_eq_nil_l in Hr. subst. reflexivity. }
  destruct l as [|c l]; cbn [read_sq] in H.
  - inversion H; subst. apply ci_eq_nil_l in Hr. subst. reflexivity.
  - cbn [length] in Hk. destruct (c =? 39) eqn:Ec.
    + destruct l as [|c2 l2].
      * inversion H; subst. apply ci_eq_nil_l in Hr. subst.
        change (N.to_nat 1) with 1%nat. cbn [firstn app read_sq]. rewrite Ec. reflexivity.
      * destruct (c2 =? 39) eqn:Ec2.
        -- destruct (read_sq l2 (off + 2)) as [[[v' rest0] nl'] n'] eqn:E. inversion H; subst.
           replace (N.to_nat (n' + 2)) with (S (S (N.to_nat n'))) by lia.
           cbn [firstn app read_sq]. rewrite Ec, Ec2.
           rewrite (IH l2 ltac:(cbn [length] in Hk; lia) _ _ _ _ _ _ E Hr). reflexivity.
        -- inversion H; subst.
           destruct (ci_eq_cons_l _ _ _ Hr) as (c2' & l2' & -> & Hc & Hl).
           change (N.to_nat 1) with 1%nat. cbn [firstn app read_sq]. rewrite Ec.
           rewrite <- (eqb_small c2 c2' 39 Hc ltac:(lia)), Ec2. reflexivity.
    + destruct (read_sq l (off + 1)) as [[[v' rest0] nl'] n'] eqn:E. inversion H; subst.
      replace (N.to_nat (n' + 1)) with (S (N.to_nat n')) by lia.
      cbn [firstn app read_sq]. rewrite Ec.
      rewrite (IH l ltac:(lia) _ _ _ _ _ _ E Hr). reflexivity.
Qed.

Lemma read_sq_ci l off v rest nl n rest' :
  read_sq l off = (v, rest, nl, n) -> ci_eq rest rest' ->
  read_sq (firstn (N.to_nat n) l ++ rest') off = (v, rest', nl, n).
Proof. apply (read_sq_ci_k (length l)). lia. Qed.

Lemma read_dq_ci l : forall off v rest nl n rest',
  read_dq l off = (v, rest, nl, n) -> ci_eq rest rest' ->
  read_dq (firstn (N.to_nat n) l ++ rest') off = (v, rest', nl, n).
Proof.
  induction l as [|c l IH]; intros off v rest nl n rest' H Hr; cbn [read_dq] in H.
  - inversion H; subst. apply ci_eq_nil_l in Hr. subst. reflexivity.
  - destruct (c =? 34) eqn:Ec.
    + inversion H; subst. change (N.to_nat 1) with 1%nat. cbn [firstn app read_dq]. rewrite Ec. reflexivity.
    + destruct (read_dq l (off + 1)) as [[[v' rest0] nl'] n'] eqn:E. inversion H; subst.
      replace (N.to_nat (n' + 1)) with (S (N.to_nat n')) by lia.
      cbn [firstn app read_dq]. rewrite Ec. rewrite (IH _ _ _ _ _ _ E Hr). reflexivity.
Qed.

(* ---------- text level: definitions ---------- *)

Definition is_word_item (it : item) : bool :=
  match it with ITok _ ch => is_word_start (hd 0 ch) | _ => false end.

(* the re-cased text is the concatenation of chunks, one per item of the original text's lexing:
   a word token's chunk may change the case of its letters, every other chunk (whitespace,
   literals, comments, numbers, operators, error characters) is unchanged *)
Definition chunk_recased (it : item) (ch' : str) : Prop :=
  if is_word_item it then ci_eq (chunk_of it) ch' else ch' = chunk_of it.

Definition text_recased (text text' : str) : Prop :=
  exists chs', text' = concat chs' /\ Forall2 chunk_recased (lex_items text) chs'.

Inductive item_sim : item -> item -> Prop :=
| IS_ws ch : item_sim (IWs ch) (IWs ch)
| IS_err e ch : item_sim (IErr e ch) (IErr e ch)
| IS_word t t' ch ch' : is_word_start (hd 0 ch) = true -> ci_eq ch ch' -> tok_sim t t' ->
    tval t = ch -> tval t' = ch' -> tty t = classify ch -> item_sim (ITok t ch) (ITok t' ch')
| IS_other t ch : is_word_start (hd 0 ch) = false -> item_sim (ITok t ch) (ITok t ch).

Lemma item_sim_nonword it : is_word_item it = false -> item_sim it it.
Proof. destruct it; cbn [is_word_item]; intro H; [apply IS_ws|apply IS_other; exact H|apply IS_err]. Qed.

Lemma chunk_recased_ci it ch' : chunk_recased it ch' -> ci_eq (chunk_of it) ch'.
Proof. unfold chunk_recased. destruct (is_word_item it); [auto|intros ->; apply ci_eq_refl]. Qed.

Lemma chunks_recased_ci its chs' :
  Forall2 chunk_recased its chs' -> ci_eq (concat (map chunk_of its)) (concat chs').
Proof.
  induction 1; cbn [map concat]; [apply ci_eq_refl|apply ci_eq_app; auto using chunk_recased_ci].
Qed.

(* ---------- one iteration of the main loop ---------- *)

Lemma lex_step_word off st c r : is_word_start c = true ->
  lex_step off st c r =
  let '(w, rest) := span is_word_char (c :: r) in (ITok (create_token st off (classify w) w) w, st, rest).
Proof.
  intro Hw. unfold lex_step. destruct (word_start_not_ws c Hw) as (A & _).
  unfold is_ws in A. repeat rewrite orb_false_iff in A. destruct A as [[[A1 A2] A3] A4].
  unfold is_blank. rewrite A1, A2, A3, A4, Hw. reflexivity.
Qed.

(* a step that does not start a word: the same chunk followed by text of the same classes gives
   the very same item, line state, and stops at the same place *)
Lemma lex_step_same off st c r it st1 rest rest' :
  is_word_start c = false ->
  lex_step off st c r = (it, st1, rest) -> ci_eq rest rest' ->
  is_word_item it = false /\
  exists x, chunk_of it = c :: x /\ lex_step off st c (x ++ rest') = (it, st1, rest').
Proof.
  intros Ew H Hr. revert H. unfold lex_step. rewrite Ew.
  destruct (is_blank c) eqn:Eb.
  { intro H; inversion H; subst. split; [reflexivity|]. exists []. split; reflexivity. }
  destruct (c =? 10) eqn:E10.
  { intro H; inversion H; subst. split; [reflexivity|]. exists []. split; reflexivity. }
  destruct (c =? 13) eqn:E13.
  { destruct r as [|c2 r2].
    - intro H; inversion H; subst. apply ci_eq_nil_l in Hr. subst. split; [reflexivity|].
      exists []. split; reflexivity.
    - destruct (c2 =? 10) eqn:E2.
      + intro H; inversion H; subst. split; [reflexivity|]. exists [c2]. split; [reflexivity|].
        cbn [app]. rewrite E2. reflexivity.
      + intro H; inversion H; subst. split; [reflexivity|]. exists []. split; [reflexivity|].
        destruct (ci_eq_cons_l _ _ _ Hr) as (c2' & r2' & -> & Hc & Hl). cbn [app].
        rewrite <- (eqb_small c2 c2' 10 Hc ltac:(lia)), E2. reflexivity. }
  destruct (is_digit c) eqn:Ed.
  { destruct (span is_num_char (c :: r)) as [w rest0] eqn:Es. intro H; inversion H; subst.
    destruct (span_hd is_num_char c r w rest) as [a ->]; [unfold is_num_char; rewrite Ed; reflexivity|exact Es|].
    split; [cbn [is_word_item hd]; exact Ew|]. exists a. split; [reflexivity|].
    change (c :: a ++ rest') with ((c :: a) ++ rest').
    rewrite (span_ci _ num_char_inv _ _ _ _ _ Es (ci_eq_refl _) Hr). reflexivity. }
  destruct (single_op c) as [ty|] eqn:Eso.
  { intro H; inversion H; subst. split; [cbn [is_word_item hd]; exact Ew|]. exists []. split; reflexivity. }
  destruct (c =? 39) eqn:E39.
  { destruct (read_sq r (off + 1)) as [[[v rest0] nl] n] eqn:Er. intro H; inversion H; subst.
    split; [cbn [is_word_item hd]; exact Ew|]. exists (firstn (N.to_nat n) r). split; [reflexivity|].
    rewrite (read_sq_ci _ _ _ _ _ _ _ Er Hr).
    destruct (read_sq_spec _ _ _ _ _ _ st Er) as (_ & Hn & _).
    rewrite (firstn_firstn_app _ _ _ Hn). reflexivity. }
  destruct (c =? 34) eqn:E34.
  { destruct (read_dq r (off + 1)) as [[[v rest0] nl] n] eqn:Er. intro H; inversion H; subst.
    split; [cbn [is_word_item hd]; exact Ew|]. exists (firstn (N.to_nat n) r). split; [reflexivity|].
    rewrite (read_dq_ci _ _ _ _ _ _ _ Er Hr).
    destruct (read_dq_spec _ _ _ _ _ _ st Er) as (_ & Hn & _).
    rewrite (firstn_firstn_app _ _ _ Hn). reflexivity. }
  destruct (c =? 59) eqn:E59.
  { destruct (span not_eol r) as [v rest0] eqn:Es. intro H; inversion H; subst.
    split; [cbn [is_word_item hd]; exact Ew|]. exists v. split; [reflexivity|].
    rewrite (span_ci _ not_eol_inv _ _ _ _ _ Es (ci_eq_refl _) Hr). reflexivity. }
  destruct (c =? 35) eqn:E35.
  { destruct (span is_digit r) as [d rest0] eqn:Es. intro H; inversion H; subst.
    split; [cbn [is_word_item hd]; exact Ew|]. exists d. split; [reflexivity|].
    rewrite (span_ci _ digit_inv _ _ _ _ _ Es (ci_eq_refl _) Hr). reflexivity. }
  destruct r as [|x r'].
  { destruct (double_op c None) as [[[ty v] dbl]|] eqn:Edo.
    - destruct (double_op_facts _ _ _ _ _ Edo) as (_ & -> & ->).
      intro H; inversion H; subst. apply ci_eq_nil_l in Hr. subst.
      split; [cbn [is_word_item hd]; exact Ew|]. exists []. split; [reflexivity|].
      cbn [app]. rewrite Edo. reflexivity.
    - intro H; inversion H; subst. apply ci_eq_nil_l in Hr. subst.
      split; [reflexivity|]. exists []. split; [reflexivity|]. cbn [app]. rewrite Edo. reflexivity. }
  destruct (double_op c (Some x)) as [[[ty v] dbl]|] eqn:Edo.
  - destruct (double_op_facts _ _ _ _ _ Edo) as (_ & Hv). destruct dbl; subst v.
    + intro H; inversion H; subst. split; [cbn [is_word_item hd]; exact Ew|]. exists [x].
      split; [reflexivity|]. cbn [app tl]. rewrite Edo. reflexivity.
    + intro H; inversion H; subst. split; [cbn [is_word_item hd]; exact Ew|]. exists [].
      split; [reflexivity|]. destruct (ci_eq_cons_l _ _ _ Hr) as (x' & r2' & -> & Hc & Hl).
      cbn [app]. rewrite <- (double_op_ci c x x' Hc), Edo. reflexivity.
  - intro H; inversion H; subst. split; [reflexivity|]. exists []. split; [reflexivity|].
    destruct (ci_eq_cons_l _ _ _ Hr) as (x' & r2' & -> & Hc & Hl).
    cbn [app]. rewrite <- (double_op_ci c x x' Hc), Edo. reflexivity.
Qed.

(* the general step: the re-cased remaining text is ch' ++ rest' with ch' the re-cased chunk of the
   item and rest' class-equal to the original rest; then the lexer produces a similar item with
   chunk ch', the same line state, and stops exactly before rest' *)
Lemma lex_step_recased off st c r it st1 rest ch' rest' :
  lex_step off st c r = (it, st1, rest) ->
  chunk_recased it ch' -> ci_eq rest rest' ->
  exists c' r' it', ch' ++ rest' = c' :: r' /\ lex_step off st c' r' = (it', st1, rest') /\
                    item_sim it it' /\ chunk_of it' = ch'.
Proof.
  intros H Hch Hr. destruct (is_word_start c) eqn:Ew.
  - rewrite (lex_step_word _ _ _ _ Ew) in H.
    destruct (span is_word_char (c :: r)) as [w rest0] eqn:Es. inversion H; subst it st1 rest0. clear H.
    destruct (span_hd _ _ _ _ _ (word_start_char _ Ew) Es) as [a ->].
    destruct (span_spec _ _ _ _ Es) as [_ Hall].
    unfold chunk_recased in Hch. cbn [is_word_item hd chunk_of] in Hch. rewrite Ew in Hch.
    destruct (ci_eq_cons_l _ _ _ Hch) as (c' & a' & -> & Hcc & Ha).
    assert (Ew' : is_word_start c' = true) by (rewrite <- (word_start_inv _ _ Hcc); exact Ew).
    exists c', (a' ++ rest'), (ITok (create_token st off (classify (c' :: a')) (c' :: a')) (c' :: a')).
    split; [reflexivity|]. split; [|split; [|reflexivity]].
    + rewrite (lex_step_word _ _ _ _ Ew').
      change (c' :: a' ++ rest') with ((c' :: a') ++ rest').
      rewrite (span_ci _ word_char_inv _ _ _ _ _ Es Hch Hr). reflexivity.
    + apply IS_word; cbn [hd tval tty create_token]; auto.
      apply word_token_recase; assumption.
  - destruct (lex_step_same _ _ _ _ _ _ _ rest' Ew H Hr) as (Hi & x & Hx & Hs).
    unfold chunk_recased in Hch. rewrite Hi in Hch. subst ch'. rewrite Hx.
    exists c, (x ++ rest'), it. split; [reflexivity|]. split; [exact Hs|]. split; [|exact Hx].
    apply item_sim_nonword. exact Hi.
Qed.

(* ---------- the main loop ---------- *)

Lemma lex_go_cons f off st c r :
  lex_go (S f) off st (c :: r) =
  let '(it, st', rest) := lex_step off st c r in it :: lex_go f (off + lenN (chunk_of it)) st' rest.
Proof. reflexivity. Qed.

Lemma lex_go_recased fuel : forall pre l chs', (length l <= fuel)%nat ->
  Forall2 chunk_recased (lex_go fuel (lenN pre) (st_of pre) l) chs' ->
  Forall2 item_sim (lex_go fuel (lenN pre) (st_of pre) l)
                   (lex_go fuel (lenN pre) (st_of pre) (concat chs')).
Proof.
  induction fuel as [|fuel IH]; intros pre l chs' Hl HF.
  - cbn [lex_go]. constructor.
  - destruct l as [|c r].
    + cbn [lex_go] in HF. inversion HF; subst. cbn [concat lex_go]. constructor.
    + rewrite lex_go_cons in HF. rewrite lex_go_cons.
      destruct (lex_step (lenN pre) (st_of pre) c r) as [[it st'] rest] eqn:E.
      inversion HF as [|? ch' ? chs'' Hch HF' E1 E2]; subst.
      destruct (lex_step_spec _ _ _ _ _ _ E) as (Hcr & Hok & Hst).
      rewrite adv_st_of in Hst. subst st'. rewrite <- lenN_app in *.
      assert (length rest <= fuel)%nat as Hrl.
      { pose proof (chunk_nonempty _ _ Hok) as Hne. apply (f_equal (@length N)) in Hcr.
        rewrite app_length in Hcr. cbn [length] in Hcr, Hl.
        destruct (chunk_of it); [contradiction|]. cbn [length] in Hcr. lia. }
      pose proof (proj2 (lex_go_good fuel (pre ++ chunk_of it) rest Hrl)) as Hcat.
      pose proof (chunks_recased_ci _ _ HF') as Hci. rewrite Hcat in Hci.
      destruct (lex_step_recased _ _ _ _ _ _ _ _ _ E Hch Hci) as (c' & r' & it' & Heq & Hs & Hsim & Hck).
      cbn [concat]. rewrite Heq, lex_go_cons, Hs.
      constructor; [exact Hsim|].
      replace (lenN pre + lenN (chunk_of it')) with (lenN (pre ++ chunk_of it)).
      * apply IH; assumption.
      * rewrite lenN_app, Hck. unfold lenN. rewrite (ci_eq_length _ _ (chunk_recased_ci _ _ Hch)). reflexivity.
Qed.

Lemma text_recased_ci text text' : text_recased text text' -> ci_eq text text'.
Proof.
  intros (chs' & -> & HF). pose proof (chunks_recased_ci _ _ HF) as H.
  rewrite lex_partition in H. exact H.
Qed.

Lemma text_recased_length text text' : text_recased text text' -> length text' = length text.
Proof. intro H. symmetry. apply ci_eq_length. apply text_recased_ci. exact H. Qed.

Lemma text_recased_upper text text' : text_recased text text' -> upper text' = upper text.
Proof. intro H. symmetry. apply text_recased_ci. exact H. Qed.

(* MAIN: the two texts lex into the same sequence of items up to the spelling of word tokens *)
Theorem lex_items_recased text text' :
  text_recased text text' -> Forall2 item_sim (lex_items text) (lex_items text').
Proof.
  intro H. pose proof (text_recased_length _ _ H) as Hlen.
  destruct H as (chs' & -> & HF). unfold lex_items in *. rewrite Hlen.
  apply (lex_go_recased (length text) [] text chs'); [lia|exact HF].
Qed.

Lemma items_sim_project l l' : Forall2 item_sim l l' ->
  Forall2 tok_sim (tokens_of l) (tokens_of l') /\ errors_of l' = errors_of l.
Proof.
  unfold tokens_of, errors_of.
  induction 1 as [|it it' l l' Hs HF [IH1 IH2]]; cbn [flat_map]; [split; [constructor|reflexivity]|].
  destruct Hs; cbn [app]; (split; [|congruence]); auto using tok_sim_refl.
Qed.

(* tokens pairwise similar (same kind, same range, same raw offset, value equal ignoring case and
   exactly equal for every non-word token); the same lexical errors *)
Corollary lex_recased text text' : text_recased text text' ->
  Forall2 tok_sim (fst (lex text)) (fst (lex text')) /\ snd (lex text') = snd (lex text).
Proof.
  intro H. unfold lex. cbn [fst snd]. apply items_sim_project. apply lex_items_recased. exact H.
Qed.

Lemma Forall2_refl_chunks its : Forall2 chunk_recased its (map chunk_of its).
Proof.
  induction its as [|it its IH]; cbn [map]; constructor; [|exact IH].
  unfold chunk_recased. destruct (is_word_item it); [apply ci_eq_refl|reflexivity].
Qed.

Lemma text_recased_refl text : text_recased text text.
Proof.
  exists (map chunk_of (lex_items text)). split; [symmetry; apply lex_partition|apply Forall2_refl_chunks].
Qed.

(* ---------- a decision procedure for text_recased ---------- *)

(* cut a text into pieces of the lengths of the items' chunks *)
Fixpoint split_like (its : list item) (t : str) : list str :=
  match its with
  | [] => []
  | it :: r => firstn (length (chunk_of it)) t :: split_like r (skipn (length (chunk_of it)) t)
  end.

Lemma concat_split_like its : forall t,
  length t = length (concat (map chunk_of its)) -> concat (split_like its t) = t.
Proof.
  induction its as [|it its IH]; intros t H; cbn [split_like concat map] in *.
  - destruct t; [reflexivity|discriminate].
  - rewrite IH; [apply firstn_skipn|]. rewrite skipn_length, H, app_length. lia.
Qed.

Lemma split_like_chunks its : forall chs' rest, Forall2 chunk_recased its chs' ->
  split_like its (concat chs' ++ rest) = chs'.
Proof.
  induction its as [|it its IH]; intros chs' rest H; inversion H as [|? ch' ? chs'' Hc HF]; subst; [reflexivity|].
  cbn [split_like concat]. rewrite <- app_assoc.
  rewrite (ci_eq_length _ _ (chunk_recased_ci _ _ Hc)).
  rewrite firstn_app, firstn_all, Nat.sub_diag, skipn_app, skipn_all, Nat.sub_diag. cbn [firstn skipn app].
  rewrite app_nil_r, (IH _ _ HF). reflexivity.
Qed.

Definition chunk_recasedb (it : item) (ch' : str) : bool :=
  if is_word_item it then same_ci (chunk_of it) ch' else str_eqb ch' (chunk_of it).

Fixpoint chunks_recasedb (its : list item) (chs' : list str) : bool :=
  match its, chs' with
  | [], [] => true
  | it :: r, ch :: r' => chunk_recasedb it ch && chunks_recasedb r r'
  | _, _ => false
  end.

Definition text_recasedb (text text' : str) : bool :=
  Nat.eqb (length text') (length text) &&
  chunks_recasedb (lex_items text) (split_like (lex_items text) text').

Lemma chunk_recasedb_iff it ch' : chunk_recasedb it ch' = true <-> chunk_recased it ch'.
Proof.
  unfold chunk_recasedb, chunk_recased. destruct (is_word_item it); [apply same_ci_iff|apply str_eqb_eq].
Qed.

Lemma chunks_recasedb_iff its : forall chs',
  chunks_recasedb its chs' = true <-> Forall2 chunk_recased its chs'.
Proof.
  induction its as [|it its IH]; intros [|ch chs']; cbn [chunks_recasedb]; split; intro H;
    try discriminate; try (inversion H; fail); try constructor.
  - apply chunk_recasedb_iff. apply andb_true_iff in H. tauto.
  - apply IH. apply andb_true_iff in H. tauto.
  - inversion H; subst. apply andb_true_iff. split; [apply chunk_recasedb_iff|apply IH]; assumption.
Qed.

Theorem text_recasedb_iff text text' : text_recasedb text text' = true <-> text_recased text text'.
Proof.
  unfold text_recasedb. rewrite andb_true_iff, Nat.eqb_eq, chunks_recasedb_iff. split.
  - intros [Hl HF]. exists (split_like (lex_items text) text'). split; [|exact HF].
    symmetry. apply concat_split_like. rewrite lex_partition. exact Hl.
  - intro H. split; [apply text_recased_length; exact H|].
    destruct H as (chs' & -> & HF).
    rewrite <- (app_nil_r (concat chs')). rewrite (split_like_chunks _ _ [] HF). exact HF.
Qed.

(* ---------- the relation without the existential: a mask of the word positions ---------- *)

Definition mask_of (its : list item) : list bool :=
  flat_map (fun it => repeat (is_word_item it) (length (chunk_of it))) its.

(* for each character of the text: does it belong to a word token (keyword or identifier)? *)
Definition word_mask (text : str) : list bool := mask_of (lex_items text).

Lemma mask_of_length its : length (mask_of its) = length (concat (map chunk_of its)).
Proof.
  unfold mask_of. induction its as [|it its IH]; cbn [flat_map map concat]; [reflexivity|].
  rewrite !app_length, repeat_length, IH. reflexivity.
Qed.

Lemma word_mask_length text : length (word_mask text) = length text.
Proof. unfold word_mask. rewrite mask_of_length, lex_partition. reflexivity. Qed.

Lemma nth_firstn_lt {A} (k n : nat) (l : list A) d : (k < n)%nat -> nth k (firstn n l) d = nth k l d.
Proof.
  revert n l. induction k as [|k IH]; intros [|n] [|x l] H; try lia; cbn [firstn nth]; try reflexivity.
  apply IH. lia.
Qed.

Lemma nth_skipn_plus {A} (n k : nat) (l : list A) d : nth k (skipn n l) d = nth (n + k) l d.
Proof.
  revert l. induction n as [|n IH]; intros [|x l]; cbn [skipn Nat.add nth]; try reflexivity.
  - destruct k; reflexivity.
  - apply IH.
Qed.

Lemma nth_repeat_lt {A} (x d : A) (n k : nat) : (k < n)%nat -> nth k (repeat x n) d = x.
Proof.
  intro H. apply (repeat_spec n x). apply nth_In. rewrite repeat_length. exact H.
Qed.

Lemma nth_app_plus {A} (l l' : list A) (n k : nat) d :
  length l = n -> nth (n + k) (l ++ l') d = nth k l' d.
Proof. intros <-. apply app_nth2_plus. Qed.

Lemma mask_gen its : forall t',
  length t' = length (concat (map chunk_of its)) ->
  (forall k, nth k t' 0 <> nth k (concat (map chunk_of its)) 0 ->
             nth k (mask_of its) false = true /\ upc (nth k t' 0) = upc (nth k (concat (map chunk_of its)) 0)) ->
  Forall2 chunk_recased its (split_like its t').
Proof.
  induction its as [|it its IH]; intros t' Hlen Hk; cbn [split_like]; [constructor|].
  cbn [map concat] in Hlen, Hk. unfold mask_of in Hk. cbn [flat_map] in Hk. fold (mask_of its) in Hk.
  rewrite app_length in Hlen.
  set (n := length (chunk_of it)) in *.
  assert (Hfl : length (firstn n t') = n) by (rewrite firstn_length; lia).
  constructor.
  - unfold chunk_recased. destruct (is_word_item it) eqn:Ei.
    + unfold ci_eq, upper. apply (nth_ext _ _ (upc 0) (upc 0)).
      * rewrite !map_length, Hfl. reflexivity.
      * intros k Hlt. rewrite map_length in Hlt. fold n in Hlt. rewrite !map_nth.
        rewrite (nth_firstn_lt _ _ _ _ Hlt).
        specialize (Hk k). rewrite (app_nth1 _ _ _ Hlt) in Hk.
        destruct (N.eq_dec (nth k t' 0) (nth k (chunk_of it) 0)) as [E|E]; [rewrite E; reflexivity|].
        symmetry. apply (proj2 (Hk E)).
    + apply (nth_ext _ _ 0 0); [exact Hfl|].
      intros k Hlt. rewrite Hfl in Hlt. rewrite (nth_firstn_lt _ _ _ _ Hlt).
      specialize (Hk k). rewrite (app_nth1 _ _ _ Hlt) in Hk.
      destruct (N.eq_dec (nth k t' 0) (nth k (chunk_of it) 0)) as [E|E]; [exact E|].
      exfalso. destruct (Hk E) as [Hm _].
      rewrite app_nth1 in Hm by (rewrite repeat_length; exact Hlt).
      rewrite (nth_repeat_lt _ _ _ _ Hlt) in Hm. discriminate.
  - apply IH.
    + rewrite skipn_length. lia.
    + intros k Hne. rewrite nth_skipn_plus in Hne |- *. specialize (Hk (n + k)%nat).
      rewrite (nth_app_plus (chunk_of it) _ n k 0 eq_refl) in Hk.
      rewrite (nth_app_plus (repeat (is_word_item it) (length (chunk_of it))) _ n k false
                 (repeat_length _ _)) in Hk.
      apply Hk. exact Hne.
Qed.

(* text' has the length of text and differs from it only at positions inside word tokens, and
   there only by the case of an ASCII letter *)
Theorem mask_recased text text' :
  length text' = length text ->
  (forall k, nth k text' 0 <> nth k text 0 ->
             nth k (word_mask text) false = true /\ upc (nth k text' 0) = upc (nth k text 0)) ->
  text_recased text text'.
Proof.
  intros Hl Hk. exists (split_like (lex_items text) text'). split.
  - symmetry. apply concat_split_like. rewrite lex_partition. exact Hl.
  - apply mask_gen; rewrite lex_partition; assumption.
Qed.

(* ---------- non-vacuity ---------- *)

(* `Class aFoo ;cmt` LF `x = 'aB' ` U+017F   versus   `cLASS AFOO ;cmt` LF `X = 'aB' ` U+017F :
   a keyword, two identifiers, a comment and a string literal that contain letters, a stray
   non-ASCII character (long s, whose Unicode upper-casing is `S`) *)
Definition ex_text : str :=
  [67;108;97;115;115; 32; 97;70;111;111; 32; 59;99;109;116; 10; 120; 32; 61; 32; 39;97;66;39; 32; 383].
Definition ex_text' : str :=
  [99;76;65;83;83; 32; 65;70;79;79; 32; 59;99;109;116; 10; 88; 32; 61; 32; 39;97;66;39; 32; 383].
(* re-casing inside the string literal or the comment is NOT a re-casing of words *)
Definition ex_text_lit : str :=
  [67;108;97;115;115; 32; 97;70;111;111; 32; 59;99;109;116; 10; 120; 32; 61; 32; 39;65;66;39; 32; 383].
Definition ex_text_cmt : str :=
  [67;108;97;115;115; 32; 97;70;111;111; 32; 59;67;109;116; 10; 120; 32; 61; 32; 39;97;66;39; 32; 383].

Example lex_recased_example :
  text_recased ex_text ex_text' /\
  map (fun t => tt_idx (tty t)) (fst (lex ex_text)) =
    map tt_idx [TClass; TIdentifier; TComment; TIdentifier; TEquals; TStringLiteral] /\
  map tval (fst (lex ex_text)) = [[67;108;97;115;115]; [97;70;111;111]; [99;109;116]; [120]; [61]; [97;66]] /\
  map tval (fst (lex ex_text')) = [[99;76;65;83;83]; [65;70;79;79]; [99;109;116]; [88]; [61]; [97;66]] /\
  forall2b (fun t t' => str_eqb (tval t) (tval t')) (fst (lex ex_text)) (fst (lex ex_text')) = false /\
  forall2b tok_simb (fst (lex ex_text)) (fst (lex ex_text')) = true /\
  map echar (snd (lex ex_text)) = [383] /\ snd (lex ex_text') = snd (lex ex_text) /\
  word_mask ex_text =
    [true;true;true;true;true; false; true;true;true;true; false; false;false;false;false; false;
     true; false; false; false; false;false;false;false; false; false] /\
  ~ text_recased ex_text ex_text_lit /\ ~ text_recased ex_text ex_text_cmt.
Proof.
  split; [apply text_recasedb_iff; vm_compute; reflexivity|].
  repeat (split; [vm_compute; reflexivity|]).
  split; intro H; apply text_recasedb_iff in H; vm_compute in H; discriminate H.
Qed.
