(* The converse of the round trip: every token the lexer reports, for ANY text, is a printable lexeme
   (Model/Unlex.v).  Hence printing the tokens of a text and lexing the print gives the same tokens again
   (type and value): `unlex` after `lex` is a normal form of the text as far as the lexer can see, and
   `printable` describes exactly the image of the lexer. *)
From GoldV Require Import Base Tokens Keywords Lexer Unlex LexerProofs UnlexProofs.

Lemma tt_idx_eqb_refl a : tt_idx_eqb a a = true.
Proof. apply tt_idx_eqb_eq. reflexivity. Qed.

Definition kw_plain : bool :=
  forallb (fun p => negb (lx_is_string (snd p)) && negb (lx_is_comment (snd p))) kw_table.
Lemma kw_plain_ok : kw_plain = true.
Proof. vm_compute. reflexivity. Qed.

Lemma classify_plain w : lx_is_string (classify w) = false /\ lx_is_comment (classify w) = false.
Proof.
  unfold classify. destruct (kw_lookup (upper w) kw_table) as [ty|] eqn:E.
  - apply kw_lookup_in in E. pose proof kw_plain_ok as H. unfold kw_plain in H.
    rewrite forallb_forall in H. specialize (H _ E). cbn [snd] in H.
    apply andb_true_iff in H as [H1 H2]. apply negb_true_iff in H1. apply negb_true_iff in H2. auto.
  - split; reflexivity.
Qed.

Lemma single_op_lx_plain c ty : single_op c = Some ty -> lx_is_string ty = false /\ lx_is_comment ty = false.
Proof.
  unfold single_op. intro H.
  repeat match type of H with
  | (if ?b then _ else _) = _ => destruct b; [inversion H; subst; split; reflexivity|]
  end. discriminate.
Qed.

(* the double-operator table: what it returns is never a string or a comment, and a one-character result
   does not depend on which non-combining character follows *)
Lemma double_op_lx_plain c nx ty v dbl : double_op c nx = Some (ty, v, dbl) ->
  lx_is_string ty = false /\ lx_is_comment ty = false /\
  (dbl = false -> double_op c (Some 32) = Some (ty, v, false)).
Proof.
  intro H. destruct (double_op_facts _ _ _ _ _ H) as [Hc _].
  unfold double_op in H.
  destruct Hc as [->|[->|[->|[->|[->| ->]]]]]; cbn [N.eqb Pos.eqb] in H;
  repeat match type of H with
  | (if ?b then _ else _) = _ => destruct b
  end; inversion H; subst; (split; [reflexivity|split; [reflexivity|intro; try discriminate; reflexivity]]).
Qed.

Lemma lex_step_tok_printable off st c r t ch st' rest :
  lex_step off st c r = (ITok t ch, st', rest) -> printable (lx_obs t) = true.
Proof.
  unfold lex_step. intro H.
  destruct (is_blank c) eqn:Eb; [inversion H|].
  destruct (c =? 10) eqn:E10; [inversion H|].
  destruct (c =? 13) eqn:E13; [destruct r as [|c2 r2]; [inversion H|destruct (c2 =? 10); inversion H]|].
  destruct (is_word_start c) eqn:Ew.
  { destruct (span is_word_char (c :: r)) as [w rest'] eqn:Es. inversion H; subst. clear H.
    simpl in Es. rewrite (word_start_char c Ew) in Es.
    destruct (span is_word_char r) as [a b] eqn:Es2. inversion Es; subst. clear Es.
    destruct (span_spec _ _ _ _ Es2) as [_ Hall].
    unfold printable, lx_obs, create_token. cbn [fst snd tty tval].
    destruct (classify_plain (c :: a)) as [-> ->]. unfold plain_ok. rewrite Ew, Hall, tt_idx_eqb_refl. reflexivity. }
  destruct (is_digit c) eqn:Ed.
  { destruct (span is_num_char (c :: r)) as [w rest'] eqn:Es. inversion H; subst. clear H.
    simpl in Es. rewrite (digit_num_char c Ed) in Es.
    destruct (span is_num_char r) as [a b] eqn:Es2. inversion Es; subst. clear Es.
    destruct (span_spec _ _ _ _ Es2) as [_ Hall].
    unfold printable, lx_obs, create_token. cbn [fst snd tty tval].
    change (lx_is_string TNumericLiteral) with false. change (lx_is_comment TNumericLiteral) with false. cbv iota.
    unfold plain_ok. rewrite Ew, Ed, Hall. reflexivity. }
  destruct (single_op c) as [ty|] eqn:Eo.
  { inversion H; subst. clear H. unfold printable, lx_obs, create_token. cbn [fst snd tty tval].
    destruct (single_op_lx_plain c ty Eo) as [-> ->]. unfold plain_ok. rewrite Ew, Ed, Eo, tt_idx_eqb_refl. reflexivity. }
  destruct (c =? 39) eqn:E39.
  { destruct (read_sq r (off + 1)) as [[[v rest'] nl] n]. inversion H; subst. reflexivity. }
  destruct (c =? 34) eqn:E34.
  { destruct (read_dq r (off + 1)) as [[[v rest'] nl] n]. inversion H; subst. reflexivity. }
  destruct (c =? 59) eqn:E59.
  { destruct (span not_eol r) as [v rest'] eqn:Es. inversion H; subst. clear H.
    destruct (span_spec _ _ _ _ Es) as [_ Hall].
    unfold printable, lx_obs, create_token. cbn [fst snd tty tval].
    change (lx_is_string TComment) with false. change (lx_is_comment TComment) with true. cbv iota. exact Hall. }
  destruct (c =? 35) eqn:E35.
  { apply N.eqb_eq in E35. subst c. destruct (span is_digit r) as [d rest'] eqn:Es. inversion H; subst. clear H.
    destruct d; reflexivity. }
  destruct (double_op c (match r with x :: _ => Some x | [] => None end)) as [[[ty v] dbl]|] eqn:Edo; [|inversion H].
  destruct (double_op_lx_plain _ _ _ _ _ Edo) as (Hs & Hc & H32).
  destruct (double_op_facts _ _ _ _ _ Edo) as [_ Hv].
  assert (t = create_token st off ty v) as -> by (destruct dbl; inversion H; reflexivity). clear H.
  unfold printable, lx_obs, create_token. cbn [fst snd tty tval]. rewrite Hs, Hc.
  unfold plain_ok. destruct r as [|x r'].
  - destruct Hv as [-> ->]. rewrite Ew, Ed, Eo, E35, (H32 eq_refl), tt_idx_eqb_refl, str_eqb_refl. reflexivity.
  - destruct dbl.
    + subst v. rewrite Ew, Ed, Eo, E35, Edo, tt_idx_eqb_refl, str_eqb_refl. reflexivity.
    + subst v. rewrite Ew, Ed, Eo, E35, (H32 eq_refl), tt_idx_eqb_refl, str_eqb_refl. reflexivity.
Qed.

Lemma lex_go_printable fuel : forall off st l,
  forallb printable (map lx_obs (tokens_of (lex_go fuel off st l))) = true.
Proof.
  induction fuel as [|f IH]; intros off st l; [reflexivity|].
  destruct l as [|c r]; [reflexivity|]. cbn [lex_go].
  destruct (lex_step off st c r) as [[it st'] rest] eqn:E.
  unfold tokens_of in *. cbn [flat_map]. rewrite map_app, forallb_app, IH, andb_true_r.
  destruct it as [ch|t ch|e ch]; try reflexivity.
  cbn [map forallb]. rewrite (lex_step_tok_printable _ _ _ _ _ _ _ _ E). reflexivity.
Qed.

Theorem lexemes_printable text : forallb printable (map lx_obs (fst (lex text))) = true.
Proof. unfold lex, lex_items. cbn [fst]. apply lex_go_printable. Qed.

(* print what was lexed and lex it again: the same lexemes, and no lexical error in the print *)
Theorem relex_normal_form text :
  let lx := map lx_obs (fst (lex text)) in
  map lx_obs (fst (lex (unlex lx))) = lx /\ snd (lex (unlex lx)) = [].
Proof.
  cbv zeta. destruct (lex_unlex _ (lexemes_printable text)) as (A & B & _). auto.
Qed.
