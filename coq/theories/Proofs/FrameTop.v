(* Context framing of the declaration parsers, the method parsers and the top-level loop, with
   respect to Km (same memo switch, arbitrary caches): nothing parsed at top level depends on what
   an earlier method body left in the expression caches, nor on the diagnostics already reported. *)
From GoldV Require Import Base Tokens Lexer AstKinds Tree Strings PComb Grammar ParserWF GrammarWF GrammarRel LocalitySpan FrameRel.
From Coq Require Import Lia.

Lemma rel2_weaken {A} (K1 K2 : ctx -> ctx -> Prop) c d (X Y : res A * ctx) :
  (forall c d, K1 c d -> K2 c d) -> Rel2 K1 c d X Y -> Rel2 K2 c d X Y.
Proof. intros H (r & cf & df & E1 & E2 & HK & F). exists r, cf, df. repeat split; auto. Qed.

(* discharges the combinator hypotheses of GrammarRel for Fr K *)
Ltac fr_hyp Kadd :=
  intros;
  first [ apply Fr_ret | apply Fr_fail | apply Fr_panic | apply Fr_nofuel | apply Fr_exp_token | apply Fr_exp_ident
        | apply Fr_take_until | apply Fr_sep_tokens
        | apply Fr_bind; solve [auto] | apply Fr_prepend; solve [auto] | apply Fr_rae; solve [auto] | apply Fr_opt; solve [auto]
        | apply Fr_alt; solve [auto] | apply Fr_sep_list; solve [auto using Kadd] | apply Fr_until; solve [auto using Kadd]
        | apply Fr_until_strict; solve [auto] | apply Fr_until_no_match; solve [auto] | apply Fr_binops; solve [auto] ].

Section FrameBase.
  Variable K : ctx -> ctx -> Prop.
  Hypothesis K_add_diag : forall x c d, K c d -> K (add_diag x c) (add_diag x d).
  Notation FrK := (fun A => @Fr K A).

  Lemma Fr_seq_tokens tys : Fr K (seq_tokens tys).
  Proof. apply (R_seq_tokens FrK); fr_hyp K_add_diag. Qed.
  Lemma Fr_tok_alt tys : Fr K (tok_alt tys).
  Proof. apply (R_tok_alt FrK); fr_hyp K_add_diag. Qed.
  Lemma Fr_parse_comment : Fr K parse_comment.
  Proof. apply (R_parse_comment FrK); fr_hyp K_add_diag. Qed.
  Lemma Fr_parse_annotations : Fr K parse_annotations.
  Proof. apply (R_parse_annotations FrK); fr_hyp K_add_diag. Qed.
  Lemma Fr_parse_identifier : Fr K parse_identifier.
  Proof. apply (R_parse_identifier FrK); fr_hyp K_add_diag. Qed.
  Lemma Fr_parse_type_basic : Fr K parse_type_basic.
  Proof. apply (R_parse_type_basic FrK); fr_hyp K_add_diag. Qed.
  Lemma Fr_parse_uses : Fr K parse_uses.
  Proof. apply (R_parse_uses FrK); fr_hyp K_add_diag. Qed.
  Lemma Fr_parse_constant_declaration : Fr K parse_constant_declaration.
  Proof. apply (R_parse_constant_declaration FrK); fr_hyp K_add_diag. Qed.
  Lemma Fr_parse_type_declaration pt : Fr K pt -> Fr K (parse_type_declaration pt).
  Proof. intro H. apply (R_parse_type_declaration FrK); auto; fr_hyp K_add_diag. Qed.
  Lemma Fr_parse_parameter_declaration_list rec : Fr K rec -> Fr K (parse_parameter_declaration_list rec).
  Proof. intro H. apply (R_parse_parameter_declaration_list FrK); auto; fr_hyp K_add_diag. Qed.
End FrameBase.

Create HintDb frdb.
#[export] Hint Resolve Fr_parse_comment Fr_parse_annotations Fr_parse_identifier Fr_parse_type_basic Fr_parse_uses
  Fr_parse_constant_declaration Fr_parse_type_declaration Fr_parse_parameter_declaration_list Km_add_diag Kc_add_diag : frdb.

Ltac ftac :=
  intros; cbv beta;
  lazymatch goal with
  | |- Fr _ (fun _ c => (Panic _, c)) => apply Fr_panic
  | |- Fr _ (bind _ _) => apply Fr_bind; [ solve [ftac] | intros ?; solve [ftac] ]
  | |- Fr _ (ret _) => apply Fr_ret
  | |- Fr _ (opt _) => apply Fr_opt; solve [ftac]
  | |- Fr _ (recover_at_error _) => apply Fr_rae; solve [ftac]
  | |- Fr _ (until_no_match _) => apply Fr_until_no_match; solve [ftac]
  | |- Fr _ (exp_token _) => apply Fr_exp_token
  | |- Fr _ (take_until _) => apply Fr_take_until
  | |- Fr _ (seq_tokens _) => apply Fr_seq_tokens
  | |- Fr _ (tok_alt _) => apply Fr_tok_alt
  | |- Fr _ (alt _) => apply Fr_alt; repeat (apply Forall_cons || apply Forall_nil); solve [ftac]
  | |- Fr _ (match ?x with _ => _ end) => destruct x; solve [ftac]
  | |- Fr _ ?p => first [ assumption | solve [eauto 4 with frdb] | (progress unfold p); solve [ftac] ]
  end.

Ltac use H i c d HK r c1 d1 HK1 F :=
  let E1 := fresh "E" in let E2 := fresh "E" in
  destruct (H i c d HK) as (r & c1 & d1 & E1 & E2 & HK1 & F); rewrite E1, E2; clear E1 E2.

Section FrameTop.
  Variable g : G.
  Hypothesis Ht : Fr Km (g_type g).
  Hypothesis Hs : Fr Kc (g_stmt g).

  Lemma Fr_parse_member_modifier_tokens : Fr Km parse_member_modifier_tokens.
  Proof. unfold parse_member_modifier_tokens. ftac. Qed.

  Lemma Fr_parse_member_modifiers : Fr Km parse_member_modifiers.
  Proof.
    intros i c d HK. unfold parse_member_modifiers.
    assert (Fr Km (until_no_match parse_member_modifier_tokens)) as Hu
      by (apply Fr_until_no_match; apply Fr_parse_member_modifier_tokens).
    use Hu i c d HK r c1 d1 HK1 F.
    destruct r as [rest ts|e m|s|]; apply (rel2_cont _ _ _ _ _ _ _ F); try (apply rel2_ret; exact HK1).
    destruct ts; apply rel2_ret; exact HK1.
  Qed.

  Lemma Fr_parse_method_external : Fr Km parse_method_external.
  Proof. unfold parse_method_external. ftac. Qed.

  Lemma Fr_parse_method_modifiers : Fr Km parse_method_modifiers.
  Proof.
    intros i c d HK. unfold parse_method_modifiers.
    match goal with |- context [until_no_match ?p i c] => assert (Fr Km (until_no_match p)) as Hu end.
    { apply Fr_until_no_match. apply Fr_alt. repeat (apply Forall_cons || apply Forall_nil).
      - apply Fr_parse_member_modifier_tokens. - apply Fr_parse_method_external. - apply Fr_exp_token. }
    use Hu i c d HK r c1 d1 HK1 F.
    destruct r as [rest ts|e m|s|]; apply (rel2_cont _ _ _ _ _ _ _ F); try (apply rel2_ret; exact HK1).
    destruct ts; apply rel2_ret; exact HK1.
  Qed.

  Hint Resolve Fr_parse_member_modifiers Fr_parse_method_modifiers : frdb.

  Lemma Fr_parse_global_variable_declaration : Fr Km (parse_global_variable_declaration g).
  Proof. unfold parse_global_variable_declaration. ftac. Qed.

  Lemma Fr_parse_method_name : Fr Km parse_method_name.
  Proof. unfold parse_method_name, parse_method_name_uievent. ftac. Qed.

  Lemma Fr_parse_method_body body : Fr Km (parse_method_body g body).
  Proof.
    unfold parse_method_body. destruct body as [|first rest]; [apply Fr_ret|].
    intros i c d HK. unfold on_slice.
    match goal with |- context [bind (with_ctx clear_cache) ?k] => set (kk := k) end.
    assert (Fr Kc (kk tt)) as Hk.
    { unfold kk. apply Fr_bind; [apply Fr_repeat; [apply Kc_add_diag|exact Hs]|].
      intro stmts. destruct stmts; apply Fr_ret. }
    unfold bind, with_ctx.
    destruct (Hk (first :: rest) (clear_cache c) (clear_cache d) (Km_clear c d HK)) as (r & c1 & d1 & E1 & E2 & HK1 & F).
    rewrite E1, E2.
    apply (rel2_cont _ _ _ _ (clear_cache c) _ (clear_cache d)); [apply frame_clear|].
    apply (rel2_cont _ _ _ _ _ _ _ F).
    destruct r; apply rel2_ret; apply Kc_Km; exact HK1.
  Qed.

  Lemma Fr_method_tail first eraw erange mods terms msg : Fr Km (method_tail g first eraw erange mods terms msg).
  Proof.
    unfold method_tail. destruct (has_method_body mods); [|apply Fr_ret].
    apply Fr_bind; [apply Fr_take_until|]. intros [body endt].
    apply Fr_bind; [apply Fr_parse_method_body|]. intro b.
    apply Fr_bind; [|intros _; apply Fr_ret].
    destruct endt; [apply Fr_ret|].
    intros i c d HK. unfold with_ctx.
    eapply rel2_cont; [apply frame_add_diag|]. apply rel2_ret. apply Km_add_diag. exact HK.
  Qed.

  Hint Resolve Fr_parse_method_name Fr_method_tail : frdb.

  Lemma Fr_parse_procedure_declaration : Fr Km (parse_procedure_declaration g).
  Proof.
    unfold parse_procedure_declaration.
    apply Fr_bind; [apply Fr_exp_token|]. intro first.
    apply Fr_bind; [apply Fr_parse_method_name|]. intro name.
    apply Fr_bind; [apply Fr_parse_parameter_declaration_list; [apply Km_add_diag|exact Ht]|]. intro ps.
    apply Fr_bind; [apply Fr_parse_method_modifiers|]. intro mods.
    destruct mods as [[[mr rr] fl]|]; [|destruct ps as [pn|]]; cbv beta iota;
      (apply Fr_bind; [apply Fr_method_tail|]); intros [[body endt] end_]; apply Fr_ret.
  Qed.

  Lemma Fr_parse_function_declaration : Fr Km (parse_function_declaration g).
  Proof.
    unfold parse_function_declaration.
    apply Fr_bind; [apply Fr_exp_token|]. intro first.
    apply Fr_bind; [apply Fr_parse_method_name|]. intro name.
    apply Fr_bind; [apply Fr_parse_parameter_declaration_list; [apply Km_add_diag|exact Ht]|]. intro ps.
    apply Fr_bind; [apply Fr_exp_token|]. intros _.
    apply Fr_bind; [apply Fr_alt; repeat constructor; apply Fr_parse_type_basic|]. intro rt.
    apply Fr_bind; [apply Fr_parse_method_modifiers|]. intro mods.
    destruct mods as [[[mr rr] fl]|]; cbv beta iota;
      (apply Fr_bind; [apply Fr_method_tail|]); intros [[body endt] end_]; apply Fr_ret.
  Qed.

  Lemma Fr_parse_class : Fr Km parse_class.
  Proof. unfold parse_class, parse_parent_class. ftac. Qed.

  Lemma Fr_parse_module : Fr Km parse_module.
  Proof. unfold parse_module. ftac. Qed.

  Lemma Fr_top_blocks : Fr Km (alt (top_block_parsers g)).
  Proof.
    apply Fr_alt. repeat (apply Forall_cons || apply Forall_nil);
      [apply Fr_parse_procedure_declaration|apply Fr_parse_function_declaration].
  Qed.

  Lemma Fr_top_decls : Fr Km (alt (top_decl_parsers g)).
  Proof.
    apply Fr_alt. unfold top_decl_parsers. repeat (apply Forall_cons || apply Forall_nil).
    - apply Fr_parse_comment. - apply Fr_parse_class. - apply Fr_parse_module. - apply Fr_parse_uses.
    - apply Fr_parse_type_declaration; exact Ht. - apply Fr_parse_constant_declaration.
    - apply Fr_parse_global_variable_declaration. - apply Fr_parse_annotations.
  Qed.

  Theorem top_loop_Fr whole : forall fuel acc, Fr Km (top_loop g fuel whole acc).
  Proof.
    induction fuel as [|f IH]; intros acc i c d HK; cbn [top_loop]; [apply rel2_ret; exact HK|].
    destruct i as [|t i']; [apply rel2_ret; exact HK|].
    use Fr_top_blocks (t :: i') c d HK r c1 d1 HK1 F.
    destruct r as [rest n|be bm|s|]; apply (rel2_cont _ _ _ _ _ _ _ F); try (apply rel2_ret; exact HK1).
    - apply IH. exact HK1.
    - use Fr_top_decls (t :: i') c1 d1 HK1 r2 c2 d2 HK2 F2.
      destruct r2 as [rest n|e m|s|]; apply (rel2_cont _ _ _ _ _ _ _ F2); try (apply rel2_ret; exact HK2).
      + apply IH. exact HK2.
      + destruct (if ilen e <? ilen be then (e, m) else (be, bm)) as [me mm].
        destruct (match me with t0 :: _ => Some t0 | [] => match rev whole with t0 :: _ => Some t0 | [] => None end end) as [lt|];
          [|apply rel2_ret; exact HK2].
        eapply rel2_cont; [apply frame_add_diag|]. apply IH. apply Km_add_diag. exact HK2.
  Qed.
End FrameTop.

(* what the relation says, spelled out *)
Lemma rel2_elim {A} K c d (X Y : res A * ctx) : Rel2 K c d X Y ->
  fst X = fst Y /\ exists new, cdiags (snd X) = new ++ cdiags c /\ cdiags (snd Y) = new ++ cdiags d.
Proof. intros (r & cf & df & -> & -> & _ & F). split; [reflexivity|exact F]. Qed.
