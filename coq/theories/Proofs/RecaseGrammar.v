(* C17, parser layer: one lemma per grammar function of Model/Grammar.v for the binary relation SimP of
   RecaseComb.v (two runs on pairwise similar token lists give similar values, identical messages and
   diagnostics), mostly by the tactic [stac]; then the knot [gram_sim] by induction on fuel. *)
From GoldV Require Import Base Tokens Keywords Lexer AstKinds Tree Strings PComb Grammar Recase RecaseBase RecaseComb.
From GoldV Require Import ParserWF GrammarWF.
Open Scope N_scope.

(* ---------- helper facts about the node builders ---------- *)

Lemma aval_sim_N n n' : n = n' -> aval_sim (AN n) (AN n').
Proof. intros ->. constructor. Qed.

Lemma opt_list_sim {A} (R : A -> A -> Prop) o o' : opt_rel R o o' -> Forall2 R (opt_list o) (opt_list o').
Proof. destruct 1; cbn [opt_list]; [constructor; [assumption|constructor]|constructor]. Qed.

Lemma opt_toks_sim o o' : opt_rel tok_sim o o' -> aval_sim (opt_toks o) (opt_toks o').
Proof. destruct 1; unfold opt_toks; constructor; [constructor; [assumption|constructor]|constructor]. Qed.

Lemma cb_node_sim b b' : cb_sim b b' -> node_sim (cb_node b) (cb_node b').
Proof.
  intros (H1 & H2 & H3 & H4). unfold cb_node. apply node_sim_mk; auto using ci_eq_refl.
  apply F2_app; [apply opt_list_sim; exact H3|exact H4].
Qed.

Lemma cb_update_sim b b' : cb_sim b b' -> cb_sim (cb_update b) (cb_update b').
Proof.
  intros (H1 & H2 & H3 & H4). unfold cb_update, cb_sim. cbn [cb_raw cb_range cb_cond cb_stmts].
  repeat split; auto. rewrite H2. f_equal.
  pose proof (F2_rev _ _ _ H4) as Hr. destruct Hr as [|n n' l l' Hn _].
  - destruct H3 as [n n' Hn|]; [apply node_sim_range; exact Hn|reflexivity].
  - apply node_sim_range; exact Hn.
Qed.

(* ---------- the tactic ---------- *)

(* the canonical value relation of a type *)
Ltac rel_of T :=
  lazymatch T with
  | node => constr:(node_sim)
  | tok => constr:(tok_sim)
  | cblock => constr:(cb_sim)
  | input => constr:(inp_sim)
  | option (N * range * N)%type => constr:(@eq T)
  | option (range * N)%type => constr:(@eq T)
  | option ?A => let r := rel_of A in constr:(@opt_rel A r)
  | list ?A => let r := rel_of A in constr:(@Forall2 A A r)
  | prod ?A ?B => let ra := rel_of A in let rb := rel_of B in constr:(@pair_rel A B ra rb)
  | _ => constr:(@eq T)
  end.

Ltac head_of t := lazymatch t with ?f _ => head_of f | _ => t end.

(* all projections of the similarity hypotheses *)
Ltac sprep :=
  repeat match goal with
  | H : tok_sim ?t ?t' |- _ =>
      lazymatch goal with
      | _ : ci_eq (tval t) (tval t') |- _ => fail
      | _ => pose proof (ts_raw _ _ H); pose proof (ts_range _ _ H); pose proof (ts_ty _ _ H);
             pose proof (ts_val _ _ H)
      end
  | H : node_sim ?n ?n' |- _ =>
      lazymatch goal with
      | _ : ci_eq (nident n) (nident n') |- _ => fail
      | _ => pose proof (node_sim_raw _ _ H); pose proof (node_sim_range _ _ H);
             pose proof (node_sim_ident _ _ H)
      end
  end.

Ltac ssubst :=
  repeat match goal with
  | H : ?a = ?b |- _ => is_var a; is_var b; subst a
  end.

(* case analysis on a pair of related variables *)
Ltac inv_var x :=
  match goal with
  | H : opt_rel _ x ?y |- _ => is_var y; destruct H
  | H : opt_rel _ ?y x |- _ => is_var y; destruct H
  | H : Forall2 _ x ?y |- _ => is_var y; destruct H
  | H : Forall2 _ ?y x |- _ => is_var y; destruct H
  | H : inp_sim x ?y |- _ => is_var y; destruct H
  | H : inp_sim ?y x |- _ => is_var y; destruct H
  | H : pair_rel _ _ x ?y |- _ => is_var y; destruct x, y; destruct H as [? ?]; cbn [fst snd] in *
  | H : pair_rel _ _ ?y x |- _ => is_var y; destruct x, y; destruct H as [? ?]; cbn [fst snd] in *
  | _ =>
      (* values related by equality are the same variable on both sides *)
      lazymatch type of x with
      | option (N * range * N)%type => destruct x as [[[? ?] ?]|]
      | option (range * N)%type => destruct x as [[? ?]|]
      | (N * range * N)%type => destruct x as [[? ?] ?]
      | (range * N)%type => destruct x as [? ?]
      | (N * range)%type => destruct x as [? ?]
      end
  end.

Ltac dmatch :=
  match goal with
  | |- context [match rev ?x with _ => _ end] =>
      is_var x;
      match goal with
      | H : Forall2 ?R x ?y |- _ =>
          let H' := fresh "Hrev" in
          pose proof (F2_rev R x y H) as H'; revert H'; generalize (rev x) (rev y);
          let rx := fresh "rx" in let ry := fresh "ry" in intros rx ry H'; destruct H'
      end
  | |- context [match ?x with _ => _ end] => is_var x; inv_var x
  end; cbv beta iota; ssubst.

Ltac sci :=
  first [ assumption | apply ci_eq_refl | apply ci_eq_app; sci | apply ci_eq_cons; sci ].

(* leaves: equalities and case-insensitive equalities *)
Ltac seq :=
  unfold range_of_toks, tpos, new_range, last_range; cbv beta iota zeta; repeat dmatch; sprep;
  first [ reflexivity | congruence ].
Ltac sci' := cbv beta iota zeta; repeat dmatch; sprep; sci.

(* extension points for RecaseTop.v *)
Ltac sval_hook := fail.
Ltac stac_hook := fail.

Ltac sval :=
  cbv beta iota zeta; cbn [fst snd];
  lazymatch goal with
  | |- node_sim (Node _ _ _ _ _ _) (Node _ _ _ _ _ _) =>
      apply node_sim_mk; [ reflexivity | seq | seq | sci' | sattrs | skids ]
  | |- node_sim (mk_terminal _) (mk_terminal _) => apply mk_terminal_sim; sval
  | |- node_sim (mk_binop _ _ _) (mk_binop _ _ _) => apply mk_binop_sim; sval
  | |- node_sim mk_empty_default mk_empty_default => apply node_sim_refl
  | |- node_sim (cb_node _) (cb_node _) => apply cb_node_sim; sval
  | |- node_sim (match _ with _ => _ end) _ => dmatch; sval
  | |- node_sim _ _ => first [ assumption | dmatch; sval ]
  | |- tok_sim (match _ with _ => _ end) _ => dmatch; sval
  | |- tok_sim _ _ => first [ assumption | sval_hook | dmatch; sval ]
  | |- opt_rel _ (Some _) (Some _) => apply OR_some; sval
  | |- opt_rel _ None None => apply OR_none
  | |- opt_rel _ (match _ with _ => _ end) _ => dmatch; sval
  | |- opt_rel _ _ _ => first [ assumption | dmatch; sval ]
  | |- pair_rel _ _ (_, _) (_, _) => split; cbn [fst snd]; sval
  | |- pair_rel _ _ (match _ with _ => _ end) _ => dmatch; sval
  | |- pair_rel _ _ _ _ => first [ assumption | dmatch; sval ]
  | |- cb_sim (mkCB _ _ _ _) (mkCB _ _ _ _) =>
      unfold cb_sim; cbn [cb_raw cb_range cb_cond cb_stmts]; repeat split; sval
  | |- cb_sim (cb_update _) (cb_update _) => apply cb_update_sim; sval
  | |- cb_sim _ _ => first [ assumption | dmatch; sval ]
  | |- Forall2 _ _ _ => skids
  | |- inp_sim _ _ => assumption
  | |- @eq _ _ _ => seq
  | |- True => exact I
  end
with skids :=
  cbv beta iota zeta; cbn [fst snd];
  lazymatch goal with
  | |- Forall2 _ [] [] => apply Forall2_nil
  | |- Forall2 _ (_ :: _) (_ :: _) => apply Forall2_cons; [ sval | skids ]
  | |- Forall2 _ (_ ++ _) (_ ++ _) => apply F2_app; skids
  | |- Forall2 _ (opt_list _) (opt_list _) => apply opt_list_sim; sval
  | |- Forall2 _ (rev _) (rev _) => apply F2_rev; skids
  | |- Forall2 _ (removelast _) (removelast _) => apply F2_removelast; skids
  | |- Forall2 _ (map cb_node _) (map cb_node _) => apply (F2_map cb_sim node_sim cb_node cb_node _ _ cb_node_sim); skids
  | |- Forall2 _ (match _ with _ => _ end) _ => dmatch; skids
  | |- Forall2 _ _ _ => first [ assumption | dmatch; skids ]
  end
with sattrs :=
  lazymatch goal with
  | |- Forall2 attr_sim [] [] => apply Forall2_nil
  | |- Forall2 attr_sim (_ :: _) (_ :: _) =>
      apply Forall2_cons; [ split; cbn [fst snd]; [ reflexivity | saval ] | sattrs ]
  end
with saval :=
  lazymatch goal with
  | |- aval_sim (AT _) (AT _) => apply AVS_T; sval
  | |- aval_sim (AL _) (AL _) => apply AVS_L; skids
  | |- aval_sim (AS _) (AS _) => apply AVS_S; sci'
  | |- aval_sim (AN _) (AN _) => apply aval_sim_N; seq
  | |- aval_sim (opt_toks _) (opt_toks _) => apply opt_toks_sim; sval
  end.

Create HintDb sdb.

Ltac stac :=
  intros; ssubst; cbv beta iota zeta;
  lazymatch goal with
  | |- SimP _ (fun _ c => (Panic _, c)) _ => apply S_panic
  | |- SimP _ (@bind ?A _ _ _) (bind _ _) =>
      let r := rel_of A in
      eapply (@S_bind _ _ r);
      [ stac
      | let a := fresh "a" in let a' := fresh "a'" in let Ha := fresh "Ha" in intros a a' Ha; stac ]
  | |- SimP _ (ret _) (ret _) => apply S_ret; sval
  | |- SimP _ (fail _) (fail _) => apply S_fail
  | |- SimP _ (prepend _ _) (prepend _ _) => apply S_prepend; stac
  | |- SimP _ (opt _) (opt _) => apply S_opt; stac
  | |- SimP _ (recover_at_error _) (recover_at_error _) => apply S_recover_at_error; stac
  | |- SimP _ (sep_list _ _) (sep_list _ _) => apply S_sep_list; stac
  | |- SimP _ (until_w_ctx _ _) (until_w_ctx _ _) => apply S_until_w_ctx; stac
  | |- SimP _ (until_strict _ _) (until_strict _ _) => apply S_until_strict; stac
  | |- SimP _ (until_no_match _) (until_no_match _) => apply S_until_no_match; stac
  | |- SimP _ (repeat_w_ctx _) (repeat_w_ctx _) => apply S_repeat_w_ctx; stac
  | |- SimP _ (take_until _) (take_until _) => apply S_take_until
  | |- SimP _ (exp_token _) (exp_token _) => apply S_exp_token
  | |- SimP _ (exp_ident_with_value _) (exp_ident_with_value _) => apply S_exp_ident_with_value
  | |- SimP _ (tok_alt _) (tok_alt _) => apply S_tok_alt
  | |- SimP _ (seq_tokens _) (seq_tokens _) => apply S_seq_tokens
  | |- SimP _ (sep_tokens _ _) (sep_tokens _ _) => apply S_sep_tokens
  | |- SimP _ (binops _ _) (binops _ _) => apply S_binops; stac
  | |- SimP _ (memo _ _) (memo _ _) => apply S_memo; stac
  | |- SimP _ (memo_ok_only _ _) (memo_ok_only _ _) => apply S_memo_ok_only; stac
  | |- SimP _ (with_ctx clear_cache) (with_ctx clear_cache) => apply S_clear_cache
  | |- SimP _ (with_ctx (add_diag _)) (with_ctx (add_diag _)) => apply S_add_diag; seq
  | |- SimP _ (alt _) (alt _) => apply S_alt; repeat (apply Forall2_cons || apply Forall2_nil); stac
  | |- SimP _ (match _ with _ => _ end) _ => dmatch; stac
  | |- SimP _ ?p ?p' =>
      first [ assumption
            | stac_hook
            | solve [ eauto 4 with sdb nocore ]
            | let h := head_of p in progress unfold h; stac ]
  end.

(* ---------- small shared parsers ---------- *)

Lemma S_parse_comment : SimP node_sim parse_comment parse_comment.
Proof. unfold parse_comment. stac. Qed.
#[export] Hint Resolve S_parse_comment : sdb.

Lemma S_annotation_body : SimP (@eq unit) annotation_body annotation_body.
Proof.
  unfold annotation_body.
  eapply (@S_bind _ _ (pair_rel (Forall2 tok_sim) (opt_rel tok_sim))); [apply S_take_until|].
  intros [b t] [b' t'] [H1 H2]. cbn [fst snd] in *. destruct H2 as [a a' Ha|]; [|apply S_fail].
  rewrite <- (ts_ty _ _ Ha). destruct (tt_eqb (tty a) TCSqrBracket); [apply S_ret; reflexivity|apply S_fail].
Qed.
#[export] Hint Resolve S_annotation_body : sdb.

Lemma S_parse_annotations : SimP node_sim parse_annotations parse_annotations.
Proof. unfold parse_annotations. stac. Qed.
#[export] Hint Resolve S_parse_annotations : sdb.

Lemma S_parse_literal_basic : SimP node_sim parse_literal_basic parse_literal_basic.
Proof. unfold parse_literal_basic. stac. Qed.
#[export] Hint Resolve S_parse_literal_basic : sdb.

Lemma S_parse_ident_token : SimP tok_sim parse_ident_token parse_ident_token.
Proof. unfold parse_ident_token. stac. Qed.
#[export] Hint Resolve S_parse_ident_token : sdb.

Lemma S_parse_identifier : SimP node_sim parse_identifier parse_identifier.
Proof. unfold parse_identifier. stac. Qed.
#[export] Hint Resolve S_parse_identifier : sdb.

(* ---------- types ---------- *)

Lemma S_parse_type_basic : SimP node_sim parse_type_basic parse_type_basic.
Proof. unfold parse_type_basic. stac. Qed.
#[export] Hint Resolve S_parse_type_basic : sdb.

Lemma S_parse_enum_variant : SimP node_sim parse_enum_variant parse_enum_variant.
Proof. unfold parse_enum_variant. stac. Qed.
#[export] Hint Resolve S_parse_enum_variant : sdb.
Lemma S_parse_type_sized :
  SimP node_sim parse_type_sized parse_type_sized.
Proof. intros. unfold parse_type_sized. stac. Qed.
#[export] Hint Resolve S_parse_type_sized : sdb.

Lemma S_parse_type_enum :
  SimP node_sim parse_type_enum parse_type_enum.
Proof. intros. unfold parse_type_enum. stac. Qed.
#[export] Hint Resolve S_parse_type_enum : sdb.

Lemma S_parse_type_composed :
  SimP node_sim parse_type_composed parse_type_composed.
Proof. intros. unfold parse_type_composed. stac. Qed.
#[export] Hint Resolve S_parse_type_composed : sdb.

Lemma S_parse_type_reference_options :
  SimP (Forall2 tok_sim) parse_type_reference_options parse_type_reference_options.
Proof. intros. unfold parse_type_reference_options. stac. Qed.
#[export] Hint Resolve S_parse_type_reference_options : sdb.

Lemma S_parse_type_reference :
  SimP node_sim parse_type_reference parse_type_reference.
Proof. intros. unfold parse_type_reference. stac. Qed.
#[export] Hint Resolve S_parse_type_reference : sdb.

Lemma S_parse_type_range :
  SimP node_sim parse_type_range parse_type_range.
Proof. intros. unfold parse_type_range. stac. Qed.
#[export] Hint Resolve S_parse_type_range : sdb.

Lemma S_parse_type_set :
  SimP node_sim parse_type_set parse_type_set.
Proof. intros. unfold parse_type_set. stac. Qed.
#[export] Hint Resolve S_parse_type_set : sdb.

Lemma S_parse_type_pointer :
  SimP node_sim parse_type_pointer parse_type_pointer.
Proof. intros. unfold parse_type_pointer. stac. Qed.
#[export] Hint Resolve S_parse_type_pointer : sdb.

Lemma S_parse_type_array_index :
  SimP node_sim parse_type_array_index parse_type_array_index.
Proof. intros. unfold parse_type_array_index. stac. Qed.
#[export] Hint Resolve S_parse_type_array_index : sdb.

Lemma S_parse_type_array :
  SimP node_sim parse_type_array parse_type_array.
Proof. intros. unfold parse_type_array. stac. Qed.
#[export] Hint Resolve S_parse_type_array : sdb.

Lemma S_parse_type_instanceof :
  SimP node_sim parse_type_instanceof parse_type_instanceof.
Proof. intros. unfold parse_type_instanceof. stac. Qed.
#[export] Hint Resolve S_parse_type_instanceof : sdb.

Lemma S_parse_type_record_field rec rec' :
  SimP node_sim rec rec' -> SimP node_sim (parse_type_record_field rec) (parse_type_record_field rec').
Proof. intros. unfold parse_type_record_field. stac. Qed.
#[export] Hint Resolve S_parse_type_record_field : sdb.

Lemma S_parse_type_record rec rec' :
  SimP node_sim rec rec' -> SimP node_sim (parse_type_record rec) (parse_type_record rec').
Proof. intros. unfold parse_type_record. stac. Qed.
#[export] Hint Resolve S_parse_type_record : sdb.

Lemma S_parse_parameter_declaration rec rec' :
  SimP node_sim rec rec' -> SimP node_sim (parse_parameter_declaration rec) (parse_parameter_declaration rec').
Proof. intros. unfold parse_parameter_declaration. stac. Qed.
#[export] Hint Resolve S_parse_parameter_declaration : sdb.

Lemma S_parse_parameter_declaration_list rec rec' :
  SimP node_sim rec rec' -> SimP (opt_rel node_sim) (parse_parameter_declaration_list rec) (parse_parameter_declaration_list rec').
Proof. intros. unfold parse_parameter_declaration_list. stac. Qed.
#[export] Hint Resolve S_parse_parameter_declaration_list : sdb.

Lemma S_parse_type_procedure rec rec' :
  SimP node_sim rec rec' -> SimP node_sim (parse_type_procedure rec) (parse_type_procedure rec').
Proof. intros. unfold parse_type_procedure. stac. Qed.
#[export] Hint Resolve S_parse_type_procedure : sdb.

Lemma S_parse_type_function rec rec' :
  SimP node_sim rec rec' -> SimP node_sim (parse_type_function rec) (parse_type_function rec').
Proof. intros. unfold parse_type_function. stac. Qed.
#[export] Hint Resolve S_parse_type_function : sdb.

Lemma S_parse_type_body rec rec' :
  SimP node_sim rec rec' -> SimP node_sim (parse_type_body rec) (parse_type_body rec').
Proof. intros. unfold parse_type_body. stac. Qed.
#[export] Hint Resolve S_parse_type_body : sdb.

Lemma S_parse_constant_declaration :
  SimP node_sim parse_constant_declaration parse_constant_declaration.
Proof. intros. unfold parse_constant_declaration. stac. Qed.
#[export] Hint Resolve S_parse_constant_declaration : sdb.

Lemma S_parse_uses :
  SimP node_sim parse_uses parse_uses.
Proof. intros. unfold parse_uses. stac. Qed.
#[export] Hint Resolve S_parse_uses : sdb.

Lemma S_parse_type_declaration ptype ptype' :
  SimP node_sim ptype ptype' -> SimP node_sim (parse_type_declaration ptype) (parse_type_declaration ptype').
Proof. intros. unfold parse_type_declaration. stac. Qed.
#[export] Hint Resolve S_parse_type_declaration : sdb.

Lemma S_parse_local_var_decl ptype ptype' :
  SimP node_sim ptype ptype' -> SimP node_sim (parse_local_var_decl ptype) (parse_local_var_decl ptype').
Proof. intros. unfold parse_local_var_decl. stac. Qed.
#[export] Hint Resolve S_parse_local_var_decl : sdb.

Lemma S_parse_literal_set rp rp' :
  SimP node_sim rp rp' -> SimP node_sim (parse_literal_set rp) (parse_literal_set rp').
Proof. intros. unfold parse_literal_set. stac. Qed.
#[export] Hint Resolve S_parse_literal_set : sdb.

Lemma S_parse_literals rp rp' :
  SimP node_sim rp rp' -> SimP node_sim (parse_literals rp) (parse_literals rp').
Proof. intros. unfold parse_literals. stac. Qed.
#[export] Hint Resolve S_parse_literals : sdb.

Lemma S_parse_method_call re re' :
  SimP node_sim re re' -> SimP node_sim (parse_method_call re) (parse_method_call re').
Proof. intros. unfold parse_method_call. stac. Qed.
#[export] Hint Resolve S_parse_method_call : sdb.

Lemma S_parse_array_access re re' :
  SimP node_sim re re' -> SimP node_sim (parse_array_access re) (parse_array_access re').
Proof. intros. unfold parse_array_access. stac. Qed.
#[export] Hint Resolve S_parse_array_access : sdb.

Lemma S_parse_dot_op re re' :
  SimP node_sim re re' -> SimP node_sim (parse_dot_op re) (parse_dot_op re').
Proof. intros. unfold parse_dot_op. stac. Qed.
#[export] Hint Resolve S_parse_dot_op : sdb.

Lemma S_parse_dot_ops re re' :
  SimP node_sim re re' -> SimP node_sim (parse_dot_ops re) (parse_dot_ops re').
Proof. intros. unfold parse_dot_ops. stac. Qed.
#[export] Hint Resolve S_parse_dot_ops : sdb.

Lemma S_parse_bracket_closure re re' :
  SimP node_sim re re' -> SimP node_sim (parse_bracket_closure re) (parse_bracket_closure re').
Proof. intros. unfold parse_bracket_closure. stac. Qed.
#[export] Hint Resolve S_parse_bracket_closure : sdb.

Lemma S_parse_unary_op_pre rp rp' :
  SimP node_sim rp rp' -> SimP node_sim (parse_unary_op_pre rp) (parse_unary_op_pre rp').
Proof. intros. unfold parse_unary_op_pre. stac. Qed.
#[export] Hint Resolve S_parse_unary_op_pre : sdb.

Lemma S_parse_unary_op_post re re' :
  SimP node_sim re re' -> SimP node_sim (parse_unary_op_post re) (parse_unary_op_post re').
Proof. intros. unfold parse_unary_op_post. stac. Qed.
#[export] Hint Resolve S_parse_unary_op_post : sdb.

Lemma S_parse_unary_op re re' rp rp' :
  SimP node_sim re re' -> SimP node_sim rp rp' -> SimP node_sim (parse_unary_op re rp) (parse_unary_op re' rp').
Proof. intros. unfold parse_unary_op. stac. Qed.
#[export] Hint Resolve S_parse_unary_op : sdb.

Lemma S_parse_primary_body re re' rp rp' :
  SimP node_sim re re' -> SimP node_sim rp rp' -> SimP node_sim (parse_primary_body re rp) (parse_primary_body re' rp').
Proof. intros. unfold parse_primary_body. stac. Qed.
#[export] Hint Resolve S_parse_primary_body : sdb.

Lemma S_parse_factors prim prim' :
  SimP node_sim prim prim' -> SimP node_sim (parse_factors prim) (parse_factors prim').
Proof. intros. unfold parse_factors. stac. Qed.
#[export] Hint Resolve S_parse_factors : sdb.

Lemma S_parse_terms prim prim' :
  SimP node_sim prim prim' -> SimP node_sim (parse_terms prim) (parse_terms prim').
Proof. intros. unfold parse_terms. stac. Qed.
#[export] Hint Resolve S_parse_terms : sdb.

Lemma S_parse_bit_ops_1 prim prim' :
  SimP node_sim prim prim' -> SimP node_sim (parse_bit_ops_1 prim) (parse_bit_ops_1 prim').
Proof. intros. unfold parse_bit_ops_1. stac. Qed.
#[export] Hint Resolve S_parse_bit_ops_1 : sdb.

Lemma S_parse_bit_ops_2 prim prim' :
  SimP node_sim prim prim' -> SimP node_sim (parse_bit_ops_2 prim) (parse_bit_ops_2 prim').
Proof. intros. unfold parse_bit_ops_2. stac. Qed.
#[export] Hint Resolve S_parse_bit_ops_2 : sdb.

Lemma S_parse_shifts prim prim' :
  SimP node_sim prim prim' -> SimP node_sim (parse_shifts prim) (parse_shifts prim').
Proof. intros. unfold parse_shifts. stac. Qed.
#[export] Hint Resolve S_parse_shifts : sdb.

Lemma S_parse_compare prim prim' :
  SimP node_sim prim prim' -> SimP node_sim (parse_compare prim) (parse_compare prim').
Proof. intros. unfold parse_compare. stac. Qed.
#[export] Hint Resolve S_parse_compare : sdb.

Lemma S_parse_logical_and prim prim' :
  SimP node_sim prim prim' -> SimP node_sim (parse_logical_and prim) (parse_logical_and prim').
Proof. intros. unfold parse_logical_and. stac. Qed.
#[export] Hint Resolve S_parse_logical_and : sdb.

Lemma S_parse_logical_or prim prim' :
  SimP node_sim prim prim' -> SimP node_sim (parse_logical_or prim) (parse_logical_or prim').
Proof. intros. unfold parse_logical_or. stac. Qed.
#[export] Hint Resolve S_parse_logical_or : sdb.

Lemma S_parse_expr_body prim prim' :
  SimP node_sim prim prim' -> SimP node_sim (parse_expr_body prim) (parse_expr_body prim').
Proof. intros. unfold parse_expr_body. stac. Qed.
#[export] Hint Resolve S_parse_expr_body : sdb.

Lemma S_parse_asterisk :
  SimP node_sim parse_asterisk parse_asterisk.
Proof. intros. unfold parse_asterisk. stac. Qed.
#[export] Hint Resolve S_parse_asterisk : sdb.

Lemma S_parse_top_n :
  SimP node_sim parse_top_n parse_top_n.
Proof. intros. unfold parse_top_n. stac. Qed.
#[export] Hint Resolve S_parse_top_n : sdb.

Lemma S_parse_oql_method_call :
  SimP node_sim parse_oql_method_call parse_oql_method_call.
Proof. intros. unfold parse_oql_method_call. stac. Qed.
#[export] Hint Resolve S_parse_oql_method_call : sdb.

Lemma S_parse_select_item pd pd' :
  SimP node_sim pd pd' -> SimP node_sim (parse_select_item pd) (parse_select_item pd').
Proof. intros. unfold parse_select_item. stac. Qed.
#[export] Hint Resolve S_parse_select_item : sdb.

Lemma S_parse_join_item pc pc' :
  SimP node_sim pc pc' -> SimP node_sim (parse_join_item pc) (parse_join_item pc').
Proof. intros. unfold parse_join_item. stac. Qed.
#[export] Hint Resolve S_parse_join_item : sdb.

Lemma S_parse_from_item pc pc' :
  SimP node_sim pc pc' -> SimP node_sim (parse_from_item pc) (parse_from_item pc').
Proof. intros. unfold parse_from_item. stac. Qed.
#[export] Hint Resolve S_parse_from_item : sdb.

Lemma S_parse_where pe pe' :
  SimP node_sim pe pe' -> SimP node_sim (parse_where pe) (parse_where pe').
Proof. intros. unfold parse_where. stac. Qed.
#[export] Hint Resolve S_parse_where : sdb.

Lemma S_parse_order_by_item pd pd' :
  SimP node_sim pd pd' -> SimP node_sim (parse_order_by_item pd) (parse_order_by_item pd').
Proof. intros. unfold parse_order_by_item. stac. Qed.
#[export] Hint Resolve S_parse_order_by_item : sdb.

Lemma S_parse_order_by pd pd' :
  SimP node_sim pd pd' -> SimP (Forall2 node_sim) (parse_order_by pd) (parse_order_by pd').
Proof. intros. unfold parse_order_by. stac. Qed.
#[export] Hint Resolve S_parse_order_by : sdb.

Lemma S_parse_using :
  SimP node_sim parse_using parse_using.
Proof. intros. unfold parse_using. stac. Qed.
#[export] Hint Resolve S_parse_using : sdb.

Lemma S_parse_oql_select pe pe' pd pd' pc pc' :
  SimP node_sim pe pe' -> SimP node_sim pd pd' -> SimP node_sim pc pc' -> SimP node_sim (parse_oql_select pe pd pc) (parse_oql_select pe' pd' pc').
Proof. intros. unfold parse_oql_select. stac. Qed.
#[export] Hint Resolve S_parse_oql_select : sdb.

Lemma S_parse_oql_fetch pd pd' :
  SimP node_sim pd pd' -> SimP node_sim (parse_oql_fetch pd) (parse_oql_fetch pd').
Proof. intros. unfold parse_oql_fetch. stac. Qed.
#[export] Hint Resolve S_parse_oql_fetch : sdb.

Lemma S_parse_oql_expr pe pe' pd pd' pc pc' :
  SimP node_sim pe pe' -> SimP node_sim pd pd' -> SimP node_sim pc pc' -> SimP node_sim (parse_oql_expr pe pd pc) (parse_oql_expr pe' pd' pc').
Proof. intros. unfold parse_oql_expr. stac. Qed.
#[export] Hint Resolve S_parse_oql_expr : sdb.

Lemma S_parse_assignment pd pd' pe pe' :
  SimP node_sim pd pd' -> SimP node_sim pe pe' -> SimP node_sim (parse_assignment pe pd) (parse_assignment pe' pd').
Proof. intros. unfold parse_assignment. stac. Qed.
#[export] Hint Resolve S_parse_assignment : sdb.

Lemma S_parse_to_op :
  SimP node_sim parse_to_op parse_to_op.
Proof. intros. unfold parse_to_op. stac. Qed.
#[export] Hint Resolve S_parse_to_op : sdb.

Lemma S_parse_separated_values :
  SimP node_sim parse_separated_values parse_separated_values.
Proof. intros. unfold parse_separated_values. stac. Qed.
#[export] Hint Resolve S_parse_separated_values : sdb.

Lemma S_parse_when_expr :
  SimP node_sim parse_when_expr parse_when_expr.
Proof. intros. unfold parse_when_expr. stac. Qed.
#[export] Hint Resolve S_parse_when_expr : sdb.

Lemma S_parse_when_block rs rs' :
  SimP node_sim rs rs' -> SimP node_sim (parse_when_block rs) (parse_when_block rs').
Proof. intros. unfold parse_when_block. stac. Qed.
#[export] Hint Resolve S_parse_when_block : sdb.

Lemma S_parse_switch_else_block rs rs' :
  SimP node_sim rs rs' -> SimP (pair_rel (opt_rel node_sim) (opt_rel tok_sim)) (parse_switch_else_block rs) (parse_switch_else_block rs').
Proof. intros. unfold parse_switch_else_block. stac. Qed.
#[export] Hint Resolve S_parse_switch_else_block : sdb.

Lemma S_parse_switch_block pe pe' rs rs' :
  SimP node_sim pe pe' -> SimP node_sim rs rs' -> SimP node_sim (parse_switch_block pe rs) (parse_switch_block pe' rs').
Proof. intros. unfold parse_switch_block. stac. Qed.
#[export] Hint Resolve S_parse_switch_block : sdb.

Lemma S_parse_for_block pe pe' rs rs' :
  SimP node_sim pe pe' -> SimP node_sim rs rs' -> SimP node_sim (parse_for_block pe rs) (parse_for_block pe' rs').
Proof. intros. unfold parse_for_block. stac. Qed.
#[export] Hint Resolve S_parse_for_block : sdb.

Lemma S_parse_foreach_block pe pe' pd pd' pc pc' rs rs' :
  SimP node_sim pe pe' -> SimP node_sim pd pd' -> SimP node_sim pc pc' -> SimP node_sim rs rs' -> SimP node_sim (parse_foreach_block pe pd pc rs) (parse_foreach_block pe' pd' pc' rs').
Proof. intros. unfold parse_foreach_block. stac. Qed.
#[export] Hint Resolve S_parse_foreach_block : sdb.

Lemma S_parse_while_block pe pe' rs rs' :
  SimP node_sim pe pe' -> SimP node_sim rs rs' -> SimP node_sim (parse_while_block pe rs) (parse_while_block pe' rs').
Proof. intros. unfold parse_while_block. stac. Qed.
#[export] Hint Resolve S_parse_while_block : sdb.

Lemma S_parse_loop_block rs rs' :
  SimP node_sim rs rs' -> SimP node_sim (parse_loop_block rs) (parse_loop_block rs').
Proof. intros. unfold parse_loop_block. stac. Qed.
#[export] Hint Resolve S_parse_loop_block : sdb.

Lemma S_parse_repeat_block pe pe' rs rs' :
  SimP node_sim pe pe' -> SimP node_sim rs rs' -> SimP node_sim (parse_repeat_block pe rs) (parse_repeat_block pe' rs').
Proof. intros. unfold parse_repeat_block. stac. Qed.
#[export] Hint Resolve S_parse_repeat_block : sdb.

Lemma S_parse_return_statement pe pe' :
  SimP node_sim pe pe' -> SimP node_sim (parse_return_statement pe) (parse_return_statement pe').
Proof. intros. unfold parse_return_statement. stac. Qed.
#[export] Hint Resolve S_parse_return_statement : sdb.

Lemma S_parse_control_statements pe pe' :
  SimP node_sim pe pe' -> SimP node_sim (parse_control_statements pe) (parse_control_statements pe').
Proof. intros. unfold parse_control_statements. stac. Qed.
#[export] Hint Resolve S_parse_control_statements : sdb.

(* ---------- the hand-written loops of the statement grammar ---------- *)

Lemma cb_app_sim cur cur' nodes nodes' : cb_sim cur cur' -> Forall2 node_sim nodes nodes' ->
  cb_sim (mkCB (cb_raw cur) (cb_range cur) (cb_cond cur) (cb_stmts cur ++ nodes))
         (mkCB (cb_raw cur') (cb_range cur') (cb_cond cur') (cb_stmts cur' ++ nodes')).
Proof.
  intros (H1 & H2 & H3 & H4) Hn. unfold cb_sim. cbn [cb_raw cb_range cb_cond cb_stmts].
  repeat split; auto. apply F2_app; assumption.
Qed.

Definition if_rel := pair_rel (pair_rel cb_sim (Forall2 cb_sim)) (opt_rel tok_sim).

Lemma S_if_loop pe pe' rs rs' : SimP node_sim pe pe' -> SimP node_sim rs rs' ->
  forall fuel it it' cur cur' done done', tok_sim it it' -> cb_sim cur cur' -> Forall2 cb_sim done done' ->
    SimP if_rel (if_loop pe rs fuel it cur done) (if_loop pe' rs' fuel it' cur' done').
Proof.
  intros Hpe Hrs. induction fuel as [|f IH]; intros it it' cur cur' done done' Hit Hcur Hdone i i' c c' Hi Hc;
    cbn [if_loop].
  - split; cbn [fst snd]; [constructor|assumption].
  - destruct (inp_sim_cases _ _ Hi) as [[-> ->]|(t & l & t' & l' & -> & ->)].
    + split; cbn [fst snd]; [constructor; [constructor|]|assumption].
      split; cbn [fst snd]; [split; cbn [fst snd]; assumption|constructor].
    + srunp (S_until_w_ctx node_sim _ _ _ _ (S_tok_alt [TElseIf; TElse; TEndIf; TEnd]) Hrs); try sfin.
      cbv beta iota. dmatch.
      match goal with Hn : Forall2 node_sim ?n ?n' |- _ =>
        pose proof (cb_app_sim _ _ _ _ Hcur Hn) as Hc1; pose proof (cb_update_sim _ _ Hc1) as Hu end.
      match goal with Ho : opt_rel tok_sim _ _ |- _ => destruct Ho as [t0 t0' Ht0|] end.
      * assert (cb_sim (mkCB (traw t0) (trange t0) None []) (mkCB (traw t0') (trange t0') None [])) as Hn0.
        { unfold cb_sim; cbn [cb_raw cb_range cb_cond cb_stmts].
          repeat split; [apply (ts_raw _ _ Ht0)|apply (ts_range _ _ Ht0)|constructor|constructor]. }
        assert (Forall2 cb_sim
                  (done ++ [cb_update (mkCB (cb_raw cur) (cb_range cur) (cb_cond cur) (cb_stmts cur ++ l0))])
                  (done' ++ [cb_update (mkCB (cb_raw cur') (cb_range cur') (cb_cond cur') (cb_stmts cur' ++ l1))])) as Hd1.
        { apply F2_app; [assumption|constructor; [assumption|constructor]]. }
        rewrite (ts_ty _ _ Ht0).
        destruct (tt_eqb (tty t0') TEndIf || tt_eqb (tty t0') TEnd).
        { split; cbn [fst snd]; [constructor; [assumption|]|assumption].
          split; cbn [fst snd]; [split; cbn [fst snd]; assumption|constructor; assumption]. }
        destruct (tt_eqb (tty t0') TElseIf).
        { srunp Hpe; try sfin. apply IH; auto.
          unfold cb_sim; cbn [cb_raw cb_range cb_cond cb_stmts].
          repeat split; [apply (ts_raw _ _ Ht0)|apply (ts_range _ _ Ht0)|constructor; assumption|constructor]. }
        destruct (tt_eqb (tty t0') TElse).
        { apply IH; auto. }
        { split; cbn [fst snd]; [constructor; assumption|assumption]. }
      * sdiag; [rewrite (ts_range _ _ Hit); reflexivity|]. apply IH; auto.
Qed.

Lemma S_parse_if_block pe pe' rs rs' :
  SimP node_sim pe pe' -> SimP node_sim rs rs' -> SimP node_sim (parse_if_block pe rs) (parse_if_block pe' rs').
Proof.
  intros Hpe Hrs. unfold parse_if_block.
  eapply (@S_bind _ _ tok_sim); [apply S_exp_token|]. intros it it' Hit.
  eapply (@S_bind _ _ node_sim); [exact Hpe|]. intros cond cond' Hcond.
  eapply (@S_bind _ _ if_rel).
  - intros i i' c c' Hi Hc. rewrite (inp_sim_len _ _ Hi). apply S_if_loop; auto.
    unfold cb_sim; cbn [cb_raw cb_range cb_cond cb_stmts].
    repeat split; [apply (ts_raw _ _ Hit)|rewrite (ts_range _ _ Hit); reflexivity|constructor; assumption|constructor].
  - intros a a' Ha. unfold if_rel in Ha. stac.
Qed.
#[export] Hint Resolve S_parse_if_block : sdb.

Definition tb_rel := pair_rel (opt_rel node_sim) best_sim.

Lemma S_try_blocks ps ps' : Forall2 (SimP node_sim) ps ps' ->
  forall best best', best_sim best best' -> SimP tb_rel (try_blocks ps best) (try_blocks ps' best').
Proof.
  induction 1 as [|p p' ps ps' Hp Hps IH]; intros best best' Hb i i' c c' Hi Hc; cbn [try_blocks].
  - split; cbn [fst snd]; [constructor; [assumption|]|assumption]. split; cbn [fst snd]; [constructor|assumption].
  - srunp Hp; try sfin.
    + split; cbn [fst snd]; [constructor; [assumption|]|assumption].
      split; cbn [fst snd]; [constructor; assumption|assumption].
    + apply IH; auto. apply best_update_sim; assumption.
Qed.

Lemma S_stmt_body_shape ps ps' qs qs' :
  Forall2 (SimP node_sim) ps ps' -> SimP node_sim (alt qs) (alt qs') ->
  SimP node_sim (stmt_body_shape ps qs) (stmt_body_shape ps' qs').
Proof.
  intros Hps Hq i i' c c' Hi Hc. unfold stmt_body_shape.
  srun (S_try_blocks ps ps' Hps None None (OR_none _) i i' c c' Hi Hc); try sfin.
  match goal with Ha : tb_rel ?a ?a' |- _ => destruct a as [o b], a' as [o' b']; destruct Ha as [Ho Hb]; cbn [fst snd] in Ho, Hb end.
  destruct Ho as [n n' Hn|]; [split; cbn [fst snd]; [constructor; assumption|assumption]|].
  srunp Hq; try sfin.
  destruct Hb as [[be bm] [be' bm'] [B1 B2]|]; cbn [fst snd] in *.
  - subst bm'. match goal with He : inp_sim ?e ?e' |- context [ilen ?e <? _] => rewrite (ilen_sim _ _ He) end.
    rewrite (ilen_sim _ _ B1). match goal with |- context [if ?b then _ else _] => destruct b end;
      (split; cbn [fst snd]; [constructor; assumption|assumption]).
  - split; cbn [fst snd]; [constructor; assumption|assumption].
Qed.

Lemma S_parse_statement_body pt pt' pe pe' pd pd' pc pc' rs rs' :
  SimP node_sim pt pt' -> SimP node_sim pe pe' -> SimP node_sim pd pd' -> SimP node_sim pc pc' ->
  SimP node_sim rs rs' ->
  SimP node_sim (parse_statement_body pt pe pd pc rs) (parse_statement_body pt' pe' pd' pc' rs').
Proof.
  intros Hpt Hpe Hpd Hpc Hrs.
  change (parse_statement_body pt pe pd pc rs) with
    (stmt_body_shape
       [parse_if_block pe rs; parse_for_block pe rs; parse_foreach_block pe pd pc rs; parse_while_block pe rs;
        parse_loop_block rs; parse_switch_block pe rs; parse_repeat_block pe rs]
       [parse_comment; parse_uses; parse_constant_declaration; parse_type_declaration pt;
        parse_local_var_decl pt; parse_control_statements pe; parse_oql_expr pe pd pc;
        parse_assignment pe pd; pe]).
  change (parse_statement_body pt' pe' pd' pc' rs') with
    (stmt_body_shape
       [parse_if_block pe' rs'; parse_for_block pe' rs'; parse_foreach_block pe' pd' pc' rs'; parse_while_block pe' rs';
        parse_loop_block rs'; parse_switch_block pe' rs'; parse_repeat_block pe' rs']
       [parse_comment; parse_uses; parse_constant_declaration; parse_type_declaration pt';
        parse_local_var_decl pt'; parse_control_statements pe'; parse_oql_expr pe' pd' pc';
        parse_assignment pe' pd'; pe']).
  apply S_stmt_body_shape.
  - repeat (apply Forall2_cons || apply Forall2_nil); stac.
  - stac.
Qed.
#[export] Hint Resolve S_parse_statement_body : sdb.

(* ---------- the knot ---------- *)

Theorem gram_sim : forall f,
  SimP node_sim (g_type (gram f)) (g_type (gram f)) /\ SimP node_sim (g_expr (gram f)) (g_expr (gram f)) /\
  SimP node_sim (g_primary (gram f)) (g_primary (gram f)) /\ SimP node_sim (g_stmt (gram f)) (g_stmt (gram f)).
Proof.
  induction f as [|f (Rt & Re & Rp & Rs)]; cbn [gram g_type g_expr g_primary g_stmt].
  - refine (conj _ (conj _ (conj _ _))); apply S_out_of_fuel.
  - assert (SimP node_sim (parse_type_body (g_type (gram f))) (parse_type_body (g_type (gram f)))) as Wt
      by (apply S_parse_type_body; exact Rt).
    assert (SimP node_sim (parse_primary_body (g_expr (gram f)) (g_primary (gram f)))
                 (parse_primary_body (g_expr (gram f)) (g_primary (gram f)))) as Wp
      by (apply S_parse_primary_body; assumption).
    assert (SimP node_sim (parse_expr_body (parse_primary_body (g_expr (gram f)) (g_primary (gram f))))
                 (parse_expr_body (parse_primary_body (g_expr (gram f)) (g_primary (gram f))))) as We
      by (apply S_parse_expr_body; exact Wp).
    refine (conj Wt (conj We (conj Wp _))).
    apply S_parse_statement_body; auto.
    + apply S_parse_dot_ops; exact Re.
    + apply S_parse_compare; exact Wp.
Qed.
