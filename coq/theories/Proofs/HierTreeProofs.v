(* C13 tied to REAL syntax trees.  Model/HierTree.v derives, from a workspace of (file stem, dumped tree), the
   abstract input of Model/Forest.v (class name, parent reference, member names) and the answers of
   prepareTypeHierarchy / supertypes / subtypes.  Here:
   * hier_input_refines: for regular trees (Proofs/AnnotProofs.v) that input is the abstraction
     hier_of_entity (entity_of_tree t) of every document -- name, parent and the names of the root table;
   * R_tree: the declared relation of the derived input IS "the header of some document names the other
     class as its parent, ignoring case" (for ALL trees), so the theorems of Proofs/ForestProofs.v
     instantiate to statements about real trees: C13_class_super_tree, C13_class_sub_tree,
     C13_member_up_tree, C13_member_down_tree, C13_order_independent_tree, C13_case_independent_tree;
   * hier_item_ranges: the selection range of a prepared item is the range of the declared name of a
     visited declaration node, its range that node's range, and the former lies inside the latter for
     trees with well-formed ranges (C08: NodeWf);
   * hier_prepare_char_*: at which positions an item is prepared, for regular trees. *)
From GoldV Require Import Base Tokens Lexer AstKinds Tree Encase SymTab SymTabProofs Scoping ScopingProofs Annot DefTree
                          RangeBase RangeRel RangeTop AnnotProofs DefTreeProofs HierTree.
From GoldV Require Forest ParentGraph ForestProofs.
From Coq Require Import Permutation Relations Lia.
Local Open Scope nat_scope.

(* ====================================================================================== *)
(* the header                                                                             *)
(* ====================================================================================== *)

Lemma is_header_node_eq n : is_header_node n = is_header n.
Proof.
  unfold is_header_node, is_header, dk, top, dkind_at, dkind_of, is_kind. cbn [fst snd].
  destruct (nkind n); reflexivity.
Qed.

Lemma find_header_eq l : find is_header_node l = find is_header l.
Proof. induction l as [|x l IH]; [reflexivity|]. cbn [find]. rewrite is_header_node_eq, IH. reflexivity. Qed.

(* ====================================================================================== *)
(* 1. the derived input is the abstraction of the trees                                   *)
(* ====================================================================================== *)

(* the names the header inserts: a class its name and `self`, a module its name *)
Definition header_names (e : entity) : list str :=
  match e_kind e with EClass => [e_name e; s_self] | EModule => [e_name e] end.

(* name, parent, names of the root table *)
Definition hier_of_entity (e : entity) : hfile :=
  (e_name e, e_parent e, header_names e ++ map m_name (e_members e)).

Lemma names_number l : forall t, map m_name (number member_of t l) = map nident l.
Proof. induction l as [|n l IH]; intro t; [reflexivity|]. cbn [number map]. rewrite IH. reflexivity. Qed.

Lemma names_decl l : map a_name (map decl_sym l) = map nident l.
Proof. rewrite map_map. reflexivity. Qed.

Lemma hier_doc_refines t : regular t ->
  entity_info t = Some (e_name (entity_of_tree t), e_parent (entity_of_tree t)) /\
  member_names t = header_names (entity_of_tree t) ++ map m_name (e_members (entity_of_tree t)).
Proof.
  intro Hreg. destruct (annotate_regular t Hreg) as (h & Hf & Ha). cbv zeta in Ha.
  assert (Hh : is_header h = true) by (apply find_some in Hf; tauto).
  split.
  - unfold entity_info. rewrite find_header_eq, Hf. unfold entity_of_tree. cbn [e_name e_parent]. rewrite Hf. reflexivity.
  - unfold member_names, root_table_of. rewrite Ha. cbn [st_root t_syms]. rewrite map_app, names_decl.
    unfold entity_of_tree. cbn [e_members]. rewrite names_number. f_equal.
    unfold header_names. cbn [e_kind e_name]. rewrite Hf.
    unfold decl_syms, decl_sym, self_of, sym_of. unfold is_header in Hh. unfold dk in *.
    destruct (dkind_at (top h)) as [[]|]; try discriminate; reflexivity.
Qed.

Theorem hier_input_refines ws : Forall (fun d => regular (snd d)) ws ->
  forest_input_of_ws ws = map (fun d => hier_of_entity (entity_of_tree (snd d))) ws.
Proof.
  induction 1 as [|d ws Hd _ IH]; [reflexivity|]. unfold forest_input_of_ws in *. cbn [flat_map map]. rewrite IH.
  destruct (hier_doc_refines (snd d) Hd) as [E1 E2]. rewrite E1, E2. reflexivity.
Qed.

(* the files the builders see: (header name, parent reference) of every document, in workspace order *)
Corollary hier_files_refine ws : Forall (fun d => regular (snd d)) ws ->
  files_of_ws ws = map (fun d => (e_name (entity_of_tree (snd d)), e_parent (entity_of_tree (snd d)))) ws.
Proof. intro H. unfold files_of_ws. rewrite (hier_input_refines ws H), map_map. reflexivity. Qed.

(* ====================================================================================== *)
(* 2. the declared relation, read off the trees (ALL trees)                               *)
(* ====================================================================================== *)

(* the document d declares class `a` with parent reference `b` (upper-cased): its first class /
   module child names them *)
Definition header_of (t : node) : option node := find is_header_node (nchildren t).

Definition declares_parent (ws : wsT) (a b : str) : Prop :=
  exists d h pn, In d ws /\ header_of (snd d) = Some h /\ attr_tok K_parent h = Some pn /\
                 upper (nident h) = a /\ upper (tval pn) = b.

Lemma in_files_of_ws ws f :
  In f (files_of_ws ws) <-> exists d, In d ws /\ entity_info (snd d) = Some f.
Proof.
  unfold files_of_ws, forest_input_of_ws. rewrite in_map_iff. split.
  - intros (x & <- & Hx). apply in_flat_map in Hx. destruct Hx as (d & Hd & Hx). exists d. split; [exact Hd|].
    destruct (entity_info (snd d)) as [[c p]|]; [|destruct Hx]. destruct Hx as [<-|[]]. reflexivity.
  - intros (d & Hd & He). destruct f as [c p]. exists (c, p, member_names (snd d)). split; [reflexivity|].
    apply in_flat_map. exists d. split; [exact Hd|]. rewrite He. left. reflexivity.
Qed.

Theorem R_tree ws a b : ForestProofs.R (files_of_ws ws) a b <-> declares_parent ws a b.
Proof.
  unfold ForestProofs.R, declares_parent. split.
  - intros (c & pn & Hin & <- & <-). apply in_files_of_ws in Hin. destruct Hin as (d & Hd & He).
    unfold entity_info in He. fold (header_of (snd d)) in He. destruct (header_of (snd d)) as [h|] eqn:Eh; [|discriminate].
    inversion He as [[E1 E2]]. destruct (attr_tok K_parent h) as [tk|] eqn:Ek; [|discriminate]. cbn [option_map] in E2.
    inversion E2. exists d, h, tk. auto.
  - intros (d & h & tk & Hd & Eh & Ek & <- & <-). exists (nident h), (tval tk). split; [|auto].
    apply in_files_of_ws. exists d. split; [exact Hd|]. unfold entity_info. fold (header_of (snd d)). rewrite Eh, Ek. reflexivity.
Qed.

(* "the declared parents form a forest" *)
Definition ws_forest (ws : wsT) : Prop := ForestProofs.Forest (files_of_ws ws).

Lemma flat_map_length_le {A B} (f : A -> list B) l : (forall x, length (f x) <= 1) -> length (flat_map f l) <= length l.
Proof.
  intro H. induction l as [|x l IH]; [apply le_n|]. cbn [flat_map length]. rewrite app_length. specialize (H x). lia.
Qed.

Lemma files_length ws : length (files_of_ws ws) <= length ws.
Proof.
  unfold files_of_ws, forest_input_of_ws. rewrite map_length. apply flat_map_length_le.
  intro d. destruct (entity_info (snd d)) as [[c p]|]; cbn [length]; lia.
Qed.

(* ---- class items ---- *)
Theorem C13_class_super_tree ws c q : ws_forest ws -> length ws <= 5000 ->
  (In q (Forest.supertypes (class_tree ws) c) <-> declares_parent ws (upper c) q) /\
  length (Forest.supertypes (class_tree ws) c) <= 1.
Proof.
  intros HF Hb. assert (Hb' : length (files_of_ws ws) <= 5000) by (pose proof (files_length ws); lia).
  unfold class_tree.
  assert (S := ForestProofs.seq_spec (files_of_ws ws) HF (ForestProofs.isa_bound_5000 _ Hb')).
  unfold Forest.supertypes. destruct (Forest.kparent (Forest.build (files_of_ws ws)) (upper c)) as [x|] eqn:E; cbn [In length].
  - split; [|lia]. rewrite <- R_tree. split.
    + intros [<-|[]]. apply (ForestProofs.sParent _ _ S). exact E.
    + intro H. apply (ForestProofs.sParent _ _ S) in H. left. congruence.
  - split; [|lia]. rewrite <- R_tree. split; [intros []|intro H; apply (ForestProofs.sParent _ _ S) in H; congruence].
Qed.

Theorem C13_class_sub_tree ws c x : ws_forest ws -> length ws <= 5000 ->
  (In x (Forest.subtypes (class_tree ws) c) <-> declares_parent ws x (upper c)) /\
  NoDup (Forest.subtypes (class_tree ws) c).
Proof.
  intros HF Hb. assert (Hb' : length (files_of_ws ws) <= 5000) by (pose proof (files_length ws); lia).
  unfold class_tree.
  assert (S := ForestProofs.seq_spec (files_of_ws ws) HF (ForestProofs.isa_bound_5000 _ Hb')).
  unfold Forest.subtypes. rewrite <- R_tree. split; [apply (ForestProofs.sKids _ _ S)|apply (ForestProofs.sKidsND _ _ S)].
Qed.

(* ---- members ----
   The walkers find the document of a class through the file STEM and look the member up in its root
   table.  `named_by_stem`: every document that declares a class (or module) is named after it, ignoring
   case (C13's standing assumption: a class is found through its file). *)
Definition named_by_stem (ws : wsT) : Prop :=
  forall d c p, In d ws -> entity_info (snd d) = Some (c, p) -> upper (fst d) = upper c.

Lemma doc_of_some ws d : In d ws -> exists d', doc_of ws (upper (fst d)) = Some d'.
Proof.
  intro Hd. unfold doc_of. destruct (find (fun x => str_eqb (upper (fst x)) (upper (fst d))) ws) as [d'|] eqn:E; [eauto|].
  exfalso. pose proof (find_none _ _ E d Hd) as H. cbv beta in H. rewrite str_eqb_refl in H. discriminate.
Qed.

Lemma consistent_tree ws : named_by_stem ws -> ForestProofs.consistent (files_of_ws ws) (decls_of_ws ws).
Proof.
  intros Hn f Hf. apply in_files_of_ws in Hf. destruct Hf as (d & Hd & He). destruct f as [c p].
  unfold ForestProofs.ckey. cbn [fst]. rewrite <- (Hn d c p Hd He). unfold decls_of_ws.
  destruct (doc_of_some ws d Hd) as (d' & ->). discriminate.
Qed.

(* what "the class with key k declares the member nm" means on the trees: the root table of the
   document whose stem is k knows the name (any symbol type, ignoring case) *)
Lemma memb_named id l : Forest.memb (upper id) (map upper (map a_name l)) = existsb (named id) l.
Proof.
  induction l as [|a l IH]; [reflexivity|]. cbn [map Forest.memb existsb]. rewrite IH. f_equal.
  unfold named, ci_eqb. destruct (str_eqb (upper id) (upper (a_name a))) eqn:E.
  - apply str_eqb_eq in E. rewrite E. symmetry. apply str_eqb_refl.
  - symmetry. apply str_eqb_neq. intro E'. rewrite E' in E. rewrite str_eqb_refl in E. discriminate.
Qed.

Theorem declares_tree ws nm k :
  ForestProofs.declares (decls_of_ws ws) (upper nm) k <->
  exists d, doc_of ws k = Some d /\ find_in (root_of d) nm <> None.
Proof.
  unfold ForestProofs.declares, decls_of_ws. split.
  - intros (ms & Hd & Hm). destruct (doc_of ws k) as [d|]; [|discriminate]. inversion Hd; subst ms. exists d. split; [reflexivity|].
    unfold member_names in Hm. rewrite memb_named in Hm. fold (root_of d) in Hm.
    pose proof (find_in_latest (root_of d) nm) as HL. destruct (find_in (root_of d) nm); [discriminate|].
    apply existsb_exists in Hm. destruct Hm as (a & Ha & Hn). rewrite Forall_forall in HL. rewrite (HL a Ha) in Hn. discriminate.
  - intros (d & Hd & Hf). rewrite Hd. eexists. split; [reflexivity|]. unfold member_names. rewrite memb_named. fold (root_of d).
    pose proof (find_in_latest (root_of d) nm) as HL. destruct (find_in (root_of d) nm) as [a|]; [|contradiction].
    destruct HL as (Hn & A1 & A2 & HT & _). apply existsb_exists. exists a. split; [|exact Hn].
    rewrite HT. apply in_or_app. right. left. reflexivity.
Qed.

Theorem C13_member_up_tree ws c nm : ws_forest ws -> length ws <= 5000 -> named_by_stem ws ->
  exists r, Forest.member_supertypes (class_tree ws) (decls_of_ws ws) c nm = Forest.Ok r /\
    forall ka, option_map (Forest.key_of (class_tree ws)) r = Some ka <->
               ForestProofs.nearest_up (files_of_ws ws) (decls_of_ws ws) (upper nm) (upper c) ka.
Proof.
  intros HF Hb Hn. assert (Hb' : length (files_of_ws ws) <= 5000) by (pose proof (files_length ws); lia).
  unfold class_tree. apply ForestProofs.member_up_correct; [|apply consistent_tree; exact Hn|reflexivity].
  apply ForestProofs.seq_spec; [exact HF|apply ForestProofs.isa_bound_5000; exact Hb'].
Qed.

Theorem C13_member_down_tree ws c nm : ws_forest ws -> length ws <= 5000 -> named_by_stem ws ->
  exists r, Forest.member_subtypes (class_tree ws) (decls_of_ws ws) c nm = Forest.Ok r /\
    forall kx, In kx (map (Forest.key_of (class_tree ws)) r) <->
               ForestProofs.frontier (files_of_ws ws) (decls_of_ws ws) (upper nm) (upper c) kx.
Proof.
  intros HF Hb Hn. assert (Hb' : length (files_of_ws ws) <= 5000) by (pose proof (files_length ws); lia).
  unfold class_tree. apply ForestProofs.member_down_correct; [|apply consistent_tree; exact Hn|reflexivity].
  apply ForestProofs.seq_spec; [exact HF|apply ForestProofs.isa_bound_5000; exact Hb'].
Qed.

(* ---- the order of the files, the letter case of the names ---- *)
Lemma files_perm ws ws' : Permutation ws ws' -> Permutation (files_of_ws ws) (files_of_ws ws').
Proof. intro H. unfold files_of_ws, forest_input_of_ws. apply Permutation_map. apply Permutation_flat_map. exact H. Qed.

Theorem C13_order_independent_tree ws ws' : ws_forest ws -> length ws <= 5000 -> Permutation ws ws' ->
  ForestProofs.same_rel (class_tree ws) (class_tree ws').
Proof.
  intros HF Hb Hp. assert (Hb' : length (files_of_ws ws) <= 5000) by (pose proof (files_length ws); lia).
  pose proof (files_perm ws ws' Hp) as HP. unfold class_tree.
  assert (S1 : ForestProofs.TreeSpec (files_of_ws ws) (Forest.build (files_of_ws ws)))
    by (apply ForestProofs.seq_spec; [exact HF|apply ForestProofs.isa_bound_5000; exact Hb']).
  assert (S2 : ForestProofs.TreeSpec (files_of_ws ws') (Forest.build (files_of_ws ws'))).
  { apply ForestProofs.seq_spec; [eapply ForestProofs.Forest_perm; eauto|].
    apply ForestProofs.isa_bound_5000. rewrite <- (Permutation_length HP). exact Hb'. }
  apply ForestProofs.same_rel_of_spec with (files_of_ws ws) (files_of_ws ws'); [exact S1|exact S2| |].
  - intros a b. split; apply ForestProofs.R_incl; intro f; apply Permutation_in; [exact HP|symmetry; exact HP].
  - intro k. split; apply ForestProofs.names_incl; intro f; apply Permutation_in; [exact HP|symmetry; exact HP].
Qed.

(* two workspaces whose documents, one by one, have headers that agree up to letter case *)
Definition same_header_ci (t t' : node) : Prop :=
  match entity_info t, entity_info t' with
  | Some (c, p), Some (c', p') => upper c = upper c' /\ option_map upper p = option_map upper p'
  | None, None => True
  | _, _ => False
  end.
Definition recased_ws (ws ws' : wsT) : Prop := Forall2 (fun d d' => same_header_ci (snd d) (snd d')) ws ws'.

Lemma files_recased ws ws' : recased_ws ws ws' -> ForestProofs.recased (files_of_ws ws) (files_of_ws ws').
Proof.
  unfold files_of_ws, forest_input_of_ws. induction 1 as [|d d' ws ws' Hd _ IH]; [constructor|].
  cbn [flat_map]. rewrite !map_app. apply Forall2_app; [|exact IH].
  unfold same_header_ci in Hd. destruct (entity_info (snd d)) as [[c p]|], (entity_info (snd d')) as [[c' p']|]; try contradiction.
  - constructor; [|constructor]. cbn [file_of fst snd]. exact Hd.
  - constructor.
Qed.

Theorem C13_case_independent_tree ws ws' : ws_forest ws -> length ws <= 5000 -> recased_ws ws ws' ->
  ForestProofs.same_rel (class_tree ws) (class_tree ws').
Proof.
  intros HF Hb Hr. assert (Hb' : length (files_of_ws ws) <= 5000) by (pose proof (files_length ws); lia).
  pose proof (files_recased ws ws' Hr) as HR. unfold class_tree.
  apply ForestProofs.same_rel_of_spec with (files_of_ws ws) (files_of_ws ws').
  - apply ForestProofs.seq_spec; [exact HF|apply ForestProofs.isa_bound_5000; exact Hb'].
  - apply ForestProofs.seq_spec; [eapply ForestProofs.recased_Forest; eauto|].
    apply ForestProofs.isa_bound_5000. rewrite <- (ForestProofs.recased_length _ _ HR). exact Hb'.
  - intros a b. split; apply ForestProofs.recased_R; [exact HR|apply ForestProofs.recased_sym; exact HR].
  - intro k. rewrite (ForestProofs.recased_names _ _ HR). tauto.
Qed.

(* ====================================================================================== *)
(* 3. the ranges of a prepared item                                                       *)
(* ====================================================================================== *)

Lemma item_for_fields ws stem cls a it : item_for ws stem cls a = ROk [it] ->
  i_name it = a_name a /\ i_sel it = a_sel a /\ i_range it = a_range a.
Proof.
  unfold item_for. destruct (a_kind a); try discriminate;
    try (destruct (doc_of ws (upper cls)); try discriminate); intro H; inversion H; subst it; cbn; auto.
Qed.

(* whatever is prepared at a position: the item carries the name of a symbol that a visited
   declaration node of THIS document inserted; its selection range is the range of that node's declared
   name (the token K_ident; the name node of a method), its range that node's range; for a tree with
   well-formed ranges (C08's NodeWf) the selection range lies inside the range *)
Theorem hier_item_ranges ws d p it : prepare ws d p = Ans (ROk [it]) ->
  exists n, In n (visit_seq false (snd d)) /\
    i_sel it = name_range (snd n) /\ i_range it = nrange (snd n) /\
    (i_name it = nident (snd n) \/ (i_name it = s_self /\ dkind_at n = Some DClass)) /\
    forall L, Forall_nodes (NodeWf L) (snd d) -> inside (i_sel it) (i_range it).
Proof.
  unfold prepare. destruct (negb (flat_methods (snd d))); [discriminate|].
  destruct (chain_for (snd d) (descend p (snd d))) as [ch|] eqn:Ec; [|discriminate].
  destruct (path_up p (snd d)) as [|[idx enc] up]; [discriminate|].
  destruct (right_of_dot idx up); [discriminate|].
  pose proof (lookup_nearest ch (nident enc)) as HL.
  destruct (lookup ch (nident enc)) as [[T a]|]; [|destruct (foreign (snd d)); discriminate].
  intro H. inversion H as [Hi]. destruct (item_for_fields _ _ _ _ _ Hi) as (E1 & E2 & E3).
  destruct HL as (pre & post & Hch & _ & Hf).
  assert (HT : In T (tables_of false (snd d))).
  { apply (chain_for_tables _ _ _ Ec). rewrite Hch. apply in_or_app. right. left. reflexivity. }
  assert (Ha : In a (t_syms T)).
  { pose proof (find_in_latest T (nident enc)) as HF. rewrite Hf in HF. destruct HF as (_ & A1 & A2 & -> & _).
    apply in_or_app. right. left. reflexivity. }
  destruct (annot_selection_is_declared_name false (snd d) T a HT Ha) as (n & Hn & (_ & D1 & D2 & D3) & Hin).
  exists n. rewrite E1, E2, E3. split; [exact Hn|]. split; [exact D1|]. split; [exact D2|]. split; [exact D3|exact Hin].
Qed.

(* ====================================================================================== *)
(* 4. where an item is prepared (regular trees)                                           *)
(* ====================================================================================== *)

(* the general shape: the identifier of the encasing node, looked up from the nearest table *)
Theorem hier_prepare_unfold ws d p idx enc up ch :
  flat_methods (snd d) = true -> chain_for (snd d) (descend p (snd d)) = Some ch ->
  path_up p (snd d) = (idx, enc) :: up -> right_of_dot idx up = false ->
  prepare ws d p =
  match lookup ch (nident enc) with
  | Some (T, a) => Ans (item_for ws (fst d) (cls_str T) a)
  | None => if foreign (snd d) then Outside else Ans (ROk [])
  end.
Proof. intros Hf Hc Hp Hr. unfold prepare. rewrite Hf, Hc, Hp, Hr. reflexivity. Qed.

(* the encasing node is the child c of the root: the cursor is inside c and inside none of c's children *)
Definition at_top_child (t : node) (p : pos) (i : nat) (c : node) : Prop := descend p t = [(i, c)].

(* the root table of a regular document *)
Lemma root_regular t : regular t -> exists h, find is_header (nchildren t) = Some h /\
  root_table_of false t = mkTable (Some (nident h)) (decl_syms (top h) ++ map decl_sym (filter is_member (nchildren t)))
                                  (flat_map uses_names (filter is_uses (nchildren t))).
Proof.
  intro Hreg. destruct (annotate_regular t Hreg) as (h & Hf & Ha). cbv zeta in Ha. exists h. split; [exact Hf|].
  unfold root_table_of. rewrite Ha. reflexivity.
Qed.

(* a cursor on a top-level declaration c that is no method (anywhere in the header -- its children are
   tokens --, on the name or the keyword of a field / constant / type declaration): the symbol the root
   table holds under c's name decides.  When that symbol is c's own (the name is not declared again
   later in the document, ignoring case): *)
Theorem hier_prepare_char_top ws stem t p i c h :
  regular t -> flat_methods t = true -> is_dot t = false ->
  find is_header (nchildren t) = Some h ->
  at_top_child t p i c -> is_method_node c = false ->
  find_in (root_table_of false t) (nident c) = Some (decl_sym c) ->
  prepare ws (stem, t) p = Ans (item_for ws stem (nident h) (decl_sym c)).
Proof.
  intros Hreg Hfm Hdot Hh Hat Hm Hfind. destruct (root_regular t Hreg) as (h' & Hh' & HR).
  rewrite Hh in Hh'. inversion Hh'; subst h'.
  assert (Hc : chain_for t (descend p t) = Some [root_table_of false t]).
  { unfold at_top_child in Hat. rewrite Hat. unfold chain_for. rewrite Hm. reflexivity. }
  assert (Hp : path_up p t = [(i, c); (O, t)]) by (unfold path_up; unfold at_top_child in Hat; rewrite Hat; reflexivity).
  rewrite (hier_prepare_unfold ws (stem, t) p i c [(O, t)] _ Hfm Hc Hp).
  - cbn [lookup snd fst]. rewrite Hfind. rewrite HR at 1. reflexivity.
  - unfold right_of_dot. rewrite Hdot. reflexivity.
Qed.

(* ... on the class header: the CLASS item, named as the header spells it, selection range = the class
   name token, range = the header; its uri: the document whose stem is the header's name (this document,
   under named_by_stem and distinct stems: class_uri_own), else the requested one *)
Corollary hier_prepare_char_class ws stem t p i h :
  regular t -> flat_methods t = true -> is_dot t = false ->
  find is_header (nchildren t) = Some h -> is_kind KAstClass h = true ->
  at_top_child t p i h ->
  find_in (root_table_of false t) (nident h) = Some (decl_sym h) ->
  prepare ws (stem, t) p = Ans (ROk [item_of_node IClass (class_uri ws stem (nident h)) h]).
Proof.
  intros Hreg Hfm Hdot Hh Hk Hat Hfind.
  assert (Hm : is_method_node h = false).
  { unfold is_method_node, is_method_kind. unfold is_kind in Hk. destruct (nkind h); try reflexivity; discriminate. }
  rewrite (hier_prepare_char_top ws stem t p i h h Hreg Hfm Hdot Hh Hat Hm Hfind).
  unfold item_for, decl_sym, sym_of, member_kind, dkind_of, item_of_node. cbn [a_kind a_name a_sel a_range].
  unfold is_kind in Hk. destruct (nkind h); try discriminate. reflexivity.
Qed.

(* ... on a field declaration: the FIELD item, in the document found through the stem = the header's name *)
Corollary hier_prepare_char_field ws stem t p i c h d' :
  regular t -> flat_methods t = true -> is_dot t = false ->
  find is_header (nchildren t) = Some h -> is_kind KAstGlobalVariableDeclaration c = true ->
  at_top_child t p i c ->
  find_in (root_table_of false t) (nident c) = Some (decl_sym c) ->
  doc_of ws (upper (nident h)) = Some d' ->
  prepare ws (stem, t) p = Ans (ROk [item_of_node IField (fst d') c]).
Proof.
  intros Hreg Hfm Hdot Hh Hk Hat Hfind Hd.
  assert (Hm : is_method_node c = false).
  { unfold is_method_node, is_method_kind. unfold is_kind in Hk. destruct (nkind c); try reflexivity; discriminate. }
  rewrite (hier_prepare_char_top ws stem t p i c h Hreg Hfm Hdot Hh Hat Hm Hfind).
  unfold item_for, decl_sym, sym_of, member_kind, dkind_of, item_of_node. cbn [a_kind a_name a_sel a_range].
  unfold is_kind in Hk. destruct (nkind c); try discriminate. rewrite Hd. reflexivity.
Qed.

(* ... on the declared NAME of a method m (the name node is m's first child; the method's own table is
   asked first -- a parameter or local of that name would win --, then the root table) *)
Theorem hier_prepare_char_method ws stem t p i m j nm h mt d' :
  regular t -> flat_methods t = true ->
  find is_header (nchildren t) = Some h ->
  descend p t = [(i, m); (j, nm)] -> is_method_node m = true -> is_dot m = false ->
  nth_error (method_tables_of false t) (length (filter is_method_node (firstn i (nchildren t)))) = Some mt ->
  find_in mt (nident nm) = None ->
  find_in (root_table_of false t) (nident nm) = Some (decl_sym m) ->
  doc_of ws (upper (nident h)) = Some d' ->
  prepare ws (stem, t) p = Ans (ROk [item_of_node IFunc (fst d') m]).
Proof.
  intros Hreg Hfm Hh Hd Hm Hdot Hmt Hf1 Hf2 Hdoc. destruct (root_regular t Hreg) as (h' & Hh' & HR).
  rewrite Hh in Hh'. inversion Hh'; subst h'.
  assert (Hc : chain_for t (descend p t) = Some [mt; root_table_of false t]).
  { rewrite Hd. unfold chain_for. rewrite Hm. unfold method_tables_of in Hmt. rewrite Hmt. reflexivity. }
  assert (Hp : path_up p t = [(j, nm); (i, m); (O, t)]) by (unfold path_up; rewrite Hd; reflexivity).
  rewrite (hier_prepare_unfold ws (stem, t) p j nm [(i, m); (O, t)] _ Hfm Hc Hp).
  - cbn [lookup snd fst]. rewrite Hf1, Hf2. rewrite HR at 1. cbn [cls_str t_cls].
    unfold item_for, decl_sym, sym_of, member_kind, dkind_of, item_of_node. cbn [a_kind a_name a_sel a_range].
    unfold is_method_node, is_method_kind in Hm. destruct (nkind m); try discriminate; rewrite Hdoc; reflexivity.
  - unfold right_of_dot. rewrite Hdot. reflexivity.
Qed.

(* a sufficient condition for `find_in T (a_name a) = Some a`: no later symbol of the table has that name *)
Lemma find_in_own T a A1 A2 : t_syms T = A1 ++ a :: A2 -> Forall (fun b => named (a_name a) b = false) A2 ->
  find_in T (a_name a) = Some a.
Proof.
  intros HT Hall. pose proof (find_in_latest T (a_name a)) as HL. destruct (find_in T (a_name a)) as [b|].
  - destruct HL as (Hn & B1 & B2 & HB & HallB). f_equal. rewrite HT in HB. clear HT.
    assert (Ha : named (a_name a) a = true) by (unfold named, ci_eqb; apply str_eqb_refl).
    (* both a and b are the LAST symbol named so *)
    revert B1 HB. induction A1 as [|x A1 IH]; intros B1 HB.
    + destruct B1 as [|y B1]; cbn [app] in HB.
      * inversion HB. reflexivity.
      * inversion HB; subst y. assert (In b A2) by (rewrite H1; apply in_or_app; right; left; reflexivity).
        rewrite Forall_forall in Hall. rewrite (Hall b H) in Hn. discriminate.
    + destruct B1 as [|y B1]; cbn [app] in HB.
      * inversion HB; subst x. assert (In a B2) by (rewrite <- H1; apply in_or_app; right; left; reflexivity).
        rewrite Forall_forall in HallB. rewrite (HallB a H) in Ha. discriminate.
      * inversion HB. apply (IH B1). assumption.
  - rewrite Forall_forall in HL. assert (In a (t_syms T)) by (rewrite HT; apply in_or_app; right; left; reflexivity).
    assert (Ha : named (a_name a) a = true) by (unfold named, ci_eqb; apply str_eqb_refl).
    rewrite (HL a H) in Ha. discriminate.
Qed.

(* ====================================================================================== *)
(* 5. the uri of a prepared item names the document that declares it                      *)
(* ====================================================================================== *)

Lemma item_for_uri ws stem cls a it : item_for ws stem cls a = ROk [it] ->
  i_uri it = stem \/ exists d', doc_of ws (upper cls) = Some d' /\ i_uri it = fst d'.
Proof.
  unfold item_for, class_uri. destruct (a_kind a); try discriminate;
    destruct (doc_of ws (upper cls)) as [d'|]; try discriminate; intro H; inversion H; subst it; cbn [i_uri]; eauto.
Qed.

(* ALL trees: the item is made from a symbol `a` of a table T of the requested document's annotation;
   its uri is the document get_uri_for_class finds for T's for_class_or_module, else the requested one *)
Theorem hier_item_uri ws d p it : prepare ws d p = Ans (ROk [it]) ->
  exists T a, In T (tables_of false (snd d)) /\ In a (t_syms T) /\ item_for ws (fst d) (cls_str T) a = ROk [it] /\
    i_name it = a_name a /\
    (i_uri it = fst d \/ exists d', doc_of ws (upper (cls_str T)) = Some d' /\ i_uri it = fst d').
Proof.
  unfold prepare. destruct (negb (flat_methods (snd d))); [discriminate|].
  destruct (chain_for (snd d) (descend p (snd d))) as [ch|] eqn:Ec; [|discriminate].
  destruct (path_up p (snd d)) as [|[idx enc] up]; [discriminate|].
  destruct (right_of_dot idx up); [discriminate|].
  pose proof (lookup_nearest ch (nident enc)) as HL.
  destruct (lookup ch (nident enc)) as [[T a]|]; [|destruct (foreign (snd d)); discriminate].
  intro H. assert (Hi : item_for ws (fst d) (cls_str T) a = ROk [it]) by congruence. clear H.
  destruct HL as (pre & post & Hch & _ & Hf).
  exists T, a. split.
  { apply (chain_for_tables _ _ _ Ec). rewrite Hch. apply in_or_app. right. left. reflexivity. }
  split.
  { pose proof (find_in_latest T (nident enc)) as HF. rewrite Hf in HF. destruct HF as (_ & A1 & A2 & -> & _).
    apply in_or_app. right. left. reflexivity. }
  split; [exact Hi|]. split; [apply (item_for_fields _ _ _ _ _ Hi)|apply (item_for_uri _ _ _ _ _ Hi)].
Qed.

(* stems pairwise distinct ignoring case: class_uri_map holds one document per key *)
Definition distinct_stems (ws : wsT) : Prop := NoDup (map (fun x : doc => upper (fst x)) ws).

Lemma doc_of_unique ws d : distinct_stems ws -> In d ws -> doc_of ws (upper (fst d)) = Some d.
Proof.
  unfold distinct_stems, doc_of. induction ws as [|x ws IH]; intros Hnd Hd; [destruct Hd|].
  cbn [map] in Hnd. inversion Hnd as [|? ? Hx Hnd']; subst. cbn [find]. destruct Hd as [->|Hd].
  - rewrite str_eqb_refl. reflexivity.
  - destruct (str_eqb (upper (fst x)) (upper (fst d))) eqn:E; [|apply IH; assumption].
    apply str_eqb_eq in E. exfalso. apply Hx. rewrite E. apply in_map_iff. exists d. auto.
Qed.

(* every table of a regular document carries the header's name *)
Lemma regular_cls t : regular t -> exists h, find is_header (nchildren t) = Some h /\
  forall T, In T (tables_of false t) -> cls_str T = nident h.
Proof.
  intro Hreg. destruct (annotate_regular t Hreg) as (h & Hf & Ha). cbv zeta in Ha. exists h. split; [exact Hf|].
  intros T HT. unfold tables_of, root_table_of, method_tables_of in HT. rewrite Ha in HT. cbn [st_root st_done] in HT.
  destruct HT as [<-|HT]; [reflexivity|]. apply in_map_iff in HT. destruct HT as (m & <- & _). reflexivity.
Qed.

(* in a regular document the symbols of the method tables are variables: a symbol an item is made from
   (Class / Func / Proc / Field) is a symbol of the ROOT table *)
Lemma regular_item_root t T a : regular t -> In T (tables_of false t) -> In a (t_syms T) ->
  a_kind a <> KVariable -> In a (t_syms (root_table_of false t)).
Proof.
  intros Hreg HT Ha Hk. destruct (annotate_regular t Hreg) as (h & Hf & HA). cbv zeta in HA.
  unfold tables_of, root_table_of, method_tables_of in *. rewrite HA in *. cbn [st_root st_done] in *.
  destruct HT as [<-|HT]; [exact Ha|]. exfalso. apply in_map_iff in HT. destruct HT as (m & <- & _).
  unfold mtab in Ha. cbn [t_syms] in Ha. unfold var_syms in Ha. apply in_map_iff in Ha. destruct Ha as (q & <- & Hq).
  apply filter_In in Hq. destruct Hq as [_ Hv]. apply Hk. unfold vsym, decl_sym, sym_of. cbn [a_kind].
  unfold var_like in Hv. unfold member_kind. destruct (dkind_at q) as [k|] eqn:E; [|discriminate].
  rewrite (dkind_at_some _ _ E). destruct k; try discriminate; reflexivity.
Qed.

Lemma item_for_not_var ws stem cls a it : item_for ws stem cls a = ROk [it] -> a_kind a <> KVariable.
Proof. unfold item_for. intros H E. rewrite E in H. discriminate. Qed.

(* C08 for hierarchy items, at tree level: in a workspace whose documents are named after their classes
   (distinct stems), an item prepared in a regular document d names d ITSELF, is made from a symbol of d's
   root table, and its ranges are the declared-name range and the range of a declaration node of d's OWN
   tree (inside one another when d's ranges are well formed): the ranges lie in the document the item names *)
Theorem C13_item_uri_tree ws d p it :
  In d ws -> distinct_stems ws -> named_by_stem ws -> regular (snd d) ->
  prepare ws d p = Ans (ROk [it]) ->
  i_uri it = fst d /\ doc_of ws (upper (i_uri it)) = Some d /\
  (exists a, In a (t_syms (root_of d)) /\ a_name a = i_name it /\ a_sel a = i_sel it /\ a_range a = i_range it) /\
  exists n, In n (visit_seq false (snd d)) /\ i_sel it = name_range (snd n) /\ i_range it = nrange (snd n) /\
    forall L, Forall_nodes (NodeWf L) (snd d) -> inside (i_sel it) (i_range it).
Proof.
  intros Hd Hnd Hn Hreg Hp.
  destruct (hier_item_uri ws d p it Hp) as (T & a & HT & Ha & Hi & Hname & Huri).
  destruct (regular_cls (snd d) Hreg) as (h & Hh & Hcls). rewrite (Hcls T HT) in Huri.
  assert (He : entity_info (snd d) = Some (nident h, option_map tval (attr_tok K_parent h)))
    by (unfold entity_info; rewrite find_header_eq, Hh; reflexivity).
  pose proof (Hn d _ _ Hd He) as Hs.
  assert (Hu : i_uri it = fst d).
  { destruct Huri as [E|(d' & Hd' & E)]; [exact E|]. rewrite <- Hs, (doc_of_unique ws d Hnd Hd) in Hd'. inversion Hd'; subst d'. exact E. }
  split; [exact Hu|]. split; [rewrite Hu; apply doc_of_unique; assumption|]. split.
  - exists a. destruct (item_for_fields _ _ _ _ _ Hi) as (E1 & E2 & E3). split; [|auto].
    apply (regular_item_root (snd d) T a Hreg HT Ha). apply (item_for_not_var _ _ _ _ _ Hi).
  - destruct (hier_item_ranges ws d p it Hp) as (n & Hin & E1 & E2 & _ & Hw). exists n. auto.
Qed.

(* the item the Class arm of prepare_type_hierarchy makes from a class symbol `a` found in the table T --
   possibly the table of ANOTHER document, reached through the parent chain -- for a request in the document
   with stem `req`.  old = true: the code before 6242e0e (always the requested document) *)
Definition class_item_with (old : bool) (ws : wsT) (req : str) (T : table) (a : asym) : item :=
  mkItem (a_name a) IClass (if old then req else class_uri ws req (cls_str T)) (a_sel a) (a_range a).

(* no node of the tree t reaches line l *)
Definition below_line (t : node) (l : N) : bool :=
  forallb (fun n : vnode => N.ltb (pline (rend (nrange (snd n)))) l) (visit_seq false t).
