(* C03: every request reads the version before or the version after a notification in progress,
   for every interleaving -- with the repaired change handler; refuted for the old one. *)
From GoldV Require Import Base Sched.

(* the repaired handlers *)
Definition fixed_notif (n : notif) : Prop := match n with NChangeOld _ => False | _ => True end.

(* a cached on-disk copy is the file's current version, except while a save is in progress after
   the client has rewritten the file *)
Definition saved_ok (s : dstate) : Prop := match saved s with Some v => v = disk s | None => True end.

(* what a reader would get *)
Definition would_read (s : dstate) : N :=
  match opened s with Some v => v | None => match saved s with Some v => v | None => disk s end end.

Lemma read_doc_version s v d : read_doc s = Some (v, d) -> v = would_read s /\ wlock s = false.
Proof.
  unfold read_doc, would_read. destruct (wlock s); [discriminate|].
  destruct (opened s); [intro H; inversion H; auto|].
  destruct (saved s); intro H; inversion H; auto.
Qed.

Definition Quiescent (s : dstate) : Prop := wlock s = false /\ saved_ok s.

Lemma quiescent_would_read s : Quiescent s -> would_read s = logical s.
Proof.
  intros [_ H]. unfold would_read, logical, saved_ok in *. destruct (opened s); [reflexivity|].
  destruct (saved s); auto.
Qed.

(* a read caches the parsed file: harmless for a quiescent state *)
Lemma read_quiescent s v d : Quiescent s -> read_doc s = Some (v, d) -> Quiescent d /\ logical d = logical s.
Proof.
  intros [Hw Hs] H. unfold read_doc in H. rewrite Hw in H. unfold Quiescent, saved_ok, logical in *.
  destruct (opened s) eqn:Eo; [inversion H; subst; rewrite Eo; auto|].
  destruct (saved s) eqn:Es; inversion H; subst; simpl; rewrite ?Eo, ?Es; auto.
Qed.

(* ---------- position predicates of the repaired handlers ---------- *)
(* Pos n b a i s: the document state s is a possible state at position i of handler n, in the
   window (b = logical before, a = logical after); closed under cache fills by readers. *)
Definition Pos (n : notif) (b a : N) (i : nat) (s : dstate) : Prop :=
  match n with
  | NChange v =>
      a = v /\
      match i with
      | 0%nat => Quiescent s /\ logical s = b
      | 1%nat => wlock s = true /\ saved_ok s
      | 2%nat => wlock s = true /\ saved_ok s /\ opened s = None
      | 3%nat => wlock s = true /\ saved_ok s /\ opened s = Some v
      | _ => Quiescent s /\ opened s = Some v
      end
  | NSave =>
      a = b /\
      match i with
      | 0%nat => Quiescent s /\ logical s = b
      | 1%nat => wlock s = false /\ logical s = b /\ disk s = b /\ (opened s = None -> saved_ok s)
      | 2%nat => wlock s = true /\ disk s = b
      | 3%nat => wlock s = true /\ disk s = b /\ opened s = None /\ saved s = None
      | _ => Quiescent s /\ disk s = b /\ opened s = None
      end
  | NClose =>
      match i with
      | 0%nat => Quiescent s /\ logical s = b /\ disk s = a
      | 1%nat => wlock s = true /\ saved_ok s /\ logical s = b /\ disk s = a
      | 2%nat => wlock s = true /\ saved s = None /\ opened s = None /\ disk s = a
      | _ => Quiescent s /\ opened s = None /\ disk s = a
      end
  | NChangeOld _ => False
  end.

Ltac crush_pos :=
  repeat match goal with
  | s : dstate |- _ => destruct s as [? ? ? ?]
  | H : _ /\ _ |- _ => destruct H
  | H : Quiescent _ |- _ => unfold Quiescent in H
  end;
  repeat (progress (try unfold Quiescent in *; try unfold saved_ok in *; try unfold logical in *;
                    try unfold would_read in *; cbn in *)); subst;
  repeat match goal with
  | |- _ /\ _ => split
  | H : Some _ = Some _ |- _ => inversion H; subst; clear H
  | H : _ /\ _ |- _ => destruct H
  end; subst; auto; try congruence;
  intros;
  repeat match goal with
  | H : context [match ?x with _ => _ end] |- _ => is_var x; destruct x
  | |- context [match ?x with _ => _ end] => is_var x; destruct x
  end; cbn in *; subst; auto; try congruence; try discriminate.

(* (a) the window is opened in a quiescent state *)
Lemma pos_start n s : fixed_notif n -> Quiescent s ->
  Pos n (logical s) (logical (run_acts (program n) s)) 0 s.
Proof. destruct n; intros Hf Hq; try contradiction; crush_pos; destruct opened; auto. Qed.

(* (b) each action moves to the next position *)
Lemma pos_step n b a i s x : nth_error (program n) i = Some x -> Pos n b a i s -> Pos n b a (S i) (apply_act x s).
Proof.
  destruct n; try (intros _ []; fail);
    do 7 (destruct i as [|i]; [cbn; intro H; inversion H; subst; clear H; intro P; crush_pos|]);
    cbn; intro H; discriminate.
Qed.

(* (c) a reader at any lock-free position gets the version before or after, and its cache fill
   keeps the position *)
Lemma pos_read n b a i s v d : (i <= length (program n))%nat ->
  Pos n b a i s -> read_doc s = Some (v, d) -> (v = b \/ v = a) /\ Pos n b a i d.
Proof.
  intros Hi P H. unfold read_doc in H.
  destruct n; try contradiction;
    do 8 (destruct i as [|i]; [destruct s as [op sv dk wl]; cbn in *; destruct wl; try discriminate;
      destruct op as [o|]; [|destruct sv as [sv'|]]; inversion H; subst; clear H; crush_pos|]);
    cbn in Hi; lia.
Qed.

(* (d) at the end the state is quiescent and the logical version is the announced one *)
Lemma pos_end n b a s : Pos n b a (length (program n)) s -> Quiescent s /\ logical s = a.
Proof. destruct n; cbn; intro P; try contradiction; crush_pos. Qed.

(* ---------- the global invariant over all interleavings ---------- *)
Definition ans_ok (x : N * list N) : Prop := In (fst x) (snd x).

Definition Inv (g : gstate) : Prop :=
  Forall fixed_notif (todo g) /\ Forall ans_ok (answers g) /\
  match window g with
  | None => cur g = [] /\ Quiescent (doc g)
  | Some (b, a) => exists n i, fixed_notif n /\ cur g = skipn i (program n) /\ cur g <> [] /\
                               Pos n b a i (doc g)
  end.

Lemma skipn_cons_nth {A} i (l : list A) x rest : skipn i l = x :: rest -> nth_error l i = Some x /\ skipn (S i) l = rest.
Proof.
  revert l. induction i as [|i IH]; intros l H; destruct l as [|y l]; simpl in *; try discriminate.
  - inversion H; auto.
  - apply IH. exact H.
Qed.

Lemma skipn_nil_len {A} i (l : list A) : skipn i l = [] -> (length l <= i)%nat.
Proof.
  revert l. induction i as [|i IH]; intros l H; destruct l as [|y l]; simpl in *; try discriminate; try lia.
  apply IH in H. lia.
Qed.

Lemma skipn_len_bound {A} i (l : list A) x rest : skipn i l = x :: rest -> (i < length l)%nat.
Proof.
  revert l. induction i as [|i IH]; intros l H; destruct l as [|y l]; simpl in *; try discriminate; try lia.
  apply IH in H. lia.
Qed.

Lemma pos_mono_end n b a i s : (length (program n) <= i)%nat -> Pos n b a i s -> Pos n b a (length (program n)) s.
Proof.
  destruct n; cbn; intros Hi P; try contradiction;
    do 7 (destruct i as [|i]; [first [lia | exact P]|]); exact P.
Qed.

Lemma step_inv g e : Inv g -> Inv (step g e).
Proof.
  intros (Ht & Ha & Hw). destruct e; unfold step.
  - (* main thread *)
    destruct (cur g) as [|x rest] eqn:Ec.
    + destruct (todo g) as [|n ns] eqn:Et; [unfold Inv; rewrite Ec, Et; auto|].
      destruct (window g) as [[b a]|] eqn:Ewin.
      { destruct Hw as (n0 & i & _ & _ & Hne & _). congruence. }
      destruct Hw as [_ Hq]. inversion Ht; subst.
      unfold Inv; cbn [todo answers window cur doc]. split; [assumption|]. split; [assumption|].
      exists n, 0%nat. split; [assumption|]. split; [reflexivity|]. split; [destruct n; discriminate|].
      apply pos_start; assumption.
    + destruct (window g) as [[b a]|] eqn:Ewin; [|destruct Hw; congruence].
      destruct Hw as (n & i & Hf & Hc & Hne & Hp).
      symmetry in Hc. destruct (skipn_cons_nth _ _ _ _ Hc) as [Hn Hs].
      pose proof (pos_step n b a i (doc g) x Hn Hp) as Hp'.
      unfold Inv; cbn [todo answers window cur doc]. split; [assumption|]. split; [assumption|].
      destruct rest as [|y rest'].
      * split; [reflexivity|]. apply (pos_end n b a). apply (pos_mono_end n b a (S i)); [|exact Hp'].
        apply skipn_nil_len. exact Hs.
      * exists n, (S i). split; [assumption|]. split; [symmetry; exact Hs|]. split; [discriminate|exact Hp'].
  - (* a request reads *)
    destruct (read_doc (doc g)) as [[v d]|] eqn:Er; [|unfold Inv; auto].
    unfold Inv; cbn [todo answers window cur doc]. split; [assumption|].
    destruct (window g) as [[b a]|] eqn:Ewin.
    + destruct Hw as (n & i & Hf & Hc & Hne & Hp).
      assert (i <= length (program n))%nat as Hi.
      { destruct (cur g) as [|x rest] eqn:Ec; [congruence|]. symmetry in Hc. apply skipn_len_bound in Hc. lia. }
      destruct (pos_read n b a i (doc g) v d Hi Hp Er) as [Hv Hp'].
      split.
      * constructor; [|assumption]. unfold ans_ok, acceptable. cbn [fst snd window]. rewrite Ewin.
        destruct Hv as [-> | ->]; [left; reflexivity|right; left; reflexivity].
      * exists n, i. auto.
    + destruct Hw as [Hc Hq].
      destruct (read_doc_version _ _ _ Er) as [Hv _].
      destruct (read_quiescent _ _ _ Hq Er) as [Hq' Hl].
      split.
      * constructor; [|assumption]. unfold ans_ok, acceptable. cbn [fst snd window]. rewrite Ewin. left.
        rewrite Hv. symmetry. apply quiescent_would_read. exact Hq.
      * auto.
Qed.

Lemma run_inv sched : forall g, Inv g -> Inv (run sched g).
Proof.
  induction sched as [|e sched IH]; intros g H; simpl; [exact H|]. apply IH. apply step_inv. exact H.
Qed.

Lemma init_inv op sv dk ns :
  Forall fixed_notif ns -> (match sv with Some v => v = dk | None => True end) -> Inv (init op sv dk ns).
Proof.
  intros Hf Hs. unfold Inv, init. cbn. split; [exact Hf|]. split; [constructor|]. split; [reflexivity|].
  unfold Quiescent, saved_ok. cbn. auto.
Qed.

(* every request, under every interleaving with any sequence of (repaired) change / save / close
   handlers, reads the version before or the version after the notification in progress -- or the
   current version when none is in progress *)
Theorem linearizable op sv dk ns sched :
  Forall fixed_notif ns -> (match sv with Some v => v = dk | None => True end) ->
  Forall ans_ok (answers (run sched (init op sv dk ns))).
Proof. intros Hf Hs. apply (run_inv sched (init op sv dk ns) (init_inv op sv dk ns Hf Hs)). Qed.

(* the handler before the repair: a request served between its two critical sections reads the
   stale on-disk copy, which is neither the text before (1) nor the text after (2) the change *)
Lemma old_change_refuted :
  let g := run [EMain; EMain; EMain; EMain; ERead] (init (Some 1) None 0 [NChangeOld 2]) in
  answers g = [(0, [1; 2])].
Proof. vm_compute. reflexivity. Qed.
