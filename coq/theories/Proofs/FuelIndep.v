(* Fuel independence of parse_gold: the top-level simulation of MemoProofs.v (Section TopSim) with the
   grammar at two independent fuel levels -- memoised run at one level against all un-memoised runs at
   another.  Consequence: the result of parse_gold_with (memoisation on or off) does not depend on the
   fuel, as long as it exceeds the number of tokens.  (The lemmas are those of MemoProofs.v, restated
   for a pair of grammars; MemoGrammar.v already provides the grammar knot at two fuel levels.) *)
From GoldV Require Import Base Tokens Lexer AstKinds Tree Strings PComb Grammar ParserWF GrammarWF MemoSim MemoGrammar MemoProofs.
From Coq Require Import Lia.
Local Open Scope nat_scope.

Section TopSim2.
  Variable n : nat.
  Variables g g' : G.
  Hypothesis Ht : W n true (g_type g).
  Hypothesis Hs : W n true (g_stmt g).
  Hypothesis St : Sim TopEnv n 3 (g_type g) (g_type g').
  Hypothesis Ss : forall body base, Sim (BodyEnv body base) n 3 (g_stmt g) (g_stmt g').

  Lemma Rec_type' : Rec n (g_type g).
  Proof. intros m Hm. apply (W_mono n m); [lia|exact Ht]. Qed.
  Lemma SRec_type' : SRec TopEnv n (g_type g) (g_type g').
  Proof. intros m Hm. apply (Sim_mono TopEnv n m); [lia|exact St]. Qed.

  Lemma Sim_body_parser body base first :
    Sim (BodyEnv body base) n 3 (body_parser (g_stmt g) body first) (body_parser (g_stmt g') body first).
  Proof.
    unfold body_parser. apply Sim_bind; [apply Sim_repeat; apply Ss|].
    intros stmts. destruct stmts; cbv beta iota zeta; apply Sim_ret.
  Qed.

  (* running one body from any top-level context *)
  Lemma body_run first rest c : length (first :: rest) <= n -> TopInv c ->
    let body := first :: rest in
    StepM (BodyEnv body (cevals c)) body 3 (body_parser (g_stmt g') body first body) (clear_cache c)
          (body_parser (g_stmt g) body first body (clear_cache c)).
  Proof.
    intros Hb [Hm Hok] body. apply Sim_body_parser; [apply Suffix_refl|exact Hb|].
    apply Good_clear. exact Hm.
  Qed.

  Lemma Sim_parse_method_body b : length b <= n -> Sim TopEnv n 3 (parse_method_body g b) (parse_method_body g' b).
  Proof.
    intros Hb i c _ Hi Hc. destruct b as [|first rest].
    - apply (Sim_ret TopEnv n 3 None i c I Hi Hc).
    - rewrite parse_method_body_eq.
      eapply StepM_ext; [intro c'; symmetry; apply parse_method_body_eq|].
      destruct (body_run first rest c Hb Hc) as (wd & nw & O & S & (Hm1 & Hok1 & _) & D & Ev & _).
      pose proof (NoErr_body_parser (g_stmt g) (first :: rest) first (first :: rest) (clear_cache c)) as NE.
      destruct (body_parser (g_stmt g) (first :: rest) first (first :: rest) (clear_cache c)) as [r c1].
      cbn [fst snd] in *.
      assert (OffM (fun c' => match body_parser (g_stmt g') (first :: rest) first (first :: rest) (clear_cache c') with
                              | (Ok _ a, c1) => (Ok i a, c1) | (Err e m, c1) => (Err e m, c1)
                              | (Panic s, c1) => (Panic s, c1) | (NoFuel, c1) => (NoFuel, c1) end)
                   (match r with Ok _ a => Ok i a | Err e m => Err e m | Panic s => Panic s | NoFuel => NoFuel end) wd) as O'.
      { intros c' Hm'. destruct (O (clear_cache c') Hm') as (c1' & X & M1 & Y). exists c1'. rewrite X.
        destruct r; auto. }
      destruct r as [r a|e m|s|]; try contradiction; exists wd, nw; cbn [fst snd];
        (refine (conj O' (conj _ (conj (conj Hm1 Hok1) (conj D (conj Ev _)))));
         [try exact I; apply Suffix_refl | intros []]).
  Qed.

  Lemma Sim_method_tail first eraw erange mods terms msg :
    Sim TopEnv n 3 (method_tail g first eraw erange mods terms msg) (method_tail g' first eraw erange mods terms msg).
  Proof.
    unfold method_tail. destruct (has_method_body mods); [|apply Sim_ret].
    eapply (Sim_bind_postN TopEnv n 3 _ _ _ _ (fun a => length (fst a) <= n));
      [apply Sim_take_until|apply take_until_body_len|].
    intros [body endt] Hlen. cbn [fst] in Hlen.
    eapply Sim_bind; [apply Sim_parse_method_body; exact Hlen|].
    intros b. eapply Sim_bind; [destruct endt; stac|]. intros _. stac.
  Qed.

  Lemma Sim_parse_global_variable_declaration :
    Sim TopEnv n 3 (parse_global_variable_declaration g) (parse_global_variable_declaration g').
  Proof. pose proof Rec_type'. pose proof SRec_type'. unfold parse_global_variable_declaration. stac. Qed.

  Lemma Sim_parse_method_name_uievent E rho : Sim E n rho parse_method_name_uievent parse_method_name_uievent.
  Proof. unfold parse_method_name_uievent. stac. Qed.

  Lemma Sim_parse_method_name E rho : Sim E n rho parse_method_name parse_method_name.
  Proof.
    unfold parse_method_name. apply Sim_alt.
    apply Forall2_cons; [apply Sim_parse_method_name_uievent|apply Forall2_cons; [stac|apply Forall2_nil]].
  Qed.

  Lemma Sim_parse_procedure_declaration :
    Sim TopEnv n 3 (parse_procedure_declaration g) (parse_procedure_declaration g').
  Proof.
    unfold parse_procedure_declaration.
    eapply Sim_bind_strict; [wtac|stac|]. intros first m Hm.
    eapply Sim_bind; [apply (Sim_mono TopEnv n m); [lia|apply Sim_parse_method_name]|].
    intros name.
    eapply Sim_bind; [apply Sim_parse_parameter_declaration_list;
                      [apply (Rec_mono n m); [lia|apply Rec_type']|apply (SRec_mono TopEnv n m); [lia|apply SRec_type']]|].
    intros ps. eapply Sim_bind; [stac|]. intros mods.
    destruct mods as [[[mr rr] fl]|]; [|destruct ps as [pn|]]; cbv beta iota;
      (eapply Sim_bind; [apply (Sim_mono TopEnv n m); [lia|apply Sim_method_tail]|]);
      intros [[body endt] end_]; stac.
  Qed.

  Lemma Sim_parse_function_declaration :
    Sim TopEnv n 3 (parse_function_declaration g) (parse_function_declaration g').
  Proof.
    unfold parse_function_declaration.
    eapply Sim_bind_strict; [wtac|stac|]. intros first m Hm.
    eapply Sim_bind; [apply (Sim_mono TopEnv n m); [lia|apply Sim_parse_method_name]|].
    intros name.
    eapply Sim_bind; [apply Sim_parse_parameter_declaration_list;
                      [apply (Rec_mono n m); [lia|apply Rec_type']|apply (SRec_mono TopEnv n m); [lia|apply SRec_type']]|].
    intros ps. eapply Sim_bind; [stac|]. intros _.
    eapply Sim_bind; [stac|]. intros rt.
    eapply Sim_bind; [stac|]. intros mods.
    destruct mods as [[[mr rr] fl]|]; cbv beta iota;
      (eapply Sim_bind; [apply (Sim_mono TopEnv n m); [lia|apply Sim_method_tail]|]);
      intros [[body endt] end_]; stac.
  Qed.

  Lemma Sim_parse_parent_class E m rho : Sim E m rho parse_parent_class parse_parent_class.
  Proof. unfold parse_parent_class. stac. Qed.

  Lemma Sim_parse_class E m rho : Sim E m rho parse_class parse_class.
  Proof.
    unfold parse_class. eapply Sim_bind; [stac|]. intros _.
    eapply Sim_bind; [stac|]. intros ct. eapply Sim_bind; [stac|]. intros nt.
    eapply Sim_bind; [apply Sim_opt; apply Sim_parse_parent_class|]. intros pr. stac.
  Qed.

  Lemma Sim_parse_module E m rho : Sim E m rho parse_module parse_module.
  Proof. unfold parse_module. stac. Qed.

  Lemma Sim_top_blocks : Sim TopEnv n 3 (alt (top_block_parsers g)) (alt (top_block_parsers g')).
  Proof.
    apply Sim_alt. apply Forall2_cons; [apply Sim_parse_procedure_declaration|].
    apply Forall2_cons; [apply Sim_parse_function_declaration|apply Forall2_nil].
  Qed.

  Lemma Sim_top_decls : Sim TopEnv n 3 (alt (top_decl_parsers g)) (alt (top_decl_parsers g')).
  Proof.
    apply Sim_alt. unfold top_decl_parsers. repeat (apply Forall2_cons || apply Forall2_nil).
    - stac. - apply Sim_parse_class. - apply Sim_parse_module. - stac.
    - apply Sim_parse_type_declaration; [exact Ht|exact St]. - stac.
    - apply Sim_parse_global_variable_declaration. - stac.
  Qed.

  Lemma Sim_top_loop whole : forall fuel acc,
    Sim TopEnv n 3 (top_loop g fuel whole acc) (top_loop g' fuel whole acc).
  Proof.
    induction fuel as [|f IH]; intros acc i c Hd Hi Hc; cbn [top_loop]; [apply StepM_ret; [exact I|exact Hc]|].
    destruct i as [|first_tok i']; [apply StepM_ret; [apply Suffix_refl|exact Hc]|].
    eapply StepM_case.
    - apply Sim_top_blocks; auto.
    - intros r nd c1 _ Hs1 Hc1. step_rec IH Hs1.
    - intros be bm c1 _ Hsb Hc1. eapply StepM_case.
      + apply Sim_top_decls; auto.
      + intros r nd c2 _ Hs2 Hc2. step_rec IH Hs2.
      + intros e m c2 _ Hse Hc2.
        destruct (ilen e <? ilen be)%N; cbv beta iota zeta.
        * destruct e as [|t e']; [destruct (rev whole) as [|lt rw]|]; try (apply StepM_ret; [exact I|exact Hc2]);
            apply Suffix_skip_after_error in Hse; add_diag_tac Hc2; step_rec IH Hse; apply TopInv_add_diag; exact Hc2.
        * destruct be as [|t be']; [destruct (rev whole) as [|lt rw]|]; try (apply StepM_ret; [exact I|exact Hc2]);
            apply Suffix_skip_after_error in Hsb; add_diag_tac Hc2; step_rec IH Hsb; apply TopInv_add_diag; exact Hc2.
  Qed.
End TopSim2.
(* ---------- whole files, two fuel levels ---------- *)

Theorem memo_two_fuel F F' ts : length ts < F -> length ts < F' ->
  fst (parse_gold_with true F ts) = fst (parse_gold_with false F' ts) /\
  forall d, In d (cdiags (snd (parse_gold_with true F ts))) <->
            In d (cdiags (snd (parse_gold_with false F' ts))).
Proof.
  intros Hf Hf'. destruct (gram_W F (length ts) Hf) as (Wt & We & Wp & Ws).
  pose proof (gram_type_Sim TopEnv F (length ts) 3 Hf F' Hf') as St.
  assert (forall body base, Sim (BodyEnv body base) (length ts) 3 (g_stmt (gram F)) (g_stmt (gram F'))) as Ss.
  { intros body base. apply (gram_Sim body base F (length ts) Hf F' Hf'). }
  destruct (Sim_top_loop (length ts) (gram F) (gram F') Wt St Ss ts (S (length ts)) [] ts (ctx0 true) I (le_n _)
              (conj eq_refl (CacheOK_ctx0 true))) as (wd & nw & O & Sf & I1 & D & Ev & _).
  destruct (O (ctx0 false) eq_refl) as (c1' & X & M1 & Y).
  unfold parse_gold_with. rewrite X.
  destruct (top_loop (gram F) (S (length ts)) ts [] ts (ctx0 true)) as [r c1]. cbn [fst snd] in *.
  assert (forall d, In d (cdiags c1) <-> In d (cdiags c1')) as Hd.
  { intro d. rewrite (D d), Y. simpl. rewrite app_nil_r. tauto. }
  destruct r; cbn [fst snd]; auto.
Qed.

(* the outcome of parse_gold_with does not depend on the fuel (above the number of tokens) nor on
   the memoisation switch: same result, same set of diagnostics *)
Theorem parse_gold_fuel_indep m m' F F' ts : length ts < F -> length ts < F' ->
  fst (parse_gold_with m F ts) = fst (parse_gold_with m' F' ts) /\
  forall d, In d (cdiags (snd (parse_gold_with m F ts))) <-> In d (cdiags (snd (parse_gold_with m' F' ts))).
Proof.
  intros Hf Hf'.
  destruct (memo_two_fuel F F ts Hf Hf) as [A1 A2]. destruct (memo_two_fuel F F' ts Hf Hf') as [B1 B2].
  destruct (memo_two_fuel F' F' ts Hf' Hf') as [C1 C2].
  destruct m, m'.
  - split; [congruence|]. intro d. rewrite (B2 d), <- (C2 d). tauto.
  - split; [exact B1|exact B2].
  - split; [congruence|]. intro d. rewrite <- (A2 d), (B2 d), <- (C2 d). tauto.
  - split; [congruence|]. intro d. rewrite <- (A2 d), (B2 d). tauto.
Qed.

(* a run without diagnostics stays without diagnostics under any fuel / memoisation *)
Corollary parse_gold_clean_indep m m' F F' ts r : length ts < F -> length ts < F' ->
  fst (parse_gold_with m F ts) = r -> cdiags (snd (parse_gold_with m F ts)) = [] ->
  fst (parse_gold_with m' F' ts) = r /\ cdiags (snd (parse_gold_with m' F' ts)) = [].
Proof.
  intros Hf Hf' Hr Hd. destruct (parse_gold_fuel_indep m m' F F' ts Hf Hf') as [E1 E2].
  split; [congruence|].
  destruct (cdiags (snd (parse_gold_with m' F' ts))) as [|d l] eqn:E; [reflexivity|].
  exfalso. assert (In d (cdiags (snd (parse_gold_with m F ts)))) as X by (apply E2; left; reflexivity).
  rewrite Hd in X. destruct X.
Qed.
