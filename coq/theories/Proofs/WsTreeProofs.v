(* C10 / C11 at tree level on a WORKSPACE of documents (Model/WsTree.v): for every workspace of regular
   trees whose files are called like their headers,
   (a) map entity_of_tree over the documents is an abstract Scoping.workspace whose class index
       (find_entity) is the tree-level class_uri_map (find_doc);
   (b) the chain of root tables the annotators link for a document whose lineage walk does not come
       back IS Scoping.class_chain of that workspace, table by table (ws_class_chain_refines); the
       walk's fuel is enough (pigeonhole on the visited documents);
   (c) the look-ups of the definition service (plain identifier with the `uses` loop, all declarations
       along the class-level chain, along another entity's chain) select the declarations Scoping's
       search_w_class / search_all select: same table of the chain, same position in it;
   (d) the completion labels are those of Scoping.complete_plain / completion_member / complete_after_dot;
   (e) hence the abstract property theorems (C10_plain, C10_member ..., C11_after_dot, C11_plain)
       speak about the answers computed from real trees. *)
From GoldV Require Import Base Tokens Lexer AstKinds Tree Encase SymTab SymTabProofs Scoping ScopingProofs
                          Annot AnnotProofs AnnotModes DefTree DefTreeProofs WsTree.
From Coq Require Import Lia.

(* ====================================================================================== *)
(* vocabulary                                                                             *)
(* ====================================================================================== *)

Definition ent (d : doc) : entity := entity_of_tree (snd d).
Definition absws (ws : wst) : workspace := map ent ws.

(* only class nodes carry a parent token (treedump.rs writes attribute 2 for AstClass only) *)
Definition module_plain (t : node) : Prop :=
  forall h, In h (nchildren t) -> is_kind KAstClass h = false -> attr_tok K_parent h = None.

Definition doc_ok (d : doc) : Prop :=
  regular (snd d) /\ ci_eqb (fst d) (e_name (ent d)) = true /\ module_plain (snd d).

Definition ws_ok (ws : wst) : Prop := Forall doc_ok ws.

(* no lineage walk comes back to a document already on it *)
Definition ws_acyclic (ws : wst) : Prop :=
  forall j d, nth_error ws j = Some d -> exists path, lineage_t ws j = Ans (false, path).

Lemma ws_ok_nth ws j d : ws_ok ws -> nth_error ws j = Some d -> doc_ok d.
Proof. intros H Hn. unfold ws_ok in H. rewrite Forall_forall in H. apply H. eapply nth_error_In. exact Hn. Qed.

(* ====================================================================================== *)
(* the header of a regular document                                                       *)
(* ====================================================================================== *)

Lemma is_header_node_eq n : is_header_node n = is_header n.
Proof.
  unfold is_header_node, is_header, dk, top, dkind_at, dkind_of, is_kind. cbn [fst snd].
  destruct (nkind n); reflexivity.
Qed.

Definition hdrp (p : vnode) : bool := is_header_node (snd p).

Lemma silent_not_hdr p : silent p -> hdrp p = false.
Proof.
  unfold silent, dkind_at, dkind_of, hdrp, is_header_node, is_kind. destruct p as [g n]. cbn [fst snd].
  destruct (nkind n); intro H; try reflexivity; discriminate H.
Qed.

Lemma vos_not_hdr p : var_or_silent p -> hdrp p = false.
Proof.
  intros [H|H]; [apply silent_not_hdr; exact H|].
  unfold var_like, dkind_at, dkind_of, hdrp, is_header_node, is_kind in *. destruct p as [g n]. cbn [fst snd] in *.
  destruct (nkind n); try reflexivity; discriminate H.
Qed.

Lemma filter_hdr_none l : Forall var_or_silent l -> filter hdrp l = [].
Proof. intro H. apply filter_none. eapply Forall_impl; [|exact H]. intros p Hp. apply vos_not_hdr. exact Hp. Qed.

Lemma filter_hdr_top_seq t c : Forall var_or_silent (below t c) ->
  filter hdrp (top_seq false t c) = if is_header c then [top c] else [].
Proof.
  intro H. unfold top_seq. cbn [filter]. rewrite (filter_hdr_none _ H). unfold hdrp at 1. cbn [snd].
  rewrite is_header_node_eq. destruct (is_header c); reflexivity.
Qed.

Lemma filter_hdr_flat t l : Forall (fun c => Forall var_or_silent (below t c)) l ->
  filter hdrp (flat_map (top_seq false t) l) = map top (filter is_header l).
Proof.
  induction 1 as [|c l Hc _ IH]; [reflexivity|]. rewrite flat_map_cons, filter_app, IH, (filter_hdr_top_seq t c Hc).
  cbn [filter]. destruct (is_header c); reflexivity.
Qed.

Lemma quiet_vos t c : quiet t c -> Forall var_or_silent (below t c).
Proof. intro H. eapply Forall_impl; [|exact H]. intros p Hp. left. exact Hp. Qed.

Lemma mid_not_header t l : Forall (mid_ok t) l -> Forall (fun x => is_header x = false) l.
Proof.
  intro H. eapply Forall_impl; [|exact H]. intros c [[Hs|[Hu|[Hm _]]] _]; [apply silent_not_header; exact Hs| |].
  - dk_cases c; try discriminate; reflexivity.
  - dk_cases c; try discriminate; reflexivity.
Qed.

Lemma rest_not_header t l : Forall (rest_ok t) l -> Forall (fun x => is_header x = false) l.
Proof.
  intro H. eapply Forall_impl; [|exact H]. intros c [[Hs _]|[Hm _]]; [apply silent_not_header; exact Hs|].
  dk_cases c; try discriminate; reflexivity.
Qed.

Lemma reg_below_vos t pre h mid rest : reg_split t pre h mid rest ->
  Forall (fun c => Forall var_or_silent (below t c)) (nchildren t).
Proof.
  intros (Ht & Hch & Hpre & Hh & Hhq & Hmid & Hrest). rewrite Hch.
  apply Forall_app. split; [eapply Forall_impl; [|exact Hpre]; intros c [_ Hq]; apply quiet_vos; exact Hq|].
  constructor; [apply quiet_vos; exact Hhq|]. apply Forall_app. split.
  - eapply Forall_impl; [|exact Hmid]. intros c [_ Hq]. apply quiet_vos. exact Hq.
  - eapply Forall_impl; [|exact Hrest]. intros c [[_ Hq]|[_ Hv]]; [apply quiet_vos; exact Hq|exact Hv].
Qed.

Lemma reg_headers t pre h mid rest : reg_split t pre h mid rest -> filter is_header (nchildren t) = [h].
Proof.
  intros (Ht & Hch & Hpre & Hh & Hhq & Hmid & Hrest). rewrite Hch, filter_app. cbn [filter]. rewrite Hh, filter_app.
  rewrite (filter_none is_header pre) by (eapply pre_no; [exact silent_not_header|exact Hpre]).
  rewrite (filter_none is_header mid) by (eapply mid_not_header; exact Hmid).
  rewrite (filter_none is_header rest) by (eapply rest_not_header; exact Hrest). reflexivity.
Qed.

Lemma filter_map_snd (l : list vnode) : filter is_header_node (map snd l) = map snd (filter hdrp l).
Proof. induction l as [|p l IH]; [reflexivity|]. cbn [map filter]. rewrite IH. unfold hdrp. destruct (is_header_node (snd p)); reflexivity. Qed.

(* a regular document has exactly one class / module node, the header h, a child of the root *)
Lemma header_nodes_regular t pre h mid rest : reg_split t pre h mid rest ->
  filter is_header_node (all_nodes t) = [h] /\ filter is_header_node (nchildren t) = [h].
Proof.
  intro HR. pose proof HR as (Ht & _). split.
  - unfold all_nodes. rewrite filter_map_snd. unfold visit_seq. cbn [filter].
    assert (E : hdrp (false, t) = false) by (apply silent_not_hdr; exact Ht). rewrite E.
    rewrite (filter_hdr_flat t _ (reg_below_vos _ _ _ _ _ HR)).
    rewrite (reg_headers _ _ _ _ _ HR). reflexivity.
  - rewrite (filter_ext _ _ is_header_node_eq). apply (reg_headers _ _ _ _ _ HR).
Qed.

(* the parent the annotator looks up is the parent Scoping's lineage follows *)
Lemma parent_link_regular t : regular t -> module_plain t ->
  let e := entity_of_tree t in
  parent_link t = match e_parent e with
                  | Some p => if ci_eqb p (e_name e) then PNone else PTo p
                  | None => PNone
                  end.
Proof.
  intros [Ht (pre & h & mid & rest & Hch & Hpre & Hh & Hhq & Hmid & Hrest)] Hmod.
  assert (HR : reg_split t pre h mid rest) by (unfold reg_split; tauto).
  destruct (header_nodes_regular _ _ _ _ _ HR) as [H1 H2]. pose proof (reg_header _ _ _ _ _ HR) as Hf.
  cbv zeta. unfold parent_link. rewrite H1, H2. unfold entity_of_tree. cbn [e_parent e_name]. rewrite Hf.
  destruct (is_kind KAstClass h) eqn:Ek.
  - destruct (attr_tok K_parent h); reflexivity.
  - rewrite (Hmod h); [reflexivity| |exact Ek]. rewrite Hch. apply in_or_app. right. left. reflexivity.
Qed.

(* ====================================================================================== *)
(* (a) the class index                                                                    *)
(* ====================================================================================== *)

Lemma ci_eqb_stem d name : ci_eqb (fst d) (e_name (ent d)) = true -> ci_eqb (e_name (ent d)) name = ci_eqb (fst d) name.
Proof. unfold ci_eqb. intro H. apply str_eqb_eq in H. rewrite H. reflexivity. Qed.

Lemma find_doc_from_corr ws name : ws_ok ws -> forall k,
  match find_doc_from k ws name with
  | Some (j, d) => find_entity (absws ws) name = Some (ent d) /\ (k <= j)%nat /\ nth_error ws (j - k) = Some d
  | None => find_entity (absws ws) name = None
  end.
Proof.
  induction 1 as [|d ws Hd _ IH]; intro k; [reflexivity|].
  destruct Hd as (_ & Hs & _). cbn [find_doc_from absws map]. unfold find_entity. cbn [find].
  rewrite (ci_eqb_stem d name Hs). destruct (ci_eqb (fst d) name).
  - split; [reflexivity|]. split; [lia|]. replace (k - k)%nat with O by lia. reflexivity.
  - specialize (IH (S k)). destruct (find_doc_from (S k) ws name) as [[j d']|]; [|exact IH].
    destruct IH as (H1 & H2 & H3). split; [exact H1|]. split; [lia|].
    replace (j - k)%nat with (S (j - S k)) by lia. exact H3.
Qed.

(* find_doc is find_entity on the abstract workspace *)
Theorem find_doc_corr ws name : ws_ok ws ->
  match find_doc ws name with
  | Some (j, d) => find_entity (absws ws) name = Some (ent d) /\ nth_error ws j = Some d
  | None => find_entity (absws ws) name = None
  end.
Proof.
  intro H. pose proof (find_doc_from_corr ws name H 0) as F. unfold find_doc.
  destruct (find_doc_from 0 ws name) as [[j d]|]; [|exact F]. destruct F as (H1 & _ & H3).
  replace (j - 0)%nat with j in H3 by lia. auto.
Qed.

Lemma find_doc_from_self ws : forall k a d, distinct_stems ws = true -> nth_error ws a = Some d ->
  find_doc_from k ws (fst d) = Some ((k + a)%nat, d).
Proof.
  induction ws as [|x ws IH]; intros k a d Hd Hn; [destruct a; discriminate|].
  cbn [distinct_stems] in Hd. apply andb_true_iff in Hd. destruct Hd as [Hx Hd]. cbn [find_doc_from].
  destruct a as [|a].
  - inversion Hn; subst. unfold ci_eqb. rewrite str_eqb_refl. replace (k + 0)%nat with k by lia. reflexivity.
  - cbn [nth_error] in Hn. apply negb_true_iff in Hx.
    assert (E : ci_eqb (fst x) (fst d) = false).
    { destruct (ci_eqb (fst x) (fst d)) eqn:E; [|reflexivity]. exfalso.
      assert (Hex : existsb (fun e => ci_eqb (fst e) (fst x)) ws = true).
      { apply existsb_exists. exists d. split; [eapply nth_error_In; exact Hn|].
        unfold ci_eqb in *. apply str_eqb_eq in E. rewrite E. apply str_eqb_refl. }
      rewrite Hex in Hx. discriminate. }
    rewrite E. rewrite (IH (S k) a d Hd Hn). f_equal. f_equal. lia.
Qed.

Lemma find_doc_self ws a d : distinct_stems ws = true -> nth_error ws a = Some d -> find_doc ws (fst d) = Some (a, d).
Proof. intros H1 H2. unfold find_doc. rewrite (find_doc_from_self ws 0 a d H1 H2). reflexivity. Qed.

(* ====================================================================================== *)
(* (b) the lineage walk is Scoping's ancestors                                            *)
(* ====================================================================================== *)

Lemma ancestors_unknown f ws name : find_entity ws name = None -> ancestors f ws name = [].
Proof. intro H. destruct f; [reflexivity|]. cbn [ancestors]. rewrite H. reflexivity. Qed.

Lemma walk_ancestors ws : ws_ok ws -> forall f seen i d name path,
  find_doc ws name = Some (i, d) -> walk f ws seen i = Ans (false, path) ->
  exists rest ds, path = seen ++ rest /\ Forall2 (fun j x => nth_error ws j = Some x) rest ds /\
                  ancestors f (absws ws) name = map ent ds.
Proof.
  intro Hok. induction f as [|f IH]; intros seen i d name path Hfd Hw; [discriminate|].
  pose proof (find_doc_corr ws name Hok) as Hc. rewrite Hfd in Hc. destruct Hc as [Hfe Hn].
  cbn [walk] in Hw. destruct (index_of i seen) as [k|].
  { destruct (forallb (tree_ok ws header_first) seen); discriminate. }
  rewrite Hn in Hw. destruct (ws_ok_nth ws i d Hok Hn) as (Hreg & Hstem & Hmod).
  rewrite (parent_link_regular (snd d) Hreg Hmod) in Hw. cbv zeta in Hw. fold (ent d) in Hw.
  cbn [ancestors]. rewrite Hfe.
  destruct (e_parent (ent d)) as [p|].
  - destruct (ci_eqb p (e_name (ent d))).
    + inversion Hw; subst. exists [i], [d]. repeat split; auto.
    + pose proof (find_doc_corr ws p Hok) as Hp. destruct (find_doc ws p) as [[j dj]|] eqn:Ep.
      * destruct (IH (seen ++ [i]) j dj p path Ep Hw) as (rest & ds & -> & HF & HA).
        exists (i :: rest), (d :: ds). rewrite <- app_assoc. cbn [app map]. repeat split; auto. rewrite HA. reflexivity.
      * inversion Hw; subst. exists [i], [d]. rewrite (ancestors_unknown f _ p Hp). repeat split; auto.
  - inversion Hw; subst. exists [i], [d]. repeat split; auto.
Qed.

(* the visited documents are pairwise different documents of the workspace *)
Lemma index_of_none i l : index_of i l = None -> ~ In i l.
Proof.
  induction l as [|x l IH]; cbn [index_of]; intros H Hin; [destruct Hin|]. destruct Hin as [E|E].
  - subst. rewrite Nat.eqb_refl in H. discriminate.
  - destruct (Nat.eqb x i); [discriminate|]. destruct (index_of i l); [discriminate|]. apply IH; auto.
Qed.

Lemma NoDup_snoc {A} (l : list A) x : NoDup l -> ~ In x l -> NoDup (l ++ [x]).
Proof.
  induction 1 as [|y l Hy _ IH]; intro Hx; cbn [app]; [constructor; [intros []|constructor]|].
  constructor.
  - intro Hin. apply in_app_or in Hin. destruct Hin as [Hin|[<-|[]]]; [contradiction|]. apply Hx. left. reflexivity.
  - apply IH. intro Hin. apply Hx. right. exact Hin.
Qed.

Lemma walk_nodup ws : forall f seen i path, NoDup seen -> (forall x, In x seen -> (x < length ws)%nat) ->
  walk f ws seen i = Ans (false, path) -> NoDup path /\ (forall x, In x path -> (x < length ws)%nat).
Proof.
  induction f as [|f IH]; intros seen i path Hnd Hlt Hw; [discriminate|]. cbn [walk] in Hw.
  destruct (index_of i seen) as [k|] eqn:Ei. { destruct (forallb (tree_ok ws header_first) seen); discriminate. }
  apply index_of_none in Ei. destruct (nth_error ws i) as [d|] eqn:En; [|discriminate].
  assert (Hi : (i < length ws)%nat) by (apply nth_error_Some; rewrite En; discriminate).
  assert (Hnd' : NoDup (seen ++ [i])).
  { apply NoDup_snoc; assumption. }
  assert (Hlt' : forall x, In x (seen ++ [i]) -> (x < length ws)%nat).
  { intros x Hx. apply in_app_or in Hx. destruct Hx as [Hx|[<-|[]]]; auto. }
  destruct (parent_link (snd d)) as [|p|]; [inversion Hw; subst; auto| |discriminate].
  destruct (find_doc ws p) as [[j dj]|]; [|inversion Hw; subst; auto].
  apply (IH (seen ++ [i]) j path Hnd' Hlt' Hw).
Qed.

Lemma nodup_bounded_length (l : list nat) n : NoDup l -> (forall x, In x l -> (x < n)%nat) -> (length l <= n)%nat.
Proof.
  intros Hnd Hlt. rewrite <- (seq_length n 0). apply NoDup_incl_length; [exact Hnd|].
  intros x Hx. apply in_seq. specialize (Hlt x Hx). lia.
Qed.

Lemma Forall2_len {A B} (P : A -> B -> Prop) l l' : Forall2 P l l' -> length l = length l'.
Proof. induction 1; cbn [length]; congruence. Qed.

(* the walk of the annotators (fuel: one more than there are documents) and Scoping's lineage (fuel:
   the number of entities) visit the same documents: a walk that does not come back visits
   pairwise different documents, so neither runs out of fuel *)
Theorem lineage_refines ws c i d path : ws_ok ws ->
  find_doc ws c = Some (i, d) -> lineage_t ws i = Ans (false, path) ->
  exists ds, Forall2 (fun j x => nth_error ws j = Some x) path ds /\ lineage (absws ws) c = map ent ds.
Proof.
  intros Hok Hf Hl. unfold lineage_t in Hl.
  destruct (walk_ancestors ws Hok _ [] i d c path Hf Hl) as (rest & ds & Hp & HF & HA). cbn [app] in Hp. subst rest.
  exists ds. split; [exact HF|].
  assert (H0 : forall x, In x (@nil nat) -> (x < length ws)%nat) by (intros x []).
  destruct (walk_nodup ws _ [] i path (NoDup_nil _) H0 Hl) as [Hnd Hlt].
  pose proof (nodup_bounded_length path (length ws) Hnd Hlt) as Hlen.
  unfold lineage. assert (El : length (absws ws) = length ws) by (unfold absws; apply map_length). rewrite El.
  replace (S (length ws)) with (length ws + 1)%nat in HA by lia.
  rewrite <- (ancestors_stable (length ws) 1 (absws ws) c); [exact HA|].
  rewrite HA, map_length, <- (Forall2_len _ _ _ HF). exact Hlen.
Qed.

Lemma walk_prefix ws : forall f seen i path, walk f ws seen i = Ans (false, path) -> exists rest, path = seen ++ i :: rest.
Proof.
  induction f as [|f IH]; intros seen i path Hw; [discriminate|]. cbn [walk] in Hw.
  destruct (index_of i seen). { destruct (forallb (tree_ok ws header_first) seen); discriminate. }
  destruct (nth_error ws i) as [d|]; [|discriminate].
  destruct (parent_link (snd d)) as [|p|]; [inversion Hw; exists []; reflexivity| |discriminate].
  destruct (find_doc ws p) as [[j dj]|]; [|inversion Hw; exists []; reflexivity].
  destruct (IH _ _ _ Hw) as (rest & ->). exists (j :: rest). rewrite <- app_assoc. reflexivity.
Qed.

(* ====================================================================================== *)
(* the tables                                                                             *)
(* ====================================================================================== *)

(* a tree table IS an abstract table (same_table of AnnotProofs), carries a class name, and the
   abstract table is written as a sequence of insertions *)
Definition same_tableB (T : table) (S : scope) : Prop :=
  same_table T S /\ t_cls T <> None /\ exists c l, S = build c l.

Lemma root_cls_regular t : regular t -> t_cls (root_table_of false t) <> None.
Proof.
  intro Hr. destruct (annotate_regular t Hr) as (h & _ & Ha). cbv zeta in Ha. unfold root_table_of. rewrite Ha.
  cbn [st_root t_cls]. discriminate.
Qed.

(* the root table of a regular document, in either mode, is Scoping's root_table of its entity *)
Lemma root_same t b : regular t -> same_tableB (root_table_of b t) (root_table (entity_of_tree t)).
Proof.
  intro Hr. assert (E : root_table_of b t = root_table_of false t) by (destruct b; [apply (modes_agree t Hr)|reflexivity]).
  rewrite E. destruct (tables_from_tree t Hr) as (H & _ & _). cbv zeta in H.
  split; [exact H|]. split; [apply root_cls_regular; exact Hr|]. eexists _, _. apply root_table_build.
Qed.

Lemma method_same t k mt : regular t -> nth_error (method_tables_of false t) k = Some mt ->
  exists me, nth_error (e_methods (entity_of_tree t)) k = Some me /\ same_tableB mt (method_table (entity_of_tree t) me).
Proof.
  intros Hr Hk. destruct (chains_of_regular t k mt Hr Hk) as (me & Hme & Hm & _). exists me. split; [exact Hme|].
  split; [exact Hm|]. split.
  - destruct (annotate_regular t Hr) as (h & _ & Ha). cbv zeta in Ha. unfold method_tables_of in Hk. rewrite Ha in Hk.
    cbn [st_done] in Hk. apply nth_error_In in Hk. apply in_map_iff in Hk. destruct Hk as (m & <- & _).
    unfold mtab. cbn [t_cls]. discriminate.
  - eexists _, _. apply method_table_build.
Qed.

Lemma tables_along_same ws a : ws_ok ws -> forall path ds, Forall2 (fun j x => nth_error ws j = Some x) path ds ->
  Forall2 same_tableB (tables_along ws a path) (map root_table (map ent ds)).
Proof.
  intro Hok. unfold tables_along. induction 1 as [|j d path ds Hj _ IH]; [constructor|].
  cbn [flat_map map]. unfold root_of at 1. rewrite Hj. cbn [app]. constructor; [|exact IH].
  apply root_same. apply (ws_ok_nth ws j d Hok Hj).
Qed.

(* (b) the chain of root tables linked for class c is Scoping.class_chain, table by table *)
Theorem ws_class_chain_refines ws a c i d path : ws_ok ws ->
  find_doc ws c = Some (i, d) -> lineage_t ws i = Ans (false, path) ->
  Forall2 same_tableB (tables_along ws a path) (class_chain (absws ws) c).
Proof.
  intros Hok Hf Hl. destruct (lineage_refines ws c i d path Hok Hf Hl) as (ds & HF & HL).
  unfold class_chain. rewrite HL. apply tables_along_same; assumption.
Qed.

(* ====================================================================================== *)
(* look-ups along corresponding chains                                                    *)
(* ====================================================================================== *)

(* the tree-level hit h and the abstract hit p are the same declaration: the k-th tables of the two
   chains, the same position in them, the same class, name and symbol type *)
Definition hit_at (chT : list table) (chS : chain) (h : table * asym) (p : str * sym) : Prop :=
  exists k S, nth_error chT k = Some (fst h) /\ nth_error chS k = Some S /\
              cls_str (fst h) = fst p /\ aview (snd h) = sview (snd p) /\ same_decl (fst h) S (snd h) (snd p).

Lemma hit_at_cons T S chT chS h p : hit_at chT chS h p -> hit_at (T :: chT) (S :: chS) h p.
Proof. intros (k & S0 & H1 & H2 & H3). exists (Datatypes.S k), S0. cbn [nth_error]. auto. Qed.

Lemma find_in_corrB T S id : same_tableB T S ->
  match scope_find S id with
  | Some y => exists a, find_in T id = Some a /\ cls_str T = cls S /\ aview a = sview y /\ same_decl T S a y
  | None => find_in T id = None
  end.
Proof.
  intros (Hst & _ & c & l & ->). pose proof (find_in_corr T c l id Hst) as F.
  destruct (scope_find (build c l) id) as [y|]; [|exact F]. destruct F as (a & Fa & Va & Da). exists a.
  split; [exact Fa|]. split; [apply Hst|]. auto.
Qed.

(* search_symbol_info_wparent *)
Lemma lookup_corr chT chS id : Forall2 same_tableB chT chS ->
  match search_wparent chS id with
  | Some p => exists h, lookup chT id = Some h /\ hit_at chT chS h p
  | None => lookup chT id = None
  end.
Proof.
  induction 1 as [|T S chT chS HTS _ IH]; [reflexivity|]. cbn [search_wparent lookup].
  pose proof (find_in_corrB T S id HTS) as F. destruct (scope_find S id) as [y|].
  - destruct F as (a & Fa & Hc & Va & Da). rewrite Fa. exists (T, a). split; [reflexivity|].
    exists O, S. cbn [nth_error fst snd]. auto.
  - rewrite F. destruct (search_wparent chS id) as [p|]; [|exact IH].
    destruct IH as (h & Hl & Hh). exists h. split; [exact Hl|]. apply hit_at_cons. exact Hh.
Qed.

Lemma Forall2_weaken {A B} (P Q : A -> B -> Prop) l l' : (forall x y, P x y -> Q x y) -> Forall2 P l l' -> Forall2 Q l l'.
Proof. intros H. induction 1; constructor; auto. Qed.

(* search_all_symbol_info *)
Lemma lookup_all_corr chT chS id : Forall2 same_tableB chT chS ->
  Forall2 (hit_at chT chS) (lookup_all chT id) (search_all chS id).
Proof.
  induction 1 as [|T S chT chS HTS _ IH]; [constructor|]. cbn [search_all lookup_all].
  pose proof (find_in_corrB T S id HTS) as F.
  assert (IH' : Forall2 (hit_at (T :: chT) (S :: chS)) (lookup_all chT id) (search_all chS id)).
  { eapply Forall2_weaken; [|exact IH]. intros h p Hh. apply hit_at_cons. exact Hh. }
  destruct (scope_find S id) as [y|].
  - destruct F as (a & Fa & Hc & Va & Da). rewrite Fa. cbn [app]. constructor; [|exact IH'].
    exists O, S. cbn [nth_error fst snd]. auto.
  - rewrite F. exact IH'.
Qed.

(* collect_unique_symbols_w_parents and the two filters of the completion service *)
Lemma chain_srel chT chS : Forall2 same_tableB chT chS -> Forall2 srel (map scope_of chT) chS.
Proof.
  induction 1 as [|T S chT chS (Hst & _ & c & l & ->) _ IH]; [constructor|]. cbn [map]. constructor; [|exact IH].
  apply same_table_srel. exact Hst.
Qed.

Lemma labels_corr chT chS : Forall2 same_tableB chT chS ->
  labels_lhs chT = map sid (filter is_plain_kind (collect chS)) /\
  labels_rhs chT = map sid (filter is_member_kind (collect chS)).
Proof.
  intro H. pose proof (collect_rel _ _ (chain_srel _ _ H)) as HC. unfold labels_lhs, labels_rhs. split.
  - apply labels_rel; [exact HC|exact is_plain_kind_rel].
  - apply labels_rel; [exact HC|exact is_member_kind_rel].
Qed.

(* manager/utils.rs class_level_table *)
Lemma class_level_corr chT chS : Forall2 same_tableB chT chS -> Forall2 same_tableB (class_level_t chT) (class_level chS).
Proof.
  induction 1 as [|T S chT chS HTS Hrest IH]; [constructor|].
  destruct Hrest as [|P Q chT' chS' HPQ Hrest']; [cbn [class_level_t class_level]; constructor; [exact HTS|constructor]|].
  cbn [class_level_t class_level].
  assert (E : opt_str_eqb (t_cls P) (t_cls T) = str_eqb (cls Q) (cls S)).
  { destruct HTS as ((_ & HcT) & HnT & _). destruct HPQ as ((_ & HcP) & HnP & _).
    rewrite <- HcT, <- HcP. unfold cls_str. destruct (t_cls P); [|contradiction]. destruct (t_cls T); [|contradiction]. reflexivity. }
  rewrite E. destruct (str_eqb (cls Q) (cls S)); [exact IH|].
  constructor; [exact HTS|]. constructor; assumption.
Qed.

(* ====================================================================================== *)
(* the `uses` loop                                                                        *)
(* ====================================================================================== *)

Lemma other_chain_acyclic ws a j dj : ws_acyclic ws -> nth_error ws j = Some dj ->
  exists path, lineage_t ws j = Ans (false, path) /\ other_chain ws a j = Ans (tables_along ws a path).
Proof.
  intros Hac Hn. destruct (Hac j dj Hn) as (path & Hl). exists path. split; [exact Hl|].
  unfold other_chain, own_chain. destruct (Nat.eqb j a) eqn:E; [apply Nat.eqb_eq in E; subst|]; rewrite Hl; reflexivity.
Qed.

(* the hit comes from the chain of the used entity u *)
Definition uses_hit (ws : wst) (a : nat) (us : list str) (h : table * asym) (p : str * sym) : Prop :=
  exists u j dj path, In u us /\ find_doc ws u = Some (j, dj) /\ lineage_t ws j = Ans (false, path) /\
    hit_at (tables_along ws a path) (class_chain (absws ws) u) h p.

Lemma uses_hit_cons ws a u us h p : uses_hit ws a us h p -> uses_hit ws a (u :: us) h p.
Proof. intros (u' & j & dj & path & Hin & H). exists u', j, dj, path. split; [right; exact Hin|exact H]. Qed.

Lemma uses_corr ws a id : ws_ok ws -> ws_acyclic ws -> forall us,
  match search_uses (absws ws) us id with
  | Some p => exists h, uses_search ws a us id = Ans (Some h) /\ uses_hit ws a us h p
  | None => uses_search ws a us id = Ans None
  end.
Proof.
  intros Hok Hac. induction us as [|u us IH]; [reflexivity|]. cbn [search_uses uses_search].
  assert (IH' : match search_uses (absws ws) us id with
                | Some p => exists h, uses_search ws a us id = Ans (Some h) /\ uses_hit ws a (u :: us) h p
                | None => uses_search ws a us id = Ans None
                end).
  { destruct (search_uses (absws ws) us id) as [p|]; [|exact IH]. destruct IH as (h & H1 & H2). exists h. split; [exact H1|].
    apply uses_hit_cons. exact H2. }
  pose proof (find_doc_corr ws u Hok) as Hc. destruct (find_doc ws u) as [[j dj]|] eqn:Ef.
  - destruct Hc as [Hfe Hn]. rewrite Hfe. destruct (other_chain_acyclic ws a j dj Hac Hn) as (path & Hl & Ho). rewrite Ho.
    pose proof (lookup_corr _ _ id (ws_class_chain_refines ws a u j dj path Hok Ef Hl)) as L.
    destruct (search_wparent (class_chain (absws ws) u) id) as [p|].
    + destruct L as (h & Hlk & Hh). rewrite Hlk. exists h. split; [reflexivity|].
      exists u, j, dj, path. split; [left; reflexivity|]. auto.
    + rewrite L. exact IH'.
  - rewrite Hc. exact IH'.
Qed.

(* ====================================================================================== *)
(* the chain a position inside method number k of document a sees                         *)
(* ====================================================================================== *)

Lemma Forall2_nth {A B} (P : A -> B -> Prop) l l' : Forall2 P l l' -> forall k x, nth_error l k = Some x ->
  exists y, nth_error l' k = Some y /\ P x y.
Proof.
  induction 1 as [|a b l l' Hab _ IH]; intros k x Hk; [destruct k; discriminate|].
  destruct k as [|k]; [inversion Hk; subst; exists b; auto|]. apply (IH k x Hk).
Qed.

Lemma method_uses t k mt : regular t -> nth_error (method_tables_of false t) k = Some mt ->
  t_uses mt = e_uses (entity_of_tree t).
Proof.
  intros Hr Hk. destruct (tables_from_tree t Hr) as (_ & _ & H3). cbv zeta in H3.
  destruct (Forall2_nth _ _ _ H3 k mt Hk) as (me & _ & _ & Hu). exact Hu.
Qed.

Definition tree_chain (ws : wst) (a : nat) (mt : table) (path : list nat) : list table := mt :: tables_along ws a path.
Definition abs_chain_ws (ws : wst) (d : doc) (me : method) : chain := method_table (ent d) me :: class_chain (absws ws) (fst d).

(* the chain [method table; root table; ancestors' root tables ...] of the services is
   Scoping.scope_chain, table by table *)
Theorem ws_scope_chain_refines ws a d k mt : ws_ok ws -> ws_acyclic ws -> distinct_stems ws = true ->
  nth_error ws a = Some d -> nth_error (method_tables_of false (snd d)) k = Some mt ->
  exists me path, nth_error (e_methods (ent d)) k = Some me /\ lineage_t ws a = Ans (false, path) /\
    own_chain ws a = Ans (tables_along ws a path) /\
    (exists rest, tables_along ws a path = root_table_of false (snd d) :: rest) /\
    t_uses mt = e_uses (ent d) /\
    find_entity (absws ws) (fst d) = Some (ent d) /\
    Forall2 same_tableB (tree_chain ws a mt path) (abs_chain_ws ws d me) /\
    (find_method (ent d) (me_name me) = Some me ->
     scope_chain (absws ws) (fst d) (Some (me_name me)) = abs_chain_ws ws d me).
Proof.
  intros Hok Hac Hds Hn Hk. destruct (ws_ok_nth ws a d Hok Hn) as (Hreg & _ & _).
  destruct (method_same (snd d) k mt Hreg Hk) as (me & Hme & Hm). destruct (Hac a d Hn) as (path & Hl).
  pose proof (find_doc_self ws a d Hds Hn) as Hfd.
  pose proof (find_doc_corr ws (fst d) Hok) as Hc. rewrite Hfd in Hc. destruct Hc as [Hfe _].
  exists me, path. split; [exact Hme|]. split; [exact Hl|]. split; [unfold own_chain; rewrite Hl; reflexivity|].
  split.
  { unfold lineage_t in Hl. destruct (walk_prefix ws _ _ _ _ Hl) as (rest & ->). cbn [app]. unfold tables_along.
    cbn [flat_map]. unfold root_of at 1. rewrite Hn, Nat.eqb_refl. cbn [negb app]. eexists. reflexivity. }
  split; [exact (method_uses (snd d) k mt Hreg Hk)|]. split; [exact Hfe|]. split.
  - constructor; [exact Hm|]. apply (ws_class_chain_refines ws a (fst d) a d path Hok Hfd Hl).
  - intro Hfm. unfold scope_chain. rewrite Hfe. fold (ent d). rewrite Hfm. reflexivity.
Qed.

(* the chain the model hands to the look-ups is that chain *)
Lemma full_chain_method ws a d steps mt path :
  nth_error ws a = Some d -> chain_for (snd d) steps = Some [mt; root_table_of false (snd d)] ->
  own_chain ws a = Ans (tables_along ws a path) ->
  (exists rest, tables_along ws a path = root_table_of false (snd d) :: rest) ->
  full_chain ws a (snd d) steps = Ans (tree_chain ws a mt path).
Proof.
  intros Hn Hc Ho (rest & Hr). unfold full_chain, tree_chain. rewrite Hc, Ho, Hr. reflexivity.
Qed.

(* ====================================================================================== *)
(* (c) definition of a plain identifier, with the `uses` loop                             *)
(* ====================================================================================== *)

Definition plain_rel (ws : wst) (a : nat) (chT : list table) (chS : chain) (us : list str)
                     (r : outcome (option (table * asym))) (s : option (str * sym)) : Prop :=
  match s with
  | Some p => exists h, r = Ans (Some h) /\ (hit_at chT chS h p \/ uses_hit ws a us h p)
  | None => r = Ans None
  end.

Theorem ws_plain_refines ws a d k mt id : ws_ok ws -> ws_acyclic ws -> distinct_stems ws = true ->
  nth_error ws a = Some d -> nth_error (method_tables_of false (snd d)) k = Some mt ->
  exists me path, nth_error (e_methods (ent d)) k = Some me /\ lineage_t ws a = Ans (false, path) /\
    (find_method (ent d) (me_name me) = Some me ->
     plain_rel ws a (tree_chain ws a mt path) (scope_chain (absws ws) (fst d) (Some (me_name me))) (e_uses (ent d))
               (wsearch ws a (tree_chain ws a mt path) id)
               (search_w_class (absws ws) (fst d) (Some (me_name me)) true id)).
Proof.
  intros Hok Hac Hds Hn Hk.
  destruct (ws_scope_chain_refines ws a d k mt Hok Hac Hds Hn Hk) as (me & path & Hme & Hl & _ & _ & Hu & Hfe & HF & Hsc).
  exists me, path. split; [exact Hme|]. split; [exact Hl|]. intro Hfm. rewrite (Hsc Hfm).
  unfold plain_rel, search_w_class, wsearch. rewrite (Hsc Hfm).
  pose proof (lookup_corr _ _ id HF) as L. destruct (search_wparent (abs_chain_ws ws d me) id) as [p|].
  - destruct L as (h & Hlk & Hh). rewrite Hlk. exists h. auto.
  - rewrite L. unfold uses_of. rewrite Hfe. unfold tree_chain, uses_of_chain. rewrite Hu.
    pose proof (uses_corr ws a id Hok Hac (e_uses (ent d))) as U.
    destruct (search_uses (absws ws) (e_uses (ent d)) id) as [p|]; [|exact U].
    destruct U as (h & H1 & H2). exists h. auto.
Qed.

(* ====================================================================================== *)
(* (c) all declarations of a name after `<entity>.` / of a declared name                  *)
(* ====================================================================================== *)

Lemma find_doc_from_ci ws n1 n2 : upper n1 = upper n2 -> forall k, find_doc_from k ws n1 = find_doc_from k ws n2.
Proof.
  intro E. induction ws as [|x ws IH]; intro k; [reflexivity|]. cbn [find_doc_from]. unfold ci_eqb. rewrite E, IH. reflexivity.
Qed.

(* generate_right_hand_of_entity / generate_rhs_of_entity choose the chain Scoping.member_chain names *)
Theorem ws_entity_chain_refines ws a d k mt en : ws_ok ws -> ws_acyclic ws -> distinct_stems ws = true ->
  nth_error ws a = Some d -> nth_error (method_tables_of false (snd d)) k = Some mt ->
  exists me path, nth_error (e_methods (ent d)) k = Some me /\ lineage_t ws a = Ans (false, path) /\
    (find_method (ent d) (me_name me) = Some me ->
     let chM := member_chain (absws ws) (fst d) (Some (me_name me)) en in
     match find_doc ws en with
     | None => entity_chain ws a (tree_chain ws a mt path) en = Ans None /\ chM = []
     | Some _ => exists chE, entity_chain ws a (tree_chain ws a mt path) en = Ans (Some chE) /\ Forall2 same_tableB chE chM
     end).
Proof.
  intros Hok Hac Hds Hn Hk.
  destruct (ws_scope_chain_refines ws a d k mt Hok Hac Hds Hn Hk) as (me & path & Hme & Hl & Ho & _ & _ & Hfe & HF & Hsc).
  exists me, path. split; [exact Hme|]. split; [exact Hl|]. intro Hfm. cbv zeta. unfold member_chain, entity_chain.
  pose proof (find_doc_corr ws en Hok) as Hc. destruct (find_doc ws en) as [[j dj]|] eqn:Ef.
  - destruct Hc as [Hfen Hnj]. rewrite Hfen. destruct (Nat.eqb j a) eqn:Eja.
    + apply Nat.eqb_eq in Eja. subst j. rewrite Hn in Hnj. inversion Hnj; subst dj.
      assert (Eci : ci_eqb en (fst d) = true).
      { unfold find_doc in Ef. clear - Ef. revert Ef. generalize 0%nat. induction ws as [|x ws IH]; intros k0 Ef; [discriminate|].
        cbn [find_doc_from] in Ef. destruct (ci_eqb (fst x) en) eqn:E.
        - inversion Ef; subst. unfold ci_eqb in *. apply str_eqb_eq in E. rewrite E. apply str_eqb_refl.
        - apply (IH _ Ef). }
      rewrite Eci. eexists. split; [reflexivity|]. rewrite (Hsc Hfm). apply class_level_corr. exact HF.
    + assert (Eci : ci_eqb en (fst d) = false).
      { destruct (ci_eqb en (fst d)) eqn:E; [|reflexivity]. exfalso. unfold ci_eqb in E. apply str_eqb_eq in E.
        pose proof (find_doc_self ws a d Hds Hn) as Hs. unfold find_doc in *. rewrite (find_doc_from_ci ws en (fst d) E 0) in Ef.
        rewrite Hs in Ef. inversion Ef; subst. rewrite Nat.eqb_refl in Eja. discriminate. }
      rewrite Eci. destruct (other_chain_acyclic ws a j dj Hac Hnj) as (pj & Hlj & Hoj). rewrite Hoj.
      eexists. split; [reflexivity|]. apply (ws_class_chain_refines ws a en j dj pj Hok Ef Hlj).
  - rewrite Hc. auto.
Qed.

(* generate_loc_link_all on corresponding chains: one hit per declaring table, the same declarations *)
Theorem ws_member_refines chT chS id : Forall2 same_tableB chT chS ->
  Forall2 (hit_at chT chS) (lookup_all chT id) (search_all chS id).
Proof. exact (lookup_all_corr chT chS id). Qed.

(* ====================================================================================== *)
(* (d) completion                                                                         *)
(* ====================================================================================== *)

Theorem ws_complete_refines ws a d k mt : ws_ok ws -> ws_acyclic ws -> distinct_stems ws = true ->
  nth_error ws a = Some d -> nth_error (method_tables_of false (snd d)) k = Some mt ->
  exists me path, nth_error (e_methods (ent d)) k = Some me /\ lineage_t ws a = Ans (false, path) /\
    (find_method (ent d) (me_name me) = Some me ->
     labels_lhs (tree_chain ws a mt path) = complete_plain (absws ws) (fst d) (Some (me_name me)) /\
     forall en,
       match entity_chain ws a (tree_chain ws a mt path) en with
       | Ans (Some chE) => labels_rhs chE = completion_member (absws ws) (fst d) (Some (me_name me)) en
       | Ans None => completion_member (absws ws) (fst d) (Some (me_name me)) en = []
       | Outside => False
       end).
Proof.
  intros Hok Hac Hds Hn Hk.
  destruct (ws_scope_chain_refines ws a d k mt Hok Hac Hds Hn Hk) as (me & path & Hme & Hl & _ & _ & _ & _ & HF & Hsc).
  exists me, path. split; [exact Hme|]. split; [exact Hl|]. intro Hfm. split.
  - unfold complete_plain. rewrite (Hsc Hfm). apply (labels_corr _ _ HF).
  - intro en. destruct (ws_entity_chain_refines ws a d k mt en Hok Hac Hds Hn Hk) as (me' & path' & Hme' & Hl' & H).
    rewrite Hme in Hme'. inversion Hme'; subst me'. rewrite Hl in Hl'. inversion Hl'; subst path'.
    specialize (H Hfm). cbv zeta in H. unfold completion_member. destruct (find_doc ws en) as [x|].
    + destruct H as (chE & -> & HFE). apply (labels_corr _ _ HFE).
    + destruct H as (-> & ->). reflexivity.
Qed.

(* ====================================================================================== *)
(* (e) the abstract property theorems, instantiated at map entity_of_tree ws              *)
(* ====================================================================================== *)

(* generate_loc_link_single, written out: the link goes to the file called like the hit's table *)
Lemma wdef_single_eq ws a ch id :
  wdef_single ws a ch (Some id) =
  match wsearch ws a ch id with
  | Outside => Outside
  | Ans None => Ans []
  | Ans (Some h) => Ans (match find_doc ws (cls_str (fst h)) with
                         | Some (_, dt) => [(fst dt, a_sel (snd h), a_range (snd h))]
                         | None => []
                         end)
  end.
Proof.
  unfold wdef_single, target_of. destruct (wsearch ws a ch id) as [|[h|]]; try reflexivity.
  destruct (find_doc ws (cls_str (fst h))) as [[j dt]|]; reflexivity.
Qed.

(* C10_plain on real trees: the declaration the scoping rules make visible (a parameter / local of
   the method, else a member of the class, else of the nearest ancestor, else of a used entity) is
   the declaration the tree-level look-up finds -- the same table of the chain (or of the used
   entity's chain), the same position in it --; the link goes to the file of the declaring entity
   with the selection range of that declaration; nothing visible: no link *)
Theorem ws_plain_visible ws a d k mt id : ws_ok ws -> ws_acyclic ws -> distinct_stems ws = true ->
  nth_error ws a = Some d -> nth_error (method_tables_of false (snd d)) k = Some mt ->
  exists me path, nth_error (e_methods (ent d)) k = Some me /\ lineage_t ws a = Ans (false, path) /\
    (find_method (ent d) (me_name me) = Some me ->
     special (absws ws) id = false -> uses_clean (absws ws) (fst d) id ->
     let chT := tree_chain ws a mt path in
     match visible (absws ws) (fst d) (Some (me_name me)) id with
     | Some (kc, tag) =>
         exists h y, wsearch ws a chT id = Ans (Some h) /\ dtag y = tag /\
           (hit_at chT (scope_chain (absws ws) (fst d) (Some (me_name me))) h (kc, y) \/
            uses_hit ws a (e_uses (ent d)) h (kc, y)) /\
           wdef_single ws a chT (Some id) =
             Ans (match find_doc ws kc with
                  | Some (_, dt) => [(fst dt, a_sel (snd h), a_range (snd h))]
                  | None => []
                  end)
     | None => wsearch ws a chT id = Ans None /\ wdef_single ws a chT (Some id) = Ans []
     end).
Proof.
  intros Hok Hac Hds Hn Hk. destruct (ws_plain_refines ws a d k mt id Hok Hac Hds Hn Hk) as (me & path & Hme & Hl & H).
  exists me, path. split; [exact Hme|]. split; [exact Hl|]. intros Hfm Hsp Hcl. cbv zeta. specialize (H Hfm).
  rewrite <- (resolve_plain_spec (absws ws) (fst d) (Some (me_name me)) id Hsp Hcl). unfold resolve_plain.
  unfold plain_rel in H. rewrite wdef_single_eq.
  destruct (search_w_class (absws ws) (fst d) (Some (me_name me)) true id) as [[kc y]|]; cbn [option_map to_target fst snd].
  - destruct H as (h & Hw & Hh). exists h, y. rewrite Hw. split; [reflexivity|]. split; [reflexivity|]. split; [exact Hh|].
    assert (E : cls_str (fst h) = kc).
    { destruct Hh as [(k0 & S0 & _ & _ & E & _)|(u & j & dj & pj & _ & _ & _ & (k0 & S0 & _ & _ & E & _))]; exact E. }
    rewrite E. reflexivity.
  - rewrite H. auto.
Qed.

Definition target_rel (chT : list table) (chS : chain) (h : table * asym) (t : target) : Prop :=
  exists y, dtag y = snd t /\ hit_at chT chS h (fst t, y).

Lemma Forall2_map_targets chT chS l l' : Forall2 (hit_at chT chS) l l' -> Forall2 (target_rel chT chS) l (map to_target l').
Proof.
  induction 1 as [|h p l l' Hhp _ IH]; [constructor|]. cbn [map]. constructor; [|exact IH].
  exists (snd p). unfold to_target. cbn [fst snd]. split; [reflexivity|]. destruct p; exact Hhp.
Qed.

(* C10_member on real trees: after `<entity>.` (the document's own class: the class-level chain above
   the method's table; another indexed entity: its chain of root tables) the links are the
   declarations members_all lists -- one per declaring ancestor, nearest first --, each the same
   position of the corresponding table *)
Theorem ws_member_all ws a d k mt en id : ws_ok ws -> ws_acyclic ws -> distinct_stems ws = true ->
  nth_error ws a = Some d -> nth_error (method_tables_of false (snd d)) k = Some mt ->
  exists me path, nth_error (e_methods (ent d)) k = Some me /\ lineage_t ws a = Ans (false, path) /\
    (find_method (ent d) (me_name me) = Some me -> special (absws ws) id = false ->
     match entity_chain ws a (tree_chain ws a mt path) en with
     | Ans (Some chE) =>
         Forall2 (target_rel chE (member_chain (absws ws) (fst d) (Some (me_name me)) en))
                 (lookup_all chE id) (members_all (absws ws) en id)
     | Ans None => members_all (absws ws) en id = []
     | Outside => False
     end).
Proof.
  intros Hok Hac Hds Hn Hk. destruct (ws_entity_chain_refines ws a d k mt en Hok Hac Hds Hn Hk) as (me & path & Hme & Hl & H).
  exists me, path. split; [exact Hme|]. split; [exact Hl|]. intros Hfm Hsp. specialize (H Hfm). cbv zeta in H.
  rewrite <- (definition_member_spec (absws ws) (fst d) (Some (me_name me)) en id Hsp). unfold definition_member.
  destruct (find_doc ws en) as [x|].
  - destruct H as (chE & -> & HF). apply Forall2_map_targets. apply lookup_all_corr. exact HF.
  - destruct H as (-> & ->). reflexivity.
Qed.

(* C11_plain on real trees *)
Theorem ws_complete_plain_spec ws a d k mt : ws_ok ws -> ws_acyclic ws -> distinct_stems ws = true ->
  nth_error ws a = Some d -> nth_error (method_tables_of false (snd d)) k = Some mt ->
  exists me path, nth_error (e_methods (ent d)) k = Some me /\ lineage_t ws a = Ans (false, path) /\
    (find_method (ent d) (me_name me) = Some me -> lineage_clean (absws ws) (fst d) ->
     let labels := labels_lhs (tree_chain ws a mt path) in
     let m := Some (me_name me) in
     NoDup (map upper labels) /\
     (forall l, In l labels <->
        (exists v, find_last v_name l (vars_of (absws ws) (fst d) m) = Some v /\ v_name v = l) \/
        (find_last v_name l (vars_of (absws ws) (fst d) m) = None /\
         exists e mem, nearest_member (absws ws) (fst d) l = Some (e, mem) /\ m_name mem = l /\ m_kind mem = MConst))).
Proof.
  intros Hok Hac Hds Hn Hk. destruct (ws_complete_refines ws a d k mt Hok Hac Hds Hn Hk) as (me & path & Hme & Hl & H).
  exists me, path. split; [exact Hme|]. split; [exact Hl|]. intros Hfm Hcl. destruct (H Hfm) as [E _]. cbv zeta. rewrite E.
  apply (complete_plain_spec (absws ws) (fst d) (Some (me_name me)) Hcl).
Qed.

(* C11_after_dot on real trees *)
Theorem ws_complete_after_dot_spec ws a d k mt en : ws_ok ws -> ws_acyclic ws -> distinct_stems ws = true ->
  nth_error ws a = Some d -> nth_error (method_tables_of false (snd d)) k = Some mt ->
  exists me path, nth_error (e_methods (ent d)) k = Some me /\ lineage_t ws a = Ans (false, path) /\
    (find_method (ent d) (me_name me) = Some me ->
     match entity_chain ws a (tree_chain ws a mt path) en with
     | Ans (Some chE) =>
         labels_rhs chE = complete_after_dot (absws ws) en /\
         (lineage_clean (absws ws) en ->
          NoDup (map upper (labels_rhs chE)) /\
          (forall l, In l (labels_rhs chE) <->
             exists e mem, nearest_member (absws ws) en l = Some (e, mem) /\ m_name mem = l /\ is_fpf mem = true))
     | Ans None => complete_after_dot (absws ws) en = []
     | Outside => False
     end).
Proof.
  intros Hok Hac Hds Hn Hk. destruct (ws_complete_refines ws a d k mt Hok Hac Hds Hn Hk) as (me & path & Hme & Hl & H).
  exists me, path. split; [exact Hme|]. split; [exact Hl|]. intro Hfm. destruct (H Hfm) as [_ E]. specialize (E en).
  rewrite (completion_member_spec (absws ws) (fst d) (Some (me_name me)) en) in E.
  destruct (entity_chain ws a (tree_chain ws a mt path) en) as [|[chE|]]; [exact E| |exact E].
  split; [exact E|]. intro Hcl. rewrite E. apply (complete_after_dot_spec (absws ws) en Hcl).
Qed.

(* ====================================================================================== *)
(* where wdefinition / wcompletion take which branch                                      *)
(* ====================================================================================== *)

(* a plain identifier (not under a dot, not a declared name): the look-up on the full chain, then `uses` *)
Theorem wdefinition_plain_case ws a stem t p idx enc pi q up full :
  distinct_stems ws = true -> nth_error ws a = Some (stem, t) -> flat_methods t = true ->
  full_chain ws a t (descend p t) = Ans full -> path_up p t = (idx, enc) :: (pi, q) :: up ->
  is_dot q = false -> (is_method_node q && Nat.eqb idx 0) = false -> is_member_decl enc = false ->
  wdefinition ws a p = wdef_single ws a full (get_id enc p).
Proof.
  intros H0 H1 H2 H3 H4 H5 H6 H7. unfold wdefinition. rewrite H0, H1. cbn [negb]. rewrite H2. cbn [negb].
  rewrite H3, H4, H5, H6, H7. reflexivity.
Qed.

(* the name after `self.` / `<own header name>.` inside a method *)
Theorem wdefinition_member_case ws a stem t p i enc pi q up full lft en :
  distinct_stems ws = true -> nth_error ws a = Some (stem, t) -> flat_methods t = true ->
  full_chain ws a t (descend p t) = Ans full -> path_up p t = (S i, enc) :: (pi, q) :: up ->
  is_dot q = true -> first_child q = Some lft -> own_entity t lft = Some en -> in_method (descend p t) = true ->
  wdefinition ws a p =
  match entity_chain ws a full en with
  | Outside => Outside
  | Ans None => Ans []
  | Ans (Some ch) => Ans (wdef_all ws ch (get_id enc p))
  end.
Proof.
  intros H0 H1 H2 H3 H4 H5 H6 H7 H8. unfold wdefinition. rewrite H0, H1. cbn [negb]. rewrite H2. cbn [negb].
  rewrite H3, H4, H5. unfold wdef_rhs. rewrite H6, H7, H8. reflexivity.
Qed.

(* the declared name of a method / of a field, constant or type *)
Theorem wdefinition_declared_name_case ws a stem t p idx enc pi q up full :
  distinct_stems ws = true -> nth_error ws a = Some (stem, t) -> flat_methods t = true ->
  full_chain ws a t (descend p t) = Ans full -> path_up p t = (idx, enc) :: (pi, q) :: up -> is_dot q = false ->
  (is_method_node q = true -> idx = O -> wdefinition ws a p = Ans (wdef_all ws (class_level_t full) (get_id enc p))) /\
  ((is_method_node q && Nat.eqb idx 0) = false -> is_member_decl enc = true ->
     wdefinition ws a p = Ans (wdef_all ws full (get_id enc p))).
Proof.
  intros H0 H1 H2 H3 H4 H5. split.
  - intros Hm ->. unfold wdefinition. rewrite H0, H1. cbn [negb]. rewrite H2. cbn [negb]. rewrite H3, H4, H5, Hm. reflexivity.
  - intros Hm He. unfold wdefinition. rewrite H0, H1. cbn [negb]. rewrite H2. cbn [negb]. rewrite H3, H4, H5, Hm, He. reflexivity.
Qed.

Theorem wcompletion_plain_case ws a stem t p idx enc pi q up full :
  distinct_stems ws = true -> nth_error ws a = Some (stem, t) -> flat_methods t = true ->
  full_chain ws a t (descend p t) = Ans full -> path_up p t = (idx, enc) :: (pi, q) :: up ->
  is_dot enc = false -> is_dot q = false ->
  wcompletion ws a p = Ans (labels_lhs full).
Proof.
  intros H0 H1 H2 H3 H4 H5 H6. unfold wcompletion. rewrite H0, H1. cbn [negb]. rewrite H2. cbn [negb].
  rewrite H3, H4, H5, H6. reflexivity.
Qed.

Theorem wcompletion_member_case ws a stem t p i enc pi q up full lft en :
  distinct_stems ws = true -> nth_error ws a = Some (stem, t) -> flat_methods t = true ->
  full_chain ws a t (descend p t) = Ans full -> path_up p t = (S i, enc) :: (pi, q) :: up ->
  is_dot enc = false -> is_dot q = true -> first_child q = Some lft -> own_entity t lft = Some en ->
  in_method (descend p t) = true ->
  wcompletion ws a p =
  match entity_chain ws a full en with
  | Outside => Outside
  | Ans None => Ans []
  | Ans (Some ch) => Ans (labels_rhs ch)
  end.
Proof.
  intros H0 H1 H2 H3 H4 H5 H6 H7 H8 H9. unfold wcompletion. rewrite H0, H1. cbn [negb]. rewrite H2. cbn [negb].
  rewrite H3, H4, H5, H6. unfold wcompl_rhs. rewrite H7, H8, H9. reflexivity.
Qed.

(* ====================================================================================== *)
(* the hypotheses are decidable                                                           *)
(* ====================================================================================== *)

Definition module_plainb (t : node) : bool :=
  forallb (fun h => is_kind KAstClass h || match attr_tok K_parent h with None => true | Some _ => false end) (nchildren t).

Definition doc_okb (d : doc) : bool :=
  regularb (snd d) && ci_eqb (fst d) (e_name (ent d)) && module_plainb (snd d).

Definition ws_okb (ws : wst) : bool := forallb doc_okb ws.

Definition ws_acyclicb (ws : wst) : bool :=
  forallb (fun j => match lineage_t ws j with Ans (false, _) => true | _ => false end) (seq 0 (length ws)).

Lemma module_plainb_ok t : module_plainb t = true -> module_plain t.
Proof.
  unfold module_plainb, module_plain. intros H h Hin Hk. rewrite forallb_forall in H. specialize (H h Hin).
  rewrite Hk in H. cbn [orb] in H. destruct (attr_tok K_parent h); [discriminate|reflexivity].
Qed.

Theorem ws_okb_ok ws : ws_okb ws = true -> ws_ok ws.
Proof.
  unfold ws_okb, ws_ok. intro H. rewrite forallb_forall in H. apply Forall_forall. intros d Hd. specialize (H d Hd).
  unfold doc_okb in H. apply andb_true_iff in H. destruct H as [H H3]. apply andb_true_iff in H. destruct H as [H1 H2].
  split; [apply regularb_ok; exact H1|]. split; [exact H2|apply module_plainb_ok; exact H3].
Qed.

Theorem ws_acyclicb_ok ws : ws_acyclicb ws = true -> ws_acyclic ws.
Proof.
  unfold ws_acyclicb, ws_acyclic. intros H j d Hn. rewrite forallb_forall in H.
  assert (Hj : In j (seq 0 (length ws))).
  { apply in_seq. assert ((j < length ws)%nat) by (apply nth_error_Some; rewrite Hn; discriminate). lia. }
  specialize (H j Hj). destruct (lineage_t ws j) as [|[[|] path]]; try discriminate. exists path. reflexivity.
Qed.

(* ====================================================================================== *)
(* a typed operand before the dot (typed_entity)                                          *)
(* ====================================================================================== *)

Theorem wdefinition_typed_member_case ws a stem t p i enc pi q up full lft :
  distinct_stems ws = true -> nth_error ws a = Some (stem, t) -> flat_methods t = true ->
  full_chain ws a t (descend p t) = Ans full -> path_up p t = (S i, enc) :: (pi, q) :: up ->
  is_dot q = true -> first_child q = Some lft -> own_entity t lft = None ->
  wdefinition ws a p =
  match typed_entity ws a t (descend p t) lft with
  | Outside => Outside
  | Ans None => Ans []
  | Ans (Some en) =>
      match entity_chain ws a full en with
      | Outside => Outside
      | Ans None => Ans []
      | Ans (Some ch) => Ans (wdef_all ws ch (get_id enc p))
      end
  end.
Proof.
  intros H0 H1 H2 H3 H4 H5 H6 H7. unfold wdefinition. rewrite H0, H1. cbn [negb]. rewrite H2. cbn [negb].
  rewrite H3, H4, H5. unfold wdef_rhs. rewrite H6, H7. reflexivity.
Qed.

Theorem wcompletion_typed_member_case ws a stem t p i enc pi q up full lft :
  distinct_stems ws = true -> nth_error ws a = Some (stem, t) -> flat_methods t = true ->
  full_chain ws a t (descend p t) = Ans full -> path_up p t = (S i, enc) :: (pi, q) :: up ->
  is_dot enc = false -> is_dot q = true -> first_child q = Some lft -> own_entity t lft = None ->
  wcompletion ws a p =
  match typed_entity ws a t (descend p t) lft with
  | Outside => Outside
  | Ans None => Ans []
  | Ans (Some en) =>
      match entity_chain ws a full en with
      | Outside => Outside
      | Ans None => Ans []
      | Ans (Some ch) => Ans (labels_rhs ch)
      end
  end.
Proof.
  intros H0 H1 H2 H3 H4 H5 H6 H7 H8. unfold wcompletion. rewrite H0, H1. cbn [negb]. rewrite H2. cbn [negb].
  rewrite H3, H4, H5, H6. unfold wcompl_rhs. rewrite H7, H8. reflexivity.
Qed.
