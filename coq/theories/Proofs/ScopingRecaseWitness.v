(* A workspace written twice: declarations identical, every stored reference (parent class, `uses`,
   declared type names incl. the alias tRef : refto aLeaf, the alias tLib of a used class, listof)
   in another letter case.  Non-vacuity of the ws_sim theorems of ScopingRecase.v; the same pair
   of workspaces is run against /repo by the metamorphic stage of checks/c10.py and c11.py. *)
From GoldV Require Import Base SymTab Scoping ScopingProofs ScopingRecase.

Definition r_AbASE : str := [65; 98; 65; 83; 69].
Definition r_AlEAF : str := [65; 108; 69; 65; 70].
Definition r_AlIB : str := [65; 108; 73; 66].
Definition r_Fb : str := [70; 98].
Definition r_Ga : str := [71; 97].
Definition r_Go : str := [71; 111].
Definition r_INT4 : str := [73; 78; 84; 52].
Definition r_Items : str := [73; 116; 101; 109; 115].
Definition r_LINK : str := [76; 73; 78; 75].
Definition r_Link : str := [76; 105; 110; 107].
Definition r_Run : str := [82; 117; 110].
Definition r_TlIB : str := [84; 108; 73; 66].
Definition r_TrEF : str := [84; 114; 69; 70].
Definition r_Val : str := [86; 97; 108].
Definition r_aBase : str := [97; 66; 97; 115; 101].
Definition r_aLeaf : str := [97; 76; 101; 97; 102].
Definition r_aLib : str := [97; 76; 105; 98].
Definition r_fb : str := [102; 98].
Definition r_ga : str := [103; 97].
Definition r_int4 : str := [105; 110; 116; 52].
Definition r_l : str := [108].
Definition r_p : str := [112].
Definition r_tLib : str := [116; 76; 105; 98].
Definition r_tRef : str := [116; 82; 101; 102].
Definition r_x : str := [120].

Definition w_alias : workspace :=
  [ mkEntity r_aBase EClass None []
      [mkMember MType r_tRef (TRefTo r_aLeaf) 1; mkMember MField r_Link (TName r_tRef) 2; mkMember MField r_Items (TListOf r_aLeaf) 3; mkMember MFunc r_Ga (TName r_aBase) 4; mkMember MProc r_Run (TNone) 5]
      [mkMethod r_Ga [] []; mkMethod r_Run [] []];
    mkEntity r_aLeaf EClass (Some r_aBase) [r_aLib]
      [mkMember MField r_Fb (TName r_int4) 1; mkMember MProc r_Go (TNone) 2]
      [mkMethod r_Go [mkVar r_p (TName r_tLib) 3] [mkVar r_x (TName r_tRef) 4; mkVar r_l (TRefTo r_aLeaf) 5]];
    mkEntity r_aLib EClass None []
      [mkMember MType r_tLib (TName r_aBase) 1]
      [] ].

Definition w_alias_recased : workspace :=
  [ mkEntity r_aBase EClass None []
      [mkMember MType r_tRef (TRefTo r_AlEAF) 1; mkMember MField r_Link (TName r_TrEF) 2; mkMember MField r_Items (TListOf r_AlEAF) 3; mkMember MFunc r_Ga (TName r_AbASE) 4; mkMember MProc r_Run (TNone) 5]
      [mkMethod r_Ga [] []; mkMethod r_Run [] []];
    mkEntity r_aLeaf EClass (Some r_AbASE) [r_AlIB]
      [mkMember MField r_Fb (TName r_INT4) 1; mkMember MProc r_Go (TNone) 2]
      [mkMethod r_Go [mkVar r_p (TName r_TlIB) 3] [mkVar r_x (TName r_TrEF) 4; mkVar r_l (TRefTo r_AlEAF) 5]];
    mkEntity r_aLib EClass None []
      [mkMember MType r_tLib (TName r_AbASE) 1]
      [] ].

Lemma w_alias_sim : ws_sim w_alias w_alias_recased.
Proof.
  unfold ws_sim, w_alias, w_alias_recased.
  repeat first [ exact I | reflexivity | (vm_compute; reflexivity) | constructor ].
Qed.

Lemma w_alias_differ : w_alias <> w_alias_recased.
Proof. intro H. vm_compute in H. discriminate. Qed.

Definition in_go : option str := Some r_Go.

(* inside aLeaf.Go(p : tLib) with `var x : tRef`, `var l : refto aLeaf`:
   x.Link (alias of refto, inherited field typed by the alias), p.Ga() (alias of a used entity,
   then a function), l.Items (listof) *)
Lemma w_alias_answers :
  static_class w_alias r_aLeaf in_go [IId r_x; IId r_Link] = Some (SClass r_aLeaf) /\
  static_class w_alias_recased r_aLeaf in_go [IId r_x; IId r_Link] = Some (SClass r_AlEAF) /\
  definition_dotted w_alias r_aLeaf in_go [IId r_x; IId r_Link] r_fb = [(r_aLeaf, 1)] /\
  definition_dotted w_alias_recased r_aLeaf in_go [IId r_x; IId r_Link] r_fb = [(r_aLeaf, 1)] /\
  static_class w_alias r_aLeaf in_go [IId r_p; ICall r_ga] = Some (SClass r_aBase) /\
  completion_dotted w_alias_recased r_aLeaf in_go [IId r_p; ICall r_ga] = [r_Link; r_Items; r_Ga; r_Run] /\
  static_class w_alias_recased r_aLeaf in_go [IId r_l; IId r_Items] = Some (SClass s_list_of_instances) /\
  resolve_plain w_alias_recased r_aLeaf in_go r_tLib = Some (r_aLib, 1) /\
  resolve_member w_alias_recased r_aLeaf r_LINK = [(r_aBase, 2)] /\
  complete_after_dot w_alias_recased r_aLeaf = [r_Fb; r_Go; r_Link; r_Items; r_Ga; r_Run].
Proof. vm_compute. repeat split; reflexivity. Qed.
