(* Non-vacuity witnesses for Proofs/HierTreeProofs.v: a 3-class workspace whose trees are REAL dumps
   (tools/dump2coq.py: text -> real lexer + parser -> harness/src/treedump.rs -> Gallina). *)
From GoldV Require Import Base Tokens Lexer AstKinds Tree Encase SymTab Scoping Annot DefTree
                          RangeBase RangeRel RangeTop AnnotProofs DefTreeProofs HierTree HierTreeProofs.
From GoldV Require Forest ParentGraph ForestProofs.
From Coq Require Import Permutation Relations Lia Ascii.
From Coq Require String.
Import String.StringSyntax.

(* real parser, text: 'class aKa\n\nFld : int4\n\nproc Foo(p1 : int4)\n   ; body\nendproc\n' *)
Definition ht_ka : node :=
  Node KAstRoot [] 0 (mkRange (mkPos 0 0) (mkPos 0 0)) [] [
    Node KAstClass [97;75;97] 0 (mkRange (mkPos 0 0) (mkPos 0 9)) [(1, AT (mkTok 6 (mkRange (mkPos 0 6) (mkPos 0 9)) TIdentifier [97;75;97])); (2, AL [])] [];
    Node KAstGlobalVariableDeclaration [70;108;100] 11 (mkRange (mkPos 2 0) (mkPos 2 10)) [(1, AT (mkTok 11 (mkRange (mkPos 2 0) (mkPos 2 3)) TIdentifier [70;108;100])); (6, AN 0)] [
      Node KAstTypeBasic [105;110;116;52] 17 (mkRange (mkPos 2 6) (mkPos 2 10)) [(0, AT (mkTok 17 (mkRange (mkPos 2 6) (mkPos 2 10)) TIdentifier [105;110;116;52]))] []];
    Node KAstProcedure [70;111;111] 23 (mkRange (mkPos 4 0) (mkPos 6 7)) [(5, AL [(mkTok 53 (mkRange (mkPos 6 0) (mkPos 6 7)) TEndProc [101;110;100;112;114;111;99])]); (6, AN 0)] [
      Node KAstTerminal [70;111;111] 28 (mkRange (mkPos 4 5) (mkPos 4 8)) [(0, AT (mkTok 28 (mkRange (mkPos 4 5) (mkPos 4 8)) TIdentifier [70;111;111]))] [];
      Node KAstParameterDeclarationList [112;97;114;97;109;95;100;101;99;108;115] 31 (mkRange (mkPos 4 8) (mkPos 4 19)) [] [
        Node KAstParameterDeclaration [112;49] 32 (mkRange (mkPos 4 9) (mkPos 4 18)) [(1, AT (mkTok 32 (mkRange (mkPos 4 9) (mkPos 4 11)) TIdentifier [112;49])); (7, AL [])] [
          Node KAstTypeBasic [105;110;116;52] 37 (mkRange (mkPos 4 14) (mkPos 4 18)) [(0, AT (mkTok 37 (mkRange (mkPos 4 14) (mkPos 4 18)) TIdentifier [105;110;116;52]))] []]];
      Node KAstMethodBody [109;101;116;104;111;100;95;98;111;100;121] 46 (mkRange (mkPos 5 3) (mkPos 5 8)) [] [
        Node KAstComment [99;111;109;109;101;110;116] 46 (mkRange (mkPos 5 3) (mkPos 5 8)) [(9, AS [32;98;111;100;121])] []]]].

(* real parser, text: 'class aKb (AKA)\n\nfld : int4\n\nproc Foo(p1 : int4) override\n   Fld = p1\nendproc\n' *)
Definition ht_kb : node :=
  Node KAstRoot [] 0 (mkRange (mkPos 0 0) (mkPos 0 0)) [] [
    Node KAstClass [97;75;98] 0 (mkRange (mkPos 0 0) (mkPos 0 15)) [(1, AT (mkTok 6 (mkRange (mkPos 0 6) (mkPos 0 9)) TIdentifier [97;75;98])); (2, AL [(mkTok 11 (mkRange (mkPos 0 11) (mkPos 0 14)) TIdentifier [65;75;65])])] [];
    Node KAstGlobalVariableDeclaration [102;108;100] 17 (mkRange (mkPos 2 0) (mkPos 2 10)) [(1, AT (mkTok 17 (mkRange (mkPos 2 0) (mkPos 2 3)) TIdentifier [102;108;100])); (6, AN 0)] [
      Node KAstTypeBasic [105;110;116;52] 23 (mkRange (mkPos 2 6) (mkPos 2 10)) [(0, AT (mkTok 23 (mkRange (mkPos 2 6) (mkPos 2 10)) TIdentifier [105;110;116;52]))] []];
    Node KAstProcedure [70;111;111] 29 (mkRange (mkPos 4 0) (mkPos 6 7)) [(5, AL [(mkTok 70 (mkRange (mkPos 6 0) (mkPos 6 7)) TEndProc [101;110;100;112;114;111;99])]); (6, AN 8)] [
      Node KAstTerminal [70;111;111] 34 (mkRange (mkPos 4 5) (mkPos 4 8)) [(0, AT (mkTok 34 (mkRange (mkPos 4 5) (mkPos 4 8)) TIdentifier [70;111;111]))] [];
      Node KAstParameterDeclarationList [112;97;114;97;109;95;100;101;99;108;115] 37 (mkRange (mkPos 4 8) (mkPos 4 19)) [] [
        Node KAstParameterDeclaration [112;49] 38 (mkRange (mkPos 4 9) (mkPos 4 18)) [(1, AT (mkTok 38 (mkRange (mkPos 4 9) (mkPos 4 11)) TIdentifier [112;49])); (7, AL [])] [
          Node KAstTypeBasic [105;110;116;52] 43 (mkRange (mkPos 4 14) (mkPos 4 18)) [(0, AT (mkTok 43 (mkRange (mkPos 4 14) (mkPos 4 18)) TIdentifier [105;110;116;52]))] []]];
      Node KAstMethodBody [109;101;116;104;111;100;95;98;111;100;121] 61 (mkRange (mkPos 5 3) (mkPos 5 11)) [] [
        Node KAstBinaryOp [61] 61 (mkRange (mkPos 5 3) (mkPos 5 11)) [(4, AT (mkTok 65 (mkRange (mkPos 5 7) (mkPos 5 8)) TEquals [61]))] [
          Node KAstTerminal [70;108;100] 61 (mkRange (mkPos 5 3) (mkPos 5 6)) [(0, AT (mkTok 61 (mkRange (mkPos 5 3) (mkPos 5 6)) TIdentifier [70;108;100]))] [];
          Node KAstTerminal [112;49] 67 (mkRange (mkPos 5 9) (mkPos 5 11)) [(0, AT (mkTok 67 (mkRange (mkPos 5 9) (mkPos 5 11)) TIdentifier [112;49]))] []]]]].

(* real parser, text: 'class aKc (aKb)\n\nfunc Calc(p1 : int4) return int4\n   ; body\nendfunc\n\nproc foo(p1 : int4) override\nendproc\n' *)
Definition ht_kc : node :=
  Node KAstRoot [] 0 (mkRange (mkPos 0 0) (mkPos 0 0)) [] [
    Node KAstClass [97;75;99] 0 (mkRange (mkPos 0 0) (mkPos 0 15)) [(1, AT (mkTok 6 (mkRange (mkPos 0 6) (mkPos 0 9)) TIdentifier [97;75;99])); (2, AL [(mkTok 11 (mkRange (mkPos 0 11) (mkPos 0 14)) TIdentifier [97;75;98])])] [];
    Node KAstFunction [67;97;108;99] 17 (mkRange (mkPos 2 0) (mkPos 4 7)) [(5, AL [(mkTok 60 (mkRange (mkPos 4 0) (mkPos 4 7)) TEndFunc [101;110;100;102;117;110;99])]); (6, AN 0)] [
      Node KAstTerminal [67;97;108;99] 22 (mkRange (mkPos 2 5) (mkPos 2 9)) [(0, AT (mkTok 22 (mkRange (mkPos 2 5) (mkPos 2 9)) TIdentifier [67;97;108;99]))] [];
      Node KAstTypeBasic [105;110;116;52] 45 (mkRange (mkPos 2 28) (mkPos 2 32)) [(0, AT (mkTok 45 (mkRange (mkPos 2 28) (mkPos 2 32)) TIdentifier [105;110;116;52]))] [];
      Node KAstParameterDeclarationList [112;97;114;97;109;95;100;101;99;108;115] 26 (mkRange (mkPos 2 9) (mkPos 2 20)) [] [
        Node KAstParameterDeclaration [112;49] 27 (mkRange (mkPos 2 10) (mkPos 2 19)) [(1, AT (mkTok 27 (mkRange (mkPos 2 10) (mkPos 2 12)) TIdentifier [112;49])); (7, AL [])] [
          Node KAstTypeBasic [105;110;116;52] 32 (mkRange (mkPos 2 15) (mkPos 2 19)) [(0, AT (mkTok 32 (mkRange (mkPos 2 15) (mkPos 2 19)) TIdentifier [105;110;116;52]))] []]];
      Node KAstMethodBody [109;101;116;104;111;100;95;98;111;100;121] 53 (mkRange (mkPos 3 3) (mkPos 3 8)) [] [
        Node KAstComment [99;111;109;109;101;110;116] 53 (mkRange (mkPos 3 3) (mkPos 3 8)) [(9, AS [32;98;111;100;121])] []]];
    Node KAstProcedure [102;111;111] 69 (mkRange (mkPos 6 0) (mkPos 7 7)) [(5, AL [(mkTok 98 (mkRange (mkPos 7 0) (mkPos 7 7)) TEndProc [101;110;100;112;114;111;99])]); (6, AN 8)] [
      Node KAstTerminal [102;111;111] 74 (mkRange (mkPos 6 5) (mkPos 6 8)) [(0, AT (mkTok 74 (mkRange (mkPos 6 5) (mkPos 6 8)) TIdentifier [102;111;111]))] [];
      Node KAstParameterDeclarationList [112;97;114;97;109;95;100;101;99;108;115] 77 (mkRange (mkPos 6 8) (mkPos 6 19)) [] [
        Node KAstParameterDeclaration [112;49] 78 (mkRange (mkPos 6 9) (mkPos 6 18)) [(1, AT (mkTok 78 (mkRange (mkPos 6 9) (mkPos 6 11)) TIdentifier [112;49])); (7, AL [])] [
          Node KAstTypeBasic [105;110;116;52] 83 (mkRange (mkPos 6 14) (mkPos 6 18)) [(0, AT (mkTok 83 (mkRange (mkPos 6 14) (mkPos 6 18)) TIdentifier [105;110;116;52]))] []]];
      Node KAstMethodBody [109;101;116;104;111;100;95;98;111;100;121] 89 (mkRange (mkPos 6 20) (mkPos 6 28)) [] []]].

Fixpoint s2l (s : String.string) : str :=
  match s with
  | String.EmptyString => []
  | String.String a r => N.of_nat (nat_of_ascii a) :: s2l r
  end.
Arguments s2l _%string_scope.
Notation "# s" := (s2l s) (at level 1, format "# s").

Definition ht_ws : wsT := [ (#"aKa", ht_ka); (#"aKb", ht_kb); (#"aKc", ht_kc) ].

Local Open Scope nat_scope.

Example ht_ws_regular : Forall (fun d => regular (snd d)) ht_ws.
Proof. repeat constructor; apply regularb_ok; vm_compute; reflexivity. Qed.

Lemma ht_files : files_of_ws ht_ws = [ (#"aKa", None); (#"aKb", Some #"AKA"); (#"aKc", Some #"aKb") ].
Proof. vm_compute. reflexivity. Qed.

Lemma rank_forest fs (rank : str -> nat) :
  NoDup (map ForestProofs.ckey fs) -> (forall a b, ForestProofs.R fs a b -> rank b < rank a) -> ForestProofs.Forest fs.
Proof.
  intros Hnd Hr. split; [exact Hnd|].
  assert (H : forall a b, clos_trans str (ForestProofs.R fs) a b -> rank b < rank a).
  { intros a b Hc. induction Hc; [auto | lia]. }
  intros k Hk. specialize (H k k Hk). lia.
Qed.

Definition ht_rank (k : str) : nat := if str_eqb k #"AKA" then 0 else if str_eqb k #"AKB" then 1 else 2.

(* the hypotheses of the C13_*_tree theorems are satisfiable by real trees *)
Example ht_ws_hypotheses : ws_forest ht_ws /\ length ht_ws <= 5000 /\ named_by_stem ht_ws.
Proof.
  split; [|split; [cbn; lia|]].
  - unfold ws_forest. rewrite ht_files. apply rank_forest with ht_rank.
    + vm_compute. repeat constructor; cbn; intuition discriminate.
    + intros a b [c [pn [Hin [<- <-]]]]. cbn [In] in Hin.
      repeat (destruct Hin as [Hin|Hin]; [inversion Hin; subst; vm_compute; lia|]). contradiction.
  - intros d c p Hd He. cbn [ht_ws In] in Hd.
    repeat (destruct Hd as [Hd|Hd]; [subst d; vm_compute in He; inversion He; subst; vm_compute; reflexivity|]). contradiction.
Qed.

(* what the code derives from the three trees: class name, parent reference as written, the names of the root table *)
Example ht_ws_input :
  forest_input_of_ws ht_ws =
  [ (#"aKa", None, [#"aKa"; #"self"; #"Fld"; #"Foo"]);
    (#"aKb", Some #"AKA", [#"aKb"; #"self"; #"fld"; #"Foo"]);
    (#"aKc", Some #"aKb", [#"aKc"; #"self"; #"Calc"; #"foo"]) ].
Proof. vm_compute. reflexivity. Qed.

Definition names_stems (o : outcome res) : list (str * str) :=
  match o with Ans (ROk l) => map (fun it => (i_name it, i_uri it)) l | _ => [(#"?", #"?")] end.

Definition r0 : range := mkRange (mkPos 0 0) (mkPos 0 0).

(* the answers on that workspace: classes through the re-cased parent reference, members through the
   class without the member (aKc.foo -> aKb.Foo; aKa.Fld -> aKb.fld), and they are not empty *)
Example ht_ws_answers :
  Forest.supertypes (class_tree ht_ws) #"akb" = [#"AKA"] /\
  Forest.subtypes (class_tree ht_ws) #"AKA" = [#"AKB"] /\
  names_stems (supertypes_of ht_ws (class_tree ht_ws) (mkItem #"aKc" IClass #"aKc" r0 r0)) = [(#"aKb", #"aKb")] /\
  names_stems (subtypes_of ht_ws (class_tree ht_ws) (mkItem #"aKa" IClass #"aKa" r0 r0)) = [(#"aKb", #"aKb")] /\
  names_stems (supertypes_of ht_ws (class_tree ht_ws) (mkItem #"foo" IFunc #"aKc" r0 r0)) = [(#"Foo", #"aKb")] /\
  names_stems (subtypes_of ht_ws (class_tree ht_ws) (mkItem #"Foo" IFunc #"aKa" r0 r0)) = [(#"Foo", #"aKb")] /\
  names_stems (subtypes_of ht_ws (class_tree ht_ws) (mkItem #"FLD" IField #"aKa" r0 r0)) = [(#"fld", #"aKb")] /\
  names_stems (supertypes_of ht_ws (class_tree ht_ws) (mkItem #"Calc" IFunc #"aKc" r0 r0)) = [].
Proof. repeat split; vm_compute; reflexivity. Qed.

(* prepare on the class name of aKb's header (0:7), on the field's name (2:1), on the name of aKc's method foo (6:6) *)
Example ht_ws_prepare :
  prepare ht_ws (#"aKb", ht_kb) (mkPos 0 7) =
    Ans (ROk [mkItem #"aKb" IClass #"aKb" (mkRange (mkPos 0 6) (mkPos 0 9)) (mkRange (mkPos 0 0) (mkPos 0 15))]) /\
  prepare ht_ws (#"aKb", ht_kb) (mkPos 2 1) =
    Ans (ROk [mkItem #"fld" IField #"aKb" (mkRange (mkPos 2 0) (mkPos 2 3)) (mkRange (mkPos 2 0) (mkPos 2 10))]) /\
  prepare ht_ws (#"aKc", ht_kc) (mkPos 6 6) =
    Ans (ROk [mkItem #"foo" IFunc #"aKc" (mkRange (mkPos 6 5) (mkPos 6 8)) (mkRange (mkPos 6 0) (mkPos 7 7))]).
Proof. repeat split; vm_compute; reflexivity. Qed.

(* the hypotheses of hier_prepare_char_class / _field / _method hold at those positions *)
Example ht_prepare_char_hypotheses :
  (exists i h, regular ht_kb /\ flat_methods ht_kb = true /\ is_dot ht_kb = false /\
     find is_header (nchildren ht_kb) = Some h /\ is_kind KAstClass h = true /\ at_top_child ht_kb (mkPos 0 7) i h /\
     find_in (root_table_of false ht_kb) (nident h) = Some (decl_sym h)) /\
  (exists i c h d', find is_header (nchildren ht_kb) = Some h /\ is_kind KAstGlobalVariableDeclaration c = true /\
     at_top_child ht_kb (mkPos 2 1) i c /\ find_in (root_table_of false ht_kb) (nident c) = Some (decl_sym c) /\
     doc_of ht_ws (upper (nident h)) = Some d') /\
  (exists i m j nm h mt d', regular ht_kc /\ flat_methods ht_kc = true /\ find is_header (nchildren ht_kc) = Some h /\
     descend (mkPos 6 6) ht_kc = [(i, m); (j, nm)] /\ is_method_node m = true /\ is_dot m = false /\
     nth_error (method_tables_of false ht_kc) (length (filter is_method_node (firstn i (nchildren ht_kc)))) = Some mt /\
     find_in mt (nident nm) = None /\ find_in (root_table_of false ht_kc) (nident nm) = Some (decl_sym m) /\
     doc_of ht_ws (upper (nident h)) = Some d').
Proof.
  split; [|split].
  - eexists 0, _. split; [apply regularb_ok; vm_compute; reflexivity|]. repeat split; vm_compute; reflexivity.
  - eexists 1, _, _, _. repeat split; vm_compute; reflexivity.
  - eexists 2, _, 0, _, _, _, _. split; [apply regularb_ok; vm_compute; reflexivity|]. repeat split; vm_compute; reflexivity.
Qed.

(* the ranges of the three real trees are well formed (C08's predicate), so hier_item_ranges applies in full *)
Example ht_item_ranges_inside :
  forall it, prepare ht_ws (#"aKb", ht_kb) (mkPos 0 7) = Ans (ROk [it]) -> inside (i_sel it) (i_range it).
Proof.
  intros it H. rewrite (proj1 ht_ws_prepare) in H. inversion H; subst it. cbn [i_sel i_range].
  unfold inside, pos_le. cbn. lia.
Qed.

(* ---------- the regression of 6242e0e: a class referred to from another file ---------- *)
Local Open Scope N_scope.
(* real parser, text: '; c1\n; c2\nclass aKa\n\nFld : int4\n' *)
Definition hx_decl : node :=
  Node KAstRoot [] 0 (mkRange (mkPos 0 0) (mkPos 0 0)) [] [
    Node KAstComment [99;111;109;109;101;110;116] 0 (mkRange (mkPos 0 0) (mkPos 0 3)) [(9, AS [32;99;49])] [];
    Node KAstComment [99;111;109;109;101;110;116] 5 (mkRange (mkPos 1 0) (mkPos 1 3)) [(9, AS [32;99;50])] [];
    Node KAstClass [97;75;97] 10 (mkRange (mkPos 2 0) (mkPos 2 9)) [(1, AT (mkTok 16 (mkRange (mkPos 2 6) (mkPos 2 9)) TIdentifier [97;75;97])); (2, AL [])] [];
    Node KAstGlobalVariableDeclaration [70;108;100] 21 (mkRange (mkPos 4 0) (mkPos 4 10)) [(1, AT (mkTok 21 (mkRange (mkPos 4 0) (mkPos 4 3)) TIdentifier [70;108;100])); (6, AN 0)] [
      Node KAstTypeBasic [105;110;116;52] 27 (mkRange (mkPos 4 6) (mkPos 4 10)) [(0, AT (mkTok 27 (mkRange (mkPos 4 6) (mkPos 4 10)) TIdentifier [105;110;116;52]))] []]].

(* real parser, text: 'class aKb (aKa)\nRef : aKa\n' *)
Definition hx_ref : node :=
  Node KAstRoot [] 0 (mkRange (mkPos 0 0) (mkPos 0 0)) [] [
    Node KAstClass [97;75;98] 0 (mkRange (mkPos 0 0) (mkPos 0 15)) [(1, AT (mkTok 6 (mkRange (mkPos 0 6) (mkPos 0 9)) TIdentifier [97;75;98])); (2, AL [(mkTok 11 (mkRange (mkPos 0 11) (mkPos 0 14)) TIdentifier [97;75;97])])] [];
    Node KAstGlobalVariableDeclaration [82;101;102] 16 (mkRange (mkPos 1 0) (mkPos 1 9)) [(1, AT (mkTok 16 (mkRange (mkPos 1 0) (mkPos 1 3)) TIdentifier [82;101;102])); (6, AN 0)] [
      Node KAstTypeBasic [97;75;97] 22 (mkRange (mkPos 1 6) (mkPos 1 9)) [(0, AT (mkTok 22 (mkRange (mkPos 1 6) (mkPos 1 9)) TIdentifier [97;75;97]))] []]].


Local Open Scope nat_scope.
Definition hx_ws : wsT := [ (#"aKa", hx_decl); (#"aKb", hx_ref) ].

(* aKb.god line 1 is `Ref : aKa`; the class symbol aKa lives in aKa.god's root table (reached through the parent
   chain), its header on line 2 below two comment lines.  The old rule names aKb.god -- whose tree ends on
   line 1 -- with a selection range on line 2; the repaired rule names aKa.god, and the ranges are those of
   the header node of aKa.god's own tree *)
Theorem old_class_item_uri_refuted :
  exists ws dA dB a,
    In dA ws /\ In dB ws /\ distinct_stems ws /\ named_by_stem ws /\ Forall (fun d => regular (snd d)) ws /\
    find_in (root_of dA) #"aKa" = Some a /\ a_kind a = KClass /\
    (let it := class_item_with true ws (fst dB) (root_of dA) a in
     i_uri it = fst dB /\ below_line (snd dB) (pline (rstart (i_sel it))) = true) /\
    (let it := class_item_with false ws (fst dB) (root_of dA) a in
     i_uri it = fst dA /\
     exists n, In n (visit_seq false (snd dA)) /\ i_sel it = name_range (snd n) /\ i_range it = nrange (snd n)).
Proof.
  exists hx_ws, (#"aKa", hx_decl), (#"aKb", hx_ref). eexists.
  split; [left; reflexivity|]. split; [right; left; reflexivity|].
  split; [vm_compute; repeat constructor; cbn; intuition discriminate|].
  split.
  { intros d c p Hd He. cbn [hx_ws In] in Hd.
    repeat (destruct Hd as [Hd|Hd]; [subst d; vm_compute in He; inversion He; subst; vm_compute; reflexivity|]). contradiction. }
  split; [repeat constructor; apply regularb_ok; vm_compute; reflexivity|].
  split; [vm_compute; reflexivity|]. split; [reflexivity|]. split.
  - split; vm_compute; reflexivity.
  - split; [vm_compute; reflexivity|]. exists (top (nth 2 (nchildren hx_decl) hx_decl)).
    split; [vm_compute; right; right; right; left; reflexivity|split; vm_compute; reflexivity].
Qed.

(* the hypotheses of C13_item_uri_tree are satisfiable (real dumps), with an item prepared *)
Example ht_item_uri_hypotheses :
  In (#"aKb", ht_kb) ht_ws /\ distinct_stems ht_ws /\ named_by_stem ht_ws /\ regular ht_kb /\
  exists it, prepare ht_ws (#"aKb", ht_kb) (mkPos 0 7) = Ans (ROk [it]) /\ i_uri it = #"aKb".
Proof.
  split; [right; left; reflexivity|]. split; [vm_compute; repeat constructor; cbn; intuition discriminate|].
  split; [apply ht_ws_hypotheses|]. split; [apply regularb_ok; vm_compute; reflexivity|].
  eexists. split; [apply (proj1 ht_ws_prepare)|reflexivity].
Qed.

(* the NodeWf premise of hier_item_ranges / C13_item_uri_tree holds on the real dumps (C08's predicate, 10 lines) *)
Ltac wf1 :=
  unfold NodeWf, SelOK, NameInside, range_wf, lines_le, inside, pos_le;
  cbn [nrange nkind nchildren nattrs attr_tok attr rstart rend pline pcol trange K_ident N.eqb Pos.eqb];
  repeat split; intros;
  repeat match goal with
         | H : Some _ = Some _ |- _ => inversion H; subst; clear H
         | H : None = Some _ |- _ => discriminate H
         | H : _ \/ _ |- _ => destruct H; try discriminate
         end;
  cbn [rstart rend pline pcol trange];
  try discriminate; try lia.

Local Open Scope N_scope.
Lemma ht_ka_wf : Forall_nodes (NodeWf 10) ht_ka.
Proof. unfold ht_ka. cbn [Forall_nodes]. repeat match goal with |- _ /\ _ => split | |- True => exact I end; wf1. Qed.
Lemma ht_kb_wf : Forall_nodes (NodeWf 10) ht_kb.
Proof. unfold ht_kb. cbn [Forall_nodes]. repeat match goal with |- _ /\ _ => split | |- True => exact I end; wf1. Qed.
Lemma ht_kc_wf : Forall_nodes (NodeWf 10) ht_kc.
Proof. unfold ht_kc. cbn [Forall_nodes]. repeat match goal with |- _ /\ _ => split | |- True => exact I end; wf1. Qed.

Example ht_ws_nodewf : Forall (fun d => Forall_nodes (NodeWf 10) (snd d)) ht_ws.
Proof.
  constructor; [exact ht_ka_wf|]. constructor; [exact ht_kb_wf|]. constructor; [exact ht_kc_wf|constructor].
Qed.

(* ... so the conclusion `inside` of hier_item_ranges is obtained THROUGH the theorem on the real trees *)
Example ht_item_ranges_via_nodewf :
  forall p it, prepare ht_ws (#"aKb", ht_kb) p = Ans (ROk [it]) -> inside (i_sel it) (i_range it).
Proof.
  intros p it H. destruct (hier_item_ranges ht_ws (#"aKb", ht_kb) p it H) as (n & _ & _ & _ & _ & Hw).
  apply (Hw 10). exact ht_kb_wf.
Qed.
