(* Proofs about the cache model (Model/Cache.v) for property C02.
   Part 1: structural invariant WF (all histories) and freshness of the answers that read the
           current document object only.
   Part 2: AllFresh (every cached table is the fresh chain of its document): preserved by all
           requests; cross-file answers are fresh under it.
   Part 3: the exact conditions under which change / save / close preserve AllFresh.
   Part 4: outside the known classes every answer of every history is fresh. *)
From GoldV Require Import Base Cache.

(* ------------------------------------------------------------------------------------------ *)
(* lists, states                                                                               *)
(* ------------------------------------------------------------------------------------------ *)

Lemma nth_error_upd_same {A} (f : A -> A) l p x :
  nth_error l p = Some x -> nth_error (upd p f l) p = Some (f x).
Proof.
  revert p; induction l as [|y l IH]; intros [|p] H; simpl in *; try discriminate.
  - inversion H; reflexivity.
  - apply IH; exact H.
Qed.

Lemma nth_error_upd_other {A} (f : A -> A) l p q :
  p <> q -> nth_error (upd p f l) q = nth_error l q.
Proof.
  revert p q; induction l as [|y l IH]; intros [|p] [|q] H; simpl; try reflexivity.
  - congruence.
  - apply IH; congruence.
Qed.

Lemma length_upd {A} (f : A -> A) l p : length (upd p f l) = length l.
Proof. revert p; induction l as [|y l IH]; intros [|p]; simpl; auto. Qed.

Lemma upd_none {A} (f : A -> A) l p : nth_error l p = None -> upd p f l = l.
Proof.
  revert p; induction l as [|y l IH]; intros [|p] H; simpl in *; try reflexivity; try discriminate.
  rewrite IH; auto.
Qed.

Lemma get_set_same st p f i : get st p = Some i -> get (set_info st p f) p = Some (f i).
Proof. unfold get, set_info; simpl; apply nth_error_upd_same. Qed.

Lemma get_set_other st p q f : p <> q -> get (set_info st p f) q = get st q.
Proof. unfold get, set_info; simpl; apply nth_error_upd_other. Qed.

Lemma set_info_none st p f : get st p = None -> set_info st p f = st.
Proof. unfold get, set_info; intro H; rewrite upd_none by exact H; destruct st; reflexivity. Qed.

Lemma length_set st p f : length (docs (set_info st p f)) = length (docs st).
Proof. unfold set_info; simpl; apply length_upd. Qed.

Lemma get_none_iff st p : get st p = None <-> (length (docs st) <= p)%nat.
Proof. unfold get; apply nth_error_None. Qed.

Lemma opt_nat_eqb_eq a b : opt_nat_eqb a b = true <-> a = b.
Proof.
  destruct a as [x|], b as [y|]; simpl; split; intro H; try discriminate; try reflexivity.
  - apply Nat.eqb_eq in H; congruence.
  - inversion H; apply Nat.eqb_refl.
Qed.

Lemma version_eqb_eq a b : version_eqb a b = true <-> a = b.
Proof.
  destruct a as [i p], b as [j q]; unfold version_eqb; simpl; split; intro H.
  - apply andb_true_iff in H as [H1 H2]. apply N.eqb_eq in H1. apply opt_nat_eqb_eq in H2. congruence.
  - inversion H; subst. rewrite N.eqb_refl. simpl. apply opt_nat_eqb_eq; reflexivity.
Qed.

Lemma version_eqb_refl a : version_eqb a a = true.
Proof. apply version_eqb_eq; reflexivity. Qed.

Lemma version_eqb_neq a b : version_eqb a b = false <-> a <> b.
Proof.
  split; intro H.
  - intro E; apply version_eqb_eq in E; congruence.
  - destruct (version_eqb a b) eqn:E; [apply version_eqb_eq in E; contradiction|reflexivity].
Qed.

(* ------------------------------------------------------------------------------------------ *)
(* Part 1: the structural invariant                                                            *)
(* ------------------------------------------------------------------------------------------ *)

(* a document object: its caches were computed from its own tree *)
Definition doc_ok (p : nat) (d : doc_obj) : Prop :=
  (forall a, d_adiags d = Some a -> a = d_ver d) /\
  (forall t od, d_annot d = Some (t, od) -> t_doc t = p /\ t_ver t = d_ver d).

Definition info_ok (p : nat) (i : dinfo) : Prop :=
  (forall d, saved i = Some d -> d_ver d = disk i /\ doc_ok p d) /\
  (forall d, opened i = Some d -> doc_ok p d) /\
  (forall t, stab i = Some t -> t_doc t = p).

Definition WF (st : state) : Prop := forall p i, get st p = Some i -> info_ok p i.

Lemma doc_ok_new p v : doc_ok p (new_doc v).
Proof. split; simpl; intros; discriminate. Qed.

(* the texts do not change: what every request guarantees *)
Definition same_text (i i' : dinfo) : Prop :=
  disk i' = disk i /\ option_map d_ver (opened i') = option_map d_ver (opened i).

Definition Stable (st st' : state) : Prop :=
  tree st' = tree st /\ length (docs st') = length (docs st) /\
  forall p i, get st p = Some i -> exists i', get st' p = Some i' /\ same_text i i'.

Lemma same_text_refl i : same_text i i.
Proof. split; reflexivity. Qed.

Lemma same_text_trans a b c : same_text a b -> same_text b c -> same_text a c.
Proof. intros [H1 H2] [H3 H4]; split; congruence. Qed.

Lemma same_text_logical i i' : same_text i i' -> logical i' = logical i.
Proof.
  intros [H1 H2]. unfold logical.
  destruct (opened i) as [d|], (opened i') as [d'|]; simpl in H2; try discriminate; congruence.
Qed.

Lemma Stable_refl st : Stable st st.
Proof. repeat split; auto. intros p i H; exists i; split; [exact H|apply same_text_refl]. Qed.

Lemma Stable_trans a b c : Stable a b -> Stable b c -> Stable a c.
Proof.
  intros (T1 & L1 & H1) (T2 & L2 & H2). repeat split; try congruence.
  intros p i Hg. destruct (H1 p i Hg) as (i1 & G1 & S1). destruct (H2 p i1 G1) as (i2 & G2 & S2).
  exists i2; split; [exact G2|eapply same_text_trans; eauto].
Qed.

Lemma Stable_none st st' p : Stable st st' -> get st p = None -> get st' p = None.
Proof. intros (_ & L & _) H. apply get_none_iff. rewrite L. apply get_none_iff; exact H. Qed.

Lemma Stable_set st p f :
  (forall i, get st p = Some i -> same_text i (f i)) -> Stable st (set_info st p f).
Proof.
  intro H. repeat split.
  - apply length_set.
  - intros q i Hg. destruct (Nat.eq_dec p q) as [->|N].
    + exists (f i); split; [apply get_set_same; exact Hg|apply H; exact Hg].
    + exists i; split; [rewrite get_set_other by exact N; exact Hg|apply same_text_refl].
Qed.

Lemma WF_set st p f :
  WF st -> (forall i, get st p = Some i -> info_ok p (f i)) -> WF (set_info st p f).
Proof.
  intros W H q j Hg. destruct (Nat.eq_dec p q) as [->|N].
  - destruct (get st q) as [i|] eqn:E.
    + rewrite (get_set_same st q f i E) in Hg. inversion Hg; subst. apply H; reflexivity.
    + rewrite set_info_none in Hg by exact E. congruence.
  - rewrite get_set_other in Hg by exact N. apply W; exact Hg.
Qed.

(* the document object a request is handed, and where it lives *)
Definition loc_vis (i : dinfo) (l : loc) (d : doc_obj) : Prop :=
  match l with
  | LOpened => opened i = Some d
  | LSaved => opened i = None /\ saved i = Some d
  | LTemp => opened i = None /\ saved i = None /\ d = new_doc (disk i)
  end.

Lemma vis_ok p i l d : info_ok p i -> loc_vis i l d -> d_ver d = logical i /\ doc_ok p d.
Proof.
  intros (Hs & Ho & _) V. unfold logical. destruct l; simpl in V.
  - rewrite V. split; [reflexivity|apply Ho; exact V].
  - destruct V as [V1 V2]. rewrite V1. destruct (Hs d V2) as [E K]. split; assumption.
  - destruct V as (V1 & V2 & ->). rewrite V1. split; [reflexivity|apply doc_ok_new].
Qed.

Lemma get_parsed_spec p i i1 l d :
  info_ok p i -> get_parsed i = (i1, l, d) ->
  info_ok p i1 /\ same_text i i1 /\ loc_vis i1 l d /\ l <> LTemp /\ stab i1 = stab i /\
  (forall t, In t (cached_tables i1) -> In t (cached_tables i)).
Proof.
  intros K H. unfold get_parsed in H.
  destruct (opened i) as [d0|] eqn:Eo.
  - inversion H; subst. split; [exact K|]. split; [apply same_text_refl|]. split; [exact Eo|].
    split; [discriminate|]. split; auto.
  - destruct (saved i) as [d0|] eqn:Es.
    + inversion H; subst. split; [exact K|]. split; [apply same_text_refl|]. split; [split; assumption|].
      split; [discriminate|]. split; auto.
    + inversion H; subst. destruct K as (Hs & Ho & Ht).
      split.
      { split; [|split]; simpl.
        - intros d E; inversion E; subst. split; [reflexivity|apply doc_ok_new].
        - intros d E; discriminate.
        - exact Ht. }
      split. { split; simpl; [reflexivity|rewrite ?Eo; reflexivity]. }
      split. { simpl. split; reflexivity. }
      split; [discriminate|]. split; [reflexivity|].
      unfold cached_tables, visible; simpl. rewrite Eo, Es. simpl. auto.
Qed.

Lemma get_parsed_nocache_spec i l d : get_parsed_nocache i = (l, d) -> loc_vis i l d.
Proof.
  unfold get_parsed_nocache. destruct (opened i) as [d0|] eqn:Eo.
  - intro H; inversion H; subst; exact Eo.
  - destruct (saved i) as [d0|] eqn:Es; intro H; inversion H; subst; simpl; auto.
Qed.

Lemma WF_docs st st' : docs st' = docs st -> WF st -> WF st'.
Proof. intros E W p i H. apply (W p i). unfold get in *. rewrite <- E. exact H. Qed.

(* publish: writing the annotated table through the handed-out Arc and on the DocumentInfo *)
Lemma publish_get st p l d t i :
  get st p = Some i ->
  get (publish st p l d t) p =
  Some (let i' := put_doc i l d in mkI (disk i') (saved i') (opened i') (Some t)).
Proof. intro H. unfold publish. erewrite get_set_same by exact H. reflexivity. Qed.

Lemma publish_other st p q l d t : p <> q -> get (publish st p l d t) q = get st q.
Proof. intro N. unfold publish. apply get_set_other; exact N. Qed.

Lemma publish_ok st p l d t i :
  WF st -> get st p = Some i -> doc_ok p d -> t_doc t = p ->
  (l = LSaved -> d_ver d = disk i) ->
  (l = LOpened -> option_map d_ver (opened i) = Some (d_ver d)) ->
  WF (publish st p l d t) /\ Stable st (publish st p l d t).
Proof.
  intros W G Kd Et Hs Ho. split.
  - unfold publish. apply WF_set; [exact W|]. intros j Gj. rewrite G in Gj; inversion Gj; subst j.
    destruct (W p i G) as (Ks & Ko & Kt).
    assert (Kst : forall u, Some t = Some u -> t_doc u = p) by (intros u E; inversion E; subst u; exact Et).
    destruct l; simpl; (split; [|split]); simpl; try exact Kst; try exact Ks; try exact Ko.
    + intros d' E; inversion E; subst; exact Kd.
    + intros d' E; inversion E; subst. split; [apply Hs; reflexivity|exact Kd].
  - unfold publish. apply Stable_set. intros j Gj. rewrite G in Gj; inversion Gj; subst j.
    destruct l; split; simpl; auto. symmetry. apply Ho; reflexivity.
Qed.

Definition bump (st : state) : state := mkS (docs st) (tree st) (next st + 1).

Lemma Stable_bump st : Stable st (bump st).
Proof. repeat split; auto. intros p i H; exists i; split; [exact H|apply same_text_refl]. Qed.

Definition lookup_wf (lookup : state -> nat -> state * option tbl) : Prop :=
  forall st q st' r, WF st -> lookup st q = (st', r) ->
    WF st' /\ Stable st st' /\ (forall t, r = Some t -> t_doc t = q).

Lemma annotate_with_wf lookup st p l d od st' t i :
  lookup_wf lookup -> WF st -> get st p = Some i -> loc_vis i l d ->
  annotate_with lookup st p l d od = (st', t) ->
  WF st' /\ Stable st st' /\ t_doc t = p /\ t_ver t = d_ver d.
Proof.
  intros LW W G V H. unfold annotate_with in H. fold (bump st) in H.
  destruct (vis_ok p i l d (W p i G) V) as [Ev Kd].
  set (t0 := Tbl (next st) p (d_ver d) None) in *.
  set (d0 := mkD (d_ver d) (Some (t0, od)) (d_adiags d)) in *.
  assert (Kd0 : doc_ok p d0).
  { destruct Kd as [Ka _]. split; simpl; [exact Ka|]. intros u o E; inversion E; subst; simpl; auto. }
  assert (P1 : WF (publish (bump st) p l d0 t0) /\ Stable (bump st) (publish (bump st) p l d0 t0)).
  { apply (publish_ok (bump st) p l d0 t0 i).
    - eapply WF_docs; [|exact W]; reflexivity.
    - exact G.
    - exact Kd0.
    - reflexivity.
    - intros ->. simpl in V. destruct V as [_ V2]. destruct (W p i G) as (Ks & _ & _).
      destruct (Ks d V2) as [E _]. exact E.
    - intros ->. simpl in V. rewrite V. reflexivity. }
  destruct P1 as [W1 S1].
  assert (S01 : Stable st (publish (bump st) p l d0 t0)) by (eapply Stable_trans; [apply Stable_bump|exact S1]).
  destruct (vpar (d_ver d)) as [q|] eqn:Eq.
  2:{ inversion H; subst st' t. (split; [|split; [|split]]); [assumption|assumption|reflexivity|reflexivity]. }
  destruct (Nat.eqb q p) eqn:Eqp.
  { inversion H; subst st' t. (split; [|split; [|split]]); [assumption|assumption|reflexivity|reflexivity]. }
  destruct (lookup (publish (bump st) p l d0 t0) q) as [st2 r] eqn:El.
  destruct (LW _ _ _ _ W1 El) as (W2 & S2 & Hr).
  assert (S02 : Stable st st2) by (eapply Stable_trans; eauto).
  destruct r as [pt|].
  2:{ inversion H; subst st' t. (split; [|split; [|split]]); [assumption|assumption|reflexivity|reflexivity]. }
  destruct (reachable p (next st) pt).
  { inversion H; subst st' t. (split; [|split; [|split]]); [assumption|assumption|reflexivity|reflexivity]. }
  inversion H; subst st' t. clear H.
  destruct S02 as (T & Ln & HS). destruct (HS p i G) as (i2 & G2 & [D2 O2]).
  set (t := Tbl (next st) p (d_ver d) (Some pt)).
  set (d1 := mkD (d_ver d) (Some (t, od)) (d_adiags d)).
  assert (Kd1 : doc_ok p d1).
  { destruct Kd as [Ka _]. split; simpl; [exact Ka|]. intros u o E; inversion E; subst; simpl; auto. }
  assert (P2 : WF (publish st2 p l d1 t) /\ Stable st2 (publish st2 p l d1 t)).
  { apply (publish_ok st2 p l d1 t i2).
    - exact W2.
    - exact G2.
    - exact Kd1.
    - reflexivity.
    - intros ->. simpl in V. destruct V as [_ V2]. destruct (W p i G) as (Ks & _ & _).
      destruct (Ks d V2) as [E _]. simpl. congruence.
    - intros ->. simpl in V. rewrite O2, V. reflexivity. }
  destruct P2 as [W3 S3]. split; [exact W3|]. split; [|split; reflexivity].
  eapply Stable_trans; [|exact S3]. split; [exact T|]. split; [exact Ln|exact HS].
Qed.

Lemma symtab_wf fuel : lookup_wf (symtab fuel).
Proof.
  induction fuel as [|f IH]; intros st q st' r W H; simpl in H.
  - inversion H; subst. split; [exact W|]. split; [apply Stable_refl|]. intros; discriminate.
  - destruct (get st q) as [i|] eqn:G.
    2:{ inversion H; subst. split; [exact W|]. split; [apply Stable_refl|]. intros; discriminate. }
    destruct (stab i) as [t|] eqn:Es.
    { inversion H; subst. split; [exact W|]. split; [apply Stable_refl|].
      intros u E; inversion E; subst. destruct (W q i G) as (_ & _ & Kt). apply Kt; exact Es. }
    destruct (get_parsed_nocache i) as [l d] eqn:Ep.
    pose proof (get_parsed_nocache_spec i l d Ep) as V.
    destruct (d_annot d) as [[t od]|] eqn:Ea.
    { inversion H; subst. split; [exact W|]. split; [apply Stable_refl|].
      intros u E; inversion E; subst.
      destruct (vis_ok q i l d (W q i G) V) as [_ [_ Kd]]. destruct (Kd u od Ea); assumption. }
    destruct (annotate_with (symtab f) st q l d true) as [st1 t] eqn:Ean.
    inversion H; subst.
    destruct (annotate_with_wf _ _ _ _ _ _ _ _ i IH W G V Ean) as (W1 & S1 & Et & _).
    split; [exact W1|]. split; [exact S1|]. intros u E; inversion E; subst u; exact Et.
Qed.

Lemma analyze_full_wf st p st' r :
  WF st -> analyze_full st p = (st', r) ->
  WF st' /\ Stable st st' /\
  (forall i, get st p = Some i -> exists t, r = Some t /\ t_doc t = p /\ t_ver t = logical i).
Proof.
  intros W H. unfold analyze_full in H.
  destruct (get st p) as [i|] eqn:G.
  2:{ inversion H; subst. split; [exact W|]. split; [apply Stable_refl|]. intros; discriminate. }
  destruct (get_parsed i) as [[i1 l] d] eqn:Ep.
  destruct (get_parsed_spec p i i1 l d (W p i G) Ep) as (K1 & T1 & V1 & Nl & _ & _).
  set (st1 := set_info st p (fun _ => i1)) in *.
  assert (W1 : WF st1).
  { apply WF_set; [exact W|]. intros; exact K1. }
  assert (S1 : Stable st st1).
  { apply Stable_set. intros j Gj. rewrite G in Gj; inversion Gj; subst; exact T1. }
  assert (G1 : get st1 p = Some i1) by (apply (get_set_same st p _ i G)).
  destruct (vis_ok p i1 l d K1 V1) as [Ev Kd].
  rewrite (same_text_logical i i1 T1) in Ev.
  assert (ANN : forall st2 t2, annotate_with (symtab (fuel_of st)) st1 p l d false = (st2, t2) ->
                WF st2 /\ Stable st st2 /\
                (forall i0, Some i = Some i0 -> exists t, Some t2 = Some t /\ t_doc t = p /\ t_ver t = logical i0)).
  { intros st2 t2 Ean.
    destruct (annotate_with_wf _ _ _ _ _ _ _ _ i1 (symtab_wf _) W1 G1 V1 Ean) as (W2 & S2 & Et & Ev2).
    split; [exact W2|]. split; [eapply Stable_trans; eauto|].
    intros j Gj; inversion Gj; subst j. exists t2. split; [reflexivity|]. split; congruence. }
  destruct (d_annot d) as [[t [|]]|] eqn:Ea.
  - destruct (annotate_with (symtab (fuel_of st)) st1 p l d false) as [st2 t2] eqn:Ean.
    inversion H; subst. apply ANN; reflexivity.
  - inversion H; subst. split; [exact W1|]. split; [exact S1|].
    intros j Gj; inversion Gj; subst j. destruct Kd as [_ Kd]. destruct (Kd t false Ea) as [E1 E2].
    exists t. split; [reflexivity|]. split; congruence.
  - destruct (annotate_with (symtab (fuel_of st)) st1 p l d false) as [st2 t2] eqn:Ean.
    inversion H; subst. apply ANN; reflexivity.
Qed.

Lemma put_doc_ok p i l d d' :
  info_ok p i -> loc_vis i l d -> doc_ok p d' -> d_ver d' = d_ver d ->
  info_ok p (put_doc i l d') /\ same_text i (put_doc i l d') /\ (l <> LTemp -> loc_vis (put_doc i l d') l d').
Proof.
  intros (Ks & Ko & Kt) V Kd E. destruct l; simpl in *.
  - split; [|split].
    + split; [|split]; simpl; auto. intros x Ex; inversion Ex; subst; exact Kd.
    + split; simpl; [reflexivity|]. rewrite V. simpl. congruence.
    + reflexivity.
  - destruct V as [V1 V2]. split; [|split].
    + split; [|split]; simpl; auto. intros x Ex; inversion Ex; subst. split; [|exact Kd].
      rewrite E. apply (Ks d V2).
    + split; reflexivity.
    + intros _. split; [exact V1|reflexivity].
  - split; [|split].
    + split; [|split]; assumption.
    + apply same_text_refl.
    + intro N; contradiction N; reflexivity.
Qed.

Lemma consult_wf fuel : forall es st st' l,
  WF st -> consult st fuel es = (st', l) -> WF st' /\ Stable st st'.
Proof.
  induction es as [|e es IH]; intros st st' l W H; simpl in H.
  - inversion H; subst. split; [exact W|apply Stable_refl].
  - destruct (symtab fuel st e) as [st1 r] eqn:E1.
    destruct (consult st1 fuel es) as [st2 rest] eqn:E2.
    inversion H; subst.
    destruct (symtab_wf fuel _ _ _ _ W E1) as (W1 & S1 & _).
    destruct (IH _ _ _ W1 E2) as (W2 & S2).
    split; [exact W2|eapply Stable_trans; eauto].
Qed.

Lemma req_sym_spec st p :
  WF st ->
  WF (fst (req_sym st p)) /\ Stable st (fst (req_sym st p)) /\
  (forall i, get st p = Some i -> snd (req_sym st p) = ALocal p (logical i)).
Proof.
  intro W. unfold req_sym. destruct (get st p) as [i|] eqn:G.
  2:{ simpl. split; [exact W|]. split; [apply Stable_refl|]. intros; discriminate. }
  destruct (get_parsed i) as [[i1 l] d] eqn:Ep. simpl.
  destruct (get_parsed_spec p i i1 l d (W p i G) Ep) as (K1 & T1 & V1 & _).
  split; [|split].
  - apply WF_set; [exact W|]. intros; exact K1.
  - apply Stable_set. intros j Gj. rewrite G in Gj; inversion Gj; subst; exact T1.
  - intros j Gj; inversion Gj; subst j.
    destruct (vis_ok p i1 l d K1 V1) as [Ev _]. rewrite Ev, (same_text_logical i i1 T1). reflexivity.
Qed.

Lemma req_diag_spec st p :
  WF st ->
  WF (fst (req_diag st p)) /\ Stable st (fst (req_diag st p)) /\
  (forall i, get st p = Some i ->
     snd (req_diag st p) = ADiag p (logical i) (logical i) (Some (logical i))).
Proof.
  intro W. unfold req_diag. destruct (get st p) as [i|] eqn:G.
  2:{ simpl. split; [exact W|]. split; [apply Stable_refl|]. intros; discriminate. }
  destruct (get_parsed i) as [[i1 l] d] eqn:Ep.
  destruct (get_parsed_spec p i i1 l d (W p i G) Ep) as (K1 & T1 & V1 & Nl & _).
  destruct (vis_ok p i1 l d K1 V1) as [Ev Kd].
  rewrite (same_text_logical i i1 T1) in Ev.
  set (a := match d_adiags d with Some a => a | None => d_ver d end).
  assert (Ea : a = d_ver d).
  { unfold a. destruct (d_adiags d) as [x|] eqn:Ex; [|reflexivity]. destruct Kd as [Ka _]. apply Ka; exact Ex. }
  set (d1 := mkD (d_ver d) (d_annot d) (Some a)).
  assert (Kd1 : doc_ok p d1).
  { destruct Kd as [Ka Kb]. split; simpl.
    - intros x Ex; inversion Ex; subst x; exact Ea.
    - exact Kb. }
  destruct (put_doc_ok p i1 l d d1 K1 V1 Kd1 eq_refl) as (K2 & T2 & V2).
  set (st1 := set_info st p (fun _ => put_doc i1 l d1)).
  assert (W1 : WF st1) by (apply WF_set; [exact W|]; intros; exact K2).
  assert (S1 : Stable st st1).
  { apply Stable_set. intros j Gj. rewrite G in Gj; inversion Gj; subst.
    eapply same_text_trans; eauto. }
  assert (G1 : get st1 p = Some (put_doc i1 l d1)) by (apply (get_set_same st p _ i G)).
  destruct (analyze_full st1 p) as [st2 r] eqn:Ean.
  destruct (analyze_full_wf st1 p st2 r W1 Ean) as (W2 & S2 & Hr). simpl.
  split; [exact W2|]. split; [eapply Stable_trans; eauto|].
  intros j Gj; inversion Gj; subst j.
  destruct (Hr _ G1) as (t & -> & _ & Et). simpl.
  rewrite Et, (same_text_logical i1 _ T2), (same_text_logical i i1 T1), Ea, Ev. reflexivity.
Qed.

Lemma req_chain_wf st p : WF st -> WF (fst (req_chain st p)) /\ Stable st (fst (req_chain st p)).
Proof.
  intro W. unfold req_chain. destruct (analyze_full st p) as [st' [t|]] eqn:E;
    destruct (analyze_full_wf st p _ _ W E) as (W' & S' & _); simpl; split; assumption.
Qed.

Lemma req_tree_wf st sub m p : WF st -> WF (fst (req_tree st sub m p)) /\ Stable st (fst (req_tree st sub m p)).
Proof.
  intro W. unfold req_tree. destruct (get st p) as [i|] eqn:G.
  2:{ simpl. split; [exact W|apply Stable_refl]. }
  assert (A : exists st1 ok, (if m then (let '(s, r) := symtab (fuel_of st) st p in (s, match r with Some _ => true | None => false end))
                        else (st, true)) = (st1, ok) /\ WF st1 /\ Stable st st1).
  { destruct m.
    - destruct (symtab (fuel_of st) st p) as [s r] eqn:E.
      destruct (symtab_wf _ _ _ _ _ W E) as (W1 & S1 & _). eexists; eexists; split; [reflexivity|split; assumption].
    - eexists; eexists; split; [reflexivity|split; [exact W|apply Stable_refl]]. }
  destruct A as (st1 & ok & -> & W1 & S1).
  destruct ok; simpl; [|split; assumption].
  match goal with |- context [consult st1 ?f ?es] => destruct (consult st1 f es) as [st2 l] eqn:Ec end.
  destruct (consult_wf _ _ _ _ _ W1 Ec) as (W2 & S2). simpl.
  split; [exact W2|eapply Stable_trans; eauto].
Qed.

Lemma request_wf st k p : WF st -> WF (fst (request st k p)) /\ Stable st (fst (request st k p)).
Proof.
  intro W. destruct k; simpl.
  - destruct (req_sym_spec st p W) as (A & B & _); split; assumption.
  - destruct (req_diag_spec st p W) as (A & B & _); split; assumption.
  - apply req_chain_wf; exact W.
  - apply req_tree_wf; exact W.
  - apply req_tree_wf; exact W.
Qed.

Lemma step_wf st e : WF st -> WF (fst (step st e)).
Proof.
  intro W. destruct e as [p|p v|p|p|k p]; simpl; try exact W.
  - apply WF_set; [exact W|]. intros i G. destruct (W p i G) as (Ks & Ko & Kt).
    split; [|split]; simpl; auto; try (intros; discriminate).
    intros d E; inversion E; subst; apply doc_ok_new.
  - apply WF_set; [exact W|]. intros i G. split; [|split]; simpl; intros; discriminate.
  - apply WF_set; [exact W|]. intros i G. split; [|split]; simpl; intros; discriminate.
  - destruct (request st k p) as [st' a] eqn:E. simpl.
    pose proof (request_wf st k p W) as [A _]. rewrite E in A. exact A.
Qed.

Lemma run_fst_step st e h : fst (run st (e :: h)) = fst (run (fst (step st e)) h).
Proof. simpl. destruct (step st e) as [s a]. simpl. destruct (run s h). reflexivity. Qed.

Lemma run_wf h : forall st, WF st -> WF (fst (run st h)).
Proof.
  induction h as [|e h IH]; intros st W; [exact W|].
  rewrite run_fst_step. apply IH. apply step_wf; exact W.
Qed.

Lemma get_init ws p : get (init ws) p = option_map (fun v => mkI v None None None) (nth_error ws p).
Proof. unfold get, init; simpl. apply nth_error_map. Qed.

Lemma init_wf ws : WF (init ws).
Proof.
  intros p i H. rewrite get_init in H. destruct (nth_error ws p); inversion H; subst.
  split; [|split]; simpl; intros; discriminate.
Qed.

Lemma get_init_logical st p :
  get (init (logical_ws st)) p = option_map (fun i => mkI (logical i) None None None) (get st p).
Proof.
  rewrite get_init. unfold logical_ws, get. rewrite nth_error_map.
  destruct (nth_error (docs st) p); reflexivity.
Qed.

(* answers that read the current document object only are those of a fresh server, in every
   structurally well-formed state -- hence after every history *)
Lemma local_fresh st k p :
  WF st -> (k = KSym \/ k = KDiag) -> snd (request st k p) = fresh_answer st k p.
Proof.
  intros W Hk. unfold fresh_answer.
  pose proof (init_wf (logical_ws st)) as W0.
  pose proof (get_init_logical st p) as G0.
  destruct (get st p) as [i|] eqn:G; simpl in G0.
  - destruct Hk as [-> | ->]; simpl.
    + destruct (req_sym_spec st p W) as (_ & _ & A). rewrite (A i G).
      destruct (req_sym_spec _ p W0) as (_ & _ & B). rewrite (B _ G0). reflexivity.
    + destruct (req_diag_spec st p W) as (_ & _ & A). rewrite (A i G).
      destruct (req_diag_spec _ p W0) as (_ & _ & B). rewrite (B _ G0). reflexivity.
  - destruct Hk as [-> | ->]; simpl; unfold req_sym, req_diag; rewrite G, G0; reflexivity.
Qed.

(* ------------------------------------------------------------------------------------------ *)
(* Part 2: the fresh chain of a document; AllFresh                                             *)
(* ------------------------------------------------------------------------------------------ *)

(* the chain a freshly started server computes for p: the logical version of p, of the parent its
   header names, ... *)
Fixpoint lchain (fuel : nat) (st : state) (p : nat) : list (nat * version) :=
  match fuel with
  | O => []
  | S f =>
      match get st p with
      | None => []
      | Some i => (p, logical i) :: match vpar (logical i) with Some q => lchain f st q | None => [] end
      end
  end.

(* following the logical parents from p ends within fuel steps *)
Fixpoint ends (fuel : nat) (st : state) (p : nat) : bool :=
  match fuel with
  | O => false
  | S f =>
      match get st p with
      | None => true
      | Some i => match vpar (logical i) with Some q => ends f st q | None => true end
      end
  end.

Definition nd (st : state) : nat := S (length (docs st)).
Definition LC (st : state) (p : nat) : list (nat * version) := lchain (nd st) st p.
(* the logical inheritance relation has no cycle (n documents: every ancestor chain ends within n+1 steps) *)
Definition Acyc (st : state) : Prop := forall p, ends (nd st) st p = true.
Definition acyclicb (st : state) : bool :=
  forallb (fun p => ends (nd st) st p) (seq 0 (length (docs st))).

Lemma acyclicb_Acyc st : acyclicb st = true -> Acyc st.
Proof.
  intros H p. destruct (le_lt_dec (length (docs st)) p) as [L|L].
  - unfold nd. simpl. apply get_none_iff in L. rewrite L. reflexivity.
  - unfold acyclicb in H. rewrite forallb_forall in H. apply H. apply in_seq. lia.
Qed.

Lemma ends_mono f : forall f' st p, ends f st p = true -> (f <= f')%nat -> ends f' st p = true.
Proof.
  induction f as [|f IH]; intros f' st p H L; simpl in H; [discriminate|].
  destruct f' as [|f']; [lia|]. simpl.
  destruct (get st p) as [i|]; [|reflexivity].
  destruct (vpar (logical i)) as [q|]; [|reflexivity]. apply IH; [exact H|lia].
Qed.

Lemma lchain_fuel f : forall f' st p, ends f st p = true -> (f <= f')%nat -> lchain f' st p = lchain f st p.
Proof.
  induction f as [|f IH]; intros f' st p H L; simpl in H; [discriminate|].
  destruct f' as [|f']; [lia|]. simpl.
  destruct (get st p) as [i|]; [|reflexivity].
  destruct (vpar (logical i)) as [q|]; [|reflexivity]. f_equal. apply IH; [exact H|lia].
Qed.

(* two states with the same logical texts *)
Definition SameText (st st' : state) : Prop :=
  length (docs st') = length (docs st) /\
  forall p, option_map logical (get st' p) = option_map logical (get st p).

Lemma Stable_SameText st st' : Stable st st' -> SameText st st'.
Proof.
  intros (T & L & H). split; [exact L|]. intro p.
  destruct (get st p) as [i|] eqn:G.
  - destruct (H p i G) as (i' & G' & S). rewrite G'. simpl. f_equal. apply same_text_logical; exact S.
  - assert (G' : get st' p = None) by (apply get_none_iff; rewrite L; apply get_none_iff; exact G).
    rewrite G'. reflexivity.
Qed.

Lemma lchain_same st st' : SameText st st' -> forall f p, lchain f st' p = lchain f st p.
Proof.
  intros [_ H] f. induction f as [|f IH]; intro p; simpl; [reflexivity|].
  specialize (H p). destruct (get st p) as [i|], (get st' p) as [i'|]; simpl in H; try discriminate; [|reflexivity].
  inversion H as [E]. rewrite E. destruct (vpar (logical i)); [rewrite IH|]; reflexivity.
Qed.

Lemma ends_same st st' : SameText st st' -> forall f p, ends f st' p = ends f st p.
Proof.
  intros [_ H] f. induction f as [|f IH]; intro p; simpl; [reflexivity|].
  specialize (H p). destruct (get st p) as [i|], (get st' p) as [i'|]; simpl in H; try discriminate; [|reflexivity].
  inversion H as [E]. rewrite E. destruct (vpar (logical i)); [rewrite IH|]; reflexivity.
Qed.

Lemma LC_same st st' : SameText st st' -> forall p, LC st' p = LC st p.
Proof. intros S p. unfold LC, nd. destruct S as [L H]. rewrite L. apply lchain_same. split; assumption. Qed.

Lemma Acyc_same st st' : SameText st st' -> Acyc st -> Acyc st'.
Proof.
  intros S A p. unfold nd. destruct S as [L H]. rewrite L. rewrite (ends_same st st' (conj L H)). apply A.
Qed.

Lemma in_lchain f : forall st p x v, In (x, v) (lchain f st p) -> exists i, get st x = Some i /\ v = logical i.
Proof.
  induction f as [|f IH]; intros st p x v H; simpl in H; [contradiction|].
  destruct (get st p) as [i|] eqn:G; [|contradiction].
  destruct H as [E|H].
  - inversion E; subst. exists i; split; [exact G|reflexivity].
  - destruct (vpar (logical i)) as [q|]; [|contradiction]. eapply IH; exact H.
Qed.

Lemma in_lchain_fst f : forall st p x, In x (map fst (lchain f st p)) ->
  exists i, get st x = Some i /\ In (x, logical i) (lchain f st p).
Proof.
  intros st p x H. apply in_map_iff in H as [[y v] [E H]]. simpl in E; subst y.
  destruct (in_lchain f st p x v H) as (i & G & ->). exists i; split; assumption.
Qed.

(* every member of the chain of q other than q ends strictly earlier *)
Lemma chain_member_ends f : forall st q k x,
  ends k st q = true -> In x (map fst (lchain f st q)) ->
  x = q \/ exists k', k = S k' /\ ends k' st x = true.
Proof.
  induction f as [|f IH]; intros st q k x He Hin; simpl in Hin; [contradiction|].
  destruct (get st q) as [i|] eqn:G; [|contradiction]. simpl in Hin.
  destruct Hin as [E|Hin]; [left; congruence|].
  destruct (vpar (logical i)) as [q'|] eqn:Ep; [|contradiction].
  destruct k as [|k1]; simpl in He; [discriminate|]. rewrite G, Ep in He.
  right. exists k1. split; [reflexivity|].
  destruct (IH st q' k1 x He Hin) as [->|(k2 & -> & H2)]; [exact He|].
  apply (ends_mono k2); [exact H2|lia].
Qed.

(* a document is not among the ancestors of its own parent *)
Lemma no_cycle k : forall st p i q f,
  ends k st p = true -> get st p = Some i -> vpar (logical i) = Some q ->
  ~ In p (map fst (lchain f st q)).
Proof.
  induction k as [|k IH]; intros st p i q f He G Ep Hin; simpl in He; [discriminate|].
  rewrite G, Ep in He.
  destruct (chain_member_ends f st q k p He Hin) as [E|(k2 & E & H2)].
  - subst q. exact (IH st p i p f He G Ep Hin).
  - subst k. apply (IH st p i q f); auto. apply (ends_mono k2); [exact H2|lia].
Qed.

Lemma LC_none st p : get st p = None -> LC st p = [].
Proof. intro G. unfold LC, nd. simpl. rewrite G. reflexivity. Qed.

Lemma LC_unfold st p i :
  Acyc st -> get st p = Some i ->
  LC st p = (p, logical i) :: match vpar (logical i) with Some q => LC st q | None => [] end.
Proof.
  intros A G. unfold LC at 1. unfold nd. simpl. rewrite G. f_equal.
  destruct (vpar (logical i)) as [q|] eqn:Ep; [|reflexivity].
  unfold LC. symmetry. apply lchain_fuel; [|unfold nd; lia].
  specialize (A p). unfold nd in A. simpl in A. rewrite G, Ep in A. exact A.
Qed.

Definition Anc (st : state) (q x : nat) : Prop := In x (map fst (LC st q)).

Lemma Anc_self st p i : get st p = Some i -> Anc st p p.
Proof. intro G. unfold Anc, LC, nd. simpl. rewrite G. left; reflexivity. Qed.

Lemma Anc_parent st p i q x :
  Acyc st -> get st p = Some i -> vpar (logical i) = Some q -> Anc st q x -> Anc st p x.
Proof.
  intros A G Ep H. unfold Anc. rewrite (LC_unfold st p i A G), Ep. simpl. right; exact H.
Qed.

Lemma Anc_not_self st p i q :
  Acyc st -> get st p = Some i -> vpar (logical i) = Some q -> ~ Anc st q p.
Proof. intros A G Ep. unfold Anc, LC. apply (no_cycle (nd st) st p i q); auto. Qed.

Lemma Anc_cases st p i x :
  Acyc st -> get st p = Some i -> Anc st p x ->
  x = p \/ exists q, vpar (logical i) = Some q /\ Anc st q x.
Proof.
  intros A G H. unfold Anc in H. rewrite (LC_unfold st p i A G) in H. simpl in H.
  destruct H as [E|H]; [left; congruence|].
  destruct (vpar (logical i)) as [q|]; [|contradiction]. right; exists q; split; [reflexivity|exact H].
Qed.

(* freshness of the cached tables of the documents in P, relative to the texts of ref *)
Definition FreshR (ref : state) (P : nat -> Prop) (st : state) : Prop :=
  forall p i t, P p -> get st p = Some i -> In t (cached_tables i) -> chain_of t = LC ref p.
Definition AllFresh (st : state) : Prop := FreshR st (fun _ => True) st.
Definition Untouched (P : nat -> Prop) (st st' : state) : Prop := forall x, ~ P x -> get st' x = get st x.

Definition loc_shape (i : dinfo) (l : loc) : Prop :=
  match l with
  | LOpened => True
  | LSaved => opened i = None
  | LTemp => opened i = None /\ saved i = None
  end.

Lemma loc_vis_shape i l d : loc_vis i l d -> loc_shape i l.
Proof. destruct l; simpl; tauto. Qed.

Definition published (i : dinfo) (l : loc) (d : doc_obj) (t : tbl) : dinfo :=
  let i' := put_doc i l d in mkI (disk i') (saved i') (opened i') (Some t).

Lemma published_shape i l d t : loc_shape i l -> loc_shape (published i l d t) l.
Proof. destruct l; simpl; auto. Qed.

Lemma published_cached i l d t od u :
  loc_shape i l -> d_annot d = Some (t, od) -> In u (cached_tables (published i l d t)) -> u = t.
Proof.
  intros Sh Ea H. unfold published, cached_tables, visible in H. destruct l; simpl in *.
  - rewrite Ea in H. simpl in H. intuition.
  - rewrite Sh in H. rewrite Ea in H. simpl in H. intuition.
  - destruct Sh as [S1 S2]. rewrite S1, S2 in H. simpl in H. intuition.
Qed.

Fixpoint reachable_in_chain p id (t : tbl) {struct t} :
  reachable p id t = true -> In p (map fst (chain_of t)).
Proof.
  destruct t as [i d v [u|]]; simpl; intro H.
  - apply orb_true_iff in H as [H|H].
    + left. apply andb_true_iff in H as [H _]. apply Nat.eqb_eq in H. exact H.
    + right. exact (reachable_in_chain p id u H).
  - apply orb_true_iff in H as [H|H]; [|discriminate].
    left. apply andb_true_iff in H as [H _]. apply Nat.eqb_eq in H. exact H.
Qed.

Definition lookup_fresh (lookup : state -> nat -> state * option tbl) (k : nat) : Prop :=
  forall ref st q st' r,
    WF st -> Stable ref st -> Acyc ref -> ends k ref q = true -> FreshR ref (Anc ref q) st ->
    lookup st q = (st', r) ->
    Untouched (Anc ref q) st st' /\ FreshR ref (Anc ref q) st' /\
    match get ref q with Some _ => exists t, r = Some t /\ chain_of t = LC ref q | None => r = None end.

Lemma Stable_get ref st p i :
  Stable ref st -> get st p = Some i -> exists i0, get ref p = Some i0 /\ logical i = logical i0.
Proof.
  intros S G. destruct (get ref p) as [i0|] eqn:G0.
  - destruct S as (_ & _ & H). destruct (H p i0 G0) as (i' & G' & T). rewrite G in G'; inversion G'; subst i'.
    exists i0; split; [reflexivity|apply same_text_logical; exact T].
  - rewrite (Stable_none ref st p S G0) in G. discriminate.
Qed.

Lemma first_publish_ok st p l d od i :
  WF st -> get st p = Some i -> loc_vis i l d ->
  let t0 := Tbl (next st) p (d_ver d) None in
  let d0 := mkD (d_ver d) (Some (t0, od)) (d_adiags d) in
  WF (publish (bump st) p l d0 t0) /\ Stable st (publish (bump st) p l d0 t0) /\
  get (publish (bump st) p l d0 t0) p = Some (published i l d0 t0) /\
  (forall x, x <> p -> get (publish (bump st) p l d0 t0) x = get st x).
Proof.
  intros W G V t0 d0.
  destruct (vis_ok p i l d (W p i G) V) as [Ev Kd].
  assert (Kd0 : doc_ok p d0).
  { destruct Kd as [Ka _]. split; simpl; [exact Ka|]. intros u o E; inversion E; subst; simpl; auto. }
  assert (P1 : WF (publish (bump st) p l d0 t0) /\ Stable (bump st) (publish (bump st) p l d0 t0)).
  { apply (publish_ok (bump st) p l d0 t0 i).
    - eapply WF_docs; [|exact W]; reflexivity.
    - exact G.
    - exact Kd0.
    - reflexivity.
    - intros ->. simpl in V. destruct V as [_ V2]. destruct (W p i G) as (Ks & _ & _).
      destruct (Ks d V2) as [E _]. exact E.
    - intros ->. simpl in V. rewrite V. reflexivity. }
  destruct P1 as [W1 S1]. split; [exact W1|]. split; [eapply Stable_trans; [apply Stable_bump|exact S1]|].
  split.
  - apply (publish_get (bump st) p l d0 t0 i G).
  - intros x N. rewrite publish_other by congruence. reflexivity.
Qed.

Lemma annotate_fresh lookup k ref st p l d od st' t i :
  lookup_wf lookup -> lookup_fresh lookup k ->
  WF st -> Stable ref st -> Acyc ref -> ends (S k) ref p = true ->
  get st p = Some i -> loc_vis i l d -> FreshR ref (Anc ref p) st ->
  annotate_with lookup st p l d od = (st', t) ->
  Untouched (Anc ref p) st st' /\ FreshR ref (Anc ref p) st' /\ chain_of t = LC ref p.
Proof.
  intros LW LF W S A He G V F H.
  destruct (Stable_get ref st p i S G) as (i0 & G0 & EL).
  destruct (vis_ok p i l d (W p i G) V) as [Ev Kd].
  assert (Ev0 : d_ver d = logical i0) by congruence.
  pose proof (LC_unfold ref p i0 A G0) as LCp.
  pose proof (Anc_self ref p i0 G0) as Aself.
  pose proof (loc_vis_shape i l d V) as Sh.
  unfold annotate_with in H. fold (bump st) in H.
  destruct (first_publish_ok st p l d od i W G V) as (W1 & S1 & G1 & O1).
  set (t0 := Tbl (next st) p (d_ver d) None) in *.
  set (d0 := mkD (d_ver d) (Some (t0, od)) (d_adiags d)) in *.
  set (st1 := publish (bump st) p l d0 t0) in *.
  assert (Sr1 : Stable ref st1) by (eapply Stable_trans; eauto).
  assert (Ct0 : forall u, In u (cached_tables (published i l d0 t0)) -> u = t0).
  { intros u Hu. apply (published_cached i l d0 t0 od u Sh); [reflexivity|exact Hu]. }
  rewrite Ev0 in H.
  destruct (vpar (logical i0)) as [q|] eqn:Ep.
  2:{ (* no parent *)
    inversion H; subst st' t. clear H. split; [|split].
    - intros x Nx. apply O1. intro E; subst x. apply Nx; exact Aself.
    - intros x ix u Hx Gx Hu.
      destruct (Anc_cases ref p i0 x A G0 Hx) as [->|(q & Eq & _)]; [|rewrite Ep in Eq; discriminate].
      rewrite G1 in Gx; inversion Gx; subst ix. rewrite (Ct0 u Hu). rewrite LCp. simpl. rewrite Ev0. reflexivity.
    - rewrite LCp. simpl. rewrite Ev0. reflexivity. }
  pose proof (Anc_not_self ref p i0 q A G0 Ep) as Nself.
  destruct (Nat.eqb q p) eqn:Eqp.
  { apply Nat.eqb_eq in Eqp; subst q. contradiction. }
  apply Nat.eqb_neq in Eqp.
  destruct (lookup st1 q) as [st2 r] eqn:El.
  assert (Heq : ends k ref q = true).
  { simpl in He. rewrite G0, Ep in He. exact He. }
  assert (F1 : FreshR ref (Anc ref q) st1).
  { intros x ix u Hx Gx Hu. assert (Nx : x <> p) by (intro E; subst x; contradiction).
    rewrite (O1 x Nx) in Gx. apply (F x ix u); auto. eapply Anc_parent; eauto. }
  destruct (LF ref st1 q st2 r W1 Sr1 A Heq F1 El) as (U2 & F2 & R2).
  destruct (LW st1 q st2 r W1 El) as (W2 & S2 & _).
  assert (G2 : get st2 p = Some (published i l d0 t0)) by (rewrite (U2 p Nself); exact G1).
  assert (U02 : forall x, ~ Anc ref p x -> get st2 x = get st x).
  { intros x Nx. assert (x <> p) by (intro E; subst x; contradiction).
    rewrite U2; [apply O1; assumption|]. intro Hq. apply Nx. eapply Anc_parent; eauto. }
  destruct r as [pt|].
  2:{ (* the parent is not a document of the workspace *)
    inversion H; subst st' t. clear H.
    destruct (get ref q) as [iq|] eqn:Gq; [destruct R2 as (u & E & _); discriminate|].
    split; [exact U02|]. split.
    - intros x ix u Hx Gx Hu.
      destruct (Anc_cases ref p i0 x A G0 Hx) as [->|(q' & Eq' & Hq')].
      + rewrite G2 in Gx; inversion Gx; subst ix. rewrite (Ct0 u Hu).
        rewrite LCp, (LC_none ref q Gq). simpl. rewrite Ev0. reflexivity.
      + rewrite Ep in Eq'; inversion Eq'; subst q'. apply (F2 x ix u); auto.
    - rewrite LCp, (LC_none ref q Gq). simpl. rewrite Ev0. reflexivity. }
  destruct (get ref q) as [iq|] eqn:Gq; [|discriminate].
  destruct R2 as (u0 & E0 & Cpt). inversion E0; subst u0. clear E0.
  destruct (reachable p (next st) pt) eqn:Er.
  { exfalso. apply Nself. unfold Anc. rewrite <- Cpt. apply (reachable_in_chain p (next st) pt Er). }
  inversion H; subst st' t. clear H.
  set (t := Tbl (next st) p (logical i0) (Some pt)) in *.
  set (d1 := mkD (logical i0) (Some (t, od)) (d_adiags d)) in *.
  assert (Ct : chain_of t = LC ref p).
  { rewrite LCp. unfold t. simpl. destruct pt; simpl in *. rewrite Cpt. reflexivity. }
  assert (G3 : get (publish st2 p l d1 t) p = Some (published (published i l d0 t0) l d1 t))
    by (apply (publish_get st2 p l d1 t _ G2)).
  split; [|split; [|exact Ct]].
  - intros x Nx. assert (x <> p) by (intro E; subst x; contradiction).
    rewrite publish_other by congruence. apply U02; exact Nx.
  - intros x ix u Hx Gx Hu.
    destruct (Anc_cases ref p i0 x A G0 Hx) as [->|(q' & Eq' & Hq')].
    + rewrite G3 in Gx; inversion Gx; subst ix.
      rewrite (published_cached _ l d1 t od u (published_shape i l d0 t0 Sh) eq_refl Hu). exact Ct.
    + rewrite Ep in Eq'; inversion Eq'; subst q'.
      assert (x <> p) by (intro E; subst x; contradiction).
      rewrite publish_other in Gx by congruence. apply (F2 x ix u); auto.
Qed.

Lemma vis_annot_cached i l d t od : loc_vis i l d -> d_annot d = Some (t, od) -> In t (cached_tables i).
Proof.
  intros V Ea. unfold cached_tables, visible. apply in_or_app. right. destruct l; simpl in V.
  - rewrite V, Ea. left; reflexivity.
  - destruct V as [V1 V2]. rewrite V1, V2, Ea. left; reflexivity.
  - destruct V as (_ & _ & ->). simpl in Ea. discriminate.
Qed.

Lemma symtab_fresh fuel : lookup_fresh (symtab fuel) fuel.
Proof.
  induction fuel as [|f IH]; intros ref st q st' r W S A He F H; [simpl in He; discriminate|].
  simpl in H. destruct (get st q) as [i|] eqn:G.
  2:{ inversion H; subst. split; [intros x _; reflexivity|]. split; [exact F|].
      destruct (get ref q) as [i0|] eqn:G0; [|reflexivity].
      destruct S as (_ & _ & HS). destruct (HS q i0 G0) as (i' & G' & _). congruence. }
  destruct (Stable_get ref st q i S G) as (i0 & G0 & EL). rewrite G0.
  pose proof (Anc_self ref q i0 G0) as Aself.
  destruct (stab i) as [t|] eqn:Es.
  { inversion H; subst. split; [intros x _; reflexivity|]. split; [exact F|].
    exists t; split; [reflexivity|]. apply (F q i t Aself G).
    unfold cached_tables. rewrite Es. left; reflexivity. }
  destruct (get_parsed_nocache i) as [l d] eqn:Ep.
  pose proof (get_parsed_nocache_spec i l d Ep) as V.
  destruct (d_annot d) as [[t od]|] eqn:Ea.
  { inversion H; subst. split; [intros x _; reflexivity|]. split; [exact F|].
    exists t; split; [reflexivity|]. apply (F q i t Aself G). eapply vis_annot_cached; eauto. }
  destruct (annotate_with (symtab f) st q l d true) as [st1 t] eqn:Ean.
  inversion H; subst.
  destruct (annotate_fresh _ f ref st q l d true st' t i (symtab_wf f) IH W S A He G V F Ean) as (U & F' & C).
  split; [exact U|]. split; [exact F'|]. exists t; split; [reflexivity|exact C].
Qed.

Local Arguments symtab : simpl never.
Local Arguments fuel_of : simpl never.

Lemma Anc_dec st q x : Anc st q x \/ ~ Anc st q x.
Proof. unfold Anc. destruct (in_dec Nat.eq_dec x (map fst (LC st q))); [left|right]; assumption. Qed.

Lemma fresh_lift ref P st st' :
  (forall x, P x \/ ~ P x) ->
  FreshR ref (fun _ => True) st -> Untouched P st st' -> FreshR ref P st' -> FreshR ref (fun _ => True) st'.
Proof.
  intros D F U F' x ix u _ Gx Hu. destruct (D x) as [Px|Nx].
  - apply (F' x ix u Px Gx Hu).
  - rewrite (U x Nx) in Gx. apply (F x ix u I Gx Hu).
Qed.

Lemma AllFresh_same ref st : SameText ref st -> FreshR ref (fun _ => True) st -> AllFresh st.
Proof.
  intros S F x ix u _ Gx Hu. rewrite (LC_same ref st S). apply (F x ix u I Gx Hu).
Qed.

Lemma AllFresh_of ref st : Stable ref st -> FreshR ref (fun _ => True) st -> AllFresh st.
Proof. intros S. apply AllFresh_same. apply Stable_SameText; exact S. Qed.

Lemma Acyc_ends_S st p : Acyc st -> ends (S (nd st)) st p = true.
Proof. intro A. apply (ends_mono (nd st)); [apply A|lia]. Qed.

(* get_symbol_table_for_uri_def_only from a request *)
Lemma symtab_allfresh st q st' r :
  WF st -> Acyc st -> AllFresh st -> symtab (fuel_of st) st q = (st', r) ->
  WF st' /\ Stable st st' /\ AllFresh st' /\
  match get st q with Some _ => exists t, r = Some t /\ chain_of t = LC st q | None => r = None end.
Proof.
  intros W A F H.
  destruct (symtab_wf _ _ _ _ _ W H) as (W' & S' & _).
  assert (Fq : FreshR st (Anc st q) st) by (intros x ix u _ Gx Hu; apply (F x ix u I Gx Hu)).
  destruct (symtab_fresh (fuel_of st) st st q st' r W (Stable_refl st) A (A q) Fq H) as (U & F' & R).
  split; [exact W'|]. split; [exact S'|]. split; [|exact R].
  apply (AllFresh_of st); [exact S'|].
  apply (fresh_lift st (Anc st q) st st'); auto using Anc_dec.
Qed.

Lemma analyze_full_fresh st p st' r :
  WF st -> Acyc st -> AllFresh st -> analyze_full st p = (st', r) ->
  AllFresh st' /\ (forall i, get st p = Some i -> exists t, r = Some t /\ chain_of t = LC st p).
Proof.
  intros W A F H.
  destruct (analyze_full_wf st p st' r W H) as (W' & S' & _).
  unfold analyze_full in H.
  destruct (get st p) as [i|] eqn:G.
  2:{ inversion H; subst. split; [exact F|intros; discriminate]. }
  destruct (get_parsed i) as [[i1 l] d] eqn:Ep.
  destruct (get_parsed_spec p i i1 l d (W p i G) Ep) as (K1 & T1 & V1 & Nl & _ & Sub).
  set (st1 := set_info st p (fun _ => i1)) in *.
  assert (W1 : WF st1) by (apply WF_set; [exact W|]; intros; exact K1).
  assert (S1 : Stable st st1).
  { apply Stable_set. intros j Gj. rewrite G in Gj; inversion Gj; subst; exact T1. }
  assert (G1 : get st1 p = Some i1) by (apply (get_set_same st p _ i G)).
  assert (F1 : FreshR st (fun _ => True) st1).
  { intros x ix u _ Gx Hu. destruct (Nat.eq_dec p x) as [<-|N].
    - rewrite G1 in Gx; inversion Gx; subst ix. apply (F p i u I G). apply Sub; exact Hu.
    - unfold st1 in Gx. rewrite get_set_other in Gx by exact N. apply (F x ix u I Gx Hu). }
  assert (ANN : forall st2 t2, annotate_with (symtab (fuel_of st)) st1 p l d false = (st2, t2) ->
                Stable st st2 -> AllFresh st2 /\ chain_of t2 = LC st p).
  { intros st2 t2 Ean S2.
    assert (F1p : FreshR st (Anc st p) st1) by (intros x ix u _ Gx Hu; apply (F1 x ix u I Gx Hu)).
    destruct (annotate_fresh _ (fuel_of st) st st1 p l d false st2 t2 i1 (symtab_wf _) (symtab_fresh _)
                W1 S1 A (Acyc_ends_S st p A) G1 V1 F1p Ean) as (U & F2 & C).
    split; [|exact C]. apply (AllFresh_of st); [exact S2|].
    apply (fresh_lift st (Anc st p) st1 st2); auto using Anc_dec. }
  destruct (d_annot d) as [[t [|]]|] eqn:Ea.
  - destruct (annotate_with (symtab (fuel_of st)) st1 p l d false) as [st2 t2] eqn:Ean.
    inversion H; subst. destruct (ANN _ _ eq_refl S') as [F2 C]. split; [exact F2|].
    intros j Gj. exists t2; split; [reflexivity|exact C].
  - inversion H; subst. split; [apply (AllFresh_of st); assumption|].
    intros j Gj. exists t; split; [reflexivity|]. apply (F1 p i1 t I G1). eapply vis_annot_cached; eauto.
  - destruct (annotate_with (symtab (fuel_of st)) st1 p l d false) as [st2 t2] eqn:Ean.
    inversion H; subst. destruct (ANN _ _ eq_refl S') as [F2 C]. split; [exact F2|].
    intros j Gj. exists t2; split; [reflexivity|exact C].
Qed.

(* ---------- what each request answers when every cached table is fresh ---------- *)

Definition tree_list (st : state) (es : list nat) : list (nat * version) :=
  flat_map (fun e => match get st e with Some i => [(e, logical i)] | None => [] end) es.

Definition tree_parent (st : state) (p : nat) : list nat :=
  match nth_error (tree st) p with Some (Some e) => [e] | _ => [] end.

(* the answer in terms of the logical texts (and of the class tree the server holds) *)
Definition spec (st : state) (k : kind) (p : nat) : answer :=
  match get st p with
  | None => AErr
  | Some i =>
      match k with
      | KSym => ALocal p (logical i)
      | KDiag => ADiag p (logical i) (logical i) (Some (logical i))
      | KChain => AChain (LC st p)
      | KSuper _ => ATree (tree_list st (tree_parent st p))
      | KSub _ => ATree (tree_list st (children st p))
      end
  end.

Lemma tree_list_same st st' es : SameText st st' -> tree_list st' es = tree_list st es.
Proof.
  intros [_ H]. unfold tree_list. induction es as [|e es IH]; simpl; [reflexivity|].
  rewrite IH. f_equal. specialize (H e).
  destruct (get st e), (get st' e); simpl in H; try discriminate; [|reflexivity]. inversion H. reflexivity.
Qed.

Lemma chain_head t : exists rest, chain_of t = (t_doc t, t_ver t) :: rest.
Proof. destruct t as [i d v [u|]]; simpl; eexists; reflexivity. Qed.

Lemma fuel_of_stable st st' : Stable st st' -> fuel_of st' = fuel_of st.
Proof. intros (_ & L & _). unfold fuel_of. rewrite L. reflexivity. Qed.

Lemma Acyc_stable st st' : Stable st st' -> Acyc st -> Acyc st'.
Proof. intros S. apply Acyc_same. apply Stable_SameText; exact S. Qed.

Lemma consult_fresh : forall es st st' l,
  WF st -> Acyc st -> AllFresh st -> consult st (fuel_of st) es = (st', l) ->
  WF st' /\ Stable st st' /\ AllFresh st' /\ l = tree_list st es.
Proof.
  induction es as [|e es IH]; intros st st' l W A F H; simpl in H.
  - inversion H; subst. split; [exact W|]. split; [apply Stable_refl|]. split; [exact F|reflexivity].
  - destruct (symtab (fuel_of st) st e) as [st1 r] eqn:E1.
    destruct (consult st1 (fuel_of st) es) as [st2 rest] eqn:E2.
    inversion H; subst st' l. clear H.
    destruct (symtab_allfresh st e st1 r W A F E1) as (W1 & S1 & F1 & R).
    rewrite <- (fuel_of_stable st st1 S1) in E2.
    destruct (IH st1 st2 rest W1 (Acyc_stable _ _ S1 A) F1 E2) as (W2 & S2 & F2 & ->).
    split; [exact W2|]. split; [eapply Stable_trans; eauto|]. split; [exact F2|].
    rewrite (tree_list_same st st1 es (Stable_SameText _ _ S1)).
    unfold tree_list at 2. simpl. fold (tree_list st es).
    destruct (get st e) as [i|] eqn:G.
    + destruct R as (t & -> & C). destruct (chain_head t) as [rest' Ch].
      rewrite (LC_unfold st e i A G) in C. rewrite Ch in C. inversion C. reflexivity.
    + subst r. reflexivity.
Qed.

Lemma put_doc_cached i l d d' :
  loc_vis i l d -> d_annot d' = d_annot d ->
  forall t, In t (cached_tables (put_doc i l d')) -> In t (cached_tables i).
Proof.
  intros V E t H. unfold cached_tables, visible in *. destruct l; simpl in *.
  - rewrite V. rewrite E in H. exact H.
  - destruct V as [V1 V2]. rewrite V1 in *. rewrite V2. rewrite E in H. exact H.
  - exact H.
Qed.

Lemma set_info_allfresh st p i i' :
  AllFresh st -> get st p = Some i -> same_text i i' ->
  (forall t, In t (cached_tables i') -> In t (cached_tables i)) ->
  AllFresh (set_info st p (fun _ => i')).
Proof.
  intros F G T Sub. apply (AllFresh_of st).
  - apply Stable_set. intros j Gj. rewrite G in Gj; inversion Gj; subst; exact T.
  - intros x ix u _ Gx Hu. destruct (Nat.eq_dec p x) as [<-|N].
    + rewrite (get_set_same st p _ i G) in Gx; inversion Gx; subst ix. apply (F p i u I G). apply Sub; exact Hu.
    + rewrite get_set_other in Gx by exact N. apply (F x ix u I Gx Hu).
Qed.

Lemma request_fresh st k p :
  WF st -> Acyc st -> AllFresh st ->
  AllFresh (fst (request st k p)) /\ snd (request st k p) = spec st k p.
Proof.
  intros W A F. unfold spec. destruct k as [| | |m|m]; simpl.
  - (* documentSymbol *)
    destruct (req_sym_spec st p W) as (_ & _ & Ans).
    unfold req_sym in *. destruct (get st p) as [i|] eqn:G; [|split; [exact F|reflexivity]].
    specialize (Ans i eq_refl).
    destruct (get_parsed i) as [[i1 l] d] eqn:Ep. simpl in *.
    destruct (get_parsed_spec p i i1 l d (W p i G) Ep) as (K1 & T1 & V1 & Nl & _ & Sub).
    split; [|exact Ans]. apply (set_info_allfresh st p i i1); assumption.
  - (* diagnostic *)
    destruct (req_diag_spec st p W) as (_ & _ & Ans).
    unfold req_diag in *. destruct (get st p) as [i|] eqn:G; [|split; [exact F|reflexivity]].
    specialize (Ans i eq_refl).
    destruct (get_parsed i) as [[i1 l] d] eqn:Ep.
    destruct (get_parsed_spec p i i1 l d (W p i G) Ep) as (K1 & T1 & V1 & Nl & _ & Sub).
    set (a := match d_adiags d with Some a => a | None => d_ver d end) in *.
    set (d1 := mkD (d_ver d) (d_annot d) (Some a)) in *.
    destruct (vis_ok p i1 l d K1 V1) as [Ev Kd].
    assert (Ea : a = d_ver d).
    { unfold a. destruct (d_adiags d) as [x|] eqn:Ex; [|reflexivity]. destruct Kd as [Ka _]. apply Ka; exact Ex. }
    assert (Kd1 : doc_ok p d1).
    { destruct Kd as [Ka Kb]. split; simpl; [intros x Ex; inversion Ex; subst x; exact Ea|exact Kb]. }
    destruct (put_doc_ok p i1 l d d1 K1 V1 Kd1 eq_refl) as (K2 & T2 & V2).
    set (st1 := set_info st p (fun _ => put_doc i1 l d1)) in *.
    assert (W1 : WF st1) by (apply WF_set; [exact W|]; intros; exact K2).
    assert (S1 : Stable st st1).
    { apply Stable_set. intros j Gj. rewrite G in Gj; inversion Gj; subst. eapply same_text_trans; eauto. }
    assert (F1 : AllFresh st1).
    { apply (set_info_allfresh st p i (put_doc i1 l d1)); auto.
      - eapply same_text_trans; eauto.
      - intros t Ht. apply Sub. apply (put_doc_cached i1 l d d1 V1 eq_refl t Ht). }
    destruct (analyze_full st1 p) as [st2 r] eqn:Ean. simpl in *.
    destruct (analyze_full_fresh st1 p st2 r W1 (Acyc_stable _ _ S1 A) F1 Ean) as [F2 _].
    split; [exact F2|exact Ans].
  - (* definition, completion, prepareTypeHierarchy *)
    unfold req_chain. destruct (analyze_full st p) as [st' r] eqn:Ean.
    destruct (analyze_full_fresh st p st' r W A F Ean) as [F' R].
    destruct (get st p) as [i|] eqn:G.
    + destruct (R i eq_refl) as (t & -> & C). simpl. split; [exact F'|]. rewrite C. reflexivity.
    + unfold analyze_full in Ean. rewrite G in Ean. inversion Ean; subst. simpl. split; [exact F|reflexivity].
  - (* supertypes *)
    unfold req_tree. destruct (get st p) as [i|] eqn:G; [|split; [exact F|reflexivity]].
    assert (B : exists st1, (if m then (let '(s, r) := symtab (fuel_of st) st p in (s, match r with Some _ => true | None => false end))
                             else (st, true)) = (st1, true) /\ WF st1 /\ Stable st st1 /\ AllFresh st1).
    { destruct m.
      - destruct (symtab (fuel_of st) st p) as [s r] eqn:E.
        destruct (symtab_allfresh st p s r W A F E) as (W1 & S1 & F1 & R). rewrite G in R. destruct R as (t & -> & _).
        exists s. split; [reflexivity|]. split; [exact W1|]. split; assumption.
      - exists st. split; [reflexivity|]. split; [exact W|]. split; [apply Stable_refl|exact F]. }
    destruct B as (st1 & -> & W1 & S1 & F1). simpl.
    fold (tree_parent st p).
    destruct (consult st1 (fuel_of st) (tree_parent st p)) as [st2 l] eqn:Ec.
    rewrite <- (fuel_of_stable st st1 S1) in Ec.
    destruct (consult_fresh _ st1 st2 l W1 (Acyc_stable _ _ S1 A) F1 Ec) as (_ & _ & F2 & ->). simpl.
    split; [exact F2|]. rewrite (tree_list_same st st1 _ (Stable_SameText _ _ S1)). reflexivity.
  - (* subtypes *)
    unfold req_tree. destruct (get st p) as [i|] eqn:G; [|split; [exact F|reflexivity]].
    assert (B : exists st1, (if m then (let '(s, r) := symtab (fuel_of st) st p in (s, match r with Some _ => true | None => false end))
                             else (st, true)) = (st1, true) /\ WF st1 /\ Stable st st1 /\ AllFresh st1).
    { destruct m.
      - destruct (symtab (fuel_of st) st p) as [s r] eqn:E.
        destruct (symtab_allfresh st p s r W A F E) as (W1 & S1 & F1 & R). rewrite G in R. destruct R as (t & -> & _).
        exists s. split; [reflexivity|]. split; [exact W1|]. split; assumption.
      - exists st. split; [reflexivity|]. split; [exact W|]. split; [apply Stable_refl|exact F]. }
    destruct B as (st1 & -> & W1 & S1 & F1). simpl.
    destruct (consult st1 (fuel_of st) (children st p)) as [st2 l] eqn:Ec.
    rewrite <- (fuel_of_stable st st1 S1) in Ec.
    destruct (consult_fresh _ st1 st2 l W1 (Acyc_stable _ _ S1 A) F1 Ec) as (_ & _ & F2 & ->). simpl.
    split; [exact F2|]. rewrite (tree_list_same st st1 _ (Stable_SameText _ _ S1)). reflexivity.
Qed.

(* ---------- the fresh server ---------- *)

Lemma tree_eqb_eq a : forall b, tree_eqb a b = true <-> a = b.
Proof.
  induction a as [|x a IH]; intros [|y b]; simpl; split; intro H; try discriminate; try reflexivity.
  - apply andb_true_iff in H as [H1 H2]. apply opt_nat_eqb_eq in H1. apply IH in H2. congruence.
  - inversion H; subst. apply andb_true_iff. split; [apply opt_nat_eqb_eq; reflexivity|apply IH; reflexivity].
Qed.

Lemma SameText_init st : SameText st (init (logical_ws st)).
Proof.
  split.
  - unfold init, logical_ws; simpl. rewrite !map_length. reflexivity.
  - intro p. rewrite get_init_logical. destruct (get st p); reflexivity.
Qed.

Lemma init_allfresh ws : AllFresh (init ws).
Proof.
  intros x ix u _ Gx Hu. rewrite get_init in Gx. destruct (nth_error ws x); inversion Gx; subst.
  simpl in Hu. contradiction.
Qed.

Definition tree_cond (st : state) (k : kind) : Prop :=
  match k with KSuper _ | KSub _ => tree_fresh st = true | _ => True end.

Lemma spec_init st k p : tree_cond st k -> spec (init (logical_ws st)) k p = spec st k p.
Proof.
  intro TC. unfold spec. rewrite get_init_logical.
  pose proof (SameText_init st) as S.
  destruct (get st p) as [i|]; simpl; [|reflexivity].
  destruct k as [| | |m|m]; simpl in *; try reflexivity.
  - rewrite (LC_same _ _ S). reflexivity.
  - apply tree_eqb_eq in TC. rewrite (tree_list_same _ _ _ S). unfold tree_parent. simpl. rewrite <- TC. reflexivity.
  - apply tree_eqb_eq in TC. rewrite (tree_list_same _ _ _ S). unfold children. simpl. rewrite <- TC. reflexivity.
Qed.

Lemma fresh_answer_spec st k p : Acyc st -> tree_cond st k -> fresh_answer st k p = spec st k p.
Proof.
  intros A TC. unfold fresh_answer.
  destruct (request_fresh (init (logical_ws st)) k p (init_wf _) (Acyc_same _ _ (SameText_init st) A) (init_allfresh _)) as [_ E].
  rewrite E. apply spec_init; exact TC.
Qed.

(* every answer is the fresh server's when every cached table is fresh (and, for the hierarchy
   requests, the class tree is that of the logical workspace) *)
Lemma answer_fresh st k p :
  WF st -> Acyc st -> AllFresh st -> tree_cond st k -> snd (request st k p) = fresh_answer st k p.
Proof.
  intros W A F TC. destruct (request_fresh st k p W A F) as [_ E]. rewrite E.
  symmetry. apply fresh_answer_spec; assumption.
Qed.

(* ------------------------------------------------------------------------------------------ *)
(* Part 3: when change / save / close keep every cached table fresh                            *)
(* ------------------------------------------------------------------------------------------ *)

Lemma mentions_In p t : mentions p t = true <-> In p (map fst (chain_of t)).
Proof.
  unfold mentions. rewrite existsb_exists. split.
  - intros (x & Hx & E). apply Nat.eqb_eq in E. apply in_map_iff. exists x; split; assumption.
  - intro H. apply in_map_iff in H as (x & E & Hx). exists x; split; [exact Hx|apply Nat.eqb_eq; exact E].
Qed.

Lemma dependents_from_spec l : forall k p,
  dependents_from k l p = true <->
  exists n i t, nth_error l n = Some i /\ (k + n)%nat <> p /\ In t (cached_tables i) /\ In p (map fst (chain_of t)).
Proof.
  induction l as [|i l IH]; intros k p; simpl.
  - split; [discriminate|]. intros (n & j & t & H & _). destruct n; discriminate.
  - rewrite orb_true_iff, andb_true_iff, negb_true_iff, Nat.eqb_neq, existsb_exists, IH. split.
    + intros [[N (t & Ht & M)]|(n & j & t & H & N & Ht & M)].
      * exists 0%nat, i, t. rewrite Nat.add_0_r. repeat split; auto. apply mentions_In; exact M.
      * exists (S n), j, t. repeat split; auto. lia.
    + intros (n & j & t & H & N & Ht & M). destruct n as [|n]; simpl in H.
      * inversion H; subst j. left. split; [lia|]. exists t; split; [exact Ht|apply mentions_In; exact M].
      * right. exists n, j, t. repeat split; auto. lia.
Qed.

Lemma has_dependents_spec st p :
  has_dependents st p = true <->
  exists x i t, x <> p /\ get st x = Some i /\ In t (cached_tables i) /\ In p (map fst (chain_of t)).
Proof.
  unfold has_dependents. rewrite dependents_from_spec. split.
  - intros (n & i & t & H & N & Ht & M). exists n, i, t. repeat split; auto.
  - intros (x & i & t & N & H & Ht & M). exists x, i, t. repeat split; auto.
Qed.

Lemma lchain_irrelevant f : forall st st' p x,
  (forall y, y <> p -> get st' y = get st y) -> (get st p = None -> get st' p = None) ->
  ~ In p (map fst (lchain f st x)) -> lchain f st' x = lchain f st x.
Proof.
  induction f as [|f IH]; intros st st' p x Ho Hn Nin; simpl; [reflexivity|]. simpl in Nin.
  destruct (get st x) as [i|] eqn:G.
  - simpl in Nin. assert (N : x <> p) by (intro E; apply Nin; left; exact E).
    rewrite (Ho x N), G. f_equal. destruct (vpar (logical i)) as [q|]; [|reflexivity].
    apply (IH st st' p q Ho Hn). intro H. apply Nin. right; exact H.
  - destruct (Nat.eq_dec x p) as [->|N]; [rewrite (Hn G)|rewrite (Ho x N), G]; reflexivity.
Qed.

Lemma LC_head st p i : get st p = Some i -> exists rest, LC st p = (p, logical i) :: rest.
Proof. intro G. unfold LC, nd. simpl. rewrite G. eexists; reflexivity. Qed.

(* an edit of document p alone: f rewrites p's record *)
Section Edit.
  Variable st : state.
  Variable p : nat.
  Variable f : dinfo -> dinfo.
  Let st' := set_info st p f.

  Lemma edit_other y : y <> p -> get st' y = get st y.
  Proof. intro N. unfold st'. apply get_set_other. congruence. Qed.

  Lemma edit_none : get st p = None -> get st' p = None.
  Proof. intro G. unfold st'. rewrite set_info_none by exact G. exact G. Qed.

  Lemma edit_nd : nd st' = nd st.
  Proof. unfold nd, st'. rewrite length_set. reflexivity. Qed.

  (* the logical text of p does not change and no new table appears at p *)
  Lemma edit_same_text i :
    AllFresh st -> get st p = Some i -> logical (f i) = logical i ->
    (forall t, In t (cached_tables (f i)) -> In t (cached_tables i)) -> AllFresh st'.
  Proof.
    intros F G E Sub. apply (AllFresh_same st).
    - split; [unfold st'; apply length_set|]. intro x. destruct (Nat.eq_dec x p) as [->|N].
      + unfold st'. rewrite (get_set_same st p f i G), G. simpl. rewrite E. reflexivity.
      + rewrite (edit_other x N). reflexivity.
    - intros x ix u _ Gx Hu. destruct (Nat.eq_dec x p) as [->|N].
      + unfold st' in Gx. rewrite (get_set_same st p f i G) in Gx. inversion Gx; subst ix.
        apply (F p i u I G). apply Sub; exact Hu.
      + rewrite (edit_other x N) in Gx. apply (F x ix u I Gx Hu).
  Qed.

  (* nothing is cached at p afterwards and no other document depends on p *)
  Lemma edit_no_dependents i :
    AllFresh st -> get st p = Some i -> cached_tables (f i) = [] -> has_dependents st p = false -> AllFresh st'.
  Proof.
    intros F G E D x ix u _ Gx Hu. destruct (Nat.eq_dec x p) as [->|N].
    - unfold st' in Gx. rewrite (get_set_same st p f i G) in Gx. inversion Gx; subst ix.
      rewrite E in Hu. contradiction.
    - rewrite (edit_other x N) in Gx. rewrite (F x ix u I Gx Hu).
      unfold LC. rewrite edit_nd. symmetry. apply (lchain_irrelevant _ st st' p x edit_other edit_none).
      fold (LC st x). rewrite <- (F x ix u I Gx Hu). intro M.
      assert (has_dependents st p = true); [|congruence].
      apply has_dependents_spec. exists x, ix, u. repeat split; auto.
  Qed.

  (* the logical text of p changes while another document's cached table mentions p: that table is stale *)
  Lemma edit_with_dependents i :
    AllFresh st -> get st p = Some i -> logical (f i) <> logical i -> has_dependents st p = true -> ~ AllFresh st'.
  Proof.
    intros F G E D F'. apply has_dependents_spec in D as (x & ix & u & N & Gx & Hu & M).
    pose proof (F x ix u I Gx Hu) as C. rewrite C in M.
    destruct (in_lchain_fst _ st x p M) as (i0 & G0 & Hin). rewrite G in G0; inversion G0; subst i0.
    fold (LC st x) in Hin. rewrite <- C in Hin.
    assert (Gx' : get st' x = Some ix) by (rewrite (edit_other x N); exact Gx).
    rewrite (F' x ix u I Gx' Hu) in Hin.
    destruct (in_lchain _ st' x p (logical i) Hin) as (i' & G' & E').
    unfold st' in G'. rewrite (get_set_same st p f i G) in G'. inversion G'; subst i'. congruence.
  Qed.
End Edit.

Lemma change_iff st p v :
  AllFresh st ->
  (AllFresh (fst (step st (Change p v))) <-> trigger_dep st (Change p v) = false).
Proof.
  intro F. simpl. unfold trigger_dep, changes_logical.
  set (f := fun i : dinfo => mkI (disk i) (saved i) (Some (new_doc v)) None).
  destruct (get st p) as [i|] eqn:G.
  2:{ rewrite set_info_none by exact G. split; auto. }
  assert (Ec : cached_tables (f i) = []) by reflexivity.
  assert (El : logical (f i) = v) by reflexivity.
  destruct (version_eqb v (logical i)) eqn:Ev.
  - apply version_eqb_eq in Ev. split; [reflexivity|]. intros _.
    apply (edit_same_text st p f i F G); [congruence|]. rewrite Ec. intros t [].
  - apply version_eqb_neq in Ev. split.
    + intro F'. destruct (has_dependents st p) eqn:D; [|reflexivity].
      exfalso. apply (edit_with_dependents st p f i F G); [congruence|exact D|exact F'].
    + intro D. apply (edit_no_dependents st p f i F G Ec D).
Qed.

Lemma save_preserves st p : AllFresh st -> AllFresh (fst (step st (Save p))).
Proof.
  intro F. simpl. destruct (get st p) as [i|] eqn:G.
  - apply (edit_same_text st p _ i F G); [reflexivity|]. intros t [].
  - rewrite set_info_none by exact G. exact F.
Qed.

Lemma close_iff st p :
  AllFresh st ->
  (AllFresh (fst (step st (Close p))) <-> trigger_dep st (Close p) = false).
Proof.
  intro F. simpl. unfold trigger_dep, changes_logical.
  set (f := fun i : dinfo => mkI (disk i) None None None).
  destruct (get st p) as [i|] eqn:G.
  2:{ rewrite set_info_none by exact G. split; auto. }
  assert (Ec : cached_tables (f i) = []) by reflexivity.
  assert (El : logical (f i) = disk i) by reflexivity.
  destruct (version_eqb (disk i) (logical i)) eqn:Ev.
  - apply version_eqb_eq in Ev. split; [reflexivity|]. intros _.
    apply (edit_same_text st p f i F G); [congruence|]. rewrite Ec. intros t [].
  - apply version_eqb_neq in Ev. split.
    + intro F'. destruct (has_dependents st p) eqn:D; [|reflexivity].
      exfalso. apply (edit_with_dependents st p f i F G); [congruence|exact D|exact F'].
    + intro D. apply (edit_no_dependents st p f i F G Ec D).
Qed.

(* regression: the close handler before /repo 9bf8fa8 kept the DocumentInfo's table; it preserved AllFresh
   only if, in addition, no table was held (or the text did not change) *)
Lemma old_close_iff st p :
  AllFresh st ->
  (AllFresh (old_close st p) <->
   trigger_dep st (Close p) = false /\
   match get st p with
   | Some i => version_eqb (disk i) (logical i) || match stab i with Some _ => false | None => true end
   | None => true
   end = true).
Proof.
  intro F. unfold old_close, trigger_dep, changes_logical.
  set (f := fun i : dinfo => mkI (disk i) None None (stab i)).
  destruct (get st p) as [i|] eqn:G.
  2:{ rewrite set_info_none by exact G. split; auto. }
  assert (El : logical (f i) = disk i) by reflexivity.
  assert (Sub : forall t, In t (cached_tables (f i)) -> In t (cached_tables i)).
  { intros t H. unfold cached_tables in *. simpl in H. rewrite app_nil_r in H. apply in_or_app. left; exact H. }
  destruct (version_eqb (disk i) (logical i)) eqn:Ev.
  - apply version_eqb_eq in Ev. split; [split; reflexivity|]. intros _.
    apply (edit_same_text st p f i F G); [congruence|exact Sub].
  - apply version_eqb_neq in Ev. simpl. split.
    + intro F'. split.
      * destruct (has_dependents st p) eqn:D; [|reflexivity].
        exfalso. apply (edit_with_dependents st p f i F G); [congruence|exact D|exact F'].
      * destruct (stab i) as [t|] eqn:Es; [|reflexivity]. exfalso.
        assert (Ht : In t (cached_tables i)) by (unfold cached_tables; rewrite Es; left; reflexivity).
        assert (Ht' : In t (cached_tables (f i))) by (unfold cached_tables; simpl; rewrite Es; left; reflexivity).
        pose proof (F p i t I G Ht) as C.
        assert (G' : get (set_info st p f) p = Some (f i)) by (apply get_set_same; exact G).
        pose proof (F' p (f i) t I G' Ht') as C'.
        destruct (LC_head st p i G) as [r1 H1]. destruct (LC_head _ p (f i) G') as [r2 H2].
        rewrite C, H1, H2 in C'. inversion C'. congruence.
    + intros [D Es]. destruct (stab i) as [t|] eqn:Est; [discriminate|].
      apply (edit_no_dependents st p f i F G); [|exact D].
      unfold cached_tables. simpl. rewrite Est. reflexivity.
Qed.

(* ------------------------------------------------------------------------------------------ *)
(* Part 4: outside the known classes every answer of every history is fresh              *)
(* ------------------------------------------------------------------------------------------ *)

Fixpoint acyc_run (st : state) (h : list event) : bool :=
  acyclicb st && match h with [] => true | e :: h' => acyc_run (fst (step st e)) h' end.

Lemma list_pair_eqb_refl l : list_pair_eqb l l = true.
Proof. induction l as [|[x v] l IH]; simpl; [reflexivity|]. rewrite Nat.eqb_refl, version_eqb_refl, IH. reflexivity. Qed.

Lemma same_multiset_refl l : same_multiset l l = true.
Proof.
  unfold same_multiset. rewrite Nat.eqb_refl. simpl. apply forallb_forall. intros x _. apply Nat.eqb_refl.
Qed.

Lemma answer_eqb_refl a : answer_eqb a a = true.
Proof.
  destruct a as [|p v|p a b [c|]|c|c]; simpl; rewrite ?Nat.eqb_refl, ?version_eqb_refl; simpl;
    auto using list_pair_eqb_refl, same_multiset_refl.
Qed.

Lemma step_req st k p : fst (step st (Req k p)) = fst (request st k p).
Proof. simpl. destruct (request st k p); reflexivity. Qed.

Lemma outside_invariant h : forall st,
  WF st -> AllFresh st -> acyc_run st h = true ->
  known_by trigger_dep st h = false -> known_by trigger_tree st h = false ->
  fresh_run st h = true /\
  WF (fst (run st h)) /\ AllFresh (fst (run st h)) /\ Acyc (fst (run st h)).
Proof.
  induction h as [|e h IH]; intros st W F AR KD KT.
  - simpl in *. rewrite andb_true_r in AR. split; [reflexivity|]. split; [exact W|]. split; [exact F|apply acyclicb_Acyc; exact AR].
  - rewrite run_fst_step. simpl in AR, KD, KT.
    apply andb_true_iff in AR as [A AR]. apply acyclicb_Acyc in A.
    apply orb_false_iff in KD as [TD KD]. apply orb_false_iff in KT as [TT KT].
    pose proof (step_wf st e W) as W'.
    assert (F' : AllFresh (fst (step st e))).
    { destruct e as [p|p v|p|p|k p].
      - exact F.
      - apply change_iff; assumption.
      - apply save_preserves; exact F.
      - apply close_iff; assumption.
      - rewrite step_req. apply request_fresh; assumption. }
    destruct (IH _ W' F' AR KD KT) as (R & Rest).
    split; [|exact Rest].
    cbn [fresh_run]. rewrite R, andb_true_r.
    destruct e as [p|p v|p|p|k p]; try reflexivity.
    rewrite (answer_fresh st k p W A F); [apply answer_eqb_refl|].
    destruct k; simpl; auto; simpl in TT; apply negb_false_iff in TT; exact TT.
Qed.

(* ---------- the known classes; statements used by Properties/C02.v ---------- *)

Definition after (ws : list version) (h : list event) : state := fst (run (init ws) h).

Definition KnownClass_C02 (ws : list version) (h : list event) : bool :=
  known_by trigger_dep (init ws) h || known_by trigger_tree (init ws) h.

Lemma after_wf ws h : WF (after ws h).
Proof. unfold after. apply run_wf. apply init_wf. Qed.

Lemma holds_outside ws h :
  acyc_run (init ws) h = true -> KnownClass_C02 ws h = false ->
  fresh_run (init ws) h = true /\ WF (after ws h) /\ AllFresh (after ws h) /\ Acyc (after ws h).
Proof.
  intros AR K. unfold KnownClass_C02 in K.
  apply orb_false_iff in K as [KD KT].
  apply outside_invariant; auto using init_wf, init_allfresh.
Qed.

Lemma change_resets st p v i :
  get st p = Some i ->
  exists i', get (fst (step st (Change p v))) p = Some i' /\
             logical i' = v /\ visible i' = Some (new_doc v) /\ stab i' = None /\ cached_tables i' = [] /\ disk i' = disk i.
Proof.
  intro G. simpl. eexists. split; [apply get_set_same; exact G|]. simpl. repeat split; reflexivity.
Qed.

Lemma save_resets st p i :
  get st p = Some i ->
  exists i', get (fst (step st (Save p))) p = Some i' /\
             disk i' = logical i /\ logical i' = logical i /\ saved i' = None /\ opened i' = None /\ stab i' = None.
Proof.
  intro G. simpl. eexists. split; [apply get_set_same; exact G|]. simpl. repeat split; reflexivity.
Qed.

Lemma close_resets st p i :
  get st p = Some i ->
  exists i', get (fst (step st (Close p))) p = Some i' /\
             logical i' = disk i /\ saved i' = None /\ opened i' = None /\ stab i' = None.
Proof.
  intro G. simpl. eexists. split; [apply get_set_same; exact G|]. simpl. repeat split; reflexivity.
Qed.

Lemma local_answer st k p i :
  WF st -> get st p = Some i -> (k = KSym \/ k = KDiag) ->
  snd (request st k p) = match k with KSym => ALocal p (logical i) | _ => ADiag p (logical i) (logical i) (Some (logical i)) end.
Proof.
  intros W G [-> | ->]; simpl.
  - destruct (req_sym_spec st p W) as (_ & _ & A). apply A; exact G.
  - destruct (req_diag_spec st p W) as (_ & _ & A). apply A; exact G.
Qed.

Lemma init_no_dependents ws p : has_dependents (init ws) p = false.
Proof.
  destruct (has_dependents (init ws) p) eqn:D; [|reflexivity].
  apply has_dependents_spec in D as (x & i & t & _ & G & Ht & _).
  rewrite get_init in G. destruct (nth_error ws x); inversion G; subst. simpl in Ht. contradiction.
Qed.

Lemma init_tree_fresh ws : tree_fresh (init ws) = true.
Proof.
  unfold tree_fresh. apply tree_eqb_eq. unfold logical_ws, init; simpl.
  rewrite !map_map. simpl. apply map_ext. intro v. reflexivity.
Qed.

Lemma single_event_not_known ws e : KnownClass_C02 ws [e] = false.
Proof.
  unfold KnownClass_C02. simpl. rewrite !orb_false_r.
  assert (D : trigger_dep (init ws) e = false).
  { unfold trigger_dep. destruct (changes_logical (init ws) e); [apply init_no_dependents|reflexivity]. }
  assert (T : trigger_tree (init ws) e = false).
  { unfold trigger_tree. destruct e as [| | | |[] p]; try reflexivity; rewrite init_tree_fresh; reflexivity. }
  rewrite D, T. reflexivity.
Qed.

Lemma run_app_last h : forall st e, fst (run st (h ++ [e])) = fst (step (fst (run st h)) e).
Proof.
  induction h as [|x h IH]; intros st e.
  - simpl app. rewrite run_fst_step. reflexivity.
  - rewrite <- app_comm_cons, !run_fst_step. apply IH.
Qed.

Lemma after_last ws h e : after ws (h ++ [e]) = fst (step (after ws h) e).
Proof. unfold after. apply run_app_last. Qed.
