(* C17, tree-level consumers, part 3: the four rule-based checkers (Model/Lints.v, C16) on trees that
   are equal up to the letter case of words -- for ALL trees, no bounds, no guard.

     ret_type_lint_eq / _sim      return-type rule: EQUAL reports (the key is a constant)
     unpurged_lint_sim            purge rule: the same diagnostics in the same order, the printed name
                                  equal ignoring case
     inherited_lint_sim           inherited rule: the same
     lints_non_naming_sim         the three together
     naming_lint_decl_exact       naming rules: EQUAL when declarations are left as written
     naming_lint_recase_refuted   ... and NOT preserved when a declaration is re-cased
     lints_exact / request_exact  declarations left as written: the whole report is EQUAL
     unpurged_exact_key_refuted   the purge rule before /repo ef936ba (key = the spelling) is case-sensitive
   The purge and the inherited checker are the repaired ones of C16 (a method is decided on the method node's own
   subtree): the relations below are carried through the two subtree scans. *)
From GoldV Require Import Base Tokens Keywords Lexer AstKinds Tree Recase RecaseBase RecaseOutline Lints.

(* ---------- to_uppercase as far as observable ---------- *)

Lemma upc_rs_upper_letter x : 65 <= x <= 90 -> upc_rs x = [x].
Proof.
  intro H. unfold upc_rs, is_lower.
  replace (97 <=? x) with false by (symmetry; apply N.leb_gt; lia). cbn [andb].
  repeat match goal with
         | |- context [x =? ?b] => replace (x =? b) with false by (symmetry; apply N.eqb_neq; lia)
         end.
  reflexivity.
Qed.

Lemma upc_rs_lower c : is_lower c = true -> upc_rs c = [c - 32].
Proof. intro H. unfold upc_rs. rewrite H. reflexivity. Qed.

Lemma upc_rs_sim c d : upc c = upc d -> upc_rs c = upc_rs d.
Proof.
  intro H. destruct (upc_eq_cases _ _ H) as [->|[[Hl ->]|[Hl ->]]]; [reflexivity| |].
  - rewrite (upc_rs_lower _ Hl). apply is_lower_bounds in Hl. rewrite upc_rs_upper_letter by lia. reflexivity.
  - rewrite (upc_rs_lower _ Hl). apply is_lower_bounds in Hl. rewrite upc_rs_upper_letter by lia. reflexivity.
Qed.

Lemma upper_rs_ci s s' : ci_eq s s' -> upper_rs s = upper_rs s'.
Proof.
  unfold ci_eq, upper, upper_rs. revert s'. induction s as [|c s IH]; intros [|d s'] H; cbn [map] in H;
    try discriminate; [reflexivity|].
  injection H as H1 H2. cbn [flat_map]. rewrite (upc_rs_sim _ _ H1), (IH _ H2). reflexivity.
Qed.

(* ---------- accessors on similar nodes ---------- *)

Lemma child_sim i n n' : node_sim n n' -> opt_rel node_sim (child i n) (child i n').
Proof. apply nth_child_sim. Qed.

Lemma ident_range_sim n n' : node_sim n n' -> ident_range n = ident_range n'.
Proof.
  intro H. unfold ident_range. destruct (attr_tok_rel K_ident _ _ H) as [|t t' Ht].
  - apply node_sim_range. exact H.
  - apply Ht.
Qed.

Lemma name_range_sim n n' : node_sim n n' -> name_range n = name_range n'.
Proof.
  intro H. unfold name_range. destruct (child_sim 0 _ _ H) as [|c c' Hc]; apply node_sim_range; assumption.
Qed.

Lemma is_override_sim n n' : node_sim n n' -> is_override n = is_override n'.
Proof.
  intro H. unfold is_override, has_modifiers.
  rewrite <- !(node_sim_is_kind _ _ _ H), <- (attr_flags_sim _ _ H). reflexivity.
Qed.

Lemma upper_ident_sim n n' : node_sim n n' -> upper (nident n) = upper (nident n').
Proof. intro H. apply node_sim_ident. exact H. Qed.

Lemma is_tvba_local_sim n n' : node_sim n n' -> is_tvba_local n = is_tvba_local n'.
Proof.
  intro H. unfold is_tvba_local. rewrite <- (node_sim_is_kind _ _ _ H). f_equal.
  destruct (child_sim 0 _ _ H) as [|c c' Hc]; [reflexivity|]. rewrite (upper_ident_sim _ _ Hc). reflexivity.
Qed.

Lemma is_purge_call_sim n n' : node_sim n n' -> is_purge_call n = is_purge_call n'.
Proof.
  intro H. unfold is_purge_call. rewrite <- (node_sim_is_kind _ _ _ H), (upper_ident_sim _ _ H). reflexivity.
Qed.

Lemma is_pass_terminal_sim n n' : node_sim n n' -> is_pass_terminal n = is_pass_terminal n'.
Proof.
  intro H. unfold is_pass_terminal. rewrite <- (node_sim_is_kind _ _ _ H). f_equal.
  destruct (attr_tok_rel K_token _ _ H) as [|t t' Ht]; [reflexivity|].
  rewrite (ts_ty _ _ Ht), (upper_rs_ci _ _ (ts_val _ _ Ht)). reflexivity.
Qed.

Lemma is_inherited_op_sim n n' : node_sim n n' -> is_inherited_op n = is_inherited_op n'.
Proof.
  intro H. unfold is_inherited_op. rewrite <- (node_sim_is_kind _ _ _ H). f_equal.
  destruct (attr_tok_rel K_op _ _ H) as [|t t' Ht]; [reflexivity|]. rewrite (ts_ty _ _ Ht). reflexivity.
Qed.

Lemma is_ident_terminal_sim n n' : node_sim n n' -> is_ident_terminal n = is_ident_terminal n'.
Proof.
  intro H. unfold is_ident_terminal. rewrite <- (node_sim_is_kind _ _ _ H). f_equal.
  destruct (attr_tok_rel K_token _ _ H) as [|t t' Ht]; [reflexivity|]. rewrite (ts_ty _ _ Ht). reflexivity.
Qed.

Lemma is_self_terminal_sim n n' : node_sim n n' -> is_self_terminal n = is_self_terminal n'.
Proof.
  intro H. unfold is_self_terminal. rewrite <- (node_sim_is_kind _ _ _ H). f_equal.
  destruct (attr_tok_rel K_token _ _ H) as [|t t' Ht]; [reflexivity|].
  rewrite (ts_ty _ _ Ht), (upper_rs_ci _ _ (ts_val _ _ Ht)). reflexivity.
Qed.

Lemma is_method_sim n n' : node_sim n n' -> is_method n = is_method n'.
Proof. intro H. unfold is_method. rewrite <- !(node_sim_is_kind _ _ _ H). reflexivity. Qed.

Lemma inh_self_call_sim u n n' : node_sim n n' -> inh_self_call u n = inh_self_call u n'.
Proof.
  intro H. unfold inh_self_call. rewrite <- (is_inherited_op_sim _ _ H). f_equal.
  destruct (child_sim 0 _ _ H) as [|e e' He]; [reflexivity|].
  rewrite <- (node_sim_is_kind _ _ _ He). f_equal; [f_equal|].
  - destruct (attr_tok_rel K_op _ _ He) as [|t t' Ht]; [reflexivity|]. rewrite (ts_ty _ _ Ht). reflexivity.
  - destruct (child_sim 0 _ _ He) as [|l l' Hl]; [reflexivity|].
    destruct (child_sim 1 _ _ He) as [|r r' Hr]; [reflexivity|].
    rewrite <- (is_self_terminal_sim _ _ Hl), <- !(node_sim_is_kind _ _ _ Hr),
            (upper_rs_ci _ _ (node_sim_ident _ _ Hr)). reflexivity.
Qed.

Lemma inh_scan_eq u n :
  inh_scan u n = existsb (fun c => (is_pass_terminal c || inh_self_call u c || inh_scan u c)) (nchildren n).
Proof.
  destruct n as [k id raw rg at_ ch]. cbn [inh_scan nchildren].
  induction ch as [|c ch IH]; [reflexivity|]. cbn [existsb]. rewrite IH. reflexivity.
Qed.

Lemma inh_scan_sim u : forall n n', node_sim n n' -> inh_scan u n = inh_scan u n'.
Proof.
  apply (node_sim_ind' (fun n n' => inh_scan u n = inh_scan u n')).
  intros k id id' raw rg at_ at' ch ch' _ _ Hch IH. rewrite !inh_scan_eq. cbn [nchildren].
  induction Hch as [|c c' l l' Hc Hl IHl]; [reflexivity|]. inversion IH; subst. cbn [existsb].
  rewrite <- (is_pass_terminal_sim _ _ Hc), <- (inh_self_call_sim u _ _ Hc). f_equal; [f_equal; assumption|].
  apply IHl. assumption.
Qed.

Lemma inh_sel_range_sim m m' : node_sim m m' -> inh_sel_range m = inh_sel_range m'.
Proof.
  intro H. unfold inh_sel_range.
  rewrite <- !(node_sim_is_kind _ _ _ H), <- (name_range_sim _ _ H), <- (node_sim_range _ _ H). reflexivity.
Qed.

(* ---------- v1 walker ---------- *)

Lemma walk1_eq {S} (visit : node -> S -> S) n s :
  walk1 visit n s = fold_left (fun acc c => walk1 visit c acc) (nchildren n) (visit n s).
Proof.
  destruct n as [k id raw rg at_ ch]. cbn [walk1 nchildren].
  generalize (visit (Node k id raw rg at_ ch) s). induction ch as [|c ch IH]; intro acc; cbn [fold_left]; auto.
Qed.

Section Walk1Rel.
  Context {S : Type} (RS : S -> S -> Prop) (visit : node -> S -> S).
  Hypothesis visit_rel : forall n n' s s', node_sim n n' -> RS s s' -> RS (visit n s) (visit n' s').

  Lemma fold1_rel (Q : node -> node -> Prop) l l' : Forall2 Q l l' ->
    (forall c c', Q c c' -> forall s s', RS s s' -> RS (walk1 visit c s) (walk1 visit c' s')) ->
    forall s s', RS s s' ->
    RS (fold_left (fun acc c => walk1 visit c acc) l s) (fold_left (fun acc c => walk1 visit c acc) l' s').
  Proof.
    intros H HQ. induction H as [|c c' l l' Hc Hl IH]; intros s s' Hs; cbn [fold_left]; [exact Hs|].
    apply IH. apply HQ; assumption.
  Qed.

  Lemma walk1_rel : forall n n', node_sim n n' -> forall s s', RS s s' -> RS (walk1 visit n s) (walk1 visit n' s').
  Proof.
    apply (node_sim_ind' (fun n n' => forall s s', RS s s' -> RS (walk1 visit n s) (walk1 visit n' s'))).
    intros k id id' raw rg at_ at' ch ch' H1 H2 H3 IH s s' Hs. rewrite !walk1_eq. cbn [nchildren].
    apply (fold1_rel _ _ _ IH); [auto|]. apply visit_rel; [constructor; assumption|exact Hs].
  Qed.

  Lemma run1_rel a a' : node_sim a a' -> forall s s', RS s s' -> RS (run1 visit a s) (run1 visit a' s').
  Proof.
    intro H. unfold run1. apply (fold1_rel _ _ _ (node_sim_children _ _ H)). apply walk1_rel.
  Qed.
End Walk1Rel.

(* ---------- v2 walker ---------- *)

Lemma walk2_eq {S} (visit : wctx -> list node -> node -> S -> S) anc n cs :
  walk2 visit anc n cs =
  fold_left (fun acc c => walk2 visit (n :: anc) c acc) (nchildren n)
            (ctx_notify (fst cs) n, visit (ctx_notify (fst cs) n) anc n (snd cs)).
Proof.
  destruct n as [k id raw rg at_ ch]. cbn [walk2 nchildren]. cbv zeta.
  generalize (ctx_notify (fst cs) (Node k id raw rg at_ ch),
              visit (ctx_notify (fst cs) (Node k id raw rg at_ ch)) anc (Node k id raw rg at_ ch) (snd cs)).
  generalize (Node k id raw rg at_ ch :: anc). intros A.
  induction ch as [|c ch IH]; intro acc; cbn [fold_left]; auto.
Qed.

Section Walk2Rel.
  Context {S : Type} (RS : S -> S -> Prop) (NR : node -> node -> Prop)
          (visit : wctx -> list node -> node -> S -> S).
  Hypothesis NR_sim : forall n n', NR n n' -> node_sim n n'.
  Hypothesis NR_children : forall n n', NR n n' -> Forall2 NR (nchildren n) (nchildren n').

  Definition ctx_rel (c c' : wctx) : Prop :=
    opt_rel NR (cx_class c) (cx_class c') /\ opt_rel NR (cx_method c) (cx_method c').

  Hypothesis visit_rel : forall c c' anc anc' n n' s s',
    ctx_rel c c' -> Forall2 NR anc anc' -> NR n n' -> RS s s' -> RS (visit c anc n s) (visit c' anc' n' s').

  Lemma ctx_notify_rel c c' n n' : ctx_rel c c' -> NR n n' -> ctx_rel (ctx_notify c n) (ctx_notify c' n').
  Proof.
    intros [H1 H2] Hn. unfold ctx_notify. rewrite <- !(node_sim_is_kind _ _ _ (NR_sim _ _ Hn)).
    destruct (is_kind KAstClass n), (is_kind KAstModule n), (is_kind KAstProcedure n), (is_kind KAstFunction n);
      split; cbn [cx_class cx_method]; try assumption; constructor; exact Hn.
  Qed.

  Definition cs_rel (cs cs' : wctx * S) : Prop := ctx_rel (fst cs) (fst cs') /\ RS (snd cs) (snd cs').

  Lemma walk2_rel : forall n n', NR n n' -> forall anc anc' cs cs', Forall2 NR anc anc' -> cs_rel cs cs' ->
    cs_rel (walk2 visit anc n cs) (walk2 visit anc' n' cs').
  Proof.
    intro n. pattern n. apply node_ind'. clear n. intros k id raw rg at_ ch IHn n' Hn anc anc' cs cs' Ha [Hc Hs].
    rewrite !walk2_eq. pose proof (NR_children _ _ Hn) as HC. cbn [nchildren] in HC |- *.
    assert (H0 : cs_rel (ctx_notify (fst cs) (Node k id raw rg at_ ch),
                         visit (ctx_notify (fst cs) (Node k id raw rg at_ ch)) anc (Node k id raw rg at_ ch) (snd cs))
                        (ctx_notify (fst cs') n', visit (ctx_notify (fst cs') n') anc' n' (snd cs'))).
    { pose proof (ctx_notify_rel _ _ _ _ Hc Hn) as Hc1. split; cbn [fst snd]; [exact Hc1|].
      apply visit_rel; assumption. }
    revert H0. generalize (ctx_notify (fst cs) (Node k id raw rg at_ ch),
                           visit (ctx_notify (fst cs) (Node k id raw rg at_ ch)) anc (Node k id raw rg at_ ch) (snd cs))
                          (ctx_notify (fst cs') n', visit (ctx_notify (fst cs') n') anc' n' (snd cs')).
    assert (Ha' : Forall2 NR (Node k id raw rg at_ ch :: anc) (n' :: anc')) by (constructor; assumption).
    revert Ha'. generalize (Node k id raw rg at_ ch :: anc) (n' :: anc'). intros A A' Ha'. clear Hn.
    revert IHn. induction HC as [|c c' l l' Hcc Hl IH]; intros IHn acc acc' Hacc; cbn [fold_left]; [exact Hacc|].
    inversion IHn; subst. apply IH; [assumption|]. auto.
  Qed.

  Lemma run2_rel (finish : S -> S) a a' s s' :
    (forall x x', RS x x' -> RS (finish x) (finish x')) -> NR a a' -> RS s s' ->
    RS (run2 visit finish a s) (run2 visit finish a' s').
  Proof.
    intros Hf Ha Hs. unfold run2. apply Hf.
    apply (walk2_rel _ _ Ha [] [] (ctx0, s) (ctx0, s')); [constructor|].
    split; cbn [fst snd]; [split; constructor|exact Hs].
  Qed.
End Walk2Rel.

(* ---------- the return-type rule (v1) ---------- *)

Lemma ret_visit_sim n n' out : node_sim n n' -> ret_visit n out = ret_visit n' out.
Proof.
  intro H. unfold ret_visit. cbv zeta. rewrite <- (node_sim_is_kind _ _ _ H).
  destruct (is_kind KAstFunction n); [|reflexivity].
  destruct (child_sim 1 _ _ H) as [|rt rt' Hrt]; [reflexivity|].
  rewrite <- (node_sim_is_kind _ _ _ Hrt). destruct (is_kind KAstTypeBasic rt); [|reflexivity].
  destruct (attr_tok_rel K_token _ _ Hrt) as [|t t' Ht]; [reflexivity|].
  rewrite <- (ts_ty _ _ Ht). destruct (tt_eqb (tty t) TIdentifier); [|reflexivity].
  replace (upper (tval t')) with (upper (tval t)) by (apply Ht).
  rewrite <- (node_sim_range _ _ Hrt). reflexivity.
Qed.

Theorem ret_type_lint_eq : forall a a', node_sim a a' -> ret_type_lint a = ret_type_lint a'.
Proof.
  intros a a' H. unfold ret_type_lint. apply (run1_rel eq ret_visit); [|exact H|reflexivity].
  intros n n' s s' Hn ->. apply ret_visit_sim. exact Hn.
Qed.

(* ---------- diagnostics up to the case of the printed name ---------- *)

Definition ldiag_rel (RN : str -> str -> Prop) (d d' : diag) : Prop :=
  dcls d = dcls d' /\ dsev d = dsev d' /\ drng d = drng d' /\ RN (dkey d) (dkey d').

(* class, severity, range equal; key equal ignoring case *)
Definition ldiag_sim : diag -> diag -> Prop := ldiag_rel ci_eq.

Lemma ldiag_sim_refl d : ldiag_sim d d.
Proof. repeat split. Qed.

Lemma ldiag_rel_eq d d' : ldiag_rel eq d d' -> d = d'.
Proof.
  destruct d as [a b c e], d' as [a' b' c' e']. unfold ldiag_rel. cbn [dcls dsev drng dkey].
  intros [-> [-> [-> ->]]]. reflexivity.
Qed.

Theorem ret_type_lint_sim : forall a a', node_sim a a' -> Forall2 ldiag_sim (ret_type_lint a) (ret_type_lint a').
Proof. intros a a' H. rewrite (ret_type_lint_eq _ _ H). apply Forall2_refl. apply ldiag_sim_refl. Qed.

(* ---------- the purge and inherited rules (v2), generically ---------- *)
Section V2.
  Variable RN : str -> str -> Prop.            (* relates printed names *)
  Variable NR : node -> node -> Prop.          (* relates corresponding nodes *)
  Hypothesis NR_sim : forall n n', NR n n' -> node_sim n n'.
  Hypothesis NR_children : forall n n', NR n n' -> Forall2 NR (nchildren n) (nchildren n').
  Hypothesis NR_name : forall n n', NR n n' -> decl_kind (nkind n) = true -> RN (nident n) (nident n').

  Definition out_rel : list diag -> list diag -> Prop := Forall2 (ldiag_rel RN).

  (* --- the purge rule --- *)
  (* registered declarations: printed names related, EQUAL ignoring case, equal ranges; purged names equal *)
  Definition pinfo_rel (e e' : str * range) : Prop :=
    RN (fst e) (fst e') /\ upper (fst e) = upper (fst e') /\ snd e = snd e'.
  Definition pscan_rel (s s' : pscan) : Prop := Forall2 pinfo_rel (fst s) (fst s') /\ snd s = snd s'.

  Lemma unp_local_rel n n' s s' : NR n n' -> pscan_rel s s' -> pscan_rel (unp_local n s) (unp_local n' s').
  Proof.
    intros Hn [A B]. pose proof (NR_sim _ _ Hn) as Hs. unfold unp_local. rewrite <- (is_tvba_local_sim _ _ Hs).
    destruct (is_tvba_local n) eqn:E; [|split; assumption]. split; cbn [fst snd]; [|exact B].
    apply Forall2_app2; [exact A|]. constructor; [|constructor].
    repeat split; cbn [fst snd]; [|apply upper_ident_sim; exact Hs|apply ident_range_sim; exact Hs].
    apply NR_name; [exact Hn|]. unfold is_tvba_local in E. apply andb_true_iff in E as [E _].
    eapply is_kind_decl; [exact E|reflexivity].
  Qed.

  Lemma unp_call_rel n n' s s' : NR n n' -> pscan_rel s s' -> pscan_rel (unp_call n s) (unp_call n' s').
  Proof.
    intros Hn [A B]. pose proof (NR_sim _ _ Hn) as Hs. unfold unp_call. rewrite <- (is_purge_call_sim _ _ Hs).
    destruct (is_purge_call n); [|split; assumption].
    destruct (child_sim 0 _ _ Hs) as [|a a' Ha]; [split; assumption|].
    rewrite <- (is_ident_terminal_sim _ _ Ha). destruct (is_ident_terminal a); [|split; assumption].
    split; cbn [fst snd]; [exact A|]. rewrite (upper_ident_sim _ _ Ha), B. reflexivity.
  Qed.

  Lemma unp_scan_eq n s :
    unp_scan n s = fold_left (fun acc c => unp_scan c (unp_call c (unp_local c acc))) (nchildren n) s.
  Proof.
    destruct n as [k id raw rg at_ ch]. cbn [unp_scan nchildren]. revert s.
    induction ch as [|c ch IH]; intro s; [reflexivity|]. cbn [fold_left]. apply IH.
  Qed.

  Lemma unp_scan_rel : forall n n', NR n n' -> forall s s', pscan_rel s s' ->
    pscan_rel (unp_scan n s) (unp_scan n' s').
  Proof.
    intro n. pattern n. apply node_ind'. clear n. intros k id raw rg at_ ch IHn n' Hn s s' Hs.
    rewrite !unp_scan_eq. pose proof (NR_children _ _ Hn) as HC. cbn [nchildren] in HC |- *. clear Hn.
    revert IHn s s' Hs. induction HC as [|c c' l l' Hcc Hl IH]; intros IHn s s' Hs; cbn [fold_left]; [exact Hs|].
    inversion IHn; subst. apply IH; [assumption|]. apply H1; [exact Hcc|].
    apply unp_call_rel; [exact Hcc|]. apply unp_local_rel; assumption.
  Qed.

  Lemma unpurged_diags_rel s s' : pscan_rel s s' -> out_rel (unpurged_diags s) (unpurged_diags s').
  Proof.
    intros [A B]. unfold unpurged_diags, is_purged_name. rewrite <- B. clear B.
    induction A as [|e e' l l' [H1 [H2 H3]] Hl IH]; cbn [flat_map]; [constructor|].
    rewrite <- H2. destruct (existsb (str_eqb (upper (fst e))) (snd s)); cbn [app]; [exact IH|].
    constructor; [|exact IH]. repeat split; cbn [dcls dsev drng dkey]; auto.
  Qed.

  Lemma unp_visit_rel c c' anc anc' n n' o o' : NR n n' -> out_rel o o' ->
    out_rel (unp_visit c anc n o) (unp_visit c' anc' n' o').
  Proof.
    intros Hn Ho. unfold unp_visit. rewrite <- (is_method_sim _ _ (NR_sim _ _ Hn)).
    destruct (is_method n); [|exact Ho]. apply Forall2_app2; [exact Ho|].
    apply unpurged_diags_rel. apply unp_scan_rel; [exact Hn|]. split; [constructor|reflexivity].
  Qed.

  Lemma unpurged_lint_rel a a' : NR a a' -> out_rel (unpurged_lint a) (unpurged_lint a').
  Proof.
    intro H. unfold unpurged_lint.
    apply (run2_rel out_rel NR unp_visit NR_sim NR_children).
    - intros c c' anc anc' n n' s s' _ _. apply unp_visit_rel.
    - auto.
    - exact H.
    - constructor.
  Qed.

  (* --- the inherited rule --- *)
  Lemma inh_visit_rel c c' anc anc' n n' o o' : NR n n' -> out_rel o o' ->
    out_rel (inh_visit c anc n o) (inh_visit c' anc' n' o').
  Proof.
    intros Hn Ho. pose proof (NR_sim _ _ Hn) as Hs. unfold inh_visit. cbv zeta.
    rewrite <- (is_method_sim _ _ Hs). destruct (is_method n) eqn:Em; [|exact Ho].
    rewrite <- (upper_rs_ci _ _ (node_sim_ident _ _ Hs)), <- (inh_scan_sim _ _ _ Hs).
    destruct (in_check_set (upper_rs (nident n)) && negb (inh_scan (upper_rs (nident n)) n)); [|exact Ho].
    apply Forall2_app2; [exact Ho|]. constructor; [|constructor].
    repeat split; cbn [dcls dsev drng dkey]; [apply inh_sel_range_sim; exact Hs|].
    apply NR_name; [exact Hn|]. unfold is_method in Em. apply orb_true_iff in Em as [E|E];
      (eapply is_kind_decl; [exact E|reflexivity]).
  Qed.

  Lemma inherited_lint_rel a a' : NR a a' -> out_rel (inherited_lint a) (inherited_lint a').
  Proof.
    intro H. unfold inherited_lint.
    apply (run2_rel out_rel NR inh_visit NR_sim NR_children).
    - intros c c' anc anc' n n' s s' _ _. apply inh_visit_rel.
    - auto.
    - exact H.
    - constructor.
  Qed.
End V2.

Theorem unpurged_lint_sim : forall a a', node_sim a a' -> Forall2 ldiag_sim (unpurged_lint a) (unpurged_lint a').
Proof.
  intros a a' H. apply (unpurged_lint_rel ci_eq node_sim); auto using node_sim_children.
  intros n n' Hn _. apply node_sim_ident. exact Hn.
Qed.

Theorem inherited_lint_sim : forall a a', node_sim a a' -> Forall2 ldiag_sim (inherited_lint a) (inherited_lint a').
Proof.
  intros a a' H. apply (inherited_lint_rel ci_eq node_sim); auto using node_sim_children.
  intros n n' Hn _. apply node_sim_ident. exact Hn.
Qed.

Theorem lints_non_naming_sim : forall a a', node_sim a a' ->
  Forall2 ldiag_sim (ret_type_lint a ++ unpurged_lint a ++ inherited_lint a)
                    (ret_type_lint a' ++ unpurged_lint a' ++ inherited_lint a').
Proof.
  intros a a' H. apply Forall2_app2; [apply ret_type_lint_sim; exact H|].
  apply Forall2_app2; [apply unpurged_lint_sim|apply inherited_lint_sim]; exact H.
Qed.

(* ---------- declarations left as written ---------- *)

Definition nsx (n n' : node) : Prop := node_sim n n' /\ decl_exact n n'.

Lemma nsx_sim n n' : nsx n n' -> node_sim n n'.
Proof. intros [H _]. exact H. Qed.
Lemma nsx_children n n' : nsx n n' -> Forall2 nsx (nchildren n) (nchildren n').
Proof. intros [H1 H2]. apply Forall2_and; [apply node_sim_children|apply decl_exact_children]; assumption. Qed.
Lemma nsx_name n n' : nsx n n' -> decl_kind (nkind n) = true -> nident n = nident n'.
Proof. intros [_ H] Hk. apply (proj1 (decl_exact_here _ _ H)). exact Hk. Qed.

Theorem unpurged_lint_decl_exact : forall a a', node_sim a a' -> decl_exact a a' -> unpurged_lint a = unpurged_lint a'.
Proof.
  intros a a' H He. apply Forall2_eq. eapply Forall2_impl; [apply ldiag_rel_eq|].
  apply (unpurged_lint_rel eq nsx nsx_sim nsx_children nsx_name). split; assumption.
Qed.

Theorem inherited_lint_decl_exact : forall a a', node_sim a a' -> decl_exact a a' -> inherited_lint a = inherited_lint a'.
Proof.
  intros a a' H He. apply Forall2_eq. eapply Forall2_impl; [apply ldiag_rel_eq|].
  apply (inherited_lint_rel eq nsx nsx_sim nsx_children nsx_name). split; assumption.
Qed.

(* --- the naming rules read only declared names, the override flag and ranges --- *)
Section Naming.
  Variables n n' : node.
  Hypothesis Hn : nsx n n'.

  Let Hs : node_sim n n' := nsx_sim _ _ Hn.

  Lemma nsx_kind_name k : is_kind k n = true -> decl_kind k = true -> nident n' = nident n.
  Proof. intros E Hk. symmetry. apply (nsx_name _ _ Hn). eapply is_kind_decl; eassumption. Qed.

  Lemma name_member_param_exact anc anc' out : Forall2 nsx anc anc' ->
    name_member_param anc n out = name_member_param anc' n' out.
  Proof.
    intro Ha. unfold name_member_param. cbv zeta.
    rewrite <- !(node_sim_is_kind _ _ _ Hs), <- (is_override_sim _ _ Hs), <- (name_range_sim _ _ Hs),
            <- (ident_range_sim _ _ Hs).
    assert (G : match anc with _ :: g :: _ => Some (is_override g) | _ => None end =
                match anc' with _ :: g :: _ => Some (is_override g) | _ => None end).
    { destruct Ha as [|x x' l l' _ Hl]; [reflexivity|]. destruct Hl as [|g g' l l' Hg _]; [reflexivity|].
      rewrite (is_override_sim _ _ (nsx_sim _ _ Hg)). reflexivity. }
    destruct (is_kind KAstProcedure n) eqn:E1; [rewrite (nsx_kind_name _ E1 eq_refl)|];
    (destruct (is_kind KAstFunction n) eqn:E2; [try rewrite (nsx_kind_name _ E2 eq_refl)|]);
    (destruct (is_kind KAstGlobalVariableDeclaration n) eqn:E3; [try rewrite (nsx_kind_name _ E3 eq_refl)|]);
    (destruct (is_kind KAstParameterDeclaration n) eqn:E4; [try rewrite (nsx_kind_name _ E4 eq_refl)|]);
    try reflexivity;
    (destruct anc as [|x [|g l]], anc' as [|x' [|g' l']]; try discriminate G; try reflexivity;
     injection G as G; rewrite G; reflexivity).
  Qed.

  Lemma name_local_exact out : name_local n out = name_local n' out.
  Proof.
    unfold name_local. rewrite <- (node_sim_is_kind _ _ _ Hs), <- (ident_range_sim _ _ Hs).
    destruct (is_kind KAstLocalVariableDeclaration n) eqn:E; [|reflexivity].
    rewrite (nsx_kind_name _ E eq_refl). reflexivity.
  Qed.

  Lemma name_type_exact out : name_type n out = name_type n' out.
  Proof.
    unfold name_type. rewrite <- (node_sim_is_kind _ _ _ Hs), <- (ident_range_sim _ _ Hs).
    destruct (is_kind KAstTypeDeclaration n) eqn:E; [|reflexivity].
    rewrite (nsx_kind_name _ E eq_refl). reflexivity.
  Qed.

  Lemma name_const_exact out : name_const n out = name_const n' out.
  Proof.
    unfold name_const. rewrite <- (node_sim_is_kind _ _ _ Hs), <- (ident_range_sim _ _ Hs).
    destruct (is_kind KAstConstantDeclaration n) eqn:E; [|reflexivity].
    rewrite (nsx_kind_name _ E eq_refl). reflexivity.
  Qed.

  Lemma name_visit_exact c c' anc anc' out : Forall2 nsx anc anc' ->
    name_visit c anc n out = name_visit c' anc' n' out.
  Proof.
    intro Ha. unfold name_visit.
    rewrite (name_member_param_exact _ _ out Ha), name_local_exact, name_type_exact, name_const_exact.
    reflexivity.
  Qed.
End Naming.

Theorem naming_lint_decl_exact : forall a a', node_sim a a' -> decl_exact a a' -> naming_lint a = naming_lint a'.
Proof.
  intros a a' H He. unfold naming_lint.
  apply (run2_rel eq nsx name_visit nsx_sim nsx_children).
  - intros c c' anc anc' n n' s s' _ Ha Hn ->. apply name_visit_exact; assumption.
  - auto.
  - split; assumption.
  - reflexivity.
Qed.

(* the whole report *)
Theorem lints_exact : forall a a', node_sim a a' -> decl_exact a a' -> lints a = lints a'.
Proof.
  intros a a' H He. unfold lints, lints_v2.
  rewrite (ret_type_lint_eq _ _ H), (unpurged_lint_decl_exact _ _ H He), (naming_lint_decl_exact _ _ H He),
          (inherited_lint_decl_exact _ _ H He). reflexivity.
Qed.

Lemma request_fresh a : fst (request (fresh_doc a)) = lints a.
Proof. reflexivity. Qed.

(* the request-level model: the first request on a fresh document *)
Theorem request_exact : forall a a', node_sim a a' -> decl_exact a a' ->
  fst (request (fresh_doc a)) = fst (request (fresh_doc a')).
Proof. intros a a' H He. rewrite !request_fresh. apply lints_exact; assumption. Qed.

(* ================= witnesses ================= *)
From Coq Require Import String.

(* a re-cased DECLARATION changes the naming report: that is why the property keeps declarations as
   written (and exempts the naming rules) *)
Definition nw : node := parse_text "proc Foo
endproc"%string.
Definition nw' : node := parse_text "proc foo
endproc"%string.

Theorem naming_lint_recase_refuted : exists a a', node_sim a a' /\ naming_lint a <> naming_lint a'.
Proof.
  exists nw, nw'. split; [apply node_simb_sound; vm_compute; reflexivity|].
  intro H. vm_compute in H. discriminate H.
Qed.

(* the purge rule before ef936ba: the map keyed by the spelling *)
Definition pw : node := parse_text "proc P
 var v : tVarByteArray
 purge(v)
endproc"%string.
Definition pw' : node := parse_text "proc P
 var v : tVarByteArray
 purge(V)
endproc"%string.

Theorem unpurged_exact_key_refuted : exists a a',
  node_sim a a' /\ decl_exact a a' /\ unpurged_lint_k key_exact a <> unpurged_lint_k key_exact a'.
Proof.
  exists pw, pw'. split; [apply node_simb_sound; vm_compute; reflexivity|].
  split; [apply decl_exactb_sound; vm_compute; reflexivity|].
  intro H. vm_compute in H. discriminate H.
Qed.

(* today's rule on the same pair: equal (and empty: the variable is purged in both) *)
Example unpurged_today_on_witness : unpurged_lint pw = unpurged_lint pw' /\ unpurged_lint pw = [].
Proof. split; vm_compute; reflexivity. Qed.

(* non-vacuity: every keyword and every reference re-cased, declarations as written; each of the four
   rules reports something *)
Definition lw : node := parse_text "class aC (aP)
func f return tVarByteArray
 var Loc : tVarByteArray
 var w : tVarByteArray
 purge(w)
 return Loc
endfunc
proc Init
 var u : tVarByteArray
 u = 1
endproc
proc Terminate
 inherited self.Terminate
endproc
proc lowname(a : int4)
 pass
endproc
"%string.
Definition lw' : node := parse_text "CLASS aC (AP)
FUNC f RETURN TVARBYTEARRAY
 VAR Loc : tvarbytearray
 Var w : TVarByteArray
 PURGE(W)
 Return LOC
ENDFUNC
Proc Init
 var u : Tvarbytearray
 U = 1
EndProc
PROC Terminate
 INHERITED SELF.TERMINATE
ENDPROC
proc lowname(a : INT4)
 PASS
endPROC
"%string.

Example lints_nonvacuous :
  node_sim lw lw' /\ decl_exact lw lw' /\ lw <> lw' /\
  lints lw = lints lw' /\
  ret_type_lint lw <> [] /\ unpurged_lint lw <> [] /\ inherited_lint lw <> [] /\ naming_lint lw <> [].
Proof.
  assert (A : node_sim lw lw') by (apply node_simb_sound; vm_compute; reflexivity).
  assert (B : decl_exact lw lw') by (apply decl_exactb_sound; vm_compute; reflexivity).
  split; [exact A|]. split; [exact B|]. split.
  - intro H. apply (f_equal spellings) in H. vm_compute in H. discriminate H.
  - split; [apply lints_exact; assumption|].
    repeat split; intro H; vm_compute in H; discriminate H.
Qed.

(* a declaration re-cased: the three non-naming rules still agree up to the case of the printed name,
   and the printed name really changes *)
Definition lw2 : node := parse_text "proc P
 var vb : tVarByteArray
endproc
proc Init
endproc"%string.
Definition lw2' : node := parse_text "proc P
 var VB : tVarByteArray
endproc
proc INIT
endproc"%string.

Example lints_non_naming_nonvacuous :
  node_sim lw2 lw2' /\
  Forall2 ldiag_sim (ret_type_lint lw2 ++ unpurged_lint lw2 ++ inherited_lint lw2)
                    (ret_type_lint lw2' ++ unpurged_lint lw2' ++ inherited_lint lw2') /\
  unpurged_lint lw2 <> unpurged_lint lw2' /\ inherited_lint lw2 <> inherited_lint lw2' /\
  List.length (unpurged_lint lw2 ++ inherited_lint lw2) = 2%nat.
Proof.
  assert (A : node_sim lw2 lw2') by (apply node_simb_sound; vm_compute; reflexivity).
  split; [exact A|]. split; [apply lints_non_naming_sim; exact A|].
  split; [intro H; vm_compute in H; discriminate H|].
  split; [intro H; vm_compute in H; discriminate H|]. vm_compute. reflexivity.
Qed.
