(* C06: range enclosure for types, parameters, statements and declarations.
   [Ord lo ts hi]: the tokens ts are ordered (the token-order hypothesis [tord] of RangeEnc.v) and lie
   between the positions lo and hi.  For every derivable construct whose tokens lie in [lo, hi]:
   the derived node lies in [lo, hi] ([Inside]) and every node of the derived tree encloses its
   children ([enc_tree]).  Expression trees: from RangeEnc.v. *)
From GoldV Require Import Base Tokens Lexer AstKinds Tree Strings PComb Grammar Ladder RTComb LadderProofs ExprRT RangeEnc
                          TypeRT StmtRT DeclRT.
From Coq Require Import Lia.

Fixpoint Ord (lo : pos) (ts : list tok) (hi : pos) : Prop :=
  match ts with
  | [] => pos_le lo hi
  | t :: r => pos_le lo (tstart t) /\ twf t /\ Ord (tend t) r hi
  end.

Definition Inside (lo : pos) (n : node) (hi : pos) : Prop :=
  pos_le lo (rstart (nrange n)) /\ pos_le (rstart (nrange n)) (rend (nrange n)) /\ pos_le (rend (nrange n)) hi.

Fixpoint enc_tree (n : node) : Prop :=
  match n with
  | Node _ _ _ rg _ ch =>
      (fix all (l : list node) : Prop :=
         match l with [] => True | c :: l' => (enc_tree c /\ encloses rg (nrange c)) /\ all l' end) ch
  end.

Lemma enc_tree_unfold n : enc_tree n <-> Forall (fun c => enc_tree c /\ encloses (nrange n) (nrange c)) (nchildren n).
Proof.
  destruct n as [k i r rg a ch]. cbn [enc_tree nrange nchildren].
  induction ch as [|c ch IH]; [split; auto|]. rewrite IH. split; [intros [A B]; constructor; assumption|].
  intro X. inversion X; subst. auto.
Qed.

Definition IE (lo : pos) (hi : pos) (n : node) : Prop := Inside lo n hi /\ enc_tree n.
Definition EncRel (R : rel) : Prop := forall ts n lo hi, R ts n -> Ord lo ts hi -> IE lo hi n.
Definition EncList (R : list tok -> list node -> Prop) : Prop :=
  forall ts ns lo hi, R ts ns -> Ord lo ts hi -> Forall (IE lo hi) ns.

(* ---------- Ord ---------- *)

Lemma Ord_le lo ts hi : Ord lo ts hi -> pos_le lo hi.
Proof.
  revert lo. induction ts as [|t r IH]; intros lo H; [exact H|]. destruct H as (H1 & (H2 & _) & H3).
  specialize (IH _ H3). unfold tstart, tend in *. unfold pos_le in *. lia.
Qed.

Lemma Ord_app lo a b hi : Ord lo (a ++ b) hi -> exists mid, Ord lo a mid /\ Ord mid b hi.
Proof.
  revert lo. induction a as [|t a IH]; intros lo H.
  - exists lo. split; [apply pos_le_refl|exact H].
  - cbn [app Ord] in H. destruct H as (H1 & H2 & H3). destruct (IH _ H3) as (mid & A & B).
    exists mid. cbn [Ord]. auto.
Qed.

Lemma Ord_weaken lo lo' ts hi hi' : pos_le lo' lo -> pos_le hi hi' -> Ord lo ts hi -> Ord lo' ts hi'.
Proof.
  revert lo lo'. induction ts as [|t r IH]; intros lo lo' H1 H2 H; cbn [Ord] in *.
  - unfold pos_le in *. lia.
  - destruct H as (A & B & C). split; [unfold pos_le in *; lia|]. split; [exact B|].
    apply (IH (tend t)); [apply pos_le_refl|exact H2|exact C].
Qed.

Lemma Ord_tord lo ts hi : Ord lo ts hi -> tord ts.
Proof.
  revert lo. induction ts as [|t r IH]; intros lo H; [exact I|]. destruct H as (H1 & H2 & H3).
  cbn [tord]. split; [exact H2|]. split; [|apply (IH _ H3)]. destruct r as [|t' r']; [exact I|]. apply H3.
Qed.

Lemma Ord_first lo ts hi : Ord lo ts hi -> ts <> [] -> pos_le lo (fst_start ts).
Proof. destruct ts; [congruence|]. intros H _. apply H. Qed.

Lemma Ord_last lo ts hi : Ord lo ts hi -> ts <> [] -> pos_le (lst_end ts) hi.
Proof.
  revert lo. induction ts as [|t r IH]; intros lo H Hne; [congruence|]. destruct H as (H1 & H2 & H3).
  destruct r as [|t' r']; [exact H3|]. rewrite lst_end_cons by discriminate. apply (IH _ H3). discriminate.
Qed.

Lemma IE_weaken lo lo' hi hi' n : pos_le lo' lo -> pos_le hi hi' -> IE lo hi n -> IE lo' hi' n.
Proof. intros H1 H2 [(A & B & C) E]. split; [|exact E]. unfold Inside, pos_le in *. lia. Qed.

Lemma Forall_IE_weaken lo lo' hi hi' ns : pos_le lo' lo -> pos_le hi hi' -> Forall (IE lo hi) ns -> Forall (IE lo' hi') ns.
Proof. intros H1 H2 H. eapply Forall_impl; [|exact H]. intros n Hn. eapply IE_weaken; eauto. Qed.

(* children inside [lo, hi] are enclosed by any range that covers [lo, hi] *)
Lemma IE_children rg lo hi ns : Forall (IE lo hi) ns -> pos_le (rstart rg) lo -> pos_le hi (rend rg) ->
  Forall (fun c => enc_tree c /\ encloses rg (nrange c)) ns.
Proof.
  intros H H1 H2. eapply Forall_impl; [|exact H]. intros n [(A & B & C) E]. split; [exact E|].
  unfold encloses, pos_le in *. lia.
Qed.

Ltac ounf := unfold IE, Inside, encloses, range_wf, twf, range_of_toks in *;
             cbn [nrange new_range rstart rend mk_terminal mk_type_basic] in *;
             unfold tstart, tend, tpos in *.
(* pos_le along a chain of hypotheses (depth-first, bounded) *)
Ltac ple n :=
  lazymatch n with
  | O => fail
  | S ?m =>
      match goal with
      | |- pos_le ?a ?a => apply pos_le_refl
      | H : pos_le ?a ?b |- pos_le ?a ?b => exact H
      | H : pos_le ?a ?c |- pos_le ?a ?b => apply (pos_le_trans a c b H); ple m
      end
  end.
Ltac onorm := ounf; repeat match goal with
                           | H : _ /\ _ |- _ => destruct H
                           | H : pos_lt _ _ |- _ => apply pos_lt_le in H
                           end.
Ltac osolve := onorm; repeat split; ple constr:(14%nat).

(* ---------- expressions (RangeEnc.v) ---------- *)

Lemma sorted_enc : forall n, sorted_tree n -> enc_tree n.
Proof.
  fix IH 1. intros [k i r rg a ch]. cbn [sorted_tree enc_tree]. intros (_ & H & _). revert H.
  induction ch as [|c ch IHch]; [auto|]. intros [[Hc He] Hr]. split; [split; [apply IH; exact Hc|exact He]|apply IHch; exact Hr].
Qed.

Lemma Good_IE (R : rel) : GoodRel R -> EncRel R.
Proof.
  intros HG ts n lo hi HR Ho. destruct (HG ts n HR (Ord_tord _ _ _ Ho)) as (N & S & W1 & W2).
  pose proof (Ord_first _ _ _ Ho N). pose proof (Ord_last _ _ _ Ho N). pose proof (sorted_wf _ S).
  split; [|apply sorted_enc; exact S]. osolve.
Qed.

Lemma expr_enc f : EncRel (GExpr f).
Proof. apply Good_IE. apply gram_good. Qed.
Lemma dots_enc f : EncRel (GDots f).
Proof. apply Good_IE. apply GDots_good. Qed.

Lemma terminal_IE lo hi t : Ord lo [t] hi -> IE lo hi (mk_terminal t).
Proof. intros (A & (B & _) & C). cbn [Ord] in C. split; [osolve|]. apply enc_tree_unfold. constructor. Qed.

Lemma leaf_enc k i r rg a : enc_tree (Node k i r rg a []).
Proof. exact I. Qed.

Lemma Ord_cons lo t r hi : Ord lo (t :: r) hi -> pos_le lo (tstart t) /\ twf t /\ Ord (tend t) r hi.
Proof. intro H. exact H. Qed.

Ltac ord_split :=
  repeat match goal with
  | H : Ord _ (_ :: _) _ |- _ => let A := fresh "Oa" in let B := fresh "Ow" in apply Ord_cons in H; destruct H as (A & B & H)
  | H : Ord _ (_ ++ _) _ |- _ => let m := fresh "mid" in let A := fresh "Ol" in apply Ord_app in H; destruct H as (m & A & H)
  | H : Ord _ [] _ |- _ => cbn [Ord] in H
  end.

Ltac enc_leaf := apply enc_tree_unfold; cbn [nchildren]; constructor.
Ltac enc_node := apply enc_tree_unfold; cbn [nchildren nrange].
(* the children one by one: enclosure by arithmetic, enc_tree of each child left to the caller *)
Ltac enc_kids := repeat (apply Forall_cons || apply Forall_nil); (split; [|osolve]).

(* ---------- separated lists ---------- *)

Lemma Args_enc sep (R : rel) : EncRel R -> EncList (Args sep R).
Proof.
  intros HR ts ns lo hi H. revert lo. induction H as [ts n Hn|ts n cm ts' ns Hn Hcm Hrest IH]; intros lo Ho.
  - constructor; [apply (HR _ _ _ _ Hn Ho)|constructor].
  - ord_split. pose proof (Ord_le _ _ _ Ho). pose proof (Ord_le _ _ _ Ol). constructor.
    + eapply IE_weaken; [apply pos_le_refl| |apply (HR _ _ _ _ Hn Ol)]. osolve.
    + eapply Forall_IE_weaken; [|apply pos_le_refl|apply (IH _ Ho)]. osolve.
Qed.

(* ---------- types ---------- *)

Ltac tunf := unfold mk_type_sized, mk_enum_variant, mk_type_enum, mk_type_ref, mk_type_range, mk_type_set, mk_type_pointer,
                    mk_type_instanceof, mk_type_array, mk_record_field, mk_type_record, mk_param, mk_param_list, mk_type_proc,
                    mk_type_func in *.

Lemma type_basic_IE lo hi t : Ord lo [t] hi -> IE lo hi (mk_type_basic t).
Proof. intros (A & (B & _) & C). cbn [Ord] in C. split; [osolve|enc_leaf]. Qed.

Lemma EnumVar_enc : EncRel EnumVar.
Proof. intros ts n lo hi H Ho. destruct H; ord_split; tunf; (split; [osolve|enc_leaf]). Qed.

Lemma ArrIdx_enc : EncRel ArrIdx.
Proof.
  intros ts n lo hi H Ho. destruct H; ord_split; tunf.
  - split; [osolve|enc_leaf].
  - split; [osolve|]. enc_node. enc_kids; enc_leaf.
Qed.

Section TypeEnc.
  Variable RT : rel.
  Hypothesis HRT : EncRel RT.

  Lemma Param_enc : EncRel (Param RT).
  Proof.
    intros ts n lo hi H Ho. destruct H as [mo id col tts tn Hm Hid Hcol Hty|mo id Hm Hid]; destruct mo as [m|]; cbn [opt_list app] in Ho;
      ord_split; tunf.
    - destruct (HRT _ _ _ _ Hty Ho) as [Ht Et]. split; [osolve|]. enc_node. enc_kids; exact Et.
    - destruct (HRT _ _ _ _ Hty Ho) as [Ht Et]. split; [osolve|]. enc_node. enc_kids; exact Et.
    - split; [osolve|enc_leaf].
    - split; [osolve|enc_leaf].
  Qed.

  Definition OptIE (lo hi : pos) (o : option node) : Prop := match o with Some n => IE lo hi n | None => True end.

  Lemma ParamList_enc ts po lo hi : ParamList RT ts po -> Ord lo ts hi -> OptIE lo hi po.
  Proof.
    intros H Ho. destruct H as [|ob cb Hob Hcb|ob ts ps cb Hob Ha Hcb]; [exact I| |]; cbn [OptIE]; ord_split; tunf.
    - split; [osolve|enc_leaf].
    - pose proof (Args_enc TComma _ Param_enc _ _ _ _ Ha Ol) as Hps. pose proof (Ord_le _ _ _ Ol).
      split; [osolve|]. enc_node. apply (IE_children _ (tend ob) mid); [exact Hps|osolve|osolve].
  Qed.

  Lemma Fields_enc : EncList (Fields RT).
  Proof.
    intros ts ns lo hi H. revert lo. induction H as [|id col tts tn rest ns Hid Hcol Hty Hrest IH]; intros lo Ho; [constructor|].
    ord_split. destruct (HRT _ _ _ _ Hty Ol) as [Ht Et]. pose proof (Ord_le _ _ _ Ho). pose proof (Ord_le _ _ _ Ol). constructor.
    - tunf. split; [osolve|]. enc_node. enc_kids; exact Et.
    - eapply Forall_IE_weaken; [|apply pos_le_refl|apply (IH _ Ho)]. osolve.
  Qed.

  Lemma TypeF_enc : EncRel (TypeF RT).
  Proof.
    intros ts n lo hi H Ho.
    destruct H as [t Ht|id ob sz cb Hid Hob Hsz Hcb|ob ts vs cb Hob Ha Hcb|k ots opts id its inv Hk Hopt Hid Hi|lo' k hi' Hlo Hk Hhi
                  |ob t cb Hob Ht Hcb|k pts parent fts fields e Hk Hp Hfl He|d t Hd Ht|a i1 n1 k ot Ha H1 Hk Hot
                  |a i1 n1 i2 n2 k ot Ha H1 H2 Hk Hot|k pts ps Hk Hp|k pts ps rk t Hk Hp Hrk Ht|k t Hk Ht].
    - apply type_basic_IE. exact Ho.
    - ord_split. tunf. split; [osolve|enc_leaf].
    - ord_split. pose proof (Args_enc TComma _ EnumVar_enc _ _ _ _ Ha Ol) as Hvs. pose proof (Ord_le _ _ _ Ol). tunf.
      split; [osolve|]. enc_node. apply (IE_children _ (tend ob) mid); [exact Hvs|osolve|osolve].
    - ord_split. pose proof (Ord_le _ _ _ Ol). pose proof (Ord_le _ _ _ Ho). tunf.
      destruct Hi as [|ik iv Hik Hiv]; ord_split; (split; [osolve|enc_leaf]).
    - ord_split. tunf. split; [osolve|]. enc_node. enc_kids; enc_leaf.
    - ord_split. tunf. split; [osolve|]. enc_node. enc_kids; enc_leaf.
    - ord_split. pose proof (Fields_enc _ _ _ _ Hfl Ol0) as Hfs. pose proof (Ord_le _ _ _ Ol). pose proof (Ord_le _ _ _ Ol0). tunf.
      split; [osolve|]. enc_node. apply Forall_app. split.
      + destruct Hp as [|o p c Ho' Hp' Hc']; cbn [option_map opt_list]; [constructor|]. ord_split.
        enc_kids; enc_leaf.
      + apply (IE_children _ mid mid0); [exact Hfs|osolve|osolve].
    - ord_split. tunf. split; [osolve|]. enc_node. enc_kids; enc_leaf.
    - ord_split. destruct (ArrIdx_enc _ _ _ _ H1 Ol) as [I1 E1]. tunf. cbn [opt_list app].
      split; [osolve|]. enc_node. enc_kids; first [exact E1|enc_leaf].
    - ord_split. destruct (ArrIdx_enc _ _ _ _ H1 Ol) as [I1 E1]. destruct (ArrIdx_enc _ _ _ _ H2 Ol0) as [I2 E2].
      pose proof (Ord_le _ _ _ Ol). pose proof (Ord_le _ _ _ Ol0). tunf. cbn [opt_list app].
      split; [osolve|]. enc_node. enc_kids; first [exact E1|exact E2|enc_leaf].
    - ord_split. pose proof (ParamList_enc _ _ _ _ Hp Ho) as Hps. pose proof (Ord_le _ _ _ Ho). tunf.
      destruct ps as [pn|]; cbn [OptIE opt_list] in *.
      + destruct Hps as [Ip Ep]. split; [osolve|]. enc_node. enc_kids; exact Ep.
      + split; [osolve|enc_leaf].
    - ord_split. pose proof (ParamList_enc _ _ _ _ Hp Ol) as Hps. pose proof (Ord_le _ _ _ Ol). tunf.
      destruct ps as [pn|]; cbn [OptIE opt_list app] in *.
      + destruct Hps as [Ip Ep]. split; [osolve|]. enc_node. enc_kids; first [exact Ep|enc_leaf].
      + split; [osolve|]. enc_node. enc_kids; enc_leaf.
    - ord_split. tunf. split; [osolve|]. enc_node. enc_kids; enc_leaf.
  Qed.
End TypeEnc.

Lemma type_enc f : EncRel (GType f).
Proof. induction f as [|f IH]; [intros ts n lo hi []|]. cbn [GType]. apply TypeF_enc. exact IH. Qed.

Lemma params_enc f ts po lo hi : GParams f ts po -> Ord lo ts hi -> OptIE lo hi po.
Proof. apply ParamList_enc. apply type_enc. Qed.
