(* C06: range enclosure for types, parameters, statements and declarations.
   [Ord lo ts hi]: the tokens ts are ordered (the token-order hypothesis [tord] of RangeEnc.v) and lie
   between the positions lo and hi.  For every derivable construct whose tokens lie in [lo, hi]:
   the derived node lies in [lo, hi] ([Inside]) and every node of the derived tree encloses its
   children ([enc_tree]).  Expression trees: from RangeEnc.v. *)
From GoldV Require Import Base Tokens Lexer AstKinds Tree Strings PComb Grammar Ladder RTComb LadderProofs ExprRT RangeEnc
                          TypeRT OqlRT StmtRT DeclRT.
From Coq Require Import Lia.

Fixpoint Ord (lo : pos) (ts : list tok) (hi : pos) : Prop :=
  match ts with
  | [] => pos_le lo hi
  | t :: r => pos_le lo (tstart t) /\ twf t /\ Ord (tend t) r hi
  end.

Definition Inside (lo : pos) (n : node) (hi : pos) : Prop :=
  pos_le lo (rstart (nrange n)) /\ pos_le (rstart (nrange n)) (rend (nrange n)) /\ pos_le (rend (nrange n)) hi.

Fixpoint enc_tree (n : node) : Prop :=
  match n with
  | Node _ _ _ rg _ ch =>
      (fix all (l : list node) : Prop :=
         match l with [] => True | c :: l' => (enc_tree c /\ encloses rg (nrange c)) /\ all l' end) ch
  end.

Lemma enc_tree_unfold n : enc_tree n <-> Forall (fun c => enc_tree c /\ encloses (nrange n) (nrange c)) (nchildren n).
Proof.
  destruct n as [k i r rg a ch]. cbn [enc_tree nrange nchildren].
  induction ch as [|c ch IH]; [split; auto|]. rewrite IH. split; [intros [A B]; constructor; assumption|].
  intro X. inversion X; subst. auto.
Qed.

Definition IE (lo : pos) (hi : pos) (n : node) : Prop := Inside lo n hi /\ enc_tree n.
Definition EncRel (R : rel) : Prop := forall ts n lo hi, R ts n -> Ord lo ts hi -> IE lo hi n.
Definition EncList (R : list tok -> list node -> Prop) : Prop :=
  forall ts ns lo hi, R ts ns -> Ord lo ts hi -> Forall (IE lo hi) ns.

(* ---------- Ord ---------- *)

Lemma Ord_le lo ts hi : Ord lo ts hi -> pos_le lo hi.
Proof.
  revert lo. induction ts as [|t r IH]; intros lo H; [exact H|]. destruct H as (H1 & (H2 & _) & H3).
  specialize (IH _ H3). unfold tstart, tend in *. unfold pos_le in *. lia.
Qed.

Lemma Ord_app lo a b hi : Ord lo (a ++ b) hi -> exists mid, Ord lo a mid /\ Ord mid b hi.
Proof.
  revert lo. induction a as [|t a IH]; intros lo H.
  - exists lo. split; [apply pos_le_refl|exact H].
  - cbn [app Ord] in H. destruct H as (H1 & H2 & H3). destruct (IH _ H3) as (mid & A & B).
    exists mid. cbn [Ord]. auto.
Qed.

Lemma Ord_weaken lo lo' ts hi hi' : pos_le lo' lo -> pos_le hi hi' -> Ord lo ts hi -> Ord lo' ts hi'.
Proof.
  revert lo lo'. induction ts as [|t r IH]; intros lo lo' H1 H2 H; cbn [Ord] in *.
  - unfold pos_le in *. lia.
  - destruct H as (A & B & C). split; [unfold pos_le in *; lia|]. split; [exact B|].
    apply (IH (tend t)); [apply pos_le_refl|exact H2|exact C].
Qed.

Lemma Ord_tord lo ts hi : Ord lo ts hi -> tord ts.
Proof.
  revert lo. induction ts as [|t r IH]; intros lo H; [exact I|]. destruct H as (H1 & H2 & H3).
  cbn [tord]. split; [exact H2|]. split; [|apply (IH _ H3)]. destruct r as [|t' r']; [exact I|]. apply H3.
Qed.

Lemma Ord_first lo ts hi : Ord lo ts hi -> ts <> [] -> pos_le lo (fst_start ts).
Proof. destruct ts; [congruence|]. intros H _. apply H. Qed.

Lemma Ord_last lo ts hi : Ord lo ts hi -> ts <> [] -> pos_le (lst_end ts) hi.
Proof.
  revert lo. induction ts as [|t r IH]; intros lo H Hne; [congruence|]. destruct H as (H1 & H2 & H3).
  destruct r as [|t' r']; [exact H3|]. rewrite lst_end_cons by discriminate. apply (IH _ H3). discriminate.
Qed.

Lemma IE_weaken lo lo' hi hi' n : pos_le lo' lo -> pos_le hi hi' -> IE lo hi n -> IE lo' hi' n.
Proof. intros H1 H2 [(A & B & C) E]. split; [|exact E]. unfold Inside, pos_le in *. lia. Qed.

Lemma Forall_IE_weaken lo lo' hi hi' ns : pos_le lo' lo -> pos_le hi hi' -> Forall (IE lo hi) ns -> Forall (IE lo' hi') ns.
Proof. intros H1 H2 H. eapply Forall_impl; [|exact H]. intros n Hn. eapply IE_weaken; eauto. Qed.

(* children inside [lo, hi] are enclosed by any range that covers [lo, hi] *)
Lemma IE_children rg lo hi ns : Forall (IE lo hi) ns -> pos_le (rstart rg) lo -> pos_le hi (rend rg) ->
  Forall (fun c => enc_tree c /\ encloses rg (nrange c)) ns.
Proof.
  intros H H1 H2. eapply Forall_impl; [|exact H]. intros n [(A & B & C) E]. split; [exact E|].
  unfold encloses, pos_le in *. lia.
Qed.

Ltac ounf := unfold IE, Inside, encloses, range_wf, twf, range_of_toks in *;
             cbn [nrange new_range rstart rend mk_terminal mk_type_basic] in *;
             unfold tstart, tend, tpos in *.
(* pos_le along a chain of hypotheses (depth-first, bounded) *)
Ltac ple n :=
  lazymatch n with
  | O => fail
  | S ?m =>
      match goal with
      | |- pos_le ?a ?a => apply pos_le_refl
      | H : pos_le ?a ?b |- pos_le ?a ?b => exact H
      | H : pos_le ?a ?c |- pos_le ?a ?b => apply (pos_le_trans a c b H); ple m
      end
  end.
Ltac onorm := ounf; repeat match goal with
                           | H : _ /\ _ |- _ => destruct H
                           | H : pos_lt _ _ |- _ => apply pos_lt_le in H
                           end.
Ltac osolve := onorm; repeat split; ple constr:(40%nat).

(* ---------- expressions (RangeEnc.v) ---------- *)

Lemma sorted_enc : forall n, sorted_tree n -> enc_tree n.
Proof.
  fix IH 1. intros [k i r rg a ch]. cbn [sorted_tree enc_tree]. intros (_ & H & _). revert H.
  induction ch as [|c ch IHch]; [auto|]. intros [[Hc He] Hr]. split; [split; [apply IH; exact Hc|exact He]|apply IHch; exact Hr].
Qed.

Lemma Good_IE (R : rel) : GoodRel R -> EncRel R.
Proof.
  intros HG ts n lo hi HR Ho. destruct (HG ts n HR (Ord_tord _ _ _ Ho)) as (N & S & W1 & W2).
  pose proof (Ord_first _ _ _ Ho N). pose proof (Ord_last _ _ _ Ho N). pose proof (sorted_wf _ S).
  split; [|apply sorted_enc; exact S]. osolve.
Qed.

Lemma expr_enc f : EncRel (GExpr f).
Proof. apply Good_IE. apply gram_good. Qed.
Lemma dots_enc f : EncRel (GDots f).
Proof. apply Good_IE. apply GDots_good. Qed.
Lemma exprk_enc f k : EncRel (GExprK f k).
Proof. apply Good_IE. apply GExprK_good. Qed.

Lemma terminal_IE lo hi t : Ord lo [t] hi -> IE lo hi (mk_terminal t).
Proof. intros (A & (B & _) & C). cbn [Ord] in C. split; [osolve|]. apply enc_tree_unfold. constructor. Qed.

Lemma leaf_enc k i r rg a : enc_tree (Node k i r rg a []).
Proof. exact I. Qed.

Lemma Ord_cons lo t r hi : Ord lo (t :: r) hi -> pos_le lo (tstart t) /\ twf t /\ Ord (tend t) r hi.
Proof. intro H. exact H. Qed.

Ltac ord_split :=
  repeat match goal with
  | H : Ord _ (_ :: _) _ |- _ => let A := fresh "Oa" in let B := fresh "Ow" in apply Ord_cons in H; destruct H as (A & B & H)
  | H : Ord _ (_ ++ _) _ |- _ => let m := fresh "mid" in let A := fresh "Ol" in apply Ord_app in H; destruct H as (m & A & H)
  | H : Ord _ [] _ |- _ => cbn [Ord] in H
  end.

Ltac enc_leaf := first [exact I | apply enc_tree_unfold; cbn [nchildren]; constructor].
Ltac enc_node := apply enc_tree_unfold; cbn [nchildren nrange].
(* the children one by one: enclosure by arithmetic, enc_tree of each child left to the caller *)
Ltac enc_kids := repeat (apply Forall_cons || apply Forall_nil); (split; [|osolve]).

(* ---------- separated lists ---------- *)

Lemma Args_enc sep (R : rel) : EncRel R -> EncList (Args sep R).
Proof.
  intros HR ts ns lo hi H. revert lo. induction H as [ts n Hn|ts n cm ts' ns Hn Hcm Hrest IH]; intros lo Ho.
  - constructor; [apply (HR _ _ _ _ Hn Ho)|constructor].
  - ord_split. pose proof (Ord_le _ _ _ Ho). pose proof (Ord_le _ _ _ Ol). constructor.
    + eapply IE_weaken; [apply pos_le_refl| |apply (HR _ _ _ _ Hn Ol)]. osolve.
    + eapply Forall_IE_weaken; [|apply pos_le_refl|apply (IH _ Ho)]. osolve.
Qed.

(* ---------- types ---------- *)

Ltac tunf := unfold mk_type_sized, mk_enum_variant, mk_type_enum, mk_type_ref, mk_type_range, mk_type_set, mk_type_pointer,
                    mk_type_instanceof, mk_type_array, mk_record_field, mk_type_record, mk_param, mk_param_list, mk_type_proc,
                    mk_type_func in *.

Lemma type_basic_IE lo hi t : Ord lo [t] hi -> IE lo hi (mk_type_basic t).
Proof. intros (A & (B & _) & C). cbn [Ord] in C. split; [osolve|enc_leaf]. Qed.

Lemma EnumVar_enc : EncRel EnumVar.
Proof. intros ts n lo hi H Ho. destruct H; ord_split; tunf; (split; [osolve|enc_leaf]). Qed.

Lemma ArrIdx_enc : EncRel ArrIdx.
Proof.
  intros ts n lo hi H Ho. destruct H; ord_split; tunf.
  - split; [osolve|enc_leaf].
  - split; [osolve|]. enc_node. enc_kids; enc_leaf.
Qed.

Lemma binop_IE0 op l r lo m1 m2 hi : IE lo m1 l -> IE m2 hi r -> pos_le m1 m2 -> IE lo hi (mk_binop op l r).
Proof.
  intros [(A & B & C) El] [(A' & B' & C') Er] Hm. unfold mk_binop. split; [osolve|]. enc_node. enc_kids; assumption.
Qed.

Section TypeEnc.
  Variable RT : rel.
  Hypothesis HRT : EncRel RT.

  Lemma Param_enc : EncRel (Param RT).
  Proof.
    intros ts n lo hi H Ho. destruct H as [mo id col tts tn Hm Hid Hcol Hty|mo id Hm Hid]; destruct mo as [m|]; cbn [opt_list app] in Ho;
      ord_split; tunf.
    - destruct (HRT _ _ _ _ Hty Ho) as [Ht Et]. split; [osolve|]. enc_node. enc_kids; exact Et.
    - destruct (HRT _ _ _ _ Hty Ho) as [Ht Et]. split; [osolve|]. enc_node. enc_kids; exact Et.
    - split; [osolve|enc_leaf].
    - split; [osolve|enc_leaf].
  Qed.

  Definition OptIE (lo hi : pos) (o : option node) : Prop := match o with Some n => IE lo hi n | None => True end.

  Lemma ParamList_enc ts po lo hi : ParamList RT ts po -> Ord lo ts hi -> OptIE lo hi po.
  Proof.
    intros H Ho. destruct H as [|ob cb Hob Hcb|ob ts ps cb Hob Ha Hcb]; [exact I| |]; cbn [OptIE]; ord_split; tunf.
    - split; [osolve|enc_leaf].
    - pose proof (Args_enc TComma _ Param_enc _ _ _ _ Ha Ol) as Hps. pose proof (Ord_le _ _ _ Ol).
      split; [osolve|]. enc_node. apply (IE_children _ (tend ob) mid); [exact Hps|osolve|osolve].
  Qed.

  Lemma Fields_enc : EncList (Fields RT).
  Proof.
    intros ts ns lo hi H. revert lo. induction H as [|id col tts tn rest ns Hid Hcol Hty Hrest IH]; intros lo Ho; [constructor|].
    ord_split. destruct (HRT _ _ _ _ Hty Ol) as [Ht Et]. pose proof (Ord_le _ _ _ Ho). pose proof (Ord_le _ _ _ Ol). constructor.
    - tunf. split; [osolve|]. enc_node. enc_kids; exact Et.
    - eapply Forall_IE_weaken; [|apply pos_le_refl|apply (IH _ Ho)]. osolve.
  Qed.

  Lemma CAtom_enc : EncRel CAtom.
  Proof.
    intros ts n lo hi H Ho. destruct H as [t Ht|ob ts vs cb Hob Ha Hcb]; [apply type_basic_IE; exact Ho|].
    ord_split. pose proof (Args_enc TComma _ EnumVar_enc _ _ _ _ Ha Ol) as Hvs. pose proof (Ord_le _ _ _ Ol). tunf.
    split; [osolve|]. enc_node. apply (IE_children _ (tend ob) mid); [exact Hvs|osolve|osolve].
  Qed.

  Lemma CTail_enc rest l res : CTail rest l res -> forall lo mid hi, IE lo mid l -> Ord mid rest hi -> IE lo hi res.
  Proof.
    induction 1 as [l|p bts b rest l res Hp Hb Ht IH]; intros lo mid hi Hl Ho.
    - eapply IE_weaken; [apply pos_le_refl|exact Ho|exact Hl].
    - ord_split. apply (IH lo mid0 hi); [|exact Ho].
      apply (binop_IE0 p l b lo mid (tend p) mid0 Hl (CAtom_enc _ _ _ _ Hb Ol)). osolve.
  Qed.

  Lemma TypeF_enc : EncRel (TypeF RT).
  Proof.
    intros ts n lo hi H Ho.
    destruct H as [t Ht|id ob sz cb Hid Hob Hsz Hcb|ob ts vs cb Hob Ha Hcb|k ots opts id its inv Hk Hopt Hid Hi|lo' k hi' Hlo Hk Hhi
                  |ob t cb Hob Ht Hcb|k pts parent fts fields e Hk Hp Hfl He|d t Hd Ht|a i1 n1 k ot Ha H1 Hk Hot
                  |a i1 n1 i2 n2 k ot Ha H1 H2 Hk Hot|k pts ps Hk Hp|k pts ps rk t Hk Hp Hrk Ht|k t Hk Ht
                  |ats a rest res Hca Hct Hne].
    - apply type_basic_IE. exact Ho.
    - ord_split. tunf. split; [osolve|enc_leaf].
    - ord_split. pose proof (Args_enc TComma _ EnumVar_enc _ _ _ _ Ha Ol) as Hvs. pose proof (Ord_le _ _ _ Ol). tunf.
      split; [osolve|]. enc_node. apply (IE_children _ (tend ob) mid); [exact Hvs|osolve|osolve].
    - ord_split. pose proof (Ord_le _ _ _ Ol). pose proof (Ord_le _ _ _ Ho). tunf.
      destruct Hi as [|ik iv Hik Hiv]; ord_split; (split; [osolve|enc_leaf]).
    - ord_split. tunf. split; [osolve|]. enc_node. enc_kids; enc_leaf.
    - ord_split. tunf. split; [osolve|]. enc_node. enc_kids; enc_leaf.
    - ord_split. pose proof (Fields_enc _ _ _ _ Hfl Ol0) as Hfs. pose proof (Ord_le _ _ _ Ol). pose proof (Ord_le _ _ _ Ol0). tunf.
      split; [osolve|]. enc_node. apply Forall_app. split.
      + destruct Hp as [|o p c Ho' Hp' Hc']; cbn [option_map opt_list]; [constructor|]. ord_split.
        enc_kids; enc_leaf.
      + apply (IE_children _ mid mid0); [exact Hfs|osolve|osolve].
    - ord_split. tunf. split; [osolve|]. enc_node. enc_kids; enc_leaf.
    - ord_split. destruct (ArrIdx_enc _ _ _ _ H1 Ol) as [I1 E1]. tunf. cbn [opt_list app].
      split; [osolve|]. enc_node. enc_kids; first [exact E1|enc_leaf].
    - ord_split. destruct (ArrIdx_enc _ _ _ _ H1 Ol) as [I1 E1]. destruct (ArrIdx_enc _ _ _ _ H2 Ol0) as [I2 E2].
      pose proof (Ord_le _ _ _ Ol). pose proof (Ord_le _ _ _ Ol0). tunf. cbn [opt_list app].
      split; [osolve|]. enc_node. enc_kids; first [exact E1|exact E2|enc_leaf].
    - ord_split. pose proof (ParamList_enc _ _ _ _ Hp Ho) as Hps. pose proof (Ord_le _ _ _ Ho). tunf.
      destruct ps as [pn|]; cbn [OptIE opt_list] in *.
      + destruct Hps as [Ip Ep]. split; [osolve|]. enc_node. enc_kids; exact Ep.
      + split; [osolve|enc_leaf].
    - ord_split. pose proof (ParamList_enc _ _ _ _ Hp Ol) as Hps. pose proof (Ord_le _ _ _ Ol). tunf.
      destruct ps as [pn|]; cbn [OptIE opt_list app] in *.
      + destruct Hps as [Ip Ep]. split; [osolve|]. enc_node. enc_kids; first [exact Ep|enc_leaf].
      + split; [osolve|]. enc_node. enc_kids; enc_leaf.
    - ord_split. tunf. split; [osolve|]. enc_node. enc_kids; enc_leaf.
    - ord_split. apply (CTail_enc _ _ _ Hct lo mid hi); [apply (CAtom_enc _ _ _ _ Hca Ol)|exact Ho].
  Qed.
End TypeEnc.

Lemma type_enc f : EncRel (GType f).
Proof. induction f as [|f IH]; [intros ts n lo hi []|]. cbn [GType]. apply TypeF_enc. exact IH. Qed.

Lemma params_enc f ts po lo hi : GParams f ts po -> Ord lo ts hi -> OptIE lo hi po.
Proof. apply ParamList_enc. apply type_enc. Qed.

(* ---------- statements ---------- *)

Ltac sunf := unfold mk_return, mk_comment, mk_local_var, mk_local_var_abs, mk_uses, mk_const_ml, mk_type_decl, mk_while, mk_loop,
                    mk_repeat, mk_for, mk_foreach, mk_when, mk_switch_else, mk_switch, mk_if, mk_unary_post, mk_binop, cb_node in *;
             cbn [cb_raw cb_range cb_cond cb_stmts opt_list app] in *.

(* the last identifier of a token list  a, b, c *)
Lemma TokList_last item sep ts ids lo hi : TokList item sep ts ids -> Ord lo ts hi ->
  exists t l, rev ids = t :: l /\ pos_le lo (tstart t) /\ twf t /\ pos_le (tend t) hi.
Proof.
  intro H. revert lo. induction H as [t Ht|t cm ts ids Ht Hcm Hrest IH]; intros lo Ho.
  - ord_split. exists t, []. repeat split; auto; apply Ow.
  - ord_split. destruct (IH _ Ho) as (t' & l & E & A & B & C). exists t', (l ++ [t]). cbn [rev]. rewrite E.
    split; [reflexivity|]. split; [|split; [exact B|exact C]]. osolve.
Qed.

(* nodes one after the other between lo and hi *)
Fixpoint ONodes (lo : pos) (ns : list node) (hi : pos) : Prop :=
  match ns with
  | [] => pos_le lo hi
  | n :: r => exists m, IE lo m n /\ ONodes m r hi
  end.

Lemma ONodes_le lo ns hi : ONodes lo ns hi -> pos_le lo hi.
Proof.
  revert lo. induction ns as [|n r IH]; intros lo H; [exact H|]. destruct H as (m & [(A & B & C) _] & H).
  specialize (IH _ H). osolve.
Qed.

Lemma ONodes_Forall lo ns hi : ONodes lo ns hi -> Forall (IE lo hi) ns.
Proof.
  revert lo. induction ns as [|n r IH]; intros lo H; [constructor|]. destruct H as (m & Hn & H).
  pose proof (ONodes_le _ _ _ H). destruct Hn as [(A & B & C) E]. constructor.
  - split; [|exact E]. osolve.
  - eapply Forall_IE_weaken; [|apply pos_le_refl|apply (IH _ H)]. osolve.
Qed.

(* the last node ends last, the first starts first *)
Lemma ONodes_last lo ns hi n l : ONodes lo ns hi -> rev ns = n :: l ->
  forall x, In x ns -> pos_le (rend (nrange x)) (rend (nrange n)).
Proof.
  revert lo n l. induction ns as [|y r IH]; intros lo n l H E x Hx; [destruct Hx|].
  destruct H as (m & [(A & B & C) _] & H). cbn [rev] in E.
  destruct (rev r) as [|z l'] eqn:Er.
  - apply (f_equal (@rev node)) in Er. rewrite rev_involutive in Er. subst r. inversion E; subst.
    destruct Hx as [->|[]]. apply pos_le_refl.
  - cbn [app] in E. inversion E; subst. destruct Hx as [->|Hx].
    + (* y ends before m, z starts after m *)
      assert (In n r) as Hz by (apply in_rev; rewrite Er; left; reflexivity).
      pose proof (ONodes_Forall _ _ _ H) as Hf. rewrite Forall_forall in Hf. destruct (Hf n Hz) as [(A' & B' & C') _]. osolve.
    + apply (IH m n l' H eq_refl x Hx).
Qed.

Lemma ONodes_first lo ns hi n r : ONodes lo ns hi -> ns = n :: r -> forall x, In x ns -> pos_le (rstart (nrange n)) (rstart (nrange x)).
Proof.
  intros H E x Hx. subst ns. destruct H as (m & [(A & B & C) _] & H). destruct Hx as [->|Hx]; [apply pos_le_refl|].
  pose proof (ONodes_Forall _ _ _ H) as Hf. rewrite Forall_forall in Hf. destruct (Hf x Hx) as [(A' & B' & C') _]. osolve.
Qed.

Lemma Args_onodes sep (R : rel) : EncRel R -> forall ts ns lo hi, Args sep R ts ns -> Ord lo ts hi -> ONodes lo ns hi.
Proof.
  intros HR ts ns lo hi H. revert lo. induction H as [ts n Hn|ts n cm ts' ns Hn Hcm Hrest IH]; intros lo Ho.
  - exists hi. split; [apply (HR _ _ _ _ Hn Ho)|apply pos_le_refl].
  - ord_split. exists mid. split; [apply (HR _ _ _ _ Hn Ol)|]. specialize (IH _ Ho).
    destruct ns as [|n' ns']; [cbn [ONodes] in *; osolve|]. destruct IH as (m & [(A & B & C) E] & IH). exists m. split; [|exact IH].
    split; [|exact E]. osolve.
Qed.

(* ---------- OQL ---------- *)

Lemma ONodes_app lo a m b hi : ONodes lo a m -> ONodes m b hi -> ONodes lo (a ++ b) hi.
Proof.
  revert lo. induction a as [|n a IH]; intros lo Ha Hb; cbn [app].
  - cbn [ONodes] in Ha. destruct b as [|y b]; cbn [ONodes] in *; [osolve|]. destruct Hb as (m' & [(A & B & C) E] & Hb).
    exists m'. split; [|exact Hb]. split; [osolve|exact E].
  - destruct Ha as (m' & Hn & Ha). exists m'. split; [exact Hn|apply IH; assumption].
Qed.

Lemma ONodes_weaken_lo lo lo' ns hi : pos_le lo' lo -> ONodes lo ns hi -> ONodes lo' ns hi.
Proof.
  intros Hl H. destruct ns as [|n r]; cbn [ONodes] in *; [osolve|]. destruct H as (m & [(A & B & C) E] & X). exists m.
  split; [|exact X]. split; [osolve|exact E].
Qed.

Lemma ONodes_one lo hi n : IE lo hi n -> ONodes lo [n] hi.
Proof. intro H. exists hi. split; [exact H|apply pos_le_refl]. Qed.

Lemma ONodes_opt lo hi (o : option node) : match o with Some n => IE lo hi n | None => pos_le lo hi end -> ONodes lo (opt_list o) hi.
Proof. destruct o; cbn [opt_list]; [apply ONodes_one|intro H; exact H]. Qed.

Ltac qunf := unfold mk_oql_call, mk_join, mk_from, mk_order_by, mk_oql_select, mk_oql_fetch in *.

Section OqlEnc.
  Variables RE RD RC : rel.
  Hypothesis HRE : EncRel RE.
  Hypothesis HRD : EncRel RD.
  Hypothesis HRC : EncRel RC.

  Lemma Star_enc : EncRel Star.
  Proof. intros ts n lo hi [t Ht] Ho. apply terminal_IE. exact Ho. Qed.

  Lemma SelItem_enc : EncRel (SelItem RD).
  Proof.
    intros ts n lo hi H Ho. destruct H as [t Ht|id o c Hid Ho' Hc|id o ts ns c Hid Ho' Ha Hc|ts n Hd Hp].
    - apply terminal_IE. exact Ho.
    - ord_split. qunf. split; [osolve|enc_leaf].
    - ord_split. pose proof (Args_enc TComma _ Star_enc _ _ _ _ Ha Ol) as Hs. pose proof (Ord_le _ _ _ Ol). qunf.
      split; [osolve|]. enc_node. apply (IE_children _ (tend o) mid); [exact Hs|osolve|osolve].
    - apply (HRD _ _ _ _ Hd Ho).
  Qed.

  Lemma Joins_onodes jts joins lo hi : Joins RC jts joins -> Ord lo jts hi -> ONodes lo joins hi.
  Proof.
    intro H. revert lo. induction H as [|jt cts cn rest ns Hj Hc Hrest IH]; intros lo Ho; [exact (Ord_le _ _ _ Ho)|].
    ord_split. destruct (HRC _ _ _ _ Hc Ol) as [(A & B & C) E]. exists mid. split; [|apply (IH _ Ho)].
    qunf. split; [osolve|]. enc_node. enc_kids; exact E.
  Qed.

  Lemma FromItem_enc : EncRel (FromItem RC).
  Proof.
    intros ts n lo hi H Ho. destruct H as [cond allv ph al ik src sub jts joins Hcond Hallv Hph Hal Hik Hsrc Hsub Hj].
    assert (forall a b, Ord a jts b -> forall x, pos_le x a ->
              match rev joins with n :: _ => pos_le x (rend (nrange n)) /\ pos_le (rend (nrange n)) b | [] => True end /\
              Forall (fun c => enc_tree c /\ pos_le a (rstart (nrange c)) /\
                               pos_le (rend (nrange c)) (rend (match rev joins with n :: _ => nrange n | [] => nrange c end))) joins) as Hjj.
    { intros a b Hoj x Hx. pose proof (Joins_onodes _ _ _ _ Hj Hoj) as Hon. pose proof (ONodes_Forall _ _ _ Hon) as Hf.
      destruct (rev joins) as [|z l] eqn:Er.
      - apply (f_equal (@rev node)) in Er. rewrite rev_involutive in Er. subst joins. split; [exact I|constructor].
      - assert (In z joins) as Hz by (apply in_rev; rewrite Er; left; reflexivity).
        rewrite Forall_forall in Hf. destruct (Hf z Hz) as [(A & B & C) _]. split; [split; osolve|].
        apply Forall_forall. intros c Hc. destruct (Hf c Hc) as [(A' & B' & C') E']. split; [exact E'|]. split; [exact A'|].
        apply (ONodes_last _ _ _ _ _ Hon Er c Hc). }
    destruct cond as [cd|], allv as [av|], ph as [p|], sub as [sb|]; cbn [opt_list app] in Ho; ord_split;
      pose proof (Ord_le _ _ _ Ho) as Hjle;
      match type of Ho with Ord ?a _ _ => destruct (Hjj a hi Ho a (pos_le_refl a)) as [Hlast Hkids] end;
      qunf; destruct (rev joins) as [|z l] eqn:Er;
      try destruct Hlast as [Hl1 Hl2];
      (split; [osolve|]); enc_node;
      (constructor; [split; [enc_leaf|osolve]|]);
      (apply Forall_forall; intros c Hc; rewrite Forall_forall in Hkids; destruct (Hkids c Hc) as (E' & A' & C');
       split; [exact E'|]; first [osolve | exfalso; apply (f_equal (@rev node)) in Er; rewrite rev_involutive in Er; cbn in Er; subst joins; destruct Hc]).
  Qed.

  Lemma OrdItem_enc : EncRel (OrdItem RD).
  Proof.
    intros ts n lo hi H Ho. destruct H as [ts n d Hd Hdd]. ord_split. destruct (HRD _ _ _ _ Hd Ol) as [(A & B & C) E].
    qunf. destruct d as [t|]; cbn [opt_list] in Ho; ord_split; (split; [osolve|]); enc_node; enc_kids; exact E.
  Qed.

  Theorem OqlStmt_enc : EncRel (OqlStmt RE RD RC).
  Proof.
    intros ts n lo hi H Ho.
    destruct H as [ot st lts lim dist sts sel fk fts frm wts wh obts ob uts us Hot Hst Hlim Hdist Hsel Hfk Hfrm Hwh Hob Hus
                  |ot fk ik its into uts us Hot Hfk Hik Hinto Hus].
    - ord_split.
      (* lts=Ol mid | dist=Ol0 mid0 | sts=Ol1 mid1 | fk | fts=Ol2 mid2 | wts=Ol3 mid3 | obts=Ol4 mid4 | uts=Ho *)
      assert (match lim with Some n => IE (tend st) mid n | None => pos_le (tend st) mid end) as Hl.
      { destruct Hlim as [|k v Hk Hv]; [exact (Ord_le _ _ _ Ol)|]. ord_split. split; [osolve|enc_leaf]. }
      pose proof (Ord_le _ _ _ Ol0) as Hd0.
      pose proof (Args_onodes TComma _ SelItem_enc _ _ _ _ Hsel Ol1) as Osel.
      pose proof (Args_onodes TComma _ FromItem_enc _ _ _ _ Hfrm Ol2) as Ofrm.
      assert (ONodes mid2 (opt_list wh) mid3) as Owh.
      { destruct Hwh as [|k ts n Hk Hn]; cbn [opt_list]; [exact (Ord_le _ _ _ Ol3)|]. ord_split.
        destruct (HRE _ _ _ _ Hn Ol3) as [(A & B & C) E]. apply ONodes_one. split; [osolve|exact E]. }
      assert (ONodes mid3 (olist ob) mid4) as Oob.
      { destruct Hob as [|k b ts ns Hk Hb Ha]; cbn [olist]; [exact (Ord_le _ _ _ Ol4)|]. ord_split.
        pose proof (Args_onodes TComma _ OrdItem_enc _ _ _ _ Ha Ol4) as X. eapply ONodes_weaken_lo; [|exact X]. osolve. }
      assert (ONodes mid4 (opt_list us) hi) as Ous.
      { destruct Hus as [|k v Hk Hv]; cbn [opt_list]; [exact (Ord_le _ _ _ Ho)|]. ord_split. apply ONodes_one. split; [osolve|enc_leaf]. }
      assert (ONodes mid0 (sel ++ frm ++ opt_list wh ++ olist ob ++ opt_list us) hi) as Orest.
      { apply (ONodes_app _ _ mid1); [exact Osel|]. apply (ONodes_app _ _ mid2).
        - eapply ONodes_weaken_lo; [|exact Ofrm]. osolve.
        - apply (ONodes_app _ _ mid3); [exact Owh|]. apply (ONodes_app _ _ mid4); [exact Oob|exact Ous]. }
      set (rest := sel ++ frm ++ opt_list wh ++ olist ob ++ opt_list us) in *.
      pose proof (Args_length _ _ _ _ Hsel) as Hsl.
      assert (exists z l, rev rest = z :: l) as (z & l & Er).
      { destruct (rev rest) as [|z l] eqn:Er; [|eauto]. apply (f_equal (@length node)) in Er. rewrite rev_length in Er. unfold rest in Er.
        rewrite app_length in Er. simpl in Er. lia. }
      pose proof (ONodes_Forall _ _ _ Orest) as Hf. pose proof (ONodes_last _ _ _ _ _ Orest Er) as Hlast.
      assert (In z rest) as Hz by (apply in_rev; rewrite Er; left; reflexivity).
      rewrite Forall_forall in Hf. destruct (Hf z Hz) as [(Az & Bz & Cz) _].
      qunf. unfold select_end, last_range. fold rest. rewrite Er.
      pose proof (Ord_le _ _ _ Ol0). pose proof (Ord_le _ _ _ Ol). split; [osolve|]. enc_node. apply Forall_app. split.
      + destruct lim as [n0|]; cbn [opt_list]; [|constructor]. destruct Hl as [(A & B & C) E]. constructor; [|constructor].
        split; [exact E|]. osolve.
      + apply Forall_forall. intros c Hc. destruct (Hf c Hc) as [(A & B & C) E]. split; [exact E|].
        unfold encloses. cbn [new_range rstart rend]. split; [osolve|apply Hlast; exact Hc].
    - ord_split. pose proof (Args_onodes TComma _ HRD _ _ _ _ Hinto Ol) as Oin.
      assert (ONodes mid (opt_list us) hi) as Ous.
      { destruct Hus as [|k v Hk Hv]; cbn [opt_list]; [exact (Ord_le _ _ _ Ho)|]. ord_split. apply ONodes_one. split; [osolve|enc_leaf]. }
      pose proof (ONodes_app _ _ _ _ _ Oin Ous) as Oall. pose proof (ONodes_Forall _ _ _ Oall) as Hf.
      pose proof (Args_length _ _ _ _ Hinto) as Hil.
      assert (exists z l, rev (into ++ opt_list us) = z :: l) as (z & l & Er).
      { destruct (rev (into ++ opt_list us)) as [|z l] eqn:Er; [|eauto]. apply (f_equal (@length node)) in Er. rewrite rev_length, app_length in Er. cbn [length] in Er. lia. }
      pose proof (ONodes_last _ _ _ _ _ Oall Er) as Hlast.
      assert (In z (into ++ opt_list us)) as Hz by (apply in_rev; rewrite Er; left; reflexivity).
      rewrite Forall_forall in Hf. destruct (Hf z Hz) as [(Az & Bz & Cz) _].
      assert ((match us with Some n => nrange n | None => last_range into (trange ik) end) = nrange z) as Ez.
      { destruct us as [u|]; cbn [opt_list] in Er.
        - rewrite rev_app_distr in Er. cbn in Er. inversion Er. reflexivity.
        - rewrite app_nil_r in Er. unfold last_range. rewrite Er. reflexivity. }
      qunf. rewrite Ez. split; [osolve|]. enc_node. apply Forall_forall. intros c Hc. destruct (Hf c Hc) as [(A & B & C) E].
      split; [exact E|]. unfold encloses. cbn [new_range rstart rend]. split; [osolve|apply Hlast; exact Hc].
  Qed.
End OqlEnc.

Section StmtEnc.
  Variable f : nat.
  Variable RS : rel.
  Hypothesis HRS : EncRel RS.

  Lemma Seq_onodes h ts ns lo hi : Seq RS h ts ns -> Ord lo ts hi -> ONodes lo ns hi.
  Proof.
    intro H. revert lo. induction H as [|ts n ts' ns Hn Hseq IH Hfo]; intros lo Ho; [exact (Ord_le _ _ _ Ho)|].
    ord_split. exists mid. split; [apply (HRS _ _ _ _ Hn Ol)|apply (IH _ Ho)].
  Qed.

  Lemma Seq_enc h : EncList (Seq RS h).
  Proof. intros ts ns lo hi H Ho. apply ONodes_Forall. eapply Seq_onodes; eauto. Qed.

  (* a conditional block: keyword range kr, optional condition in [a, a'], statements in [a', b] after the keyword;
     or (repeat-until) the statements first and the condition after them *)
  Lemma cond_block_IE raw kr (cond : option node) stmts a a' b lo hi :
    pos_le lo (rstart kr) -> pos_le (rstart kr) (rend kr) -> pos_le (rend kr) a -> pos_le b hi ->
    match cond with Some c => IE a a' c | None => pos_le a a' end -> ONodes a' stmts b ->
    IE lo hi (cb_node (cb_update (mkCB raw kr cond stmts))).
  Proof.
    intros H1 H2 H3 H5 Hc Hs. unfold cb_update, cb_node. cbn [cb_raw cb_range cb_cond cb_stmts].
    pose proof (ONodes_le _ _ _ Hs) as Hab. pose proof (ONodes_Forall _ _ _ Hs) as Hf.
    assert (pos_le a a') as Haa by (destruct cond as [c|]; [destruct Hc as [(A & B & C) _]; osolve|exact Hc]).
    set (er := match rev stmts with n :: _ => nrange n | [] => match cond with Some n => nrange n | None => kr end end).
    assert (pos_le (rend kr) (rend er) /\ pos_le (rend er) b /\
            (forall x, In x stmts -> pos_le (rend (nrange x)) (rend er)) /\
            match cond with Some c => pos_le (rend (nrange c)) (rend er) | None => True end) as (E1 & E2 & E3 & E4).
    { unfold er. destruct (rev stmts) as [|n l] eqn:Er.
      - apply (f_equal (@rev node)) in Er. rewrite rev_involutive in Er. subst stmts.
        destruct cond as [c|]; [destruct Hc as [(A & B & C) _]|]; (split; [|split; [|split; [intros x []|]]]); try apply pos_le_refl; try exact I; osolve.
      - assert (In n stmts) as Hin by (apply in_rev; rewrite Er; left; reflexivity).
        rewrite Forall_forall in Hf. destruct (Hf n Hin) as [(A & B & C) _].
        split; [osolve|]. split; [osolve|]. split; [apply (ONodes_last _ _ _ _ _ Hs Er)|].
        destruct cond as [c|]; [|exact I]. destruct Hc as [(A' & B' & C') _]. osolve. }
    split.
    - ounf. repeat split; osolve.
    - enc_node. apply Forall_app. split.
      + destruct cond as [c|]; cbn [opt_list]; [|constructor]. destruct Hc as [(A & B & C) Ec].
        constructor; [|constructor]. split; [exact Ec|]. unfold encloses. cbn [new_range rstart rend]. split; [osolve|exact E4].
      + apply Forall_forall. intros x Hx. rewrite Forall_forall in Hf. destruct (Hf x Hx) as [(A & B & C) Ex].
        split; [exact Ex|]. unfold encloses. cbn [new_range rstart rend]. split; [osolve|apply E3; exact Hx].
  Qed.

  Lemma binop_IE op l r lo m1 m2 hi : IE lo m1 l -> IE m2 hi r -> pos_le m1 m2 -> IE lo hi (mk_binop op l r).
  Proof.
    intros [(A & B & C) El] [(A' & B' & C') Er] Hm. unfold mk_binop. split; [osolve|]. enc_node. enc_kids; assumption.
  Qed.

  Lemma WhenExpr_enc : EncRel WhenExpr.
  Proof.
    intros ts n lo hi H Ho. destruct H as [l k h Hl Hk Hh|ts ns Hv].
    - ord_split. apply (binop_IE k _ _ lo (tend l) (tstart h) hi).
      + split; [osolve|enc_leaf].
      + split; [osolve|enc_leaf].
      + osolve.
    - assert (EncRel WVal) as HW.
      { intros ts' n' lo' hi' [t Ht] Ho'. apply terminal_IE. exact Ho'. }
      pose proof (Args_onodes TComma WVal HW _ _ _ _ Hv Ho) as Hon. pose proof (ONodes_Forall _ _ _ Hon) as Hf.
      pose proof (Args_length _ _ _ _ Hv) as Hl. destruct ns as [|n0 ns']; [simpl in Hl; lia|].
      unfold mk_when_values.
      assert (forall x, In x (n0 :: ns') -> pos_le (rstart (nrange n0)) (rstart (nrange x))) as Hfirst
        by (apply (ONodes_first _ _ _ _ _ Hon eq_refl)).
      destruct (rev (n0 :: ns')) as [|z l] eqn:Er; [apply (f_equal (@length node)) in Er; rewrite rev_length in Er; discriminate|].
      pose proof (ONodes_last _ _ _ _ _ Hon Er) as Hlast.
      assert (In z (n0 :: ns')) as Hz by (apply in_rev; rewrite Er; left; reflexivity).
      rewrite Forall_forall in Hf. destruct (Hf n0 ltac:(left; reflexivity)) as [(A & B & C) _]. destruct (Hf z Hz) as [(A' & B' & C') _].
      pose proof (Hfirst z Hz). pose proof (Hlast n0 ltac:(left; reflexivity)).
      split; [osolve|]. enc_node. apply Forall_forall. intros x Hx. destruct (Hf x Hx) as [_ Ex]. split; [exact Ex|].
      unfold encloses. cbn [new_range rstart rend]. split; [apply Hfirst; exact Hx|apply Hlast; exact Hx].
  Qed.

  Lemma Whens_enc : EncList (Whens RS).
  Proof.
    intros ts ns lo hi H. revert lo. induction H as [|wt wets we body ns e rest ws Hwt Hwe Hseq He Hrest IH]; intros lo Ho; [constructor|].
    ord_split. destruct (WhenExpr_enc _ _ _ _ Hwe Ol) as [Iw Ew]. pose proof (Seq_enc _ _ _ _ _ Hseq Ol0) as Hb.
    pose proof (Ord_le _ _ _ Ol). pose proof (Ord_le _ _ _ Ol0). pose proof (Ord_le _ _ _ Ho). constructor.
    - sunf. split; [osolve|]. enc_node. constructor; [split; [exact Ew|osolve]|].
      apply (IE_children _ mid mid0); [exact Hb|osolve|osolve].
    - eapply Forall_IE_weaken; [|apply pos_le_refl|apply (IH _ Ho)]. osolve.
  Qed.

  (* the if / elseif / else chain from a block that has no statements yet *)
  Lemma IfTail_enc : forall k cur ts out, IfTail f RS k cur ts out -> cb_stmts cur = [] ->
    forall lo a a' hi, pos_le lo (rstart (cb_range cur)) -> pos_le (rstart (cb_range cur)) (rend (cb_range cur)) ->
      pos_le (rend (cb_range cur)) a -> match cb_cond cur with Some c => IE a a' c | None => pos_le a a' end ->
      Ord a' ts hi ->
      Forall (IE lo (tstart (snd out))) (map cb_node (fst (fst out) ++ [snd (fst out)])) /\
      pos_le lo (tstart (snd out)) /\ twf (snd out) /\ pos_le (tend (snd out)) hi.
  Proof.
    intros k cur ts out H.
    induction H as [cur body ns e Hseq He|k cur body ns t cts cn tail pre last e Hseq Ht Hc Htail IH
                   |k cur body ns t tail pre last e Hseq Ht Htail IH];
      intros Hst lo a a' hi H1 H2 H3 Hcond Ho; cbn [fst snd app map]; destruct cur as [raw kr cond st]; cbn [cb_stmts cb_range cb_cond] in *; subst st;
      unfold cb_add; cbn [cb_raw cb_range cb_cond cb_stmts app].
    - ord_split. pose proof (Seq_onodes _ _ _ _ _ Hseq Ol) as Hon. pose proof (Ord_le _ _ _ Ol).
      assert (pos_le a a') by (destruct cond as [c|]; [destruct Hcond as [(A & B & C) _]; osolve|exact Hcond]).
      split; [|split; [osolve|split; [exact Ow|osolve]]].
      constructor; [|constructor]. apply (cond_block_IE raw kr cond ns a a' mid lo (tstart e)); auto; osolve.
    - ord_split. pose proof (Seq_onodes _ _ _ _ _ Hseq Ol) as Hon. pose proof (Ord_le _ _ _ Ol).
      destruct (expr_enc (S f) _ _ _ _ Hc Ol0) as [Ic Ec]. pose proof (Ord_le _ _ _ Ol0). pose proof (Ord_le _ _ _ Ho).
      assert (pos_le a a') by (destruct cond as [c|]; [destruct Hcond as [(A & B & C) _]; osolve|exact Hcond]).
      destruct (IH eq_refl (tstart t) (tend t) mid0 hi ltac:(apply pos_le_refl) ltac:(apply Ow) ltac:(apply pos_le_refl) (conj Ic Ec) Ho)
        as (Hf & E1 & E2 & E3).
      split; [|split; [osolve|split; [exact E2|exact E3]]].
      constructor.
      + apply (cond_block_IE raw kr cond ns a a' mid lo (tstart e)); auto; osolve.
      + eapply Forall_IE_weaken; [|apply pos_le_refl|exact Hf]. osolve.
    - ord_split. pose proof (Seq_onodes _ _ _ _ _ Hseq Ol) as Hon. pose proof (Ord_le _ _ _ Ol). pose proof (Ord_le _ _ _ Ho).
      assert (pos_le a a') by (destruct cond as [c|]; [destruct Hcond as [(A & B & C) _]; osolve|exact Hcond]).
      destruct (IH eq_refl (tstart t) (tend t) (tend t) hi ltac:(apply pos_le_refl) ltac:(apply Ow) ltac:(apply pos_le_refl)
                   ltac:(apply pos_le_refl) Ho) as (Hf & E1 & E2 & E3).
      split; [|split; [osolve|split; [exact E2|exact E3]]].
      constructor.
      + apply (cond_block_IE raw kr cond ns a a' mid lo (tstart e)); auto; osolve.
      + eapply Forall_IE_weaken; [|apply pos_le_refl|exact Hf]. osolve.
  Qed.

  Theorem Stmt_enc : EncRel (Stmt f RS).
  Proof.
    intros ts n lo hi H Ho.
    destruct H as [tl nl op tr nr Hl Hhd Hjl Hop Hr|ts n Hd Hhd Hjl|ts n op Hd Hhd Hjl Hop|rt ts n Hrt He|t Ht|c Hc
                  |vt id col tts tn Hvt Hid Hcol Hty|wt cts cn body ns e Hwt Hc Hseq He|lt body ns e Hlt Hseq He
                  |rt body ns u cts cn Hrt Hseq Hu Hc
                  |ft vt eq lts ln top hts hn body ns e Hft Hvt Heq Hlo Htop Hhi Hseq He
                  |ft vt eq lts ln top hts hn stp sts sn body ns e Hft Hvt Heq Hlo Htop Hhi Hstp Hst Hseq He
                  |vt id col tts tn ak an Hvt Hid Hcol Hty Hak Han
                  |ut uts ids Hut Hl
                  |ct id eq v ml Hct Hid Heq Hv Hml
                  |tk id col tts tn Htk Hid Hcol Hty
                  |ft ets en dt ut body ns e Hft Hen Hdt Hut Hseq He
                  |st ets en wts whens elts els e Hst Hen Hwh Hel He
                  |ts n Hoql
                  |it cts cn k tail pre last e Hit Hc Htail].
    - (* assignment *)
      ord_split. apply (binop_IE op nl nr lo mid (tend op) hi); [apply (dots_enc (S f) _ _ _ _ Hl Ol)|apply (expr_enc (S f) _ _ _ _ Hr Ho)|osolve].
    - apply (dots_enc (S f) _ _ _ _ Hd Ho).
    - (* postfix *)
      ord_split. destruct (dots_enc (S f) _ _ _ _ Hd Ol) as [(A & B & C) E]. sunf. split; [osolve|]. enc_node. enc_kids; exact E.
    - (* return *)
      ord_split. destruct (expr_enc (S f) _ _ _ _ He Ho) as [(A & B & C) E]. sunf. split; [osolve|]. enc_node. enc_kids; exact E.
    - apply terminal_IE. exact Ho.
    - ord_split. sunf. split; [osolve|enc_leaf].
    - (* var *)
      ord_split. destruct (type_enc (S f) _ _ _ _ Hty Ho) as [(A & B & C) E]. sunf. split; [osolve|]. enc_node. enc_kids; exact E.
    - (* while *)
      ord_split. destruct (expr_enc (S f) _ _ _ _ Hc Ol) as [(A & B & C) Ec]. pose proof (Seq_enc _ _ _ _ _ Hseq Ol0) as Hb.
      pose proof (Ord_le _ _ _ Ol). pose proof (Ord_le _ _ _ Ol0). sunf.
      split; [osolve|]. enc_node. constructor; [|constructor]. split; [|osolve]. enc_node.
      constructor; [split; [exact Ec|osolve]|]. apply (IE_children _ mid mid0); [exact Hb|osolve|osolve].
    - (* loop *)
      ord_split. pose proof (Seq_enc _ _ _ _ _ Hseq Ol) as Hb. pose proof (Ord_le _ _ _ Ol). sunf.
      split; [osolve|]. enc_node. apply (IE_children _ (tend lt) mid); [exact Hb|osolve|osolve].
    - (* repeat *)
      ord_split. pose proof (Seq_enc _ _ _ _ _ Hseq Ol) as Hb. destruct (expr_enc (S f) _ _ _ _ Hc Ho) as [(A & B & C) Ec].
      pose proof (Ord_le _ _ _ Ol). sunf.
      split; [osolve|]. enc_node. constructor; [|constructor]. split; [|osolve]. enc_node.
      constructor; [split; [exact Ec|osolve]|]. apply (IE_children _ (tend rt) mid); [exact Hb|osolve|osolve].
    - (* for *)
      ord_split. pose proof (Seq_enc _ _ _ _ _ Hseq Ol1) as Hb.
      pose proof (binop_IE top ln hn (tend eq) mid (tend top) mid0 (expr_enc (S f) _ _ _ _ Hlo Ol) (expr_enc (S f) _ _ _ _ Hhi Ol0)
                    ltac:(osolve)) as [(A & B & C) Er].
      pose proof (Ord_le _ _ _ Ol1). sunf. split; [osolve|]. enc_node.
      constructor; [split; [exact Er|osolve]|]. apply (IE_children _ mid0 mid1); [exact Hb|osolve|osolve].
    - (* for .. step *)
      ord_split. pose proof (Seq_enc _ _ _ _ _ Hseq Ol2) as Hb.
      pose proof (binop_IE top ln hn (tend eq) mid (tend top) mid0 (expr_enc (S f) _ _ _ _ Hlo Ol) (expr_enc (S f) _ _ _ _ Hhi Ol0)
                    ltac:(osolve)) as [(A & B & C) Er].
      destruct (expr_enc (S f) _ _ _ _ Hst Ol1) as [(A' & B' & C') Es].
      pose proof (Ord_le _ _ _ Ol2). sunf. split; [osolve|]. enc_node.
      constructor; [split; [exact Er|osolve]|]. constructor; [split; [exact Es|osolve]|].
      apply (IE_children _ mid1 mid2); [exact Hb|osolve|osolve].
    - (* var .. absolute *)
      ord_split. destruct (type_enc (S f) _ _ _ _ Hty Ol) as [(A & B & C) E]. sunf. split; [osolve|]. enc_node. enc_kids; [exact E|enc_leaf].
    - (* uses *)
      ord_split. destruct (TokList_last _ _ _ _ _ _ Hl Ho) as (t & l & E & A & B & C). sunf. rewrite E.
      split; [osolve|enc_leaf].
    - (* const *)
      ord_split. sunf. destruct ml; cbn [opt_list] in *; ord_split; (split; [osolve|enc_leaf]).
    - (* type *)
      ord_split. destruct (type_enc (S f) _ _ _ _ Hty Ho) as [(A & B & C) E]. sunf. split; [osolve|]. enc_node. enc_kids; exact E.
    - (* foreach *)
      ord_split. destruct (expr_enc (S f) _ _ _ _ Hen Ol) as [(A & B & C) Ee].
      pose proof (Seq_enc _ _ _ _ _ Hseq Ol2) as Hb. pose proof (Ord_le _ _ _ Ol0). pose proof (Ord_le _ _ _ Ol1). pose proof (Ord_le _ _ _ Ol2).
      sunf. destruct ut as [[uk uv]|]; cbn [option_map snd opt_list app] in *.
      + ord_split. split; [osolve|]. enc_node. constructor; [split; [exact Ee|osolve]|].
        constructor; [split; [enc_leaf|osolve]|]. apply (IE_children _ mid1 mid2); [exact Hb|osolve|osolve].
      + split; [osolve|]. enc_node. constructor; [split; [exact Ee|osolve]|].
        apply (IE_children _ mid1 mid2); [exact Hb|osolve|osolve].
    - (* switch *)
      ord_split. destruct (expr_enc (S f) _ _ _ _ Hen Ol) as [(A & B & C) Ee]. pose proof (Whens_enc _ _ _ _ Hwh Ol0) as Hw.
      pose proof (Ord_le _ _ _ Ol0). pose proof (Ord_le _ _ _ Ol1). sunf.
      split; [osolve|]. enc_node. constructor; [split; [exact Ee|osolve]|]. apply Forall_app. split.
      + apply (IE_children _ mid mid0); [exact Hw|osolve|osolve].
      + destruct Hel as [|et body ns Het Hseq]; cbn [option_map opt_list fst snd]; [constructor|].
        ord_split. pose proof (Seq_enc _ _ _ _ _ Hseq Ol1) as Hb. pose proof (Ord_le _ _ _ Ol1).
        constructor; [|constructor]. split; [|osolve]. enc_node. apply (IE_children _ (tend et) mid1); [exact Hb|osolve|osolve].
    - (* oql *)
      apply (OqlStmt_enc _ _ _ (expr_enc (S f)) (dots_enc (S f)) (exprk_enc (S f) 2) _ _ _ _ Hoql Ho).
    - (* if *)
      ord_split. destruct (expr_enc (S f) _ _ _ _ Hc Ol) as [(A & B & C) Ec].
      destruct (IfTail_enc _ _ _ _ Htail eq_refl (tstart it) (tend it) mid hi ltac:(apply pos_le_refl) ltac:(apply Ow) ltac:(apply pos_le_refl)
                  (conj (conj A (conj B C)) Ec) Ho) as (Hf & E1 & E2 & E3).
      cbn [fst snd] in *. sunf. split; [osolve|]. enc_node.
      apply (IE_children _ (tstart it) (tstart e)); [exact Hf|osolve|osolve].
  Qed.
End StmtEnc.

Lemma stmt_enc f : EncRel (GStmt f).
Proof. induction f as [|f IH]; [intros ts n lo hi []|]. cbn [GStmt]. apply Stmt_enc. exact IH. Qed.

(* ---------- declarations ---------- *)

Ltac dunf := unfold mk_class, mk_module, mk_field_gen, mk_event_name, mk_proc_node, mk_func_node, mods_end, mods_flags in *.

Lemma Ord_rev_last lo ts hi t l : Ord lo ts hi -> rev ts = t :: l -> pos_le lo (tstart t) /\ twf t /\ pos_le (tend t) hi.
Proof.
  revert lo t l. induction ts as [|x r IH]; intros lo t l H E; [discriminate|]. cbn [rev] in E.
  apply Ord_cons in H. destruct H as (A & B & H). destruct (rev r) as [|z l'] eqn:Er.
  - apply (f_equal (@rev tok)) in Er. rewrite rev_involutive in Er. subst r. inversion E; subst. cbn [Ord] in H. auto.
  - cbn [app] in E. inversion E; subst. destruct (IH _ _ _ H eq_refl) as (A' & B' & C'). split; [|split; assumption]. osolve.
Qed.

Lemma MName_enc : EncRel MName.
Proof.
  intros ts n lo hi H Ho. destruct H as [nm Hn|nm p ev Hn Hp He].
  - apply terminal_IE. exact Ho.
  - ord_split. dunf. split; [osolve|]. enc_node. enc_kids; enc_leaf.
Qed.

(* the span of the collected method modifiers *)
Lemma Mods_span mts mrs lo hi : Mods mts mrs -> Ord lo mts hi ->
  match method_mods_info mrs with
  | Some (_, r, _) => pos_le lo (rstart r) /\ pos_le (rstart r) (rend r) /\ pos_le (rend r) hi
  | None => True
  end.
Proof.
  intros H Ho.
  assert (forall lo, Ord lo mts hi -> forall t, In t mrs -> pos_le lo (rstart (trange t)) /\ pos_le (rstart (trange t)) (rend (trange t)) /\ pos_le (rend (trange t)) hi) as Hall.
  { clear Ho lo. induction H as [|t ts rs Ht Hm IH|t ts rs Ht Hm IH|e s ts rs He Hs Hm IH]; intros lo Ho x Hx; [destruct Hx| | |].
    - ord_split. pose proof (Ord_le _ _ _ Ho). destruct Hx as [<-|Hx]; [osolve|]. destruct (IH _ Ho x Hx) as (A & B & C). osolve.
    - ord_split. pose proof (Ord_le _ _ _ Ho). destruct Hx as [<-|Hx]; [osolve|]. destruct (IH _ Ho x Hx) as (A & B & C). osolve.
    - ord_split. pose proof (Ord_le _ _ _ Ho). destruct Hx as [<-|Hx]; [unfold ext_tok; cbn [trange]; osolve|].
      destruct (IH _ Ho x Hx) as (A & B & C). osolve. }
  assert (forall a l, mrs = a :: l -> exists t0 r0, mts = t0 :: r0 /\ rstart (trange a) = tstart t0) as Hfirst.
  { intros a l E. destruct H; inversion E; subst; eexists _, _; split; reflexivity. }
  unfold method_mods_info. destruct mrs as [|a l]; [exact I|].
  destruct (rev (a :: l)) as [|b l'] eqn:Er; [apply (f_equal (@length tok)) in Er; rewrite rev_length in Er; discriminate|].
  assert (In b (a :: l)) as Hb by (apply in_rev; rewrite Er; left; reflexivity).
  destruct (Hfirst a l eq_refl) as (t0 & r0 & Em & Es). subst mts.
  assert (Ord (tstart t0) (t0 :: r0) hi) as Ho' by (apply Ord_cons in Ho; destruct Ho as (A & B & C); cbn [Ord]; repeat split; try apply B; [apply pos_le_refl|exact C]).
  destruct (Hall _ Ho a ltac:(left; reflexivity)) as (A & B & C). destruct (Hall _ Ho' b Hb) as (A' & B' & C').
  cbn [new_range rstart rend]. rewrite Es in *. osolve.
Qed.

Lemma stmts_span_IE k id raw s0 r lo hi : ONodes lo (s0 :: r) hi ->
  IE lo hi (Node k id raw (new_range (nrange s0) (match rev (s0 :: r) with n :: _ => nrange n | [] => nrange s0 end)) [] (s0 :: r)).
Proof.
  intro Hon. pose proof (ONodes_Forall _ _ _ Hon) as Hf. pose proof (ONodes_first _ _ _ _ _ Hon eq_refl) as Hfirst.
  destruct (rev (s0 :: r)) as [|z l] eqn:Er; [apply (f_equal (@length node)) in Er; rewrite rev_length in Er; discriminate|].
  pose proof (ONodes_last _ _ _ _ _ Hon Er) as Hlast.
  assert (In z (s0 :: r)) as Hz by (apply in_rev; rewrite Er; left; reflexivity).
  rewrite Forall_forall in Hf. destruct (Hf s0 ltac:(left; reflexivity)) as [(A & B & C) _]. destruct (Hf z Hz) as [(A' & B' & C') _].
  pose proof (Hfirst z Hz). pose proof (Hlast s0 ltac:(left; reflexivity)).
  split; [osolve|]. enc_node. apply Forall_forall. intros x Hx. destruct (Hf x Hx) as [_ Ex]. split; [exact Ex|].
  unfold encloses. cbn [new_range rstart rend]. split; [apply Hfirst; exact Hx|apply Hlast; exact Hx].
Qed.

Lemma method_body_IE fuel body ns eraw erange a b c : Seq (GStmt (S fuel)) None body ns -> Ord b body c ->
  pos_le a (rstart erange) -> pos_le (rstart erange) (rend erange) -> pos_le (rend erange) b ->
  IE a c (body_or_default (mk_method_body body ns) eraw erange).
Proof.
  intros Hseq Ho H1 H2 H3. pose proof (Ord_le _ _ _ Ho) as Hbc. unfold body_or_default, mk_method_body.
  destruct body as [|first rest].
  - split; [osolve|enc_leaf].
  - pose proof (Seq_onodes _ (stmt_enc (S fuel)) _ _ _ _ _ Hseq Ho) as Hon.
    destruct ns as [|s0 r].
    + inversion Hseq.
    + eapply IE_weaken; [| |apply (stmts_span_IE _ _ _ s0 r b c Hon)]; [osolve|apply pos_le_refl].
Qed.

Lemma member_mods_span mts lo hi : Ord lo mts hi ->
  match member_mods_info mts with
  | Some (r, _) => pos_le lo (rstart r) /\ pos_le (rstart r) (rend r) /\ pos_le (rend r) hi
  | None => True
  end.
Proof.
  intro Ho. unfold member_mods_info. destruct mts as [|m0 mr]; [exact I|].
  destruct (rev (m0 :: mr)) as [|z l] eqn:Er; [apply (f_equal (@length tok)) in Er; rewrite rev_length in Er; discriminate|].
  destruct (Ord_rev_last _ _ _ _ _ Ho Er) as (A & B & C).
  assert (pos_le (tstart m0) (tend z)) as Hfl.
  { clear A B C. revert lo m0 z l Ho Er. induction mr as [|x r IH]; intros lo m0 z l Ho Er.
    - cbn in Er. inversion Er; subst. apply Ord_cons in Ho. destruct Ho as (_ & (W & _) & _). exact W.
    - apply Ord_cons in Ho. destruct Ho as (_ & (W & _) & Ho). change (rev (m0 :: x :: r)) with (rev (x :: r) ++ [m0]) in Er.
      destruct (rev (x :: r)) as [|z' l'] eqn:Er'; [apply (f_equal (@length tok)) in Er'; rewrite rev_length in Er'; discriminate|].
      cbn [app] in Er. inversion Er; subst. specialize (IH _ x z l' Ho Er'). pose proof Ho as Ho'. apply Ord_cons in Ho'. destruct Ho' as (X & _ & _). osolve. }
  apply Ord_cons in Ho. destruct Ho as (A' & B' & C'). cbn [new_range rstart rend]. osolve.
Qed.

Section DeclEnc.
  Variable fuel : nat.

  Lemma Host_enc : EncRel (Host fuel).
  Proof.
    intros ts n lo hi H Ho.
    destruct H as [ct nt Hct Hnt|ct nt o p c Hct Hnt Ho' Hp Hc|mt nm Hmt Hnm|tk id col tts tn Htk Hid Hcol Hty].
    - ord_split. dunf. split; [osolve|enc_leaf].
    - ord_split. dunf. split; [osolve|enc_leaf].
    - ord_split. dunf. split; [osolve|enc_leaf].
    - ord_split. destruct (type_enc (S fuel) _ _ _ _ Hty Ho) as [(A & B & C) E]. sunf. split; [osolve|]. enc_node. enc_kids; exact E.
  Qed.

  Theorem Decl_enc : EncRel (Decl fuel).
  Proof.
    intros ts n lo hi H Ho.
    destruct H as [ct nt Hct Hnt|ct nt o p c Hct Hnt Ho' Hp Hc|mt nm Hmt Hnm|ut ts ids Hut Hl|ct id eq v ml Hct Hid Heq Hv Hml
                  |tk id col tts tn Htk Hid Hcol Hty
                  |ats mem id col tts tn mts ab Hats Hmem Hid Hcol Hty Hmts Hab|c Hc
                  |pt nts name pts ps mts mrs body ns e Hpt Hname Hps Hmods Hhb Hseq Hb He
                  |pt nts name pts ps mts mrs Hpt Hname Hps Hmods Hhb
                  |ft nts name pts ps rk rt mts mrs body ns e Hft Hname Hps Hrk Hrt Hmods Hhb Hseq Hb He
                  |ft nts name pts ps rk rt mts mrs Hft Hname Hps Hrk Hrt Hmods Hhb
                  |o abody c ts n Hob Hab Hcb Hh].
    - ord_split. dunf. split; [osolve|enc_leaf].
    - ord_split. dunf. split; [osolve|enc_leaf].
    - ord_split. dunf. split; [osolve|enc_leaf].
    - ord_split. destruct (TokList_last _ _ _ _ _ _ Hl Ho) as (t & l & E & A & B & C). sunf. rewrite E. split; [osolve|enc_leaf].
    - ord_split. sunf. destruct ml; cbn [opt_list] in *; ord_split; (split; [osolve|enc_leaf]).
    - ord_split. destruct (type_enc (S fuel) _ _ _ _ Hty Ho) as [(A & B & C) E]. sunf. split; [osolve|]. enc_node. enc_kids; exact E.
    - (* field *)
      ord_split. pose proof (Ord_le _ _ _ Ol) as Hats_le.
      destruct mem as [m|]; cbn [opt_list] in Ol0; ord_split;
        destruct (type_enc (S fuel) _ _ _ _ Hty Ol1) as [(A & B & C) E]; pose proof (Ord_le _ _ _ Ol2) as Hm_le;
        pose proof (member_mods_span _ _ _ Ol2) as Hmi;
        dunf; destruct (member_mods_info mts) as [[mr mf]|]; destruct ab as [[k v]|];
        cbn [absolute_toks absolute_node option_map snd opt_list app] in *; ord_split;
        (split; [osolve|]); enc_node; enc_kids; first [exact E|enc_leaf].
    - ord_split. sunf. split; [osolve|enc_leaf].
    - (* proc with body *)
      ord_split. destruct (MName_enc _ _ _ _ Hname Ol) as [(A & B & C) En]. pose proof (params_enc (S fuel) _ _ _ _ Hps Ol0) as Hpe.
      pose proof (Mods_span _ _ _ _ Hmods Ol1) as Hms.
      pose proof (Ord_le _ _ _ Ol0). pose proof (Ord_le _ _ _ Ol1). pose proof (Ord_le _ _ _ Ol2).
      dunf. destruct (method_mods_info mrs) as [[[mr rr] fl]|]; destruct ps as [pn|]; cbn [OptIE opt_list app fst snd] in *;
        try destruct Hpe as [(A' & B' & C') Ep].
      all: match goal with |- context [body_or_default (mk_method_body ?bd ?nn) ?er ?rg] =>
             assert (IE (tend pt) mid2 (body_or_default (mk_method_body bd nn) er rg)) as [(A2 & B2 & C2) Eb]
               by (apply (method_body_IE fuel bd nn er rg (tend pt) mid1 mid2 Hseq Ol2); osolve) end.
      all: split; [osolve|]; enc_node; enc_kids; first [exact En|exact Ep|exact Eb].
    - (* proc without body *)
      ord_split. destruct (MName_enc _ _ _ _ Hname Ol) as [(A & B & C) En]. pose proof (params_enc (S fuel) _ _ _ _ Hps Ol0) as Hpe.
      pose proof (Mods_span _ _ _ _ Hmods Ho) as Hms. pose proof (Ord_le _ _ _ Ol0). pose proof (Ord_le _ _ _ Ho).
      dunf. destruct (method_mods_info mrs) as [[[mr rr] fl]|]; destruct ps as [pn|]; cbn [OptIE opt_list app fst snd] in *;
        try destruct Hpe as [(A' & B' & C') Ep]; (split; [osolve|]); enc_node; enc_kids; first [exact En|exact Ep].
    - (* func with body *)
      ord_split. destruct (MName_enc _ _ _ _ Hname Ol) as [(A & B & C) En]. pose proof (params_enc (S fuel) _ _ _ _ Hps Ol0) as Hpe.
      pose proof (Mods_span _ _ _ _ Hmods Ol1) as Hms.
      pose proof (Ord_le _ _ _ Ol0). pose proof (Ord_le _ _ _ Ol1). pose proof (Ord_le _ _ _ Ol2).
      dunf. destruct (method_mods_info mrs) as [[[mr rr] fl]|]; destruct ps as [pn|]; cbn [OptIE opt_list app fst snd] in *;
        try destruct Hpe as [(A' & B' & C') Ep].
      all: match goal with |- context [body_or_default (mk_method_body ?bd ?nn) ?er ?rg] =>
             assert (IE (tend ft) mid2 (body_or_default (mk_method_body bd nn) er rg)) as [(A2 & B2 & C2) Eb]
               by (apply (method_body_IE fuel bd nn er rg (tend ft) mid1 mid2 Hseq Ol2); osolve) end.
      all: split; [osolve|]; enc_node; enc_kids; first [exact En|exact Ep|exact Eb|enc_leaf].
    - (* func without body *)
      ord_split. destruct (MName_enc _ _ _ _ Hname Ol) as [(A & B & C) En]. pose proof (params_enc (S fuel) _ _ _ _ Hps Ol0) as Hpe.
      pose proof (Mods_span _ _ _ _ Hmods Ho) as Hms. pose proof (Ord_le _ _ _ Ol0). pose proof (Ord_le _ _ _ Ho).
      dunf. destruct (method_mods_info mrs) as [[[mr rr] fl]|]; destruct ps as [pn|]; cbn [OptIE opt_list app fst snd] in *;
        try destruct Hpe as [(A' & B' & C') Ep]; (split; [osolve|]); enc_node; enc_kids; first [exact En|exact Ep|enc_leaf].
    - (* [ annotation ] host *)
      ord_split. pose proof (Ord_le _ _ _ Ol). eapply IE_weaken; [|apply pos_le_refl|apply (Host_enc _ _ _ _ Hh Ho)]. osolve.
  Qed.

  (* a derivable file: every declaration node lies inside the file and every node in it encloses its children; the
     empty node a stand-alone annotation leaves has no position (default range) and no children *)
  Theorem Decls_enc ts ns lo hi : Decls fuel ts ns -> Ord lo ts hi -> Forall (fun n => n = mk_empty_default \/ IE lo hi n) ns.
  Proof.
    intro H. revert lo. induction H as [|ts n ts' ns Hd Hds IH Hfo|o abody c ts' ns Hob Hab Hcb Hr Hds IH]; intros lo Ho; [constructor| |].
    - ord_split. pose proof (Ord_le _ _ _ Ho). pose proof (Ord_le _ _ _ Ol). constructor.
      + right. eapply IE_weaken; [apply pos_le_refl| |apply (Decl_enc _ _ _ _ Hd Ol)]. osolve.
      + eapply Forall_impl; [|apply (IH _ Ho)]. intros x [->|Hx]; [left; reflexivity|right].
        eapply IE_weaken; [|apply pos_le_refl|exact Hx]. osolve.
    - ord_split. pose proof (Ord_le _ _ _ Ol). constructor; [left; reflexivity|].
      eapply Forall_impl; [|apply (IH _ Ho)]. intros x [->|Hx]; [left; reflexivity|right].
      eapply IE_weaken; [|apply pos_le_refl|exact Hx]. osolve.
  Qed.
End DeclEnc.

Lemma tord_Ord ts : tord ts -> ts <> [] -> Ord (fst_start ts) ts (lst_end ts).
Proof.
  induction ts as [|t r IH]; intros H Hne; [congruence|]. cbn [tord] in H. destruct H as (Hw & Hn & Hr).
  cbn [Ord fst_start]. split; [apply pos_le_refl|]. split; [exact Hw|]. destruct r as [|t' r'].
  - cbn [Ord lst_end]. apply pos_le_refl.
  - rewrite lst_end_cons by discriminate. eapply Ord_weaken; [exact Hn|apply pos_le_refl|apply IH; [exact Hr|discriminate]].
Qed.

(* for lexer-ordered tokens: every node of every declaration of a derivable file encloses its children *)
Theorem file_encloses fuel ts ns : Decls fuel ts ns -> tord ts -> Forall enc_tree ns.
Proof.
  intros H Ht. destruct ts as [|t r]; [inversion H; [constructor|]|].
  - match goal with Hd : Decl _ ?a _, E : ?a ++ _ = [] |- _ => pose proof (Decl_nonempty _ _ _ Hd); destruct a; [simpl in *; lia|discriminate] end.
  - pose proof (Decls_enc fuel _ _ _ _ H (tord_Ord _ Ht ltac:(discriminate))) as Hf.
    eapply Forall_impl; [|exact Hf]. intros n [->|[_ E]]; [|exact E]. apply enc_tree_unfold. constructor.
Qed.
