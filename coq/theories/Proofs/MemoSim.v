(* Memoisation is invisible: the simulation relation between a run with memoisation ON (from a
   context whose cache is sound for the method body being parsed) and ALL runs with memoisation
   OFF.  This file: definitions and one lemma per combinator of PComb.v / Grammar.v.

   [OffM h r wd]   every memo-off run of the computation [h] returns [r] and prepends exactly the
                   diagnostics [wd] (writer purity of the memo-off semantics);
   [StepM E i0 rho h c rc]
                   [rc] is the outcome of a memo-on computation started in [c]; the memo-off
                   computation [h] has the same result; result positions are suffixes of [i0]; the
                   context invariant of the environment [E] is kept; the diagnostics of the new
                   context are, as a SET, the old ones plus those the memo-off run emits; every
                   cache evaluation logged in between has a key below (length i0, rho);
   [Sim E n rho p q]
                   the same for parsers, on all inputs of the domain of [E] of length <= n.
   The two sides may be the grammar at two different fuel levels: the caches are shared by all
   levels, so a stored result must be related to the memo-off parser of every level. *)
From GoldV Require Import Base Tokens Lexer AstKinds Tree Strings PComb Grammar MemoObs ParserWF.
From Coq Require Import Lia.
Local Open Scope nat_scope.

(* ---------- suffixes ---------- *)

Definition Suffix (j i : input) : Prop := exists pre, i = pre ++ j.

Lemma Suffix_refl i : Suffix i i.
Proof. exists []. reflexivity. Qed.

Lemma Suffix_trans k j i : Suffix k j -> Suffix j i -> Suffix k i.
Proof. intros [p1 H1] [p2 H2]. exists (p2 ++ p1). subst. rewrite app_assoc. reflexivity. Qed.

Lemma Suffix_len j i : Suffix j i -> length j <= length i.
Proof. intros [p H]. subst. rewrite app_length. lia. Qed.

Lemma Suffix_cons t j i : Suffix j i -> Suffix j (t :: i).
Proof. intros [p H]. exists (t :: p). subst. reflexivity. Qed.

Lemma Suffix_tl i : Suffix (tl i) i.
Proof. destruct i as [|t i]; [apply Suffix_refl|]. exists [t]. reflexivity. Qed.

Lemma Suffix_nil i : Suffix [] i.
Proof. exists i. rewrite app_nil_r. reflexivity. Qed.

Lemma Suffix_skipn j i : Suffix j i -> j = skipn (length i - length j) i.
Proof.
  intros [p H]. subst. rewrite app_length. replace (length p + length j - length j) with (length p) by lia.
  induction p as [|t p IH]; simpl; [reflexivity|exact IH].
Qed.

(* suffixes of one list are determined by their length *)
Lemma Suffix_eq_len j j' i : Suffix j i -> Suffix j' i -> length j = length j' -> j = j'.
Proof.
  intros H1 H2 Hl. rewrite (Suffix_skipn _ _ H1), (Suffix_skipn _ _ H2), Hl. reflexivity.
Qed.

Lemma Suffix_skip_after_error i e : Suffix e i -> Suffix (skip_after_error i e) i.
Proof.
  intro H. unfold skip_after_error. destruct (ilen e =? ilen i)%N; [|exact H].
  eapply Suffix_trans; [apply Suffix_tl|exact H].
Qed.

Definition res_sfx {A} (i : input) (r : res A) : Prop :=
  match r with Ok rest _ => Suffix rest i | Err e _ => Suffix e i | _ => True end.

Lemma res_sfx_trans {A} j i (r : res A) : Suffix j i -> res_sfx j r -> res_sfx i r.
Proof. intros H. destruct r; simpl; auto; intro H1; eapply Suffix_trans; eauto. Qed.

(* ---------- memo-off runs ---------- *)

Definition M (B : Type) := ctx -> res B * ctx.

Definition OffM {B} (h : M B) (r : res B) (wd : list pdiag) : Prop :=
  forall c, cmemo c = false ->
    exists c1, h c = (r, c1) /\ cmemo c1 = false /\ cdiags c1 = wd ++ cdiags c.

(* diagnostics of [c1] = those of [c] plus [wd], as sets *)
Definition DEq (c c1 : ctx) (wd : list pdiag) : Prop :=
  forall d, In d (cdiags c1) <-> In d wd \/ In d (cdiags c).

Lemma DEq_refl c : DEq c c [].
Proof. intro d. simpl. tauto. Qed.

Lemma DEq_trans c c1 c2 w1 w2 : DEq c c1 w1 -> DEq c1 c2 w2 -> DEq c c2 (w2 ++ w1).
Proof. intros H1 H2 d. rewrite (H2 d), (H1 d), in_app_iff. tauto. Qed.

Lemma cdiags_add_diag d c : cdiags (add_diag d c) = d :: cdiags c.
Proof. reflexivity. Qed.
Lemma cmemo_add_diag d c : cmemo (add_diag d c) = cmemo c.
Proof. reflexivity. Qed.
Lemma cevals_add_diag d c : cevals (add_diag d c) = cevals c.
Proof. reflexivity. Qed.
Lemma ccache_add_diag d c : ccache (add_diag d c) = ccache c.
Proof. reflexivity. Qed.
Lemma cdiags_set_cache k n r c : cdiags (set_cache k n r c) = cdiags c.
Proof. reflexivity. Qed.
Lemma cmemo_set_cache k n r c : cmemo (set_cache k n r c) = cmemo c.
Proof. reflexivity. Qed.
Lemma cevals_set_cache k n r c : cevals (set_cache k n r c) = (k, n) :: cevals c.
Proof. reflexivity. Qed.

(* ---------- keys of cache evaluations ---------- *)

(* at one position the three memoised parsers nest: expression > primary > method call *)
Definition rank (k : N) : nat := match k with 0%N => 1 | 1%N => 2 | _ => 0 end.

Definition key_lt (rho : nat) (i : input) (kn : N * N) : Prop :=
  3 * N.to_nat (snd kn) + rank (fst kn) < 3 * length i + Nat.min rho 3.

Lemma key_lt_weaken rho rho' j i kn :
  Suffix j i -> (Nat.min rho' 3 <= Nat.min rho 3 \/ length j < length i) -> key_lt rho' j kn -> key_lt rho i kn.
Proof. intros Hs Hr. apply Suffix_len in Hs. unfold key_lt. lia. Qed.

(* ---------- environments ---------- *)

Record Env := mkEnv {
  Inv : ctx -> Prop;
  Dom : input -> Prop;
  EKeys : Prop;             (* whether the keys of logged evaluations are tracked (inside a method body) *)
  Inv_ok : forall c, Inv c -> CacheOK c;
  Inv_add_diag : forall d c, Inv c -> Inv (add_diag d c);
  Dom_sfx : forall i j, Dom i -> Suffix j i -> Dom j
}.

Definition StepM (E : Env) (i0 : input) (rho : nat) {B} (h : M B) (c : ctx) (rc : res B * ctx) : Prop :=
  exists wd new,
    OffM h (fst rc) wd /\ res_sfx i0 (fst rc) /\ Inv E (snd rc) /\ DEq c (snd rc) wd /\
    cevals (snd rc) = new ++ cevals c /\ (EKeys E -> Forall (key_lt rho i0) new).

Definition Sim (E : Env) (n rho : nat) {A} (p q : P A) : Prop :=
  forall i c, Dom E i -> length i <= n -> Inv E c -> StepM E i rho (q i) c (p i c).

Definition SRec (E : Env) (n : nat) {A} (p q : P A) : Prop := forall m, m < n -> Sim E m 3 p q.

Lemma Sim_mono E n m rho {A} (p q : P A) : m <= n -> Sim E n rho p q -> Sim E m rho p q.
Proof. intros Hm H i c Hd Hi Hc. apply H; auto. lia. Qed.

Lemma StepM_weaken E j i0 rho rho' {B} (h : M B) c rc :
  Suffix j i0 -> (Nat.min rho' 3 <= Nat.min rho 3 \/ length j < length i0) -> StepM E j rho' h c rc -> StepM E i0 rho h c rc.
Proof.
  intros Hs Hr (wd & new & O & S & I & D & Ev & K). exists wd, new.
  refine (conj O (conj _ (conj I (conj D (conj Ev _))))).
  - eapply res_sfx_trans; eauto.
  - intro HK. eapply Forall_impl; [|exact (K HK)]. intros kn. apply key_lt_weaken; auto.
Qed.

Lemma Sim_weaken E n rho rho' {A} (p q : P A) : Nat.min rho' 3 <= Nat.min rho 3 -> Sim E n rho' p q -> Sim E n rho p q.
Proof.
  intros Hr H i c Hd Hi Hc. eapply StepM_weaken; [apply Suffix_refl|left; exact Hr|]. apply H; auto.
Qed.

Lemma SRec_mono E n m {A} (p q : P A) : m <= n -> SRec E n p q -> SRec E m p q.
Proof. intros Hm H k Hk. apply H. lia. Qed.

(* ---------- the generic step: run a sub-computation, then continue by cases ---------- *)

Lemma StepM_ret E i0 rho {B} (r : res B) c : res_sfx i0 r -> Inv E c -> StepM E i0 rho (fun c' => (r, c')) c (r, c).
Proof.
  intros Hs Hi. exists [], []. cbn [fst snd].
  refine (conj _ (conj Hs (conj Hi (conj (DEq_refl c) (conj eq_refl (fun _ => Forall_nil _)))))).
  intros c' Hm. exists c'. auto.
Qed.

Lemma StepM_case E i0 rho {A B} (g h : M A)
      (kok lok : input -> A -> M B) (kerr lerr : input -> str -> M B) c :
  StepM E i0 rho h c (g c) ->
  (forall r a c1, g c = (Ok r a, c1) -> Suffix r i0 -> Inv E c1 -> StepM E i0 rho (lok r a) c1 (kok r a c1)) ->
  (forall e m c1, g c = (Err e m, c1) -> Suffix e i0 -> Inv E c1 -> StepM E i0 rho (lerr e m) c1 (kerr e m c1)) ->
  StepM E i0 rho
    (fun c' => match h c' with
               | (Ok r a, c1) => lok r a c1
               | (Err e m, c1) => lerr e m c1
               | (Panic s, c1) => (Panic s, c1)
               | (NoFuel, c1) => (NoFuel, c1)
               end) c
    (match g c with
     | (Ok r a, c1) => kok r a c1
     | (Err e m, c1) => kerr e m c1
     | (Panic s, c1) => (Panic s, c1)
     | (NoFuel, c1) => (NoFuel, c1)
     end).
Proof.
  intros (w1 & n1 & O1 & S1 & I1 & D1 & E1 & K1) Hok Herr.
  destruct (g c) as [[r a|e m|s|] c1]; cbn [fst snd] in *.
  - destruct (Hok r a c1 eq_refl S1 I1) as (w2 & n2 & O2 & S2 & I2 & D2 & E2 & K2).
    exists (w2 ++ w1), (n2 ++ n1). refine (conj _ (conj S2 (conj I2 (conj (DEq_trans _ _ _ _ _ D1 D2) (conj _ _))))).
    + intros c' Hm. destruct (O1 c' Hm) as (c1' & X1 & M1 & Y1). destruct (O2 c1' M1) as (c2' & X2 & M2 & Y2).
      exists c2'. rewrite X1. refine (conj X2 (conj M2 _)). rewrite Y2, Y1, app_assoc. reflexivity.
    + rewrite E2, E1, app_assoc. reflexivity.
    + intro HK. apply Forall_app. auto.
  - destruct (Herr e m c1 eq_refl S1 I1) as (w2 & n2 & O2 & S2 & I2 & D2 & E2 & K2).
    exists (w2 ++ w1), (n2 ++ n1). refine (conj _ (conj S2 (conj I2 (conj (DEq_trans _ _ _ _ _ D1 D2) (conj _ _))))).
    + intros c' Hm. destruct (O1 c' Hm) as (c1' & X1 & M1 & Y1). destruct (O2 c1' M1) as (c2' & X2 & M2 & Y2).
      exists c2'. rewrite X1. refine (conj X2 (conj M2 _)). rewrite Y2, Y1, app_assoc. reflexivity.
    + rewrite E2, E1, app_assoc. reflexivity.
    + intro HK. apply Forall_app. auto.
  - exists w1, n1. refine (conj _ (conj I (conj I1 (conj D1 (conj E1 K1))))).
    intros c' Hm. destruct (O1 c' Hm) as (c1' & X1 & M1 & Y1). exists c1'. rewrite X1. auto.
  - exists w1, n1. refine (conj _ (conj I (conj I1 (conj D1 (conj E1 K1))))).
    intros c' Hm. destruct (O1 c' Hm) as (c1' & X1 & M1 & Y1). exists c1'. rewrite X1. auto.
Qed.

(* continue in a context with one more diagnostic *)
Lemma StepM_add_diag E i0 rho {B} (h : M B) (f : ctx -> res B * ctx) d c :
  Inv E c -> StepM E i0 rho h (add_diag d c) (f (add_diag d c)) ->
  StepM E i0 rho (fun c' => h (add_diag d c')) c (f (add_diag d c)).
Proof.
  intros Hi (w & n & O & S & I & D & Ev & K). exists (w ++ [d]), n.
  refine (conj _ (conj S (conj I (conj _ (conj Ev K))))).
  - intros c' Hm. destruct (O (add_diag d c') Hm) as (c1 & X & M1 & Y). exists c1.
    refine (conj X (conj M1 _)). rewrite Y, cdiags_add_diag, <- app_assoc. reflexivity.
  - intro x. rewrite (D x), cdiags_add_diag, in_app_iff. simpl. tauto.
Qed.

(* extensionally equal memo-off computations *)
Lemma StepM_ext E i0 rho {B} (h h' : M B) c rc :
  (forall c', h c' = h' c') -> StepM E i0 rho h c rc -> StepM E i0 rho h' c rc.
Proof.
  intros He (w & n & O & R). exists w, n. split; [|exact R].
  intros c' Hm. rewrite <- He. apply O; auto.
Qed.

(* ---------- monad ---------- *)

Lemma Sim_ret E n rho {A} (a : A) : Sim E n rho (ret a) (ret a).
Proof. intros i c Hd Hi Hc. unfold ret. apply StepM_ret; [apply Suffix_refl|exact Hc]. Qed.

Lemma Sim_fail E n rho {A} m : Sim E n rho (@fail A m) (@fail A m).
Proof. intros i c Hd Hi Hc. unfold fail. apply StepM_ret; [apply Suffix_refl|exact Hc]. Qed.

Lemma Sim_panic E n rho {A} (s : N) : Sim E n rho (fun (i : input) c => (@Panic A s, c)) (fun i c => (Panic s, c)).
Proof. intros i c Hd Hi Hc. apply StepM_ret; [exact I|exact Hc]. Qed.

Lemma Sim_nofuel E n rho {A} : Sim E n rho (fun (i : input) c => (@NoFuel A, c)) (fun i c => (NoFuel, c)).
Proof. intros i c Hd Hi Hc. apply StepM_ret; [exact I|exact Hc]. Qed.

(* a parser that neither reads nor writes the context *)
Lemma Sim_ctxfree E n rho {A} (q : P A) (f : input -> res A) :
  (forall i c, q i c = (f i, c)) -> (forall i, res_sfx i (f i)) -> Sim E n rho q q.
Proof.
  intros Hq Hs i c Hd Hi Hc. rewrite Hq.
  eapply StepM_ext; [intro c'; symmetry; apply Hq|]. apply StepM_ret; auto.
Qed.

Lemma StepM_bind E i rho {A B} (p q : P A) (k l : A -> P B) c :
  StepM E i rho (q i) c (p i c) ->
  (forall r a c1, p i c = (Ok r a, c1) -> Suffix r i -> Inv E c1 -> StepM E i rho (l a r) c1 (k a r c1)) ->
  StepM E i rho (bind q l i) c (bind p k i c).
Proof.
  intros Hp Hk. unfold bind.
  apply (StepM_case E i rho (p i) (q i) (fun r a => k a r) (fun r a => l a r)
                    (fun e m c1 => (Err e m, c1)) (fun e m c1 => (Err e m, c1))); auto.
  intros e m c1 _ Hs Hi. apply StepM_ret; auto.
Qed.

Lemma Sim_bind E n rho {A B} (p q : P A) (k l : A -> P B) :
  Sim E n rho p q -> (forall a, Sim E n rho (k a) (l a)) -> Sim E n rho (bind p k) (bind q l).
Proof.
  intros Hp Hk i c Hd Hi Hc. apply StepM_bind; [apply Hp; auto|].
  intros r a c1 _ Hs Hc1. eapply StepM_weaken; [exact Hs|left; apply le_n|].
  apply Hk; auto. - eapply Dom_sfx; eauto. - apply Suffix_len in Hs. lia.
Qed.

(* after a strict step the continuation only needs a smaller bound, at any rank *)
Lemma Sim_bind_strict E n rho {A B} (p q : P A) (k l : A -> P B) :
  W n true p -> Sim E n rho p q -> (forall a m, m < n -> Sim E m 3 (k a) (l a)) ->
  Sim E n rho (bind p k) (bind q l).
Proof.
  intros Wp Hp Hk i c Hd Hi Hc. apply StepM_bind; [apply Hp; auto|].
  intros r a c1 Er Hs Hc1.
  destruct (Wp i c (Inv_ok E c Hc) Hi) as [W1 _]. rewrite Er in W1. cbn [fst res_ok] in W1.
  eapply StepM_weaken; [exact Hs|right; exact W1|].
  apply (Hk a (length r)); auto. - lia. - eapply Dom_sfx; eauto.
Qed.

(* the same with a postcondition on the value the first parser returns *)
Lemma Sim_bind_postN E n rho {A B} (p q : P A) (k l : A -> P B) (Post : A -> Prop) :
  Sim E n rho p q -> ReturnsN n p Post -> (forall a, Post a -> Sim E n rho (k a) (l a)) ->
  Sim E n rho (bind p k) (bind q l).
Proof.
  intros Hp HR Hk i c Hd Hi Hc. apply StepM_bind; [apply Hp; auto|].
  intros r a c1 Er Hs Hc1. eapply StepM_weaken; [exact Hs|left; apply le_n|].
  apply Hk; auto. - eapply HR; eauto. - eapply Dom_sfx; eauto. - apply Suffix_len in Hs. lia.
Qed.

Lemma Sim_prepend E n rho {A} pre (p q : P A) : Sim E n rho p q -> Sim E n rho (prepend pre p) (prepend pre q).
Proof.
  intros Hp i c Hd Hi Hc. destruct (Hp i c Hd Hi Hc) as (w & nw & O & S & I & D & Ev & K).
  unfold prepend. destruct (p i c) as [[r a|e m|s|] c1]; cbn [fst snd] in *; exists w, nw;
    (split; [intros c' Hm; destruct (O c' Hm) as (c1' & X & M1 & Y); exists c1'; rewrite X; auto | auto]).
Qed.

Lemma Sim_with_ctx_add_diag E n rho d : Sim E n rho (with_ctx (add_diag d)) (with_ctx (add_diag d)).
Proof.
  intros i c Hd Hi Hc. unfold with_ctx.
  apply (StepM_add_diag E i rho (fun c' => (Ok i tt, c')) (fun c' => (Ok i tt, c')) d c Hc).
  apply StepM_ret; [apply Suffix_refl|apply Inv_add_diag; exact Hc].
Qed.

Lemma Sim_recover_at_error E n rho {A} (p q : P A) :
  Sim E n rho p q -> Sim E n rho (recover_at_error p) (recover_at_error q).
Proof.
  intros Hp i c Hd Hi Hc. unfold recover_at_error.
  apply (StepM_case E i rho (p i) (q i) (fun r a c1 => (Ok r (Some a), c1)) (fun r a c1 => (Ok r (Some a), c1))
                    (fun e m c1 => (Ok e None, c1)) (fun e m c1 => (Ok e None, c1))).
  - apply Hp; auto.
  - intros. apply StepM_ret; auto.
  - intros. apply StepM_ret; auto.
Qed.

Lemma Sim_opt E n rho {A} (p q : P A) : Sim E n rho p q -> Sim E n rho (opt p) (opt q).
Proof.
  intros Hp i c Hd Hi Hc. unfold opt.
  apply (StepM_case E i rho (p i) (q i) (fun r a c1 => (Ok r (Some a), c1)) (fun r a c1 => (Ok r (Some a), c1))
                    (fun e m c1 => (Ok i None, c1)) (fun e m c1 => (Ok i None, c1))).
  - apply Hp; auto.
  - intros. apply StepM_ret; auto.
  - intros. apply StepM_ret; [apply Suffix_refl|auto].
Qed.

(* ---------- tokens ---------- *)

Lemma exp_token_go_sfx ty orig l :
  match exp_token_go ty orig l with
  | Ok r _ => Suffix r l | Err e _ => e = orig | Panic _ => False | NoFuel => False end.
Proof.
  induction l as [|t l IH]; simpl; [reflexivity|].
  destruct (tt_eqb (tty t) ty); [exists [t]; reflexivity|].
  destruct (is_comment t); [|reflexivity].
  destruct (exp_token_go ty orig l); simpl in *; auto. apply Suffix_cons. exact IH.
Qed.

Lemma exp_token_sfx ty i : res_sfx i (exp_token_go ty i i).
Proof.
  pose proof (exp_token_go_sfx ty i i) as H. destruct (exp_token_go ty i i); simpl in *; auto.
  subst. apply Suffix_refl.
Qed.

Lemma Sim_exp_token E n rho ty : Sim E n rho (exp_token ty) (exp_token ty).
Proof. apply (Sim_ctxfree E n rho _ (fun i => exp_token_go ty i i)); [reflexivity|apply exp_token_sfx]. Qed.

Lemma exp_ident_val_go_sfx v orig l :
  match exp_ident_val_go v orig l with
  | Ok r _ => Suffix r l | Err e _ => e = orig | Panic _ => False | NoFuel => False end.
Proof.
  induction l as [|t l IH]; simpl; [reflexivity|].
  destruct (tt_eqb (tty t) TIdentifier && str_eqb (upper (tval t)) (upper v)); [exists [t]; reflexivity|].
  destruct (is_comment t); [|reflexivity].
  destruct (exp_ident_val_go v orig l); simpl in *; auto. apply Suffix_cons. exact IH.
Qed.

Lemma Sim_exp_ident_with_value E n rho v : Sim E n rho (exp_ident_with_value v) (exp_ident_with_value v).
Proof.
  apply (Sim_ctxfree E n rho _ (fun i => exp_ident_val_go v i i)); [reflexivity|].
  intro i. pose proof (exp_ident_val_go_sfx v i i) as H. destruct (exp_ident_val_go v i i); simpl in *; auto.
  subst. apply Suffix_refl.
Qed.

Lemma take_until_go_sfx tys l acc : Suffix (fst (fst (take_until_go tys l acc))) l.
Proof.
  revert acc; induction l as [|t l IH]; intro acc; simpl; [apply Suffix_refl|].
  destruct (existsb (tt_eqb (tty t)) tys); simpl; [exists [t]; reflexivity|]. apply Suffix_cons. apply IH.
Qed.

Lemma Sim_take_until E n rho tys : Sim E n rho (take_until tys) (take_until tys).
Proof.
  apply (Sim_ctxfree E n rho _ (fun i => let '(rest, body, term) := take_until_go tys i [] in Ok rest (body, term))).
  - intros i c. unfold take_until. destruct (take_until_go tys i []) as [[rest body] term]. reflexivity.
  - intro i. pose proof (take_until_go_sfx tys i []) as H.
    destruct (take_until_go tys i []) as [[rest body] term]. exact H.
Qed.

(* ---------- alternatives ---------- *)

Definition best_sfx (i : input) (best : option (input * str)) : Prop :=
  match best with Some (e, _) => Suffix e i | None => True end.

Lemma Sim_alt_go E n rho {A} (ps qs : list (P A)) : Forall2 (Sim E n rho) ps qs ->
  forall best i c, Dom E i -> length i <= n -> Inv E c -> best_sfx i best ->
    StepM E i rho (alt_go qs best i) c (alt_go ps best i c).
Proof.
  induction 1 as [|p q ps qs Hp Hps IH]; intros best i c Hd Hi Hc Hb; cbn [alt_go].
  - destruct best as [[e m]|]; apply StepM_ret; auto; exact I.
  - apply (StepM_case E i rho (p i) (q i) (fun r a c1 => (Ok r a, c1)) (fun r a c1 => (Ok r a, c1))
             (fun e m c1 => alt_go ps (match best with
                                       | Some (be, bm) => if (ilen e <? ilen be)%N then Some (e, m) else Some (be, bm)
                                       | None => Some (e, m) end) i c1)
             (fun e m c1 => alt_go qs (match best with
                                       | Some (be, bm) => if (ilen e <? ilen be)%N then Some (e, m) else Some (be, bm)
                                       | None => Some (e, m) end) i c1)).
    + apply Hp; auto.
    + intros. apply StepM_ret; auto.
    + intros e m c1 _ Hs Hc1. apply IH; auto.
      destruct best as [[be bm]|]; [destruct (ilen e <? ilen be)%N|]; simpl; auto.
Qed.

Lemma Sim_alt E n rho {A} (ps qs : list (P A)) : Forall2 (Sim E n rho) ps qs -> Sim E n rho (alt ps) (alt qs).
Proof. intros H i c Hd Hi Hc. unfold alt. apply (Sim_alt_go E n rho ps qs H None); auto. exact I. Qed.

Lemma Forall2_same {A} (R : A -> A -> Prop) l : Forall (fun x => R x x) l -> Forall2 R l l.
Proof. induction 1; constructor; auto. Qed.

Lemma Sim_tok_alt E n rho tys : Sim E n rho (tok_alt tys) (tok_alt tys).
Proof.
  unfold tok_alt. apply Sim_alt. apply Forall2_same. apply Forall_forall. intros p Hp.
  apply in_map_iff in Hp as (ty & <- & _). apply Sim_exp_token.
Qed.

(* ---------- sequences of tokens ---------- *)

Lemma Sim_seq_tokens E n rho tys : Sim E n rho (seq_tokens tys) (seq_tokens tys).
Proof.
  induction tys as [|ty tys IH]; cbn [seq_tokens]; [apply Sim_ret|].
  apply Sim_bind; [apply Sim_exp_token|]. intro t. apply Sim_bind; [exact IH|]. intro ts. apply Sim_ret.
Qed.

Lemma Sim_sep_tokens_go E n rho item sep fuel : forall acc,
  Sim E n rho (sep_tokens_go fuel item sep acc) (sep_tokens_go fuel item sep acc).
Proof.
  induction fuel as [|f IH]; intros acc i c Hd Hi Hc; cbn [sep_tokens_go]; [apply StepM_ret; [exact I|exact Hc]|].
  apply (StepM_case E i rho (exp_token item i) (exp_token item i)
           (fun r t c1 => match exp_token sep r c1 with
                          | (Ok r2 _, c2) => sep_tokens_go f item sep (t :: acc) r2 c2
                          | (Err e _, c2) => (Ok e (rev (t :: acc)), c2)
                          | (Panic s, c2) => (Panic s, c2)
                          | (NoFuel, c2) => (NoFuel, c2) end)
           (fun r t c1 => match exp_token sep r c1 with
                          | (Ok r2 _, c2) => sep_tokens_go f item sep (t :: acc) r2 c2
                          | (Err e _, c2) => (Ok e (rev (t :: acc)), c2)
                          | (Panic s, c2) => (Panic s, c2)
                          | (NoFuel, c2) => (NoFuel, c2) end)
           (fun e m c1 => (Err e m, c1)) (fun e m c1 => (Err e m, c1))).
  - apply (Sim_exp_token E n); auto.
  - intros r t c1 _ Hs Hc1.
    apply (StepM_case E i rho (exp_token sep r) (exp_token sep r)
             (fun r2 _ c2 => sep_tokens_go f item sep (t :: acc) r2 c2)
             (fun r2 _ c2 => sep_tokens_go f item sep (t :: acc) r2 c2)
             (fun e _ c2 => (Ok e (rev (t :: acc)), c2)) (fun e _ c2 => (Ok e (rev (t :: acc)), c2))).
    + eapply StepM_weaken; [exact Hs|left; apply le_n|]. apply (Sim_exp_token E n); auto.
      * eapply Dom_sfx; eauto. * apply Suffix_len in Hs. lia.
    + intros r2 t2 c2 _ Hs2 Hc2. eapply StepM_weaken; [exact Hs2|left; apply le_n|]. apply IH; auto.
      * eapply Dom_sfx; eauto. * apply Suffix_len in Hs2. lia.
    + intros. apply StepM_ret; auto.
  - intros. apply StepM_ret; auto.
Qed.

Lemma Sim_sep_tokens E n rho item sep : Sim E n rho (sep_tokens item sep) (sep_tokens item sep).
Proof. intros i c Hd Hi Hc. unfold sep_tokens. apply (Sim_sep_tokens_go E n rho); auto. Qed.

(* ---------- loops ---------- *)

Ltac sfx_side :=
  match goal with
  | |- Dom _ _ => eapply Dom_sfx; eassumption
  | H : Suffix ?r ?i |- length ?r <= _ => apply Suffix_len in H; lia
  | |- _ \/ _ => left; apply le_n
  end.

Lemma Sim_repeat_go E n rho {A} (p q : P A) : Sim E n rho p q -> forall fuel acc,
  Sim E n rho (repeat_go fuel p acc) (repeat_go fuel q acc).
Proof.
  intros Hp. induction fuel as [|f IH]; intros acc i c Hd Hi Hc; cbn [repeat_go]; [apply StepM_ret; [exact I|exact Hc]|].
  destruct i as [|t i']; [apply StepM_ret; [apply Suffix_refl|exact Hc]|].
  eapply StepM_case.
  - apply Hp; auto.
  - intros r a c1 _ Hs Hc1. eapply StepM_weaken; [exact Hs|left; apply le_n|]. apply IH; try sfx_side; auto.
  - intros e m c1 _ Hs Hc1. apply Suffix_skip_after_error in Hs.
    apply (StepM_add_diag E _ rho (repeat_go f q acc (skip_after_error (t :: i') e))
             (repeat_go f p acc (skip_after_error (t :: i') e)) (diag_at (t :: i') e m) c1 Hc1).
    eapply StepM_weaken; [exact Hs|left; apply le_n|]. apply IH; try sfx_side; auto. apply Inv_add_diag; auto.
Qed.

Lemma Sim_repeat E n rho {A} (p q : P A) : Sim E n rho p q -> Sim E n rho (repeat_w_ctx p) (repeat_w_ctx q).
Proof. intros Hp i c Hd Hi Hc. unfold repeat_w_ctx. apply (Sim_repeat_go E n rho p q Hp); auto. Qed.

(* peel [add_diag d c] off both sides *)
Ltac add_diag_tac Hc :=
  match goal with
  | |- StepM ?E ?i0 ?rho ?h ?c ?rc =>
      match rc with context [add_diag ?d c] =>
        let hc := eval cbv beta in (h c) in
        let pf := eval pattern (add_diag d c) in rc in
        let ph := eval pattern (add_diag d c) in hc in
        match pf with ?F _ => match ph with ?H _ =>
          apply (StepM_add_diag E i0 rho H F d c Hc) end end
      end
  end.

Ltac step_rec IH Hs := eapply StepM_weaken; [exact Hs|left; apply le_n|]; apply IH; try sfx_side; auto.

Lemma Sim_sep_list_rec E n rho {A} (p q : P A) sep : Sim E n rho p q -> forall fuel prev acc,
  Sim E n rho (sep_list_rec fuel p sep prev acc) (sep_list_rec fuel q sep prev acc).
Proof.
  intros Hp. induction fuel as [|f IH]; intros prev acc i c Hd Hi Hc; cbn [sep_list_rec]; [apply StepM_ret; [exact I|exact Hc]|].
  (* normalise the two-stage shape: first the item (with recovery), then the separator *)
  assert (forall (p0 : P A) c0,
    match
      match p0 i c0 with
      | (Ok r a, c1) => (Ok r (a :: acc), c1)
      | (Err e m, c1) =>
          (Ok e acc, add_diag (mkDiag (new_range (range_or i (trange prev)) (range_or e (range_or i (trange prev)))) m) c1)
      | (Panic s, c1) => (Panic s, c1)
      | (NoFuel, c1) => (NoFuel, c1)
      end
    with
    | (Ok r acc', c1) =>
        match exp_token sep r c1 with
        | (Ok r2 st, c2) => sep_list_rec f p0 sep st acc' r2 c2
        | (Err e _, c2) => (Ok e (rev acc'), c2)
        | (Panic s, c2) => (Panic s, c2)
        | (NoFuel, c2) => (NoFuel, c2)
        end
    | (Err e m, c1) => (Err e m, c1)
    | (Panic s, c1) => (Panic s, c1)
    | (NoFuel, c1) => (NoFuel, c1)
    end =
    match p0 i c0 with
    | (Ok r a, c1) =>
        match exp_token sep r c1 with
        | (Ok r2 st, c2) => sep_list_rec f p0 sep st (a :: acc) r2 c2
        | (Err e _, c2) => (Ok e (rev (a :: acc)), c2)
        | (Panic s, c2) => (Panic s, c2)
        | (NoFuel, c2) => (NoFuel, c2)
        end
    | (Err e m, c1) =>
        (fun c1' => match exp_token sep e c1' with
        | (Ok r2 st, c2) => sep_list_rec f p0 sep st acc r2 c2
        | (Err e2 _, c2) => (Ok e2 (rev acc), c2)
        | (Panic s, c2) => (Panic s, c2)
        | (NoFuel, c2) => (NoFuel, c2)
        end) (add_diag (mkDiag (new_range (range_or i (trange prev)) (range_or e (range_or i (trange prev)))) m) c1)
    | (Panic s, c1) => (Panic s, c1)
    | (NoFuel, c1) => (NoFuel, c1)
    end) as Hx by (intros p0 c0; destruct (p0 i c0) as [[?|?|?|] ?]; reflexivity).
  rewrite (Hx p c). eapply StepM_ext; [intro c'; symmetry; apply (Hx q c')|]. clear Hx.
  eapply StepM_case.
  - apply Hp; auto.
  - intros r a c1 _ Hs Hc1. eapply StepM_case.
    + eapply StepM_weaken; [exact Hs|left; apply le_n|]. apply (Sim_exp_token E n); try sfx_side; auto.
    + intros r2 t2 c2 _ Hs2 Hc2. step_rec IH Hs2.
    + intros. apply StepM_ret; auto.
  - intros e m c1 _ Hs Hc1. add_diag_tac Hc1. eapply StepM_case.
    + eapply StepM_weaken; [exact Hs|left; apply le_n|]. apply (Sim_exp_token E n); try sfx_side; auto.
      apply Inv_add_diag; auto.
    + intros r2 t2 c2 _ Hs2 Hc2. step_rec IH Hs2.
    + intros. apply StepM_ret; auto.
Qed.

Lemma Sim_sep_list E n rho {A} (p q : P A) sep : Sim E n rho p q -> Sim E n rho (sep_list p sep) (sep_list q sep).
Proof.
  intros Hp i c Hd Hi Hc. unfold sep_list. eapply StepM_case.
  - apply Hp; auto.
  - intros r a c1 _ Hs Hc1. eapply StepM_case.
    + eapply StepM_weaken; [exact Hs|left; apply le_n|]. apply (Sim_exp_token E n); try sfx_side; auto.
    + intros r2 t2 c2 _ Hs2 Hc2. eapply StepM_weaken; [exact Hs2|left; apply le_n|].
      apply (Sim_sep_list_rec E n rho p q sep Hp); try sfx_side; auto.
    + intros. apply StepM_ret; auto.
  - intros. apply StepM_ret; auto.
Qed.

Lemma Sim_until_go E n rho {A} (stop stop' : P tok) (p q : P A) :
  Sim E n rho stop stop' -> Sim E n rho p q -> forall fuel acc,
  Sim E n rho (until_go fuel stop p acc) (until_go fuel stop' q acc).
Proof.
  intros Hst Hp. induction fuel as [|f IH]; intros acc i c Hd Hi Hc; cbn [until_go]; [apply StepM_ret; [exact I|exact Hc]|].
  destruct i as [|t i']; [apply StepM_ret; [apply Suffix_refl|exact Hc]|].
  eapply StepM_case.
  - apply Hst; auto.
  - intros. apply StepM_ret; auto.
  - intros _ _ c0 _ _ Hc0. eapply StepM_case.
    + apply Hp; auto.
    + intros r a c1 _ Hs Hc1. step_rec IH Hs.
    + intros e m c1 _ Hs Hc1. apply Suffix_skip_after_error in Hs.
      add_diag_tac Hc1. step_rec IH Hs. apply Inv_add_diag; auto.
Qed.

Lemma Sim_until E n rho {A} (stop stop' : P tok) (p q : P A) :
  Sim E n rho stop stop' -> Sim E n rho p q -> Sim E n rho (until_w_ctx stop p) (until_w_ctx stop' q).
Proof. intros Hs Hp i c Hd Hi Hc. unfold until_w_ctx. apply (Sim_until_go E n rho _ _ _ _ Hs Hp); auto. Qed.

Lemma Sim_until_strict_go E n rho {A} (stop stop' : P tok) (p q : P A) :
  Sim E n rho stop stop' -> Sim E n rho p q -> forall fuel acc,
  Sim E n rho (until_strict_go fuel stop p acc) (until_strict_go fuel stop' q acc).
Proof.
  intros Hst Hp. induction fuel as [|f IH]; intros acc i c Hd Hi Hc; cbn [until_strict_go]; [apply StepM_ret; [exact I|exact Hc]|].
  destruct i as [|t i']; [apply StepM_ret; [apply Suffix_refl|exact Hc]|].
  eapply StepM_case.
  - apply Hst; auto.
  - intros. apply StepM_ret; auto.
  - intros _ _ c0 _ _ Hc0. eapply StepM_case.
    + apply Hp; auto.
    + intros r a c1 _ Hs Hc1. step_rec IH Hs.
    + intros. apply StepM_ret; auto.
Qed.

Lemma Sim_until_strict E n rho {A} (stop stop' : P tok) (p q : P A) :
  Sim E n rho stop stop' -> Sim E n rho p q -> Sim E n rho (until_strict stop p) (until_strict stop' q).
Proof. intros Hs Hp i c Hd Hi Hc. unfold until_strict. apply (Sim_until_strict_go E n rho _ _ _ _ Hs Hp); auto. Qed.

Lemma Sim_until_no_match_go E n rho {A} (p q : P A) : Sim E n rho p q -> forall fuel acc,
  Sim E n rho (until_no_match_go fuel p acc) (until_no_match_go fuel q acc).
Proof.
  intros Hp. induction fuel as [|f IH]; intros acc i c Hd Hi Hc; cbn [until_no_match_go]; [apply StepM_ret; [exact I|exact Hc]|].
  destruct i as [|t i']; [apply StepM_ret; [apply Suffix_refl|exact Hc]|].
  eapply StepM_case.
  - apply Hp; auto.
  - intros r a c1 _ Hs Hc1. step_rec IH Hs.
  - intros. apply StepM_ret; [apply Suffix_refl|auto].
Qed.

Lemma Sim_until_no_match E n rho {A} (p q : P A) : Sim E n rho p q -> Sim E n rho (until_no_match p) (until_no_match q).
Proof. intros Hp i c Hd Hi Hc. unfold until_no_match. apply (Sim_until_no_match_go E n rho _ _ Hp); auto. Qed.

(* ---------- binary operator chains ---------- *)

Lemma Sim_binops_go E n rho (opp opp' : P tok) (ep ep' : P node) :
  Sim E n rho opp opp' -> Sim E n rho ep ep' -> forall fuel left,
  Sim E n rho (binops_go fuel opp ep left) (binops_go fuel opp' ep' left).
Proof.
  intros Ho He. induction fuel as [|f IH]; intros left i c Hd Hi Hc; cbn [binops_go]; [apply StepM_ret; [exact I|exact Hc]|].
  eapply StepM_case.
  - apply Ho; auto.
  - intros r op c1 _ Hs Hc1. eapply StepM_case.
    + eapply StepM_weaken; [exact Hs|left; apply le_n|]. apply He; try sfx_side; auto.
    + intros r2 rn c2 _ Hs2 Hc2. step_rec IH Hs2.
    + intros e _ c2 _ Hs2 Hc2. destruct (tt_eqb (tty op) TDot).
      * step_rec IH Hs.
      * apply StepM_ret; [apply Suffix_refl|auto].
  - intros. apply StepM_ret; [apply Suffix_refl|auto].
Qed.

Lemma Sim_binops E n rho (opp opp' : P tok) (ep ep' : P node) :
  Sim E n rho opp opp' -> Sim E n rho ep ep' -> Sim E n rho (binops opp ep) (binops opp' ep').
Proof.
  intros Ho He i c Hd Hi Hc. unfold binops. eapply StepM_case.
  - apply He; auto.
  - intros r ln c1 _ Hs Hc1. eapply StepM_weaken; [exact Hs|left; apply le_n|].
    apply (Sim_binops_go E n rho _ _ _ _ Ho He); try sfx_side; auto.
  - intros. apply StepM_ret; auto.
Qed.

(* ---------- the cache invariant relative to the method body being parsed ---------- *)

(* the un-memoised bodies of the three memoised parsers, at fuel level g (for inputs of length <= g) *)
Lemma parse_method_call_eq re : parse_method_call re = memo CACHE_METHOD_CALL (method_call_body re).
Proof. reflexivity. Qed.

Definition primary_alts (re rp : P node) : P node :=
  alt [parse_bracket_closure re; parse_unary_op re rp; parse_dot_ops re; parse_literals rp].

Lemma parse_primary_body_eq re rp : parse_primary_body re rp = memo CACHE_PRIMARY (primary_alts re rp).
Proof. reflexivity. Qed.

Definition expr_alts (prim : P node) : P node := alt [parse_logical_or prim].

Lemma parse_expr_body_eq prim : parse_expr_body prim = memo CACHE_EXPR (expr_alts prim).
Proof. reflexivity. Qed.

Definition ubody (k : N) (g : nat) : P node :=
  match k with
  | 0%N => primary_alts (g_expr (gram g)) (g_primary (gram g))
  | 1%N => expr_alts (g_primary (gram (S g)))
  | _ => method_call_body (g_expr (gram g))
  end.

(* every stored result is the result of the memo-off parser of that cache, at every sufficient fuel
   level, on THE suffix of the body of that length; the diagnostics that evaluation emits are
   already recorded *)
Definition Sound (body : input) (c : ctx) : Prop :=
  forall k n r, cache_find k n (ccache c) = Some r ->
    exists i, Suffix i body /\ ilen i = n /\ res_sfx i r /\
      forall g, length i <= g -> exists wd, incl wd (cdiags c) /\ OffM (ubody k g i) r wd.

(* the evaluations logged since the cache was cleared are exactly the keys present, without repetition *)
Definition OnceInv (body : input) (base : list (N * N)) (c : ctx) : Prop :=
  exists new, cevals c = new ++ base /\ NoDup new /\
    (forall k n, In (k, n) new <-> cache_find k n (ccache c) <> None) /\
    (forall k n, In (k, n) new -> (k < 3)%N /\ N.to_nat n <= length body).

Definition Good (body : input) (base : list (N * N)) (c : ctx) : Prop :=
  cmemo c = true /\ CacheOK c /\ Sound body c /\ OnceInv body base c.

Lemma Good_ok body base c : Good body base c -> CacheOK c.
Proof. intros (_ & H & _). exact H. Qed.

Lemma Good_add_diag body base d c : Good body base c -> Good body base (add_diag d c).
Proof.
  intros (Hm & Hok & Hs & Ho). refine (conj Hm (conj (CacheOK_add_diag d c Hok) (conj _ Ho))).
  intros k n r Hf. destruct (Hs k n r Hf) as (i & S1 & L1 & R1 & Hall). exists i. refine (conj S1 (conj L1 (conj R1 _))).
  intros g Hg. destruct (Hall g Hg) as (wd & Hin & O). exists wd. split; [|exact O].
  intros x Hx. rewrite cdiags_add_diag. right. apply Hin. exact Hx.
Qed.

Definition BodyEnv (body : input) (base : list (N * N)) : Env :=
  mkEnv (Good body base) (fun i => Suffix i body) True (Good_ok body base) (Good_add_diag body base)
        (fun i j Hi Hj => Suffix_trans j i body Hj Hi).

Lemma Good_clear body c : cmemo c = true -> Good body (cevals c) (clear_cache c).
Proof.
  intro Hm. refine (conj Hm (conj (CacheOK_clear c) (conj _ _))).
  - intros k n r Hf. discriminate.
  - exists []. refine (conj eq_refl (conj (NoDup_nil _) (conj _ _))).
    + intros k n. simpl. split; [tauto|intro H; apply H; reflexivity].
    + intros k n [].
Qed.

Lemma rank_le2 k : rank k <= 2.
Proof. destruct k as [|[p|p|]]; simpl; lia. Qed.

Lemma OffM_memo k (q : P node) i r wd : OffM (q i) r wd -> OffM (memo k q i) r wd.
Proof.
  intros O c Hm. destruct (O c Hm) as (c1 & X & M1 & Y). unfold memo, get_cache. rewrite Hm, X.
  destruct r; eexists; (split; [reflexivity|]); rewrite ?cmemo_set_cache, ?cdiags_set_cache; auto.
Qed.

Lemma OffM_memo_ok_only k (q : P node) i r wd : OffM (q i) r wd -> OffM (memo_ok_only k q i) r wd.
Proof.
  intros O c Hm. destruct (O c Hm) as (c1 & X & M1 & Y). unfold memo_ok_only, get_cache. rewrite Hm, X.
  destruct r; eexists; (split; [reflexivity|]); rewrite ?cmemo_set_cache, ?cdiags_set_cache; auto.
Qed.

Lemma cache_find_set k n r c k' n' : cmemo c = true ->
  cache_find k' n' (ccache (set_cache k n r c)) =
  if ((k' =? k) && (n' =? n))%N then Some r else cache_find k' n' (ccache c).
Proof. intro Hm. unfold set_cache. cbn [ccache]. rewrite Hm. reflexivity. Qed.

(* storing the result of an evaluation that started on a miss keeps the invariant *)
Lemma Good_set body base k i r c c1 nw :
  (k < 3)%N -> Suffix i body ->
  cache_find k (ilen i) (ccache c) = None -> OnceInv body base c ->
  Good body base c1 -> cevals c1 = nw ++ cevals c -> Forall (key_lt (rank k) i) nw ->
  res_ok true (length i) r -> res_sfx i r ->
  (forall g, length i <= g -> exists wd, incl wd (cdiags c1) /\ OffM (ubody k g i) r wd) ->
  Good body base (set_cache k (ilen i) r c1).
Proof.
  intros Hk Hd G (new_c & Ec & Ndc & Hkc & _) (Hm1 & Hok1 & Hs1 & (new1 & E1 & Nd1 & Hk1 & Hb1)) Ev K W1 S Hall.
  refine (conj Hm1 (conj _ (conj _ _))).
  - apply CacheOK_set; [exact Hok1|]. rewrite ilen_nat. exact W1.
  - intros k' n' r' Hf. rewrite (cache_find_set _ _ _ _ _ _ Hm1) in Hf.
    destruct ((k' =? k) && (n' =? ilen i))%N eqn:Eq.
    + inversion Hf; subst r'. apply andb_true_iff in Eq as [Ek En]. apply N.eqb_eq in Ek, En. subst k' n'.
      exists i. refine (conj Hd (conj eq_refl (conj S _))). intros g Hg. rewrite cdiags_set_cache. apply Hall; auto.
    + destruct (Hs1 k' n' r' Hf) as (i' & S1 & L1 & R1 & Hall'). exists i'. refine (conj S1 (conj L1 (conj R1 _))).
      intros g Hg. rewrite cdiags_set_cache. apply Hall'; auto.
  - assert (new1 = nw ++ new_c) as ->.
    { rewrite Ec, app_assoc in Ev. rewrite Ev in E1. apply app_inv_tail in E1. auto. }
    exists ((k, ilen i) :: nw ++ new_c). rewrite cevals_set_cache, E1. refine (conj eq_refl (conj _ (conj _ _))).
    + constructor; [|exact Nd1]. intro Hin. apply in_app_or in Hin as [Hin|Hin].
      * rewrite Forall_forall in K. specialize (K _ Hin). unfold key_lt in K. cbn [fst snd] in K.
        rewrite ilen_nat in K. pose proof (rank_le2 k). lia.
      * apply Hkc in Hin. congruence.
    + intros k' n'. rewrite (cache_find_set _ _ _ _ _ _ Hm1). cbn [In].
      destruct ((k' =? k) && (n' =? ilen i))%N eqn:Eq.
      * apply andb_true_iff in Eq as [Ek En]. apply N.eqb_eq in Ek, En. subst k' n'. split; [discriminate|auto].
      * rewrite <- Hk1. split; [|auto]. intros [Heq|Hin]; [|exact Hin]. inversion Heq; subst.
        rewrite !N.eqb_refl in Eq. discriminate.
    + intros k' n' [Heq|Hin]; [|apply Hb1; exact Hin]. inversion Heq; subst. split; [exact Hk|].
      rewrite ilen_nat. apply Suffix_len. exact Hd.
Qed.

Lemma Sim_memo body base n rho k (p : P node) g0 :
  (k < 3)%N -> rank k < rho -> W n true p ->
  (forall m g, m <= n -> m <= g -> Sim (BodyEnv body base) m (rank k) p (ubody k g)) -> n <= g0 ->
  Sim (BodyEnv body base) n rho (memo k p) (memo k (ubody k g0)).
Proof.
  intros Hk Hr Wp HS Hg i c Hd Hi Hc. pose proof Hc as (Hm & Hok & Hsnd & Hon).
  change (memo k p i c) with
    (match get_cache k (ilen i) c with
     | Some r => (r, c)
     | None => let '(r, c1) := p i c in
               match r with Panic _ | NoFuel => (r, c1) | _ => (r, set_cache k (ilen i) r c1) end
     end).
  destruct (get_cache k (ilen i) c) as [r|] eqn:G; unfold get_cache in G; rewrite Hm in G.
  - destruct (Hsnd k (ilen i) r G) as (i' & Hs' & Hl' & Hsf & Hall).
    assert (i' = i) as ->.
    { apply (Suffix_eq_len _ _ body Hs' Hd). unfold ilen in Hl'. apply Nnat.Nat2N.inj in Hl'. exact Hl'. }
    destruct (Hall g0 ltac:(lia)) as (wd & Hincl & Ho).
    exists wd, []. cbn [fst snd].
    refine (conj (OffM_memo _ _ _ _ _ Ho) (conj Hsf (conj Hc (conj _ (conj eq_refl (fun _ => Forall_nil _)))))).
    intro d. split; [auto|]. intros [H|H]; auto.
  - assert (forall g, length i <= g -> exists wd, incl wd (cdiags (snd (p i c))) /\ OffM (ubody k g i) (fst (p i c)) wd) as Hall.
    { intros g Hgg. destruct (HS (length i) g Hi Hgg i c Hd (le_n _) Hc) as (wd & nw & O & _ & _ & D & _).
      exists wd. split; [intros d Hin; apply D; auto|exact O]. }
    destruct (HS (length i) g0 Hi ltac:(lia) i c Hd (le_n _) Hc) as (wd & nw & O & S & I1 & D & Ev & K0'). pose proof (K0' I) as K.
    destruct (Wp i c Hok Hi) as [W1 _].
    destruct (p i c) as [r c1]. cbn [fst snd] in *.
    assert (Forall (key_lt rho i) ((k, ilen i) :: nw)) as K'.
    { constructor.
      - unfold key_lt. cbn [fst snd]. rewrite ilen_nat. pose proof (rank_le2 k). lia.
      - eapply Forall_impl; [|exact K]. intro kn. apply key_lt_weaken; [apply Suffix_refl|left; lia]. }
    destruct r as [rest a|e m|s|]; cbn [res_ok] in W1; try contradiction;
      (exists wd, ((k, ilen i) :: nw); cbn [fst snd];
       refine (conj (OffM_memo _ _ _ _ _ O) (conj S (conj _ (conj _ (conj _ (fun _ => K'))))));
       [ eapply (Good_set body base k i _ c c1 nw); eauto
       | intro d; rewrite cdiags_set_cache; apply D
       | rewrite cevals_set_cache, Ev; reflexivity ]).
Qed.

Lemma Sim_memo_ok_only body base n rho k (p : P node) g0 :
  (k < 3)%N -> rank k < rho -> W n true p ->
  (forall m g, m <= n -> m <= g -> Sim (BodyEnv body base) m (rank k) p (ubody k g)) -> n <= g0 ->
  Sim (BodyEnv body base) n rho (memo_ok_only k p) (memo_ok_only k (ubody k g0)).
Proof.
  intros Hk Hr Wp HS Hg i c Hd Hi Hc. pose proof Hc as (Hm & Hok & Hsnd & Hon).
  change (memo_ok_only k p i c) with
    (match get_cache k (ilen i) c with
     | Some r => (r, c)
     | None => let '(r, c1) := p i c in
               match r with Ok _ _ => (r, set_cache k (ilen i) r c1) | _ => (r, c1) end
     end).
  destruct (get_cache k (ilen i) c) as [r|] eqn:G; unfold get_cache in G; rewrite Hm in G.
  - destruct (Hsnd k (ilen i) r G) as (i' & Hs' & Hl' & Hsf & Hall).
    assert (i' = i) as ->.
    { apply (Suffix_eq_len _ _ body Hs' Hd). unfold ilen in Hl'. apply Nnat.Nat2N.inj in Hl'. exact Hl'. }
    destruct (Hall g0 ltac:(lia)) as (wd & Hincl & Ho).
    exists wd, []. cbn [fst snd].
    refine (conj (OffM_memo_ok_only _ _ _ _ _ Ho) (conj Hsf (conj Hc (conj _ (conj eq_refl (fun _ => Forall_nil _)))))).
    intro d. split; [auto|]. intros [H|H]; auto.
  - assert (forall g, length i <= g -> exists wd, incl wd (cdiags (snd (p i c))) /\ OffM (ubody k g i) (fst (p i c)) wd) as Hall.
    { intros g Hgg. destruct (HS (length i) g Hi Hgg i c Hd (le_n _) Hc) as (wd & nw & O & _ & _ & D & _).
      exists wd. split; [intros d Hin; apply D; auto|exact O]. }
    destruct (HS (length i) g0 Hi ltac:(lia) i c Hd (le_n _) Hc) as (wd & nw & O & S & I1 & D & Ev & K0'). pose proof (K0' I) as K.
    destruct (Wp i c Hok Hi) as [W1 _].
    destruct (p i c) as [r c1]. cbn [fst snd] in *.
    assert (Forall (key_lt rho i) nw) as K0.
    { eapply Forall_impl; [|exact K]. intro kn. apply key_lt_weaken; [apply Suffix_refl|left; lia]. }
    assert (Forall (key_lt rho i) ((k, ilen i) :: nw)) as K'.
    { constructor; [|exact K0]. unfold key_lt. cbn [fst snd]. rewrite ilen_nat. pose proof (rank_le2 k). lia. }
    destruct r as [rest a|e m|s|]; cbn [res_ok] in W1; try contradiction.
    + exists wd, ((k, ilen i) :: nw); cbn [fst snd].
      refine (conj (OffM_memo_ok_only _ _ _ _ _ O) (conj S (conj _ (conj _ (conj _ (fun _ => K')))))).
      * eapply (Good_set body base k i _ c c1 nw); eauto.
      * intro d. rewrite cdiags_set_cache. apply D.
      * rewrite cevals_set_cache, Ev. reflexivity.
    + exists wd, nw; cbn [fst snd].
      exact (conj (OffM_memo_ok_only _ _ _ _ _ O) (conj S (conj I1 (conj D (conj Ev (fun _ => K0)))))).
Qed.
