(* C17, tree-level consumers, part 2: the unused-variable analyser (Model/UnusedVar.v, C15) on trees
   that are equal up to the letter case of words -- for ALL trees, no guard, no bounds.

     unusedvar_sim                 node_sim f f' -> the same diagnostics in the same order (severity, class,
                                   range equal; printed name equal ignoring case)
     unusedvar_exact               + declarations left as written -> the reports are EQUAL
     unusedvar_old_dot_guard_needed  the analyser before the repair of tools/c15_proposed_fix.diff
                                   (UnusedVar.analyze_old) needed the guard dot_ok: is_left_node compared
                                   identifier AND start position of the left operand with exact string
                                   equality (an artificial tree: a later operand of a `.` starting where
                                   the left operand starts); the analyser as it is agrees on those trees
     unusedvar_exact_key_refuted   the analyser before /repo e5fd419 (key = the spelling) is case-sensitive

   Since the repair the analyser decides "member position" from the place of a node in the tree, not from
   positions and spellings: the guard dot_ok of the former statements is gone. *)
From GoldV Require Import Base Tokens Keywords Lexer AstKinds Tree Recase RecaseBase RecaseOutline UnusedVar.
From GoldV Require UnusedVarProofs.

(* ---- the walker ---- *)
Lemma walk_eq p n : walk p n = (p, n) :: walk_list n (nchildren n).
Proof.
  destruct n as [k id raw rg at_ ch]. cbn [walk nchildren]. f_equal.
  generalize (Node k id raw rg at_ ch) as N. intro N.
  induction ch as [|c ch IH]; cbn [walk_list]; [reflexivity|]. f_equal. exact IH.
Qed.

Lemma op_is_dot_sim p p' : node_sim p p' -> op_is_dot p = op_is_dot p'.
Proof.
  intro H. unfold op_is_dot. destruct (attr_tok_rel K_op _ _ H) as [|t t' Ht]; [reflexivity|].
  rewrite (ts_ty _ _ Ht). reflexivity.
Qed.

Lemma is_string_lit_sim n n' : node_sim n n' -> is_string_lit n = is_string_lit n'.
Proof.
  intro H. unfold is_string_lit. destruct (attr_tok_rel K_token _ _ H) as [|t t' Ht]; [reflexivity|].
  rewrite (ts_ty _ _ Ht). reflexivity.
Qed.

Lemma ident_range_sim n n' : node_sim n n' -> ident_range n = ident_range n'.
Proof.
  intro H. unfold ident_range. destruct (attr_tok_rel K_ident _ _ H) as [|t t' Ht].
  - apply node_sim_range. exact H.
  - apply Ht.
Qed.

Lemma child_member_sim n n' mb first : node_sim n n' -> child_member n mb first = child_member n' mb first.
Proof.
  intro H. unfold child_member, is_dot_op. rewrite !(node_sim_is_kind _ _ _ H), (op_is_dot_sim _ _ H). reflexivity.
Qed.

(* the names the analyser looks up at corresponding nodes differ in letter case only *)
Lemma names_here_sim mb n n' : node_sim n n' -> Forall2 ci_eq (names_here mb n) (names_here mb n').
Proof.
  intro H. unfold names_here. rewrite <- !(node_sim_is_kind _ _ _ H), <- (is_string_lit_sim _ _ H).
  destruct (is_kind KAstTerminal n).
  - destruct (negb mb && negb (is_string_lit n)); constructor; [apply node_sim_ident; exact H|constructor].
  - apply Forall2_app2.
    + destruct (is_kind KAstMethodCall n && negb mb); constructor; [apply node_sim_ident; exact H|constructor].
    + destruct (is_kind KAstForBlock n); [|constructor].
      destruct (attr_tok_rel K_ident _ _ H) as [|t t' Ht]; constructor; [apply Ht|constructor].
Qed.

Lemma mention_names_sim : forall n n' mb, node_sim n n' -> Forall2 ci_eq (mention_names mb n) (mention_names mb n').
Proof.
  intro n. pattern n. apply node_ind'. clear n. intros k id raw rg at_ ch IHn n' mb Hs.
  rewrite !UnusedVarProofs.mention_names_eq. apply Forall2_app2; [apply names_here_sim; exact Hs|].
  unfold UnusedVarProofs.is_term. rewrite <- (node_sim_is_kind _ _ _ Hs).
  destruct (is_kind KAstTerminal (Node k id raw rg at_ ch)); [constructor|].
  pose proof (node_sim_children _ _ Hs) as HC. cbn [nchildren] in HC |- *.
  revert Hs HC. generalize (Node k id raw rg at_ ch). intros N Hs HC. generalize true.
  revert IHn. induction HC as [|c c' l l' Hc Hrest IH]; intros IHn first; cbn [UnusedVarProofs.mn_list]; [constructor|].
  inversion IHn; subst. apply Forall2_app2; [|apply IH; assumption].
  rewrite <- (child_member_sim _ _ _ _ Hs). auto.
Qed.

(* ---- the analyser on related states; RN relates the printed names ---- *)
Section Rel.
  Variable RN : str -> str -> Prop.
  Hypothesis RN_nil : RN [] [].
  (* what else is known of corresponding nodes (nothing, or decl_exact) *)
  Variable X : node -> node -> Prop.
  Hypothesis X_children : forall n n', node_sim n n' -> X n n' -> Forall2 X (nchildren n) (nchildren n').
  Hypothesis X_name : forall n n', node_sim n n' -> X n n' ->
    is_kind KAstLocalVariableDeclaration n = true -> RN (nident n) (nident n').

  Definition vinfo_rel (v v' : vinfo) : Prop :=
    vuses v = vuses v' /\ vrange v = vrange v' /\ RN (vname v) (vname v').
  (* the maps have EQUAL keys *)
  Definition cur_rel (m m' : list (str * vinfo)) : Prop :=
    Forall2 (fun kv kv' => fst kv = fst kv' /\ vinfo_rel (snd kv) (snd kv')) m m'.
  Definition diag_rel (d d' : diag) : Prop :=
    dsev d = dsev d' /\ dclass d = dclass d' /\ drange d = drange d' /\ RN (dkey d) (dkey d').
  Definition uv_st_rel (s s' : st) : Prop :=
    cur_rel (cur s) (cur s') /\ Forall2 diag_rel (diags s) (diags s').

  Lemma alookup_rel k m m' : cur_rel m m' -> opt_rel vinfo_rel (alookup k m) (alookup k m').
  Proof.
    induction 1 as [|[a v] [a' v'] m m' [Ha Hv] Hm IH]; cbn [alookup]; [constructor|].
    cbn [fst snd] in Ha, Hv. subst a'. destruct (str_eqb k a); [constructor; exact Hv|exact IH].
  Qed.

  Lemma ainsert_rel k v v' m m' : cur_rel m m' -> vinfo_rel v v' -> cur_rel (ainsert k v m) (ainsert k v' m').
  Proof.
    intros Hm Hv. induction Hm as [|[a w] [a' w'] m m' [Ha Hw] Hm IH]; cbn [ainsert].
    - constructor; [split; [reflexivity|exact Hv]|constructor].
    - cbn [fst snd] in Ha, Hw. subst a'. destruct (str_eqb k a).
      + constructor; [split; [reflexivity|exact Hv]|exact Hm].
      + constructor; [split; [reflexivity|exact Hw]|exact IH].
  Qed.

  Lemma unused_of_rel m m' : cur_rel m m' -> Forall2 diag_rel (unused_of m) (unused_of m').
  Proof.
    unfold unused_of. induction 1 as [|[a v] [a' v'] m m' [Ha [H1 [H2 H3]]] Hm IH]; cbn [flat_map]; [constructor|].
    cbn [fst snd] in *. rewrite <- H1. destruct (vuses v =? 0); cbn [app]; [|exact IH].
    constructor; [|exact IH]. repeat split; cbn [dsev dclass drange dkey]; auto.
  Qed.

  Lemma check_unused_rel s s' : uv_st_rel s s' -> uv_st_rel (check_unused s) (check_unused s').
  Proof.
    intros [H1 H2]. split; cbn [check_unused cur diags]; [exact H1|].
    apply Forall2_app2; [exact H2|apply unused_of_rel; exact H1].
  Qed.

  Lemma reset_rel s s' : uv_st_rel s s' -> uv_st_rel (reset s) (reset s').
  Proof.
    intro H. destruct (check_unused_rel _ _ H) as [_ H2]. split; cbn [reset cur diags]; [constructor|exact H2].
  Qed.

  Lemma notify_mention_rel s s' nm nm' : uv_st_rel s s' -> ci_eq nm nm' ->
    uv_st_rel (notify_mention upper s nm) (notify_mention upper s' nm').
  Proof.
    intros Hs Hn. unfold notify_mention. replace (upper nm') with (upper nm) by exact Hn.
    destruct Hs as [H1 H2].
    destruct (alookup_rel (upper nm) _ _ H1) as [|v v' Hv]; [split; assumption|].
    split; cbn [cur diags]; [|exact H2]. apply ainsert_rel; [exact H1|].
    destruct Hv as [A [B C]]. repeat split; cbn [vuses vrange vname]; auto. rewrite A. reflexivity.
  Qed.

  Lemma mentions_rel l l' : Forall2 ci_eq l l' -> forall s s', uv_st_rel s s' ->
    uv_st_rel (fold_left (notify_mention upper) l s) (fold_left (notify_mention upper) l' s').
  Proof.
    induction 1 as [|a a' l l' Ha Hl IH]; intros s s' Hs; cbn [fold_left]; [exact Hs|].
    apply IH. apply notify_mention_rel; assumption.
  Qed.

  Lemma notify_local_var_rel s s' n n' : uv_st_rel s s' -> node_sim n n' -> RN (nident n) (nident n') ->
    uv_st_rel (notify_local_var upper s n) (notify_local_var upper s' n').
  Proof.
    intros [H1 H2] Hn Hr. unfold notify_local_var.
    replace (upper (nident n')) with (upper (nident n)) by (apply node_sim_ident; exact Hn).
    rewrite <- (ident_range_sim _ _ Hn).
    destruct (alookup_rel (upper (nident n)) _ _ H1) as [|v v' Hv]; split; cbn [cur diags]; auto.
    - apply ainsert_rel; [exact H1|]. repeat split; cbn [vuses vrange vname]; auto.
    - apply Forall2_app2; [exact H2|]. constructor; [|constructor].
      repeat split; cbn [dsev dclass drange dkey]; auto.
  Qed.

  (* corresponding nodes *)
  Definition wrel (n n' : node) : Prop := node_sim n n' /\ X n n'.

  Lemma wrel_children n n' : wrel n n' -> Forall2 wrel (nchildren n) (nchildren n').
  Proof.
    intros [Hs Hx]. apply Forall2_and; [exact (node_sim_children _ _ Hs)|exact (X_children _ _ Hs Hx)].
  Qed.

  Lemma subnodes_rel : forall n n', wrel n n' -> Forall2 wrel (subnodes n) (subnodes n').
  Proof.
    intro n. pattern n. apply node_ind'. clear n. intros k id raw rg at_ ch IHn n' Hw.
    rewrite !UnusedVarProofs.subnodes_eq. constructor; [exact Hw|].
    pose proof (wrel_children _ _ Hw) as HC. cbn [nchildren] in HC |- *. clear Hw.
    revert IHn. induction HC as [|c c' l l' Hc Hrest IH]; intro IHn; cbn [flat_map]; [constructor|].
    inversion IHn; subst. apply Forall2_app2; [|apply IH; assumption]. auto.
  Qed.

  Lemma collect_rel b b' s s' : wrel b b' -> uv_st_rel s s' -> uv_st_rel (collect upper s b) (collect upper s' b').
  Proof.
    intros Hb. unfold collect. generalize (subnodes_rel _ _ Hb). generalize (subnodes b) (subnodes b'). clear Hb.
    intros l l' Hl. revert s s'. induction Hl as [|n n' l l' [Hn Hx] Hl IH]; intros s s' Hs; cbn [fold_left]; [exact Hs|].
    apply IH. rewrite <- (node_sim_is_kind _ _ _ Hn).
    destruct (is_kind KAstLocalVariableDeclaration n) eqn:E; [|exact Hs].
    apply notify_local_var_rel; auto.
  Qed.

  Lemma method_body_rel m m' : wrel m m' -> opt_rel wrel (method_body m) (method_body m').
  Proof.
    intro Hm. unfold method_body. induction (wrel_children _ _ Hm) as [|c c' l l' Hc Hl IH]; cbn [find]; [constructor|].
    rewrite <- (node_sim_is_kind _ _ _ (proj1 Hc)). destruct (is_kind KAstMethodBody c); [constructor; exact Hc|exact IH].
  Qed.

  Lemma analyze_method_rel s s' m m' : uv_st_rel s s' -> wrel m m' ->
    uv_st_rel (analyze_method upper s m) (analyze_method upper s' m').
  Proof.
    intros [_ Hd] Hm. unfold analyze_method.
    assert (H0 : uv_st_rel (mkSt [] (diags s)) (mkSt [] (diags s'))) by (split; [constructor|exact Hd]).
    assert (H1 : uv_st_rel
      (match method_body m with
       | Some b => fold_left (notify_mention upper) (mention_names false b) (collect upper (mkSt [] (diags s)) b)
       | None => mkSt [] (diags s) end)
      (match method_body m' with
       | Some b => fold_left (notify_mention upper) (mention_names false b) (collect upper (mkSt [] (diags s')) b)
       | None => mkSt [] (diags s') end)).
    { destruct (method_body_rel _ _ Hm) as [|b b' Hb]; [exact H0|].
      apply mentions_rel; [apply mention_names_sim; exact (proj1 Hb)|apply collect_rel; assumption]. }
    destruct (check_unused_rel _ _ H1) as [_ H2]. split; cbn [cur diags]; [constructor|exact H2].
  Qed.

  Lemma step_rel s s' e e' : uv_st_rel s s' -> wrel (snd e) (snd e') -> uv_st_rel (step upper s e) (step upper s' e').
  Proof.
    intros Hs Hn. unfold step, is_method, ev_node. rewrite <- !(node_sim_is_kind _ _ _ (proj1 Hn)).
    destruct (is_kind KAstProcedure (snd e) || is_kind KAstFunction (snd e)); [|exact Hs].
    apply analyze_method_rel; assumption.
  Qed.

  Lemma fold_rel l l' : Forall2 (fun e e' => wrel (snd e) (snd e')) l l' -> forall s s', uv_st_rel s s' ->
    uv_st_rel (fold_left (step upper) l s) (fold_left (step upper) l' s').
  Proof.
    induction 1 as [|e e' l l' He Hl IH]; intros s s' Hs; cbn [fold_left]; [exact Hs|].
    apply IH. apply step_rel; assumption.
  Qed.

  (* the walks visit corresponding nodes *)
  Lemma walk_rel : forall n n', wrel n n' -> forall p p',
    Forall2 (fun e e' => wrel (snd e) (snd e')) (walk p n) (walk p' n').
  Proof.
    intro n. pattern n. apply node_ind'. clear n. intros k id raw rg at_ ch IHn n' Hw p p'.
    rewrite !walk_eq. constructor; [exact Hw|].
    pose proof (wrel_children _ _ Hw) as HC. cbn [nchildren] in HC |- *. clear Hw.
    revert HC. generalize (Node k id raw rg at_ ch). intros N HC.
    revert IHn. induction HC as [|c c' l l' Hc Hrest IH]; intro IHn; cbn [walk_list]; [constructor|].
    inversion IHn; subst. apply Forall2_app2; [|apply IH; assumption]. auto.
  Qed.

  Lemma events_rel f f' : wrel f f' -> Forall2 (fun e e' => wrel (snd e) (snd e')) (events f) (events f').
  Proof.
    intro Hw. unfold events. pose proof (wrel_children _ _ Hw) as HC.
    induction HC as [|c c' l l' Hc Hrest IH]; cbn [walk_list]; [constructor|].
    apply Forall2_app2; [|exact IH]. apply walk_rel; assumption.
  Qed.

  Lemma analyze_rel f f' : wrel f f' -> Forall2 diag_rel (analyze upper f) (analyze upper f').
  Proof.
    intro Hw. unfold analyze, run.
    assert (H0 : uv_st_rel st0 st0) by (split; constructor).
    apply (fold_rel _ _ (events_rel _ _ Hw) _ _ H0).
  Qed.
End Rel.

(* ---- the theorems ---- *)

(* severity, class, range equal; the printed name equal ignoring case *)
Definition diag_sim : diag -> diag -> Prop := diag_rel ci_eq.

Theorem unusedvar_sim : forall f f', node_sim f f' ->
  Forall2 diag_sim (analyze_today f) (analyze_today f').
Proof.
  intros f f' Hs. unfold analyze_today, key_today, diag_sim.
  apply (analyze_rel ci_eq (ci_eq_refl []) (fun _ _ => True)).
  - intros n n' Hn _. eapply Forall2_impl; [|exact (node_sim_children _ _ Hn)]. auto.
  - intros n n' Hn _ _. apply node_sim_ident. exact Hn.
  - split; [exact Hs|exact I].
Qed.

Lemma diag_rel_eq d d' : diag_rel eq d d' -> d = d'.
Proof. destruct d as [a b c e], d' as [a' b' c' e']. unfold diag_rel. cbn [dsev dclass drange dkey]. intros [-> [-> [-> ->]]]. reflexivity. Qed.

(* declarations left as written (KAstLocalVariableDeclaration is a decl_kind): the reports are equal *)
Theorem unusedvar_exact : forall f f', node_sim f f' -> decl_exact f f' ->
  analyze_today f = analyze_today f'.
Proof.
  intros f f' Hs He. unfold analyze_today, key_today. apply Forall2_eq.
  eapply Forall2_impl; [apply diag_rel_eq|].
  apply (analyze_rel eq eq_refl decl_exact).
  - intros n n' _ Hx. apply decl_exact_children. exact Hx.
  - intros n n' _ Hx E. apply (proj1 (decl_exact_here _ _ Hx)). eapply is_kind_decl; [exact E|reflexivity].
  - split; [exact Hs|exact He].
Qed.

(* ================= witnesses ================= *)
Definition rg (l c l2 c2 : N) : range := mkRange (mkPos l c) (mkPos l2 c2).
Definition tk (raw l c c2 : N) (ty : ttype) (v : str) : tok := mkTok raw (rg l c l c2) ty v.
Definition int4 : str := [105;110;116;52].

(* proc p / var x : int4 / <a `.` whose operands are a call node named x and a terminal, BOTH starting
   at (2,1)> / endproc -- no parser builds such a tree.  ref = the spelling of the right operand. *)
Definition dw (ref : str) : node :=
  Node KAstRoot [] 0 (rg 0 0 0 0) [] [
    Node KAstProcedure [112] 0 (rg 0 0 3 7) [(K_flags, AN 0)] [
      Node KAstTerminal [112] 5 (rg 0 5 0 6) [(K_token, AT (tk 5 0 5 6 TIdentifier [112]))] [];
      Node KAstMethodBody [] 8 (rg 1 1 2 4) [] [
        Node KAstLocalVariableDeclaration [120] 8 (rg 1 1 1 13) [(K_ident, AT (tk 12 1 5 6 TIdentifier [120]))] [
          Node KAstTypeBasic int4 16 (rg 1 9 1 13) [(K_token, AT (tk 16 1 9 13 TIdentifier int4))] []];
        Node KAstBinaryOp [46] 22 (rg 2 1 2 4) [(K_op, AT (tk 23 2 2 3 TDot [46]))] [
          Node KAstMethodCall [120] 22 (rg 2 1 2 2) [] [];
          Node KAstTerminal ref 22 (rg 2 1 2 2) [(K_token, AT (tk 22 2 1 2 TIdentifier ref))] []]]]].

(* the analyser as it was before the repair: the guard dot_ok was needed *)
Theorem unusedvar_old_dot_guard_needed : exists f f', node_sim f f' /\ decl_exact f f' /\
  analyze_old key_today f <> analyze_old key_today f' /\ analyze_today f = analyze_today f'.
Proof.
  exists (dw [120]), (dw [88]). split; [apply node_simb_sound; vm_compute; reflexivity|].
  split; [apply decl_exactb_sound; vm_compute; reflexivity|].
  split; [intro H; vm_compute in H; discriminate H|vm_compute; reflexivity].
Qed.

(* not even the similarity survived without the guard: the number of diagnostics differed *)
Example unusedvar_old_dot_guard_needed_sim :
  node_sim (dw [120]) (dw [88]) /\ dot_ok (dw [120]) = false /\
  length (analyze_old key_today (dw [120])) <> length (analyze_old key_today (dw [88])) /\
  length (analyze_today (dw [120])) = length (analyze_today (dw [88])).
Proof.
  split; [apply node_simb_sound; vm_compute; reflexivity|]. split; [vm_compute; reflexivity|].
  vm_compute. split; [discriminate|reflexivity].
Qed.

From Coq Require Import String.

(* a local x used as X (the keyword re-cased too) *)
Definition uw : node := parse_text "proc p
 var x : int4
 var y : int4
 x = 1
endproc"%string.
Definition uw' : node := parse_text "PROC p
 Var x : INT4
 var y : int4
 X = 1
EndProc"%string.

(* the analyser before e5fd419 keyed the map by the spelling itself *)
Theorem unusedvar_exact_key_refuted : exists f f',
  node_sim f f' /\ decl_exact f f' /\ dot_ok f = true /\ analyze_old (fun s => s) f <> analyze_old (fun s => s) f'.
Proof.
  exists uw, uw'. split; [apply node_simb_sound; vm_compute; reflexivity|].
  split; [apply decl_exactb_sound; vm_compute; reflexivity|]. split; [vm_compute; reflexivity|].
  intro H. vm_compute in H. discriminate H.
Qed.

(* a re-cased DECLARATION: similar, the printed name changes its case, nothing else *)
Definition uw2 : node := parse_text "proc p
 var xy : int4
endproc"%string.
Definition uw2' : node := parse_text "proc p
 var XY : int4
endproc"%string.

Example unusedvar_decl_exact_needed :
  node_sim uw2 uw2' /\ analyze_today uw2 <> analyze_today uw2' /\
  Forall2 diag_sim (analyze_today uw2) (analyze_today uw2').
Proof.
  assert (A : node_sim uw2 uw2') by (apply node_simb_sound; vm_compute; reflexivity).
  split; [exact A|]. split; [intro H; vm_compute in H; discriminate H|].
  apply unusedvar_sim; assumption.
Qed.

(* non-vacuity: all hypotheses hold of two trees that really differ, the report is not empty *)
Example unusedvar_nonvacuous :
  node_sim uw uw' /\ decl_exact uw uw' /\ dot_ok uw = true /\ uw <> uw' /\
  analyze_today uw = analyze_today uw' /\ List.length (analyze_today uw) = 1%nat.
Proof.
  assert (A : node_sim uw uw') by (apply node_simb_sound; vm_compute; reflexivity).
  assert (B : decl_exact uw uw') by (apply decl_exactb_sound; vm_compute; reflexivity).
  assert (C : dot_ok uw = true) by (vm_compute; reflexivity).
  split; [exact A|]. split; [exact B|]. split; [exact C|]. split.
  - intro H. apply (f_equal spellings) in H. vm_compute in H. discriminate H.
  - split; [apply unusedvar_exact; assumption|vm_compute; reflexivity].
Qed.
