(* C17, tree-level consumers, part 2: the unused-variable analyser (Model/UnusedVar.v, C15) on trees
   that are equal up to the letter case of words -- for ALL trees satisfying dot_ok, no bounds.

     unusedvar_sim                 node_sim f f' -> dot_ok f = true -> the same diagnostics in the same
                                   order (severity, class, range equal; printed name equal ignoring case)
     unusedvar_exact               + declarations left as written -> the reports are EQUAL
     unusedvar_dot_guard_needed    dot_ok cannot be dropped (an artificial tree: a later operand of a
                                   `.` starting where the left operand starts)
     unusedvar_exact_key_refuted   the analyser before /repo e5fd419 (key = the spelling) is case-sensitive

   dot_ok is true of every parsed tree (the parser layer); it is needed because is_left_node compares
   identifier AND start position of the left operand with exact string equality. *)
From GoldV Require Import Base Tokens Keywords Lexer AstKinds Tree Recase RecaseBase RecaseOutline UnusedVar.

(* ---- the walker ---- *)
Lemma walk_eq p n : walk p n = (p, n) :: walk_list n (nchildren n).
Proof.
  destruct n as [k id raw rg at_ ch]. cbn [walk nchildren]. f_equal.
  generalize (Node k id raw rg at_ ch) as N. intro N.
  induction ch as [|c ch IH]; cbn [walk_list]; [reflexivity|]. f_equal. exact IH.
Qed.

(* ---- dot_ok ---- *)
Lemma dot_ok_inv n : dot_ok n = true -> dot_ok1 n = true /\ Forall (fun c => dot_ok c = true) (nchildren n).
Proof.
  destruct n as [k id raw rg at_ ch]. cbn [dot_ok nchildren]. intro H. apply andb_true_iff in H as [H1 H2].
  split; [exact H1|]. clear H1. induction ch as [|c ch IH]; constructor.
  - apply andb_true_iff in H2. tauto.
  - apply IH. apply andb_true_iff in H2. tauto.
Qed.

Lemma pos_eqb_same a b : Recase.pos_eqb a b = UnusedVar.pos_eqb a b.
Proof. reflexivity. Qed.

Lemma op_is_dot_sim p p' : node_sim p p' -> op_is_dot p = op_is_dot p'.
Proof.
  intro H. unfold op_is_dot. destruct (attr_tok_rel K_op _ _ H) as [|t t' Ht]; [reflexivity|].
  rewrite (ts_ty _ _ Ht). reflexivity.
Qed.

Lemma ident_pos_eqb_refl l : ident_pos_eqb l l = true.
Proof.
  unfold ident_pos_eqb, UnusedVar.pos_eqb. rewrite str_eqb_refl, !N.eqb_refl. reflexivity.
Qed.

(* is_left_node of a node and one of its children is the same in both trees *)
Lemma left_children p p' : node_sim p p' -> dot_ok1 p = true ->
  Forall2 (fun c c' => is_left_node p c = is_left_node p' c') (nchildren p) (nchildren p').
Proof.
  intros H Hd. unfold is_left_node. rewrite <- (node_sim_is_kind _ _ _ H), <- (op_is_dot_sim _ _ H).
  pose proof (node_sim_children _ _ H) as Hc.
  destruct (is_kind KAstBinaryOp p) eqn:Ek; [|eapply Forall2_impl; [|exact Hc]; reflexivity].
  destruct (op_is_dot p) eqn:Eo; cbn [negb]; [|eapply Forall2_impl; [|exact Hc]; reflexivity].
  unfold dot_ok1, dot_node in Hd. rewrite Ek in Hd. fold (op_is_dot p) in Hd. rewrite Eo in Hd.
  cbn [andb negb orb] in Hd.
  destruct Hc as [|l l' rest rest' Hl Hrest]; constructor.
  - rewrite !ident_pos_eqb_refl. reflexivity.
  - clear Ek Eo. induction Hrest as [|c c' rest rest' Hcc Hrest IH]; constructor.
    + cbn [forallb] in Hd. apply andb_true_iff in Hd as [Hd _]. apply negb_true_iff in Hd.
      rewrite pos_eqb_same in Hd. unfold ident_pos_eqb.
      rewrite <- (node_sim_range _ _ Hl), <- (node_sim_range _ _ Hcc), Hd, !andb_false_r. reflexivity.
    + apply IH. cbn [forallb] in Hd. apply andb_true_iff in Hd. tauto.
Qed.

Lemma is_string_lit_sim n n' : node_sim n n' -> is_string_lit n = is_string_lit n'.
Proof.
  intro H. unfold is_string_lit. destruct (attr_tok_rel K_token _ _ H) as [|t t' Ht]; [reflexivity|].
  rewrite (ts_ty _ _ Ht). reflexivity.
Qed.

Lemma ident_range_sim n n' : node_sim n n' -> ident_range n = ident_range n'.
Proof.
  intro H. unfold ident_range. destruct (attr_tok_rel K_ident _ _ H) as [|t t' Ht].
  - apply node_sim_range. exact H.
  - apply Ht.
Qed.

(* ---- the analyser on related states; RN relates the printed names ---- *)
Section Rel.
  Variable RN : str -> str -> Prop.
  Hypothesis RN_nil : RN [] [].
  (* what else is known of corresponding nodes (nothing, or decl_exact) *)
  Variable X : node -> node -> Prop.
  Hypothesis X_children : forall n n', node_sim n n' -> X n n' -> Forall2 X (nchildren n) (nchildren n').
  Hypothesis X_name : forall n n', node_sim n n' -> X n n' ->
    is_kind KAstLocalVariableDeclaration n = true -> RN (nident n) (nident n').

  Definition vinfo_rel (v v' : vinfo) : Prop :=
    vuses v = vuses v' /\ vrange v = vrange v' /\ RN (vname v) (vname v').
  (* the maps have EQUAL keys *)
  Definition cur_rel (m m' : list (str * vinfo)) : Prop :=
    Forall2 (fun kv kv' => fst kv = fst kv' /\ vinfo_rel (snd kv) (snd kv')) m m'.
  Definition diag_rel (d d' : diag) : Prop :=
    dsev d = dsev d' /\ dclass d = dclass d' /\ drange d = drange d' /\ RN (dkey d) (dkey d').
  Definition uv_st_rel (s s' : st) : Prop :=
    cur_rel (cur s) (cur s') /\ Forall2 diag_rel (diags s) (diags s').

  Lemma alookup_rel k m m' : cur_rel m m' -> opt_rel vinfo_rel (alookup k m) (alookup k m').
  Proof.
    induction 1 as [|[a v] [a' v'] m m' [Ha Hv] Hm IH]; cbn [alookup]; [constructor|].
    cbn [fst snd] in Ha, Hv. subst a'. destruct (str_eqb k a); [constructor; exact Hv|exact IH].
  Qed.

  Lemma ainsert_rel k v v' m m' : cur_rel m m' -> vinfo_rel v v' -> cur_rel (ainsert k v m) (ainsert k v' m').
  Proof.
    intros Hm Hv. induction Hm as [|[a w] [a' w'] m m' [Ha Hw] Hm IH]; cbn [ainsert].
    - constructor; [split; [reflexivity|exact Hv]|constructor].
    - cbn [fst snd] in Ha, Hw. subst a'. destruct (str_eqb k a).
      + constructor; [split; [reflexivity|exact Hv]|exact Hm].
      + constructor; [split; [reflexivity|exact Hw]|exact IH].
  Qed.

  Lemma unused_of_rel m m' : cur_rel m m' -> Forall2 diag_rel (unused_of m) (unused_of m').
  Proof.
    unfold unused_of. induction 1 as [|[a v] [a' v'] m m' [Ha [H1 [H2 H3]]] Hm IH]; cbn [flat_map]; [constructor|].
    cbn [fst snd] in *. rewrite <- H1. destruct (vuses v =? 0); cbn [app]; [|exact IH].
    constructor; [|exact IH]. repeat split; cbn [dsev dclass drange dkey]; auto.
  Qed.

  Lemma check_unused_rel s s' : uv_st_rel s s' -> uv_st_rel (check_unused s) (check_unused s').
  Proof.
    intros [H1 H2]. split; cbn [check_unused cur diags]; [exact H1|].
    apply Forall2_app2; [exact H2|apply unused_of_rel; exact H1].
  Qed.

  Lemma reset_rel s s' : uv_st_rel s s' -> uv_st_rel (reset s) (reset s').
  Proof.
    intro H. destruct (check_unused_rel _ _ H) as [_ H2]. split; cbn [reset cur diags]; [constructor|exact H2].
  Qed.

  Lemma notify_terminal_rel s s' p p' n n' : uv_st_rel s s' -> node_sim n n' ->
    is_left_node p n = is_left_node p' n' ->
    uv_st_rel (notify_terminal upper s p n) (notify_terminal upper s' p' n').
  Proof.
    intros Hs Hn Hl. unfold notify_terminal. rewrite <- (is_string_lit_sim _ _ Hn), <- Hl.
    destruct (is_string_lit n); [exact Hs|].
    replace (upper (nident n')) with (upper (nident n)) by (apply node_sim_ident; exact Hn).
    destruct Hs as [H1 H2].
    destruct (alookup_rel (upper (nident n)) _ _ H1) as [|v v' Hv]; [split; assumption|].
    destruct (is_left_node p n); [|split; assumption].
    split; cbn [cur diags]; [|exact H2]. apply ainsert_rel; [exact H1|].
    destruct Hv as [A [B C]]. repeat split; cbn [vuses vrange vname]; auto. rewrite A. reflexivity.
  Qed.

  Lemma notify_local_var_rel s s' n n' : uv_st_rel s s' -> node_sim n n' -> RN (nident n) (nident n') ->
    uv_st_rel (notify_local_var upper s n) (notify_local_var upper s' n').
  Proof.
    intros [H1 H2] Hn Hr. unfold notify_local_var.
    replace (upper (nident n')) with (upper (nident n)) by (apply node_sim_ident; exact Hn).
    rewrite <- (ident_range_sim _ _ Hn).
    destruct (alookup_rel (upper (nident n)) _ _ H1) as [|v v' Hv]; split; cbn [cur diags]; auto.
    - apply ainsert_rel; [exact H1|]. repeat split; cbn [vuses vrange vname]; auto.
    - apply Forall2_app2; [exact H2|]. constructor; [|constructor].
      repeat split; cbn [dsev dclass drange dkey]; auto.
  Qed.

  (* corresponding visit calls *)
  Definition ev_rel (e e' : ev) : Prop :=
    node_sim (snd e) (snd e') /\
    is_left_node (fst e) (snd e) = is_left_node (fst e') (snd e') /\
    (is_kind KAstLocalVariableDeclaration (snd e) = true -> RN (nident (snd e)) (nident (snd e'))).

  Lemma step_rel s s' e e' : uv_st_rel s s' -> ev_rel e e' -> uv_st_rel (step upper s e) (step upper s' e').
  Proof.
    destruct e as [p n], e' as [p' n']. intros Hs [Hn [Hl Hr]]. cbn [fst snd] in Hn, Hl, Hr.
    unfold step. cbn [ev_parent ev_node fst snd]. rewrite <- !(node_sim_is_kind _ _ _ Hn).
    assert (H1 : uv_st_rel (if is_kind KAstProcedure n then reset s else s)
                           (if is_kind KAstProcedure n then reset s' else s')).
    { destruct (is_kind KAstProcedure n); [apply reset_rel|]; exact Hs. }
    revert H1. generalize (if is_kind KAstProcedure n then reset s else s)
                          (if is_kind KAstProcedure n then reset s' else s'). intros s1 s1' H1.
    assert (H2 : uv_st_rel (if is_kind KAstFunction n then reset s1 else s1)
                           (if is_kind KAstFunction n then reset s1' else s1')).
    { destruct (is_kind KAstFunction n); [apply reset_rel|]; exact H1. }
    revert H2. generalize (if is_kind KAstFunction n then reset s1 else s1)
                          (if is_kind KAstFunction n then reset s1' else s1'). intros s2 s2' H2.
    assert (H3 : uv_st_rel (if is_kind KAstTerminal n then notify_terminal upper s2 p n else s2)
                           (if is_kind KAstTerminal n then notify_terminal upper s2' p' n' else s2')).
    { destruct (is_kind KAstTerminal n); [apply notify_terminal_rel; assumption|exact H2]. }
    revert H3. generalize (if is_kind KAstTerminal n then notify_terminal upper s2 p n else s2)
                          (if is_kind KAstTerminal n then notify_terminal upper s2' p' n' else s2').
    intros s3 s3' H3.
    destruct (is_kind KAstLocalVariableDeclaration n); [|exact H3].
    apply notify_local_var_rel; auto.
  Qed.

  Lemma fold_rel l l' : Forall2 ev_rel l l' -> forall s s', uv_st_rel s s' ->
    uv_st_rel (fold_left (step upper) l s) (fold_left (step upper) l' s').
  Proof.
    induction 1 as [|e e' l l' He Hl IH]; intros s s' Hs; cbn [fold_left]; [exact Hs|].
    apply IH. apply step_rel; assumption.
  Qed.

  (* the walks visit corresponding nodes *)
  Definition wrel (n n' : node) : Prop := node_sim n n' /\ dot_ok n = true /\ X n n'.

  Lemma wrel_children n n' : wrel n n' ->
    Forall2 (fun c c' => wrel c c' /\ is_left_node n c = is_left_node n' c') (nchildren n) (nchildren n').
  Proof.
    intros [Hs [Hd Hx]]. destruct (dot_ok_inv _ Hd) as [Hd1 Hdc].
    pose proof (left_children _ _ Hs Hd1) as HL.
    pose proof (node_sim_children _ _ Hs) as HS. pose proof (X_children _ _ Hs Hx) as HX.
    revert HL HX Hdc. induction HS as [|c c' l l' Hc Hl IH]; intros HL HX Hdc; [constructor|].
    inversion HL; subst. inversion HX; subst. inversion Hdc; subst.
    constructor; [|apply IH; assumption]. split; [|assumption]. split; [exact Hc|]. split; assumption.
  Qed.

  Lemma walk_rel : forall n n', wrel n n' -> forall p p', is_left_node p n = is_left_node p' n' ->
    Forall2 ev_rel (walk p n) (walk p' n').
  Proof.
    intro n. pattern n. apply node_ind'. clear n. intros k id raw rg at_ ch IHn n' Hw p p' Hl.
    rewrite !walk_eq. constructor.
    - destruct Hw as [Hs [_ Hx]]. split; [exact Hs|]. split; [exact Hl|]. cbn [fst snd]. intro E.
      apply X_name; assumption.
    - pose proof (wrel_children _ _ Hw) as HC. cbn [nchildren] in HC |- *. clear Hw Hl.
      revert HC. generalize (Node k id raw rg at_ ch). intros N HC.
      revert IHn. induction HC as [|c c' l l' [Hc Hlc] Hrest IH]; intro IHn; cbn [walk_list]; [constructor|].
      inversion IHn; subst. apply Forall2_app2; [|apply IH; assumption]. auto.
  Qed.

  Lemma events_rel f f' : wrel f f' -> Forall2 ev_rel (events f) (events f').
  Proof.
    intro Hw. unfold events. pose proof (wrel_children _ _ Hw) as HC.
    induction HC as [|c c' l l' [Hc Hlc] Hrest IH]; cbn [walk_list]; [constructor|].
    apply Forall2_app2; [|exact IH]. apply walk_rel; assumption.
  Qed.

  Lemma analyze_rel f f' : wrel f f' -> Forall2 diag_rel (analyze upper f) (analyze upper f').
  Proof.
    intro Hw. unfold analyze, run.
    assert (H0 : uv_st_rel st0 st0) by (split; constructor).
    apply (check_unused_rel _ _ (fold_rel _ _ (events_rel _ _ Hw) _ _ H0)).
  Qed.
End Rel.

(* ---- the theorems ---- *)

(* severity, class, range equal; the printed name equal ignoring case *)
Definition diag_sim : diag -> diag -> Prop := diag_rel ci_eq.

Theorem unusedvar_sim : forall f f', node_sim f f' -> dot_ok f = true ->
  Forall2 diag_sim (analyze_today f) (analyze_today f').
Proof.
  intros f f' Hs Hd. unfold analyze_today, key_today, diag_sim.
  apply (analyze_rel ci_eq (ci_eq_refl []) (fun _ _ => True)).
  - intros n n' Hn _. eapply Forall2_impl; [|exact (node_sim_children _ _ Hn)]. auto.
  - intros n n' Hn _ _. apply node_sim_ident. exact Hn.
  - split; [exact Hs|]. split; [exact Hd|exact I].
Qed.

Lemma diag_rel_eq d d' : diag_rel eq d d' -> d = d'.
Proof. destruct d as [a b c e], d' as [a' b' c' e']. unfold diag_rel. cbn [dsev dclass drange dkey]. intros [-> [-> [-> ->]]]. reflexivity. Qed.

(* declarations left as written (KAstLocalVariableDeclaration is a decl_kind): the reports are equal *)
Theorem unusedvar_exact : forall f f', node_sim f f' -> decl_exact f f' -> dot_ok f = true ->
  analyze_today f = analyze_today f'.
Proof.
  intros f f' Hs He Hd. unfold analyze_today, key_today. apply Forall2_eq.
  eapply Forall2_impl; [apply diag_rel_eq|].
  apply (analyze_rel eq eq_refl decl_exact).
  - intros n n' _ Hx. apply decl_exact_children. exact Hx.
  - intros n n' _ Hx E. apply (proj1 (decl_exact_here _ _ Hx)). eapply is_kind_decl; [exact E|reflexivity].
  - split; [exact Hs|]. split; [exact Hd|exact He].
Qed.

(* ================= witnesses ================= *)
Definition rg (l c l2 c2 : N) : range := mkRange (mkPos l c) (mkPos l2 c2).
Definition tk (raw l c c2 : N) (ty : ttype) (v : str) : tok := mkTok raw (rg l c l c2) ty v.
Definition int4 : str := [105;110;116;52].

(* proc p / var x : int4 / <a `.` whose operands are a call node named x and a terminal, BOTH starting
   at (2,1)> / endproc -- no parser builds such a tree.  ref = the spelling of the right operand. *)
Definition dw (ref : str) : node :=
  Node KAstRoot [] 0 (rg 0 0 0 0) [] [
    Node KAstProcedure [112] 0 (rg 0 0 3 7) [(K_flags, AN 0)] [
      Node KAstTerminal [112] 5 (rg 0 5 0 6) [(K_token, AT (tk 5 0 5 6 TIdentifier [112]))] [];
      Node KAstMethodBody [] 8 (rg 1 1 2 4) [] [
        Node KAstLocalVariableDeclaration [120] 8 (rg 1 1 1 13) [(K_ident, AT (tk 12 1 5 6 TIdentifier [120]))] [
          Node KAstTypeBasic int4 16 (rg 1 9 1 13) [(K_token, AT (tk 16 1 9 13 TIdentifier int4))] []];
        Node KAstBinaryOp [46] 22 (rg 2 1 2 4) [(K_op, AT (tk 23 2 2 3 TDot [46]))] [
          Node KAstMethodCall [120] 22 (rg 2 1 2 2) [] [];
          Node KAstTerminal ref 22 (rg 2 1 2 2) [(K_token, AT (tk 22 2 1 2 TIdentifier ref))] []]]]].

Theorem unusedvar_dot_guard_needed : exists f f', node_sim f f' /\ decl_exact f f' /\ analyze_today f <> analyze_today f'.
Proof.
  exists (dw [120]), (dw [88]). split; [apply node_simb_sound; vm_compute; reflexivity|].
  split; [apply decl_exactb_sound; vm_compute; reflexivity|].
  intro H. vm_compute in H. discriminate H.
Qed.

(* not even the similarity survives without the guard: the number of diagnostics differs *)
Example unusedvar_dot_guard_needed_sim :
  node_sim (dw [120]) (dw [88]) /\ dot_ok (dw [120]) = false /\
  length (analyze_today (dw [120])) <> length (analyze_today (dw [88])).
Proof.
  split; [apply node_simb_sound; vm_compute; reflexivity|]. split; [vm_compute; reflexivity|].
  vm_compute. discriminate.
Qed.

From Coq Require Import String.

(* a local x used as X (the keyword re-cased too) *)
Definition uw : node := parse_text "proc p
 var x : int4
 var y : int4
 x = 1
endproc"%string.
Definition uw' : node := parse_text "PROC p
 Var x : INT4
 var y : int4
 X = 1
EndProc"%string.

(* the analyser before e5fd419 keyed the map by the spelling itself *)
Theorem unusedvar_exact_key_refuted : exists f f',
  node_sim f f' /\ decl_exact f f' /\ dot_ok f = true /\ analyze (fun s => s) f <> analyze (fun s => s) f'.
Proof.
  exists uw, uw'. split; [apply node_simb_sound; vm_compute; reflexivity|].
  split; [apply decl_exactb_sound; vm_compute; reflexivity|]. split; [vm_compute; reflexivity|].
  intro H. vm_compute in H. discriminate H.
Qed.

(* a re-cased DECLARATION: similar, the printed name changes its case, nothing else *)
Definition uw2 : node := parse_text "proc p
 var xy : int4
endproc"%string.
Definition uw2' : node := parse_text "proc p
 var XY : int4
endproc"%string.

Example unusedvar_decl_exact_needed :
  node_sim uw2 uw2' /\ dot_ok uw2 = true /\ analyze_today uw2 <> analyze_today uw2' /\
  Forall2 diag_sim (analyze_today uw2) (analyze_today uw2').
Proof.
  assert (A : node_sim uw2 uw2') by (apply node_simb_sound; vm_compute; reflexivity).
  assert (B : dot_ok uw2 = true) by (vm_compute; reflexivity).
  split; [exact A|]. split; [exact B|]. split; [intro H; vm_compute in H; discriminate H|].
  apply unusedvar_sim; assumption.
Qed.

(* non-vacuity: all hypotheses hold of two trees that really differ, the report is not empty *)
Example unusedvar_nonvacuous :
  node_sim uw uw' /\ decl_exact uw uw' /\ dot_ok uw = true /\ uw <> uw' /\
  analyze_today uw = analyze_today uw' /\ List.length (analyze_today uw) = 1%nat.
Proof.
  assert (A : node_sim uw uw') by (apply node_simb_sound; vm_compute; reflexivity).
  assert (B : decl_exact uw uw') by (apply decl_exactb_sound; vm_compute; reflexivity).
  assert (C : dot_ok uw = true) by (vm_compute; reflexivity).
  split; [exact A|]. split; [exact B|]. split; [exact C|]. split.
  - intro H. apply (f_equal spellings) in H. vm_compute in H. discriminate H.
  - split; [apply unusedvar_exact; assumption|vm_compute; reflexivity].
Qed.
