(* Text-level corollaries: the token- and tree-level theorems composed along
     text --lex--> tokens --parse_gold--> tree --outline--> document symbols
   for every text that is the print (Model/Unlex.v) of a list of printable lexemes whose tokens are a file
   of the grammar (FileRT.Decls).  Nothing new is proved about any stage; the point is that the chain has
   no gap: the lexer round trip (UnlexProofs), the file theorem (FileRT, with memoisation on) and the
   outline characterisation (OutlineProofs) compose on the SAME objects. *)
From GoldV Require Import Base Tokens Keywords Lexer AstKinds Tree Strings PComb Grammar RTComb ExprRT StmtRT DeclRT FileRT
                          Unlex UnlexProofs Outline OutlineProofs.

Lemma outline_of_text lx f ns : forallb printable lx = true -> Decls f (fst (lex (unlex lx))) ns ->
  map lx_obs (fst (lex (unlex lx))) = lx /\ snd (lex (unlex lx)) = [] /\
  exists root, fst (parse_gold (fst (lex (unlex lx)))) = Ok [] root /\
               cdiags (snd (parse_gold (fst (lex (unlex lx))))) = [] /\
               nchildren root = ns /\
               outline root = wrap (header ns) (filter_map entry ns) /\
               filter_map entry ns = map decl_sym (filter is_decl ns) /\
               (length (filter is_container (outline root)) <= 1)%nat.
Proof.
  intros Hp Hd. destruct (lex_unlex lx Hp) as (A & B & _).
  destruct (file_roundtrip_parse_gold f _ ns Hd) as (C & D).
  split; [exact A|]. split; [exact B|]. exists (mk_root ns).
  split; [exact C|]. split; [exact D|]. split; [reflexivity|].
  split; [exact (outline_char (mk_root ns))|].
  split; [exact (proj1 (proj2 (proj2 (one_entry_per_declaration ns))))|].
  exact (proj1 (single_container (mk_root ns))).
Qed.
