(* Concrete trees of the REAL parser (tools/dump2coq.py) for the non-vacuity examples of the
   workspace-level answers (Proofs/WsTreeProofs.v): a child class, its parent class, a used module. *)
From GoldV Require Import Base SymTab Scoping Tokens Lexer AstKinds Tree Annot AnnotProofs DefTree DefTreeProofs WsTree WsTreeProofs.

(* real parser, text: 'class aChild (aParent)\nuses aLib\nfc : int4\nproc Run(p : int4)\n var l : int4\n l = p + fc + fp + cLib\n self.fp = l\n self.Base\nendproc\nproc Base\nendproc\n' *)
Definition wsx_child : node :=
  Node KAstRoot [] 0 (mkRange (mkPos 0 0) (mkPos 0 0)) [] [
    Node KAstClass [97;67;104;105;108;100] 0 (mkRange (mkPos 0 0) (mkPos 0 22)) [(1, AT (mkTok 6 (mkRange (mkPos 0 6) (mkPos 0 12)) TIdentifier [97;67;104;105;108;100])); (2, AL [(mkTok 14 (mkRange (mkPos 0 14) (mkPos 0 21)) TIdentifier [97;80;97;114;101;110;116])])] [];
    Node KAstUses [117;115;101;115] 23 (mkRange (mkPos 1 0) (mkPos 1 9)) [(3, AL [(mkTok 28 (mkRange (mkPos 1 5) (mkPos 1 9)) TIdentifier [97;76;105;98])])] [];
    Node KAstGlobalVariableDeclaration [102;99] 33 (mkRange (mkPos 2 0) (mkPos 2 9)) [(1, AT (mkTok 33 (mkRange (mkPos 2 0) (mkPos 2 2)) TIdentifier [102;99])); (6, AN 0)] [
      Node KAstTypeBasic [105;110;116;52] 38 (mkRange (mkPos 2 5) (mkPos 2 9)) [(0, AT (mkTok 38 (mkRange (mkPos 2 5) (mkPos 2 9)) TIdentifier [105;110;116;52]))] []];
    Node KAstProcedure [82;117;110] 43 (mkRange (mkPos 3 0) (mkPos 8 7)) [(5, AL [(mkTok 124 (mkRange (mkPos 8 0) (mkPos 8 7)) TEndProc [101;110;100;112;114;111;99])]); (6, AN 0)] [
      Node KAstTerminal [82;117;110] 48 (mkRange (mkPos 3 5) (mkPos 3 8)) [(0, AT (mkTok 48 (mkRange (mkPos 3 5) (mkPos 3 8)) TIdentifier [82;117;110]))] [];
      Node KAstParameterDeclarationList [112;97;114;97;109;95;100;101;99;108;115] 51 (mkRange (mkPos 3 8) (mkPos 3 18)) [] [
        Node KAstParameterDeclaration [112] 52 (mkRange (mkPos 3 9) (mkPos 3 17)) [(1, AT (mkTok 52 (mkRange (mkPos 3 9) (mkPos 3 10)) TIdentifier [112])); (7, AL [])] [
          Node KAstTypeBasic [105;110;116;52] 56 (mkRange (mkPos 3 13) (mkPos 3 17)) [(0, AT (mkTok 56 (mkRange (mkPos 3 13) (mkPos 3 17)) TIdentifier [105;110;116;52]))] []]];
      Node KAstMethodBody [109;101;116;104;111;100;95;98;111;100;121] 63 (mkRange (mkPos 4 1) (mkPos 7 10)) [] [
        Node KAstLocalVariableDeclaration [108] 63 (mkRange (mkPos 4 1) (mkPos 4 13)) [(1, AT (mkTok 67 (mkRange (mkPos 4 5) (mkPos 4 6)) TIdentifier [108]))] [
          Node KAstTypeBasic [105;110;116;52] 71 (mkRange (mkPos 4 9) (mkPos 4 13)) [(0, AT (mkTok 71 (mkRange (mkPos 4 9) (mkPos 4 13)) TIdentifier [105;110;116;52]))] []];
        Node KAstBinaryOp [61] 77 (mkRange (mkPos 5 1) (mkPos 5 23)) [(4, AT (mkTok 79 (mkRange (mkPos 5 3) (mkPos 5 4)) TEquals [61]))] [
          Node KAstTerminal [108] 77 (mkRange (mkPos 5 1) (mkPos 5 2)) [(0, AT (mkTok 77 (mkRange (mkPos 5 1) (mkPos 5 2)) TIdentifier [108]))] [];
          Node KAstBinaryOp [43] 81 (mkRange (mkPos 5 5) (mkPos 5 23)) [(4, AT (mkTok 93 (mkRange (mkPos 5 17) (mkPos 5 18)) TPlus [43]))] [
            Node KAstBinaryOp [43] 81 (mkRange (mkPos 5 5) (mkPos 5 16)) [(4, AT (mkTok 88 (mkRange (mkPos 5 12) (mkPos 5 13)) TPlus [43]))] [
              Node KAstBinaryOp [43] 81 (mkRange (mkPos 5 5) (mkPos 5 11)) [(4, AT (mkTok 83 (mkRange (mkPos 5 7) (mkPos 5 8)) TPlus [43]))] [
                Node KAstTerminal [112] 81 (mkRange (mkPos 5 5) (mkPos 5 6)) [(0, AT (mkTok 81 (mkRange (mkPos 5 5) (mkPos 5 6)) TIdentifier [112]))] [];
                Node KAstTerminal [102;99] 85 (mkRange (mkPos 5 9) (mkPos 5 11)) [(0, AT (mkTok 85 (mkRange (mkPos 5 9) (mkPos 5 11)) TIdentifier [102;99]))] []];
              Node KAstTerminal [102;112] 90 (mkRange (mkPos 5 14) (mkPos 5 16)) [(0, AT (mkTok 90 (mkRange (mkPos 5 14) (mkPos 5 16)) TIdentifier [102;112]))] []];
            Node KAstTerminal [99;76;105;98] 95 (mkRange (mkPos 5 19) (mkPos 5 23)) [(0, AT (mkTok 95 (mkRange (mkPos 5 19) (mkPos 5 23)) TIdentifier [99;76;105;98]))] []]];
        Node KAstBinaryOp [61] 101 (mkRange (mkPos 6 1) (mkPos 6 12)) [(4, AT (mkTok 109 (mkRange (mkPos 6 9) (mkPos 6 10)) TEquals [61]))] [
          Node KAstBinaryOp [46] 101 (mkRange (mkPos 6 1) (mkPos 6 8)) [(4, AT (mkTok 105 (mkRange (mkPos 6 5) (mkPos 6 6)) TDot [46]))] [
            Node KAstTerminal [115;101;108;102] 101 (mkRange (mkPos 6 1) (mkPos 6 5)) [(0, AT (mkTok 101 (mkRange (mkPos 6 1) (mkPos 6 5)) TIdentifier [115;101;108;102]))] [];
            Node KAstTerminal [102;112] 106 (mkRange (mkPos 6 6) (mkPos 6 8)) [(0, AT (mkTok 106 (mkRange (mkPos 6 6) (mkPos 6 8)) TIdentifier [102;112]))] []];
          Node KAstTerminal [108] 111 (mkRange (mkPos 6 11) (mkPos 6 12)) [(0, AT (mkTok 111 (mkRange (mkPos 6 11) (mkPos 6 12)) TIdentifier [108]))] []];
        Node KAstBinaryOp [46] 114 (mkRange (mkPos 7 1) (mkPos 7 10)) [(4, AT (mkTok 118 (mkRange (mkPos 7 5) (mkPos 7 6)) TDot [46]))] [
          Node KAstTerminal [115;101;108;102] 114 (mkRange (mkPos 7 1) (mkPos 7 5)) [(0, AT (mkTok 114 (mkRange (mkPos 7 1) (mkPos 7 5)) TIdentifier [115;101;108;102]))] [];
          Node KAstTerminal [66;97;115;101] 119 (mkRange (mkPos 7 6) (mkPos 7 10)) [(0, AT (mkTok 119 (mkRange (mkPos 7 6) (mkPos 7 10)) TIdentifier [66;97;115;101]))] []]]];
    Node KAstProcedure [66;97;115;101] 132 (mkRange (mkPos 9 0) (mkPos 10 7)) [(5, AL [(mkTok 142 (mkRange (mkPos 10 0) (mkPos 10 7)) TEndProc [101;110;100;112;114;111;99])]); (6, AN 0)] [
      Node KAstTerminal [66;97;115;101] 137 (mkRange (mkPos 9 5) (mkPos 9 9)) [(0, AT (mkTok 137 (mkRange (mkPos 9 5) (mkPos 9 9)) TIdentifier [66;97;115;101]))] [];
      Node KAstMethodBody [109;101;116;104;111;100;95;98;111;100;121] 137 (mkRange (mkPos 9 5) (mkPos 9 9)) [] []]].

(* real parser, text: 'class aParent\nconst cP = 2\nfp : int4\nproc Base\n fp = 1\nendproc\n' *)
Definition wsx_parent : node :=
  Node KAstRoot [] 0 (mkRange (mkPos 0 0) (mkPos 0 0)) [] [
    Node KAstClass [97;80;97;114;101;110;116] 0 (mkRange (mkPos 0 0) (mkPos 0 13)) [(1, AT (mkTok 6 (mkRange (mkPos 0 6) (mkPos 0 13)) TIdentifier [97;80;97;114;101;110;116])); (2, AL [])] [];
    Node KAstConstantDeclaration [99;80] 14 (mkRange (mkPos 1 0) (mkPos 1 12)) [(1, AT (mkTok 20 (mkRange (mkPos 1 6) (mkPos 1 8)) TIdentifier [99;80])); (6, AN 0); (7, AL [(mkTok 25 (mkRange (mkPos 1 11) (mkPos 1 12)) TNumericLiteral [50])])] [];
    Node KAstGlobalVariableDeclaration [102;112] 27 (mkRange (mkPos 2 0) (mkPos 2 9)) [(1, AT (mkTok 27 (mkRange (mkPos 2 0) (mkPos 2 2)) TIdentifier [102;112])); (6, AN 0)] [
      Node KAstTypeBasic [105;110;116;52] 32 (mkRange (mkPos 2 5) (mkPos 2 9)) [(0, AT (mkTok 32 (mkRange (mkPos 2 5) (mkPos 2 9)) TIdentifier [105;110;116;52]))] []];
    Node KAstProcedure [66;97;115;101] 37 (mkRange (mkPos 3 0) (mkPos 5 7)) [(5, AL [(mkTok 55 (mkRange (mkPos 5 0) (mkPos 5 7)) TEndProc [101;110;100;112;114;111;99])]); (6, AN 0)] [
      Node KAstTerminal [66;97;115;101] 42 (mkRange (mkPos 3 5) (mkPos 3 9)) [(0, AT (mkTok 42 (mkRange (mkPos 3 5) (mkPos 3 9)) TIdentifier [66;97;115;101]))] [];
      Node KAstMethodBody [109;101;116;104;111;100;95;98;111;100;121] 48 (mkRange (mkPos 4 1) (mkPos 4 7)) [] [
        Node KAstBinaryOp [61] 48 (mkRange (mkPos 4 1) (mkPos 4 7)) [(4, AT (mkTok 51 (mkRange (mkPos 4 4) (mkPos 4 5)) TEquals [61]))] [
          Node KAstTerminal [102;112] 48 (mkRange (mkPos 4 1) (mkPos 4 3)) [(0, AT (mkTok 48 (mkRange (mkPos 4 1) (mkPos 4 3)) TIdentifier [102;112]))] [];
          Node KAstTerminal [49] 53 (mkRange (mkPos 4 6) (mkPos 4 7)) [(0, AT (mkTok 53 (mkRange (mkPos 4 6) (mkPos 4 7)) TNumericLiteral [49]))] []]]]].

(* real parser, text: 'module aLib\nconst cLib = 1\n' *)
Definition wsx_lib : node :=
  Node KAstRoot [] 0 (mkRange (mkPos 0 0) (mkPos 0 0)) [] [
    Node KAstModule [97;76;105;98] 0 (mkRange (mkPos 0 0) (mkPos 0 11)) [(1, AT (mkTok 7 (mkRange (mkPos 0 7) (mkPos 0 11)) TIdentifier [97;76;105;98]))] [];
    Node KAstConstantDeclaration [99;76;105;98] 12 (mkRange (mkPos 1 0) (mkPos 1 14)) [(1, AT (mkTok 18 (mkRange (mkPos 1 6) (mkPos 1 10)) TIdentifier [99;76;105;98])); (6, AN 0); (7, AL [(mkTok 25 (mkRange (mkPos 1 13) (mkPos 1 14)) TNumericLiteral [49])])] []].

(* real parser, text: 'class aUser\nproc Go(q : aChild)\n q.fc = 1\n aLib.cLib\nendproc\n' *)
Definition wsx_user : node :=
  Node KAstRoot [] 0 (mkRange (mkPos 0 0) (mkPos 0 0)) [] [
    Node KAstClass [97;85;115;101;114] 0 (mkRange (mkPos 0 0) (mkPos 0 11)) [(1, AT (mkTok 6 (mkRange (mkPos 0 6) (mkPos 0 11)) TIdentifier [97;85;115;101;114])); (2, AL [])] [];
    Node KAstProcedure [71;111] 12 (mkRange (mkPos 1 0) (mkPos 4 7)) [(5, AL [(mkTok 53 (mkRange (mkPos 4 0) (mkPos 4 7)) TEndProc [101;110;100;112;114;111;99])]); (6, AN 0)] [
      Node KAstTerminal [71;111] 17 (mkRange (mkPos 1 5) (mkPos 1 7)) [(0, AT (mkTok 17 (mkRange (mkPos 1 5) (mkPos 1 7)) TIdentifier [71;111]))] [];
      Node KAstParameterDeclarationList [112;97;114;97;109;95;100;101;99;108;115] 19 (mkRange (mkPos 1 7) (mkPos 1 19)) [] [
        Node KAstParameterDeclaration [113] 20 (mkRange (mkPos 1 8) (mkPos 1 18)) [(1, AT (mkTok 20 (mkRange (mkPos 1 8) (mkPos 1 9)) TIdentifier [113])); (7, AL [])] [
          Node KAstTypeBasic [97;67;104;105;108;100] 24 (mkRange (mkPos 1 12) (mkPos 1 18)) [(0, AT (mkTok 24 (mkRange (mkPos 1 12) (mkPos 1 18)) TIdentifier [97;67;104;105;108;100]))] []]];
      Node KAstMethodBody [109;101;116;104;111;100;95;98;111;100;121] 33 (mkRange (mkPos 2 1) (mkPos 3 10)) [] [
        Node KAstBinaryOp [61] 33 (mkRange (mkPos 2 1) (mkPos 2 9)) [(4, AT (mkTok 38 (mkRange (mkPos 2 6) (mkPos 2 7)) TEquals [61]))] [
          Node KAstBinaryOp [46] 33 (mkRange (mkPos 2 1) (mkPos 2 5)) [(4, AT (mkTok 34 (mkRange (mkPos 2 2) (mkPos 2 3)) TDot [46]))] [
            Node KAstTerminal [113] 33 (mkRange (mkPos 2 1) (mkPos 2 2)) [(0, AT (mkTok 33 (mkRange (mkPos 2 1) (mkPos 2 2)) TIdentifier [113]))] [];
            Node KAstTerminal [102;99] 35 (mkRange (mkPos 2 3) (mkPos 2 5)) [(0, AT (mkTok 35 (mkRange (mkPos 2 3) (mkPos 2 5)) TIdentifier [102;99]))] []];
          Node KAstTerminal [49] 40 (mkRange (mkPos 2 8) (mkPos 2 9)) [(0, AT (mkTok 40 (mkRange (mkPos 2 8) (mkPos 2 9)) TNumericLiteral [49]))] []];
        Node KAstBinaryOp [46] 43 (mkRange (mkPos 3 1) (mkPos 3 10)) [(4, AT (mkTok 47 (mkRange (mkPos 3 5) (mkPos 3 6)) TDot [46]))] [
          Node KAstTerminal [97;76;105;98] 43 (mkRange (mkPos 3 1) (mkPos 3 5)) [(0, AT (mkTok 43 (mkRange (mkPos 3 1) (mkPos 3 5)) TIdentifier [97;76;105;98]))] [];
          Node KAstTerminal [99;76;105;98] 48 (mkRange (mkPos 3 6) (mkPos 3 10)) [(0, AT (mkTok 48 (mkRange (mkPos 3 6) (mkPos 3 10)) TIdentifier [99;76;105;98]))] []]]]].


Definition wx_aChild : str := [97;67;104;105;108;100].
Definition wx_aParent : str := [97;80;97;114;101;110;116].
Definition wx_aLib : str := [97;76;105;98].
Definition wx_Run : str := [82;117;110].
Definition wx_fp : str := [102;112].
Definition wx_cLib : str := [99;76;105;98].
Definition wx_Base : str := [66;97;115;101].
Definition wrg (a b c d : N) : range := mkRange (mkPos a b) (mkPos c d).

(* aChild.god, aParent.god, aLib.god *)
Definition wsx : wst := [(wx_aChild, wsx_child); (wx_aParent, wsx_parent); (wx_aLib, wsx_lib)].

(* the same workspace with the parent class closing a cycle: class aParent (aChild) *)
Definition wsx_parent_cyc : node :=
  match wsx_parent with
  | Node k i r g a (Node hk hi hr hg ha hc :: rest) =>
      Node k i r g a (Node hk hi hr hg [(1, AT (mkTok 6 (wrg 0 6 0 13) TIdentifier wx_aParent));
                                        (2, AL [mkTok 15 (wrg 0 15 0 21) TIdentifier wx_aChild])] hc :: rest)
  | n => n
  end.
Definition wsx_cyc : wst := [(wx_aChild, wsx_child); (wx_aParent, wsx_parent_cyc); (wx_aLib, wsx_lib)].

Lemma wsx_facts :
  ws_okb wsx = true /\ ws_acyclicb wsx = true /\ distinct_stems wsx = true /\
  lineage_t wsx 0 = Ans (false, [0; 1]%nat) /\
  (* `fp` in aChild.Run: the field of the PARENT class, in aParent.god *)
  wdefinition wsx 0 (mkPos 5 14) = Ans [(wx_aParent, wrg 2 0 2 2, wrg 2 0 2 9)] /\
  (* `cLib`: the constant of the USED module, in aLib.god *)
  wdefinition wsx 0 (mkPos 5 19) = Ans [(wx_aLib, wrg 1 6 1 10, wrg 1 0 1 14)] /\
  (* `self.fp`: the parent's field *)
  wdefinition wsx 0 (mkPos 6 6) = Ans [(wx_aParent, wrg 2 0 2 2, wrg 2 0 2 9)] /\
  (* `self.Base`: the own procedure and the parent's, nearest first *)
  wdefinition wsx 0 (mkPos 7 6) = Ans [(wx_aChild, wrg 9 5 9 9, wrg 9 0 10 7); (wx_aParent, wrg 3 5 3 9, wrg 3 0 5 7)] /\
  (* the parent class named in the header: the class symbol of aParent.god *)
  wdefinition wsx 0 (mkPos 0 14) = Ans [(wx_aParent, wrg 0 6 0 13, wrg 0 0 0 13)] /\
  (* completion in the body: parameter, local, the parent's constant; after `self.`: own and inherited members *)
  wcompletion wsx 0 (mkPos 5 1) = Ans [[112]; [108]; [99;80]] /\
  wcompletion wsx 0 (mkPos 6 6) = Ans [[102;99]; wx_Run; wx_Base; wx_fp] /\
  (* the abstract model on map entity_of_tree: the same declarations *)
  resolve_plain (absws wsx) wx_aChild (Some wx_Run) wx_fp = Some (wx_aParent, 2) /\
  resolve_plain (absws wsx) wx_aChild (Some wx_Run) wx_cLib = Some (wx_aLib, 1) /\
  definition_member (absws wsx) wx_aChild (Some wx_Run) wx_aChild wx_Base = [(wx_aChild, 3); (wx_aParent, 3)] /\
  complete_plain (absws wsx) wx_aChild (Some wx_Run) = [[112]; [108]; [99;80]] /\
  completion_member (absws wsx) wx_aChild (Some wx_Run) wx_aChild = [[102;99]; wx_Run; wx_Base; wx_fp].
Proof. vm_compute. repeat split; reflexivity. Qed.

(* the cycle guard: aChild (aParent), aParent (aChild).  A request in aChild: aParent's table is linked to
   aChild's (still parent-less) table, aChild then finds its own table reachable and stays parent-less:
   the parent's field is NOT visible from aChild (likewise a request in aParent: the requested document
   is the one that stays parent-less).  Scoping.lineage walks the cycle until its fuel ends: the
   abstract workspace is not acyclic, and the refinement theorems do not apply. *)
Lemma wsx_cyc_facts :
  ws_okb wsx_cyc = true /\ ws_acyclicb wsx_cyc = false /\
  lineage_t wsx_cyc 0 = Ans (true, [0]%nat) /\ lineage_t wsx_cyc 1 = Ans (true, [1]%nat) /\
  wdefinition wsx_cyc 0 (mkPos 5 14) = Ans [] /\
  wdefinition wsx_cyc 0 (mkPos 5 9) = Ans [(wx_aChild, wrg 2 0 2 2, wrg 2 0 2 9)] /\
  length (lineage (absws wsx_cyc) wx_aChild) = 3%nat.
Proof. vm_compute. repeat split; reflexivity. Qed.

(* a fourth document whose method has a parameter of class type: `q.fc` and `aLib.cLib` *)
Definition wx_aUser : str := [97;85;115;101;114].
Definition wsx2 : wst := wsx ++ [(wx_aUser, wsx_user)].

Lemma wsx2_facts :
  ws_okb wsx2 = true /\ ws_acyclicb wsx2 = true /\ distinct_stems wsx2 = true /\
  (* `q.fc`, q : aChild -> the field of aChild, in aChild.god; `q.fp` would be the inherited one *)
  wdefinition wsx2 3 (mkPos 2 3) = Ans [(wx_aChild, wrg 2 0 2 2, wrg 2 0 2 9)] /\
  wcompletion wsx2 3 (mkPos 2 3) = Ans [[102;99]; wx_Run; wx_Base; wx_fp] /\
  (* `aLib.cLib`: the constant of the module named before the dot *)
  wdefinition wsx2 3 (mkPos 3 6) = Ans [(wx_aLib, wrg 1 6 1 10, wrg 1 0 1 14)] /\
  definition_member (absws wsx2) wx_aUser (Some [71;111]) wx_aChild [102;99] = [(wx_aChild, 1)] /\
  completion_member (absws wsx2) wx_aUser (Some [71;111]) wx_aChild = [[102;99]; wx_Run; wx_Base; wx_fp].
Proof. vm_compute. repeat split; reflexivity. Qed.

(* the cycle witness after the cut of the document that closes the cycle seen from aChild (document 0) *)
From GoldV Require Import WsTreeTerm WsTreeCut.
Lemma wsx_cyc_cut_facts :
  lineage_t wsx_cyc 0 = Ans (true, [0]%nat) /\
  ws_acyclicb (cut_ws wsx_cyc 0) = true /\
  lineage_t (cut_ws wsx_cyc 0) 0 = Ans (false, [0]%nat) /\
  lineage_t (cut_ws wsx_cyc 0) 1 = Ans (false, [1; 0]%nat) /\
  lineage3 wsx_cyc 0 = WAns true [0]%nat /\
  wdefinition wsx_cyc 0 (mkPos 5 9) = wdefinition (cut_ws wsx_cyc 0) 0 (mkPos 5 9) /\
  wdefinition wsx_cyc 0 (mkPos 5 14) = wdefinition (cut_ws wsx_cyc 0) 0 (mkPos 5 14).
Proof. vm_compute. repeat split; reflexivity. Qed.
