(* C10 / C11 (and C17 at the semantic layer): the scoping model is invariant under re-casing of
   the REFERENCES stored inside a workspace.
   ws_sim ws ws': the same entities in the same order; every DECLARED name (entity, member,
   method, parameter, local), every kind and tag exactly equal; every reference -- parent class,
   `uses` list, declared type name of a member / parameter / local (plain, refto, listof) -- equal
   ignoring ASCII letter case.  No well-formedness hypothesis is needed (no forest, no unique names):
   both workspaces take the same look-up steps. *)
From GoldV Require Import Base SymTab SymTabProofs Scoping ScopingProofs.

(* ---------- the relation ---------- *)

Definition ci (a b : str) : Prop := upper a = upper b.

Definition opt_ci (a b : option str) : Prop :=
  match a, b with
  | None, None => True
  | Some x, Some y => ci x y
  | _, _ => False
  end.

Definition tyref_sim (t t' : tyref) : Prop :=
  match t, t' with
  | TNone, TNone => True
  | TName a, TName b => ci a b
  | TRefTo a, TRefTo b => ci a b
  | TListOf a, TListOf b => ci a b
  | _, _ => False
  end.

Definition member_sim (a b : member) : Prop :=
  m_kind a = m_kind b /\ m_name a = m_name b /\ m_tag a = m_tag b /\ tyref_sim (m_type a) (m_type b).

Definition var_sim (a b : var) : Prop :=
  v_name a = v_name b /\ v_tag a = v_tag b /\ tyref_sim (v_type a) (v_type b).

Definition method_sim (a b : method) : Prop :=
  me_name a = me_name b /\ Forall2 var_sim (me_params a) (me_params b) /\
  Forall2 var_sim (me_locals a) (me_locals b).

Definition entity_sim (a b : entity) : Prop :=
  e_name a = e_name b /\ e_kind a = e_kind b /\ opt_ci (e_parent a) (e_parent b) /\
  Forall2 ci (e_uses a) (e_uses b) /\ Forall2 member_sim (e_members a) (e_members b) /\
  Forall2 method_sim (e_methods a) (e_methods b).

Definition ws_sim (ws ws' : workspace) : Prop := Forall2 entity_sim ws ws'.

(* static types: the same constructor, the class / module name up to letter case *)
Definition sty_sim (t t' : sty) : Prop :=
  match t, t' with
  | SClass a, SClass b => ci a b
  | SModule a, SModule b => ci a b
  | _, _ => False
  end.

Definition osty_sim (a b : option sty) : Prop :=
  match a, b with
  | None, None => True
  | Some t, Some t' => sty_sim t t'
  | _, _ => False
  end.

Lemma ci_eqb_ci a b : ci a b -> ci_eqb a b = true.
Proof. intro H. apply str_eqb_eq. exact H. Qed.

Lemma ci_eqb_left a a' b : ci a a' -> ci_eqb a b = ci_eqb a' b.
Proof. intro H. unfold ci_eqb. rewrite H. reflexivity. Qed.

Lemma ci_eqb_right a b b' : ci b b' -> ci_eqb a b = ci_eqb a b'.
Proof. intro H. unfold ci_eqb. rewrite H. reflexivity. Qed.

Lemma Forall2_refl {A} (R : A -> A -> Prop) l : (forall x, R x x) -> Forall2 R l l.
Proof. intro H. induction l; constructor; auto. Qed.

Lemma tyref_sim_refl t : tyref_sim t t.
Proof. destruct t; simpl; unfold ci; auto. Qed.

Lemma ws_sim_refl ws : ws_sim ws ws.
Proof.
  apply Forall2_refl. intro e. unfold entity_sim. repeat split.
  - destruct (e_parent e); simpl; unfold ci; auto.
  - apply Forall2_refl. reflexivity.
  - apply Forall2_refl. intro m. unfold member_sim. repeat split. apply tyref_sim_refl.
  - apply Forall2_refl. intro me. unfold method_sim. repeat split;
      apply Forall2_refl; intro v; unfold var_sim; repeat split; apply tyref_sim_refl.
Qed.

(* ---------- the tables are the same tables ---------- *)

Lemma fold_ins_member_sim ms ms' s : Forall2 member_sim ms ms' -> fold_left ins_member ms s = fold_left ins_member ms' s.
Proof.
  intro H. revert s. induction H as [|a b l l' (Hk & Hn & Ht & _) _ IH]; intro s; simpl; [reflexivity|].
  replace (ins_member s b) with (ins_member s a); [apply IH|].
  unfold ins_member, kind_of_member. rewrite Hk, Hn, Ht. reflexivity.
Qed.

Lemma fold_ins_var_sim vs vs' s : Forall2 var_sim vs vs' -> fold_left ins_var vs s = fold_left ins_var vs' s.
Proof.
  intro H. revert s. induction H as [|a b l l' (Hn & Ht & _) _ IH]; intro s; simpl; [reflexivity|].
  replace (ins_var s b) with (ins_var s a); [apply IH|].
  unfold ins_var. rewrite Hn, Ht. reflexivity.
Qed.

Lemma header_table_sim e e' : entity_sim e e' -> header_table e = header_table e'.
Proof. intros (Hn & Hk & _). unfold header_table. rewrite Hn, Hk. reflexivity. Qed.

Lemma table_of_sim e e' ms ms' :
  entity_sim e e' -> Forall2 member_sim ms ms' -> table_of e ms = table_of e' ms'.
Proof.
  intros He Hm. unfold table_of. rewrite (header_table_sim e e' He). apply fold_ins_member_sim. exact Hm.
Qed.

Lemma root_table_sim e e' : entity_sim e e' -> root_table e = root_table e'.
Proof. intro H. apply table_of_sim; [exact H|]. apply H. Qed.

Lemma method_table_sim e e' me me' :
  entity_sim e e' -> method_sim me me' -> method_table e me = method_table e' me'.
Proof.
  intros (Hn & _) (_ & Hp & Hl). unfold method_table. rewrite Hn.
  apply fold_ins_var_sim. apply Forall2_app; assumption.
Qed.

Lemma map_root_table_sim l l' : Forall2 entity_sim l l' -> map root_table l = map root_table l'.
Proof. induction 1 as [|e e' l l' He _ IH]; simpl; [reflexivity|]. rewrite (root_table_sim e e' He), IH. reflexivity. Qed.

(* ---------- look-up of entities and methods ---------- *)

Definition oentity_sim (a b : option entity) : Prop :=
  match a, b with
  | None, None => True
  | Some e, Some e' => entity_sim e e'
  | _, _ => False
  end.

Lemma find_entity_sim ws ws' n n' : ws_sim ws ws' -> ci n n' ->
  oentity_sim (find_entity ws n) (find_entity ws' n').
Proof.
  intros H Hn. unfold find_entity. induction H as [|e e' l l' He _ IH]; simpl; [exact I|].
  replace (ci_eqb (e_name e') n') with (ci_eqb (e_name e) n).
  - destruct (ci_eqb (e_name e) n); [exact He|exact IH].
  - rewrite (proj1 He). apply ci_eqb_right. exact Hn.
Qed.

Lemma find_method_sim e e' mn :
  entity_sim e e' ->
  match find_method e mn, find_method e' mn with
  | None, None => True
  | Some me, Some me' => method_sim me me'
  | _, _ => False
  end.
Proof.
  intros (_ & _ & _ & _ & _ & H). unfold find_method. induction H as [|a b l l' Hab _ IH]; simpl; [exact I|].
  rewrite <- (proj1 Hab). destruct (ci_eqb (me_name a) mn); [exact Hab|exact IH].
Qed.

Lemma ws_sim_length ws ws' : ws_sim ws ws' -> length ws = length ws'.
Proof. induction 1; simpl; auto. Qed.

Lemma ancestors_sim fuel ws ws' n n' : ws_sim ws ws' -> ci n n' ->
  Forall2 entity_sim (ancestors fuel ws n) (ancestors fuel ws' n').
Proof.
  intro H. revert n n'. induction fuel as [|f IH]; intros n n' Hn; simpl; [constructor|].
  pose proof (find_entity_sim ws ws' n n' H Hn) as Hf.
  destruct (find_entity ws n) as [e|], (find_entity ws' n') as [e'|]; try contradiction; [|constructor].
  constructor; [exact Hf|].
  destruct Hf as (Hname & _ & Hp & _).
  destruct (e_parent e) as [p|], (e_parent e') as [p'|]; try contradiction; [|constructor].
  simpl in Hp. rewrite <- Hname, (ci_eqb_left p p' (e_name e) Hp).
  destruct (ci_eqb p' (e_name e)); [constructor|]. apply IH. exact Hp.
Qed.

Lemma lineage_sim ws ws' n n' : ws_sim ws ws' -> ci n n' -> Forall2 entity_sim (lineage ws n) (lineage ws' n').
Proof. intros H Hn. unfold lineage. rewrite <- (ws_sim_length ws ws' H). apply ancestors_sim; assumption. Qed.

(* ---------- the chains ---------- *)

Theorem class_chain_sim ws ws' d d' : ws_sim ws ws' -> ci d d' -> class_chain ws d = class_chain ws' d'.
Proof. intros H Hd. unfold class_chain. apply map_root_table_sim. apply lineage_sim; assumption. Qed.

Theorem scope_chain_sim ws ws' c c' m : ws_sim ws ws' -> ci c c' -> scope_chain ws c m = scope_chain ws' c' m.
Proof.
  intros H Hc. unfold scope_chain. rewrite (class_chain_sim ws ws' c c' H Hc).
  pose proof (find_entity_sim ws ws' c c' H Hc) as Hf.
  destruct (find_entity ws c) as [e|], (find_entity ws' c') as [e'|]; try contradiction; [|reflexivity].
  destruct m as [mn|]; [|reflexivity].
  pose proof (find_method_sim e e' mn Hf) as Hm.
  destruct (find_method e mn) as [me|], (find_method e' mn) as [me'|]; try contradiction; [|reflexivity].
  rewrite (method_table_sim e e' me me' Hf Hm). reflexivity.
Qed.

Lemma uses_of_sim ws ws' c c' : ws_sim ws ws' -> ci c c' -> Forall2 ci (uses_of ws c) (uses_of ws' c').
Proof.
  intros H Hc. unfold uses_of. pose proof (find_entity_sim ws ws' c c' H Hc) as Hf.
  destruct (find_entity ws c) as [e|], (find_entity ws' c') as [e'|]; try contradiction; [|constructor].
  apply Hf.
Qed.

Lemma search_uses_sim ws ws' us us' id id' : ws_sim ws ws' -> Forall2 ci us us' -> ci id id' ->
  search_uses ws us id = search_uses ws' us' id'.
Proof.
  intros H Hu Hi. induction Hu as [|u u' l l' Huu _ IH]; simpl; [reflexivity|].
  pose proof (find_entity_sim ws ws' u u' H Huu) as Hf.
  rewrite <- (class_chain_sim ws ws' u u' H Huu), <- (search_wparent_ci _ id id' Hi), IH.
  destruct (find_entity ws u), (find_entity ws' u'); try contradiction; reflexivity.
Qed.

Lemma search_w_class_sim ws ws' c c' m b id id' : ws_sim ws ws' -> ci c c' -> ci id id' ->
  search_w_class ws c m b id = search_w_class ws' c' m b id'.
Proof.
  intros H Hc Hi. unfold search_w_class.
  rewrite <- (scope_chain_sim ws ws' c c' m H Hc), <- (search_wparent_ci _ id id' Hi).
  rewrite (search_uses_sim ws ws' _ _ id id' H (uses_of_sim ws ws' c c' H Hc) Hi). reflexivity.
Qed.

(* ---------- go-to-definition and completion on a given class ---------- *)

Theorem resolve_plain_sim ws ws' c m id : ws_sim ws ws' -> resolve_plain ws c m id = resolve_plain ws' c m id.
Proof. intro H. unfold resolve_plain. rewrite (search_w_class_sim ws ws' c c m true id id H eq_refl eq_refl). reflexivity. Qed.

Theorem resolve_member_sim ws ws' d d' id : ws_sim ws ws' -> ci d d' -> resolve_member ws d id = resolve_member ws' d' id.
Proof. intros H Hd. unfold resolve_member. rewrite (class_chain_sim ws ws' d d' H Hd). reflexivity. Qed.

Theorem definition_member_sim ws ws' c m d d' id : ws_sim ws ws' -> ci d d' ->
  definition_member ws c m d id = definition_member ws' c m d' id.
Proof.
  intros H Hd. unfold definition_member. rewrite !member_chain_class_chain, (class_chain_sim ws ws' d d' H Hd). reflexivity.
Qed.

Theorem definition_names_sim ws ws' c mn id : ws_sim ws ws' ->
  definition_method_name ws c mn = definition_method_name ws' c mn /\
  definition_member_name ws c id = definition_member_name ws' c id.
Proof.
  intro H. unfold definition_method_name, definition_member_name.
  rewrite (scope_chain_sim ws ws' c c (Some mn) H eq_refl), (class_chain_sim ws ws' c c H eq_refl). auto.
Qed.

Theorem completion_sim ws ws' c m d d' : ws_sim ws ws' -> ci d d' ->
  complete_after_dot ws d = complete_after_dot ws' d' /\
  completion_member ws c m d = completion_member ws' c m d' /\
  complete_plain ws c m = complete_plain ws' c m.
Proof.
  intros H Hd. rewrite !completion_member_spec. unfold complete_after_dot, complete_plain.
  rewrite (class_chain_sim ws ws' d d' H Hd), (scope_chain_sim ws ws' c c m H eq_refl). auto.
Qed.

(* ---------- eval types ---------- *)

(* the symbol -> eval type step shared by tyref_etype (inner) and sym_etype *)
Definition of_sym_with (rec : str -> option str -> tyref -> option sty) (ws : workspace) (m : option str)
  (r : option (str * sym)) : option sty :=
  match r with
  | None => None
  | Some (k, x) =>
      match skind_of x with
      | KClass => Some (SClass k)
      | KModule => Some (SModule k)
      | KConstant | KProc => None
      | KType | KField | KFunc =>
          match find_entity ws k with
          | None => None
          | Some e =>
              match member_by_tag e (dtag x) with
              | Some mem => rec k None (m_type mem)
              | None => None
              end
          end
      | KVariable =>
          match find_entity ws k, m with
          | Some e, Some mn =>
              match find_method e mn with
              | Some me =>
                  match var_by_tag me (dtag x) with
                  | Some v => rec k m (v_type v)
                  | None => None
                  end
              | None => None
              end
          | _, _ => None
          end
      end
  end.

Lemma tyref_etype_S f ws c m t :
  tyref_etype (S f) ws c m t =
  match t with
  | TNone => None
  | TListOf _ => Some (SClass s_list_of_instances)
  | TName s =>
      if is_native s then None
      else if indexed ws s then Some (SClass s)
      else of_sym_with (tyref_etype f ws) ws m (search_w_class ws c m true s)
  | TRefTo s =>
      if indexed ws s then Some (SClass s)
      else of_sym_with (tyref_etype f ws) ws m (search_w_class ws c m false s)
  end.
Proof. reflexivity. Qed.

Lemma sym_etype_of_sym fuel ws m r : sym_etype fuel ws m r = of_sym_with (tyref_etype fuel ws) ws m r.
Proof. reflexivity. Qed.

Lemma member_by_tag_sim e e' t : entity_sim e e' ->
  match member_by_tag e t, member_by_tag e' t with
  | None, None => True
  | Some a, Some b => member_sim a b
  | _, _ => False
  end.
Proof.
  intros (_ & _ & _ & _ & H & _). unfold member_by_tag. induction H as [|a b l l' Hab _ IH]; simpl; [exact I|].
  rewrite <- (proj1 (proj2 (proj2 Hab))). destruct (N.eqb (m_tag a) t); [exact Hab|exact IH].
Qed.

Lemma var_by_tag_sim me me' t : method_sim me me' ->
  match var_by_tag me t, var_by_tag me' t with
  | None, None => True
  | Some a, Some b => var_sim a b
  | _, _ => False
  end.
Proof.
  intros (_ & Hp & Hl). unfold var_by_tag. pose proof (Forall2_app Hp Hl) as H.
  induction H as [|a b l l' Hab _ IH]; simpl; [exact I|].
  rewrite <- (proj1 (proj2 Hab)). destruct (N.eqb (v_tag a) t); [exact Hab|exact IH].
Qed.

Lemma of_sym_sim rec rec' ws ws' m r :
  ws_sim ws ws' ->
  (forall k m t t', tyref_sim t t' -> osty_sim (rec k m t) (rec' k m t')) ->
  osty_sim (of_sym_with rec ws m r) (of_sym_with rec' ws' m r).
Proof.
  intros H Hrec. destruct r as [[k x]|]; [|exact I]. unfold of_sym_with.
  pose proof (find_entity_sim ws ws' k k H eq_refl) as Hf.
  destruct (skind_of x); simpl; try exact I; try reflexivity.
  1,2,3: (destruct (find_entity ws k) as [e|], (find_entity ws' k) as [e'|]; try contradiction; [|exact I];
          pose proof (member_by_tag_sim e e' (dtag x) Hf) as Hm;
          destruct (member_by_tag e (dtag x)) as [a|], (member_by_tag e' (dtag x)) as [b|]; try contradiction; [|exact I];
          apply Hrec; apply Hm).
  destruct (find_entity ws k) as [e|], (find_entity ws' k) as [e'|]; try contradiction; [|exact I].
  destruct m as [mn|]; [|exact I].
  pose proof (find_method_sim e e' mn Hf) as Hme.
  destruct (find_method e mn) as [me|], (find_method e' mn) as [me'|]; try contradiction; [|exact I].
  pose proof (var_by_tag_sim me me' (dtag x) Hme) as Hv.
  destruct (var_by_tag me (dtag x)) as [a|], (var_by_tag me' (dtag x)) as [b|]; try contradiction; [|exact I].
  apply Hrec. apply Hv.
Qed.

Lemma is_native_ci a b : ci a b -> is_native a = is_native b.
Proof. intro H. unfold is_native. rewrite H. reflexivity. Qed.

Lemma indexed_sim ws ws' a b : ws_sim ws ws' -> ci a b -> indexed ws a = indexed ws' b.
Proof.
  intros H Hab. unfold indexed. pose proof (find_entity_sim ws ws' a b H Hab) as Hf.
  destruct (find_entity ws a), (find_entity ws' b); try contradiction; reflexivity.
Qed.

(* declared types, aliases / refto / listof included *)
Theorem tyref_etype_sim fuel ws ws' : ws_sim ws ws' ->
  forall c m t t', tyref_sim t t' -> osty_sim (tyref_etype fuel ws c m t) (tyref_etype fuel ws' c m t').
Proof.
  intro H. induction fuel as [|f IH]; intros c m t t' Ht; [exact I|].
  rewrite !tyref_etype_S.
  destruct t as [|a|a|a], t' as [|b|b|b]; try contradiction; simpl in Ht.
  - exact I.
  - rewrite (is_native_ci a b Ht), (indexed_sim ws ws' a b H Ht).
    destruct (is_native b); [exact I|]. destruct (indexed ws' b); [exact Ht|].
    rewrite (search_w_class_sim ws ws' c c m true a b H eq_refl Ht). apply of_sym_sim; [exact H|exact IH].
  - rewrite (indexed_sim ws ws' a b H Ht). destruct (indexed ws' b); [exact Ht|].
    rewrite (search_w_class_sim ws ws' c c m false a b H eq_refl Ht). apply of_sym_sim; [exact H|exact IH].
  - simpl. reflexivity.
Qed.

Lemma sym_etype_sim fuel ws ws' m r : ws_sim ws ws' -> osty_sim (sym_etype fuel ws m r) (sym_etype fuel ws' m r).
Proof.
  intro H. rewrite !sym_etype_of_sym. apply of_sym_sim; [exact H|].
  intros k m0 t t' Ht. apply tyref_etype_sim; assumption.
Qed.

(* ---------- the tables while a body is annotated ---------- *)

Lemma members_upto_sim mn ms ms' : Forall2 member_sim ms ms' -> Forall2 member_sim (members_upto mn ms) (members_upto mn ms').
Proof.
  induction 1 as [|a b l l' Hab _ IH]; simpl; [constructor|].
  destruct Hab as (Hk & Hn & Hrest). rewrite <- Hk, <- Hn.
  assert (Hab : member_sim a b) by (split; [exact Hk|split; [exact Hn|exact Hrest]]).
  destruct (m_kind a); try (constructor; [exact Hab|exact IH]);
    (destruct (ci_eqb (m_name a) mn); constructor; [exact Hab|constructor|exact Hab|exact IH]).
Qed.

Lemma class_chain_during_sim ws ws' c m d d' : ws_sim ws ws' -> ci d d' ->
  class_chain_during ws c m d = class_chain_during ws' c m d'.
Proof.
  intros H Hd. unfold class_chain_during.
  rewrite <- (class_chain_sim ws ws' d d' H Hd), <- (ci_eqb_left d d' c Hd).
  pose proof (lineage_sim ws ws' d d' H Hd) as Hl.
  destruct Hl as [|e e' rest rest' He Hr]; [reflexivity|].
  destruct m as [mn|]; [|reflexivity].
  destruct (ci_eqb d c); [|reflexivity].
  rewrite (map_root_table_sim rest rest' Hr).
  rewrite (table_of_sim e e' _ _ He (members_upto_sim mn _ _ (proj1 (proj2 (proj2 (proj2 (proj2 He))))))). reflexivity.
Qed.

Lemma scope_chain_during_sim ws ws' c m : ws_sim ws ws' -> scope_chain_during ws c m = scope_chain_during ws' c m.
Proof.
  intro H. unfold scope_chain_during.
  rewrite (class_chain_sim ws ws' c c H eq_refl), (class_chain_during_sim ws ws' c m c c H eq_refl).
  pose proof (find_entity_sim ws ws' c c H eq_refl) as Hf.
  destruct (find_entity ws c) as [e|], (find_entity ws' c) as [e'|]; try contradiction; [|reflexivity].
  destruct m as [mn|]; [|reflexivity].
  pose proof (find_method_sim e e' mn Hf) as Hm.
  destruct (find_method e mn) as [me|], (find_method e' mn) as [me'|]; try contradiction; [|reflexivity].
  rewrite (method_table_sim e e' me me' Hf Hm). reflexivity.
Qed.

(* ---------- dotted operands ---------- *)

Lemma head_etype_sim ws ws' c m i : ws_sim ws ws' -> osty_sim (head_etype ws c m i) (head_etype ws' c m i).
Proof.
  intro H. unfold head_etype. rewrite <- (scope_chain_during_sim ws ws' c m H).
  destruct i as [n|n].
  - destruct (search_wparent (scope_chain_during ws c m) n) as [r|]; [apply sym_etype_sim; exact H|].
    pose proof (find_entity_sim ws ws' n n H eq_refl) as Hf.
    destruct (find_entity ws n), (find_entity ws' n); try contradiction; [|exact I].
    rewrite <- (class_chain_during_sim ws ws' c m n n H eq_refl). apply sym_etype_sim. exact H.
  - destruct (is_intrinsic n); [exact I|]. apply sym_etype_sim. exact H.
Qed.

(* the exact-spelling test of eval_right_hand_of_entity (`left type == for_class_or_module`) is
   immaterial since fix 945552f: both branches consult the table of that class *)
Lemma class_chain_during_ci ws c m d d' : ci d d' -> class_chain_during ws c m d = class_chain_during ws c m d'.
Proof. intro Hd. apply class_chain_during_sim; [apply ws_sim_refl|exact Hd]. Qed.

Theorem next_etype_normal ws c m left i :
  next_etype ws c m left i =
  match find_entity ws (sty_name left) with
  | Some _ => sym_etype etype_fuel ws None (search_wparent (class_chain_during ws c m (sty_name left)) (item_name i))
  | None => None
  end.
Proof.
  unfold next_etype.
  replace (match left with SClass s => s | SModule s => s end) with (sty_name left) by (destruct left; reflexivity).
  set (d := sty_name left).
  destruct (find_entity ws c) as [e|] eqn:Ec.
  - destruct (str_eqb d (e_name e)) eqn:Ed; [|reflexivity].
    apply str_eqb_eq in Ed. rewrite Ed.
    pose proof (find_entity_in ws c e Ec) as [_ Hci].
    rewrite (find_entity_ci ws (e_name e) c Hci), Ec.
    rewrite (class_chain_during_ci ws c m (e_name e) c); [reflexivity|].
    apply str_eqb_eq. exact Hci.
  - destruct (str_eqb d c) eqn:Ed; [|reflexivity].
    apply str_eqb_eq in Ed. rewrite Ed, Ec.
    unfold class_chain_during. rewrite (lineage_not_indexed ws c Ec). unfold class_chain.
    rewrite (lineage_not_indexed ws c Ec). reflexivity.
Qed.

Lemma next_etype_sim ws ws' c m t t' i : ws_sim ws ws' -> sty_sim t t' ->
  osty_sim (next_etype ws c m t i) (next_etype ws' c m t' i).
Proof.
  intros H Ht. rewrite !next_etype_normal.
  assert (Hd : ci (sty_name t) (sty_name t')) by (destruct t, t'; try contradiction; exact Ht).
  pose proof (find_entity_sim ws ws' _ _ H Hd) as Hf.
  rewrite (class_chain_during_sim ws ws' c m _ _ H Hd).
  destruct (find_entity ws (sty_name t)), (find_entity ws' (sty_name t')); try contradiction; [|exact I].
  apply sym_etype_sim. exact H.
Qed.

Lemma chain_etype_sim ws ws' c m l : ws_sim ws ws' ->
  forall a b, osty_sim a b -> osty_sim (chain_etype ws c m a l) (chain_etype ws' c m b l).
Proof.
  intro H. unfold chain_etype. induction l as [|i l IH]; intros a b Hab; simpl; [exact Hab|].
  apply IH. destruct a as [t|], b as [t'|]; try contradiction; [|exact I].
  apply next_etype_sim; assumption.
Qed.

Theorem static_class_sim ws ws' c m p : ws_sim ws ws' -> osty_sim (static_class ws c m p) (static_class ws' c m p).
Proof.
  intro H. unfold static_class. destruct p as [|i l]; [exact I|].
  apply chain_etype_sim; [exact H|]. apply head_etype_sim. exact H.
Qed.

Theorem dotted_sim ws ws' c m p id : ws_sim ws ws' ->
  definition_dotted ws c m p id = definition_dotted ws' c m p id /\
  completion_dotted ws c m p = completion_dotted ws' c m p.
Proof.
  intro H. unfold definition_dotted, completion_dotted.
  pose proof (static_class_sim ws ws' c m p H) as Hs.
  destruct (static_class ws c m p) as [t|], (static_class ws' c m p) as [t'|]; try contradiction; [|auto].
  assert (Hd : ci (sty_name t) (sty_name t')) by (destruct t, t'; try contradiction; exact Hs).
  split; [apply definition_member_sim; assumption|].
  apply (completion_sim ws ws' c m _ _ H Hd).
Qed.

(* every question of the correspondence engine is answered identically *)
Theorem answer_query_sim ws ws' q : ws_sim ws ws' -> answer_query ws q = answer_query ws' q.
Proof.
  intro H. destruct q as [c m id|c m p id|c mn|c id|c m p|c m]; simpl.
  - rewrite (resolve_plain_sim ws ws' c m id H). reflexivity.
  - rewrite (proj1 (dotted_sim ws ws' c m p id H)). reflexivity.
  - rewrite (proj1 (definition_names_sim ws ws' c mn mn H)). reflexivity.
  - rewrite (proj2 (definition_names_sim ws ws' c id id H)). reflexivity.
  - rewrite (proj2 (dotted_sim ws ws' c m p [] H)). reflexivity.
  - rewrite (proj2 (proj2 (completion_sim ws ws' c m c c H eq_refl))). reflexivity.
Qed.

(* ---------- the declarative rules are invariant as well ---------- *)

Lemma find_last_member_sim id ms ms' : Forall2 member_sim ms ms' ->
  option_map m_tag (find_last m_name id ms) = option_map m_tag (find_last m_name id ms').
Proof.
  intro H. unfold find_last.
  assert (Hr : Forall2 member_sim (rev ms) (rev ms')).
  { induction H; simpl; [constructor|]. apply Forall2_app; [assumption|]. constructor; [assumption|constructor]. }
  induction Hr as [|a b l l' Hab _ IH]; simpl; [reflexivity|].
  rewrite <- (proj1 (proj2 Hab)). destruct (ci_eqb (m_name a) id); [simpl; f_equal; apply Hab|exact IH].
Qed.

Lemma member_in_sim e e' id : entity_sim e e' -> member_in e id = member_in e' id.
Proof.
  intro H. unfold member_in. rewrite <- (proj1 H).
  pose proof (find_last_member_sim id _ _ (proj1 (proj2 (proj2 (proj2 (proj2 H)))))) as Hf.
  destruct (find_last m_name id (e_members e)), (find_last m_name id (e_members e')); simpl in *; try discriminate; [|reflexivity].
  inversion Hf. reflexivity.
Qed.

Theorem members_all_sim ws ws' d d' id : ws_sim ws ws' -> ci d d' -> members_all ws d id = members_all ws' d' id.
Proof.
  intros H Hd. unfold members_all. pose proof (lineage_sim ws ws' d d' H Hd) as Hl.
  induction Hl as [|e e' l l' He _ IH]; simpl; [reflexivity|].
  rewrite (member_in_sim e e' id He), IH. reflexivity.
Qed.
