(* The lexer is a left inverse of the printer Model/Unlex.v: for EVERY list of printable lexemes,
   lexing its printed text gives exactly those lexemes back (type and value), at the lx_offsets the
   printer put them, with no lexical error.  Induction over the lexeme list; one lemma per lexeme
   class of lex_step. *)
From GoldV Require Import Base Tokens Keywords Lexer Unlex LexerProofs.

(* ---------- small facts ---------- *)

Lemma tt_idx_eqb_eq a b : tt_idx_eqb a b = true <-> a = b.
Proof. exact (tt_eqb_eq a b). Qed.

Lemma span_app p a x b : forallb p a = true -> p x = false -> span p (a ++ x :: b) = (a, x :: b).
Proof.
  induction a as [|c a IH]; simpl; intros Ha Hx; [rewrite Hx; reflexivity|].
  apply andb_true_iff in Ha as [H1 H2]. rewrite H1, (IH H2 Hx). reflexivity.
Qed.

Lemma not_ws_tests c : is_ws c = false -> is_blank c = false /\ (c =? 10) = false /\ (c =? 13) = false.
Proof.
  unfold is_ws, is_blank. intro H.
  apply orb_false_iff in H as [H H13]. apply orb_false_iff in H as [H H10]. rewrite H. auto.
Qed.

Lemma word_start_char c : is_word_start c = true -> is_word_char c = true.
Proof.
  unfold is_word_start, is_word_char. intro H. apply orb_true_iff in H as [H|H]; rewrite H; [reflexivity|].
  rewrite orb_true_r. reflexivity.
Qed.

Lemma digit_num_char c : is_digit c = true -> is_num_char c = true.
Proof. unfold is_num_char. intros ->. reflexivity. Qed.

(* ---------- lex_step, one lemma per class of first character ---------- *)

Lemma lex_step_word off st c r : is_word_start c = true ->
  lex_step off st c r =
  (let '(w, rest) := span is_word_char (c :: r) in (ITok (create_token st off (classify w) w) w, st, rest)).
Proof.
  intro H. destruct (word_start_not_ws c H) as (Hws & _).
  destruct (not_ws_tests c Hws) as (Hb & H10 & H13).
  unfold lex_step. rewrite Hb, H10, H13, H. reflexivity.
Qed.

Lemma lex_step_num off st c r : is_word_start c = false -> is_digit c = true ->
  lex_step off st c r =
  (let '(w, rest) := span is_num_char (c :: r) in (ITok (create_token st off TNumericLiteral w) w, st, rest)).
Proof.
  intros Hw H. destruct (digit_not_ws c H) as (Hws & _).
  destruct (not_ws_tests c Hws) as (Hb & H10 & H13).
  unfold lex_step. rewrite Hb, H10, H13, Hw, H. reflexivity.
Qed.

Lemma lex_step_single off st c r ty : is_word_start c = false -> is_digit c = false -> single_op c = Some ty ->
  lex_step off st c r = (ITok (create_token st off ty [c]) [c], st, r).
Proof.
  intros Hw Hd H. destruct (single_op_facts c ty H) as (Hws & _).
  destruct (not_ws_tests c Hws) as (Hb & H10 & H13).
  unfold lex_step. rewrite Hb, H10, H13, Hw, Hd, H. reflexivity.
Qed.

Lemma lex_step_sq off st r : lex_step off st 39 r =
  (let '(v, rest, nl, n) := read_sq r (off + 1) in
   (ITok (create_token st off TStringLiteral v) (39 :: firstn (N.to_nat n) r),
    fold_left (fun s p => record_nl p s) nl st, rest)).
Proof. reflexivity. Qed.

Lemma lex_step_comment off st r : lex_step off st 59 r =
  (let '(v, rest) := span not_eol r in (ITok (create_token st off TComment v) (59 :: v), st, rest)).
Proof. reflexivity. Qed.

Lemma lex_step_pound off st x r : is_digit x = false ->
  lex_step off st 35 (x :: r) = (ITok (create_token st off TPound [35]) [35], st, x :: r).
Proof.
  intro H. change (lex_step off st 35 (x :: r)) with
    (let '(d, rest) := span is_digit (x :: r) in
     (ITok (create_token st off (match d with [] => TPound | _ => TStringLiteral end) (35 :: d)) (35 :: d), st, rest)).
  simpl span. rewrite H. reflexivity.
Qed.

Definition hd_opt (r : str) : option N := match r with x :: _ => Some x | [] => None end.

Lemma lex_step_dbl off st c r : c = 60 \/ c = 62 \/ c = 38 \/ c = 43 \/ c = 45 \/ c = 58 ->
  lex_step off st c r =
  match double_op c (hd_opt r) with
  | Some (ty, v, dbl) =>
      if dbl then (ITok (create_token st off ty v) v, st, tl r) else (ITok (create_token st off ty v) v, st, r)
  | None => (IErr (mkErr (create_range st off 1) c) [c], st, r)
  end.
Proof. intros [->|[->|[->|[->|[->| ->]]]]]; reflexivity. Qed.

(* ---------- the single-quoted reader on an escaped value ---------- *)

Lemma read_sq_esc v : forall off x rest, (x =? 39) = false ->
  exists nl, read_sq (esc v ++ 39 :: x :: rest) off = (v, x :: rest, nl, lenN (esc v) + 1).
Proof.
  induction v as [|c v IH]; intros off x rest Hx.
  - exists []. simpl. rewrite Hx. reflexivity.
  - simpl esc. destruct (c =? 39) eqn:E.
    + apply N.eqb_eq in E. subst c. destruct (IH (off + 2) x rest Hx) as [nl Hnl].
      exists nl. simpl app. simpl read_sq. rewrite Hnl.
      replace (lenN (39 :: 39 :: esc v) + 1) with (lenN (esc v) + 1 + 2) by (rewrite !lenN_cons; lia). reflexivity.
    + destruct (IH (off + 1) x rest Hx) as [nl Hnl].
      exists (if c =? 10 then off :: nl else nl). simpl app. simpl read_sq. rewrite E, Hnl.
      replace (lenN (c :: esc v) + 1) with (lenN (esc v) + 1 + 1) by (rewrite lenN_cons; lia). reflexivity.
Qed.

Lemma firstn_chunk (a : str) b c : firstn (N.to_nat (lenN a + 1)) (a ++ b :: c) = a ++ [b].
Proof.
  unfold lenN. replace (N.to_nat (N.of_nat (length a) + 1)) with (length a + 1)%nat by lia.
  induction a as [|x a IH]; simpl; [reflexivity|]. f_equal. exact IH.
Qed.

(* ---------- one printed lexeme, in any context ---------- *)

Definition step_of (off : N) (st : lst) (l : str) : option (item * lst * str) :=
  match l with c :: r => Some (lex_step off st c r) | [] => None end.

Lemma is_string_eq ty : lx_is_string ty = true -> ty = TStringLiteral.
Proof. apply tt_idx_eqb_eq. Qed.
Lemma is_comment_eq ty : lx_is_comment ty = true -> ty = TComment.
Proof. apply tt_idx_eqb_eq. Qed.

Lemma lex_step_lexeme t off st rest : printable t = true ->
  exists st', step_of off st (spell t ++ lx_sep t :: rest) =
              Some (ITok (create_token st off (fst t) (snd t)) (spell t), st', lx_sep t :: rest).
Proof.
  destruct t as [ty v]. unfold printable, spell, lx_sep. cbn [fst snd].
  destruct (lx_is_string ty) eqn:Es.
  { (* string literal *)
    intros _. apply is_string_eq in Es. subst ty. cbn [lx_is_comment tt_idx_eqb tt_idx N.eqb Pos.eqb].
    change (lx_is_comment TStringLiteral) with false. cbv iota.
    destruct (read_sq_esc v (off + 1) 32 rest eq_refl) as [nl Hnl].
    eexists. unfold step_of. cbn [app].
    replace ((esc v ++ [39]) ++ 32 :: rest) with (esc v ++ 39 :: 32 :: rest) by (rewrite <- app_assoc; reflexivity).
    rewrite lex_step_sq, Hnl, firstn_chunk. reflexivity. }
  destruct (lx_is_comment ty) eqn:Ec.
  { (* comment *)
    intro Hv. apply is_comment_eq in Ec. subst ty.
    eexists. unfold step_of. cbn [app]. rewrite lex_step_comment.
    rewrite (span_app not_eol v 10 rest Hv eq_refl). reflexivity. }
  (* words, numbers, operators *)
  unfold plain_ok. destruct v as [|c r]; [discriminate|].
  destruct (is_word_start c) eqn:Ew.
  { intro H. apply andb_true_iff in H as [Hr Hc]. apply tt_idx_eqb_eq in Hc.
    eexists. unfold step_of. cbn [app]. rewrite (lex_step_word _ _ _ _ Ew).
    change (c :: r ++ 32 :: rest) with ((c :: r) ++ 32 :: rest).
    rewrite (span_app is_word_char (c :: r) 32 rest); [rewrite Hc; reflexivity| |reflexivity].
    simpl. rewrite (word_start_char c Ew), Hr. reflexivity. }
  destruct (is_digit c) eqn:Ed.
  { intro H. apply andb_true_iff in H as [Hr Hc]. apply tt_idx_eqb_eq in Hc. subst ty.
    eexists. unfold step_of. cbn [app]. rewrite (lex_step_num _ _ _ _ Ew Ed).
    change (c :: r ++ 32 :: rest) with ((c :: r) ++ 32 :: rest).
    rewrite (span_app is_num_char (c :: r) 32 rest); [reflexivity| |reflexivity].
    simpl. rewrite (digit_num_char c Ed), Hr. reflexivity. }
  destruct (single_op c) as [ty'|] eqn:Eo.
  { destruct r; [|discriminate]. intro H. apply tt_idx_eqb_eq in H. subst ty'.
    eexists. unfold step_of. cbn [app]. rewrite (lex_step_single _ _ _ _ _ Ew Ed Eo). reflexivity. }
  destruct (c =? 35) eqn:Ep.
  { apply N.eqb_eq in Ep. subst c. destruct r; [|discriminate]. intro H. apply tt_idx_eqb_eq in H. subst ty.
    eexists. unfold step_of. cbn [app]. rewrite lex_step_pound by reflexivity. reflexivity. }
  destruct r as [|x r].
  { (* one-character operator of the double family, followed by the blank *)
    destruct (double_op c (Some 32)) as [[[ty' v'] dbl]|] eqn:Edo; [|discriminate].
    destruct dbl; [discriminate|]. intro H. apply andb_true_iff in H as [H1 H2].
    apply tt_idx_eqb_eq in H1. apply str_eqb_eq in H2. subst ty' v'.
    destruct (double_op_facts _ _ _ _ _ Edo) as [Hc _].
    eexists. unfold step_of. cbn [app]. rewrite (lex_step_dbl _ _ _ _ Hc). cbn [hd_opt]. rewrite Edo. reflexivity. }
  destruct r as [|y r]; [|discriminate].
  { (* two-character operator *)
    destruct (double_op c (Some x)) as [[[ty' v'] dbl]|] eqn:Edo; [|discriminate].
    destruct dbl; [|discriminate]. intro H. apply andb_true_iff in H as [H1 H2].
    apply tt_idx_eqb_eq in H1. apply str_eqb_eq in H2. subst ty' v'.
    destruct (double_op_facts _ _ _ _ _ Edo) as [Hc _].
    eexists. unfold step_of. cbn [app]. rewrite (lex_step_dbl _ _ _ _ Hc). cbn [hd_opt]. rewrite Edo. reflexivity. }
Qed.

Lemma lex_step_sep t off st rest : exists st', lex_step off st (lx_sep t) rest = (IWs [lx_sep t], st', rest).
Proof. unfold lx_sep. destruct (lx_is_comment (fst t)); eexists; reflexivity. Qed.

Lemma spell_nonempty t : printable t = true -> spell t <> [].
Proof.
  destruct t as [ty v]. unfold printable, spell. cbn [fst snd].
  destruct (lx_is_string ty); [discriminate|]. destruct (lx_is_comment ty); [discriminate|].
  destruct v; [discriminate|discriminate].
Qed.

(* ---------- the round trip ---------- *)

Lemma unlex_cons t ts : unlex (t :: ts) = spell t ++ lx_sep t :: unlex ts.
Proof. unfold unlex. simpl. rewrite <- app_assoc. reflexivity. Qed.

Lemma lex_go_unlex ts : forall fuel off st, (length (unlex ts) <= fuel)%nat ->
  let its := lex_go fuel off st (unlex ts) in
  forallb printable ts = true ->
  map lx_obs (tokens_of its) = ts /\ errors_of its = [] /\ map traw (tokens_of its) = lx_offsets off ts.
Proof.
  induction ts as [|t ts IH]; intros fuel off st Hf its Hp.
  - subst its. simpl. destruct fuel; simpl; auto.
  - subst its. simpl in Hp. apply andb_true_iff in Hp as [Hp Hps].
    rewrite unlex_cons in *.
    destruct (lex_step_lexeme t off st (unlex ts) Hp) as [st1 H1].
    destruct (spell t ++ lx_sep t :: unlex ts) as [|c r] eqn:El; [discriminate H1|].
    unfold step_of in H1. injection H1 as H1.
    assert (Hlen : (length (c :: r) = length (spell t) + 1 + length (unlex ts))%nat).
    { rewrite <- El, app_length. simpl. lia. }
    pose proof (spell_nonempty t Hp) as Hne.
    assert (0 < length (spell t))%nat as Hpos by (destruct (spell t); [congruence|simpl; lia]).
    destruct fuel as [|[|f]]; [lia|lia|].
    cbn [lex_go]. rewrite H1. cbn [chunk_of].
    destruct (lex_step_sep t (off + lenN (spell t)) st1 (unlex ts)) as [st2 H2]. rewrite H2. cbn [chunk_of].
    assert (Hf' : (length (unlex ts) <= f)%nat) by (rewrite Hlen in Hf; lia).
    specialize (IH f (off + lenN (spell t) + lenN [lx_sep t]) st2 Hf' Hps).
    cbv zeta in IH. destruct IH as (I1 & I2 & I3).
    change (lenN [lx_sep t]) with 1 in *.
    unfold tokens_of, errors_of in *. cbn [flat_map app]. cbn [map lx_offsets].
    rewrite I1, I2, I3. unfold lx_obs, create_token. cbn [tty tval traw]. destruct t; auto.
Qed.

Theorem lex_unlex ts : forallb printable ts = true ->
  map lx_obs (fst (lex (unlex ts))) = ts /\ snd (lex (unlex ts)) = [] /\
  map traw (fst (lex (unlex ts))) = lx_offsets 0 ts.
Proof.
  intro H. unfold lex, lex_items. cbn [fst snd].
  exact (lex_go_unlex ts (length (unlex ts)) 0 lst0 (le_n _) H).
Qed.

(* the printed text is covered by the lexemes and their separators: nothing else is in it *)
Theorem unlex_length ts : lenN (unlex ts) = fold_right (fun t a => lenN (spell t) + 1 + a) 0 ts.
Proof.
  induction ts as [|t ts IH]; [reflexivity|]. rewrite unlex_cons, lenN_app, lenN_cons, IH. simpl. lia.
Qed.
