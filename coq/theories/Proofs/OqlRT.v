(* C06: OQL select / fetch round-trip.
   Declarative grammar of  oql select [top n] [distinct] items from from-items [where e]
   [order by items] [using id]  and  oql fetch into items [using id]  over abstract expression /
   dot-chain / comparison relations, and the theorem that parse_oql_expr accepts every derivable
   statement and returns the derived tree.  The select node's end is the end of the LAST clause
   present (last_range chain), which is what the parser's or-else chain computes. *)
From GoldV Require Import Base Tokens Lexer AstKinds Tree Strings PComb Grammar Ladder RTComb LadderProofs ExprRT.
From Coq Require Import Lia.

(* ---------- join words: identifiers with a fixed (case-insensitive) value ---------- *)

Definition join_words : list str := [S_outerjoinon; S_leftouterjoinon; S_rightouterjoinon; S_fullouterjoinon].
Definition is_join_word (t : tok) : bool :=
  tt_eqb (tty t) TIdentifier && existsb (fun w => str_eqb (upper (tval t)) (upper w)) join_words.

(* the first token that is not a comment *)
Fixpoint hd_tok (l : input) : option tok :=
  match l with
  | [] => None
  | t :: l' => if is_comment t then hd_tok l' else Some t
  end.

(* what follows does not start with a join word *)
Definition jfollow (more : input) : Prop :=
  match hd_tok more with Some t => is_join_word t = false | None => True end.

Lemma hd_tok_ty l : hd_ty l = option_map tty (hd_tok l).
Proof. induction l as [|t l IH]; [reflexivity|]. simpl. destruct (is_comment t); [exact IH|reflexivity]. Qed.

Lemma jfollow_cons t r : tty t <> TComment -> is_join_word t = false -> jfollow (t :: r).
Proof. intros Hc H. unfold jfollow. simpl. unfold is_comment. rewrite (tt_eqb_neq _ _ Hc). exact H. Qed.

Lemma jfollow_ty t r : tty t <> TComment -> tty t <> TIdentifier -> jfollow (t :: r).
Proof. intros Hc H. apply jfollow_cons; [exact Hc|]. unfold is_join_word. rewrite (tt_eqb_neq _ _ H). reflexivity. Qed.

Lemma jfollow_nil : jfollow [].
Proof. exact I. Qed.

Lemma exp_ident_val_go_ok v t r orig : tty t = TIdentifier -> str_eqb (upper (tval t)) (upper v) = true ->
  exp_ident_val_go v orig (t :: r) = Ok r t.
Proof. intros H1 H2. simpl. rewrite H1, H2. reflexivity. Qed.

Lemma exp_ident_val_go_fail v orig l :
  match hd_tok l with Some t => tt_eqb (tty t) TIdentifier && str_eqb (upper (tval t)) (upper v) = false | None => True end ->
  exists m, exp_ident_val_go v orig l = Err orig m.
Proof.
  induction l as [|t l IH]; simpl; intro H; [eauto|].
  destruct (is_comment t) eqn:C.
  - unfold is_comment in C. apply tt_eqb_eq in C.
    assert (tt_eqb (tty t) TIdentifier = false) as -> by (rewrite C; reflexivity). cbn [andb]. apply IH. exact H.
  - rewrite H. eauto.
Qed.

Lemma exp_ident_ok v t r : tty t = TIdentifier -> str_eqb (upper (tval t)) (upper v) = true ->
  Parses (exp_ident_with_value v) (t :: r) r t.
Proof.
  intros H1 H2 c Hc. unfold exp_ident_with_value. rewrite (exp_ident_val_go_ok v t r _ H1 H2).
  eexists _, c. repeat split.
Qed.

Lemma exp_ident_fails v i :
  match hd_tok i with Some t => tt_eqb (tty t) TIdentifier && str_eqb (upper (tval t)) (upper v) = false | None => True end ->
  Fails (exp_ident_with_value v) i.
Proof.
  intros H c Hc. unfold exp_ident_with_value. destruct (exp_ident_val_go_fail v i i H) as [m E]. rewrite E.
  eexists _, c. repeat split. eauto.
Qed.

(* the k-th join word *)
Definition JoinTok (t : tok) : Prop :=
  tty t = TIdentifier /\ existsb (fun w => str_eqb (upper (tval t)) (upper w)) join_words = true.

Definition join_head : P tok :=
  alt [exp_ident_with_value S_outerjoinon; exp_ident_with_value S_leftouterjoinon;
       exp_ident_with_value S_rightouterjoinon; exp_ident_with_value S_fullouterjoinon].

Lemma join_head_ok t r : JoinTok t -> Parses join_head (t :: r) r t.
Proof.
  intros [Ht Hw]. unfold join_head, alt. cbn [join_words existsb] in Hw.
  assert (tty t <> TComment) as Hc by (rewrite Ht; discriminate).
  assert (forall v, str_eqb (upper (tval t)) (upper v) = false -> Fails (exp_ident_with_value v) (t :: r)) as Hf.
  { intros v Hv. apply exp_ident_fails. simpl. unfold is_comment. rewrite (tt_eqb_neq _ _ Hc). rewrite Hv. apply andb_false_r. }
  destruct (str_eqb (upper (tval t)) (upper S_outerjoinon)) eqn:E1; [apply alt_go_here; apply exp_ident_ok; assumption|].
  apply alt_go_skip; [apply Hf; exact E1|]. intro b1.
  destruct (str_eqb (upper (tval t)) (upper S_leftouterjoinon)) eqn:E2; [apply alt_go_here; apply exp_ident_ok; assumption|].
  apply alt_go_skip; [apply Hf; exact E2|]. intro b2.
  destruct (str_eqb (upper (tval t)) (upper S_rightouterjoinon)) eqn:E3; [apply alt_go_here; apply exp_ident_ok; assumption|].
  apply alt_go_skip; [apply Hf; exact E3|]. intro b3.
  destruct (str_eqb (upper (tval t)) (upper S_fullouterjoinon)) eqn:E4; [apply alt_go_here; apply exp_ident_ok; assumption|].
  cbn [orb] in Hw. discriminate.
Qed.

Lemma join_head_fails i : jfollow i -> Fails join_head i.
Proof.
  intro H. unfold join_head. apply alt_fails; [discriminate|].
  assert (forall v, In v join_words ->
            match hd_tok i with Some t => tt_eqb (tty t) TIdentifier && str_eqb (upper (tval t)) (upper v) = false | None => True end) as K.
  { intros v Hv. unfold jfollow in H. destruct (hd_tok i) as [t|]; [|exact I]. unfold is_join_word in H.
    destruct (tt_eqb (tty t) TIdentifier); [|reflexivity]. cbn [andb] in *.
    destruct (str_eqb (upper (tval t)) (upper v)) eqn:E; [|reflexivity].
    assert (existsb (fun w => str_eqb (upper (tval t)) (upper w)) join_words = true) as X by (apply existsb_exists; exists v; auto).
    congruence. }
  repeat (apply Forall_cons || apply Forall_nil); apply exp_ident_fails; apply K; simpl; tauto.
Qed.

(* ---------- node builders ---------- *)

Definition mk_oql_call (id : tok) (ps : list node) (cb : tok) : node :=
  Node KAstMethodCall (tval id) (traw id) (new_range (trange id) (trange cb)) [] ps.
Definition mk_join (jt : tok) (cn : node) : node :=
  Node KAstOQLJoin (tval jt) (traw jt) (new_range (trange jt) (nrange cn)) [(K_op, AT jt)] [cn].
Definition oflag {A} (o : option A) : N := match o with Some _ => 1 | None => 0 end.
Definition mk_from (cond allv ph : option tok) (al src : tok) (sub : option tok) (joins : list node) : node :=
  let start := match cond with Some t => t | None => al end in
  let end_ := match rev joins with
              | n :: _ => nrange n
              | [] => match sub with Some t => trange t | None => trange src end
              end in
  Node KAstOQLFromNode (tval al) (traw start) (new_range (trange start) end_)
       [(K_ident, AT al); (K_flags, AN (oflag cond + 2 * oflag allv + 4 * oflag ph + 8 * oflag sub))]
       (mk_terminal src :: joins).
Definition mk_order_by (f : node) (d : option tok) : node :=
  Node KAstOQLOrderBy S_oql_order_by_node (nraw f) (new_range (nrange f) (match d with Some t => trange t | None => nrange f end))
       [(K_flags, AN (match d with Some _ => 1 | None => 0 end))] [f].
Definition olist {A} (o : option (list A)) : list A := match o with Some l => l | None => [] end.
(* the end of a select: the end of the last clause present *)
Definition select_end (st : tok) (sel frm : list node) (wh : option node) (ob : option (list node)) (us : option node) : range :=
  last_range (sel ++ frm ++ opt_list wh ++ olist ob ++ opt_list us) (trange st).
Definition mk_oql_select (ot st : tok) (lim : option node) (dist : option tok) (sel frm : list node) (wh : option node)
           (ob : option (list node)) (us : option node) : node :=
  Node KAstOQLSelect S_oql_select (traw ot) (new_range (trange ot) (select_end st sel frm wh ob us))
       [(K_flags, AN (match dist with Some _ => 1 | None => 0 end))]
       (opt_list lim ++ sel ++ frm ++ opt_list wh ++ olist ob ++ opt_list us).
Definition mk_oql_fetch (ot it : tok) (into : list node) (us : option node) : node :=
  Node KAstOQLFetch S_oql_fetch (traw ot)
       (new_range (trange ot) (match us with Some n => nrange n | None => last_range into (trange it) end)) []
       (into ++ opt_list us).

Lemma last_range_app a b d : last_range (a ++ b) d = last_range b (last_range a d).
Proof.
  unfold last_range. rewrite rev_app_distr. destruct (rev b) as [|n l]; [reflexivity|reflexivity].
Qed.

(* the parser's or-else chain is the end of the last clause present *)
Lemma select_end_chain st sel frm wh ob us :
  (match us with Some n => nrange n
   | None => match ob with Some l => last_range l (match wh with Some n => nrange n | None => last_range frm (last_range sel (trange st)) end)
             | None => match wh with Some n => nrange n | None => last_range frm (last_range sel (trange st)) end end end)
  = select_end st sel frm wh ob us.
Proof.
  unfold select_end. rewrite !last_range_app.
  destruct us as [u|]; [reflexivity|]. cbn [opt_list]. unfold last_range at 1. cbn [rev].
  destruct ob as [l|]; cbn [olist].
  - destruct wh as [w|]; reflexivity.
  - unfold last_range at 1. cbn [rev]. destruct wh as [w|]; reflexivity.
Qed.

(* ---------- the grammar ---------- *)

Section Oql.
  Variables pe pd pc : P node.
  Variables RE RD RC : rel.
  (* follow conditions of the three expression parsers *)
  Hypothesis Hpe : forall ts n rest, RE ts n -> efollow rest -> Parses pe (ts ++ rest) rest n.
  Hypothesis Hpd : forall ts n rest, RD ts n -> nostart [TDot; TOBracket; TOSqrBracket] rest -> Parses pd (ts ++ rest) rest n.
  Hypothesis Hpc : forall ts n rest, RC ts n -> efollow rest -> Parses pc (ts ++ rest) rest n.

  (* tokens that may follow a clause of a select *)
  Definition clause_kw : list ttype := [TComma; TFrom; TWhere; TOrder; TUsing; TDescending].

  Inductive Star : list tok -> node -> Prop := St_tok t : tty t = TAsterisk -> Star [t] (mk_terminal t).

  (* a dot chain whose first item is a plain identifier (not  name( ) *)
  Definition plain_head (ts : list tok) : Prop :=
    exists t r, ts = t :: r /\ tty t = TIdentifier /\ forall more, nostart [TOBracket] more -> nostart [TOBracket] (r ++ more).

  Inductive SelItem : list tok -> node -> Prop :=
  | SI_star t : tty t = TAsterisk -> SelItem [t] (mk_terminal t)
  | SI_call0 id o c : tty id = TIdentifier -> tty o = TOBracket -> tty c = TCBracket -> SelItem [id; o; c] (mk_oql_call id [] c)
  | SI_call id o ts ns c : tty id = TIdentifier -> tty o = TOBracket -> Args TComma Star ts ns -> tty c = TCBracket ->
      SelItem (id :: o :: ts ++ [c]) (mk_oql_call id ns c)
  | SI_dots ts n : RD ts n -> plain_head ts -> SelItem ts n.

  Inductive Joins : list tok -> list node -> Prop :=
  | J_nil : Joins [] []
  | J_cons jt cts cn rest ns : JoinTok jt -> RC cts cn -> Joins rest ns -> Joins (jt :: cts ++ rest) (mk_join jt cn :: ns).

  Definition otok_ok (ty : ttype) (o : option tok) : Prop := match o with Some t => tty t = ty | None => True end.

  Inductive FromItem : list tok -> node -> Prop :=
  | FI cond allv ph al ik src sub jts joins :
      otok_ok TConditional cond -> otok_ok TAllVersionsOf allv -> otok_ok TPhantomsToo ph -> tty al = TIdentifier -> tty ik = TIn ->
      tty src = TIdentifier -> otok_ok TIncrement sub -> Joins jts joins ->
      FromItem (opt_list cond ++ opt_list allv ++ opt_list ph ++ al :: ik :: src :: opt_list sub ++ jts)
               (mk_from cond allv ph al src sub joins).

  Inductive OrdItem : list tok -> node -> Prop :=
  | OI ts n d : RD ts n -> otok_ok TDescending d -> OrdItem (ts ++ opt_list d) (mk_order_by n d).

  (* the optional clauses *)
  Inductive TopR : list tok -> option node -> Prop :=
  | Top_none : TopR [] None
  | Top_some k v : tty k = TTop -> In (tty v) (literal_types ++ ident_types) -> TopR [k; v] (Some (mk_terminal v)).
  Inductive WhereR : list tok -> option node -> Prop :=
  | Wh_none : WhereR [] None
  | Wh_some k ts n : tty k = TWhere -> RE ts n -> WhereR (k :: ts) (Some n).
  Inductive OrderR : list tok -> option (list node) -> Prop :=
  | Ob_none : OrderR [] None
  | Ob_some k b ts ns : tty k = TOrder -> tty b = TBy -> Args TComma OrdItem ts ns -> OrderR (k :: b :: ts) (Some ns).
  Inductive UsingR : list tok -> option node -> Prop :=
  | Us_none : UsingR [] None
  | Us_some k v : tty k = TUsing -> In (tty v) ident_types -> UsingR [k; v] (Some (mk_terminal v)).

  Inductive OqlStmt : list tok -> node -> Prop :=
  | O_select ot st lts lim dist sts sel fk fts frm wts wh obts ob uts us :
      tty ot = TOQL -> tty st = TSelect -> TopR lts lim -> otok_ok TDistinct dist ->
      Args TComma SelItem sts sel -> tty fk = TFrom -> Args TComma FromItem fts frm ->
      WhereR wts wh -> OrderR obts ob -> UsingR uts us ->
      OqlStmt (ot :: st :: lts ++ opt_list dist ++ sts ++ fk :: fts ++ wts ++ obts ++ uts)
              (mk_oql_select ot st lim dist sel frm wh ob us)
  | O_fetch ot fk ik its into uts us :
      tty ot = TOQL -> tty fk = TFetch -> tty ik = TInto -> Args TComma RD its into -> UsingR uts us ->
      OqlStmt (ot :: fk :: ik :: its ++ uts) (mk_oql_fetch ot ik into us).

  (* ---------- follow sets ---------- *)

  (* after a clause: a separator / clause keyword, or whatever may follow the statement *)
  Definition qfollow (more : input) : Prop :=
    nostart (concat ladder ++ primary_continue ++ [TTop; TDistinct; TConditional; TAllVersionsOf; TPhantomsToo; TIn; TAsterisk]) more /\ jfollow more.

  Lemma qfollow_efollow more : qfollow more -> efollow more.
  Proof. intros [H _]. split; sub_nostart H. Qed.

  Lemma qfollow_kw t r : In (tty t) clause_kw -> qfollow (t :: r).
  Proof.
    intro H. split.
    - eapply (nostart_cons _ clause_kw); [exact H|reflexivity].
    - apply jfollow_ty; intro X; rewrite X in H; simpl in H; intuition discriminate.
  Qed.

  (* ---------- items ---------- *)

  Lemma star_parses ts n more : Star ts n -> Parses parse_asterisk (ts ++ more) more n.
  Proof.
    intros [t Ht]. cbn [app]. unfold parse_asterisk. eapply Parses_bind; [apply exp_token_ok; exact Ht|]. apply Parses_ret.
  Qed.

  Lemma star_failsat i : nostart [TAsterisk] i -> FailsAt parse_asterisk i i.
  Proof. intro H. unfold parse_asterisk. apply FailsAt_bind_l. apply exp_token_nostart; [discriminate|exact H]. Qed.

  Lemma sel_item_parses ts n more : SelItem ts n -> nostart [TDot; TOBracket; TOSqrBracket] more ->
    Parses (parse_select_item pd) (ts ++ more) more n.
  Proof.
    intros H Hf. unfold parse_select_item, alt. destruct H as [t Ht|id o c Hid Ho Hc|id o ts ns c Hid Ho Ha Hc|ts n Hd Hp].
    - cbn [app]. apply alt_go_here. apply (star_parses [t]). apply St_tok. exact Ht.
    - cbn [app]. apply alt_go_skip.
      { eapply FailsAt_Fails. apply star_failsat. eapply nostart_ty; [exact Hid|reflexivity]. }
      intro b. apply alt_go_here. unfold parse_oql_method_call.
      eapply Parses_bind; [apply parse_identifier_ok; rewrite Hid; left; reflexivity|]. cbv beta.
      eapply Parses_bind; [apply exp_token_ok; exact Ho|]. cbv beta.
      eapply Parses_bind; [apply sep_list_empty; apply star_failsat; eapply nostart_ty; [exact Hc|reflexivity]|]. cbv beta.
      eapply Parses_bind; [apply exp_token_ok; exact Hc|]. cbv beta. apply Parses_ret.
    - cbn [app]. rewrite <- app_assoc. cbn [app]. apply alt_go_skip.
      { eapply FailsAt_Fails. apply star_failsat. eapply nostart_ty; [exact Hid|reflexivity]. }
      intro b. apply alt_go_here. unfold parse_oql_method_call.
      eapply Parses_bind; [apply parse_identifier_ok; rewrite Hid; left; reflexivity|]. cbv beta.
      eapply Parses_bind; [apply exp_token_ok; exact Ho|]. cbv beta.
      eapply Parses_bind.
      { eapply (sep_list_args _ parse_asterisk TComma Star (fun _ => True)); [intros; apply star_parses; assumption|auto|discriminate|exact Ha|exact I|].
        eapply nostart_ty; [exact Hc|reflexivity]. }
      cbv beta. eapply Parses_bind; [apply exp_token_ok; exact Hc|]. cbv beta. apply Parses_ret.
    - destruct Hp as (t & r & -> & Ht & Hr). cbn [app].
      apply alt_go_skip.
      { eapply FailsAt_Fails. apply star_failsat. eapply nostart_ty; [exact Ht|reflexivity]. }
      intro b1. apply alt_go_skip.
      { unfold parse_oql_method_call. eapply Fails_bind_r; [apply parse_identifier_ok; rewrite Ht; left; reflexivity|].
        apply Fails_bind_l. eapply FailsAt_Fails. apply exp_token_nostart; [discriminate|]. apply Hr. sub_nostart Hf. }
      intro b2. apply alt_go_here. change (t :: r ++ more) with ((t :: r) ++ more). apply Hpd; assumption.
  Qed.

  Lemma Joins_len jts joins : Joins jts joins -> (length joins <= length jts)%nat.
  Proof. induction 1; cbn [length]; [lia|]. rewrite app_length. lia. Qed.

  Definition parse_join := parse_join_item pc.

  Lemma join_item_eq : parse_join = (jt <- join_head ;; cn <- pc ;;
    ret (Node KAstOQLJoin (tval jt) (traw jt) (new_range (trange jt) (nrange cn)) [(K_op, AT jt)] [cn])).
  Proof. reflexivity. Qed.

  Lemma joins_chain jts joins tail : Joins jts joins -> qfollow tail -> Chain parse_join (fail []) tail (jts ++ tail) joins.
  Proof.
    intros H Ht. induction H as [|jt cts cn rest ns Hj Hc Hrest IH]; [apply Ch_nil|].
    cbn [app]. rewrite <- app_assoc. eapply Ch_cons; [discriminate|apply Fails_fail| |exact IH].
    rewrite join_item_eq. eapply Parses_bind; [apply join_head_ok; exact Hj|]. cbv beta.
    eapply Parses_bind; [|apply Parses_ret]. apply Hpc; [exact Hc|].
    destruct Hrest as [|jt' cts' cn' rest' ns' [Hj' _] _ _]; cbn [app]; [apply qfollow_efollow; exact Ht|].
    eapply efollow_ty; [exact Hj'|reflexivity].
  Qed.

  Lemma opt_tok_parses ty o r : ty <> TComment -> otok_ok ty o -> nostart [ty] r -> Parses (opt (exp_token ty)) (opt_list o ++ r) r o.
  Proof.
    intros Hc Ho Hr. destruct o as [t|]; cbn [opt_list app].
    - apply Parses_opt_some. apply exp_token_ok. exact Ho.
    - apply Parses_opt_none. eapply FailsAt_Fails. apply exp_token_nostart; assumption.
  Qed.

  Lemma from_item_parses ts n more : FromItem ts n -> qfollow more -> Parses (parse_from_item pc) (ts ++ more) more n.
  Proof.
    intros H Hf. destruct H as [cond allv ph al ik src sub jts joins Hcond Hallv Hph Hal Hik Hsrc Hsub Hj].
    rewrite <- !app_assoc. cbn [app]. rewrite <- !app_assoc. unfold parse_from_item.
    assert (forall X, mem_ty TIdentifier (TComment :: X) = false -> nostart X (al :: ik :: src :: opt_list sub ++ jts ++ more)) as Hal'
      by (intros X Hx; eapply nostart_ty; [exact Hal|exact Hx]).
    assert (forall X, mem_ty TIdentifier (TComment :: X) = false -> mem_ty TPhantomsToo (TComment :: X) = false ->
              nostart X (opt_list ph ++ al :: ik :: src :: opt_list sub ++ jts ++ more)) as Hph'.
    { intros X H1 H2. destruct ph as [p|]; cbn [opt_list app]; [eapply nostart_ty; [exact Hph|exact H2]|apply Hal'; exact H1]. }
    assert (forall X, mem_ty TIdentifier (TComment :: X) = false -> mem_ty TPhantomsToo (TComment :: X) = false ->
              mem_ty TAllVersionsOf (TComment :: X) = false ->
              nostart X (opt_list allv ++ opt_list ph ++ al :: ik :: src :: opt_list sub ++ jts ++ more)) as Hallv'.
    { intros X H1 H2 H3. destruct allv as [p|]; cbn [opt_list app]; [eapply nostart_ty; [exact Hallv|exact H3]|apply Hph'; assumption]. }
    eapply Parses_bind; [apply opt_tok_parses; [discriminate|exact Hcond|apply Hallv'; reflexivity]|]. cbv beta.
    eapply Parses_bind; [apply opt_tok_parses; [discriminate|exact Hallv|apply Hph'; reflexivity]|]. cbv beta.
    eapply Parses_bind; [apply opt_tok_parses; [discriminate|exact Hph|apply Hal'; reflexivity]|]. cbv beta.
    eapply Parses_bind; [apply exp_token_ok; exact Hal|]. cbv beta.
    assert (nostart [TIncrement] (jts ++ more)) as Hjm.
    { destruct Hj as [|jt cts cn rest ns [Hjt _] _ _]; cbn [app]; [destruct Hf as [Hf _]; sub_nostart Hf|eapply nostart_ty; [exact Hjt|reflexivity]]. }
    destruct cond as [cd|]; cbv beta iota zeta;
      (eapply Parses_bind; [apply exp_token_ok; exact Hik|]); cbv beta;
      (eapply Parses_bind; [apply parse_identifier_ok; rewrite Hsrc; left; reflexivity|]); cbv beta;
      (eapply Parses_bind; [apply opt_tok_parses; [discriminate|exact Hsub|exact Hjm]|]); cbv beta;
      (eapply Parses_bind;
       [apply (until_no_match_chain _ (fail []) more);
        [unfold parse_join_item; apply Fails_bind_l; apply join_head_fails; apply Hf
        |eapply joins_chain; eassumption
        |pose proof (Joins_len _ _ Hj); rewrite app_length; lia]|]); cbv beta;
      destruct allv, ph, sub; apply Parses_ret.
  Qed.

  Lemma ord_item_parses ts n more : OrdItem ts n -> nostart [TDot; TOBracket; TOSqrBracket; TDescending] more ->
    Parses (parse_order_by_item pd) (ts ++ more) more n.
  Proof.
    intros H Hf. destruct H as [ts n d Hd Hdd]. rewrite <- app_assoc. unfold parse_order_by_item.
    eapply Parses_bind.
    { apply Hpd; [exact Hd|]. destruct d as [t|]; cbn [opt_list app]; [eapply nostart_ty; [exact Hdd|reflexivity]|sub_nostart Hf]. }
    cbv beta. eapply Parses_bind; [apply opt_tok_parses; [discriminate|exact Hdd|sub_nostart Hf]|]. cbv beta. apply Parses_ret.
  Qed.

  (* ---------- heads of the clauses ---------- *)

  Lemma sel_head sts sel : Args TComma SelItem sts sel -> head_in [TAsterisk; TIdentifier] sts.
  Proof.
    intro H.
    assert (forall ts n, SelItem ts n -> head_in [TAsterisk; TIdentifier] ts) as K.
    { intros ts n S. destruct S as [t Ht|id o c Hid _ _|id o ts ns c Hid _ _ _|ts n _ (t & r & -> & Ht & _)];
        eexists _, _; (split; [reflexivity|]); rewrite ?Ht, ?Hid; simpl; tauto. }
    destruct H as [ts n Hn|ts n cm ts' ns Hn _ _]; destruct (K _ _ Hn) as (t & r & -> & Ht); eexists _, _; (split; [reflexivity|exact Ht]).
  Qed.

  Lemma using_head X uts us more : UsingR uts us -> mem_ty TUsing (TComment :: X) = false -> nostart X more -> nostart X (uts ++ more).
  Proof. intros H Hm Hn. destruct H as [|k v Hk _]; cbn [app]; [exact Hn|eapply nostart_ty; [exact Hk|exact Hm]]. Qed.

  Lemma order_head X obts ob more : OrderR obts ob -> mem_ty TOrder (TComment :: X) = false -> nostart X more -> nostart X (obts ++ more).
  Proof. intros H Hm Hn. destruct H as [|k b ts ns Hk _ _]; cbn [app]; [exact Hn|eapply nostart_ty; [exact Hk|exact Hm]]. Qed.

  Lemma where_head X wts wh more : WhereR wts wh -> mem_ty TWhere (TComment :: X) = false -> nostart X more -> nostart X (wts ++ more).
  Proof. intros H Hm Hn. destruct H as [|k ts n Hk _]; cbn [app]; [exact Hn|eapply nostart_ty; [exact Hk|exact Hm]]. Qed.

  Lemma using_q uts us more : UsingR uts us -> qfollow more -> qfollow (uts ++ more).
  Proof. intros H Hq. destruct H as [|k v Hk _]; cbn [app]; [exact Hq|apply qfollow_kw; rewrite Hk; simpl; tauto]. Qed.
  Lemma order_q obts ob more : OrderR obts ob -> qfollow more -> qfollow (obts ++ more).
  Proof. intros H Hq. destruct H as [|k b ts ns Hk _ _]; cbn [app]; [exact Hq|apply qfollow_kw; rewrite Hk; simpl; tauto]. Qed.
  Lemma where_q wts wh more : WhereR wts wh -> qfollow more -> qfollow (wts ++ more).
  Proof. intros H Hq. destruct H as [|k ts n Hk _]; cbn [app]; [exact Hq|apply qfollow_kw; rewrite Hk; simpl; tauto]. Qed.

  (* what may follow the whole statement: nothing that continues a clause *)
  Definition oql_follow (more : input) : Prop :=
    qfollow more /\ nostart [TComma; TFrom; TWhere; TOrder; TUsing; TDescending; TDot; TOBracket; TOSqrBracket] more.

  Lemma using_parses uts us more : UsingR uts us -> nostart [TUsing] more -> Parses (opt parse_using) (uts ++ more) more us.
  Proof.
    intros H Hn. destruct H as [|k v Hk Hv]; cbn [app].
    - apply Parses_opt_none. unfold parse_using. apply Fails_bind_l. eapply FailsAt_Fails. apply exp_token_nostart; [discriminate|exact Hn].
    - apply Parses_opt_some. unfold parse_using. eapply Parses_bind; [apply exp_token_ok; exact Hk|]. cbv beta. apply parse_identifier_ok. exact Hv.
  Qed.

  Theorem oql_parses ts n more : OqlStmt ts n -> oql_follow more -> Parses (parse_oql_expr pe pd pc) (ts ++ more) more n.
  Proof.
    intros H [Hq Hn]. unfold parse_oql_expr, alt.
    destruct H as [ot st lts lim dist sts sel fk fts frm wts wh obts ob uts us Hot Hst Hlim Hdist Hsel Hfk Hfrm Hwh Hob Hus
                  |ot fk ik its into uts us Hot Hfk Hik Hinto Hus].
    - (* select *)
      apply alt_go_here. cbn [app]. rewrite <- !app_assoc. cbn [app]. rewrite <- !app_assoc. unfold parse_oql_select.
      eapply Parses_bind; [apply exp_token_ok; exact Hot|]. cbv beta.
      eapply Parses_bind; [apply exp_token_ok; exact Hst|]. cbv beta.
      set (tail3 := uts ++ more). set (tail2 := obts ++ tail3). set (tail1 := wts ++ tail2).
      assert (forall X, disj_b [TAsterisk; TIdentifier] (TComment :: X) = true -> nostart X (sts ++ fk :: fts ++ tail1)) as Hsh.
      { intros X Hd. eapply head_in_nostart'; [apply (sel_head _ _ Hsel)|exact Hd]. }
      assert (forall X, disj_b [TAsterisk; TIdentifier] (TComment :: X) = true -> mem_ty TDistinct (TComment :: X) = false ->
                nostart X (opt_list dist ++ sts ++ fk :: fts ++ tail1)) as Hdh.
      { intros X Hd Hm. destruct dist as [d|]; cbn [opt_list app]; [eapply nostart_ty; [exact Hdist|exact Hm]|apply Hsh; exact Hd]. }
      (* top n *)
      eapply Parses_bind.
      { instantiate (1 := lim). instantiate (1 := opt_list dist ++ sts ++ fk :: fts ++ tail1).
        destruct Hlim as [|k v Hk Hv]; cbn [app].
        - apply Parses_opt_none. unfold parse_top_n. apply Fails_bind_l. eapply FailsAt_Fails. apply exp_token_nostart; [discriminate|].
          apply Hdh; reflexivity.
        - apply Parses_opt_some. unfold parse_top_n. eapply Parses_bind; [apply exp_token_ok; exact Hk|]. cbv beta. unfold alt.
          apply in_app_or in Hv as [Hv|Hv].
          + apply alt_go_here. apply parse_literal_basic_ok. exact Hv.
          + apply alt_go_skip.
            * eapply FailsAt_Fails. apply parse_literal_basic_failsat. eapply (nostart_cons _ ident_types); [exact Hv|reflexivity].
            * intro b. apply alt_go_here. apply parse_identifier_ok. exact Hv. }
      cbv beta. eapply Parses_bind; [apply opt_tok_parses; [discriminate|exact Hdist|apply Hsh; reflexivity]|]. cbv beta.
      (* select items *)
      eapply Parses_bind.
      { eapply (sep_list_args _ (parse_select_item pd) TComma SelItem (nostart [TDot; TOBracket; TOSqrBracket]) (sel_item_parses));
          [intros t r Ht; eapply nostart_ty; [exact Ht|reflexivity]|discriminate|exact Hsel| |];
          (eapply nostart_ty; [exact Hfk|reflexivity]). }
      cbv beta. eapply Parses_bind; [apply exp_token_ok; exact Hfk|]. cbv beta.
      (* from items *)
      assert (qfollow tail1) as Hq1.
      { unfold tail1, tail2, tail3. eapply where_q; [exact Hwh|]. eapply order_q; [exact Hob|]. eapply using_q; [exact Hus|exact Hq]. }
      assert (forall X, mem_ty TWhere (TComment :: X) = false -> mem_ty TOrder (TComment :: X) = false -> mem_ty TUsing (TComment :: X) = false ->
                nostart X more -> nostart X tail1) as Ht1.
      { intros X H1 H2 H3 H4. unfold tail1, tail2, tail3. eapply where_head; [exact Hwh|exact H1|]. eapply order_head; [exact Hob|exact H2|].
        eapply using_head; [exact Hus|exact H3|exact H4]. }
      eapply Parses_bind.
      { eapply (sep_list_args _ (parse_from_item pc) TComma FromItem qfollow from_item_parses);
          [intros t r Ht; apply qfollow_kw; rewrite Ht; simpl; tauto|discriminate|exact Hfrm|exact Hq1|].
        apply Ht1; try reflexivity. sub_nostart Hn. }
      cbv beta.
      (* where *)
      eapply Parses_bind.
      { instantiate (1 := wh). instantiate (1 := tail2). unfold tail1. destruct Hwh as [|k ts n Hk Hn']; cbn [app].
        - apply Parses_opt_none. unfold parse_where. apply Fails_bind_l. eapply FailsAt_Fails. apply exp_token_nostart; [discriminate|].
          unfold tail2, tail3. eapply order_head; [exact Hob|reflexivity|]. eapply using_head; [exact Hus|reflexivity|sub_nostart Hn].
        - apply Parses_opt_some. unfold parse_where. eapply Parses_bind; [apply exp_token_ok; exact Hk|]. cbv beta.
          apply Hpe; [exact Hn'|]. apply qfollow_efollow. unfold tail2, tail3. eapply order_q; [exact Hob|]. eapply using_q; [exact Hus|exact Hq]. }
      cbv beta.
      (* order by *)
      eapply Parses_bind.
      { instantiate (1 := ob). instantiate (1 := tail3). unfold tail2. destruct Hob as [|k b ts ns Hk Hb Ha]; cbn [app].
        - apply Parses_opt_none. unfold parse_order_by. apply Fails_bind_l. eapply FailsAt_Fails. apply exp_token_nostart; [discriminate|].
          unfold tail3. eapply using_head; [exact Hus|reflexivity|sub_nostart Hn].
        - apply Parses_opt_some. unfold parse_order_by. eapply Parses_bind; [apply exp_token_ok; exact Hk|]. cbv beta.
          eapply Parses_bind; [apply exp_token_ok; exact Hb|]. cbv beta.
          eapply (sep_list_args _ (parse_order_by_item pd) TComma OrdItem (nostart [TDot; TOBracket; TOSqrBracket; TDescending]) ord_item_parses);
            [intros t r Ht; eapply nostart_ty; [exact Ht|reflexivity]|discriminate|exact Ha| |];
            (unfold tail3; eapply using_head; [exact Hus|reflexivity|sub_nostart Hn]). }
      cbv beta.
      (* using *)
      eapply Parses_bind; [unfold tail3; apply using_parses; [exact Hus|sub_nostart Hn]|]. cbv beta.
      match goal with |- Parses (ret ?x) _ _ _ => replace x with (mk_oql_select ot st lim dist sel frm wh ob us) end; [apply Parses_ret|].
      unfold mk_oql_select. rewrite <- select_end_chain. destruct ob; reflexivity.
    - (* fetch *)
      cbn [app]. rewrite <- app_assoc. apply alt_go_skip.
      { unfold parse_oql_select. eapply Fails_bind_r; [apply exp_token_ok; exact Hot|]. apply Fails_bind_l.
        eapply FailsAt_Fails. apply exp_token_nostart; [discriminate|]. eapply nostart_ty; [exact Hfk|reflexivity]. }
      intro b. apply alt_go_here. unfold parse_oql_fetch.
      eapply Parses_bind; [apply exp_token_ok; exact Hot|]. cbv beta.
      eapply Parses_bind; [apply exp_token_ok; exact Hfk|]. cbv beta.
      eapply Parses_bind; [apply exp_token_ok; exact Hik|]. cbv beta.
      eapply Parses_bind.
      { eapply (sep_list_args _ pd TComma RD (nostart [TDot; TOBracket; TOSqrBracket]) Hpd);
          [intros t r Ht; eapply nostart_ty; [exact Ht|reflexivity]|discriminate|exact Hinto| |];
          (eapply using_head; [exact Hus|reflexivity|sub_nostart Hn]). }
      cbv beta. eapply Parses_bind; [apply using_parses; [exact Hus|sub_nostart Hn]|]. cbv beta. apply Parses_ret.
  Qed.
End Oql.

(* ---------- monotonicity ---------- *)

Lemma SelItem_mono (RD RD' : rel) : rel_le RD RD' -> rel_le (SelItem RD) (SelItem RD').
Proof. intros H ts n S. destruct S; [apply SI_star|apply SI_call0|apply SI_call|apply SI_dots]; auto. Qed.

Lemma Joins_mono (RC RC' : rel) ts ns : rel_le RC RC' -> Joins RC ts ns -> Joins RC' ts ns.
Proof. intros H J. induction J; [apply J_nil|apply J_cons; auto]. Qed.

Lemma FromItem_mono (RC RC' : rel) : rel_le RC RC' -> rel_le (FromItem RC) (FromItem RC').
Proof. intros H ts n F. destruct F. apply FI; auto. eapply Joins_mono; eauto. Qed.

Lemma OrdItem_mono (RD RD' : rel) : rel_le RD RD' -> rel_le (OrdItem RD) (OrdItem RD').
Proof. intros H ts n O. destruct O. apply OI; auto. Qed.

Lemma OqlStmt_mono (RE RE' RD RD' RC RC' : rel) : rel_le RE RE' -> rel_le RD RD' -> rel_le RC RC' ->
  rel_le (OqlStmt RE RD RC) (OqlStmt RE' RD' RC').
Proof.
  intros He Hd Hc ts n O. destruct O.
  - apply O_select; auto.
    + eapply Args_mono; [apply SelItem_mono; exact Hd|assumption].
    + eapply Args_mono; [apply FromItem_mono; exact Hc|assumption].
    + match goal with W : WhereR _ _ _ |- _ => destruct W; [apply Wh_none|apply Wh_some; auto] end.
    + match goal with W : OrderR _ _ _ |- _ => destruct W; [apply Ob_none|apply Ob_some; auto] end.
      eapply Args_mono; [apply OrdItem_mono; exact Hd|assumption].
  - apply O_fetch; auto. eapply Args_mono; [exact Hd|assumption].
Qed.
