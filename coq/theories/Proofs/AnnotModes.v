(* The definitions-only pass of AstAnnotator (walk_tree stops at the children of the root; what
   get_symbol_table_for_class_def_only gives the OTHER documents) builds, for every regular
   document, exactly the root table of the full pass. *)
From GoldV Require Import Base Tokens Lexer AstKinds Tree SymTab Scoping Annot AnnotProofs.

Lemma defs_seq t l : flat_map (top_seq true t) l = map top l.
Proof. induction l as [|c l IH]; [reflexivity|]. cbn [flat_map map top_seq app]. rewrite IH. reflexivity. Qed.

Definition pre_top (c : node) : Prop := silent_top c.
Definition mid_top (c : node) : Prop := silent_top c \/ is_uses c = true \/ (is_member c = true /\ is_method c = false).
Definition rest_top (c : node) : Prop := silent_top c \/ is_method c = true.

Lemma defs_pre l : forall st, Forall pre_top l -> fold_left visit (map top l) st = st.
Proof.
  induction l as [|c l IH]; intros st H; [reflexivity|]. inversion H as [|? ? Hs Hl]; subst. cbn [map fold_left].
  rewrite visit_silent by exact Hs. apply IH. exact Hl.
Qed.

Lemma defs_mid l : forall R D, Forall mid_top l ->
  fold_left visit (map top l) (mkSt R None D) =
  mkSt (mkTable (t_cls R) (t_syms R ++ map decl_sym (filter is_member l))
                (t_uses R ++ flat_map uses_names (filter is_uses l))) None D.
Proof.
  induction l as [|c l IH]; intros R D H.
  - cbn [map fold_left filter flat_map]. rewrite !app_nil_r. destruct R; reflexivity.
  - inversion H as [|? ? Hk Hl]; subst. cbn [map fold_left]. rewrite visit_mid by exact Hk.
    rewrite IH by exact Hl. cbn [t_cls t_syms t_uses filter]. unfold opt_sym, opt_uses.
    destruct (is_member c), (is_uses c); cbn [map flat_map]; rewrite <- ?app_assoc, ?app_nil_r; reflexivity.
Qed.

(* the (empty) table a method node gets in the definitions-only pass *)
Definition mtab0 (R : table) (m : node) : table := mkTable (t_cls R) [] (t_uses R).

Lemma defs_rest l : forall st, Forall rest_top l ->
  end_method (fold_left visit (map top l) st) =
  let e := end_method st in
  mkSt (mkTable (t_cls (st_root e)) (t_syms (st_root e) ++ map decl_sym (filter is_method l)) (t_uses (st_root e)))
       None
       (st_done e ++ map (mtab0 (st_root e)) (filter is_method l)).
Proof.
  induction l as [|c l IH]; intros st H.
  - cbn [map fold_left filter]. cbv zeta. pose proof (end_method_cur st) as Hc.
    destruct (end_method st) as [[rc rs ru] cu D]. cbn [st_cur] in Hc. subst cu.
    cbn [st_root st_done t_cls t_syms t_uses map]. rewrite !app_nil_r. reflexivity.
  - inversion H as [|? ? Hc Hl]; subst. cbn [map fold_left]. destruct Hc as [Hs|Hm].
    + rewrite visit_silent by exact Hs. rewrite IH by exact Hl. cbn [filter]. rewrite (silent_not_method c Hs). reflexivity.
    + rewrite (visit_method st c Hm). cbv zeta.
      pose proof (end_method_cur st) as Hc. destruct (end_method st) as [[rc rs ru] cu D]. cbn [st_cur] in Hc. subst cu.
      cbn [st_root st_done t_cls t_uses t_insert t_syms].
      rewrite IH by exact Hl. cbv zeta. cbn [end_method st_cur st_root st_done t_cls t_syms t_uses filter].
      rewrite Hm. cbn [map]. unfold mtab0, t_insert. cbn [t_cls t_syms t_uses app].
      rewrite <- !app_assoc. reflexivity.
Qed.

Lemma annotate_defs_split t pre h mid rest : reg_split t pre h mid rest ->
  annotate true t = mkSt (reg_root t h) None (map (mtab0 (reg_root t h)) (filter is_method (nchildren t))).
Proof.
  intro HR. pose proof HR as (Ht & Hch & Hpre & Hh & Hhq & Hmid & Hrest).
  unfold reg_root. rewrite (reg_members _ _ _ _ _ HR), (reg_methods _ _ _ _ _ HR), (reg_uses _ _ _ _ _ HR).
  unfold annotate, visit_seq. cbn [fold_left]. rewrite visit_silent by exact Ht.
  rewrite defs_seq, Hch, map_app, fold_left_app.
  rewrite (defs_pre pre) by (eapply Forall_impl; [|exact Hpre]; intros c [Hs _]; exact Hs).
  cbn [map fold_left]. rewrite (visit_header h Hh). rewrite map_app, fold_left_app.
  rewrite (defs_mid mid) by (eapply Forall_impl; [|exact Hmid]; intros c [Hk _]; exact Hk).
  rewrite (defs_rest rest) by (eapply Forall_impl; [|exact Hrest]; intros c [[Hs _]|[Hm _]]; [left; exact Hs|right; exact Hm]).
  cbv zeta. cbn [end_method st_cur st_root st_done t_cls t_syms t_uses app].
  rewrite map_app, <- app_assoc. reflexivity.
Qed.

(* both passes build the same root table: for_class_or_module, every symbol (name, symbol type,
   selection range, range) in the same order, the same uses; and one table per method node *)
Theorem modes_agree t : regular t ->
  root_table_of true t = root_table_of false t /\
  length (method_tables_of true t) = length (method_tables_of false t) /\
  Forall (fun T => t_syms T = [] /\ t_cls T = t_cls (root_table_of false t) /\ t_uses T = t_uses (root_table_of false t))
         (method_tables_of true t).
Proof.
  intros [Ht (pre & h & mid & rest & Hch & Hpre & Hh & Hhq & Hmid & Hrest)].
  assert (HR : reg_split t pre h mid rest) by (unfold reg_split; tauto).
  unfold root_table_of, method_tables_of.
  rewrite (annotate_defs_split t pre h mid rest HR), (annotate_regular_split t pre h mid rest HR).
  cbn [st_root st_done]. split; [reflexivity|]. split; [rewrite !map_length; reflexivity|].
  apply Forall_forall. intros T HT. apply in_map_iff in HT as (m & <- & _). unfold mtab0. cbn [t_syms t_cls t_uses]. auto.
Qed.
