(* C01: every request is answered exactly once, for every script and every pool schedule. *)
From GoldV Require Import Base Dispatch Server.
From Coq Require Import Permutation.

Lemma remove_nth_perm {A} k (l : list A) x r : remove_nth k l = Some (x, r) -> Permutation l (x :: r).
Proof.
  revert k x r. induction l as [|y l IH]; intros [|k] x r H; simpl in H; try discriminate.
  - inversion H; subst. apply Permutation_refl.
  - destruct (remove_nth k l) as [[z r']|] eqn:E; [|discriminate]. inversion H; subst.
    apply IH in E. eapply Permutation_trans; [apply perm_skip; exact E|]. apply perm_swap.
Qed.

(* the multiset of ids "sent or still pending" *)
Definition accounted (s : sstate) : list N := pending s ++ sent s.

Lemma finish_accounted k s : Permutation (accounted (finish k s)) (accounted s).
Proof.
  unfold finish, accounted. destruct (remove_nth k (pending s)) as [[id rest]|] eqn:E; [|apply Permutation_refl].
  simpl. apply remove_nth_perm in E.
  eapply Permutation_trans; [apply Permutation_sym; apply Permutation_middle|].
  apply Permutation_sym. eapply Permutation_trans; [apply Permutation_app_tail; exact E|]. apply Permutation_refl.
Qed.

Lemma finish_all_accounted ks s : Permutation (accounted (finish_all ks s)) (accounted s).
Proof.
  revert s. induction ks as [|k ks IH]; intro s; simpl; [apply Permutation_refl|].
  eapply Permutation_trans; [apply IH|apply finish_accounted].
Qed.

Lemma drain_sent s : Permutation (sent (drain s)) (accounted s).
Proof. unfold drain, accounted. simpl. apply Permutation_app_tail. apply Permutation_sym. apply Permutation_rev. Qed.

Lemma drain_no_pending s : pending (drain s) = [].
Proof. reflexivity. Qed.

Lemma send_accounted id s : Permutation (accounted (send id s)) (id :: accounted s).
Proof. unfold send, accounted. simpl. apply Permutation_sym. apply Permutation_middle. Qed.

Lemma submit_accounted id s : Permutation (accounted (submit id s)) (id :: accounted s).
Proof.
  unfold submit, accounted. simpl. rewrite <- app_assoc. simpl.
  apply Permutation_sym. apply Permutation_middle.
Qed.

(* with a reply on fall-through, every request message adds exactly its id *)
Lemma on_msg_req id meth s : fallthrough_reply = true ->
  Permutation (accounted (on_msg (MReq id meth) s)) (id :: accounted s).
Proof.
  intro Hf. unfold on_msg. destruct (lookup_method meth req_table) as [[|]|].
  - apply submit_accounted.
  - apply send_accounted.
  - rewrite Hf. apply send_accounted.
Qed.

Theorem serve_exactly_once : fallthrough_reply = true ->
  forall script sched s,
    Permutation (sent (fst (serve script sched s))) (expected_ids script ++ accounted s) /\
    pending (fst (serve script sched s)) = [].
Proof.
  intro Hf. induction script as [|m rest IH]; intros sched s; simpl.
  - split; [apply drain_sent|reflexivity].
  - pose proof (finish_all_accounted (hd [] sched) s) as Hfin.
    destruct m as [id meth|meth|id|].
    + destruct (IH (tl sched) (on_msg (MReq id meth) (finish_all (hd [] sched) s))) as [H1 H2].
      split; [|exact H2].
      eapply Permutation_trans; [exact H1|]. simpl.
      eapply Permutation_trans; [apply Permutation_app_head; apply on_msg_req; exact Hf|].
      eapply Permutation_trans; [apply Permutation_sym; apply Permutation_middle|].
      apply perm_skip. apply Permutation_app_head. exact Hfin.
    + destruct (IH (tl sched) (on_msg (MNotif meth) (finish_all (hd [] sched) s))) as [H1 H2].
      split; [|exact H2]. eapply Permutation_trans; [exact H1|]. simpl. apply Permutation_app_head. exact Hfin.
    + assert (Permutation (sent (drain (send id (finish_all (hd [] sched) s)))) (id :: accounted s)) as Hd.
      { eapply Permutation_trans; [apply drain_sent|]. eapply Permutation_trans; [apply send_accounted|].
        apply perm_skip. exact Hfin. }
      destruct rest as [|[ | | |] rest']; simpl; split; auto.
    + destruct (IH (tl sched) (on_msg MExit (finish_all (hd [] sched) s))) as [H1 H2].
      split; [|exact H2]. eapply Permutation_trans; [exact H1|]. simpl. apply Permutation_app_head. exact Hfin.
Qed.

(* clean exit exactly when the script ends with shutdown followed by exit *)
Fixpoint ends_cleanly (script : list msg) : bool :=
  match script with
  | [] => false
  | MShutdown _ :: MExit :: _ => true
  | MShutdown _ :: _ => false
  | _ :: rest => ends_cleanly rest
  end.

Theorem serve_status script : forall sched s, snd (serve script sched s) = if ends_cleanly script then 0 else 1.
Proof.
  induction script as [|m rest IH]; intros sched s; simpl; [reflexivity|].
  destruct m; try apply IH. destruct rest as [|[ | | |] rest']; reflexivity.
Qed.
