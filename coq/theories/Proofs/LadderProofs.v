(* C06, the core: precedence climbing.
   1. The operator ladder regenerated from body_parser.rs (Gen/Ladder.v, translator T3) IS the
      ladder of the model (ladder_matches_model, level by level, by reflexivity) and is well formed
      (ladder_ok, by computation).
   2. A generic theorem about [binops] towers over ANY operand parser: a token list derivable at
      level k by the declarative grammar [Exp] (left operand of a level-j operator: level >= j; right
      operand: level > j, i.e. left associativity; operands of lower level only as atoms, e.g. in
      parentheses) is parsed by the level-k parser into exactly the derived tree, whatever follows,
      provided what follows does not start with an operator of level >= k.  Unbounded depth.
   3. The same as a statement about an abstract syntax [bexp] with [flat] / [tree_of], and a
      parenthesising function that makes any [bexp] fit. *)
From GoldV Require Import Base Tokens Lexer AstKinds Tree Strings PComb Grammar Ladder RTComb.
From Coq Require Import Lia.

(* ---------- the tower of binops ---------- *)

Fixpoint climb (opps : list (P tok)) (ep : P node) : P node :=
  match opps with
  | [] => ep
  | o :: r => binops o (climb r ep)
  end.

Lemma skipn_nth_error {X} (l : list X) k x : nth_error l k = Some x -> skipn k l = x :: skipn (S k) l.
Proof.
  revert k. induction l as [|y l IH]; intros [|k] H; try discriminate.
  - inversion H. reflexivity.
  - simpl in H. simpl. rewrite (IH k H). reflexivity.
Qed.

(* the model's parser of ladder level k (0 = lowest precedence), over the operand parser [prim] *)
Definition model_level (k : nat) (prim : P node) : P node := climb (map tok_alt (skipn k ladder)) prim.

(* each function of Grammar.v's Ladder section is the binops of the generated operator set of its
   level over the next level: the generated table is the model's table *)
Lemma model_level_step k prim ops :
  nth_error ladder k = Some ops -> model_level k prim = binops (tok_alt ops) (model_level (S k) prim).
Proof.
  unfold model_level. intro H. rewrite (skipn_nth_error _ _ _ H). reflexivity.
Qed.

Theorem ladder_matches_model prim :
  parse_logical_or prim = model_level 0 prim /\
  parse_logical_and prim = model_level 1 prim /\
  parse_compare prim = model_level 2 prim /\
  parse_shifts prim = model_level 3 prim /\
  parse_bit_ops_2 prim = model_level 4 prim /\
  parse_bit_ops_1 prim = model_level 5 prim /\
  parse_terms prim = model_level 6 prim /\
  parse_factors prim = model_level 7 prim /\
  prim = model_level 8 prim /\
  length ladder = 8%nat /\
  parse_expr_body prim = memo CACHE_EXPR (alt [model_level 0 prim]).
Proof. repeat split; reflexivity. Qed.

(* the dot level below parse_primary *)
Theorem ladder_dot_matches_model re :
  ladder_dot = [TDot] /\ parse_dot_ops re = climb [exp_token TDot] (parse_dot_op re).
Proof. split; reflexivity. Qed.


(* ---------- ladder_ok, by computation on the generated table ---------- *)

Fixpoint nodup_ty (l : list ttype) : bool :=
  match l with [] => true | x :: r => negb (mem_ty x r) && nodup_ty r end.

(* tokens a primary expression can start with (first sets of parse_bracket_closure, parse_unary_op,
   parse_dot_ops, parse_literals) *)
Definition ident_types : list ttype :=
  [TIdentifier; TType; TDistinct; TFrom; TSelect; TTop; TUsing; TWhere; TAllVersionsOf;
   TPhantomsToo; TConditional; TDescending; TOrder; TBy; TFetch; TInto].
Definition literal_types : list ttype := [TStringLiteral; TNumericLiteral; TBooleanTrue; TBooleanFalse; TNil].
Definition prefix_types : list ttype := [TNot; TBNot; TAddressOf; TInherited; TMinus].
Definition postfix_types : list ttype := [TIncrement; TDecrement].
Definition primary_first : list ttype :=
  TOBracket :: TOSqrBracket :: prefix_types ++ ident_types ++ literal_types.
(* tokens that continue a primary after an identifier *)
Definition primary_continue : list ttype := [TDot; TOBracket; TOSqrBracket; TIncrement; TDecrement].

Definition ladder_ok_b (lad : list (list ttype)) : bool :=
  forallb (fun ops => negb (match ops with [] => true | _ => false end)) lad      (* no empty level: alt [] would panic *)
  && nodup_ty (concat lad)                                                          (* pairwise disjoint, no repetition *)
  && forallb (fun t => negb (mem_ty t primary_first) || tt_eqb t TMinus) (concat lad)   (* no operator starts a primary, except - *)
  && forallb (fun t => negb (mem_ty t primary_continue)) (concat lad)               (* no operator continues an identifier *)
  && negb (mem_ty TComment (concat lad))
  && negb (mem_ty TCBracket (concat lad)) && negb (mem_ty TComma (concat lad)).

Theorem ladder_ok : ladder_ok_b ladder = true /\ mem_ty TMinus (concat ladder) = true /\ mem_ty TMinus primary_first = true.
Proof. vm_compute. auto. Qed.

(* what ladder_ok_b means *)
Lemma nodup_ty_NoDup l : nodup_ty l = true -> NoDup l.
Proof.
  induction l as [|x l IH]; simpl; intro H; [constructor|].
  apply andb_true_iff in H as [H1 H2]. constructor; [|apply IH; exact H2].
  intro X. apply mem_ty_In in X. rewrite X in H1. discriminate.
Qed.

Lemma NoDup_concat_disjoint (lad : list (list ttype)) : NoDup (concat lad) ->
  forall j j' ty, In ty (nth j lad []) -> In ty (nth j' lad []) -> j = j'.
Proof.
  induction lad as [|ops lad IH]; intros Hnd j j' ty H1 H2.
  - destruct j; destruct H1.
  - simpl in Hnd.
    assert (NoDup (concat lad)) as Hr.
    { clear -Hnd. induction ops as [|o ops IH]; [exact Hnd|]. simpl in Hnd. inversion Hnd; subst. apply IH. assumption. }
    assert (forall x, In x ops -> In x (concat lad) -> False) as Hx.
    { clear -Hnd. induction ops as [|o ops IH]; intros x H1 H2; [destruct H1|].
      simpl in Hnd. inversion Hnd; subst. destruct H1 as [->|H1].
      - apply H3. apply in_or_app. right. exact H2.
      - apply (IH H4 x H1 H2). }
    assert (forall k, In ty (nth k lad []) -> In ty (concat lad)) as Hc.
    { clear. induction lad as [|o l IH]; intros k H; [destruct k; destruct H|].
      simpl. apply in_or_app. destruct k; [left; exact H|right; apply (IH k H)]. }
    destruct j as [|j], j' as [|j']; simpl in *; auto.
    + exfalso. apply (Hx ty H1 (Hc _ H2)).
    + exfalso. apply (Hx ty H2 (Hc _ H1)).
    + f_equal. apply (IH Hr j j' ty H1 H2).
Qed.

Lemma In_nth_concat (lad : list (list ttype)) k ty : In ty (nth k lad []) -> In ty (concat lad).
Proof.
  revert k. induction lad as [|o l IH]; intros k H; [destruct k; destruct H|].
  simpl. apply in_or_app. destruct k; [left; exact H|right; apply (IH k H)].
Qed.

Lemma ladder_disjoint : forall j j' ty, In ty (nth j ladder []) -> In ty (nth j' ladder []) -> j = j'.
Proof. apply NoDup_concat_disjoint. apply nodup_ty_NoDup. vm_compute. reflexivity. Qed.

Lemma ladder_no ty : mem_ty ty (concat ladder) = false -> forall j, ~ In ty (nth j ladder []).
Proof. intros H j X. apply In_nth_concat in X. apply mem_ty_In in X. congruence. Qed.

(* ---------- operator parsers ---------- *)

Definition op_spec (ops : list ttype) (opp : P tok) : Prop :=
  (forall t r, In (tty t) ops -> Parses opp (t :: r) r t) /\
  (forall i, (forall ty, hd_ty i = Some ty -> ~ In ty ops) -> Fails opp i).

Lemma op_spec_tok_alt ops : ops <> [] -> ~ In TComment ops -> op_spec ops (tok_alt ops).
Proof.
  intros Hne Hc. split.
  - intros t r H. apply tok_alt_ok; [exact H|]. intro X. rewrite X in H. contradiction.
  - intros i H. apply tok_alt_fails; assumption.
Qed.

Lemma op_spec_exp_token ty : ty <> TComment -> op_spec [ty] (exp_token ty).
Proof.
  intro Hc. split.
  - intros t r [H|[]]. apply exp_token_ok. auto.
  - intros i H. eapply FailsAt_Fails. apply exp_token_fail; [exact Hc|].
    intro X. apply (H ty X). left. reflexivity.
Qed.

(* ---------- the generic theorem ---------- *)

Lemma Forall2_len {X Y} (R : X -> Y -> Prop) l l' : Forall2 R l l' -> length l = length l'.
Proof. induction 1; simpl; congruence. Qed.

Lemma Forall2_nth_error {X Y} (R : X -> Y -> Prop) (d : X) l l' k y :
  Forall2 R l l' -> nth_error l' k = Some y -> R (nth k l d) y.
Proof.
  intro H. revert k. induction H as [|a b l l' Hab HF IH]; intros k Hk; [destruct k; discriminate|].
  destruct k; simpl in *; [inversion Hk; subst; exact Hab|apply IH; exact Hk].
Qed.

Section Climb.
  Variable lad : list (list ttype).
  Variable opps : list (P tok).
  Hypothesis Hops : Forall2 op_spec lad opps.
  Hypothesis Hdisj : forall j j' ty, In ty (nth j lad []) -> In ty (nth j' lad []) -> j = j'.
  Hypothesis Hnc : forall j, ~ In TComment (nth j lad []).

  Variable ep : P node.                              (* the operand parser *)
  Variable AtomR : list tok -> node -> Prop.         (* what the operand parser is known to accept *)
  Variable afollow : input -> Prop.                  (* ... when followed by this *)
  Hypothesis Hep : forall ts n rest, AtomR ts n -> afollow rest -> Parses ep (ts ++ rest) rest n.
  Hypothesis Hfol_op : forall t r j, In (tty t) (nth j lad []) -> afollow (t :: r).

  (* the declarative grammar of operator expressions over the ladder: [Exp k ts n] -- the tokens
     [ts] are an expression that may stand where level k is expected, and [n] is its tree *)
  Inductive Exp : nat -> list tok -> node -> Prop :=
  | X_atom k ts n : AtomR ts n -> Exp k ts n
  | X_bin k j op tl nl tr nr :
      In (tty op) (nth j lad []) -> (k <= j)%nat -> Exp j tl nl -> Exp (S j) tr nr ->
      Exp k (tl ++ op :: tr) (mk_binop op nl nr).

  (* what follows does not start with an operator of level >= k *)
  Definition follow (k : nat) (rest : input) : Prop :=
    forall ty j, hd_ty rest = Some ty -> In ty (nth j lad []) -> (j < k)%nat.

  Definition lev (k : nat) : P node := climb (skipn k opps) ep.

  Lemma Exp_weaken k k' ts n : Exp k ts n -> (k' <= k)%nat -> Exp k' ts n.
  Proof.
    intros H Hk. destruct H as [k ts n H|k j op tl nl tr nr H1 H2 H3 H4].
    - apply X_atom. exact H.
    - eapply X_bin; eauto. lia.
  Qed.

  Lemma follow_weaken k k' rest : follow k rest -> (k <= k')%nat -> follow k' rest.
  Proof. intros H Hk ty j H1 H2. specialize (H ty j H1 H2). lia. Qed.

  Lemma ops_length : length opps = length lad.
  Proof. symmetry. apply (Forall2_len _ _ _ Hops). Qed.

  Lemma op_spec_nth k opp : nth_error opps k = Some opp -> op_spec (nth k lad []) opp.
  Proof. apply Forall2_nth_error. exact Hops. Qed.

  Lemma lev_step k opp : nth_error opps k = Some opp -> lev k = binops opp (lev (S k)).
  Proof. intro H. unfold lev. rewrite (skipn_nth_error _ _ _ H). reflexivity. Qed.

  Lemma lev_top k : (length lad <= k)%nat -> lev k = ep.
  Proof. intro H. unfold lev. rewrite skipn_all2; [reflexivity|]. rewrite ops_length. exact H. Qed.

  (* the operator/operand pairs still to come at level k *)
  Definition item := (tok * list tok * node)%type.
  Definition chain (items : list item) : list tok := flat_map (fun x : item => fst (fst x) :: snd (fst x)) items.
  Definition fold_items (items : list item) (left : node) : node :=
    fold_left (fun acc (x : item) => mk_binop (fst (fst x)) acc (snd x)) items left.
  Definition item_ok (k : nat) (x : item) : Prop :=
    In (tty (fst (fst x))) (nth k lad []) /\ Exp (S k) (snd (fst x)) (snd x).

  Lemma chain_len items : (length items <= length (chain items))%nat.
  Proof. induction items as [|[[op ts] n] items IH]; simpl; [lia|]. rewrite app_length. lia. Qed.

  Lemma op_hd t r j : In (tty t) (nth j lad []) -> hd_ty (t :: r) = Some (tty t).
  Proof. intro H. apply hd_ty_cons. intro X. rewrite X in H. apply (Hnc j H). Qed.

  Lemma follow_after k items rest : Forall (item_ok k) items -> follow k rest -> follow (S k) (chain items ++ rest).
  Proof.
    intros Hi Hf. destruct items as [|[[op ts] n] items].
    - simpl. apply (follow_weaken k); [exact Hf|lia].
    - inversion Hi as [|x l [H1 H2] Hl]; subst. simpl in H1. intros ty j Hh Hin.
      cbn [chain flat_map fst snd app] in Hh. rewrite (op_hd _ _ _ H1) in Hh. inversion Hh; subst.
      rewrite (Hdisj j k _ Hin H1). lia.
  Qed.

  Lemma afollow_after k items rest : Forall (item_ok k) items -> afollow rest -> afollow (chain items ++ rest).
  Proof.
    intros Hi Hf. destruct items as [|[[op ts] n] items]; [exact Hf|].
    inversion Hi as [|x l [H1 H2] Hl]; subst. simpl in H1.
    cbn [chain flat_map fst snd app]. eapply Hfol_op. exact H1.
  Qed.

  Section Level.
    Variable k : nat.
    Variable opp : P tok.
    Hypothesis Hk : nth_error opps k = Some opp.
    (* the theorem one level up *)
    Hypothesis Hnext : forall ts nd rest, Exp (S k) ts nd -> follow (S k) rest -> afollow rest ->
      Parses (lev (S k)) (ts ++ rest) rest nd.

    Lemma chain_go : forall items left rest fuel, (length items < fuel)%nat ->
      Forall (item_ok k) items -> follow k rest -> afollow rest ->
      Parses (binops_go fuel opp (lev (S k)) left) (chain items ++ rest) rest (fold_items items left).
    Proof.
      destruct (op_spec_nth k opp Hk) as [Ho1 Ho2].
      induction items as [|[[op ts] n] items IH]; intros left rest fuel Hf Hi Hfo Haf.
      - destruct fuel as [|f]; [lia|]. simpl. apply binops_go_stop. apply Ho2.
        intros ty Hh Hin. specialize (Hfo ty k Hh Hin). lia.
      - destruct fuel as [|f]; [simpl in Hf; lia|].
        inversion Hi as [|x l [H1 H2] Hl]; subst. simpl in H1, H2.
        cbn [chain flat_map fst snd app fold_items fold_left]. rewrite <- app_assoc.
        eapply binops_go_step.
        + apply Ho1. exact H1.
        + apply Hnext; [exact H2|apply follow_after; assumption|eapply afollow_after; eassumption].
        + apply IH; auto. simpl in Hf. lia.
    Qed.

    Lemma from_next ts nd items rest : Exp (S k) ts nd -> Forall (item_ok k) items -> follow k rest -> afollow rest ->
      Parses (binops opp (lev (S k))) (ts ++ chain items ++ rest) rest (fold_items items nd).
    Proof.
      intros He Hi Hfo Haf. eapply binops_intro.
      - apply Hnext; [exact He|apply follow_after; assumption|eapply afollow_after; eassumption].
      - apply chain_go; auto. rewrite app_length. pose proof (chain_len items). lia.
    Qed.

    Lemma level_chain : forall k' ts nd, Exp k' ts nd -> (k <= k')%nat ->
      forall items rest, Forall (item_ok k) items -> follow k rest -> afollow rest ->
      Parses (binops opp (lev (S k))) (ts ++ chain items ++ rest) rest (fold_items items nd).
    Proof.
      induction 1 as [k' ts n Ha|k' j op tl nl tr nr Hin Hle Hl IHl Hr IHr]; intros Hkk items rest Hi Hfo Haf.
      - apply from_next; auto. apply X_atom. exact Ha.
      - destruct (Nat.eq_dec j k) as [->|Hne].
        + rewrite <- app_assoc. cbn [app].
          replace (op :: tr ++ chain items ++ rest) with (chain ((op, tr, nr) :: items) ++ rest)
            by (cbn [chain flat_map fst snd app]; rewrite <- app_assoc; reflexivity).
          change (fold_items items (mk_binop op nl nr)) with (fold_items ((op, tr, nr) :: items) nl).
          apply IHl; auto. constructor; [split; assumption|exact Hi].
        + apply from_next; auto. eapply X_bin; eauto. lia.
    Qed.
  End Level.

  (* the level-k parser of the tower parses every level-k expression into its tree *)
  Theorem climb_roundtrip : forall k ts nd rest, Exp k ts nd -> follow k rest -> afollow rest ->
    Parses (lev k) (ts ++ rest) rest nd.
  Proof.
    assert (forall n k, (n + k = length lad)%nat -> forall ts nd rest, Exp k ts nd -> follow k rest -> afollow rest ->
              Parses (lev k) (ts ++ rest) rest nd) as Main.
    { induction n as [|n IH]; intros k Hn ts nd rest He Hfo Haf.
      - rewrite lev_top by lia. destruct He as [k ts n Ha|k j op tl nl tr nr Hin Hle Hl Hr].
        + apply Hep; assumption.
        + rewrite nth_overflow in Hin by lia. destruct Hin.
      - destruct (nth_error opps k) as [opp|] eqn:Hk.
        2:{ apply nth_error_None in Hk. rewrite ops_length in Hk. lia. }
        rewrite (lev_step k opp Hk).
        pose proof (level_chain k opp Hk (IH (S k) ltac:(lia)) k ts nd He (le_n _) [] rest (Forall_nil _) Hfo Haf) as H.
        simpl in H. exact H. }
    intros k ts nd rest He Hfo Haf.
    destruct (le_lt_dec k (length lad)) as [Hle|Hgt].
    - apply (Main (length lad - k)%nat k); auto. lia.
    - rewrite lev_top by lia. destruct He as [k ts n Ha|k j op tl nl tr nr Hin Hle Hl Hr].
      + apply Hep; assumption.
      + rewrite nth_overflow in Hin by lia. destruct Hin.
  Qed.

  (* ---------- the same for an abstract syntax ---------- *)
  Section Syntax.
    Variable A : Type.
    Variable ra : A -> list tok.             (* tokens of an atom *)
    Variable na : A -> node.                 (* its tree *)
    Variable aok : A -> Prop.
    Hypothesis Hatom : forall a, aok a -> AtomR (ra a) (na a).

    Inductive bexp := Atom (a : A) | Bin (op : tok) (l r : bexp).

    Fixpoint render (e : bexp) : list tok :=
      match e with Atom a => ra a | Bin op l r => render l ++ op :: render r end.
    Fixpoint tree_of (e : bexp) : node :=
      match e with Atom a => na a | Bin op l r => mk_binop op (tree_of l) (tree_of r) end.

    (* level of an operator token: the index of the ladder level that contains its type *)
    Fixpoint level_in (l : list (list ttype)) (ty : ttype) : option nat :=
      match l with
      | [] => None
      | ops :: l' => if mem_ty ty ops then Some O else option_map S (level_in l' ty)
      end.
    Definition level (op : tok) : option nat := level_in lad (tty op).

    Lemma level_in_nth l ty j : level_in l ty = Some j -> In ty (nth j l []).
    Proof.
      revert j. induction l as [|ops l IH]; intros j H; [discriminate|]. simpl in H.
      destruct (mem_ty ty ops) eqn:E.
      - inversion H; subst. apply mem_ty_In. exact E.
      - destruct (level_in l ty) as [j'|]; [|discriminate]. inversion H; subst. simpl. apply IH. reflexivity.
    Qed.

    (* [fits k e]: e needs no parentheses where level k is expected: the left operand of a level-j
       operator is of level >= j, the right operand of level > j *)
    Fixpoint fits (k : nat) (e : bexp) : Prop :=
      match e with
      | Atom a => aok a
      | Bin op l r => exists j, level op = Some j /\ (k <= j)%nat /\ fits j l /\ fits (S j) r
      end.

    Lemma fits_Exp e : forall k, fits k e -> Exp k (render e) (tree_of e).
    Proof.
      induction e as [a|op l IHl r IHr]; intros k H; simpl in *.
      - apply X_atom. apply Hatom. exact H.
      - destruct H as (j & Hl & Hle & Hfl & Hfr). eapply X_bin; eauto. apply level_in_nth. exact Hl.
    Qed.

    Theorem binops_roundtrip : forall k e rest, fits k e -> follow k rest -> afollow rest ->
      Parses (lev k) (render e ++ rest) rest (tree_of e).
    Proof. intros k e rest H. apply climb_roundtrip. apply fits_Exp. exact H. Qed.

    (* parentheses exactly where needed: [wrap] turns a parenthesised expression into an atom *)
    Variable wrap : bexp -> A.
    Hypothesis Hwrap_na : forall e, na (wrap e) = tree_of e.
    Hypothesis Hwrap_ok : forall e, fits 0 e -> aok (wrap e).

    Fixpoint paren (k : nat) (e : bexp) : bexp :=
      match e with
      | Atom a => Atom a
      | Bin op l r =>
          match level op with
          | Some j => let e' := Bin op (paren j l) (paren (S j) r) in
                      if (k <=? j)%nat then e' else Atom (wrap e')
          | None => e
          end
      end.

    (* every operator of e is a ladder operator and every atom is fine *)
    Fixpoint ops_ok (e : bexp) : Prop :=
      match e with
      | Atom a => aok a
      | Bin op l r => level op <> None /\ ops_ok l /\ ops_ok r
      end.

    Lemma paren_fits e : ops_ok e -> forall k, fits k (paren k e) /\ tree_of (paren k e) = tree_of e.
    Proof.
      induction e as [a|op l IHl r IHr]; intros H k; simpl in *; [auto|].
      destruct H as (Hl & Hol & Hor). destruct (level op) as [j|] eqn:E; [|congruence].
      destruct (IHl Hol j) as [F1 T1]. destruct (IHr Hor (S j)) as [F2 T2].
      assert (fits j (Bin op (paren j l) (paren (S j) r))) as Fj.
      { simpl. exists j. rewrite E. repeat split; auto. }
      destruct (k <=? j)%nat eqn:Ek.
      - apply Nat.leb_le in Ek. split; [|simpl; congruence].
        simpl. exists j. rewrite E. repeat split; auto.
      - split.
        + simpl. apply Hwrap_ok. simpl. exists j. rewrite E. repeat split; auto. lia.
        + simpl. rewrite Hwrap_na. simpl. congruence.
    Qed.

    (* any expression, parenthesised where needed, parses to its own tree *)
    Corollary paren_roundtrip k e rest : ops_ok e -> follow k rest -> afollow rest ->
      Parses (lev k) (render (paren k e) ++ rest) rest (tree_of e).
    Proof.
      intros H Hf Ha. destruct (paren_fits e H k) as [F T]. rewrite <- T. apply binops_roundtrip; assumption.
    Qed.
  End Syntax.
End Climb.

Arguments Atom {A}. Arguments Bin {A}.
