(* C09, structural part: a method span [hdr ++ body ++ [endtok]] is parsed as a unit whose node and
   context effect are a function of hdr, body and endtok alone (the body is cut out by take_until
   and parsed on its own slice), and the top-level loop is compositional at such units.
   Nothing here depends on the grammar below the statement level: [g : G] is arbitrary. *)
From GoldV Require Import Base Tokens Lexer AstKinds Tree Strings PComb Grammar ParserWF GrammarWF.
From Coq Require Import Lia.

(* ---------- guards on the body tokens ---------- *)

Definition is_term (tys : list ttype) (t : tok) : bool := existsb (tt_eqb (tty t)) tys.
Definition no_term (tys : list ttype) (body : list tok) : bool := forallb (fun t => negb (is_term tys t)) body.

Definition proc_terms : list ttype := [TEndProc; TEnd].
Definition func_terms : list ttype := [TEndFunc; TEnd].

(* exp_token skips comment tokens, so what the header parsers see of the text that follows the
   header is its first non-comment token *)
Fixpoint first_sig (l : list tok) : option tok :=
  match l with
  | [] => None
  | t :: l' => if is_comment t then first_sig l' else Some t
  end.

(* the tokens a method header would still consume: `(` opens a parameter list, `#` extends the name
   to Name#Event, the rest are method modifiers *)
Definition header_ext_types : list ttype :=
  [TOBracket; TPound; TPrivate; TProtected; TFinal; TOverride; TExternal; TForward].

Definition extends_header (x : list tok) : bool :=
  match first_sig x with
  | Some t => existsb (tt_eqb (tty t)) header_ext_types
  | None => false
  end.

Lemma first_sig_app_term tys body e rest :
  is_term tys e = true -> existsb (tt_eqb TComment) tys = false ->
  first_sig (body ++ e :: rest) = first_sig (body ++ [e]).
Proof.
  intros He Hc. induction body as [|t body IH]; simpl.
  - assert (is_comment e = false) as ->; [|reflexivity].
    unfold is_comment. destruct (tt_eqb (tty e) TComment) eqn:E; [|reflexivity].
    apply tt_eqb_eq in E. unfold is_term in He. rewrite E in He. congruence.
  - destruct (is_comment t); auto.
Qed.

Lemma extends_header_app_term tys body e rest :
  is_term tys e = true -> existsb (tt_eqb TComment) tys = false ->
  extends_header (body ++ e :: rest) = extends_header (body ++ [e]).
Proof. intros. unfold extends_header. erewrite first_sig_app_term; eauto. Qed.

(* a terminator never extends a header *)
Lemma extends_header_body_term tys body e :
  is_term tys e = true -> existsb (tt_eqb TComment) tys = false ->
  (forall ty, In ty tys -> existsb (tt_eqb ty) header_ext_types = false) ->
  extends_header body = false -> extends_header (body ++ [e]) = false.
Proof.
  intros He Hc Hd. unfold extends_header. induction body as [|t body IH]; simpl.
  - intros _. assert (is_comment e = false) as ->.
    { unfold is_comment. destruct (tt_eqb (tty e) TComment) eqn:E; [|reflexivity].
      apply tt_eqb_eq in E. unfold is_term in He. rewrite E in He. congruence. }
    unfold is_term in He. apply existsb_exists in He as (ty & Hin & Hty). apply tt_eqb_eq in Hty. rewrite Hty.
    apply Hd. exact Hin.
  - destruct (is_comment t); auto.
Qed.

(* ---------- take_until cuts the body out independently of what follows ---------- *)

Lemma take_until_go_split tys body e rest acc :
  no_term tys body = true -> is_term tys e = true ->
  take_until_go tys (body ++ e :: rest) acc = (rest, rev acc ++ body, Some e).
Proof.
  revert acc. induction body as [|t body IH]; intros acc Hb He; simpl.
  - unfold is_term in He. rewrite He. rewrite app_nil_r. reflexivity.
  - simpl in Hb. apply andb_true_iff in Hb as [Ht Hb]. unfold is_term in Ht.
    apply negb_true_iff in Ht. rewrite Ht. rewrite IH; auto. simpl. rewrite <- app_assoc. reflexivity.
Qed.

Lemma take_until_go_all tys body acc :
  no_term tys body = true -> take_until_go tys body acc = ([], rev acc ++ body, None).
Proof.
  revert acc. induction body as [|t body IH]; intros acc Hb; simpl.
  - rewrite app_nil_r. reflexivity.
  - simpl in Hb. apply andb_true_iff in Hb as [Ht Hb]. unfold is_term in Ht.
    apply negb_true_iff in Ht. rewrite Ht. rewrite IH; auto. simpl. rewrite <- app_assoc. reflexivity.
Qed.

Lemma take_until_split tys body e rest c :
  no_term tys body = true -> is_term tys e = true ->
  take_until tys (body ++ e :: rest) c = (Ok rest (body, Some e), c).
Proof. intros. unfold take_until. rewrite take_until_go_split; auto. Qed.

Lemma take_until_all tys body c :
  no_term tys body = true -> take_until tys body c = (Ok [] (body, None), c).
Proof. intros. unfold take_until. rewrite take_until_go_all; auto. Qed.

(* ---------- contexts ---------- *)

Definition push_diags (ds : list pdiag) (c : ctx) : ctx :=
  mkCtx (ds ++ cdiags c) (ccache c) (cmemo c) (cevals c).

Lemma push_diags_nil c : push_diags [] c = c.
Proof. destruct c; reflexivity. Qed.

(* ---------- the method parsers, split into header and rest ---------- *)

Record hinfo := mkH { h_first : tok; h_name : node; h_params : option node; h_ret : option node;
                      h_mods : option (N * range * N) }.

Definition mflags (h : hinfo) : N := match h_mods h with Some (_, _, f) => f | None => 0 end.

Section Span.
  Variable g : G.

  Definition proc_header : P hinfo :=
    first <- exp_token TProc ;;
    name <- parse_method_name ;;
    ps <- parse_parameter_declaration_list (g_type g) ;;
    mods <- parse_method_modifiers ;;
    ret (mkH first name ps None mods).

  Definition func_header : P hinfo :=
    first <- exp_token TFunc ;;
    name <- parse_method_name ;;
    ps <- parse_parameter_declaration_list (g_type g) ;;
    _ <- exp_token TReturn ;;
    rt <- alt [parse_type_basic] ;;
    mods <- parse_method_modifiers ;;
    ret (mkH first name ps (Some rt) mods).

  (* the node the body's fallback range is taken from: modifiers, else (function) return type,
     else parameter list, else name *)
  Definition end_info (h : hinfo) : N * range :=
    match h_mods h with
    | Some (mr, r, _) => (mr, r)
    | None =>
        match h_ret h with
        | Some rt => (nraw rt, nrange rt)
        | None => match h_params h with
                  | Some n => (nraw n, nrange n)
                  | None => (nraw (h_name h), nrange (h_name h))
                  end
        end
    end.

  Definition method_node (h : hinfo) (body : option node) (endt : option tok) (end_ : range) : node :=
    match h_ret h with
    | None =>
        Node KAstProcedure (nident (h_name h)) (traw (h_first h)) (new_range (trange (h_first h)) end_)
             [(K_end, opt_toks endt); (K_flags, AN (mflags h))]
             (h_name h :: opt_list (h_params h) ++ opt_list body)
    | Some rt =>
        Node KAstFunction (nident (h_name h)) (traw (h_first h)) (new_range (trange (h_first h)) end_)
             [(K_end, opt_toks endt); (K_flags, AN (mflags h))]
             (h_name h :: rt :: opt_list (h_params h) ++ opt_list body)
    end.

  Definition method_finish (terms : list ttype) (msg : str) (h : hinfo) : P node :=
    '(body, endt, end_) <- method_tail g (h_first h) (fst (end_info h)) (snd (end_info h)) (h_mods h) terms msg ;;
    ret (method_node h body endt end_).

  Lemma proc_decl_split i c :
    parse_procedure_declaration g i c =
    bind proc_header (method_finish proc_terms S_proc_end_token_not_found) i c.
  Proof.
    unfold parse_procedure_declaration, proc_header, method_finish, bind.
    destruct (exp_token TProc i c) as [[r1 first|e m|s|] c1]; try reflexivity.
    destruct (parse_method_name r1 c1) as [[r2 name|e m|s|] c2]; try reflexivity.
    destruct (parse_parameter_declaration_list (g_type g) r2 c2) as [[r3 ps|e m|s|] c3]; try reflexivity.
    destruct (parse_method_modifiers r3 c3) as [[r4 mods|e m|s|] c4]; try reflexivity.
    unfold ret. cbn [h_first h_name h_params h_ret h_mods end_info].
    destruct mods as [[[mr rr] fl]|]; [|destruct ps as [pn|]]; cbn [fst snd]; reflexivity.
  Qed.

  Lemma func_decl_split i c :
    parse_function_declaration g i c =
    bind func_header (method_finish func_terms S_func_end_token_not_found) i c.
  Proof.
    unfold parse_function_declaration, func_header, method_finish, bind.
    destruct (exp_token TFunc i c) as [[r1 first|e m|s|] c1]; try reflexivity.
    destruct (parse_method_name r1 c1) as [[r2 name|e m|s|] c2]; try reflexivity.
    destruct (parse_parameter_declaration_list (g_type g) r2 c2) as [[r3 ps|e m|s|] c3]; try reflexivity.
    destruct (exp_token TReturn r3 c3) as [[r3' rtok|e m|s|] c3']; try reflexivity.
    destruct (alt [parse_type_basic] r3' c3') as [[r3'' rt|e m|s|] c3'']; try reflexivity.
    destruct (parse_method_modifiers r3'' c3'') as [[r4 mods|e m|s|] c4]; try reflexivity.
    unfold ret. cbn [h_first h_name h_params h_ret h_mods end_info].
    destruct mods as [[[mr rr] fl]|]; cbn [fst snd]; reflexivity.
  Qed.

  (* "hdr is a header": the header parsers succeed on hdr followed by anything that does not extend
     it, consume exactly hdr, and their effect on the context is to push a fixed list of diagnostics *)
  Definition is_header (hp : P hinfo) (hdr : list tok) (h : hinfo) (dh : list pdiag) : Prop :=
    forall x c, extends_header x = false -> hp (hdr ++ x) c = (Ok x h, push_diags dh c).

  (* ---------- the body on its own slice ---------- *)

  Lemma parse_method_body_input body i c b c2 :
    parse_method_body g body [] c = (Ok [] b, c2) -> parse_method_body g body i c = (Ok i b, c2).
  Proof.
    unfold parse_method_body. destruct body as [|first body'].
    - unfold ret. intro H. inversion H; subst. reflexivity.
    - unfold on_slice. match goal with |- context [bind ?p ?k (first :: body') c] => destruct (bind p k (first :: body') c) as [[r a|e m|s|] c1] end;
        intro H; inversion H; subst; reflexivity.
  Qed.

  Definition body_or_default (h : hinfo) (b : option node) : node :=
    match b with
    | Some n => n
    | None => Node KAstMethodBody S_method_body (fst (end_info h)) (snd (end_info h)) [] []
    end.

  (* the node of a complete method and of a method whose end keyword is missing *)
  Definition span_node (h : hinfo) (b : option node) (endtok : tok) : node :=
    method_node h (Some (body_or_default h b)) (Some endtok) (trange endtok).
  Definition open_node (h : hinfo) (b : option node) : node :=
    method_node h (Some (body_or_default h b)) None (snd (end_info h)).

  Lemma method_finish_span terms msg h body endtok rest c b c2 :
    has_method_body (h_mods h) = true ->
    no_term terms body = true -> is_term terms endtok = true ->
    parse_method_body g body [] c = (Ok [] b, c2) ->
    method_finish terms msg h (body ++ endtok :: rest) c = (Ok rest (span_node h b endtok), c2).
  Proof.
    intros Hb Hn He Hp. unfold method_finish, method_tail, bind. rewrite Hb.
    rewrite take_until_split; auto.
    rewrite (parse_method_body_input body rest c b c2 Hp). unfold ret. reflexivity.
  Qed.

  Lemma method_finish_open terms msg h body c b c2 :
    has_method_body (h_mods h) = true ->
    no_term terms body = true ->
    parse_method_body g body [] c = (Ok [] b, c2) ->
    method_finish terms msg h body c =
      (Ok [] (open_node h b), add_diag (mkDiag (trange (h_first h)) msg) c2).
  Proof.
    intros Hb Hn Hp. unfold method_finish, method_tail, bind. rewrite Hb.
    rewrite take_until_all; auto.
    rewrite (parse_method_body_input body [] c b c2 Hp). unfold with_ctx, ret. reflexivity.
  Qed.

  (* ---------- method_span ---------- *)

  Theorem method_span_proc hdr h dh body endtok rest c b c2 :
    is_header proc_header hdr h dh -> has_method_body (h_mods h) = true ->
    no_term proc_terms body = true -> is_term proc_terms endtok = true ->
    extends_header body = false ->
    parse_method_body g body [] (push_diags dh c) = (Ok [] b, c2) ->
    parse_procedure_declaration g (hdr ++ body ++ endtok :: rest) c = (Ok rest (span_node h b endtok), c2).
  Proof.
    intros Hh Hb Hn He Hx Hp. rewrite proc_decl_split. unfold bind.
    rewrite (Hh (body ++ endtok :: rest) c).
    - eapply method_finish_span; eauto.
    - erewrite extends_header_app_term; eauto.
      eapply extends_header_body_term; eauto.
      intros ty [<-|[<-|[]]]; reflexivity.
  Qed.

  Theorem method_span_func hdr h dh body endtok rest c b c2 :
    is_header func_header hdr h dh -> has_method_body (h_mods h) = true ->
    no_term func_terms body = true -> is_term func_terms endtok = true ->
    extends_header body = false ->
    parse_method_body g body [] (push_diags dh c) = (Ok [] b, c2) ->
    parse_function_declaration g (hdr ++ body ++ endtok :: rest) c = (Ok rest (span_node h b endtok), c2).
  Proof.
    intros Hh Hb Hn He Hx Hp. rewrite func_decl_split. unfold bind.
    rewrite (Hh (body ++ endtok :: rest) c).
    - eapply method_finish_span; eauto.
    - erewrite extends_header_app_term; eauto.
      eapply extends_header_body_term; eauto.
      intros ty [<-|[<-|[]]]; reflexivity.
  Qed.

  (* the method whose end keyword is missing: everything up to the end of the input is its body *)
  Theorem method_open_proc hdr h dh body c b c2 :
    is_header proc_header hdr h dh -> has_method_body (h_mods h) = true ->
    no_term proc_terms body = true -> extends_header body = false ->
    parse_method_body g body [] (push_diags dh c) = (Ok [] b, c2) ->
    parse_procedure_declaration g (hdr ++ body) c =
      (Ok [] (open_node h b), add_diag (mkDiag (trange (h_first h)) S_proc_end_token_not_found) c2).
  Proof.
    intros Hh Hb Hn Hx Hp. rewrite proc_decl_split. unfold bind.
    rewrite (Hh body c Hx). eapply method_finish_open; eauto.
  Qed.

  Theorem method_open_func hdr h dh body c b c2 :
    is_header func_header hdr h dh -> has_method_body (h_mods h) = true ->
    no_term func_terms body = true -> extends_header body = false ->
    parse_method_body g body [] (push_diags dh c) = (Ok [] b, c2) ->
    parse_function_declaration g (hdr ++ body) c =
      (Ok [] (open_node h b), add_diag (mkDiag (trange (h_first h)) S_func_end_token_not_found) c2).
  Proof.
    intros Hh Hb Hn Hx Hp. rewrite func_decl_split. unfold bind.
    rewrite (Hh body c Hx). eapply method_finish_open; eauto.
  Qed.

  (* ---------- the top-level loop at method boundaries ---------- *)

  (* a closed unit: a non-empty token block that the block parsers of the top-level loop turn into
     one node, whatever follows it, with a context effect that does not depend on what follows.
     [mm] is the memoisation switch of the run (a parameter of the context that no parser changes) *)
  Definition closed_unit (mm : bool) (M : list tok) (n : node) (fx : ctx -> ctx) : Prop :=
    M <> [] /\ (forall c, cmemo c = mm -> cmemo (fx c) = mm) /\
    forall rest c, cmemo c = mm -> alt (top_block_parsers g) (M ++ rest) c = (Ok rest n, fx c).

  Lemma top_loop_unit mm M n fx : closed_unit mm M n fx -> forall fuel whole acc rest c, cmemo c = mm ->
    top_loop g (S fuel) whole acc (M ++ rest) c = top_loop g fuel whole (n :: acc) rest (fx c).
  Proof.
    intros (Hne & _ & H) fuel whole acc rest c Hc. cbn [top_loop].
    destruct (M ++ rest) as [|t l] eqn:E.
    - destruct M; [congruence|discriminate].
    - rewrite <- E. rewrite H by exact Hc. reflexivity.
  Qed.

  Definition unit := (list tok * node * (ctx -> ctx))%type.
  Definition unit_ok (mm : bool) (u : unit) : Prop := let '(M, n, fx) := u in closed_unit mm M n fx.

  Fixpoint units_toks (us : list unit) : list tok :=
    match us with [] => [] | (M, _, _) :: us' => M ++ units_toks us' end.
  Definition units_nodes (us : list unit) : list node := map (fun u => snd (fst u)) us.
  Fixpoint units_fx (us : list unit) (c : ctx) : ctx :=
    match us with [] => c | (_, _, fx) :: us' => units_fx us' (fx c) end.

  Lemma units_fx_memo mm us : Forall (unit_ok mm) us -> forall c, cmemo c = mm -> cmemo (units_fx us c) = mm.
  Proof.
    induction 1 as [|[[M n] fx] us (_ & Hm & _) Hus IH]; intros c Hc; [exact Hc|]. cbn [units_fx]. apply IH. apply Hm. exact Hc.
  Qed.

  Theorem toplevel_concat_loop mm us : Forall (unit_ok mm) us -> forall fuel whole acc post c, cmemo c = mm ->
    top_loop g (length us + fuel) whole acc (units_toks us ++ post) c =
    top_loop g fuel whole (rev (units_nodes us) ++ acc) post (units_fx us c).
  Proof.
    induction 1 as [|[[M n] fx] us Hu Hus IH]; intros fuel whole acc post c Hc; [reflexivity|].
    cbn [length units_toks units_nodes units_fx map fst snd plus]. rewrite <- app_assoc.
    rewrite (top_loop_unit mm M n fx Hu) by exact Hc. rewrite IH by (destruct Hu as (_ & Hm & _); apply Hm; exact Hc).
    cbn [rev]. rewrite <- app_assoc. reflexivity.
  Qed.

  Lemma units_toks_length mm us : Forall (unit_ok mm) us -> (length us <= length (units_toks us))%nat.
  Proof.
    induction 1 as [|[[M n] fx] us [Hne _] Hus IH]; simpl; [lia|].
    rewrite app_length. destruct M; [congruence|simpl; lia].
  Qed.

  Lemma units_toks_app us1 us2 : units_toks (us1 ++ us2) = units_toks us1 ++ units_toks us2.
  Proof. induction us1 as [|[[M n] fx] us1 IH]; simpl; [reflexivity|]. rewrite IH, app_assoc. reflexivity. Qed.

  Lemma units_fx_app us1 us2 c : units_fx (us1 ++ us2) c = units_fx us2 (units_fx us1 c).
  Proof. revert c. induction us1 as [|[[M n] fx] us1 IH]; intro c; simpl; [reflexivity|]. apply IH. Qed.

  (* accumulator, fuel and `whole` are inessential *)
  Definition lift_nodes (f : list node -> list node) (r : res (list node) * ctx) : res (list node) * ctx :=
    match r with
    | (Ok rest l, c) => (Ok rest (f l), c)
    | r => r
    end.

  Lemma top_loop_acc fuel whole : forall a b i c,
    top_loop g fuel whole (a ++ b) i c = lift_nodes (fun l => rev b ++ l) (top_loop g fuel whole a i c).
  Proof.
    induction fuel as [|f IH]; intros a b i c; [reflexivity|].
    cbn [top_loop]. destruct i as [|t i'].
    - cbn [lift_nodes]. rewrite rev_app_distr. reflexivity.
    - destruct (alt (top_block_parsers g) (t :: i') c) as [[r n|be bm|s|] c1]; try reflexivity.
      + apply (IH (n :: a) b).
      + destruct (alt (top_decl_parsers g) (t :: i') c1) as [[r n|e m|s|] c2]; try reflexivity.
        * apply (IH (n :: a) b).
        * destruct (if ilen e <? ilen be then (e, m) else (be, bm)) as [me mm].
          destruct (match me with t0 :: _ => Some t0 | [] => match rev whole with t0 :: _ => Some t0 | [] => None end end);
            [apply IH|reflexivity].
  Qed.

  Lemma top_loop_acc0 fuel whole b i c :
    top_loop g fuel whole b i c = lift_nodes (fun l => rev b ++ l) (top_loop g fuel whole [] i c).
  Proof. apply (top_loop_acc fuel whole [] b). Qed.

  Lemma top_loop_fuel_mono fuel whole : forall k acc i c,
    fst (top_loop g fuel whole acc i c) <> NoFuel ->
    top_loop g (fuel + k) whole acc i c = top_loop g fuel whole acc i c.
  Proof.
    induction fuel as [|f IH]; intros k acc i c H; [cbn in H; congruence|].
    cbn [plus]. cbn [top_loop] in *. destruct i as [|t i']; [reflexivity|].
    destruct (alt (top_block_parsers g) (t :: i') c) as [[r n|be bm|s|] c1]; try reflexivity.
    - apply IH. exact H.
    - destruct (alt (top_decl_parsers g) (t :: i') c1) as [[r n|e m|s|] c2]; try reflexivity.
      + apply IH. exact H.
      + destruct (if ilen e <? ilen be then (e, m) else (be, bm)) as [me mm].
        destruct (match me with t0 :: _ => Some t0 | [] => match rev whole with t0 :: _ => Some t0 | [] => None end end);
          [apply IH; exact H|reflexivity].
  Qed.

  Definition last_tok (whole : list tok) : option tok :=
    match rev whole with t :: _ => Some t | [] => None end.

  Lemma top_loop_whole w1 w2 : last_tok w1 = last_tok w2 -> forall fuel acc i c,
    top_loop g fuel w1 acc i c = top_loop g fuel w2 acc i c.
  Proof.
    intros Hw. induction fuel as [|f IH]; intros acc i c; [reflexivity|].
    cbn [top_loop]. destruct i as [|t i']; [reflexivity|].
    destruct (alt (top_block_parsers g) (t :: i') c) as [[r n|be bm|s|] c1]; try reflexivity; [apply IH|].
    destruct (alt (top_decl_parsers g) (t :: i') c1) as [[r n|e m|s|] c2]; try reflexivity; [apply IH|].
    destruct (if ilen e <? ilen be then (e, m) else (be, bm)) as [me mm].
    unfold last_tok in Hw. destruct me as [|t0 me']; [rewrite Hw|].
    - destruct (match rev w2 with t0 :: _ => Some t0 | [] => None end); [apply IH|reflexivity].
    - apply IH.
  Qed.

  Lemma last_tok_app_cons a t b : last_tok (a ++ t :: b) = last_tok (t :: b).
  Proof.
    unfold last_tok. rewrite rev_app_distr. destruct (rev (t :: b)) as [|x l] eqn:E; [|reflexivity].
    apply (f_equal (@length tok)) in E. rewrite rev_length in E. discriminate.
  Qed.

  (* ---------- method spans are closed units ---------- *)

  Lemma exp_token_miss ty t l c :
    tt_eqb (tty t) ty = false -> is_comment t = false ->
    exp_token ty (t :: l) c = (Err (t :: l) (msg_unexpected (tty t)), c).
  Proof. intros H1 H2. unfold exp_token. cbn [exp_token_go]. rewrite H1, H2. reflexivity. Qed.

  Lemma proc_decl_fails_on_func t l c : tty t = TFunc ->
    parse_procedure_declaration g (t :: l) c = (Err (t :: l) (msg_unexpected (tty t)), c).
  Proof.
    intro Ht. unfold parse_procedure_declaration, bind. rewrite exp_token_miss; [reflexivity| |].
    - rewrite Ht. reflexivity.
    - unfold is_comment. rewrite Ht. reflexivity.
  Qed.

  Lemma proc_span_unit hdr h dh body endtok :
    is_header proc_header hdr h dh -> has_method_body (h_mods h) = true ->
    no_term proc_terms body = true -> is_term proc_terms endtok = true ->
    extends_header body = false ->
    forall mm b fx,
    (forall c, cmemo c = mm -> parse_method_body g body [] (push_diags dh c) = (Ok [] b, fx c)) ->
    (forall c, cmemo c = mm -> cmemo (fx c) = mm) ->
    closed_unit mm (hdr ++ body ++ [endtok]) (span_node h b endtok) fx.
  Proof.
    intros Hh Hb Hn He Hx mm b fx Hp Hm. split; [|split; [exact Hm|]].
    - intro E. apply (f_equal (@length tok)) in E. rewrite !app_length in E. simpl in E. lia.
    - intros rest c Hc. unfold top_block_parsers, alt. cbn [alt_go].
      replace ((hdr ++ body ++ [endtok]) ++ rest) with (hdr ++ body ++ endtok :: rest)
        by (rewrite <- !app_assoc; reflexivity).
      rewrite (method_span_proc hdr h dh body endtok rest c b (fx c)); auto.
  Qed.

  Lemma func_span_unit hdr h dh body endtok :
    is_header func_header hdr h dh -> has_method_body (h_mods h) = true ->
    no_term func_terms body = true -> is_term func_terms endtok = true ->
    extends_header body = false ->
    (exists t hdr', hdr = t :: hdr' /\ tty t = TFunc) ->
    forall mm b fx,
    (forall c, cmemo c = mm -> parse_method_body g body [] (push_diags dh c) = (Ok [] b, fx c)) ->
    (forall c, cmemo c = mm -> cmemo (fx c) = mm) ->
    closed_unit mm (hdr ++ body ++ [endtok]) (span_node h b endtok) fx.
  Proof.
    intros Hh Hb Hn He Hx (t & hdr' & -> & Ht) mm b fx Hp Hm. split; [|split; [exact Hm|]].
    - discriminate.
    - intros rest c Hc. unfold top_block_parsers, alt. cbn [alt_go].
      replace (((t :: hdr') ++ body ++ [endtok]) ++ rest) with ((t :: hdr') ++ body ++ endtok :: rest)
        by (rewrite <- !app_assoc; reflexivity).
      pose proof (proc_decl_fails_on_func t (hdr' ++ body ++ endtok :: rest) c Ht) as Hf.
      pose proof (method_span_func (t :: hdr') h dh body endtok rest c b (fx c) Hh Hb Hn He Hx (Hp c Hc)) as Hsp.
      cbn [app] in Hf, Hsp |- *. rewrite Hf, Hsp. reflexivity.
  Qed.
End Span.
