(* C17: the similarity relations "equal up to the letter case of words" on strings, tokens,
   attribute values and syntax trees, their boolean checkers (Model/Recase.v) and basic facts.
   Everything else of C17 (lexer, parser, tree consumers) is stated with these relations. *)
From GoldV Require Import Base Tokens Keywords Lexer AstKinds Tree Recase.

(* ---------- characters and strings ---------- *)

Definition ci_eq (a b : str) : Prop := upper a = upper b.

Lemma ci_eq_refl a : ci_eq a a.
Proof. reflexivity. Qed.
Lemma ci_eq_sym a b : ci_eq a b -> ci_eq b a.
Proof. unfold ci_eq. congruence. Qed.
Lemma ci_eq_trans a b c : ci_eq a b -> ci_eq b c -> ci_eq a c.
Proof. unfold ci_eq. congruence. Qed.

Lemma ci_eq_length a b : ci_eq a b -> length a = length b.
Proof.
  unfold ci_eq, upper. intro H. apply (f_equal (@length N)) in H. rewrite !map_length in H. exact H.
Qed.

Lemma ci_eq_app a a' b b' : ci_eq a a' -> ci_eq b b' -> ci_eq (a ++ b) (a' ++ b').
Proof. unfold ci_eq, upper. intros H1 H2. rewrite !map_app. congruence. Qed.

Lemma ci_eq_cons c a a' : ci_eq a a' -> ci_eq (c :: a) (c :: a').
Proof. unfold ci_eq, upper. intro H. cbn [map]. congruence. Qed.

Lemma same_ci_iff a b : same_ci a b = true <-> ci_eq a b.
Proof. unfold same_ci, ci_eqb, ci_eq. apply str_eqb_eq. Qed.

Lemma upc_cases c : upc c = c \/ (is_lower c = true /\ upc c = c - 32).
Proof. unfold upc. destruct (is_lower c); auto. Qed.

Lemma is_lower_bounds c : is_lower c = true <-> 97 <= c <= 122.
Proof.
  unfold is_lower. rewrite andb_true_iff, !N.leb_le. tauto.
Qed.
Lemma is_upper_bounds c : is_upper c = true <-> 65 <= c <= 90.
Proof.
  unfold is_upper. rewrite andb_true_iff, !N.leb_le. tauto.
Qed.

(* two characters with the same upper-casing are equal or the two cases of one ASCII letter *)
Lemma upc_eq_cases c d : upc c = upc d ->
  c = d \/ (is_lower c = true /\ d = c - 32) \/ (is_lower d = true /\ c = d - 32).
Proof.
  unfold upc. destruct (is_lower c) eqn:Ec, (is_lower d) eqn:Ed; intro H.
  - apply is_lower_bounds in Ec. apply is_lower_bounds in Ed. left. lia.
  - right. left. split; [reflexivity|]. congruence.
  - right. right. split; [reflexivity|]. congruence.
  - left. exact H.
Qed.

Lemma upc_upper_is_alpha c : is_alpha (upc c) = is_alpha c.
Proof.
  unfold upc. destruct (is_lower c) eqn:E; [|reflexivity].
  apply is_lower_bounds in E. unfold is_alpha, is_lower, is_upper.
  replace (97 <=? c) with true by (symmetry; apply N.leb_le; lia).
  replace (c <=? 122) with true by (symmetry; apply N.leb_le; lia).
  replace (65 <=? c - 32) with true by (symmetry; apply N.leb_le; lia).
  replace (c - 32 <=? 90) with true by (symmetry; apply N.leb_le; lia).
  rewrite !andb_true_r, orb_true_r. reflexivity.
Qed.

(* ---------- tokens ---------- *)

Record tok_sim (t t' : tok) : Prop := mkTokSim {
  ts_raw : traw t = traw t';
  ts_range : trange t = trange t';
  ts_ty : tty t = tty t';
  ts_val : ci_eq (tval t) (tval t');
  ts_exact : word_ty (tty t) = false -> tval t = tval t'
}.

Lemma tok_sim_refl t : tok_sim t t.
Proof. constructor; auto using ci_eq_refl. Qed.

Lemma tok_sim_sym t t' : tok_sim t t' -> tok_sim t' t.
Proof.
  intros [H1 H2 H3 H4 H5]. constructor; auto using ci_eq_sym.
  intro H. symmetry. apply H5. rewrite H3. exact H.
Qed.

Lemma tok_sim_trans a b c : tok_sim a b -> tok_sim b c -> tok_sim a c.
Proof.
  intros [A1 A2 A3 A4 A5] [B1 B2 B3 B4 B5]. constructor; [congruence|congruence|congruence| |].
  - eapply ci_eq_trans; eauto.
  - intro H. rewrite A5 by exact H. apply B5. rewrite <- A3. exact H.
Qed.

Lemma pos_eqb_eq a b : pos_eqb a b = true <-> a = b.
Proof.
  destruct a as [l c], b as [l' c']. unfold pos_eqb. cbn [pline pcol].
  rewrite andb_true_iff, !N.eqb_eq. split; [intros [-> ->]; reflexivity|intro H; inversion H; auto].
Qed.

Lemma range_eqb_eq a b : range_eqb a b = true <-> a = b.
Proof.
  destruct a as [s e], b as [s' e']. unfold range_eqb. cbn [rstart rend].
  rewrite andb_true_iff, !pos_eqb_eq. split; [intros [-> ->]; reflexivity|intro H; inversion H; auto].
Qed.

Lemma tok_simb_sound t t' : tok_simb t t' = true -> tok_sim t t'.
Proof.
  unfold tok_simb. rewrite !andb_true_iff. intros [[[[H1 H2] H3] H4] H5].
  apply N.eqb_eq in H1. apply range_eqb_eq in H2. apply tt_eqb_eq in H3. apply same_ci_iff in H4.
  constructor; auto. intro Hw. rewrite Hw in H5. cbn [orb] in H5. apply str_eqb_eq. exact H5.
Qed.

Lemma forall2b_sound {A} (f : A -> A -> bool) (R : A -> A -> Prop) :
  (forall x y, f x y = true -> R x y) -> forall l l', forall2b f l l' = true -> Forall2 R l l'.
Proof.
  intros Hf l. induction l as [|x l IH]; intros [|y l'] H; cbn [forall2b] in H; try discriminate; constructor.
  - apply Hf. apply andb_true_iff in H. tauto.
  - apply IH. apply andb_true_iff in H. tauto.
Qed.

(* ---------- attribute values and trees ---------- *)

Inductive aval_sim : aval -> aval -> Prop :=
| AVS_N n : aval_sim (AN n) (AN n)
| AVS_S s s' : ci_eq s s' -> aval_sim (AS s) (AS s')
| AVS_T t t' : tok_sim t t' -> aval_sim (AT t) (AT t')
| AVS_L l l' : Forall2 tok_sim l l' -> aval_sim (AL l) (AL l').

Definition attr_sim (a a' : N * aval) : Prop := fst a = fst a' /\ aval_sim (snd a) (snd a').

Inductive node_sim : node -> node -> Prop :=
| NodeSim k id id' raw rg at_ at' ch ch' :
    ci_eq id id' -> Forall2 attr_sim at_ at' -> Forall2 node_sim ch ch' ->
    node_sim (Node k id raw rg at_ ch) (Node k id' raw rg at' ch').

(* the induction principle with the hypothesis for the children *)
Lemma node_sim_ind' (Q : node -> node -> Prop) :
  (forall k id id' raw rg at_ at' ch ch',
      ci_eq id id' -> Forall2 attr_sim at_ at' -> Forall2 node_sim ch ch' -> Forall2 Q ch ch' ->
      Q (Node k id raw rg at_ ch) (Node k id' raw rg at' ch')) ->
  forall n n', node_sim n n' -> Q n n'.
Proof.
  intro HQ. fix IH 3. intros n n' H. destruct H as [k id id' raw rg at_ at' ch ch' H1 H2 H3].
  apply HQ; auto.
  revert ch ch' H3. fix IHl 3. intros ch ch' H3. destruct H3 as [|x y l l' Hxy Hl]; constructor.
  - apply IH. exact Hxy.
  - apply IHl. exact Hl.
Qed.

Lemma node_sim_mk k k' id id' raw raw' rg rg' at_ at' ch ch' :
  k = k' -> raw = raw' -> rg = rg' -> ci_eq id id' -> Forall2 attr_sim at_ at' -> Forall2 node_sim ch ch' ->
  node_sim (Node k id raw rg at_ ch) (Node k' id' raw' rg' at' ch').
Proof. intros -> -> ->. apply NodeSim. Qed.

Lemma node_sim_kind n n' : node_sim n n' -> nkind n = nkind n'.
Proof. destruct 1; reflexivity. Qed.
Lemma node_sim_raw n n' : node_sim n n' -> nraw n = nraw n'.
Proof. destruct 1; reflexivity. Qed.
Lemma node_sim_range n n' : node_sim n n' -> nrange n = nrange n'.
Proof. destruct 1; reflexivity. Qed.
Lemma node_sim_ident n n' : node_sim n n' -> ci_eq (nident n) (nident n').
Proof. destruct 1; assumption. Qed.
Lemma node_sim_attrs n n' : node_sim n n' -> Forall2 attr_sim (nattrs n) (nattrs n').
Proof. destruct 1; assumption. Qed.
Lemma node_sim_children n n' : node_sim n n' -> Forall2 node_sim (nchildren n) (nchildren n').
Proof. destruct 1; assumption. Qed.
Lemma node_sim_is_kind k n n' : node_sim n n' -> is_kind k n = is_kind k n'.
Proof. intro H. unfold is_kind. rewrite (node_sim_kind _ _ H). reflexivity. Qed.

Lemma Forall2_refl {A} (R : A -> A -> Prop) : (forall x, R x x) -> forall l, Forall2 R l l.
Proof. intros HR l. induction l; constructor; auto. Qed.

Lemma aval_sim_refl v : aval_sim v v.
Proof. destruct v; constructor; auto using ci_eq_refl, tok_sim_refl. apply Forall2_refl. apply tok_sim_refl. Qed.

Lemma node_sim_refl : forall n, node_sim n n.
Proof.
  fix IH 1. intros [k id raw rg at_ ch]. apply NodeSim.
  - apply ci_eq_refl.
  - apply Forall2_refl. intros [a v]. split; [reflexivity|apply aval_sim_refl].
  - induction ch as [|c ch IHc]; constructor; [apply IH|exact IHc].
Qed.

(* attribute look-ups on similar trees *)
Lemma attr_sim_lookup k l l' : Forall2 attr_sim l l' ->
  match attr k l, attr k l' with
  | Some v, Some v' => aval_sim v v'
  | None, None => True
  | _, _ => False
  end.
Proof.
  induction 1 as [|[a v] [a' v'] l l' [Ha Hv] Hl IH]; cbn [attr]; [exact I|].
  cbn [fst snd] in Ha, Hv. subst a'. destruct (k =? a); [exact Hv|exact IH].
Qed.

Definition opt_tok_sim (o o' : option tok) : Prop :=
  match o, o' with
  | Some t, Some t' => tok_sim t t'
  | None, None => True
  | _, _ => False
  end.

Lemma attr_tok_sim k n n' : node_sim n n' -> opt_tok_sim (attr_tok k n) (attr_tok k n').
Proof.
  intro H. unfold attr_tok. pose proof (attr_sim_lookup k _ _ (node_sim_attrs _ _ H)) as L.
  destruct (attr k (nattrs n)) as [v|], (attr k (nattrs n')) as [v'|]; try contradiction; [|exact I].
  destruct L as [n0|s s' Hs|t t' Ht|l l' Hl]; cbn [opt_tok_sim]; auto.
  destruct Hl; cbn [opt_tok_sim]; auto.
Qed.

Lemma attr_flags_sim n n' : node_sim n n' -> attr_flags n = attr_flags n'.
Proof.
  intro H. unfold attr_flags. pose proof (attr_sim_lookup K_flags _ _ (node_sim_attrs _ _ H)) as L.
  destruct (attr K_flags (nattrs n)) as [v|], (attr K_flags (nattrs n')) as [v'|]; try contradiction; [|reflexivity].
  destruct L; reflexivity.
Qed.

Lemma Forall2_nth_error {A} (R : A -> A -> Prop) l l' i : Forall2 R l l' ->
  match nth_error l i, nth_error l' i with
  | Some x, Some y => R x y
  | None, None => True
  | _, _ => False
  end.
Proof.
  intro H. revert i. induction H as [|x y l l' Hxy Hl IH]; intros [|i]; cbn [nth_error]; auto.
  apply IH.
Qed.

(* ---------- soundness of the boolean checkers ---------- *)

Lemma aval_simb_sound v v' : aval_simb v v' = true -> aval_sim v v'.
Proof.
  destruct v, v'; cbn [aval_simb]; try discriminate; intro H.
  - apply N.eqb_eq in H. subst. constructor.
  - constructor. apply same_ci_iff. exact H.
  - constructor. apply tok_simb_sound. exact H.
  - constructor. eapply forall2b_sound; [apply tok_simb_sound|exact H].
Qed.

Lemma attr_simb_sound a a' : attr_simb a a' = true -> attr_sim a a'.
Proof.
  unfold attr_simb, attr_sim. rewrite andb_true_iff, N.eqb_eq. intros [H1 H2]. split; [exact H1|].
  apply aval_simb_sound. exact H2.
Qed.

Lemma node_simb_sound : forall n n', node_simb n n' = true -> node_sim n n'.
Proof.
  fix IH 1. intros [k id raw rg at_ ch] [k' id' raw' rg' at' ch'] H. cbn [node_simb] in H.
  rewrite !andb_true_iff in H. destruct H as [[[[[H1 H2] H3] H4] H5] H6].
  apply ak_eqb_eq in H1. apply same_ci_iff in H2. apply N.eqb_eq in H3. apply range_eqb_eq in H4.
  apply node_sim_mk; auto.
  - eapply forall2b_sound; [apply attr_simb_sound|exact H5].
  - clear - H6 IH. revert ch' H6. induction ch as [|c ch IHc]; intros [|c' ch'] H6; try discriminate; constructor.
    + apply IH. apply andb_true_iff in H6. tauto.
    + apply IHc. apply andb_true_iff in H6. tauto.
Qed.

(* ---------- declarations left as written ---------- *)

Definition decl_exact1 (n n' : node) : Prop :=
  (decl_kind (nkind n) = true ->
     nident n = nident n' /\
     option_map tval (attr_tok K_ident n) = option_map tval (attr_tok K_ident n')) /\
  (meth_kind (nkind n) = true -> child_ident0 n = child_ident0 n').

Inductive decl_exact : node -> node -> Prop :=
| DeclExact n n' : decl_exact1 n n' -> Forall2 decl_exact (nchildren n) (nchildren n') -> decl_exact n n'.

Lemma decl_exact_ind' (Q : node -> node -> Prop) :
  (forall n n', decl_exact1 n n' -> Forall2 decl_exact (nchildren n) (nchildren n') ->
                Forall2 Q (nchildren n) (nchildren n') -> Q n n') ->
  forall n n', decl_exact n n' -> Q n n'.
Proof.
  intro HQ. fix IH 3. intros n n' H. destruct H as [n n' H1 H2]. apply HQ; auto.
  revert H2. generalize (nchildren n) (nchildren n'). fix IHl 3. intros l l' H2.
  destruct H2 as [|x y l l' Hxy Hl]; constructor; [apply IH; exact Hxy|apply IHl; exact Hl].
Qed.

Lemma decl_exact_here n n' : decl_exact n n' -> decl_exact1 n n'.
Proof. destruct 1; assumption. Qed.
Lemma decl_exact_children n n' : decl_exact n n' -> Forall2 decl_exact (nchildren n) (nchildren n').
Proof. destruct 1; assumption. Qed.

Lemma opt_str_eqb_eq a b : opt_str_eqb a b = true -> a = b.
Proof.
  destruct a, b; cbn [opt_str_eqb]; try discriminate; auto. intro H. apply str_eqb_eq in H. congruence.
Qed.

Lemma decl_exact1b_sound n n' : decl_exact1b n n' = true -> decl_exact1 n n'.
Proof.
  unfold decl_exact1b, decl_exact1. rewrite andb_true_iff. intros [H1 H2]. split; intro Hk.
  - rewrite Hk in H1. cbn [negb orb] in H1. apply andb_true_iff in H1 as [A B].
    split; [apply str_eqb_eq; exact A|apply opt_str_eqb_eq; exact B].
  - rewrite Hk in H2. cbn [negb orb] in H2. apply str_eqb_eq. exact H2.
Qed.

Lemma decl_exactb_sound : forall n n', decl_exactb n n' = true -> decl_exact n n'.
Proof.
  fix IH 1. intros n n' H.
  destruct n as [k id raw rg at_ ch], n' as [k' id' raw' rg' at' ch'].
  cbn [decl_exactb] in H. apply andb_true_iff in H as [H1 H2].
  constructor; [apply decl_exact1b_sound; exact H1|]. cbn [nchildren].
  clear - H2 IH. revert ch' H2. induction ch as [|c ch IHc]; intros [|c' ch'] H2; try discriminate; constructor.
  - apply IH. apply andb_true_iff in H2. tauto.
  - apply IHc. apply andb_true_iff in H2. tauto.
Qed.

Lemma decl_exact_refl : forall n, decl_exact n n.
Proof.
  fix IH 1. intro n. constructor.
  - split; intros _; auto.
  - destruct n as [k id raw rg at_ ch]. cbn [nchildren]. induction ch as [|c ch IHc]; constructor; [apply IH|exact IHc].
Qed.
