(* A relation-generic pass over the grammar model.  For ANY predicate [R] on parsers that is closed
   under the combinators of Model/PComb.v (the section hypotheses below: one per combinator, plus
   the two hand-written loops of the statement grammar), every parser of the type, expression, OQL
   and statement grammar satisfies [R] at every fuel level (gram_R).  The per-function lemmas are
   proved once, here; a concrete relation only has to supply the combinator lemmas
   (FrameRel.v: context framing / cache insensitivity; DiagRel.v: provenance of diagnostic ranges). *)
From GoldV Require Import Base Tokens Lexer AstKinds Tree Strings PComb Grammar ParserWF GrammarWF.

Section AbstractRel.
  Variable Rl : forall A : Type, P A -> Prop.
  Notation R := (Rl _).

  Hypothesis H_ret : forall A (a : A), R (ret a).
  Hypothesis H_fail : forall A m, R (@fail A m).
  Hypothesis H_panic : forall A s, R (fun (i : input) (c : ctx) => (@Panic A s, c)).
  Hypothesis H_nofuel : R out_of_fuel.
  Hypothesis H_bind : forall A B (p : P A) (k : A -> P B), R p -> (forall a, R (k a)) -> R (bind p k).
  Hypothesis H_prepend : forall A pre (p : P A), R p -> R (prepend pre p).
  Hypothesis H_rae : forall A (p : P A), R p -> R (recover_at_error p).
  Hypothesis H_opt : forall A (p : P A), R p -> R (opt p).
  Hypothesis H_exp_token : forall ty, R (exp_token ty).
  Hypothesis H_exp_ident : forall v, R (exp_ident_with_value v).
  Hypothesis H_take_until : forall tys, R (take_until tys).
  Hypothesis H_alt : forall A (ps : list (P A)), Forall (Rl A) ps -> R (alt ps).
  Hypothesis H_sep_tokens : forall item sep, R (sep_tokens item sep).
  Hypothesis H_sep_list : forall A (p : P A) sep, R p -> R (sep_list p sep).
  Hypothesis H_until : forall A (stop : P tok) (p : P A), R stop -> R p -> R (until_w_ctx stop p).
  Hypothesis H_until_strict : forall A (stop : P tok) (p : P A), R stop -> R p -> R (until_strict stop p).
  Hypothesis H_until_no_match : forall A (p : P A), R p -> R (until_no_match p).
  Hypothesis H_binops : forall opp ep, R opp -> R ep -> R (binops opp ep).
  Hypothesis H_memo : forall k p, R p -> R (memo k p).
  Hypothesis H_memo_ok_only : forall k p, R p -> R (memo_ok_only k p).
  Hypothesis H_if_block : forall pe rs, R pe -> R rs -> R (parse_if_block pe rs).
  Hypothesis H_stmt_shape : forall ps qs, Forall (Rl node) ps -> R (alt qs) -> R (stmt_body_shape ps qs).

  Lemma R_seq_tokens tys : R (seq_tokens tys).
  Proof.
    induction tys as [|ty tys IH]; simpl; [apply H_ret|].
    apply H_bind; [apply H_exp_token|]. intro t. apply H_bind; [exact IH|]. intro ts. apply H_ret.
  Qed.

  Lemma R_tok_alt tys : R (tok_alt tys).
  Proof.
    unfold tok_alt. apply H_alt. induction tys as [|t tys IH]; simpl; constructor; [apply H_exp_token|exact IH].
  Qed.

  Create HintDb rdb.

  Ltac rtac :=
    intros; cbv beta;
    lazymatch goal with
    | |- Rl _ (fun _ c => (Panic _, c)) => apply H_panic
    | |- Rl _ (bind _ _) => apply H_bind; [ solve [rtac] | intros ?; solve [rtac] ]
    | |- Rl _ (ret _) => apply H_ret
    | |- Rl _ (fail _) => apply H_fail
    | |- Rl _ (prepend _ _) => apply H_prepend; solve [rtac]
    | |- Rl _ (opt _) => apply H_opt; solve [rtac]
    | |- Rl _ (recover_at_error _) => apply H_rae; solve [rtac]
    | |- Rl _ (sep_list _ _) => apply H_sep_list; solve [rtac]
    | |- Rl _ (until_w_ctx _ _) => apply H_until; solve [rtac]
    | |- Rl _ (until_strict _ _) => apply H_until_strict; solve [rtac]
    | |- Rl _ (until_no_match _) => apply H_until_no_match; solve [rtac]
    | |- Rl _ (take_until _) => apply H_take_until
    | |- Rl _ (exp_token _) => apply H_exp_token
    | |- Rl _ (exp_ident_with_value _) => apply H_exp_ident
    | |- Rl _ (tok_alt _) => apply R_tok_alt
    | |- Rl _ (seq_tokens _) => apply R_seq_tokens
    | |- Rl _ (sep_tokens _ _) => apply H_sep_tokens
    | |- Rl _ (binops _ _) => apply H_binops; solve [rtac]
    | |- Rl _ (memo _ _) => apply H_memo; solve [rtac]
    | |- Rl _ (memo_ok_only _ _) => apply H_memo_ok_only; solve [rtac]
    | |- Rl _ (alt _) => apply H_alt; repeat (apply Forall_cons || apply Forall_nil); solve [rtac]
    | |- Rl _ (match ?x with _ => _ end) => destruct x; solve [rtac]
    | |- Rl _ ?p => first [ assumption | solve [eauto 3 with rdb] | (progress unfold p); solve [rtac] ]
    end.

  Lemma R_parse_comment : R parse_comment.
  Proof. intros. unfold parse_comment. rtac. Qed.
  Hint Resolve R_parse_comment : rdb.

  Lemma R_parse_annotations : R parse_annotations.
  Proof. intros. unfold parse_annotations. rtac. Qed.
  Hint Resolve R_parse_annotations : rdb.

  Lemma R_parse_literal_basic : R parse_literal_basic.
  Proof. intros. unfold parse_literal_basic. rtac. Qed.
  Hint Resolve R_parse_literal_basic : rdb.

  Lemma R_parse_ident_token : R parse_ident_token.
  Proof. intros. unfold parse_ident_token. rtac. Qed.
  Hint Resolve R_parse_ident_token : rdb.

  Lemma R_parse_identifier : R parse_identifier.
  Proof. intros. unfold parse_identifier. rtac. Qed.
  Hint Resolve R_parse_identifier : rdb.

  Lemma R_parse_type_basic : R parse_type_basic.
  Proof. intros. unfold parse_type_basic. rtac. Qed.
  Hint Resolve R_parse_type_basic : rdb.

  Lemma R_parse_enum_variant : R parse_enum_variant.
  Proof. intros. unfold parse_enum_variant. rtac. Qed.
  Hint Resolve R_parse_enum_variant : rdb.

  Lemma R_parse_type_sized : R parse_type_sized.
  Proof. intros. unfold parse_type_sized. rtac. Qed.
  Hint Resolve R_parse_type_sized : rdb.

  Lemma R_parse_type_enum : R parse_type_enum.
  Proof. intros. unfold parse_type_enum. rtac. Qed.
  Hint Resolve R_parse_type_enum : rdb.

  Lemma R_parse_type_composed : R parse_type_composed.
  Proof. intros. unfold parse_type_composed. rtac. Qed.
  Hint Resolve R_parse_type_composed : rdb.

  Lemma R_parse_type_reference_options : R parse_type_reference_options.
  Proof. intros. unfold parse_type_reference_options. rtac. Qed.
  Hint Resolve R_parse_type_reference_options : rdb.

  Lemma R_parse_type_reference : R parse_type_reference.
  Proof. intros. unfold parse_type_reference. rtac. Qed.
  Hint Resolve R_parse_type_reference : rdb.

  Lemma R_parse_type_range : R parse_type_range.
  Proof. intros. unfold parse_type_range. rtac. Qed.
  Hint Resolve R_parse_type_range : rdb.

  Lemma R_parse_type_set : R parse_type_set.
  Proof. intros. unfold parse_type_set. rtac. Qed.
  Hint Resolve R_parse_type_set : rdb.

  Lemma R_parse_type_pointer : R parse_type_pointer.
  Proof. intros. unfold parse_type_pointer. rtac. Qed.
  Hint Resolve R_parse_type_pointer : rdb.

  Lemma R_parse_type_array_index : R parse_type_array_index.
  Proof. intros. unfold parse_type_array_index. rtac. Qed.
  Hint Resolve R_parse_type_array_index : rdb.

  Lemma R_parse_type_array : R parse_type_array.
  Proof. intros. unfold parse_type_array. rtac. Qed.
  Hint Resolve R_parse_type_array : rdb.

  Lemma R_parse_type_instanceof : R parse_type_instanceof.
  Proof. intros. unfold parse_type_instanceof. rtac. Qed.
  Hint Resolve R_parse_type_instanceof : rdb.

  Lemma R_parse_type_record_field rec : R rec -> R (parse_type_record_field rec).
  Proof. intros. unfold parse_type_record_field. rtac. Qed.
  Hint Resolve R_parse_type_record_field : rdb.

  Lemma R_parse_type_record rec : R rec -> R (parse_type_record rec).
  Proof. intros. unfold parse_type_record. rtac. Qed.
  Hint Resolve R_parse_type_record : rdb.

  Lemma R_parse_parameter_declaration rec : R rec -> R (parse_parameter_declaration rec).
  Proof. intros. unfold parse_parameter_declaration. rtac. Qed.
  Hint Resolve R_parse_parameter_declaration : rdb.

  Lemma R_parse_parameter_declaration_list rec : R rec -> R (parse_parameter_declaration_list rec).
  Proof. intros. unfold parse_parameter_declaration_list. rtac. Qed.
  Hint Resolve R_parse_parameter_declaration_list : rdb.

  Lemma R_parse_type_procedure rec : R rec -> R (parse_type_procedure rec).
  Proof. intros. unfold parse_type_procedure. rtac. Qed.
  Hint Resolve R_parse_type_procedure : rdb.

  Lemma R_parse_type_function rec : R rec -> R (parse_type_function rec).
  Proof. intros. unfold parse_type_function. rtac. Qed.
  Hint Resolve R_parse_type_function : rdb.

  Lemma R_parse_type_body rec : R rec -> R (parse_type_body rec).
  Proof. intros. unfold parse_type_body. rtac. Qed.
  Hint Resolve R_parse_type_body : rdb.

  Lemma R_parse_constant_declaration : R parse_constant_declaration.
  Proof. intros. unfold parse_constant_declaration. rtac. Qed.
  Hint Resolve R_parse_constant_declaration : rdb.

  Lemma R_parse_uses : R parse_uses.
  Proof. intros. unfold parse_uses. rtac. Qed.
  Hint Resolve R_parse_uses : rdb.

  Lemma R_parse_type_declaration ptype : R ptype -> R (parse_type_declaration ptype).
  Proof. intros. unfold parse_type_declaration. rtac. Qed.
  Hint Resolve R_parse_type_declaration : rdb.

  Lemma R_parse_local_var_decl ptype : R ptype -> R (parse_local_var_decl ptype).
  Proof. intros. unfold parse_local_var_decl. rtac. Qed.
  Hint Resolve R_parse_local_var_decl : rdb.

  Lemma R_parse_literal_set rp : R rp -> R (parse_literal_set rp).
  Proof. intros. unfold parse_literal_set. rtac. Qed.
  Hint Resolve R_parse_literal_set : rdb.

  Lemma R_parse_literals rp : R rp -> R (parse_literals rp).
  Proof. intros. unfold parse_literals. rtac. Qed.
  Hint Resolve R_parse_literals : rdb.

  Lemma R_parse_method_call re : R re -> R (parse_method_call re).
  Proof. intros. unfold parse_method_call. rtac. Qed.
  Hint Resolve R_parse_method_call : rdb.

  Lemma R_parse_array_access re : R re -> R (parse_array_access re).
  Proof. intros. unfold parse_array_access. rtac. Qed.
  Hint Resolve R_parse_array_access : rdb.

  Lemma R_parse_dot_op re : R re -> R (parse_dot_op re).
  Proof. intros. unfold parse_dot_op. rtac. Qed.
  Hint Resolve R_parse_dot_op : rdb.

  Lemma R_parse_dot_ops re : R re -> R (parse_dot_ops re).
  Proof. intros. unfold parse_dot_ops. rtac. Qed.
  Hint Resolve R_parse_dot_ops : rdb.

  Lemma R_parse_bracket_closure re : R re -> R (parse_bracket_closure re).
  Proof. intros. unfold parse_bracket_closure. rtac. Qed.
  Hint Resolve R_parse_bracket_closure : rdb.

  Lemma R_parse_unary_op_pre rp : R rp -> R (parse_unary_op_pre rp).
  Proof. intros. unfold parse_unary_op_pre. rtac. Qed.
  Hint Resolve R_parse_unary_op_pre : rdb.

  Lemma R_parse_unary_op_post re : R re -> R (parse_unary_op_post re).
  Proof. intros. unfold parse_unary_op_post. rtac. Qed.
  Hint Resolve R_parse_unary_op_post : rdb.

  Lemma R_parse_unary_op re rp : R re -> R rp -> R (parse_unary_op re rp).
  Proof. intros. unfold parse_unary_op. rtac. Qed.
  Hint Resolve R_parse_unary_op : rdb.

  Lemma R_parse_primary_body re rp : R re -> R rp -> R (parse_primary_body re rp).
  Proof. intros. unfold parse_primary_body. rtac. Qed.
  Hint Resolve R_parse_primary_body : rdb.

  Lemma R_parse_factors prim : R prim -> R (parse_factors prim).
  Proof. intros. unfold parse_factors. rtac. Qed.
  Hint Resolve R_parse_factors : rdb.

  Lemma R_parse_terms prim : R prim -> R (parse_terms prim).
  Proof. intros. unfold parse_terms. rtac. Qed.
  Hint Resolve R_parse_terms : rdb.

  Lemma R_parse_bit_ops_1 prim : R prim -> R (parse_bit_ops_1 prim).
  Proof. intros. unfold parse_bit_ops_1. rtac. Qed.
  Hint Resolve R_parse_bit_ops_1 : rdb.

  Lemma R_parse_bit_ops_2 prim : R prim -> R (parse_bit_ops_2 prim).
  Proof. intros. unfold parse_bit_ops_2. rtac. Qed.
  Hint Resolve R_parse_bit_ops_2 : rdb.

  Lemma R_parse_shifts prim : R prim -> R (parse_shifts prim).
  Proof. intros. unfold parse_shifts. rtac. Qed.
  Hint Resolve R_parse_shifts : rdb.

  Lemma R_parse_compare prim : R prim -> R (parse_compare prim).
  Proof. intros. unfold parse_compare. rtac. Qed.
  Hint Resolve R_parse_compare : rdb.

  Lemma R_parse_logical_and prim : R prim -> R (parse_logical_and prim).
  Proof. intros. unfold parse_logical_and. rtac. Qed.
  Hint Resolve R_parse_logical_and : rdb.

  Lemma R_parse_logical_or prim : R prim -> R (parse_logical_or prim).
  Proof. intros. unfold parse_logical_or. rtac. Qed.
  Hint Resolve R_parse_logical_or : rdb.

  Lemma R_parse_expr_body prim : R prim -> R (parse_expr_body prim).
  Proof. intros. unfold parse_expr_body. rtac. Qed.
  Hint Resolve R_parse_expr_body : rdb.

  Lemma R_parse_asterisk : R parse_asterisk.
  Proof. intros. unfold parse_asterisk. rtac. Qed.
  Hint Resolve R_parse_asterisk : rdb.

  Lemma R_parse_top_n : R parse_top_n.
  Proof. intros. unfold parse_top_n. rtac. Qed.
  Hint Resolve R_parse_top_n : rdb.

  Lemma R_parse_oql_method_call : R parse_oql_method_call.
  Proof. intros. unfold parse_oql_method_call. rtac. Qed.
  Hint Resolve R_parse_oql_method_call : rdb.

  Lemma R_parse_select_item pd : R pd -> R (parse_select_item pd).
  Proof. intros. unfold parse_select_item. rtac. Qed.
  Hint Resolve R_parse_select_item : rdb.

  Lemma R_parse_join_item pc : R pc -> R (parse_join_item pc).
  Proof. intros. unfold parse_join_item. rtac. Qed.
  Hint Resolve R_parse_join_item : rdb.

  Lemma R_parse_from_item pc : R pc -> R (parse_from_item pc).
  Proof. intros. unfold parse_from_item. rtac. Qed.
  Hint Resolve R_parse_from_item : rdb.

  Lemma R_parse_where pe : R pe -> R (parse_where pe).
  Proof. intros. unfold parse_where. rtac. Qed.
  Hint Resolve R_parse_where : rdb.

  Lemma R_parse_order_by_item pd : R pd -> R (parse_order_by_item pd).
  Proof. intros. unfold parse_order_by_item. rtac. Qed.
  Hint Resolve R_parse_order_by_item : rdb.

  Lemma R_parse_order_by pd : R pd -> R (parse_order_by pd).
  Proof. intros. unfold parse_order_by. rtac. Qed.
  Hint Resolve R_parse_order_by : rdb.

  Lemma R_parse_using : R parse_using.
  Proof. intros. unfold parse_using. rtac. Qed.
  Hint Resolve R_parse_using : rdb.

  Lemma R_parse_oql_select pe pd pc : R pe -> R pd -> R pc -> R (parse_oql_select pe pd pc).
  Proof. intros. unfold parse_oql_select. rtac. Qed.
  Hint Resolve R_parse_oql_select : rdb.

  Lemma R_parse_oql_fetch pd : R pd -> R (parse_oql_fetch pd).
  Proof. intros. unfold parse_oql_fetch. rtac. Qed.
  Hint Resolve R_parse_oql_fetch : rdb.

  Lemma R_parse_oql_expr pe pd pc : R pe -> R pd -> R pc -> R (parse_oql_expr pe pd pc).
  Proof. intros. unfold parse_oql_expr. rtac. Qed.
  Hint Resolve R_parse_oql_expr : rdb.

  Lemma R_parse_assignment pd pe : R pd -> R pe -> R (parse_assignment pe pd).
  Proof. intros. unfold parse_assignment. rtac. Qed.
  Hint Resolve R_parse_assignment : rdb.

  Lemma R_parse_to_op : R parse_to_op.
  Proof. intros. unfold parse_to_op. rtac. Qed.
  Hint Resolve R_parse_to_op : rdb.

  Lemma R_parse_separated_values : R parse_separated_values.
  Proof. intros. unfold parse_separated_values. rtac. Qed.
  Hint Resolve R_parse_separated_values : rdb.

  Lemma R_parse_when_expr : R parse_when_expr.
  Proof. intros. unfold parse_when_expr. rtac. Qed.
  Hint Resolve R_parse_when_expr : rdb.

  Lemma R_parse_when_block rs : R rs -> R (parse_when_block rs).
  Proof. intros. unfold parse_when_block. rtac. Qed.
  Hint Resolve R_parse_when_block : rdb.

  Lemma R_parse_switch_else_block rs : R rs -> R (parse_switch_else_block rs).
  Proof. intros. unfold parse_switch_else_block. rtac. Qed.
  Hint Resolve R_parse_switch_else_block : rdb.

  Lemma R_parse_switch_block pe rs : R pe -> R rs -> R (parse_switch_block pe rs).
  Proof. intros. unfold parse_switch_block. rtac. Qed.
  Hint Resolve R_parse_switch_block : rdb.

  Lemma R_parse_for_block pe rs : R pe -> R rs -> R (parse_for_block pe rs).
  Proof. intros. unfold parse_for_block. rtac. Qed.
  Hint Resolve R_parse_for_block : rdb.

  Lemma R_parse_foreach_block pe pd pc rs : R pe -> R pd -> R pc -> R rs -> R (parse_foreach_block pe pd pc rs).
  Proof. intros. unfold parse_foreach_block. rtac. Qed.
  Hint Resolve R_parse_foreach_block : rdb.

  Lemma R_parse_while_block pe rs : R pe -> R rs -> R (parse_while_block pe rs).
  Proof. intros. unfold parse_while_block. rtac. Qed.
  Hint Resolve R_parse_while_block : rdb.

  Lemma R_parse_loop_block rs : R rs -> R (parse_loop_block rs).
  Proof. intros. unfold parse_loop_block. rtac. Qed.
  Hint Resolve R_parse_loop_block : rdb.

  Lemma R_parse_repeat_block pe rs : R pe -> R rs -> R (parse_repeat_block pe rs).
  Proof. intros. unfold parse_repeat_block. rtac. Qed.
  Hint Resolve R_parse_repeat_block : rdb.

  Lemma R_parse_return_statement pe : R pe -> R (parse_return_statement pe).
  Proof. intros. unfold parse_return_statement. rtac. Qed.
  Hint Resolve R_parse_return_statement : rdb.

  Lemma R_parse_control_statements pe : R pe -> R (parse_control_statements pe).
  Proof. intros. unfold parse_control_statements. rtac. Qed.
  Hint Resolve R_parse_control_statements : rdb.

  Hint Resolve H_if_block : rdb.

  Lemma R_parse_statement_body pt pe pd pc rs :
    R pt -> R pe -> R pd -> R pc -> R rs -> R (parse_statement_body pt pe pd pc rs).
  Proof.
    intros Hpt Hpe Hpd Hpc Hrs.
    change (parse_statement_body pt pe pd pc rs) with
      (stmt_body_shape
         [parse_if_block pe rs; parse_for_block pe rs; parse_foreach_block pe pd pc rs; parse_while_block pe rs;
          parse_loop_block rs; parse_switch_block pe rs; parse_repeat_block pe rs]
         [parse_comment; parse_uses; parse_constant_declaration; parse_type_declaration pt;
          parse_local_var_decl pt; parse_control_statements pe; parse_oql_expr pe pd pc;
          parse_assignment pe pd; pe]).
    apply H_stmt_shape.
    - repeat (apply Forall_cons || apply Forall_nil); rtac.
    - rtac.
  Qed.

  (* the type grammar alone (no expression parser, hence no memoisation, is reachable from it) *)
  Theorem gram_type_R : forall f, R (g_type (gram f)).
  Proof.
    induction f as [|f IH]; cbn [gram g_type]; [apply H_nofuel|].
    apply R_parse_type_body. exact IH.
  Qed.

  (* the knot *)
  Theorem gram_R : forall f,
    R (g_type (gram f)) /\ R (g_expr (gram f)) /\ R (g_primary (gram f)) /\ R (g_stmt (gram f)).
  Proof.
    induction f as [|f (Rt & Re & Rp & Rs)]; cbn [gram g_type g_expr g_primary g_stmt].
    - repeat split; apply H_nofuel.
    - assert (R (parse_type_body (g_type (gram f)))) as Wt by (apply R_parse_type_body; exact Rt).
      assert (R (parse_primary_body (g_expr (gram f)) (g_primary (gram f)))) as Wp
        by (apply R_parse_primary_body; assumption).
      assert (R (parse_expr_body (parse_primary_body (g_expr (gram f)) (g_primary (gram f))))) as We
        by (apply R_parse_expr_body; exact Wp).
      refine (conj Wt (conj We (conj Wp _))).
      apply R_parse_statement_body; auto.
      + apply R_parse_dot_ops; exact Re.
      + apply R_parse_compare; exact Wp.
  Qed.
End AbstractRel.
