(* C10 / C11 at tree level, one document: the answers Model/DefTree.v computes from the real tree
   and the tables of Model/Annot.v are
   (a) the answers of the abstract scoping model (Model/Scoping.v) on entity_of_tree t -- the
       look-up finds the declaration at the SAME position of the corresponding table, the label
       lists are equal --, for every regular tree;
   (b) directly, for ALL trees: a plain identifier resolves to the most recent declaration of that
       name (ignoring case) in the nearest table that has one; its selection range is the range of
       the declaring node's name token; the labels are the plain-kind symbols of the merged
       listing, each name once, the nearest declaration of a name decides. *)
From GoldV Require Import Base Tokens Lexer AstKinds Tree Encase SymTab SymTabProofs Scoping ScopingProofs
                          Annot AnnotProofs DefTree.
From Coq Require Import Lia.

(* ====================================================================================== *)
(* scopes built by insertions of (name, symbol type, tag)                                 *)
(* ====================================================================================== *)

Definition triple := (str * skind * N)%type.
Definition t_name (p : triple) : str := fst (fst p).
Definition t_kind (p : triple) : skind := snd (fst p).
Definition t_tag (p : triple) : N := snd p.
Definition ins3 (s : scope) (p : triple) : scope := ins s (t_kind p) (t_name p) (t_tag p).
Definition sym3 (p : triple) : sym := mkSym (t_name p) (pack (t_kind p) (t_tag p)).
Definition build (c : str) (l : list triple) : scope := fold_left ins3 l (empty_scope c).

Lemma ins3_insert s p : ins3 s p = insert_scope s (sid (sym3 p)) (stag (sym3 p)).
Proof. reflexivity. Qed.

Lemma build_facts c l : syms (build c l) = map sym3 l /\ cls (build c l) = c /\ Inv (build c l).
Proof.
  unfold build. destruct (fold_ins_syms sym3 ins3 l (empty_scope c) ins3_insert) as (H1 & H2 & H3).
  rewrite H1, H2. cbn [syms cls empty_scope app]. repeat split. apply H3. apply Inv_empty.
Qed.

Definition nk (p : triple) : str * skind := (t_name p, t_kind p).

Lemma sview_sym3 p : sview (sym3 p) = nk p.
Proof. unfold sview, sym3, nk, skind_of. cbn [sid stag]. rewrite kind_pack. reflexivity. Qed.

(* the hash map depends on the names only *)
Lemma fold_idx l l' : map t_name l = map t_name l' -> forall s s',
  idx s = idx s' -> length (syms s) = length (syms s') ->
  idx (fold_left ins3 l s) = idx (fold_left ins3 l' s') /\
  length (syms (fold_left ins3 l s)) = length (syms (fold_left ins3 l' s')).
Proof.
  revert l'. induction l as [|p l IH]; intros [|p' l'] H s s' Hi Hl; try discriminate; [auto|].
  cbn [map] in H. inversion H as [[Hn Ht]]. cbn [fold_left]. apply IH; [exact Ht| |].
  - unfold ins3, ins, insert_scope. cbn [idx]. rewrite Hn, Hi, Hl. reflexivity.
  - unfold ins3, ins, insert_scope. cbn [syms]. rewrite !app_length, Hl. reflexivity.
Qed.

Lemma build_idx c c' l l' : map t_name l = map t_name l' -> idx (build c l) = idx (build c' l').
Proof. intro H. unfold build. apply (fold_idx l l' H); reflexivity. Qed.

(* ---------- the tree table as a build ---------- *)

Fixpoint triples_of (i : N) (l : list asym) : list triple :=
  match l with [] => [] | a :: r => (a_name a, a_kind a, i) :: triples_of (i + 1) r end.

Lemma ins_all_fold l : forall s i, ins_all s i l = fold_left ins3 (triples_of i l) s.
Proof. induction l as [|a l IH]; intros s i; [reflexivity|]. cbn [ins_all triples_of fold_left]. apply IH. Qed.

Lemma scope_of_build T : scope_of T = build (cls_str T) (triples_of 0 (t_syms T)).
Proof. unfold scope_of, build. apply ins_all_fold. Qed.

Lemma triples_nk l : forall i, map nk (triples_of i l) = map aview l.
Proof. induction l as [|a l IH]; intro i; [reflexivity|]. cbn [triples_of map]. rewrite IH. reflexivity. Qed.

Lemma triples_nth l : forall i k,
  nth_error (triples_of i l) k = option_map (fun a => (a_name a, a_kind a, i + N.of_nat k)) (nth_error l k).
Proof.
  induction l as [|a l IH]; intros i k; [destruct k; reflexivity|]. destruct k as [|k].
  - cbn. replace (i + 0) with i by lia. reflexivity.
  - cbn [triples_of nth_error]. rewrite IH. destruct (nth_error l k); [|reflexivity]. cbn [option_map]. f_equal. f_equal. lia.
Qed.

(* hash_map.get + symbols_list.get on a tree table: the symbol at the stored index *)
Lemma find_in_index T id :
  find_in T id = match alookup (upper id) (idx (scope_of T)) with Some i => nth_error (t_syms T) i | None => None end.
Proof.
  unfold find_in, scope_find. destruct (alookup (upper id) (idx (scope_of T))) as [i|]; [|reflexivity].
  rewrite scope_of_build. destruct (build_facts (cls_str T) (triples_of 0 (t_syms T))) as (H & _ & _). rewrite H.
  rewrite nth_error_map, triples_nth. destruct (nth_error (t_syms T) i) as [a|] eqn:E; [|reflexivity].
  cbn [option_map]. unfold sym_at, dtag, sym3. cbn [stag t_kind t_tag fst snd]. rewrite dtag_pack.
  replace (N.to_nat (0 + N.of_nat i)) with i by lia. exact E.
Qed.

Lemma scope_of_Inv T : Inv (scope_of T).
Proof. rewrite scope_of_build. apply build_facts. Qed.

(* ---------- the abstract tables as builds ---------- *)

Definition mtriple (m : member) : triple := (m_name m, kind_of_member m, m_tag m).
Definition vtriple (v : var) : triple := (v_name v, KVariable, v_tag v).
Definition htriples (e : entity) : list triple :=
  match e_kind e with
  | EClass => [(e_name e, KClass, 0); (s_self, KClass, 0)]
  | EModule => [(e_name e, KModule, 0)]
  end.

Lemma fold_members ms : forall s, fold_left ins_member ms s = fold_left ins3 (map mtriple ms) s.
Proof. induction ms as [|m ms IH]; intro s; [reflexivity|]. cbn [fold_left map]. apply IH. Qed.

Lemma fold_vars3 vs : forall s, fold_left ins_var vs s = fold_left ins3 (map vtriple vs) s.
Proof. induction vs as [|v vs IH]; intro s; [reflexivity|]. cbn [fold_left map]. apply IH. Qed.

Lemma root_table_build e : root_table e = build (e_name e) (htriples e ++ map mtriple (e_members e)).
Proof.
  unfold root_table, table_of, build. rewrite fold_left_app, fold_members. f_equal.
  unfold header_table, htriples. destruct (e_kind e); reflexivity.
Qed.

Lemma method_table_build e me : method_table e me = build (e_name e) (map vtriple (me_params me ++ me_locals me)).
Proof. unfold method_table, build. apply fold_vars3. Qed.

(* ====================================================================================== *)
(* a tree table and the abstract table it corresponds to                                  *)
(* ====================================================================================== *)

(* the same symbols (name, symbol type) at the same positions, the same class *)
Lemma same_table_idx T c l :
  map aview (t_syms T) = map sview (syms (build c l)) -> idx (scope_of T) = idx (build c l).
Proof.
  intro H. rewrite scope_of_build. apply build_idx.
  destruct (build_facts c l) as (Hs & _ & _). rewrite Hs, map_map in H.
  rewrite (map_ext _ nk sview_sym3) in H. rewrite <- (triples_nk (t_syms T) 0) in H.
  assert (E : map fst (map nk (triples_of 0 (t_syms T))) = map fst (map nk l)) by (rewrite H; reflexivity).
  rewrite !map_map in E. exact E.
Qed.

(* the look-up in one table: both sides find the symbol at the same position *)
Definition same_decl (T : table) (S : scope) (a : asym) (y : sym) : Prop :=
  exists i, nth_error (t_syms T) i = Some a /\ nth_error (syms S) i = Some y.

Lemma same_table_nth T S i :
  map aview (t_syms T) = map sview (syms S) ->
  match nth_error (t_syms T) i, nth_error (syms S) i with
  | Some a, Some y => aview a = sview y
  | None, None => True
  | _, _ => False
  end.
Proof.
  intro H. assert (E : nth_error (map aview (t_syms T)) i = nth_error (map sview (syms S)) i) by (rewrite H; reflexivity).
  rewrite !nth_error_map in E. destruct (nth_error (t_syms T) i), (nth_error (syms S) i); cbn in E; try discriminate; auto.
  congruence.
Qed.

Lemma find_in_corr T c l id :
  same_table T (build c l) ->
  match scope_find (build c l) id with
  | Some y => exists a, find_in T id = Some a /\ aview a = sview y /\ same_decl T (build c l) a y
  | None => find_in T id = None
  end.
Proof.
  intros [Hs Hc]. rewrite find_in_index, (same_table_idx T c l Hs). unfold scope_find.
  destruct (alookup (upper id) (idx (build c l))) as [i|]; [|reflexivity].
  pose proof (same_table_nth T (build c l) i Hs) as Hn.
  destruct (nth_error (t_syms T) i) as [a|] eqn:Ea, (nth_error (syms (build c l)) i) as [y|] eqn:Ey; try contradiction; [|reflexivity].
  exists a. split; [reflexivity|]. split; [exact Hn|]. exists i. auto.
Qed.

(* ====================================================================================== *)
(* (a) refinement: plain identifiers and plain completion in method number k              *)
(* ====================================================================================== *)

(* the tree chain and the abstract chain of the k-th method of a regular document *)
Lemma chains_of_regular t k mt : regular t ->
  nth_error (method_tables_of false t) k = Some mt ->
  exists me, nth_error (e_methods (entity_of_tree t)) k = Some me /\
    same_table mt (method_table (entity_of_tree t) me) /\
    same_table (root_table_of false t) (root_table (entity_of_tree t)).
Proof.
  intros Hr Hk. destruct (tables_from_tree t Hr) as (H1 & _ & H3). cbv zeta in *.
  revert k Hk. induction H3 as [|T me lT lm [HT _] _ IH]; intros k Hk; [destruct k; discriminate|].
  destruct k as [|k]; [inversion Hk; subst; exists me; auto|]. destruct (IH k Hk) as (me' & A & B & C). exists me'. auto.
Qed.

Definition abs_chain (e : entity) (me : method) : chain := [method_table e me; root_table e].

(* a plain identifier inside method k: the tree-level look-up and Scoping's look-up select the
   same declaration (same table, same position), or both nothing *)
Theorem deftree_plain_refines t k mt id : regular t ->
  nth_error (method_tables_of false t) k = Some mt ->
  let e := entity_of_tree t in
  exists me, nth_error (e_methods e) k = Some me /\
    match search_wparent (abs_chain e me) id with
    | Some (c, y) =>
        exists T a, lookup [mt; root_table_of false t] id = Some (T, a) /\ cls_str T = c /\ aview a = sview y /\
          ((T = mt /\ same_decl mt (method_table e me) a y) \/
           (T = root_table_of false t /\ find_in mt id = None /\ same_decl T (root_table e) a y))
    | None => lookup [mt; root_table_of false t] id = None
    end.
Proof.
  intros Hr Hk e. destruct (chains_of_regular t k mt Hr Hk) as (me & Hme & Hm & Hroot). fold e in Hme, Hm, Hroot.
  exists me. split; [exact Hme|]. unfold abs_chain. cbn [search_wparent lookup].
  rewrite method_table_build in *. rewrite root_table_build in *.
  pose proof (find_in_corr mt _ _ id Hm) as F1. pose proof (find_in_corr (root_table_of false t) _ _ id Hroot) as F2.
  destruct (scope_find (build (e_name e) (map vtriple (me_params me ++ me_locals me))) id) as [y|].
  - destruct F1 as (a & Fa & Va & Da). exists mt, a. rewrite Fa. split; [reflexivity|]. split; [apply Hm|]. split; [exact Va|]. left. auto.
  - rewrite F1. destruct (scope_find (build (e_name e) (htriples e ++ map mtriple (e_members e))) id) as [y|].
    + destruct F2 as (a & Fa & Va & Da). exists (root_table_of false t), a. rewrite Fa. split; [reflexivity|].
      split; [apply Hroot|]. split; [exact Va|]. right. auto.
    + rewrite F2. reflexivity.
Qed.

(* ... stated with Scoping's own entry point on the one-entity workspace *)
Lemma scope_chain_single e me : e_parent e = None -> find_method e (me_name me) = Some me ->
  scope_chain [e] (e_name e) (Some (me_name me)) = abs_chain e me.
Proof.
  intros Hp Hm. unfold scope_chain, find_entity, class_chain, lineage. cbn [find length ancestors].
  unfold ci_eqb. rewrite str_eqb_refl, Hm. unfold find_entity. cbn [find]. unfold ci_eqb. rewrite str_eqb_refl, Hp. reflexivity.
Qed.

(* ---------- completion ---------- *)

Definition R (x y : sym) : Prop := sid x = sid y /\ skind_of x = skind_of y.

Lemma Forall2_filter {A B} (P : A -> B -> Prop) (f : A -> bool) (g : B -> bool) l l' :
  Forall2 P l l' -> (forall x y, P x y -> f x = g y) -> Forall2 P (filter f l) (filter g l').
Proof.
  intros H Hf. induction H as [|x y l l' Hxy _ IH]; [constructor|]. cbn [filter]. rewrite (Hf x y Hxy).
  destruct (g y); [constructor; assumption|assumption].
Qed.

Lemma live_from_rel s s' : idx s = idx s' -> forall l l' i, Forall2 R l l' -> Forall2 R (live_from s i l) (live_from s' i l').
Proof.
  intros Hi l l' i H. revert i. induction H as [|x y l l' Hxy Hl IH]; intro i; [constructor|].
  cbn [live_from]. destruct Hxy as [Hn Hk]. rewrite Hn, Hi. apply Forall2_app; [|apply IH].
  destruct (alookup (upper (sid y)) (idx s')) as [j|]; [destruct (Nat.eqb j i)|]; repeat constructor; assumption.
Qed.

Lemma seen_in_rel l l' x y : Forall2 R l l' -> R x y -> seen_in l x = seen_in l' y.
Proof.
  intros H [Hxy _]. unfold seen_in. rewrite Hxy. induction H as [|a b l l' [Hab _] _ IH]; [reflexivity|].
  cbn [existsb]. rewrite Hab, IH. reflexivity.
Qed.

Definition srel (s s' : scope) : Prop := idx s = idx s' /\ Forall2 R (syms s) (syms s').

Lemma collect_rel c c' : Forall2 srel c c' -> Forall2 R (collect c) (collect c').
Proof.
  induction 1 as [|s s' c c' [Hi Hs] _ IH]; [constructor|]. cbn [collect].
  assert (HL : Forall2 R (live s) (live s')) by (apply live_from_rel; assumption).
  apply Forall2_app; [exact HL|]. apply Forall2_filter; [exact IH|].
  intros x y Hxy. rewrite (seen_in_rel _ _ x y HL Hxy). reflexivity.
Qed.

Lemma labels_rel (p : sym -> bool) l l' : Forall2 R l l' -> (forall x y, R x y -> p x = p y) ->
  map sid (filter p l) = map sid (filter p l').
Proof.
  intros H Hp. pose proof (Forall2_filter R p p l l' H Hp) as HF.
  induction HF as [|x y a b [Hxy _] _ IH]; [reflexivity|]. cbn [map]. rewrite Hxy, IH. reflexivity.
Qed.

Lemma nk_rel l0 : forall l, map nk l0 = map nk l -> Forall2 R (map sym3 l0) (map sym3 l).
Proof.
  induction l0 as [|p l0 IH]; intros [|q l] H; try discriminate; cbn [map]; [constructor|].
  cbn [map] in H. inversion H as [[A B C]]. constructor; [|apply IH; exact C].
  unfold R, sym3, skind_of. cbn [sid stag]. rewrite !kind_pack. split; assumption.
Qed.

Lemma same_table_srel T c l : same_table T (build c l) -> srel (scope_of T) (build c l).
Proof.
  intros [Hs Hc]. split; [apply same_table_idx; exact Hs|].
  rewrite scope_of_build. destruct (build_facts (cls_str T) (triples_of 0 (t_syms T))) as (H1 & _ & _).
  destruct (build_facts c l) as (H2 & _ & _). rewrite H1, H2. apply nk_rel.
  rewrite H2, map_map, (map_ext _ nk sview_sym3) in Hs. rewrite triples_nk. exact Hs.
Qed.

Lemma is_plain_kind_rel x y : R x y -> is_plain_kind x = is_plain_kind y.
Proof. intros [_ H]. unfold is_plain_kind. rewrite H. reflexivity. Qed.

Lemma is_member_kind_rel x y : R x y -> is_member_kind x = is_member_kind y.
Proof. intros [_ H]. unfold is_member_kind. rewrite H. reflexivity. Qed.

(* completion inside method k, not after a dot: the labels of the tree-level model are the labels
   of the abstract model, in the same order *)
Theorem compltree_plain_refines t k mt : regular t ->
  nth_error (method_tables_of false t) k = Some mt ->
  let e := entity_of_tree t in
  exists me, nth_error (e_methods e) k = Some me /\
    labels_lhs [mt; root_table_of false t] = map sid (filter is_plain_kind (collect (abs_chain e me))) /\
    labels_rhs [root_table_of false t] = map sid (filter is_member_kind (collect [root_table e])).
Proof.
  intros Hr Hk e. destruct (chains_of_regular t k mt Hr Hk) as (me & Hme & Hm & Hroot). fold e in Hme, Hm, Hroot.
  exists me. split; [exact Hme|]. unfold labels_lhs, labels_rhs, abs_chain. cbn [map].
  rewrite method_table_build in *. rewrite root_table_build in *.
  pose proof (same_table_srel _ _ _ Hm) as S1. pose proof (same_table_srel _ _ _ Hroot) as S2.
  split.
  - apply labels_rel; [apply collect_rel; constructor; [exact S1|constructor; [exact S2|constructor]]|exact is_plain_kind_rel].
  - apply labels_rel; [apply collect_rel; constructor; [exact S2|constructor]|exact is_member_kind_rel].
Qed.

(* ====================================================================================== *)
(* (b) the property itself, for ALL trees                                                 *)
(* ====================================================================================== *)

Definition named (id : str) (a : asym) : bool := ci_eqb (a_name a) id.

Fixpoint last_named (k : nat) (l : list asym) (id : str) : option nat :=
  match l with
  | [] => None
  | a :: r => match last_named (S k) r id with
              | Some j => Some j
              | None => if named id a then Some k else None
              end
  end.

Lemma last_idx_triples l id : forall k j, last_idx_from k (map sym3 (triples_of j l)) id = last_named k l id.
Proof.
  induction l as [|a l IH]; intros k j; [reflexivity|]. cbn [triples_of map last_idx_from last_named]. rewrite IH.
  reflexivity.
Qed.

Lemma last_named_spec l id : forall k,
  match last_named k l id with
  | Some i => (k <= i)%nat /\ exists a A1 A2, l = A1 ++ a :: A2 /\ length A1 = (i - k)%nat /\ named id a = true /\
                                            Forall (fun b => named id b = false) A2
  | None => Forall (fun b => named id b = false) l
  end.
Proof.
  induction l as [|b l IH]; intro k; cbn [last_named]; [constructor|].
  specialize (IH (S k)). destruct (last_named (S k) l id) as [j|].
  - destruct IH as (Hle & a & A1 & A2 & -> & Hlen & Hn & Hall). split; [lia|].
    exists a, (b :: A1), A2. cbn [length app]. repeat split; auto. lia.
  - destruct (named id b) eqn:E.
    + split; [lia|]. exists b, [], l. cbn [length app]. repeat split; auto. lia.
    + constructor; assumption.
Qed.

(* one table: the most recent declaration of that name, ignoring case *)
Theorem find_in_latest T id :
  match find_in T id with
  | Some a => named id a = true /\
              exists A1 A2, t_syms T = A1 ++ a :: A2 /\ Forall (fun b => named id b = false) A2
  | None => Forall (fun b => named id b = false) (t_syms T)
  end.
Proof.
  rewrite find_in_index. rewrite (scope_of_Inv T id). rewrite scope_of_build.
  destruct (build_facts (cls_str T) (triples_of 0 (t_syms T))) as (Hsy & _ & _). rewrite Hsy, last_idx_triples.
  pose proof (last_named_spec (t_syms T) id 0) as H. destruct (last_named 0 (t_syms T) id) as [i|]; [|exact H].
  destruct H as (_ & a & A1 & A2 & HT & Hlen & Hn & Hall).
  assert (Hnth : nth_error (t_syms T) i = Some a).
  { rewrite HT, nth_error_app2 by lia. replace (i - length A1)%nat with O by lia. reflexivity. }
  rewrite Hnth. split; [exact Hn|]. exists A1, A2. auto.
Qed.

(* the chain: the nearest table that knows the name decides *)
Theorem lookup_nearest ch id :
  match lookup ch id with
  | Some (T, a) => exists pre post, ch = pre ++ T :: post /\ Forall (fun U => find_in U id = None) pre /\ find_in T id = Some a
  | None => Forall (fun U => find_in U id = None) ch
  end.
Proof.
  induction ch as [|U ch IH]; cbn [lookup]; [constructor|]. destruct (find_in U id) as [a|] eqn:E.
  - exists [], ch. auto.
  - destruct (lookup ch id) as [[T a]|].
    + destruct IH as (pre & post & -> & Hp & Hf). exists (U :: pre), post. cbn [app]. auto.
    + constructor; assumption.
Qed.

(* completion: the labels are the plain-kind symbols of C18's merged listing of the chain:
   each name once (ignoring case), the nearest and latest declaration of a name decides *)
Theorem labels_lhs_merged ch :
  let c := map scope_of ch in
  labels_lhs ch = map sid (filter is_plain_kind (merged c)) /\
  NoDup (map upper (labels_lhs ch)) /\
  (forall l, In l (labels_lhs ch) <-> exists x, spec_get c l = Some x /\ sid x = l /\ is_plain_kind x = true).
Proof.
  cbv zeta. assert (HI : Forall Inv (map scope_of ch)) by (apply Forall_forall; intros s Hs; apply in_map_iff in Hs as (T & <- & _); apply scope_of_Inv).
  unfold labels_lhs. rewrite (collect_merged _ HI). split; [reflexivity|]. split.
  - apply NoDup_map_upper_filter. apply merged_each_name_once.
  - intro l. rewrite in_map_iff. split.
    + intros (x & Hx & Hin). apply filter_In in Hin as [Hin Hp]. exists x. subst l. split; [apply merged_nearest; exact Hin|auto].
    + intros (x & Hg & Hs & Hp). exists x. split; [exact Hs|]. apply filter_In. split; [eapply merged_complete; exact Hg|exact Hp].
Qed.

(* the direct statement for a plain identifier: the nearest table of the chain that declares the
   name (ignoring case) decides, with its most recent declaration of it; that symbol is the symbol
   of a visited declaration node, its selection range the range of the node's name token *)
Theorem lookup_direct t ch id :
  (forall U, In U ch -> In U (tables_of false t)) ->
  match lookup ch id with
  | Some (T, a) =>
      (exists pre post, ch = pre ++ T :: post /\ Forall (fun U => Forall (fun b => named id b = false) (t_syms U)) pre) /\
      named id a = true /\
      (exists A1 A2, t_syms T = A1 ++ a :: A2 /\ Forall (fun b => named id b = false) A2) /\
      (exists p, In p (visit_seq false t) /\ declares p a)
  | None => Forall (fun U => Forall (fun b => named id b = false) (t_syms U)) ch
  end.
Proof.
  intro Hch. pose proof (lookup_nearest ch id) as H. destruct (lookup ch id) as [[T a]|].
  - destruct H as (pre & post & Hc & Hpre & Hf). pose proof (find_in_latest T id) as HL. rewrite Hf in HL.
    destruct HL as (Hn & A1 & A2 & HT & Hall). split; [|split; [exact Hn|split; [exists A1, A2; auto|]]].
    + exists pre, post. split; [exact Hc|]. eapply Forall_impl; [|exact Hpre]. intros U HU.
      pose proof (find_in_latest U id) as HU'. rewrite HU in HU'. exact HU'.
    + assert (HinT : In T (tables_of false t)) by (apply Hch; rewrite Hc; apply in_or_app; right; left; reflexivity).
      assert (Hina : In a (t_syms T)) by (rewrite HT; apply in_or_app; right; left; reflexivity).
      destruct (annot_selection_is_declared_name false t T a HinT Hina) as (p & Hp & Hd & _). exists p. auto.
  - eapply Forall_impl; [|exact H]. intros U HU. pose proof (find_in_latest U id) as HU'. rewrite HU in HU'. exact HU'.
Qed.

(* the chain the services use is made of tables of the document *)
Lemma chain_for_tables t steps ch : chain_for t steps = Some ch -> forall U, In U ch -> In U (tables_of false t).
Proof.
  unfold chain_for, tables_of, root_table_of, method_tables_of. intros H U HU.
  destruct steps as [|[i c] r].
  - inversion H; subst. destruct HU as [<-|[]]. left. reflexivity.
  - destruct (is_method_node c).
    + destruct (nth_error (st_done (annotate false t)) _) as [mt|] eqn:E; [|discriminate]. inversion H; subst.
      destruct HU as [<-|[<-|[]]]; [right; eapply nth_error_In; exact E|left; reflexivity].
    + inversion H; subst. destruct HU as [<-|[]]. left. reflexivity.
Qed.

(* where get_definition takes the plain branch: not under a dot, not a declared name *)
Theorem definition_plain_case t stem p idx enc pi q up ch :
  flat_methods t = true -> chain_for t (descend p t) = Some ch ->
  path_up p t = (idx, enc) :: (pi, q) :: up ->
  is_dot q = false -> (is_method_node q && Nat.eqb idx 0) = false -> is_member_decl enc = false ->
  definition t stem p =
  match get_id enc p with
  | None => Ans []
  | Some id =>
      match lookup ch id with
      | Some (T, a) => if indexed1 stem (cls_str T) then Ans [(a_sel a, a_range a)] else Ans []
      | None => if foreign t then Outside else Ans []
      end
  end.
Proof.
  intros Hf Hc Hp Hd Hm He. unfold definition. rewrite Hf, Hc, Hp. cbn [negb]. rewrite Hd, Hm, He. reflexivity.
Qed.

(* where generate_completion_proposals lists the plain names: not on a dot, not under one *)
Theorem completion_plain_case t stem p idx enc pi q up ch :
  flat_methods t = true -> chain_for t (descend p t) = Some ch ->
  path_up p t = (idx, enc) :: (pi, q) :: up -> is_dot enc = false -> is_dot q = false ->
  completion t stem p = if foreign_parent t then Outside else Ans (labels_lhs ch).
Proof.
  intros Hf Hc Hp He Hq. unfold completion. rewrite Hf, Hc, Hp. cbn [negb]. rewrite He, Hq. reflexivity.
Qed.
