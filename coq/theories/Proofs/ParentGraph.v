(* Functional graphs `par : nat -> option nat` (every node has at most one outgoing "parent" edge):
   the shape of both the class tree (Weak parent pointers) and the symbol-table chains
   (parent_symbol_table).  Used by ForestProofs.v and LocksProofs.v.

   Term par      : every chain p, par p, par (par p), ... ends
   Acyc par      : no node is its own proper ancestor
   chain_bound   : in a graph on N nodes whose chains end, every chain has fewer than N edges
   add_edge_Term : adding the edge own -> m keeps chains finite when own is not on m's chain *)
From Coq Require Import List Arith Lia Bool.
Import ListNotations.

Section Graph.
  Variable par : nat -> option nat.

  (* k-th ancestor *)
  Fixpoint anc (k : nat) (p : nat) : option nat :=
    match k with
    | O => Some p
    | S k' => match par p with Some q => anc k' q | None => None end
    end.

  Definition Term : Prop := forall p, exists k, anc k p = None.
  Definition Acyc : Prop := forall p k, anc (S k) p <> Some p.
  Definition Bounded (N : nat) : Prop :=
    forall p q, par p = Some q -> p < N /\ q < N.

  Lemma anc_add a b p :
    anc (a + b) p = match anc a p with Some q => anc b q | None => None end.
  Proof.
    revert p. induction a as [|a IH]; intro p; simpl; [reflexivity|].
    destruct (par p); [apply IH | reflexivity].
  Qed.

  Lemma anc_S_r k p :
    anc (S k) p = match anc k p with Some q => par q | None => None end.
  Proof.
    replace (S k) with (k + 1) by lia. rewrite anc_add.
    destruct (anc k p) as [q|]; [|reflexivity]. simpl. destruct (par q); reflexivity.
  Qed.

  Lemma anc_None_mono a b p : anc a p = None -> a <= b -> anc b p = None.
  Proof.
    intros H Hle. replace b with (a + (b - a)) by lia. rewrite anc_add, H. reflexivity.
  Qed.

  Lemma anc_Some_prefix a b p q : anc b p = Some q -> a <= b -> exists x, anc a p = Some x.
  Proof.
    intros H Hle. destruct (anc a p) as [x|] eqn:E; [eauto|].
    rewrite (anc_None_mono a b p E Hle) in H. discriminate.
  Qed.

  Lemma cycle_forever p k : anc (S k) p = Some p -> forall j, anc (j * S k) p = Some p.
  Proof.
    intros H j. induction j as [|j IH]; [reflexivity|].
    replace (S j * S k) with (S k + j * S k) by lia. rewrite anc_add, H. exact IH.
  Qed.

  Lemma Term_Acyc : Term -> Acyc.
  Proof.
    intros HT p k H. destruct (HT p) as [n Hn].
    pose proof (cycle_forever p k H (S n)) as Hc.
    rewrite (anc_None_mono n (S n * S k) p Hn) in Hc; [discriminate | nia].
  Qed.

  Lemma anc_bounded N k p q : Bounded N -> p < N -> anc k p = Some q -> q < N.
  Proof.
    intros HB. revert p. induction k as [|k IH]; intros p Hp H; simpl in H.
    - inversion H; subst; exact Hp.
    - destruct (par p) as [x|] eqn:E; [|discriminate].
      apply (IH x); [apply (HB p x E) | exact H].
  Qed.

  (* distinctness along a chain *)
  Lemma anc_inj_acyc i j p x :
    Acyc -> i < j -> anc i p = Some x -> anc j p = Some x -> False.
  Proof.
    intros HA Hlt Hi Hj.
    replace j with (i + S (j - i - 1)) in Hj by lia.
    rewrite anc_add, Hi in Hj. exact (HA x _ Hj).
  Qed.

  Lemma NoDup_map_seq (f : nat -> nat) a n :
    (forall i j, a <= i -> i < j -> j < a + n -> f i <> f j) -> NoDup (map f (seq a n)).
  Proof.
    revert a. induction n as [|n IH]; intros a H; simpl; [constructor|].
    constructor.
    - intro Hin. apply in_map_iff in Hin as [j [Hj1 Hj2]]. apply in_seq in Hj2.
      apply (H a j); try lia.
    - apply IH. intros i j H1 H2 H3. apply H; lia.
  Qed.

  (* pigeonhole: a chain in an acyclic graph on N nodes has fewer than N edges *)
  Lemma chain_bound N k p q :
    Acyc -> Bounded N -> p < N -> anc k p = Some q -> k < N.
  Proof.
    intros HA HB Hp H.
    destruct (le_lt_dec N k) as [Hle|]; [exfalso | assumption].
    set (f := fun i => match anc i p with Some x => x | None => 0 end).
    assert (Hnd : NoDup (map f (seq 0 (S N)))).
    { apply NoDup_map_seq. intros i j _ Hij Hj. unfold f.
      destruct (anc_Some_prefix j k p q H ltac:(lia)) as [y Hy].
      destruct (anc_Some_prefix i j p y Hy ltac:(lia)) as [x Hx].
      rewrite Hx, Hy. intro E; subst y. exact (anc_inj_acyc i j p x HA Hij Hx Hy). }
    assert (Hincl : incl (map f (seq 0 (S N))) (seq 0 N)).
    { intros y Hy. apply in_map_iff in Hy as [i [Hi1 Hi2]]. apply in_seq in Hi2.
      apply in_seq. split; [lia|]. simpl. subst y. unfold f.
      destruct (anc_Some_prefix i k p q H ltac:(lia)) as [x Hx]. rewrite Hx.
      exact (anc_bounded N i p x HB Hp Hx). }
    pose proof (NoDup_incl_length Hnd Hincl) as Hlen.
    rewrite map_length, !seq_length in Hlen. lia.
  Qed.

  Lemma Term_chain_ends N p : Term -> Bounded N -> p < N -> anc N p = None.
  Proof.
    intros HT HB Hp. destruct (anc N p) as [q|] eqn:E; [|reflexivity].
    pose proof (chain_bound N N p q (Term_Acyc HT) HB Hp E). lia.
  Qed.
End Graph.

(* ---- adding / redirecting one edge ---- *)
Definition pupd (par : nat -> option nat) (own m : nat) : nat -> option nat :=
  fun x => if Nat.eqb x own then Some m else par x.

Lemma anc_ext par par' : (forall x, par x = par' x) -> forall k p, anc par k p = anc par' k p.
Proof.
  intros H k. induction k as [|k IH]; intro p; simpl; [reflexivity|].
  rewrite <- H. destruct (par p); [apply IH | reflexivity].
Qed.

Lemma Term_ext par par' : (forall x, par x = par' x) -> Term par -> Term par'.
Proof.
  intros H HT p. destruct (HT p) as [k Hk]. exists k. rewrite <- (anc_ext par par' H). exact Hk.
Qed.

(* the chain of m does not change when it never meets own *)
Lemma anc_pupd_avoid par own m :
  (forall k, anc par k m <> Some own) ->
  forall k, anc (pupd par own m) k m = anc par k m.
Proof.
  intros Hav k. induction k as [|k IH]; [reflexivity|].
  rewrite !anc_S_r, IH. destruct (anc par k m) as [x|] eqn:E; [|reflexivity].
  unfold pupd. destruct (Nat.eqb x own) eqn:Ex; [|reflexivity].
  apply Nat.eqb_eq in Ex. subst x. exfalso. exact (Hav k E).
Qed.

Lemma Term_step par p q : par p = Some q -> (exists k, anc par k q = None) -> exists k, anc par k p = None.
Proof. intros H [k Hk]. exists (S k). simpl. rewrite H. exact Hk. Qed.

Lemma add_edge_Term par own m :
  Term par -> (forall k, anc par k m <> Some own) -> Term (pupd par own m).
Proof.
  intros HT Hav.
  assert (Hm : exists k, anc (pupd par own m) k m = None).
  { destruct (HT m) as [k Hk]. exists k. rewrite anc_pupd_avoid; assumption. }
  intro p. destruct (HT p) as [k Hk]. revert p Hk.
  induction k as [|k IH]; intros p Hk; [discriminate|].
  destruct (Nat.eqb p own) eqn:Ep.
  - apply Term_step with m; [unfold pupd; rewrite Ep; reflexivity | exact Hm].
  - simpl in Hk. destruct (par p) as [q|] eqn:Eq.
    + apply Term_step with q; [unfold pupd; rewrite Ep; exact Eq | apply IH; exact Hk].
    + exists 1. simpl. unfold pupd. rewrite Ep, Eq. reflexivity.
Qed.

(* a fresh node without a parent *)
Lemma Term_root par p : par p = None -> exists k, anc par k p = None.
Proof. intro H. exists 1. simpl. rewrite H. reflexivity. Qed.
