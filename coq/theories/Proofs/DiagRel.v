(* Provenance of diagnostic ranges.  Fix a set S of tokens (below: the tokens of one method body).
   [Dg S p]: run on an input made of S-tokens, from a context whose cache only holds results
   positioned on S-tokens, p stops (or fails) on S-tokens again, keeps the cache invariant, and every
   diagnostic it adds has a range that STARTS where some S-token starts and ENDS where some S-token
   ends.  There is no exception
   any more: an error at the very END of the input is reported at the last token of the input the
   failing item parser was given (err_range), resp. at the separator in front of a missing list item
   (sep_list_rec), not with the default range 0:0-0:0 (finding eof-diagnostic-at-origin, repaired).
   Holds for every parser of the grammar (gram_Dg). *)
From GoldV Require Import Base Tokens Lexer AstKinds Tree Strings PComb Grammar ParserWF GrammarWF GrammarRel.
From Coq Require Import Lia.

Section Diag.
  Variable S : tok -> Prop.

  Definition res_in {A} (r : res A) : Prop :=
    match r with
    | Ok rest _ => Forall S rest
    | Err e _ => Forall S e
    | _ => True
    end.

  Definition CacheS (c : ctx) : Prop :=
    forall k n r, cache_find k n (ccache c) = Some r -> res_in r.

  Definition diag_ok (d : pdiag) : Prop :=
    (exists t, S t /\ rstart (drange d) = rstart (trange t)) /\
    (exists t, S t /\ rend (drange d) = rend (trange t)).

  Lemma diag_ok_tok t m : S t -> diag_ok (mkDiag (trange t) m).
  Proof. intro H. split; exists t; (split; [exact H|reflexivity]). Qed.

  Definition news (c c' : ctx) : Prop :=
    exists new, cdiags c' = new ++ cdiags c /\ Forall diag_ok new.

  Definition Post {A} (c : ctx) (X : res A * ctx) : Prop :=
    res_in (fst X) /\ CacheS (snd X) /\ news c (snd X).

  Definition Dg {A} (p : P A) : Prop := forall i c, Forall S i -> CacheS c -> Post c (p i c).

  Lemma news_refl c : news c c.
  Proof. exists []. split; [reflexivity|constructor]. Qed.

  Lemma news_trans c c1 c2 : news c c1 -> news c1 c2 -> news c c2.
  Proof.
    intros (n1 & A1 & B1) (n2 & A2 & B2). exists (n2 ++ n1). rewrite A2, A1, <- app_assoc. split; [reflexivity|].
    apply Forall_app. split; assumption.
  Qed.

  Lemma news_add_diag x c : diag_ok x -> news c (add_diag x c).
  Proof. intro H. exists [x]. split; [reflexivity|]. constructor; [exact H|constructor]. Qed.

  Lemma news_set_cache k n r c : news c (set_cache k n r c).
  Proof. exists []. split; [reflexivity|constructor]. Qed.

  Lemma CacheS_add_diag x c : CacheS c -> CacheS (add_diag x c).
  Proof. intros H k n r. unfold add_diag. simpl. apply H. Qed.

  Lemma CacheS_clear c : CacheS (clear_cache c).
  Proof. intros k n r. simpl. discriminate. Qed.

  Lemma CacheS_set k n r c : CacheS c -> res_in r -> CacheS (set_cache k n r c).
  Proof.
    intros H Hr k' n' r'. unfold set_cache; simpl. destruct (cmemo c); [|apply H].
    simpl. destruct ((k' =? k) && (n' =? n)); [|apply H]. intro E; inversion E; subst. exact Hr.
  Qed.

  Lemma get_cache_in k n c r : CacheS c -> get_cache k n c = Some r -> res_in r.
  Proof. unfold get_cache. destruct (cmemo c); [|discriminate]. intros H. apply H. Qed.

  Lemma post_ret {A} (r : res A) c : res_in r -> CacheS c -> Post c (r, c).
  Proof. intros H1 H2. repeat split; auto. apply news_refl. Qed.

  Lemma post_cont {A} (X : res A * ctx) c c1 : news c c1 -> Post c1 X -> Post c X.
  Proof. intros N (H1 & H2 & H3). repeat split; auto. eapply news_trans; eauto. Qed.

  Lemma post_diag {A} (X : res A * ctx) x c : diag_ok x -> Post (add_diag x c) X -> Post c X.
  Proof. intros H. apply post_cont. apply news_add_diag. exact H. Qed.

  Lemma Forall_tl (l : list tok) : Forall S l -> Forall S (tl l).
  Proof. destruct l; simpl; [auto|]. intro H. inversion H; assumption. Qed.

  Lemma skip_in i e : Forall S e -> Forall S (skip_after_error i e).
  Proof. intro H. unfold skip_after_error. destruct (ilen e =? ilen i); [apply Forall_tl|]; exact H. Qed.

  Lemma Forall_last (l : list tok) t : S t -> Forall S l -> S (last l t).
  Proof.
    intros Ht Hl. revert t Ht. induction Hl as [|x l Hx Hl IH]; intros t Ht; [exact Ht|].
    destruct l as [|y l']; [exact Hx|]. change (S (last (y :: l') t)). apply IH. exact Ht.
  Qed.

  (* the iteration input of a recovering loop is never empty *)
  Lemma diag_at_ok t i e m : Forall S (t :: i) -> Forall S e -> diag_ok (diag_at (t :: i) e m).
  Proof.
    intros Hi H. unfold diag_at, err_range. destruct e as [|t' e'].
    - cbn [last_tok_range]. apply diag_ok_tok. inversion Hi; subst. apply Forall_last; assumption.
    - apply diag_ok_tok. inversion H; subst. assumption.
  Qed.

  Lemma sep_diag_ok prev i e m : S prev -> Forall S i -> Forall S e ->
    diag_ok (mkDiag (new_range (range_or i (trange prev)) (range_or e (range_or i (trange prev)))) m).
  Proof.
    intros Hp H He. unfold diag_ok, new_range. cbn [drange rstart rend].
    assert (exists t, S t /\ range_or i (trange prev) = trange t) as (t0 & H0 & E0).
    { destruct i as [|t i']; cbn [range_or]; [exists prev; auto|]. exists t. inversion H; subst. auto. }
    split; [exists t0; rewrite E0; auto|].
    destruct e as [|t' e']; cbn [range_or]; [exists t0; rewrite E0; auto|].
    exists t'. inversion He; subst. auto.
  Qed.

  Ltac use H i c Hi Hc r c1 R1 C1 N1 :=
    lazymatch type of H with
    | Dg ?p => destruct (H i c Hi Hc) as (R1 & C1 & N1); destruct (p i c) as [r c1]; cbn [fst snd] in R1, C1, N1
    end.

  (* a parser that does not touch the context *)
  Lemma Dg_pure {A} (p : P A) (f : input -> res A) :
    (forall i c, p i c = (f i, c)) -> (forall i, Forall S i -> res_in (f i)) -> Dg p.
  Proof. intros H Hf i c Hi Hc. rewrite H. apply post_ret; auto. Qed.

  Lemma Dg_ret {A} (a : A) : Dg (ret a).
  Proof. apply (Dg_pure _ (fun i => Ok i a)); [reflexivity|]. intros i Hi. exact Hi. Qed.
  Lemma Dg_fail {A} m : Dg (@fail A m).
  Proof. apply (Dg_pure _ (fun i => Err i m)); [reflexivity|]. intros i Hi. exact Hi. Qed.
  Lemma Dg_panic {A} s : Dg (fun (i : input) (c : ctx) => (@Panic A s, c)).
  Proof. apply (Dg_pure _ (fun i => Panic s)); [reflexivity|]. intros i Hi. exact I. Qed.
  Lemma Dg_nofuel : Dg out_of_fuel.
  Proof. apply (Dg_pure _ (fun i => NoFuel)); [reflexivity|]. intros i Hi. exact I. Qed.

  Lemma exp_token_go_in ty orig l : Forall S orig -> Forall S l ->
    match exp_token_go ty orig l with
    | Ok r t => Forall S r /\ S t
    | Err e _ => Forall S e
    | _ => True
    end.
  Proof.
    intros Ho. induction l as [|t l IH]; intro Hl; simpl; [exact Ho|].
    inversion Hl; subst.
    destruct (tt_eqb (tty t) ty); [split; assumption|].
    destruct (is_comment t); [apply IH; assumption|exact Ho].
  Qed.

  Lemma Dg_exp_token ty : Dg (exp_token ty).
  Proof.
    apply (Dg_pure _ (fun i => exp_token_go ty i i)); [reflexivity|]. intros i Hi.
    pose proof (exp_token_go_in ty i i Hi Hi) as H. destruct (exp_token_go ty i i); simpl; tauto.
  Qed.

  (* the token returned by exp_token is one of the input *)
  Lemma exp_token_returns ty i c r t c' : Forall S i -> exp_token ty i c = (Ok r t, c') -> S t.
  Proof.
    intros Hi H. unfold exp_token in H. pose proof (exp_token_go_in ty i i Hi Hi) as G.
    inversion H; subst. rewrite H1 in G. tauto.
  Qed.

  Lemma exp_ident_val_go_in v orig l : Forall S orig -> Forall S l ->
    match exp_ident_val_go v orig l with
    | Ok r t => Forall S r
    | Err e _ => Forall S e
    | _ => True
    end.
  Proof.
    intros Ho. induction l as [|t l IH]; intro Hl; simpl; [exact Ho|].
    inversion Hl; subst.
    destruct (tt_eqb (tty t) TIdentifier && str_eqb (upper (tval t)) (upper v)); [assumption|].
    destruct (is_comment t); [apply IH; assumption|exact Ho].
  Qed.

  Lemma Dg_exp_ident v : Dg (exp_ident_with_value v).
  Proof.
    apply (Dg_pure _ (fun i => exp_ident_val_go v i i)); [reflexivity|]. intros i Hi.
    pose proof (exp_ident_val_go_in v i i Hi Hi) as H. destruct (exp_ident_val_go v i i); simpl; tauto.
  Qed.

  Lemma take_until_go_in tys l acc : Forall S l -> Forall S (fst (fst (take_until_go tys l acc))).
  Proof.
    revert acc. induction l as [|t l IH]; intros acc Hl; simpl; [constructor|].
    inversion Hl; subst. destruct (existsb (tt_eqb (tty t)) tys); simpl; [assumption|apply IH; assumption].
  Qed.

  Lemma Dg_take_until tys : Dg (take_until tys).
  Proof.
    apply (Dg_pure _ (fun i => let '(rest, body, term) := take_until_go tys i [] in Ok rest (body, term))).
    - intros i c. unfold take_until. destruct (take_until_go tys i []) as [[rest body] term]. reflexivity.
    - intros i Hi. pose proof (take_until_go_in tys i [] Hi) as H.
      destruct (take_until_go tys i []) as [[rest body] term]. exact H.
  Qed.

  Lemma Dg_bind {A B} (p : P A) (k : A -> P B) : Dg p -> (forall a, Dg (k a)) -> Dg (bind p k).
  Proof.
    intros Hp Hk i c Hi Hc. unfold bind. use Hp i c Hi Hc r c1 R1 C1 N1.
    destruct r as [rest a|e m|s|]; apply (post_cont _ _ _ N1); try (apply post_ret; assumption).
    apply Hk; assumption.
  Qed.

  Lemma Dg_prepend {A} pre (p : P A) : Dg p -> Dg (prepend pre p).
  Proof.
    intros Hp i c Hi Hc. unfold prepend. use Hp i c Hi Hc r c1 R1 C1 N1.
    destruct r; apply (post_cont _ _ _ N1); apply post_ret; assumption.
  Qed.

  Lemma Dg_rae {A} (p : P A) : Dg p -> Dg (recover_at_error p).
  Proof.
    intros Hp i c Hi Hc. unfold recover_at_error. use Hp i c Hi Hc r c1 R1 C1 N1.
    destruct r; apply (post_cont _ _ _ N1); apply post_ret; assumption.
  Qed.

  Lemma Dg_opt {A} (p : P A) : Dg p -> Dg (opt p).
  Proof.
    intros Hp i c Hi Hc. unfold opt. use Hp i c Hi Hc r c1 R1 C1 N1.
    destruct r; apply (post_cont _ _ _ N1); apply post_ret; assumption.
  Qed.

  Definition best_in (best : option (input * str)) : Prop :=
    match best with Some (e, _) => Forall S e | None => True end.

  Lemma best_upd e m best : Forall S e -> best_in best ->
    best_in (match best with
             | Some (be, bm) => if ilen e <? ilen be then Some (e, m) else Some (be, bm)
             | None => Some (e, m)
             end).
  Proof. intros He Hb. destruct best as [[be bm]|]; [destruct (ilen e <? ilen be)|]; simpl; auto. Qed.

  Lemma Dg_alt_go {A} (ps : list (P A)) : Forall Dg ps -> forall best, best_in best ->
    forall i c, Forall S i -> CacheS c -> Post c (alt_go ps best i c).
  Proof.
    induction 1 as [|p ps Hp Hps IH]; intros best Hb i c Hi Hc; cbn [alt_go].
    - destruct best as [[e m]|]; apply post_ret; simpl; auto.
    - use Hp i c Hi Hc r c1 R1 C1 N1.
      destruct r as [rest a|e m|s|]; apply (post_cont _ _ _ N1); try (apply post_ret; assumption).
      apply IH; auto. apply best_upd; assumption.
  Qed.

  Lemma Dg_alt {A} (ps : list (P A)) : Forall Dg ps -> Dg (alt ps).
  Proof. intros H i c Hi Hc. unfold alt. apply Dg_alt_go; simpl; auto. Qed.

  Lemma Dg_sep_tokens_go item sep fuel : forall acc, Dg (sep_tokens_go fuel item sep acc).
  Proof.
    induction fuel as [|f IH]; intros acc i c Hi Hc; cbn [sep_tokens_go]; [apply post_ret; simpl; auto|].
    use (Dg_exp_token item) i c Hi Hc r c1 R1 C1 N1.
    destruct r as [rest t|e m|s|]; apply (post_cont _ _ _ N1); try (apply post_ret; assumption).
    use (Dg_exp_token sep) rest c1 R1 C1 r2 c2 R2 C2 N2.
    destruct r2 as [rest2 t2|e m|s|]; apply (post_cont _ _ _ N2); try (apply post_ret; assumption).
    apply IH; assumption.
  Qed.

  Lemma Dg_sep_tokens item sep : Dg (sep_tokens item sep).
  Proof. intros i c Hi Hc. unfold sep_tokens. apply Dg_sep_tokens_go; assumption. Qed.

  Ltac use_tok ty i c Hi Hc r c1 R1 C1 N1 T1 :=
    destruct (Dg_exp_token ty i c Hi Hc) as (R1 & C1 & N1);
    pose proof (fun r t c' => exp_token_returns ty i c r t c' Hi) as T1;
    destruct (exp_token ty i c) as [r c1]; cbn [fst snd] in R1, C1, N1.

  Lemma Dg_sep_list_rec {A} (p : P A) sep : Dg p -> forall fuel prev acc, S prev -> Dg (sep_list_rec fuel p sep prev acc).
  Proof.
    intros Hp. induction fuel as [|f IH]; intros prev acc Hprev i c Hi Hc; cbn [sep_list_rec]; [apply post_ret; simpl; auto|].
    use Hp i c Hi Hc r c1 R1 C1 N1.
    destruct r as [rest a|e m|s|]; apply (post_cont _ _ _ N1); try (apply post_ret; assumption).
    - use_tok sep rest c1 R1 C1 r2 c2 R2 C2 N2 T2.
      destruct r2 as [rest2 t2|e2 m2|s|]; apply (post_cont _ _ _ N2); try (apply post_ret; assumption).
      apply IH; try assumption. exact (T2 _ _ _ eq_refl).
    - set (dg := mkDiag (new_range (range_or i (trange prev)) (range_or e (range_or i (trange prev)))) m).
      apply (post_diag _ dg); [apply sep_diag_ok; assumption|].
      pose proof (CacheS_add_diag dg c1 C1) as C1'.
      use_tok sep e (add_diag dg c1) R1 C1' r2 c2 R2 C2 N2 T2.
      destruct r2 as [rest2 t2|e2 m2|s|]; apply (post_cont _ _ _ N2); try (apply post_ret; assumption).
      apply IH; try assumption. exact (T2 _ _ _ eq_refl).
  Qed.

  Lemma Dg_sep_list {A} (p : P A) sep : Dg p -> Dg (sep_list p sep).
  Proof.
    intros Hp i c Hi Hc. unfold sep_list. use Hp i c Hi Hc r c1 R1 C1 N1.
    destruct r as [rest a|e m|s|]; apply (post_cont _ _ _ N1); try (apply post_ret; assumption).
    use_tok sep rest c1 R1 C1 r2 c2 R2 C2 N2 T2.
    destruct r2 as [rest2 t2|e2 m2|s|]; apply (post_cont _ _ _ N2); try (apply post_ret; assumption).
    apply Dg_sep_list_rec; try assumption. exact (T2 _ _ _ eq_refl).
  Qed.

  Lemma Dg_repeat_go {A} (p : P A) : Dg p -> forall fuel acc, Dg (repeat_go fuel p acc).
  Proof.
    intros Hp. induction fuel as [|f IH]; intros acc i c Hi Hc; cbn [repeat_go]; [apply post_ret; simpl; auto|].
    destruct i as [|t i']; [apply post_ret; simpl; auto|].
    use Hp (t :: i') c Hi Hc r c1 R1 C1 N1.
    destruct r as [rest a|e m|s|]; apply (post_cont _ _ _ N1); try (apply post_ret; assumption).
    - apply IH; assumption.
    - apply (post_diag _ (diag_at (t :: i') e m)); [apply diag_at_ok; [exact Hi|exact R1]|].
      apply IH; [apply skip_in; exact R1|apply CacheS_add_diag; exact C1].
  Qed.

  Lemma Dg_repeat {A} (p : P A) : Dg p -> Dg (repeat_w_ctx p).
  Proof. intros Hp i c Hi Hc. unfold repeat_w_ctx. apply Dg_repeat_go; assumption. Qed.

  Lemma Dg_until_go {A} (stop : P tok) (p : P A) : Dg stop -> Dg p -> forall fuel acc, Dg (until_go fuel stop p acc).
  Proof.
    intros Hs Hp. induction fuel as [|f IH]; intros acc i c Hi Hc; cbn [until_go]; [apply post_ret; simpl; auto|].
    destruct i as [|t i']; [apply post_ret; simpl; auto|].
    use Hs (t :: i') c Hi Hc r0 c0 R0 C0 NN0.
    destruct r0 as [rest0 t0|e0 m0|s|]; apply (post_cont _ _ _ NN0); try (apply post_ret; assumption).
    use Hp (t :: i') c0 Hi C0 r c1 R1 C1 N1.
    destruct r as [rest a|e m|s|]; apply (post_cont _ _ _ N1); try (apply post_ret; assumption).
    - apply IH; assumption.
    - apply (post_diag _ (diag_at (t :: i') e m)); [apply diag_at_ok; [exact Hi|exact R1]|].
      apply IH; [apply skip_in; exact R1|apply CacheS_add_diag; exact C1].
  Qed.

  Lemma Dg_until {A} (stop : P tok) (p : P A) : Dg stop -> Dg p -> Dg (until_w_ctx stop p).
  Proof. intros Hs Hp i c Hi Hc. unfold until_w_ctx. apply Dg_until_go; assumption. Qed.

  Lemma Dg_until_strict_go {A} (stop : P tok) (p : P A) : Dg stop -> Dg p -> forall fuel acc, Dg (until_strict_go fuel stop p acc).
  Proof.
    intros Hs Hp. induction fuel as [|f IH]; intros acc i c Hi Hc; cbn [until_strict_go]; [apply post_ret; simpl; auto|].
    destruct i as [|t i']; [apply post_ret; simpl; auto|].
    use Hs (t :: i') c Hi Hc r0 c0 R0 C0 NN0.
    destruct r0 as [rest0 t0|e0 m0|s|]; apply (post_cont _ _ _ NN0); try (apply post_ret; assumption).
    use Hp (t :: i') c0 Hi C0 r c1 R1 C1 N1.
    destruct r as [rest a|e m|s|]; apply (post_cont _ _ _ N1); try (apply post_ret; assumption).
    apply IH; assumption.
  Qed.

  Lemma Dg_until_strict {A} (stop : P tok) (p : P A) : Dg stop -> Dg p -> Dg (until_strict stop p).
  Proof. intros Hs Hp i c Hi Hc. unfold until_strict. apply Dg_until_strict_go; assumption. Qed.

  Lemma Dg_until_no_match_go {A} (p : P A) : Dg p -> forall fuel acc, Dg (until_no_match_go fuel p acc).
  Proof.
    intros Hp. induction fuel as [|f IH]; intros acc i c Hi Hc; cbn [until_no_match_go]; [apply post_ret; simpl; auto|].
    destruct i as [|t i']; [apply post_ret; simpl; auto|].
    use Hp (t :: i') c Hi Hc r c1 R1 C1 N1.
    destruct r as [rest a|e m|s|]; apply (post_cont _ _ _ N1); try (apply post_ret; assumption).
    apply IH; assumption.
  Qed.

  Lemma Dg_until_no_match {A} (p : P A) : Dg p -> Dg (until_no_match p).
  Proof. intros Hp i c Hi Hc. unfold until_no_match. apply Dg_until_no_match_go; assumption. Qed.

  Lemma Dg_binops_go (opp : P tok) (ep : P node) : Dg opp -> Dg ep -> forall fuel left, Dg (binops_go fuel opp ep left).
  Proof.
    intros Ho He. induction fuel as [|f IH]; intros left i c Hi Hc; cbn [binops_go]; [apply post_ret; simpl; auto|].
    use Ho i c Hi Hc r0 c0 R0 C0 NN0.
    destruct r0 as [rest0 op|e0 m0|s|]; apply (post_cont _ _ _ NN0); try (apply post_ret; assumption).
    use He rest0 c0 R0 C0 r c1 R1 C1 N1.
    destruct r as [rest a|e m|s|]; apply (post_cont _ _ _ N1); try (apply post_ret; assumption).
    - apply IH; assumption.
    - destruct (tt_eqb (tty op) TDot); [apply IH; assumption|apply post_ret; assumption].
  Qed.

  Lemma Dg_binops (opp : P tok) (ep : P node) : Dg opp -> Dg ep -> Dg (binops opp ep).
  Proof.
    intros Ho He i c Hi Hc. unfold binops. use He i c Hi Hc r c1 R1 C1 N1.
    destruct r as [rest a|e m|s|]; apply (post_cont _ _ _ N1); try (apply post_ret; assumption).
    apply Dg_binops_go; assumption.
  Qed.

  Lemma Dg_memo k p : Dg p -> Dg (memo k p).
  Proof.
    intros Hp i c Hi Hc. unfold memo.
    destruct (get_cache k (ilen i) c) as [r|] eqn:E.
    - apply post_ret; [eapply get_cache_in; eauto|exact Hc].
    - use Hp i c Hi Hc r c1 R1 C1 N1. apply (post_cont _ _ _ N1).
      destruct r; try (apply post_ret; assumption);
        (eapply post_cont; [|apply post_ret; [assumption|apply CacheS_set; assumption]]; apply news_set_cache).
  Qed.

  Lemma Dg_memo_ok_only k p : Dg p -> Dg (memo_ok_only k p).
  Proof.
    intros Hp i c Hi Hc. unfold memo_ok_only.
    destruct (get_cache k (ilen i) c) as [r|] eqn:E.
    - apply post_ret; [eapply get_cache_in; eauto|exact Hc].
    - use Hp i c Hi Hc r c1 R1 C1 N1. apply (post_cont _ _ _ N1).
      destruct r; try (apply post_ret; assumption);
        (eapply post_cont; [|apply post_ret; [assumption|apply CacheS_set; assumption]]; apply news_set_cache).
  Qed.

  Lemma Dg_tok_alt tys : Dg (tok_alt tys).
  Proof.
    unfold tok_alt. apply Dg_alt. induction tys as [|t tys IH]; simpl; constructor; [apply Dg_exp_token|exact IH].
  Qed.

  Lemma Dg_if_loop pe rs : Dg pe -> Dg rs -> forall fuel it cur done, S it -> Dg (if_loop pe rs fuel it cur done).
  Proof.
    intros Hpe Hrs. induction fuel as [|f IH]; intros it cur done Hit i c Hi Hc; cbn [if_loop]; [apply post_ret; simpl; auto|].
    destruct i as [|t0 i']; [apply post_ret; simpl; auto|].
    assert (Dg (until_w_ctx (tok_alt [TElseIf; TElse; TEndIf; TEnd]) rs)) as Hu
      by (apply Dg_until; [apply Dg_tok_alt|exact Hrs]).
    use Hu (t0 :: i') c Hi Hc r c1 R1 C1 N1.
    destruct r as [rest [nodes endt]|e m|s|]; apply (post_cont _ _ _ N1); try (apply post_ret; assumption).
    destruct endt as [t|].
    - destruct (tt_eqb (tty t) TEndIf || tt_eqb (tty t) TEnd); [apply post_ret; assumption|].
      destruct (tt_eqb (tty t) TElseIf).
      + use Hpe rest c1 R1 C1 r2 c2 R2 C2 N2.
        destruct r2 as [rest2 cond|e m|s|]; apply (post_cont _ _ _ N2); try (apply post_ret; assumption).
        apply IH; assumption.
      + destruct (tt_eqb (tty t) TElse); [apply IH; assumption|apply post_ret; assumption].
    - apply (post_diag _ (mkDiag (trange it) S_no_end_token_found)).
      + apply diag_ok_tok. exact Hit.
      + apply IH; [exact Hit|exact R1|apply CacheS_add_diag; exact C1].
  Qed.

  Lemma Dg_if_block pe rs : Dg pe -> Dg rs -> Dg (parse_if_block pe rs).
  Proof.
    intros Hpe Hrs i c Hi Hc. unfold parse_if_block. unfold bind at 1.
    pose proof (Dg_exp_token TIf i c Hi Hc) as H0.
    destruct (exp_token TIf i c) as [r0 c0] eqn:E0. destruct H0 as (R0 & C0 & NN0). cbn [fst snd] in *.
    destruct r0 as [rest0 it|e m|s|]; apply (post_cont _ _ _ NN0); try (apply post_ret; assumption).
    assert (S it) as Hit by exact (exp_token_returns TIf i c rest0 it c0 Hi E0).
    revert rest0 c0 R0 C0 E0 NN0. intros rest0 c0 R0 C0 _ _.
    apply Dg_bind; [exact Hpe| |exact R0|exact C0]. intro cond.
    apply Dg_bind.
    - intros i2 c2 Hi2 Hc2. apply Dg_if_loop; auto.
    - intros [[cur done] endt]. apply Dg_ret.
  Qed.

  Lemma Dg_try_blocks ps : Forall Dg ps -> forall best, best_in best -> forall i c, Forall S i -> CacheS c ->
    Post c (try_blocks ps best i c) /\
    match fst (try_blocks ps best i c) with Ok _ (_, b) => best_in b | _ => True end.
  Proof.
    induction 1 as [|p ps Hp Hps IH]; intros best Hb i c Hi Hc; cbn [try_blocks].
    - split; [apply post_ret; simpl; auto|exact Hb].
    - use Hp i c Hi Hc r c1 R1 C1 N1.
      destruct r as [rest a|e m|s|]; try (split; [apply (post_cont _ _ _ N1); apply post_ret; assumption|simpl; auto]).
      destruct (IH _ (best_upd e m best R1 Hb) i c1 Hi C1) as [P1 P2].
      split; [apply (post_cont _ _ _ N1); exact P1|exact P2].
  Qed.

  Lemma Dg_stmt_shape ps qs : Forall Dg ps -> Dg (alt qs) -> Dg (stmt_body_shape ps qs).
  Proof.
    intros Hps Ha i c Hi Hc. unfold stmt_body_shape.
    destruct (Dg_try_blocks ps Hps None I i c Hi Hc) as [(R1 & C1 & N1) B1].
    destruct (try_blocks ps None i c) as [r c1]. cbn [fst snd] in *.
    destruct r as [rest [[nd|] best]|e m|s|]; apply (post_cont _ _ _ N1); try (apply post_ret; assumption).
    use Ha i c1 Hi C1 r2 c2 R2 C2 N2.
    destruct r2 as [rest2 a2|e2 m2|s|]; apply (post_cont _ _ _ N2); try (apply post_ret; assumption).
    destruct best as [[be bm]|]; [destruct (ilen e2 <? ilen be)|]; apply post_ret; simpl in *; auto.
  Qed.
End Diag.

Theorem gram_Dg S : forall f,
  Dg S (g_type (gram f)) /\ Dg S (g_expr (gram f)) /\ Dg S (g_primary (gram f)) /\ Dg S (g_stmt (gram f)).
Proof.
  apply (gram_R (fun A => @Dg S A)); intros.
  - apply Dg_ret. - apply Dg_fail. - apply Dg_panic. - apply Dg_nofuel.
  - apply Dg_bind; auto. - apply Dg_prepend; auto. - apply Dg_rae; auto. - apply Dg_opt; auto.
  - apply Dg_exp_token. - apply Dg_exp_ident. - apply Dg_take_until. - apply Dg_alt; auto.
  - apply Dg_sep_tokens. - apply Dg_sep_list; auto. - apply Dg_until; auto.
  - apply Dg_until_strict; auto. - apply Dg_until_no_match; auto. - apply Dg_binops; auto.
  - apply Dg_memo; auto.
  - apply Dg_if_block; auto. - apply Dg_stmt_shape; auto.
Qed.

(* the statements of a method body, parsed on the body's own slice from a cleared cache: every
   diagnostic starts at a token of the body *)
Theorem body_diags_from_body (g : G) (body : list tok) :
  Dg (fun t => In t body) (g_stmt g) ->
  forall i c, exists new,
    cdiags (snd (parse_method_body g body i c)) = new ++ cdiags c /\
    Forall (diag_ok (fun t => In t body)) new.
Proof.
  intros Hs i c. unfold parse_method_body. destruct body as [|first rest].
  - exists []. split; [reflexivity|constructor].
  - set (S := fun t => In t (first :: rest)) in *. unfold on_slice.
    match goal with |- context [bind (with_ctx clear_cache) ?k] => set (kk := k) end.
    assert (Dg S (kk tt)) as Hk.
    { unfold kk. apply Dg_bind; [apply Dg_repeat; exact Hs|]. intro stmts. destruct stmts; apply Dg_ret. }
    unfold bind, with_ctx.
    assert (Forall S (first :: rest)) as Hall by (apply Forall_forall; intros x Hx; exact Hx).
    destruct (Hk (first :: rest) (clear_cache c) Hall (CacheS_clear S c)) as (_ & _ & (new & E & Hn)).
    destruct (kk tt (first :: rest) (clear_cache c)) as [r c1]. cbn [snd] in *.
    exists new. split; [|exact Hn]. destruct r; cbn [snd]; exact E.
Qed.
