(* C17: the layers put together.
   - the document the manager builds from a text (DocumentService::parse_content: lex, parse_gold, the lexer's
     errors appended to the parser's diagnostics) and its invariance under re-casing of words;
   - the file-level report (parser + lexical diagnostics, unused-variable rule, lint rules, outline) on two
     re-cased documents;
   - the case-insensitivity of the name-resolution layer, as corollaries of the C18 / C10 / C11 proofs. *)
From GoldV Require Import Base Tokens Keywords Lexer LexerProofs AstKinds Tree Strings PComb Grammar ParserWF GrammarWF.
From GoldV Require Import Outline UnusedVar Lints Recase RecaseBase RecaseLex RecaseComb RecaseGrammar RecaseTop.
From GoldV Require Import RecaseOutline RecaseUnusedVar RecaseLints.
From GoldV Require Import SymTab SymTabProofs Scoping ScopingProofs.

(* ---------- the document of a text ---------- *)

Record pdoc := mkPdoc { pd_root : node; pd_diags : list pdiag; pd_lexerrs : list lexerr }.

Definition document_of (text : str) : option pdoc :=
  match parse_gold (fst (lex text)) with
  | (Ok _ root, c) => Some (mkPdoc root (cdiags c) (snd (lex text)))
  | _ => None
  end.

Lemma document_of_total text : exists d, document_of text = Some d.
Proof.
  unfold document_of, parse_gold.
  destruct (parse_gold_total true (default_fuel (fst (lex text))) (fst (lex text))) as [root H].
  - unfold default_fuel. lia.
  - destruct (parse_gold_with true (default_fuel (fst (lex text))) (fst (lex text))) as [r c].
    cbn [fst] in H. subst r. eauto.
Qed.

(* re-casing letters inside word tokens: the two documents have similar trees, the same parser
   diagnostics (ranges and messages) and the same lexical errors *)
Theorem document_recased text text' : text_recased text text' ->
  exists d d', document_of text = Some d /\ document_of text' = Some d' /\
    node_sim (pd_root d) (pd_root d') /\ pd_diags d = pd_diags d' /\ pd_lexerrs d' = pd_lexerrs d.
Proof.
  intro H. destruct (lex_recased text text' H) as [Ht He].
  destruct (parse_gold_default_sim _ _ Ht) as [Hr Hd].
  destruct (document_of_total text) as [d Ed]. destruct (document_of_total text') as [d' Ed'].
  exists d, d'. split; [exact Ed|]. split; [exact Ed'|].
  unfold document_of in Ed, Ed'.
  destruct (parse_gold (fst (lex text))) as [r c]. destruct (parse_gold (fst (lex text'))) as [r' c'].
  cbn [fst snd] in Hr, Hd.
  destruct Hr as [rest rest' root root' Hrest Hroot|e e' m He'|s|]; try discriminate.
  inversion Ed; subst d. inversion Ed'; subst d'. cbn [pd_root pd_diags pd_lexerrs].
  split; [exact Hroot|]. split; [exact Hd|exact He].
Qed.

(* ---------- the file-level report on two similar trees ---------- *)

(* declarations as written: every analyser's output is IDENTICAL (naming rules included);
   the outline is identical up to the letter case of its detail strings *)
Theorem report_exact r r' : node_sim r r' -> decl_exact r r' ->
  analyze_today r = analyze_today r' /\
  lints r = lints r' /\
  fst (request (fresh_doc r)) = fst (request (fresh_doc r')) /\
  map norm_detail (outline r) = map norm_detail (outline r').
Proof.
  intros Hs Hd. split; [apply unusedvar_exact; assumption|].
  split; [apply lints_exact; assumption|]. split; [apply request_exact; assumption|].
  apply outline_decl_exact; assumption.
Qed.

(* everything re-cased, declarations too: the non-naming rules still agree up to the case of the
   name they quote; so does the outline *)
Theorem report_sim r r' : node_sim r r' ->
  Forall2 diag_sim (analyze_today r) (analyze_today r') /\
  ret_type_lint r = ret_type_lint r' /\
  Forall2 ldiag_sim (unpurged_lint r) (unpurged_lint r') /\
  Forall2 ldiag_sim (inherited_lint r) (inherited_lint r') /\
  Forall2 dsym_sim (outline r) (outline r').
Proof.
  intros Hs. split; [apply unusedvar_sim; assumption|].
  split; [apply ret_type_lint_eq; assumption|]. split; [apply unpurged_lint_sim; assumption|].
  split; [apply inherited_lint_sim; assumption|apply outline_sim_list; assumption].
Qed.

(* ---------- name resolution ---------- *)

Lemma ci_eqb_of_upper a b : upper a = upper b -> ci_eqb a b = true.
Proof. intro E. apply str_eqb_eq. exact E. Qed.

(* the class named by a reference: the index look-up, the parent chain and the tables of the chain *)
Lemma class_of_reference_ci ws d d' : upper d = upper d' ->
  find_entity ws d = find_entity ws d' /\ lineage ws d = lineage ws d' /\ class_chain ws d = class_chain ws d'.
Proof.
  intro E. pose proof (ci_eqb_of_upper _ _ E) as H.
  split; [apply find_entity_ci; exact H|]. split; [apply lineage_ci; exact H|].
  unfold class_chain. rewrite (lineage_ci ws d d' H). reflexivity.
Qed.

(* identifier, enclosing class and qualifying class all spelled in another letter case *)
Theorem resolution_ci ws c c' m d d' a b :
  upper c = upper c' -> upper d = upper d' -> upper a = upper b ->
  resolve_plain ws c m a = resolve_plain ws c' m b /\
  resolve_member ws d a = resolve_member ws d' b /\
  definition_member_name ws d a = definition_member_name ws d' b.
Proof.
  intros Ec Ed Ea.
  destruct (resolve_ci ws c m d a b Ea) as (P1 & P2 & _).
  destruct (resolve_class_name_ci ws c c' m b Ec) as (Q1 & _).
  destruct (resolve_class_name_ci ws d d' m b Ed) as (_ & Q2).
  split; [congruence|]. split; [congruence|].
  unfold definition_member_name. destruct (class_of_reference_ci ws d d' Ed) as (_ & _ & E3).
  rewrite E3, (search_all_ci _ a b Ea). reflexivity.
Qed.

(* `uses X` in any letter case: the loop over the used entities *)
Lemma search_uses_entities_ci ws us us' id : Forall2 (fun u u' => upper u = upper u') us us' ->
  search_uses ws us id = search_uses ws us' id.
Proof.
  induction 1 as [|u u' us us' E _ IH]; [reflexivity|]. cbn [search_uses].
  destruct (class_of_reference_ci ws u u' E) as (E1 & _ & E3). rewrite E1, E3, IH. reflexivity.
Qed.

(* ---------- completion ---------- *)

(* after `x.`: the labels depend on the class of x only, not on how that class (or the class the
   request is made in) is spelled *)
Theorem completion_member_ci ws c c' m m' d d' : upper d = upper d' ->
  completion_member ws c m d = completion_member ws c' m' d' /\
  complete_after_dot ws d = complete_after_dot ws d'.
Proof.
  intro E. rewrite !completion_member_spec. split; unfold complete_after_dot;
    destruct (class_of_reference_ci ws d d' E) as (_ & _ & E3); rewrite E3; reflexivity.
Qed.

Theorem complete_plain_ci ws c c' m : upper c = upper c' -> complete_plain ws c m = complete_plain ws c' m.
Proof. intro E. unfold complete_plain. rewrite (scope_chain_ci ws c c' m E). reflexivity. Qed.

(* two spellings of a dotted operand whose static classes are the same class in another letter
   case give the same proposals and the same definition links *)
Theorem dotted_ci ws c m p p' id id' :
  match static_class ws c m p, static_class ws c m p' with
  | Some t, Some t' => upper (sty_name t) = upper (sty_name t')
  | None, None => True
  | _, _ => False
  end ->
  upper id = upper id' ->
  completion_dotted ws c m p = completion_dotted ws c m p' /\
  definition_dotted ws c m p id = definition_dotted ws c m p' id'.
Proof.
  intros H Ei. unfold completion_dotted, definition_dotted.
  destruct (static_class ws c m p) as [t|], (static_class ws c m p') as [t'|]; try contradiction; [|auto].
  split; [apply completion_member_ci; exact H|].
  unfold definition_member. rewrite !member_chain_class_chain.
  destruct (class_of_reference_ci ws _ _ H) as (_ & _ & E3). rewrite E3, (search_all_ci _ id id' Ei). reflexivity.
Qed.

(* ---------- the type hierarchy ---------- *)
From GoldV Require Import Forest ParentGraph ForestProofs.
From Coq Require Import Relations.

(* class names and parent references spelled in another letter case: the class tree the builder
   produces has the same parent / children relation (as C13_case_independent) *)
Theorem hierarchy_recased fs fs' :
  Forest fs -> (length fs <= 5000)%nat -> recased fs fs' -> same_rel (build fs) (build fs').
Proof.
  intros HF Hb Hr. apply same_rel_of_spec with fs fs'.
  - apply seq_spec; [exact HF|apply isa_bound_5000; exact Hb].
  - apply seq_spec; [eapply recased_Forest; eauto|apply isa_bound_5000; rewrite <- (recased_length _ _ Hr); exact Hb].
  - intros a b. split; apply recased_R; [exact Hr|apply recased_sym; exact Hr].
  - intro k. rewrite (recased_names _ _ Hr). tauto.
Qed.

Lemma rank_forest' fs (rank : str -> nat) :
  NoDup (map ckey fs) -> (forall a b, R fs a b -> (rank b < rank a)%nat) -> Forest fs.
Proof.
  intros Hnd Hr. split; [exact Hnd|].
  assert (H : forall a b, clos_trans str (R fs) a b -> (rank b < rank a)%nat).
  { intros a b Hc. induction Hc; [auto|lia]. }
  intros k Hk. specialize (H k k Hk). lia.
Qed.

(* ---------- the static class of a dotted operand does not depend on how the operand is spelled ---------- *)

Definition item_ci (i i' : item) : Prop :=
  match i, i' with
  | IId n, IId n' => upper n = upper n'
  | ICall n, ICall n' => upper n = upper n'
  | _, _ => False
  end.

Lemma item_ci_name i i' : item_ci i i' -> upper (item_name i) = upper (item_name i').
Proof. destruct i, i'; cbn [item_ci item_name]; tauto. Qed.

Lemma class_chain_during_ci ws c m d d' : upper d = upper d' ->
  class_chain_during ws c m d = class_chain_during ws c m d'.
Proof.
  intro E. pose proof (ci_eqb_of_upper _ _ E) as H. unfold class_chain_during.
  destruct (class_of_reference_ci ws d d' E) as (_ & E2 & E3). rewrite E2, E3.
  replace (ci_eqb d' c) with (ci_eqb d c); [reflexivity|]. unfold ci_eqb. rewrite E. reflexivity.
Qed.

Lemma is_intrinsic_ci n n' : upper n = upper n' -> is_intrinsic n = is_intrinsic n'.
Proof. intro E. unfold is_intrinsic. rewrite E. reflexivity. Qed.

Lemma head_etype_ci ws c m i i' : item_ci i i' -> head_etype ws c m i = head_etype ws c m i'.
Proof.
  destruct i as [n|n], i' as [n'|n']; cbn [item_ci]; try contradiction; intro E; cbn [head_etype].
  - rewrite (search_wparent_ci _ n n' E).
    destruct (class_of_reference_ci ws n n' E) as (E1 & _ & _). rewrite E1.
    rewrite (class_chain_during_ci ws c m n n' E), (search_wparent_ci _ n n' E). reflexivity.
  - rewrite (is_intrinsic_ci n n' E), (search_wparent_ci _ n n' E). reflexivity.
Qed.

(* the comparison `left type spelled exactly as the class being annotated` (for_class_or_module) is harmless:
   both branches reach the same table *)
Lemma next_etype_ci ws c m t t' i i' :
  upper (sty_name t) = upper (sty_name t') -> upper (item_name i) = upper (item_name i') ->
  next_etype ws c m t i = next_etype ws c m t' i'.
Proof.
  intros Et Ei. unfold next_etype.
  set (own := match find_entity ws c with Some e => e_name e | None => c end).
  set (d := match t with SClass s => s | SModule s => s end).
  set (d' := match t' with SClass s => s | SModule s => s end).
  assert (Ed : upper d = upper d') by (destruct t, t'; exact Et).
  assert (Hown : upper own = upper c).
  { unfold own. destruct (find_entity ws c) eqn:F; [|reflexivity].
    apply find_entity_in in F. destruct F as [_ F]. apply ci_eqb_true in F. exact F. }
  (* when the left type names the annotated class (in any case) the table is that of c *)
  assert (Same : forall x, upper x = upper own ->
            (match find_entity ws x with
             | Some _ => sym_etype etype_fuel ws None (search_wparent (class_chain_during ws c m x) (item_name i))
             | None => None
             end) = sym_etype etype_fuel ws None (search_wparent (class_chain_during ws c m c) (item_name i))).
  { intros x Ex. assert (Exc : upper x = upper c) by congruence.
    destruct (class_of_reference_ci ws x c Exc) as (F1 & F2 & _). rewrite F1.
    destruct (find_entity ws c) eqn:F.
    - rewrite (class_chain_during_ci ws c m x c Exc). reflexivity.
    - unfold class_chain_during. rewrite (lineage_not_indexed ws c F).
      unfold class_chain. rewrite (lineage_not_indexed ws c F). reflexivity. }
  rewrite <- (search_wparent_ci _ _ _ Ei).
  rewrite <- (search_wparent_ci (class_chain_during ws c m d') _ _ Ei).
  destruct (str_eqb d own) eqn:A, (str_eqb d' own) eqn:B.
  - reflexivity.
  - apply str_eqb_eq in A. symmetry. apply Same. rewrite <- Ed, A. reflexivity.
  - apply str_eqb_eq in B. apply Same. rewrite Ed, B. reflexivity.
  - destruct (class_of_reference_ci ws d d' Ed) as (F1 & _ & _). rewrite F1.
    rewrite (class_chain_during_ci ws c m d d' Ed). reflexivity.
Qed.

Lemma chain_etype_ci ws c m l l' : Forall2 item_ci l l' ->
  forall a, chain_etype ws c m a l = chain_etype ws c m a l'.
Proof.
  induction 1 as [|i i' l l' Hi Hl IH]; intro a; [reflexivity|].
  unfold chain_etype. cbn [fold_left].
  fold (chain_etype ws c m (match a with None => None | Some t => next_etype ws c m t i end) l).
  fold (chain_etype ws c m (match a with None => None | Some t => next_etype ws c m t i' end) l').
  destruct a as [t|].
  - rewrite (next_etype_ci ws c m t t i i' eq_refl (item_ci_name _ _ Hi)). apply IH.
  - apply IH.
Qed.

(* the static class of a dotted operand written in method m of class c is the same for every spelling of
   the operand's names *)
Theorem static_class_ci ws c m p p' : Forall2 item_ci p p' -> static_class ws c m p = static_class ws c m p'.
Proof.
  destruct 1 as [|i i' l l' Hi Hl]; [reflexivity|]. cbn [static_class].
  rewrite (head_etype_ci ws c m i i' Hi). apply chain_etype_ci. exact Hl.
Qed.

(* hence the proposals after `operand.` and the links of `operand.name` do not depend on the operand's spelling *)
Theorem dotted_spelling_ci ws c m p p' id id' : Forall2 item_ci p p' -> upper id = upper id' ->
  completion_dotted ws c m p = completion_dotted ws c m p' /\
  definition_dotted ws c m p id = definition_dotted ws c m p' id'.
Proof.
  intros Hp Ei. apply dotted_ci; [|exact Ei]. rewrite (static_class_ci ws c m p p' Hp).
  destruct (static_class ws c m p'); [reflexivity|exact I].
Qed.
