(* Proofs about Model/Locks.v (C14): the link rule keeps the table graph acyclic under every
   sequence of analyses; in an acyclic graph a look-up takes each lock at most once, returns within
   `number of tables` acquisitions and releases everything; every request of the model is answered;
   several threads locking chains concurrently cannot deadlock (lock order child -> parent). *)
From GoldV Require Import Base Forest Locks ParentGraph ForestProofs.
From Coq Require Import Permutation.
Local Open Scope nat_scope.

Global Opaque reach_bound.

Definition tp (a : ast) : nat -> option nat := tpar_of (tabs a).

Record LInv (a : ast) : Prop := {
  lTerm  : Term (tp a);
  lBound : Bounded (tp a) (length (tabs a));
  lCur   : forall k n, alookup k (cur a) = Some n -> n < length (tabs a)
}.

Lemma LInv0 : LInv ast0.
Proof.
  constructor.
  - intro p. exists 1. simpl. unfold tp, tpar_of. simpl. destruct p; reflexivity.
  - intros p q H. unfold tp, tpar_of in H. simpl in H. destruct p; discriminate.
  - intros k n H. discriminate.
Qed.

(* ---- a new table ---- *)
Lemma tpar_new tb s x : tpar_of (tb ++ [mkTbl s None]) x = tpar_of tb x.
Proof.
  unfold tpar_of. destruct (lt_dec x (length tb)) as [H|H].
  - rewrite nth_error_app1 by exact H. reflexivity.
  - assert (nth_error tb x = None) as -> by (apply nth_error_None; lia).
    destruct (Nat.eq_dec x (length tb)) as [->|Hne].
    + rewrite nth_error_app2, Nat.sub_diag by lia. reflexivity.
    + assert (nth_error (tb ++ [mkTbl s None]) x = None) as ->; [|reflexivity].
      apply nth_error_None. rewrite app_length. simpl. lia.
Qed.

Definition publish (a : ast) (s : str) (full : bool) : ast :=
  mkAst (tabs a ++ [mkTbl s None]) (ainsert s (length (tabs a)) (cur a))
        (if full then s :: fullk a else fullk a).

Lemma LInv_publish a s full : LInv a -> LInv (publish a s full).
Proof.
  intros [H1 H2 H3]. constructor.
  - apply Term_ext with (tp a); [|exact H1]. intro x. unfold tp, publish. simpl. symmetry. apply tpar_new.
  - intros p q H. unfold tp, publish in *. simpl in *. rewrite tpar_new in H. rewrite app_length. simpl.
    destruct (H2 p q H). lia.
  - intros k n H. unfold publish in *. simpl in *. rewrite app_length. simpl.
    rewrite alookup_ainsert in H. destruct (str_eqb k s); [inversion H; lia | apply H3 in H; lia].
Qed.

Lemma publish_len a s full : length (tabs (publish a s full)) = S (length (tabs a)).
Proof. unfold publish. simpl. rewrite app_length. simpl. lia. Qed.

(* ---- the link rule ---- *)
Lemma reach_false F tb own m : reach F tb own m = false -> forall k, anc (tpar_of tb) k m <> Some own.
Proof.
  revert m. induction F as [|F IH]; intros m H k; simpl in H; [discriminate|].
  destruct (Nat.eqb m own) eqn:E; [discriminate|]. apply Nat.eqb_neq in E.
  destruct k as [|k]; simpl; [congruence|].
  destruct (tpar_of tb m) as [q|]; [apply IH; exact H | discriminate].
Qed.

Lemma tpar_set a n m x :
  n < length (tabs a) -> tp (set_tpar a n m) x = pupd (tp a) n m x.
Proof.
  intro Hn. unfold tp, set_tpar, tpar_of, pupd. simpl.
  destruct (Nat.eqb x n) eqn:E.
  - apply Nat.eqb_eq in E. subst. rewrite nth_upd_same.
    destruct (nth_error (tabs a) n) eqn:G; [reflexivity|]. apply nth_error_None in G. lia.
  - apply Nat.eqb_neq in E. rewrite nth_upd_other by congruence. reflexivity.
Qed.

Lemma LInv_link a n m :
  LInv a -> n < length (tabs a) -> m < length (tabs a) -> LInv (link_rule true a n m).
Proof.
  intros I Hn Hm. unfold link_rule. simpl. destruct (reach reach_bound (tabs a) n m) eqn:E; [exact I|].
  destruct I as [H1 H2 H3]. constructor.
  - apply Term_ext with (pupd (tp a) n m); [intro x; symmetry; apply tpar_set; exact Hn|].
    apply add_edge_Term; [exact H1 | eapply reach_false; eauto].
  - intros x q H. rewrite tpar_set in H by exact Hn. unfold set_tpar. simpl. rewrite upd_length.
    unfold pupd in H. destruct (Nat.eqb x n) eqn:Ex.
    + apply Nat.eqb_eq in Ex. inversion H; subst. auto.
    + apply (H2 x q H).
  - intros k x H. unfold set_tpar in *. simpl in *. rewrite upd_length. apply (H3 k x H).
Qed.

Lemma link_len nr a n m : length (tabs (link_rule nr a n m)) = length (tabs a).
Proof. unfold link_rule. destruct (nr && _); [reflexivity|]. unfold set_tpar. simpl. apply upd_length. Qed.

Lemma link_cur nr a n m : cur (link_rule nr a n m) = cur a.
Proof. unfold link_rule. destruct (nr && _); reflexivity. Qed.

(* ---- analyses ---- *)
Lemma analyse_S f nr fs full a s :
  analyse (S f) nr fs full a s =
  match find_file fs s with
  | None => Ok (publish a s full)
  | Some cf =>
      match chead cf with
      | Some (c, Some p) =>
          if self_guard nr c p then Ok (publish a s full)
          else match find_file fs (upper p) with
               | None => Ok (publish a s full)
               | Some _ =>
                   match alookup (upper p) (cur (publish a s full)) with
                   | Some m => Ok (link_rule nr (publish a s full) (length (tabs a)) m)
                   | None =>
                       match analyse f nr fs false (publish a s full) (upper p) with
                       | Ok a2 =>
                           match alookup (upper p) (cur a2) with
                           | Some m => Ok (link_rule nr a2 (length (tabs a)) m)
                           | None => Ok a2
                           end
                       | Deadlock l => Deadlock l
                       | OutOfFuel => OutOfFuel
                       end
                   end
               end
      | _ => Ok (publish a s full)
      end
  end.
Proof. reflexivity. Qed.

Lemma analyse_shape fuel nr fs full a s :
  analyse fuel nr fs full a s <> Deadlock 0 /\ forall l, analyse fuel nr fs full a s <> Deadlock l.
Proof.
  assert (H : forall l, analyse fuel nr fs full a s <> Deadlock l); [|split; auto].
  revert full a s. induction fuel as [|f IH]; intros full a s l; [discriminate|]. rewrite analyse_S.
  destruct (find_file fs s) as [cf|]; [|discriminate].
  destruct (chead cf) as [[c [p|]]|]; try discriminate.
  destruct (self_guard nr c p); [discriminate|].
  destruct (find_file fs (upper p)); [|discriminate].
  destruct (alookup (upper p) _); [discriminate|].
  destruct (analyse f nr fs false _ (upper p)) as [a2| |] eqn:E; try discriminate.
  - destruct (alookup (upper p) (cur a2)); discriminate.
  - exfalso. exact (IH _ _ _ _ E).
Qed.

(* every intermediate and final state of an analysis keeps the links acyclic, and the analysed
   file has a table afterwards *)
Lemma analyse_LInv fuel fs : forall full a s a',
  LInv a -> analyse fuel true fs full a s = Ok a' ->
  LInv a' /\ length (tabs a) < length (tabs a') /\ alookup s (cur a') <> None /\
  (forall k n, alookup k (cur a) = Some n -> k <> s -> alookup k (cur a') <> None).
Proof.
  induction fuel as [|f IH]; intros full a s a' I H; [discriminate|]. rewrite analyse_S in H.
  pose proof (LInv_publish a s full I) as I1. pose proof (publish_len a s full) as L1.
  assert (Hs1 : alookup s (cur (publish a s full)) = Some (length (tabs a))).
  { unfold publish. simpl. apply alookup_ainsert_same. }
  assert (Hk1 : forall k n, alookup k (cur a) = Some n -> k <> s -> alookup k (cur (publish a s full)) <> None).
  { intros k n Hk Hne. unfold publish. simpl. rewrite alookup_ainsert_other by exact Hne. congruence. }
  assert (Base : LInv (publish a s full) /\ length (tabs a) < length (tabs (publish a s full)) /\
                 alookup s (cur (publish a s full)) <> None /\
                 (forall k n, alookup k (cur a) = Some n -> k <> s -> alookup k (cur (publish a s full)) <> None)).
  { split; [exact I1|]. split; [lia|]. split; [congruence | exact Hk1]. }
  destruct (find_file fs s) as [cf|]; [|inversion H; subst; exact Base].
  destruct (chead cf) as [[c [p|]]|]; try (inversion H; subst; exact Base).
  destruct (self_guard true c p); [inversion H; subst; exact Base|].
  destruct (find_file fs (upper p)); [|inversion H; subst; exact Base].
  destruct (alookup (upper p) (cur (publish a s full))) as [m|] eqn:Em.
  - inversion H; subst. split; [apply LInv_link; [exact I1 | lia | apply (lCur _ I1 _ _ Em)]|].
    rewrite link_len, link_cur. split; [lia|]. split; [congruence | exact Hk1].
  - destruct (analyse f true fs false (publish a s full) (upper p)) as [a2| |] eqn:E2; try discriminate.
    destruct (IH _ _ _ _ I1 E2) as [I2 [L2 [Hp2 Hk2]]].
    assert (Hs2 : alookup s (cur a2) <> None).
    { destruct (str_eqb s (upper p)) eqn:Es; [apply str_eqb_eq in Es; subst; exact Hp2|].
      apply (Hk2 s _ Hs1). apply str_eqb_neq. exact Es. }
    assert (Hkk : forall k n, alookup k (cur a) = Some n -> k <> s -> alookup k (cur a2) <> None).
    { intros k n Hk Hne. destruct (alookup k (cur (publish a s full))) as [n'|] eqn:En; [|exfalso; eapply Hk1; eauto].
      destruct (str_eqb k (upper p)) eqn:Ek; [apply str_eqb_eq in Ek; subst; exact Hp2|].
      apply (Hk2 k n' En). apply str_eqb_neq. exact Ek. }
    destruct (alookup (upper p) (cur a2)) as [m|] eqn:Em2; [|congruence].
    inversion H; subst. split; [apply LInv_link; [exact I2 | lia | apply (lCur _ I2 _ _ Em2)]|].
    rewrite link_len, link_cur. split; [lia|]. split; assumption.
Qed.

(* fuel: one level of nesting per file that has no table yet *)
Definition nocur (a : ast) (f : cfile) : bool :=
  match alookup (cstem f) (cur a) with None => true | Some _ => false end.
Definition missing (fs : list cfile) (a : ast) : nat := length (filter (nocur a) fs).

Lemma find_file_In fs s cf : find_file fs s = Some cf -> In cf fs /\ cstem cf = s.
Proof.
  induction fs as [|f r IH]; simpl; [discriminate|].
  destruct (str_eqb s (cstem f)) eqn:E.
  - intro H. inversion H; subst. apply str_eqb_eq in E. auto.
  - intro H. destruct (IH H). auto.
Qed.

Lemma nocur_publish a s full f :
  nocur (publish a s full) f = if str_eqb (cstem f) s then false else nocur a f.
Proof.
  unfold nocur, publish. simpl. rewrite alookup_ainsert. destruct (str_eqb (cstem f) s); reflexivity.
Qed.

Lemma missing_publish_le fs a s full : missing fs (publish a s full) <= missing fs a.
Proof.
  unfold missing. induction fs as [|f r IH]; simpl; [lia|]. rewrite nocur_publish.
  destruct (str_eqb (cstem f) s); destruct (nocur a f); simpl; lia.
Qed.

Lemma missing_publish_lt fs a s full cf :
  find_file fs s = Some cf -> alookup s (cur a) = None -> missing fs (publish a s full) < missing fs a.
Proof.
  intros Hf Hn. apply find_file_In in Hf as [Hin Hs]. unfold missing.
  induction fs as [|f r IH]; [contradiction|]. simpl. rewrite nocur_publish.
  pose proof (missing_publish_le r a s full) as Hle. unfold missing in Hle.
  destruct Hin as [->|Hin].
  - assert (Hc : nocur a cf = true) by (unfold nocur; rewrite Hs, Hn; reflexivity).
    rewrite Hs, str_eqb_refl, Hc. simpl. lia.
  - specialize (IH Hin). destruct (str_eqb (cstem f) s); destruct (nocur a f); simpl; lia.
Qed.

Lemma analyse_fresh_fuel fs nr : forall f full a s,
  alookup s (cur a) = None -> find_file fs s <> None -> missing fs a <= f ->
  analyse f nr fs full a s <> OutOfFuel.
Proof.
  induction f as [|f IH]; intros full a s Hn Hf Hm.
  - exfalso. destruct (find_file fs s) as [cf|] eqn:E; [|congruence].
    pose proof (missing_publish_lt fs a s full cf E Hn). lia.
  - rewrite analyse_S.
    destruct (find_file fs s) as [cf|] eqn:E; [|discriminate].
    pose proof (missing_publish_lt fs a s full cf E Hn) as Hlt.
    destruct (chead cf) as [[c [p|]]|]; try discriminate.
    destruct (self_guard nr c p); [discriminate|].
    destruct (find_file fs (upper p)) eqn:Ep; [|discriminate].
    destruct (alookup (upper p) (cur (publish a s full))) eqn:Em; [discriminate|].
    destruct (analyse f nr fs false (publish a s full) (upper p)) as [a2| |] eqn:E2; try discriminate.
    + destruct (alookup (upper p) (cur a2)); discriminate.
    + exfalso. apply (IH false (publish a s full) (upper p)); try assumption; [congruence | lia].
Qed.

Lemma analyse_fuel_ok fs nr full a s : analyse (analyse_fuel fs) nr fs full a s <> OutOfFuel.
Proof.
  unfold analyse_fuel. rewrite analyse_S.
  destruct (find_file fs s) as [cf|]; [|discriminate].
  destruct (chead cf) as [[c [p|]]|]; try discriminate.
  destruct (self_guard nr c p); [discriminate|].
  destruct (find_file fs (upper p)) eqn:Ep; [|discriminate].
  destruct (alookup (upper p) (cur (publish a s full))) eqn:Em; [discriminate|].
  destruct (analyse (length fs) nr fs false (publish a s full) (upper p)) as [a2| |] eqn:E2; try discriminate.
  - destruct (alookup (upper p) (cur a2)); discriminate.
  - exfalso. apply (analyse_fresh_fuel fs nr (length fs) false (publish a s full) (upper p)); try assumption; [congruence|].
    unfold missing. clear. induction fs as [|x r IH]; simpl; [lia|]. destruct (nocur _ x); simpl; lia.
Qed.

(* ------------------------------------------------------------------------------------------ *)
(* look-ups in an acyclic table graph                                                           *)
(* ------------------------------------------------------------------------------------------ *)
Definition below (par : nat -> option nat) (held : list nat) (n : nat) : Prop :=
  forall h, In h held -> exists j, anc par (S j) h = Some n.

Lemma release_cons n held : ~ In n held -> release n (n :: held) = held.
Proof.
  intro H. unfold release. simpl. rewrite Nat.eqb_refl. simpl.
  induction held as [|x l IH]; simpl; [reflexivity|].
  destruct (Nat.eqb x n) eqn:E; simpl.
  - apply Nat.eqb_eq in E. subst. exfalso. apply H. left. reflexivity.
  - f_equal. apply IH. intro Hin. apply H. right. exact Hin.
Qed.

Lemma tlookup_ok tb hit :
  Term (tpar_of tb) -> Bounded (tpar_of tb) (length tb) ->
  forall fuel n held log k p0,
    anc (tpar_of tb) k p0 = Some n -> p0 < length tb -> length tb <= fuel + k ->
    below (tpar_of tb) held n ->
    exists r new, tlookup fuel tb hit held log n = (Ok r, held, new ++ log) /\
                  NoDup new /\ (forall x, In x new -> exists j, anc (tpar_of tb) j n = Some x).
Proof.
  intros HT HB. pose proof (Term_Acyc _ HT) as HA.
  induction fuel as [|f IH]; intros n held log k p0 Hk Hp0 Hlen Hb.
  - pose proof (chain_bound _ _ _ _ _ HA HB Hp0 Hk). lia.
  - simpl. destruct (existsb (Nat.eqb n) held) eqn:Eh.
    { exfalso. apply existsb_exists in Eh as [h [Hh1 Hh2]]. apply Nat.eqb_eq in Hh2. subst h.
      destruct (Hb n Hh1) as [j Hj]. exact (HA n j Hj). }
    assert (Hnh : ~ In n held).
    { intro Hin. assert (existsb (Nat.eqb n) held = true); [|congruence].
      apply existsb_exists. exists n. split; [exact Hin | apply Nat.eqb_refl]. }
    assert (Hone : NoDup [n] /\ forall x, In x [n] -> exists j, anc (tpar_of tb) j n = Some x).
    { split; [constructor; [intros [] | constructor]|]. intros x [<-|[]]. exists 0. reflexivity. }
    destruct (hit n); [exists (Some n), [n]; split; [reflexivity | exact Hone]|].
    destruct (tpar_of tb n) as [m|] eqn:Em; [|exists None, [n]; split; [reflexivity | exact Hone]].
    destruct (IH m (n :: held) (n :: log) (S k) p0) as [r [new [H1 [H2 H3]]]].
    + rewrite anc_S_r, Hk. exact Em.
    + exact Hp0.
    + lia.
    + intros h [<-|Hin].
      * exists 0. simpl. rewrite Em. reflexivity.
      * destruct (Hb h Hin) as [j Hj]. exists (S j). rewrite anc_S_r, Hj. exact Em.
    + rewrite H1. exists r, (new ++ [n]). rewrite release_cons by exact Hnh. rewrite <- app_assoc. simpl.
      split; [reflexivity|]. split.
      * apply Permutation_NoDup with (n :: new); [apply Permutation_cons_append|].
        constructor; [|exact H2]. intro Hin. destruct (H3 n Hin) as [j Hj].
        apply (HA n j). simpl. rewrite Em. exact Hj.
      * intros x Hx. apply in_app_iff in Hx as [Hx|[<-|[]]]; [|exists 0; reflexivity].
        destruct (H3 x Hx) as [j Hj]. exists (S j). simpl. rewrite Em. exact Hj.
Qed.

(* a look-up from any table: an answer, each lock taken at most once, at most `number of tables`
   acquisitions, nothing held afterwards *)
Theorem lookup_from_ok a n :
  LInv a -> n < length (tabs a) ->
  exists r log, lookup_from a n = (Ok r, [], log) /\ NoDup log /\ length log <= length (tabs a).
Proof.
  intros I Hn. unfold lookup_from.
  destruct (tlookup_ok (tabs a) miss (lTerm _ I) (lBound _ I) (S (length (tabs a))) n [] [] 0 n)
    as [r [new [H1 [H2 H3]]]]; try reflexivity; try lia; [intros h []|].
  rewrite app_nil_r in H1. exists r, new. split; [exact H1|]. split; [exact H2|].
  assert (Hincl : incl new (seq 0 (length (tabs a)))).
  { intros x Hx. destruct (H3 x Hx) as [j Hj]. apply in_seq. split; [lia|]. simpl.
    apply (anc_bounded _ _ _ _ _ (lBound _ I) Hn Hj). }
  pose proof (NoDup_incl_length H2 Hincl) as H. rewrite seq_length in H. exact H.
Qed.

Lemma lookup_ok_ok a n : LInv a -> n < length (tabs a) -> lookup_ok a n = Ok tt.
Proof.
  intros I Hn. unfold lookup_ok. destruct (lookup_from_ok a n I Hn) as [r [log [H _]]]. rewrite H. reflexivity.
Qed.

(* ------------------------------------------------------------------------------------------ *)
(* every request of the model is answered, whatever the workspace declares                      *)
(* ------------------------------------------------------------------------------------------ *)
Lemma analyse_ok fs full a s :
  LInv a -> exists a', analyse (analyse_fuel fs) true fs full a s = Ok a' /\ LInv a' /\ alookup s (cur a') <> None.
Proof.
  intro I. destruct (analyse (analyse_fuel fs) true fs full a s) as [a'|l|] eqn:E.
  - destruct (analyse_LInv _ fs _ _ _ _ I E) as [I' [_ [Hs _]]]. eauto.
  - exfalso. exact (proj2 (analyse_shape _ _ _ _ _ _) l E).
  - exfalso. exact (analyse_fuel_ok fs true full a s E).
Qed.

Lemma get_table_ok fs a s :
  LInv a -> exists a' r, get_table true fs a s = Ok (a', r) /\ LInv a' /\
                         forall m, r = Some m -> m < length (tabs a').
Proof.
  intro I. unfold get_table. destruct (find_file fs s); [|exists a, None; split; [reflexivity | split; [exact I | discriminate]]].
  destruct (alookup s (cur a)) as [m|] eqn:Em.
  - exists a, (Some m). split; [reflexivity|]. split; [exact I|]. intros m' H. inversion H; subst. apply (lCur _ I _ _ Em).
  - destruct (analyse_ok fs false a s I) as [a' [H1 [H2 H3]]]. rewrite H1.
    exists a', (alookup s (cur a')). split; [reflexivity|]. split; [exact H2|]. intros m H. apply (lCur _ H2 _ _ H).
Qed.

Lemma use_entity_ok fs a u : LInv a -> exists a', use_entity true fs a u = Ok a' /\ LInv a'.
Proof.
  intro I. unfold use_entity. destruct (get_table_ok fs a (upper u) I) as [a' [r [H1 [H2 H3]]]].
  rewrite H1. simpl. destruct r as [m|]; [|eauto].
  rewrite (lookup_ok_ok a' m H2 (H3 m eq_refl)). simpl. eauto.
Qed.

Lemma use_all_ok fs us : forall a, LInv a -> exists a', use_all true fs a us = Ok a' /\ LInv a'.
Proof.
  induction us as [|u r IH]; intros a I; simpl; [eauto|].
  destruct (use_entity_ok fs a u I) as [a1 [H1 I1]]. rewrite H1. simpl. apply IH. exact I1.
Qed.

Theorem request_ok fs a s : LInv a -> exists a', request true fs a s = Ok a' /\ LInv a'.
Proof.
  intro I. unfold request. destruct (find_file fs s) as [cf|]; [|eauto].
  assert (H1 : exists a1, (if memb s (fullk a) then Ok a else analyse (analyse_fuel fs) true fs true a s) = Ok a1 /\ LInv a1).
  { destruct (memb s (fullk a)); [eauto|]. destruct (analyse_ok fs true a s I) as [a1 [H [H' _]]]. eauto. }
  destruct H1 as [a1 [H1 I1]]. rewrite H1. simpl.
  assert (H2 : (match alookup s (cur a1) with Some n => lookup_ok a1 n | None => Ok tt end) = Ok tt).
  { destruct (alookup s (cur a1)) as [n|] eqn:En; [|reflexivity]. apply lookup_ok_ok; [exact I1 | apply (lCur _ I1 _ _ En)]. }
  rewrite H2. simpl. apply use_all_ok. exact I1.
Qed.

Theorem requests_all_ok fs l : forall a, LInv a ->
  Forall (fun b => b = true) (fst (requests true fs a l)) /\ LInv (snd (requests true fs a l)).
Proof.
  induction l as [|s r IH]; intros a I; simpl; [split; [constructor | exact I]|].
  destruct (request_ok fs a s I) as [a' [H I']]. rewrite H.
  destruct (requests true fs a' r) as [bs a''] eqn:E. specialize (IH a' I'). rewrite E in IH. simpl in *.
  destruct IH as [IH1 IH2]. split; [constructor; [reflexivity | exact IH1] | exact IH2].
Qed.

(* ------------------------------------------------------------------------------------------ *)
(* several threads locking chains concurrently: the lock order child -> parent                  *)
(* ------------------------------------------------------------------------------------------ *)
Lemma tanc_anc tb k p : tanc tb k p = anc (tpar_of tb) k p.
Proof. revert p. induction k as [|k IH]; intro p; simpl; [reflexivity|]. destruct (tpar_of tb p); auto. Qed.

Lemma in_lheld tb th x :
  In x (lheld tb th) <-> lret th = false /\ exists j, j < lcount th /\ tanc tb j (lstart th) = Some x.
Proof.
  unfold lheld. destruct (lret th).
  - split; [intros [] | intros [H _]; discriminate].
  - rewrite in_flat_map. split.
    + intros [j [Hj Hx]]. apply in_seq in Hj. split; [reflexivity|]. exists j. split; [lia|].
      destruct (tanc tb j (lstart th)); [destruct Hx as [<-|[]]; reflexivity | contradiction].
    + intros [_ [j [Hj Hx]]]. exists j. split; [apply in_seq; lia|]. rewrite Hx. left. reflexivity.
Qed.

Lemma in_all_held tb ths x :
  In x (all_held tb ths) <-> exists i th, nth_error ths i = Some th /\ In x (lheld tb th).
Proof.
  unfold all_held. rewrite in_flat_map. split.
  - intros [th [Hin Hx]]. apply In_nth_error in Hin as [i Hi]. eauto.
  - intros [i [th [Hi Hx]]]. exists th. split; [eapply nth_error_In; eauto | exact Hx].
Qed.

(* if no thread can move, every thread that has not returned waits for a lock *)
Lemma stuck_waits tb ths :
  (forall i, lstep tb ths i = None) ->
  forall i th, nth_error ths i = Some th -> lret th = false ->
  exists w, tanc tb (lcount th) (lstart th) = Some w /\ In w (all_held tb ths).
Proof.
  intros Hstuck i th Hi Hr. specialize (Hstuck i). unfold lstep in Hstuck. rewrite Hi, Hr in Hstuck.
  destruct (tanc tb (lcount th) (lstart th)) as [w|]; [|discriminate].
  exists w. split; [reflexivity|].
  destruct (existsb (Nat.eqb w) (all_held tb ths)) eqn:E; [|discriminate].
  apply existsb_exists in E as [x [Hx1 Hx2]]. apply Nat.eqb_eq in Hx2. subst. exact Hx1.
Qed.

(* ... and the lock it waits for is held by a thread that waits for a proper ancestor of it:
   following the waits climbs the chain without end *)
Lemma stuck_climbs tb ths :
  (forall i, lstep tb ths i = None) ->
  forall n i th w, nth_error ths i = Some th -> lret th = false ->
    tanc tb (lcount th) (lstart th) = Some w ->
    exists j w', n <= j /\ anc (tpar_of tb) j w = Some w'.
Proof.
  intros Hstuck. induction n as [|n IH]; intros i th w Hi Hr Hw.
  - exists 0, w. split; [lia | reflexivity].
  - destruct (stuck_waits tb ths Hstuck i th Hi Hr) as [w0 [Hw0 Hheld]].
    assert (w0 = w) by congruence. subst w0.
    apply in_all_held in Hheld as [i2 [th2 [Hi2 Hx]]].
    apply in_lheld in Hx as [Hr2 [j [Hj Hx]]].
    destruct (stuck_waits tb ths Hstuck i2 th2 Hi2 Hr2) as [w2 [Hw2 _]].
    destruct (IH i2 th2 w2 Hi2 Hr2 Hw2) as [j' [w' [Hle Hanc]]].
    (* w = anc j start2, w2 = anc count2 start2 with j < count2 *)
    rewrite tanc_anc in Hx, Hw2.
    replace (lcount th2) with (j + (lcount th2 - j)) in Hw2 by lia.
    rewrite anc_add, Hx in Hw2.
    exists ((lcount th2 - j) + j'), w'. split; [lia|]. rewrite anc_add, Hw2. exact Hanc.
Qed.

(* no deadlock: in an acyclic table graph, as long as some look-up has not returned, some thread
   can take its next lock or return *)
Theorem concurrent_lookups_progress tb ths :
  Term (tpar_of tb) ->
  lall_returned ths = false -> exists i ths', lstep tb ths i = Some ths'.
Proof.
  intros HT Hnot.
  assert (Hex : exists i th, nth_error ths i = Some th /\ lret th = false).
  { unfold lall_returned in Hnot. induction ths as [|th r IH]; [discriminate|]. simpl in Hnot.
    destruct (lret th) eqn:E.
    - destruct (IH Hnot) as [i [th' [H1 H2]]]. exists (S i), th'. auto.
    - exists 0, th. auto. }
  destruct Hex as [i [th [Hi Hr]]].
  assert (Hdec : (exists i ths', lstep tb ths i = Some ths') \/ (forall i, lstep tb ths i = None)).
  { clear. assert (H : forall n, (exists i ths', i < n /\ lstep tb ths i = Some ths') \/ (forall i, i < n -> lstep tb ths i = None)).
    { induction n as [|n IH]; [right; intros; lia|]. destruct IH as [[i [t' [H1 H2]]]|IH].
      - left. exists i, t'. split; [lia | exact H2].
      - destruct (lstep tb ths n) as [t'|] eqn:E; [left; exists n, t'; split; [lia | exact E]|].
        right. intros i Hi. destruct (Nat.eq_dec i n) as [->|]; [exact E | apply IH; lia]. }
    destruct (H (length ths)) as [[i [t' [_ H2]]]|H2]; [left; eauto|]. right. intro i.
    destruct (lt_dec i (length ths)); [apply H2; assumption|].
    unfold lstep. assert (nth_error ths i = None) as -> by (apply nth_error_None; lia). reflexivity. }
  destruct Hdec as [H|Hstuck]; [exact H | exfalso].
  destruct (stuck_waits tb ths Hstuck i th Hi Hr) as [w [Hw _]].
  destruct (HT w) as [k Hk].
  destruct (stuck_climbs tb ths Hstuck k i th w Hi Hr Hw) as [j [w' [Hle Hanc]]].
  rewrite (anc_None_mono _ k j w Hk Hle) in Hanc. discriminate.
Qed.

(* every move either takes the next lock of the thread's chain or returns; a chain has at most
   `number of tables` locks, so a thread moves at most that many times + 1 *)
Definition lmeasure (tb : list tbl) (th : lthread) : nat :=
  if lret th then 0 else S (length tb - lcount th).

Lemma lstep_measure tb ths i ths' :
  Term (tpar_of tb) -> Bounded (tpar_of tb) (length tb) ->
  Forall (fun th => lstart th < length tb) ths ->
  lstep tb ths i = Some ths' ->
  exists th th', nth_error ths i = Some th /\ ths' = upd i (fun _ => th') ths /\
                 lstart th' = lstart th /\ lmeasure tb th' < lmeasure tb th.
Proof.
  intros HT HB Hst H. unfold lstep in H. destruct (nth_error ths i) as [th|] eqn:Ei; [|discriminate].
  destruct (lret th) eqn:Er; [discriminate|].
  destruct (tanc tb (lcount th) (lstart th)) as [n|] eqn:En.
  - destruct (existsb (Nat.eqb n) (all_held tb ths)); [discriminate|]. inversion H; subst.
    exists th, (mkLT (lstart th) (S (lcount th)) false). repeat split.
    unfold lmeasure. rewrite Er. simpl.
    assert (lcount th < length tb); [|lia].
    rewrite tanc_anc in En. refine (chain_bound _ _ _ (lstart th) n (Term_Acyc _ HT) HB _ En).
    eapply Forall_forall in Hst; [exact Hst | eapply nth_error_In; eauto].
  - inversion H; subst. exists th, (mkLT (lstart th) (lcount th) true). repeat split.
    unfold lmeasure. rewrite Er. simpl. lia.
Qed.

(* ------------------------------------------------------------------------------------------ *)
(* analysers running concurrently, check-and-link atomic (LINK_LOCK): every schedule is safe     *)
(* ------------------------------------------------------------------------------------------ *)
Definition AV (a : ast) (th : athread) : Prop :=
  match apos th with
  | ANew | ADone => True
  | ACheck n => n < length (tabs a)
  | ALink _ _ => False          (* never produced when check and link are one step *)
  end.

Lemma astep_LInv a th :
  LInv a -> AV a th ->
  LInv (fst (astep true a th)) /\ AV (fst (astep true a th)) (snd (astep true a th)) /\
  length (tabs a) <= length (tabs (fst (astep true a th))).
Proof.
  intros I Hv. unfold astep, AV in *. destruct (apos th) as [|n|n m|] eqn:Ep; simpl.
  - split; [exact (LInv_publish a (astem th) false I)|]. rewrite app_length. simpl. split; lia.
  - destruct (alookup (apar th) (cur a)) as [m|] eqn:Em; simpl; [|rewrite Ep; split; [exact I | split; [exact Hv | lia]]].
    split; [apply LInv_link; [exact I | exact Hv | apply (lCur _ I _ _ Em)]|].
    rewrite link_len. split; [exact Logic.I | lia].
  - contradiction.
  - rewrite Ep. split; [exact I | split; [exact Logic.I | lia]].
Qed.

Lemma AV_mono a a' th : length (tabs a) <= length (tabs a') -> AV a th -> AV a' th.
Proof. intro H. unfold AV. destruct (apos th); auto. intro. lia. Qed.

Theorem arun_atomic_LInv sched : forall a ths,
  LInv a -> Forall (AV a) ths ->
  LInv (fst (arun true sched a ths)) /\ Forall (AV (fst (arun true sched a ths))) (snd (arun true sched a ths)).
Proof.
  induction sched as [|i r IH]; intros a ths I Hv; simpl; [auto|].
  destruct (nth_error ths i) as [th|] eqn:Ei; [|apply IH; assumption].
  assert (Hth : AV a th) by (eapply Forall_forall in Hv; [exact Hv | eapply nth_error_In; eauto]).
  destruct (astep_LInv a th I Hth) as [I' [Hv' Hlen]].
  destruct (astep true a th) as [a' th']. simpl in *. apply IH; [exact I'|].
  apply Forall_upd; [|exact Hv']. eapply Forall_impl; [|exact Hv]. intros x Hx. eapply AV_mono; eauto.
Qed.
