(* Concrete trees of the REAL parser (tools/dump2coq.py) for the non-vacuity examples of the
   tree-level tie (Proofs/AnnotProofs.v). *)
From GoldV Require Import Base SymTab Scoping Tokens Lexer AstKinds Tree Annot AnnotProofs.

(* real parser, text: 'class aFoo (aBar)\nuses aLib, aLib2\nconst cA = 1\ntype tRef : refTo aFoo\nfa : int4\nproc Run(p : int4, Fa : cstring)\n var l : int4\n if p > 0\n  var inner : cstring\n endif\nendproc\nfunc G#Ev(q : int4) return tRef forward\n' *)
Definition annot_ex_0 : node :=
  Node KAstClass [97;70;111;111] 0 (mkRange (mkPos 0 0) (mkPos 0 17)) [(1, AT (mkTok 6 (mkRange (mkPos 0 6) (mkPos 0 10)) TIdentifier [97;70;111;111])); (2, AL [(mkTok 12 (mkRange (mkPos 0 12) (mkPos 0 16)) TIdentifier [97;66;97;114])])] [].

Definition annot_ex_1 : node :=
  Node KAstUses [117;115;101;115] 18 (mkRange (mkPos 1 0) (mkPos 1 16)) [(3, AL [(mkTok 23 (mkRange (mkPos 1 5) (mkPos 1 9)) TIdentifier [97;76;105;98]); (mkTok 29 (mkRange (mkPos 1 11) (mkPos 1 16)) TIdentifier [97;76;105;98;50])])] [].

Definition annot_ex_2 : node :=
  Node KAstConstantDeclaration [99;65] 35 (mkRange (mkPos 2 0) (mkPos 2 12)) [(1, AT (mkTok 41 (mkRange (mkPos 2 6) (mkPos 2 8)) TIdentifier [99;65])); (6, AN 0); (7, AL [(mkTok 46 (mkRange (mkPos 2 11) (mkPos 2 12)) TNumericLiteral [49])])] [].

Definition annot_ex_3 : node :=
  Node KAstTypeDeclaration [116;82;101;102] 48 (mkRange (mkPos 3 0) (mkPos 3 22)) [(1, AT (mkTok 53 (mkRange (mkPos 3 5) (mkPos 3 9)) TIdentifier [116;82;101;102]))] [
    Node KAstTypeReference [97;70;111;111] 60 (mkRange (mkPos 3 12) (mkPos 3 22)) [(1, AT (mkTok 66 (mkRange (mkPos 3 18) (mkPos 3 22)) TIdentifier [97;70;111;111])); (4, AT (mkTok 60 (mkRange (mkPos 3 12) (mkPos 3 17)) TRefTo [114;101;102;84;111])); (7, AL []); (8, AL [])] []].

Definition annot_ex_4 : node :=
  Node KAstGlobalVariableDeclaration [102;97] 71 (mkRange (mkPos 4 0) (mkPos 4 9)) [(1, AT (mkTok 71 (mkRange (mkPos 4 0) (mkPos 4 2)) TIdentifier [102;97])); (6, AN 0)] [
    Node KAstTypeBasic [105;110;116;52] 76 (mkRange (mkPos 4 5) (mkPos 4 9)) [(0, AT (mkTok 76 (mkRange (mkPos 4 5) (mkPos 4 9)) TIdentifier [105;110;116;52]))] []].

Definition annot_ex_5 : node :=
  Node KAstProcedure [82;117;110] 81 (mkRange (mkPos 5 0) (mkPos 10 7)) [(5, AL [(mkTok 167 (mkRange (mkPos 10 0) (mkPos 10 7)) TEndProc [101;110;100;112;114;111;99])]); (6, AN 0)] [
    Node KAstTerminal [82;117;110] 86 (mkRange (mkPos 5 5) (mkPos 5 8)) [(0, AT (mkTok 86 (mkRange (mkPos 5 5) (mkPos 5 8)) TIdentifier [82;117;110]))] [];
    Node KAstParameterDeclarationList [112;97;114;97;109;95;100;101;99;108;115] 89 (mkRange (mkPos 5 8) (mkPos 5 32)) [] [
      Node KAstParameterDeclaration [112] 90 (mkRange (mkPos 5 9) (mkPos 5 17)) [(1, AT (mkTok 90 (mkRange (mkPos 5 9) (mkPos 5 10)) TIdentifier [112])); (7, AL [])] [
        Node KAstTypeBasic [105;110;116;52] 94 (mkRange (mkPos 5 13) (mkPos 5 17)) [(0, AT (mkTok 94 (mkRange (mkPos 5 13) (mkPos 5 17)) TIdentifier [105;110;116;52]))] []];
      Node KAstParameterDeclaration [70;97] 100 (mkRange (mkPos 5 19) (mkPos 5 31)) [(1, AT (mkTok 100 (mkRange (mkPos 5 19) (mkPos 5 21)) TIdentifier [70;97])); (7, AL [])] [
        Node KAstTypeBasic [99;115;116;114;105;110;103] 105 (mkRange (mkPos 5 24) (mkPos 5 31)) [(0, AT (mkTok 105 (mkRange (mkPos 5 24) (mkPos 5 31)) TIdentifier [99;115;116;114;105;110;103]))] []]];
    Node KAstMethodBody [109;101;116;104;111;100;95;98;111;100;121] 115 (mkRange (mkPos 6 1) (mkPos 9 6)) [] [
      Node KAstLocalVariableDeclaration [108] 115 (mkRange (mkPos 6 1) (mkPos 6 13)) [(1, AT (mkTok 119 (mkRange (mkPos 6 5) (mkPos 6 6)) TIdentifier [108]))] [
        Node KAstTypeBasic [105;110;116;52] 123 (mkRange (mkPos 6 9) (mkPos 6 13)) [(0, AT (mkTok 123 (mkRange (mkPos 6 9) (mkPos 6 13)) TIdentifier [105;110;116;52]))] []];
      Node KAstIfBlock [105;102] 129 (mkRange (mkPos 7 1) (mkPos 9 6)) [(5, AL [(mkTok 161 (mkRange (mkPos 9 1) (mkPos 9 6)) TEndIf [101;110;100;105;102])])] [
        Node KAstConditionalBlock [99;111;110;100;95;98;108;111;99;107] 129 (mkRange (mkPos 7 1) (mkPos 8 21)) [] [
          Node KAstBinaryOp [62] 132 (mkRange (mkPos 7 4) (mkPos 7 9)) [(4, AT (mkTok 134 (mkRange (mkPos 7 6) (mkPos 7 7)) TGreaterThan [62]))] [
            Node KAstTerminal [112] 132 (mkRange (mkPos 7 4) (mkPos 7 5)) [(0, AT (mkTok 132 (mkRange (mkPos 7 4) (mkPos 7 5)) TIdentifier [112]))] [];
            Node KAstTerminal [48] 136 (mkRange (mkPos 7 8) (mkPos 7 9)) [(0, AT (mkTok 136 (mkRange (mkPos 7 8) (mkPos 7 9)) TNumericLiteral [48]))] []];
          Node KAstLocalVariableDeclaration [105;110;110;101;114] 140 (mkRange (mkPos 8 2) (mkPos 8 21)) [(1, AT (mkTok 144 (mkRange (mkPos 8 6) (mkPos 8 11)) TIdentifier [105;110;110;101;114]))] [
            Node KAstTypeBasic [99;115;116;114;105;110;103] 152 (mkRange (mkPos 8 14) (mkPos 8 21)) [(0, AT (mkTok 152 (mkRange (mkPos 8 14) (mkPos 8 21)) TIdentifier [99;115;116;114;105;110;103]))] []]]]]].

Definition annot_ex_6 : node :=
  Node KAstFunction [71;35;69;118] 175 (mkRange (mkPos 11 0) (mkPos 11 39)) [(5, AL []); (6, AN 16)] [
    Node KAstMethodNameWithEvent [71;35;69;118] 180 (mkRange (mkPos 11 5) (mkPos 11 9)) [(9, AS [71;35;69;118])] [
      Node KAstTerminal [71] 180 (mkRange (mkPos 11 5) (mkPos 11 6)) [(0, AT (mkTok 180 (mkRange (mkPos 11 5) (mkPos 11 6)) TIdentifier [71]))] [];
      Node KAstTerminal [69;118] 182 (mkRange (mkPos 11 7) (mkPos 11 9)) [(0, AT (mkTok 182 (mkRange (mkPos 11 7) (mkPos 11 9)) TIdentifier [69;118]))] []];
    Node KAstTypeBasic [116;82;101;102] 202 (mkRange (mkPos 11 27) (mkPos 11 31)) [(0, AT (mkTok 202 (mkRange (mkPos 11 27) (mkPos 11 31)) TIdentifier [116;82;101;102]))] [];
    Node KAstParameterDeclarationList [112;97;114;97;109;95;100;101;99;108;115] 184 (mkRange (mkPos 11 9) (mkPos 11 19)) [] [
      Node KAstParameterDeclaration [113] 185 (mkRange (mkPos 11 10) (mkPos 11 18)) [(1, AT (mkTok 185 (mkRange (mkPos 11 10) (mkPos 11 11)) TIdentifier [113])); (7, AL [])] [
        Node KAstTypeBasic [105;110;116;52] 189 (mkRange (mkPos 11 14) (mkPos 11 18)) [(0, AT (mkTok 189 (mkRange (mkPos 11 14) (mkPos 11 18)) TIdentifier [105;110;116;52]))] []]]].

Definition annot_ex : node :=
  Node KAstRoot [] 0 (mkRange (mkPos 0 0) (mkPos 0 0)) [] [
    annot_ex_0;
    annot_ex_1;
    annot_ex_2;
    annot_ex_3;
    annot_ex_4;
    annot_ex_5;
    annot_ex_6].

(* real parser, text: 'class aFoo\nproc Run\nendproc\nfb : int4\n' *)
Definition annot_irr : node :=
  Node KAstRoot [] 0 (mkRange (mkPos 0 0) (mkPos 0 0)) [] [
    Node KAstClass [97;70;111;111] 0 (mkRange (mkPos 0 0) (mkPos 0 10)) [(1, AT (mkTok 6 (mkRange (mkPos 0 6) (mkPos 0 10)) TIdentifier [97;70;111;111])); (2, AL [])] [];
    Node KAstProcedure [82;117;110] 11 (mkRange (mkPos 1 0) (mkPos 2 7)) [(5, AL [(mkTok 20 (mkRange (mkPos 2 0) (mkPos 2 7)) TEndProc [101;110;100;112;114;111;99])]); (6, AN 0)] [
      Node KAstTerminal [82;117;110] 16 (mkRange (mkPos 1 5) (mkPos 1 8)) [(0, AT (mkTok 16 (mkRange (mkPos 1 5) (mkPos 1 8)) TIdentifier [82;117;110]))] [];
      Node KAstMethodBody [109;101;116;104;111;100;95;98;111;100;121] 16 (mkRange (mkPos 1 5) (mkPos 1 8)) [] []];
    Node KAstGlobalVariableDeclaration [102;98] 28 (mkRange (mkPos 3 0) (mkPos 3 9)) [(1, AT (mkTok 28 (mkRange (mkPos 3 0) (mkPos 3 2)) TIdentifier [102;98])); (6, AN 0)] [
      Node KAstTypeBasic [105;110;116;52] 33 (mkRange (mkPos 3 5) (mkPos 3 9)) [(0, AT (mkTok 33 (mkRange (mkPos 3 5) (mkPos 3 9)) TIdentifier [105;110;116;52]))] []]].

(* real parser, text: 'class aFoo\ntype tCb : procedure(x : int4)\nproc Run(p : int4)\n var cb : procedure(y : int4)\nendproc\n' *)
Definition annot_leak : node :=
  Node KAstRoot [] 0 (mkRange (mkPos 0 0) (mkPos 0 0)) [] [
    Node KAstClass [97;70;111;111] 0 (mkRange (mkPos 0 0) (mkPos 0 10)) [(1, AT (mkTok 6 (mkRange (mkPos 0 6) (mkPos 0 10)) TIdentifier [97;70;111;111])); (2, AL [])] [];
    Node KAstTypeDeclaration [116;67;98] 11 (mkRange (mkPos 1 0) (mkPos 1 30)) [(1, AT (mkTok 16 (mkRange (mkPos 1 5) (mkPos 1 8)) TIdentifier [116;67;98]))] [
      Node KAstTypeProcedure [116;121;112;101;95;112;114;111;99] 22 (mkRange (mkPos 1 11) (mkPos 1 30)) [] [
        Node KAstParameterDeclarationList [112;97;114;97;109;95;100;101;99;108;115] 31 (mkRange (mkPos 1 20) (mkPos 1 30)) [] [
          Node KAstParameterDeclaration [120] 32 (mkRange (mkPos 1 21) (mkPos 1 29)) [(1, AT (mkTok 32 (mkRange (mkPos 1 21) (mkPos 1 22)) TIdentifier [120])); (7, AL [])] [
            Node KAstTypeBasic [105;110;116;52] 36 (mkRange (mkPos 1 25) (mkPos 1 29)) [(0, AT (mkTok 36 (mkRange (mkPos 1 25) (mkPos 1 29)) TIdentifier [105;110;116;52]))] []]]]];
    Node KAstProcedure [82;117;110] 42 (mkRange (mkPos 2 0) (mkPos 4 7)) [(5, AL [(mkTok 91 (mkRange (mkPos 4 0) (mkPos 4 7)) TEndProc [101;110;100;112;114;111;99])]); (6, AN 0)] [
      Node KAstTerminal [82;117;110] 47 (mkRange (mkPos 2 5) (mkPos 2 8)) [(0, AT (mkTok 47 (mkRange (mkPos 2 5) (mkPos 2 8)) TIdentifier [82;117;110]))] [];
      Node KAstParameterDeclarationList [112;97;114;97;109;95;100;101;99;108;115] 50 (mkRange (mkPos 2 8) (mkPos 2 18)) [] [
        Node KAstParameterDeclaration [112] 51 (mkRange (mkPos 2 9) (mkPos 2 17)) [(1, AT (mkTok 51 (mkRange (mkPos 2 9) (mkPos 2 10)) TIdentifier [112])); (7, AL [])] [
          Node KAstTypeBasic [105;110;116;52] 55 (mkRange (mkPos 2 13) (mkPos 2 17)) [(0, AT (mkTok 55 (mkRange (mkPos 2 13) (mkPos 2 17)) TIdentifier [105;110;116;52]))] []]];
      Node KAstMethodBody [109;101;116;104;111;100;95;98;111;100;121] 62 (mkRange (mkPos 3 1) (mkPos 3 29)) [] [
        Node KAstLocalVariableDeclaration [99;98] 62 (mkRange (mkPos 3 1) (mkPos 3 29)) [(1, AT (mkTok 66 (mkRange (mkPos 3 5) (mkPos 3 7)) TIdentifier [99;98]))] [
          Node KAstTypeProcedure [116;121;112;101;95;112;114;111;99] 71 (mkRange (mkPos 3 10) (mkPos 3 29)) [] [
            Node KAstParameterDeclarationList [112;97;114;97;109;95;100;101;99;108;115] 80 (mkRange (mkPos 3 19) (mkPos 3 29)) [] [
              Node KAstParameterDeclaration [121] 81 (mkRange (mkPos 3 20) (mkPos 3 28)) [(1, AT (mkTok 81 (mkRange (mkPos 3 20) (mkPos 3 21)) TIdentifier [121])); (7, AL [])] [
                Node KAstTypeBasic [105;110;116;52] 85 (mkRange (mkPos 3 24) (mkPos 3 28)) [(0, AT (mkTok 85 (mkRange (mkPos 3 24) (mkPos 3 28)) TIdentifier [105;110;116;52]))] []]]]]]]].

Definition s_aFoo : str := [97;70;111;111].
Definition s_aBar : str := [97;66;97;114].

(* the regular document: header, uses, constant, type, field, then two methods *)
Lemma annot_ex_regular : regular annot_ex.
Proof. apply regularb_ok. vm_compute. reflexivity. Qed.

Lemma annot_ex_entity :
  entity_of_tree annot_ex =
  mkEntity s_aFoo EClass (Some s_aBar) [[97;76;105;98]; [97;76;105;98;50]]
    [ mkMember MConst [99;65] TNone 1;
      mkMember MType [116;82;101;102] (Scoping.TRefTo s_aFoo) 2;
      mkMember MField [102;97] (TName [105;110;116;52]) 3;
      mkMember MProc [82;117;110] TNone 4;
      mkMember MFunc [71;35;69;118] (TName [116;82;101;102]) 5 ]
    [ mkMethod [82;117;110]
        [mkVar [112] (TName [105;110;116;52]) 6; mkVar [70;97] (TName [99;115;116;114;105;110;103]) 7]
        [mkVar [108] (TName [105;110;116;52]) 8; mkVar [105;110;110;101;114] (TName [99;115;116;114;105;110;103]) 9];
      mkMethod [71;35;69;118] [mkVar [113] (TName [105;110;116;52]) 10] [] ].
Proof. vm_compute. reflexivity. Qed.

Lemma annot_ex_tables :
  map aview (t_syms (root_table_of false annot_ex)) =
    [(s_aFoo, KClass); (s_self, KClass); ([99;65], KConstant); ([116;82;101;102], KType); ([102;97], KField);
     ([82;117;110], KProc); ([71;35;69;118], KFunc)] /\
  map (fun T => map aview (t_syms T)) (method_tables_of false annot_ex) =
    [ [([112], KVariable); ([70;97], KVariable); ([108], KVariable); ([105;110;110;101;114], KVariable)];
      [([113], KVariable)] ] /\
  map a_sel (t_syms (root_table_of false annot_ex)) =
    [mkRange (mkPos 0 6) (mkPos 0 10); mkRange (mkPos 0 6) (mkPos 0 10); mkRange (mkPos 2 6) (mkPos 2 8);
     mkRange (mkPos 3 5) (mkPos 3 9); mkRange (mkPos 4 0) (mkPos 4 2); mkRange (mkPos 5 5) (mkPos 5 8);
     mkRange (mkPos 11 5) (mkPos 11 9)].
Proof. vm_compute. repeat split; reflexivity. Qed.

(* the irregular document `class aFoo / proc Run / endproc / fb : int4`: the field declared after
   the method belongs to the method's table *)
Lemma annot_irr_facts :
  regularb annot_irr = false /\
  map aview (t_syms (root_table_of false annot_irr)) = [(s_aFoo, KClass); (s_self, KClass); ([82;117;110], KProc)] /\
  map (fun T => map aview (t_syms T)) (method_tables_of false annot_irr) = [[([102;98], KField)]] /\
  map sview (syms (root_table (entity_of_tree annot_irr))) =
    [(s_aFoo, KClass); (s_self, KClass); ([82;117;110], KProc); ([102;98], KField)].
Proof. vm_compute. repeat split; reflexivity. Qed.

(* ---- regression pair of the repair c14b1c2 (handle_param_decl) ----
   the rule BEFORE the repair: every AstParameterDeclaration node inserts a variable, wherever it
   sits (= the repaired rule with the grandparent test always true) *)
Definition visit_old (st : astate) (p : vnode) : astate := visit st (true, snd p).
Definition annotate_old (defs_only : bool) (root : node) : astate :=
  end_method (fold_left visit_old (visit_seq defs_only root) init_state).

(* `class aFoo / type tCb : procedure(x : int4) / proc Run(p : int4) / var cb : procedure(y : int4) / endproc` *)
Lemma annot_leak_facts :
  (* old rule: x is a variable of the class's root table (full mode only), y a variable of Run *)
  map aview (t_syms (st_root (annotate_old false annot_leak))) =
    [(s_aFoo, KClass); (s_self, KClass); ([116;67;98], KType); ([120], KVariable); ([82;117;110], KProc)] /\
  map aview (t_syms (st_root (annotate_old true annot_leak))) =
    [(s_aFoo, KClass); (s_self, KClass); ([116;67;98], KType); ([82;117;110], KProc)] /\
  map (fun T => map aview (t_syms T)) (st_done (annotate_old false annot_leak)) =
    [[([112], KVariable); ([121], KVariable); ([99;98], KVariable)]] /\
  (* repaired rule *)
  regularb annot_leak = true /\
  map aview (t_syms (root_table_of false annot_leak)) =
    [(s_aFoo, KClass); (s_self, KClass); ([116;67;98], KType); ([82;117;110], KProc)] /\
  map aview (t_syms (root_table_of true annot_leak)) =
    [(s_aFoo, KClass); (s_self, KClass); ([116;67;98], KType); ([82;117;110], KProc)] /\
  map (fun T => map aview (t_syms T)) (method_tables_of false annot_leak) =
    [[([112], KVariable); ([99;98], KVariable)]].
Proof. vm_compute. repeat split; reflexivity. Qed.
