(* C08: the logical relation for ranges.
   Universe: a token list [ts] satisfying TokSorted, a sentinel [top] above every raw position.
   A parser input is a raw-sorted list of tokens of [ts]; its key is the raw position of its first
   token ([top] when empty).  A value parsed from input i leaving rest r lives in the window
   [key i, key r): its START position is a "start at key ks" (at or before the start of every token
   of raw >= ks) for some ks in the window, and its END position reaches ks (at or after the start
   of some token of raw >= ks).  No upper bound on ends is needed: ends are only ever compared with
   starts of EARLIER items.  All nodes below a value satisfy the window-free predicate AllWf. *)
From GoldV Require Import Base Tokens Keywords Lexer AstKinds Tree Strings PComb Grammar RangeBase.
From Coq Require Import Sorted Lia.

Arguments exp_token : simpl never.
Arguments exp_ident_with_value : simpl never.
Arguments add_diag : simpl never.
Arguments set_cache : simpl never.
Arguments get_cache : simpl never.
Arguments skip_after_error : simpl never.
Arguments diag_at : simpl never.
Arguments mk_binop : simpl never.
Arguments empty_after_dot : simpl never.

Definition Suffix (r i : input) : Prop := exists pre, i = pre ++ r.

Lemma Suffix_refl i : Suffix i i.
Proof. exists []. reflexivity. Qed.
Lemma Suffix_trans a b c : Suffix a b -> Suffix b c -> Suffix a c.
Proof. intros [p1 ->] [p2 ->]. exists (p2 ++ p1). rewrite app_assoc. reflexivity. Qed.
Lemma Suffix_tl t r : Suffix r (t :: r).
Proof. exists [t]. reflexivity. Qed.
Lemma Suffix_cons t r i : Suffix (t :: r) i -> Suffix r i.
Proof. intro H. eapply Suffix_trans; [apply Suffix_tl|exact H]. Qed.
Lemma Suffix_nil i : Suffix [] i.
Proof. exists i. rewrite app_nil_r. reflexivity. Qed.
Lemma Suffix_In t r i : Suffix r i -> In t r -> In t i.
Proof. intros [p ->] H. apply in_or_app. auto. Qed.
Lemma Suffix_len r i : Suffix r i -> (length r <= length i)%nat.
Proof. intros [p ->]. rewrite app_length. lia. Qed.

Definition rawlt (a b : tok) : Prop := traw a < traw b.

(* ---------- generic value predicates ---------- *)
Section Generic.
  Definition OptQ {A} (Q : N -> N -> A -> Prop) (lo hi : N) (o : option A) : Prop :=
    match o with Some a => Q lo hi a | None => True end.
  Definition PairQ {A C} (Q1 : N -> N -> A -> Prop) (Q2 : N -> N -> C -> Prop) (lo hi : N) (x : A * C) : Prop :=
    Q1 lo hi (fst x) /\ Q2 lo hi (snd x).
  Definition TrueQ {A} (lo hi : N) (a : A) : Prop := True.

  Inductive Chain {A} (E : N -> N -> A -> Prop) : N -> N -> list A -> Prop :=
  | Chain_nil lo hi : lo <= hi -> Chain E lo hi []
  | Chain_cons lo mid hi x l : E lo mid x -> lo <= mid -> Chain E mid hi l -> Chain E lo hi (x :: l).

  Definition MonoQ {A} (Q : N -> N -> A -> Prop) : Prop :=
    forall lo hi lo' hi' a, Q lo hi a -> lo' <= lo -> hi <= hi' -> Q lo' hi' a.

  Lemma Mono_OptQ {A} (Q : N -> N -> A -> Prop) : MonoQ Q -> MonoQ (OptQ Q).
  Proof. intros HQ lo hi lo' hi' [a|] H H1 H2; cbn [OptQ] in *; [eapply HQ; eauto|exact I]. Qed.
  Lemma Mono_PairQ {A C} (Q1 : N -> N -> A -> Prop) (Q2 : N -> N -> C -> Prop) :
    MonoQ Q1 -> MonoQ Q2 -> MonoQ (PairQ Q1 Q2).
  Proof. intros H1 H2 lo hi lo' hi' [a b] [Ha Hb] X Y. split; [eapply H1|eapply H2]; eauto. Qed.
  Lemma Mono_TrueQ {A} : MonoQ (@TrueQ A).
  Proof. intros lo hi lo' hi' a _ _ _. exact I. Qed.

  Lemma Chain_le {A} (E : N -> N -> A -> Prop) lo hi l : Chain E lo hi l -> lo <= hi.
  Proof. induction 1; lia. Qed.

  Lemma Chain_widen {A} (E : N -> N -> A -> Prop) : MonoQ E ->
    forall lo hi l, Chain E lo hi l -> forall lo' hi', lo' <= lo -> hi <= hi' -> Chain E lo' hi' l.
  Proof.
    intros HE lo hi l H. induction H as [lo hi Hle|lo mid hi x l Hx Hle Hc IH]; intros lo' hi' H1 H2.
    - constructor. lia.
    - apply (Chain_cons E lo' mid hi'); [eapply HE; eauto; lia|lia|apply IH; lia].
  Qed.

  Lemma Mono_Chain {A} (E : N -> N -> A -> Prop) : MonoQ E -> MonoQ (Chain E).
  Proof. intros HE lo hi lo' hi' l H H1 H2. eapply Chain_widen; eauto. Qed.

  Lemma Chain_snoc {A} (E : N -> N -> A -> Prop) : MonoQ E ->
    forall lo mid l, Chain E lo mid l -> forall mid' hi x, E mid' hi x -> mid <= mid' -> mid' <= hi ->
    Chain E lo hi (l ++ [x]).
  Proof.
    intros HE lo mid l H. induction H as [lo mid Hle|lo m1 mid y l Hy Hle Hc IH]; intros mid' hi x Hx H1 H2; cbn [app].
    - apply (Chain_cons E lo hi hi); [eapply HE; eauto; lia|lia|constructor; lia].
    - apply (Chain_cons E lo m1 hi); [exact Hy|exact Hle|]. eapply IH; eauto.
  Qed.

  Lemma Chain_Forall {A} (E : N -> N -> A -> Prop) : MonoQ E ->
    forall lo hi l, Chain E lo hi l -> Forall (E lo hi) l.
  Proof.
    intros HE lo hi l H. induction H as [lo hi Hle|lo mid hi x l Hx Hle Hc IH]; [constructor|].
    pose proof (Chain_le _ _ _ _ Hc) as Hmh.
    constructor; [eapply HE; eauto; lia|]. eapply Forall_impl; [|exact IH].
    intros a Ha. eapply HE; eauto; lia.
  Qed.

  Lemma Chain_last {A} (E : N -> N -> A -> Prop) : MonoQ E ->
    forall lo hi l y l2, Chain E lo hi l -> rev l = y :: l2 -> E lo hi y.
  Proof.
    intros HE lo hi l y l2 H Hr. pose proof (Chain_Forall E HE _ _ _ H) as HF.
    rewrite Forall_forall in HF. apply HF. apply in_rev. rewrite Hr. left. reflexivity.
  Qed.

  (* the first and the last element of a chain: the same element, or ordered windows *)
  Lemma Chain_first_last {A} (E : N -> N -> A -> Prop) : MonoQ E ->
    forall lo hi x l y l2, Chain E lo hi (x :: l) -> rev (x :: l) = y :: l2 ->
    (l = [] /\ y = x /\ E lo hi x) \/ (exists m, E lo m x /\ E m hi y /\ lo <= m /\ m <= hi).
  Proof.
    intros HE lo hi x l y l2 H Hr. inversion H as [|? mid ? ? ? Hx Hle Hc]; subst.
    pose proof (Chain_le _ _ _ _ Hc) as Hmh.
    destruct l as [|z l].
    - left. cbn in Hr. inversion Hr; subst. repeat split. eapply HE; eauto; lia.
    - right. exists mid. split; [exact Hx|]. split; [|lia].
      change (rev (x :: z :: l)) with (rev (z :: l) ++ [x]) in Hr.
      destruct (rev (z :: l)) as [|y' l'] eqn:E2.
      + exfalso. apply (f_equal (@length A)) in E2. rewrite rev_length in E2. discriminate.
      + cbn [app] in Hr. inversion Hr; subst. eapply Chain_last; eauto.
  Qed.

End Generic.

(* the universe: a sorted token list, the line bound, a sentinel above every raw position *)
Record univ := mkU {
  uL : N; uts : list tok; utop : N;
  uHts : TokSorted uL uts;
  uHtop : forall t, In t uts -> traw t < utop
}.

Section Ranges.
  Variable u : univ.
  Let L := uL u.
  Let ts := uts u.
  Let top := utop u.
  Let Hts : TokSorted L ts := uHts u.
  Let Htop : forall t, In t ts -> traw t < top := uHtop u.

  Definition T (t : tok) : Prop := In t ts.
  Definition BodyOK (i : input) : Prop := StronglySorted rawlt i /\ (forall t, In t i -> T t).
  Definition key (i : input) : N := match i with t :: _ => traw t | [] => top end.

  Lemma BodyOK_nil : BodyOK [].
  Proof. split; [constructor|intros t []]. Qed.

  Lemma BodyOK_suffix r i : BodyOK i -> Suffix r i -> BodyOK r.
  Proof.
    intros [Hs Hi] [p ->]. split; [eapply ss_app_r; exact Hs|].
    intros t Ht. apply Hi. apply in_or_app. auto.
  Qed.

  Lemma BodyOK_prefix p r : BodyOK (p ++ r) -> BodyOK p.
  Proof.
    intros [Hs Hi]. split; [eapply ss_app_l; exact Hs|]. intros t Ht. apply Hi. apply in_or_app. auto.
  Qed.

  Lemma key_le_top i : BodyOK i -> key i <= top.
  Proof.
    intros [_ Hi]. destruct i as [|t i]; cbn [key]; [lia|].
    specialize (Htop t (Hi t (or_introl eq_refl))). lia.
  Qed.

  Lemma BodyOK_cons t r : BodyOK (t :: r) -> T t /\ BodyOK r /\ traw t < key r.
  Proof.
    intros [Hs Hi]. inversion Hs as [|? ? Hs' Hf]; subst. split; [apply Hi; left; reflexivity|].
    split; [split; [exact Hs'|intros x Hx; apply Hi; right; exact Hx]|].
    destruct r as [|t' r]; cbn [key]; [apply Htop; apply Hi; left; reflexivity|].
    inversion Hf; subst. assumption.
  Qed.

  Lemma key_in i t : BodyOK i -> In t i -> key i <= traw t.
  Proof.
    intros [Hs _] Ht. destruct i as [|t0 i]; [destruct Ht|]. cbn [key].
    inversion Hs as [|? ? _ Hf]; subst. destruct Ht as [<-|Ht]; [lia|].
    rewrite Forall_forall in Hf. specialize (Hf _ Ht). unfold rawlt in Hf. lia.
  Qed.

  Lemma key_suffix r i : BodyOK i -> Suffix r i -> key i <= key r.
  Proof.
    intros Hb Hs. destruct r as [|t r]; [change (key []) with top; apply key_le_top; exact Hb|].
    change (key (t :: r)) with (traw t). apply key_in; [exact Hb|]. eapply Suffix_In; [exact Hs|left; reflexivity].
  Qed.

  Lemma key_lt_top_tok t : T t -> traw t < top.
  Proof. apply Htop. Qed.

  (* ---------- positions relative to keys ---------- *)
  Definition SKp (k : N) (p : pos) : Prop := forall b, T b -> k <= traw b -> pos_le p (tstart b).
  Definition EKp (k : N) (p : pos) : Prop := exists b, T b /\ k <= traw b /\ pos_le (tstart b) p.

  Definition RangeOK (lo hi : N) (r : range) : Prop :=
    lines_le L r /\ exists ks, lo <= ks /\ ks < hi /\ SKp ks (rstart r) /\ EKp ks (rend r).

  Lemma RangeOK_wf lo hi r : RangeOK lo hi r -> range_wf r.
  Proof.
    intros (_ & ks & _ & _ & Hs & (b & Hb & Hk & He)). unfold range_wf.
    eapply pos_le_trans; [apply (Hs b Hb Hk)|exact He].
  Qed.

  Lemma RangeOK_lines lo hi r : RangeOK lo hi r -> lines_le L r.
  Proof. intros [H _]. exact H. Qed.

  Lemma RangeOK_lt lo hi r : RangeOK lo hi r -> lo < hi.
  Proof. intros (_ & ks & A & B & _). lia. Qed.

  Lemma RangeOK_mono lo hi lo' hi' r : RangeOK lo hi r -> lo' <= lo -> hi <= hi' -> RangeOK lo' hi' r.
  Proof. intros (Hl & ks & A & B & C) H1 H2. split; [exact Hl|]. exists ks. repeat split; try lia; tauto. Qed.

  Lemma RangeOK_tok lo hi t : T t -> lo <= traw t -> traw t < hi -> RangeOK lo hi (trange t).
  Proof.
    intros Ht H1 H2. split; [apply (ts_lines L ts Hts); exact Ht|].
    exists (traw t). repeat split; try lia.
    - intros b Hb Hk. apply (ts_start_le L ts Hts); assumption.
    - exists t. repeat split; [exact Ht|lia|apply (ts_wf L ts Hts); exact Ht].
  Qed.

  Lemma RangeOK_mk lo hi lo1 hi1 lo2 hi2 x y :
    RangeOK lo1 hi1 x -> RangeOK lo2 hi2 y -> hi1 <= lo2 -> lo <= lo1 -> hi1 <= hi ->
    RangeOK lo hi (mkRange (rstart x) (rend y)).
  Proof.
    intros (Lx & kx & A1 & A2 & A3 & _) (Ly & ky & B1 & B2 & _ & (b & Hb & Hk & He)) H1 H2 H3.
    split; [unfold lines_le in *; cbn [rstart rend]; tauto|].
    exists kx. cbn [rstart rend]. repeat split; try lia; [exact A3|].
    exists b. repeat split; [exact Hb|lia|exact He].
  Qed.

  Lemma RangeOK_self lo hi lo1 hi1 x :
    RangeOK lo1 hi1 x -> lo <= lo1 -> hi1 <= hi -> RangeOK lo hi (mkRange (rstart x) (rend x)).
  Proof. intros H H1 H2. destruct x as [s e]. cbn [rstart rend]. eapply RangeOK_mono; eauto. Qed.

  (* the same start, an end that reaches at least as far *)
  Lemma RangeOK_reend lo hi lo1 hi1 x e :
    RangeOK lo1 hi1 x -> pos_le (rend x) e -> pline e <= L -> lo <= lo1 -> hi1 <= hi ->
    RangeOK lo hi (mkRange (rstart x) e).
  Proof.
    intros (Lx & kx & A1 & A2 & A3 & (b & Hb & Hk & He)) Hle Hl H1 H2.
    split; [unfold lines_le in *; cbn [rstart rend]; tauto|].
    exists kx. cbn [rstart rend]. repeat split; try lia; [exact A3|].
    exists b. repeat split; [exact Hb|exact Hk|eapply pos_le_trans; eauto].
  Qed.

  (* ---------- the window-free invariant of every node ---------- *)
  (* the declaration kinds whose identifier token is the selection range of a symbol *)
  Definition needs_ident (k : akind) : bool :=
    match k with
    | KAstConstantDeclaration | KAstTypeDeclaration | KAstGlobalVariableDeclaration
    | KAstParameterDeclaration | KAstLocalVariableDeclaration | KAstClass | KAstModule
    | KAstEnumVariant | KAstTypeRecordField => true
    | _ => false
    end.

  Definition sel_ok (n : node) : Prop :=
    (forall t, attr_tok K_ident n = Some t ->
      (nkind n = KAstForBlock -> attr_tok K_end n <> None) ->
      inside (trange t) (nrange n) /\ range_wf (trange t) /\ lines_le L (trange t)) /\
    (needs_ident (nkind n) = true -> attr_tok K_ident n <> None).

  Definition name_ok (n : node) : Prop :=
    nkind n = KAstProcedure \/ nkind n = KAstFunction ->
    match nchildren n with c :: _ => inside (nrange c) (nrange n) | [] => False end.

  Definition LocalOK (n : node) : Prop :=
    range_wf (nrange n) /\ lines_le L (nrange n) /\ sel_ok n /\ name_ok n.

  Fixpoint AllWf (n : node) : Prop :=
    match n with
    | Node k id raw rng at_ ch =>
        LocalOK (Node k id raw rng at_ ch) /\
        (fix all (l : list node) : Prop := match l with [] => True | c :: l' => AllWf c /\ all l' end) ch
    end.

  Lemma AllWf_node k id raw rng at_ ch :
    AllWf (Node k id raw rng at_ ch) <-> LocalOK (Node k id raw rng at_ ch) /\ Forall AllWf ch.
  Proof.
    cbn [AllWf]. split; intros [H1 H2]; (split; [exact H1|]).
    - clear H1. induction ch as [|c ch IH]; [constructor|]. destruct H2 as [A B]. constructor; auto.
    - clear H1. induction ch as [|c ch IH]; [exact I|]. inversion H2; subst. split; [assumption|apply IH; assumption].
  Qed.

  Lemma AllWf_unfold n : AllWf n <-> LocalOK n /\ Forall AllWf (nchildren n).
  Proof. destruct n. apply AllWf_node. Qed.

  Lemma sel_ok_none n : attr_tok K_ident n = None -> needs_ident (nkind n) = false -> sel_ok n.
  Proof. intros H Hk. split; [intros t Ht; congruence|intro E; congruence]. Qed.

  Lemma sel_ok_tok n t : attr_tok K_ident n = Some t -> T t -> inside (trange t) (nrange n) -> sel_ok n.
  Proof.
    intros H Ht Hin. split; [|intros _; congruence]. intros t' Ht' _. rewrite H in Ht'. inversion Ht'; subst.
    split; [exact Hin|]. split; [apply (ts_wf L ts Hts)|apply (ts_lines L ts Hts)]; exact Ht.
  Qed.

  Lemma name_ok_other n : nkind n <> KAstProcedure -> nkind n <> KAstFunction -> name_ok n.
  Proof. intros H1 H2 [H|H]; congruence. Qed.

  (* ---------- value predicates (windowed) ---------- *)
  Definition TokIn (tys : list ttype) (lo hi : N) (t : tok) : Prop :=
    T t /\ lo <= traw t /\ traw t < hi /\ In (tty t) tys.
  Definition NodeOK (lo hi : N) (n : node) : Prop := RangeOK lo hi (nrange n) /\ AllWf n.
  Lemma Mono_TokIn tys : MonoQ (TokIn tys).
  Proof. intros lo hi lo' hi' t (A & B & C & D) H1 H2. repeat split; auto; lia. Qed.
  Lemma Mono_NodeOK : MonoQ NodeOK.
  Proof. intros lo hi lo' hi' n [A B] H1 H2. split; [eapply RangeOK_mono; eauto|exact B]. Qed.
  Lemma Mono_RangeOK {A} (f : A -> range) : MonoQ (fun lo hi a => RangeOK lo hi (f a)).
  Proof. intros lo hi lo' hi' n H H1 H2. eapply RangeOK_mono; eauto. Qed.
  (* tokens of tight types have true ends *)
  Definition tight_ty (ty : ttype) : bool := negb (tt_eqb ty TStringLiteral) && negb (tt_eqb ty TComment).
  Lemma TokIn_tight tys lo hi t : TokIn tys lo hi t -> forallb tight_ty tys = true -> tight t = true.
  Proof.
    intros (_ & _ & _ & Hin) H. rewrite forallb_forall in H. apply (H _ Hin).
  Qed.

  Lemma TokIn_range tys lo hi t : TokIn tys lo hi t -> RangeOK lo hi (trange t).
  Proof. intros (A & B & C & _). apply RangeOK_tok; assumption. Qed.

  Lemma TokIn_weaken tys tys' lo hi t : TokIn tys lo hi t -> (forall x, In x tys -> In x tys') -> TokIn tys' lo hi t.
  Proof. intros (A & B & C & D) H. repeat split; auto. Qed.

  (* K_ident token inside a node range built from x's start and y's end *)
  Lemma inside_start lo1 hi1 x tys lo2 hi2 t :
    RangeOK lo1 hi1 x -> TokIn tys lo2 hi2 t -> hi1 <= lo2 -> pos_le (rstart x) (tstart t).
  Proof. intros (_ & ks & A & B & Hs & _) (Ht & C & D & _) H. apply Hs; [exact Ht|lia]. Qed.

  Lemma inside_end tys lo2 hi2 t lo3 hi3 y :
    TokIn tys lo2 hi2 t -> forallb tight_ty tys = true -> RangeOK lo3 hi3 y -> hi2 <= lo3 ->
    pos_le (tend t) (rend y).
  Proof.
    intros Hin Htt (_ & ks & A & B & _ & (b & Hb & Hk & He)) H.
    pose proof (TokIn_tight _ _ _ _ Hin Htt) as Htight. destruct Hin as (Ht & C & D & _).
    eapply pos_le_trans; [|exact He]. apply (ts_tight L ts Hts); auto. lia.
  Qed.

  (* ---------- diagnostics ---------- *)
  Definition DiagOK (d : pdiag) : Prop := range_wf (drange d) /\ lines_le L (drange d).
  Definition DiagsOK (c : ctx) : Prop := Forall DiagOK (cdiags c).

  Lemma range_default_ok : range_wf range_default /\ lines_le L range_default.
  Proof. unfold range_default. split; pos_solve. Qed.

  Lemma first_range_ok i : BodyOK i -> range_wf (first_range i) /\ lines_le L (first_range i).
  Proof.
    intros [_ Hi]. destruct i as [|t i]; cbn [first_range]; [apply range_default_ok|].
    split; [apply (ts_wf L ts Hts)|apply (ts_lines L ts Hts)]; apply Hi; left; reflexivity.
  Qed.

  Lemma last_In (t : tok) l : In (last l t) (t :: l).
  Proof.
    assert (forall l (d : tok), l = [] \/ In (last l d) l) as H.
    { clear. induction l as [|x l IH]; intro d; [left; reflexivity|]. right.
      destruct l as [|y l']; [left; reflexivity|]. change (last (x :: y :: l') d) with (last (y :: l') d).
      destruct (IH d) as [E|Hin]; [discriminate|right; exact Hin]. }
    destruct (H l t) as [->|Hin]; [left; reflexivity|right; exact Hin].
  Qed.

  (* the iteration input of a recovering loop is never empty: the diagnostic sits on a token *)
  Lemma diag_at_ok t0 i e m : BodyOK (t0 :: i) -> BodyOK e -> DiagOK (diag_at (t0 :: i) e m).
  Proof.
    intros Hi He. unfold DiagOK, diag_at, err_range. cbn [drange]. destruct e as [|t e].
    - cbn [last_tok_range]. destruct Hi as [_ Hi].
      split; [apply (ts_wf L ts Hts)|apply (ts_lines L ts Hts)]; apply Hi; apply last_In.
    - destruct He as [_ He]. split; [apply (ts_wf L ts Hts)|apply (ts_lines L ts Hts)]; apply He; left; reflexivity.
  Qed.

  Lemma tok_range_ok t : T t -> DiagOK (mkDiag (trange t) []) .
  Proof. intro H. split; cbn [drange]; [apply (ts_wf L ts Hts)|apply (ts_lines L ts Hts)]; exact H. Qed.

  (* range from the start of an earlier token to the end of a later (or the same) token *)
  Lemma toks_range_ok a b : T a -> T b -> traw a <= traw b ->
    range_wf (mkRange (tstart a) (tend b)) /\ lines_le L (mkRange (tstart a) (tend b)).
  Proof.
    intros Ha Hb Hle. pose proof (ts_start_le L ts Hts a b Ha Hb Hle) as H1.
    pose proof (ts_wf L ts Hts b Hb) as H2. pose proof (ts_lines L ts Hts a Ha) as H3.
    pose proof (ts_lines L ts Hts b Hb) as H4. split.
    - unfold range_wf. cbn [rstart rend]. eapply pos_le_trans; [exact H1|exact H2].
    - unfold lines_le, tstart, tend in *. cbn [rstart rend]. tauto.
  Qed.

  Lemma sep_diag_ok prev i e m : T prev -> BodyOK i -> Suffix e i ->
    DiagOK (mkDiag (new_range (range_or i (trange prev)) (range_or e (range_or i (trange prev)))) m).
  Proof.
    intros Hprev Hb Hs. unfold DiagOK. cbn [drange]. unfold new_range.
    destruct i as [|t0 i].
    - destruct Hs as [p Hp]. destruct p; [|discriminate]. cbn [app] in Hp. subst e. cbn [range_or].
      apply (toks_range_ok prev prev); auto. lia.
    - cbn [range_or]. destruct (BodyOK_cons _ _ Hb) as (Ht0 & _ & _).
      destruct e as [|t e].
      + apply (toks_range_ok t0 t0); auto. lia.
      + apply (toks_range_ok t0 t); auto.
        * destruct Hb as [_ Hi]. apply Hi. eapply Suffix_In; [exact Hs|left; reflexivity].
        * apply (key_in (t0 :: i) t Hb). eapply Suffix_In; [exact Hs|left; reflexivity].
  Qed.

End Ranges.
