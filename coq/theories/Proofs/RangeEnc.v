(* C06: ranges.  Every node of an expression tree encloses its children, siblings are in source
   order and strictly apart, and therefore the position lookup of manager/utils.rs
   (search_encasing_node: descend into the FIRST child whose range contains the position) finds,
   at any position of an identifier token, exactly that identifier's terminal node.
   Token-order hypothesis (the statement of DESIGN C08 about lexer output, assumed explicitly here
   as [tord]): every token's range is well formed, consecutive tokens do not overlap, and every token
   that is not a literal is non-empty (the range of a string literal covers its VALUE, which may be
   empty, and ends on its start line even when the literal spans lines). *)
From GoldV Require Import Base Tokens Lexer AstKinds Tree Strings PComb Grammar Ladder RTComb LadderProofs ExprRT Encase.
From Coq Require Import Lia.

(* ---------- positions ---------- *)

Definition pos_le (a b : pos) : Prop := pline a < pline b \/ (pline a = pline b /\ pcol a <= pcol b).
Definition pos_lt (a b : pos) : Prop := pline a < pline b \/ (pline a = pline b /\ pcol a < pcol b).

Ltac psolve := unfold pos_le, pos_lt in *; lia.

Lemma pos_le_refl a : pos_le a a. Proof. psolve. Qed.
Lemma pos_le_trans a b c : pos_le a b -> pos_le b c -> pos_le a c. Proof. psolve. Qed.
Lemma pos_lt_le a b : pos_lt a b -> pos_le a b. Proof. psolve. Qed.
Lemma pos_le_lt_trans a b c : pos_le a b -> pos_lt b c -> pos_lt a c. Proof. psolve. Qed.
Lemma pos_lt_le_trans a b c : pos_lt a b -> pos_le b c -> pos_lt a c. Proof. psolve. Qed.
Lemma pos_lt_not_le a b : pos_lt a b -> ~ pos_le b a. Proof. psolve. Qed.

Lemma pos_leb_le a b : pos_leb a b = true <-> pos_le a b.
Proof.
  unfold pos_leb, pos_le. rewrite orb_true_iff, andb_true_iff, N.ltb_lt, N.eqb_eq, N.leb_le. reflexivity.
Qed.

Lemma contains_spec r p : contains r p = true <-> pos_le (rstart r) p /\ pos_le p (rend r).
Proof. unfold contains. rewrite andb_true_iff, !pos_leb_le. reflexivity. Qed.

Definition range_wf (r : range) : Prop := pos_le (rstart r) (rend r).
Definition encloses (outer inner : range) : Prop :=
  pos_le (rstart outer) (rstart inner) /\ pos_le (rend inner) (rend outer).

Lemma search_unfold p n : search p n = match search_go p (nchildren n) with Some r => r | None => n end.
Proof. destruct n; reflexivity. Qed.

Inductive subnode : node -> node -> Prop :=
| sub_refl n : subnode n n
| sub_child m c n : In c (nchildren n) -> subnode m c -> subnode m n.

(* ---------- trees whose children are enclosed, in order and strictly apart ---------- *)

Fixpoint seq_sorted (l : list range) : Prop :=
  match l with
  | [] => True
  | r :: l' => Forall (fun r' => pos_lt (rend r) (rstart r')) l' /\ seq_sorted l'
  end.

Fixpoint sorted_tree (n : node) : Prop :=
  match n with
  | Node _ _ _ rg _ ch =>
      range_wf rg /\
      (fix all (l : list node) : Prop :=
         match l with [] => True | c :: l' => (sorted_tree c /\ encloses rg (nrange c)) /\ all l' end) ch /\
      seq_sorted (map nrange ch)
  end.

Lemma sorted_tree_unfold n :
  sorted_tree n <->
  range_wf (nrange n) /\ Forall (fun c => sorted_tree c /\ encloses (nrange n) (nrange c)) (nchildren n) /\
  seq_sorted (map nrange (nchildren n)).
Proof.
  destruct n as [k i r rg a ch]. cbn [sorted_tree nrange nchildren].
  assert (forall l, (fix all (l : list node) : Prop :=
         match l with [] => True | c :: l' => (sorted_tree c /\ encloses rg (nrange c)) /\ all l' end) l
         <-> Forall (fun c => sorted_tree c /\ encloses rg (nrange c)) l) as H.
  { induction l as [|c l IH]; [split; auto|]. rewrite IH. split; [intros [A B]; constructor; assumption|].
    intro X. inversion X; subst. auto. }
  rewrite H. reflexivity.
Qed.

Lemma sorted_sub n m : sorted_tree n -> subnode m n -> sorted_tree m /\ encloses (nrange n) (nrange m).
Proof.
  intros Hs H. induction H as [n|m c n Hin Hsub IH].
  - split; [exact Hs|split; apply pos_le_refl].
  - apply sorted_tree_unfold in Hs as (_ & Hc & _). rewrite Forall_forall in Hc.
    destruct (Hc c Hin) as [Sc Ec]. destruct (IH Sc) as [Sm Em]. split; [exact Sm|].
    destruct Ec, Em. split; eapply pos_le_trans; eauto.
Qed.

(* range_encloses for a sorted tree: every node encloses each of its children *)
Lemma sorted_encloses n m c : sorted_tree n -> subnode m n -> In c (nchildren m) -> encloses (nrange m) (nrange c).
Proof.
  intros Hs Hm Hc. destruct (sorted_sub n m Hs Hm) as [Sm _].
  apply sorted_tree_unfold in Sm as (_ & Hch & _). rewrite Forall_forall in Hch. apply (Hch c Hc).
Qed.

Lemma search_go_found p ch c : In c ch -> seq_sorted (map nrange ch) -> Forall (fun x => range_wf (nrange x)) ch ->
  contains (nrange c) p = true -> search_go p ch = Some (search p c).
Proof.
  induction ch as [|c0 ch IH]; intros Hin Hs Hw Hc; [destruct Hin|].
  cbn [search_go]. destruct Hin as [->|Hin]; [rewrite Hc; reflexivity|].
  cbn [map seq_sorted] in Hs. destruct Hs as [Hs0 Hs]. inversion Hw as [|x l Hw0 Hwl]; subst.
  destruct (contains (nrange c0) p) eqn:E.
  - exfalso. apply contains_spec in E as [_ E2]. apply contains_spec in Hc as [C1 _].
    rewrite Forall_forall in Hs0. specialize (Hs0 (nrange c) (in_map nrange _ _ Hin)).
    apply (pos_lt_not_le _ _ Hs0). eapply pos_le_trans; eauto.
  - apply IH; auto.
Qed.

(* the lookup reaches every subnode whose range contains the position *)
Lemma search_sub p n m : sorted_tree n -> subnode m n -> contains (nrange m) p = true -> search p n = search p m.
Proof.
  intros Hs H Hc. induction H as [n|m c n Hin Hsub IH]; [reflexivity|].
  pose proof Hs as Hs'. apply sorted_tree_unfold in Hs' as (_ & Hch & Hss).
  pose proof Hch as Hch'. rewrite Forall_forall in Hch'. destruct (Hch' c Hin) as [Sc Ec].
  destruct (sorted_sub c m Sc Hsub) as [_ [Em1 Em2]].
  assert (contains (nrange c) p = true) as Hcc.
  { apply contains_spec in Hc as [C1 C2]. apply contains_spec. split; eapply pos_le_trans; eauto. }
  rewrite search_unfold. rewrite (search_go_found p (nchildren n) c Hin Hss); [apply IH; [exact Sc|exact Hc]| |exact Hcc].
  apply Forall_forall. intros x Hx. destruct (Hch' x Hx) as [Sx _]. apply sorted_tree_unfold in Sx. apply Sx.
Qed.

Lemma search_leaf p n : nchildren n = [] -> search p n = n.
Proof. intro H. rewrite search_unfold, H. reflexivity. Qed.

(* ---------- token order ---------- *)

Definition tstart (t : tok) : pos := rstart (trange t).
Definition tend (t : tok) : pos := rend (trange t).
Definition twf (t : tok) : Prop :=
  pos_le (tstart t) (tend t) /\ (~ In (tty t) literal_types -> pos_lt (tstart t) (tend t)).

Fixpoint tord (l : list tok) : Prop :=
  match l with
  | [] => True
  | t :: r => twf t /\ (match r with [] => True | t' :: _ => pos_le (tend t) (tstart t') end) /\ tord r
  end.

Definition pos0 : pos := mkPos 0 0.
Definition fst_start (l : list tok) : pos := match l with t :: _ => tstart t | [] => pos0 end.
Fixpoint lst_end (l : list tok) : pos :=
  match l with [] => pos0 | t :: r => match r with [] => tend t | _ => lst_end r end end.

Lemma lst_end_cons t r : r <> [] -> lst_end (t :: r) = lst_end r.
Proof. destruct r; [congruence|reflexivity]. Qed.

Lemma lst_end_app a b : b <> [] -> lst_end (a ++ b) = lst_end b.
Proof.
  intro H. induction a as [|t a IH]; [reflexivity|]. cbn [app]. rewrite lst_end_cons; [exact IH|].
  destruct a; [exact H|discriminate].
Qed.

Lemma fst_start_app a b : a <> [] -> fst_start (a ++ b) = fst_start a.
Proof. destruct a; [congruence|reflexivity]. Qed.

Lemma tord_app a b : tord (a ++ b) ->
  tord a /\ tord b /\ (a <> [] -> b <> [] -> pos_le (lst_end a) (fst_start b)).
Proof.
  induction a as [|t a IH]; intro H; [simpl; repeat split; [exact H|congruence]|].
  cbn [app tord] in H. destruct H as (Hw & Hn & Hr). destruct (IH Hr) as (Ha & Hb & Hab).
  split; [|split; [exact Hb|]].
  - cbn [tord]. repeat split; [apply Hw|apply Hw| |exact Ha]. destruct a; [exact I|exact Hn].
  - intros _ Hbn. destruct a as [|t' a].
    + destruct b; [congruence|exact Hn].
    + rewrite lst_end_cons by discriminate. apply Hab; [discriminate|exact Hbn].
Qed.

Lemma tord_span l : tord l -> l <> [] -> pos_le (fst_start l) (lst_end l).
Proof.
  induction l as [|t l IH]; intros H Hne; [congruence|]. cbn [tord] in H. destruct H as ((Hw & _) & Hn & Hr).
  destruct l as [|t' l]; [exact Hw|]. rewrite lst_end_cons by discriminate. cbn [fst_start].
  eapply pos_le_trans; [exact Hw|]. eapply pos_le_trans; [exact Hn|]. apply (IH Hr). discriminate.
Qed.

Lemma tord_cons t r : tord (t :: r) -> twf t /\ tord r /\ (r <> [] -> pos_le (tend t) (fst_start r)).
Proof.
  cbn [tord]. intros (Hw & Hn & Hr). repeat split; try apply Hw; [exact Hr|]. destruct r; [congruence|intros _; exact Hn].
Qed.

(* a derived tree sits inside the span of its tokens *)
Definition within (ts : list tok) (n : node) : Prop :=
  pos_le (fst_start ts) (rstart (nrange n)) /\ pos_le (rend (nrange n)) (lst_end ts).
Definition Good (ts : list tok) (n : node) : Prop := ts <> [] /\ sorted_tree n /\ within ts n.
Definition GoodRel (R : rel) : Prop := forall ts n, R ts n -> tord ts -> Good ts n.

Lemma sorted_wf n : sorted_tree n -> range_wf (nrange n).
Proof. intro H. apply sorted_tree_unfold in H. apply H. Qed.

Lemma Good_terminal t : twf t -> Good [t] (mk_terminal t).
Proof.
  intros [Hw _]. split; [discriminate|]. split.
  - apply sorted_tree_unfold. cbn. repeat split; auto.
  - split; cbn; apply pos_le_refl.
Qed.

Lemma nonlit ty : mem_ty ty literal_types = false -> ~ In ty literal_types.
Proof. apply mem_ty_false. Qed.

(* ---------- operator expressions ---------- *)

Ltac punf := unfold range_wf, encloses, within in *;
             cbn [nrange mk_terminal mk_call mk_idx mk_set mk_unary_pre mk_unary_post new_range rstart rend fst_start] in *;
             unfold tstart, tend, tpos in *.
Ltac psolve2 := punf; unfold pos_le, pos_lt in *; lia.

Section ExpGood.
  Variable lad : list (list ttype).
  Variable AtomR : rel.
  Hypothesis Hatom : GoodRel AtomR.
  Hypothesis Hops : forall j ty, In ty (nth j lad []) -> ~ In ty literal_types.

  Lemma Exp_good k : GoodRel (Exp lad AtomR k).
  Proof.
    intros ts n H. induction H as [k ts n Ha|k j op tl nl tr nr Hin Hle Hl IHl Hr IHr]; intro Ht.
    - apply Hatom; assumption.
    - apply tord_app in Ht as (Htl & Hotr & Hsep). apply tord_cons in Hotr as (Hwop & Htr & Hoptr).
      destruct (IHl Htl) as (Nl & Sl & Wl1 & Wl2). destruct (IHr Htr) as (Nr & Sr & Wr1 & Wr2).
      specialize (Hsep Nl ltac:(discriminate)). cbn [fst_start] in Hsep. specialize (Hoptr Nr).
      destruct Hwop as [Hw1 Hw2]. specialize (Hw2 (Hops _ _ Hin)).
      pose proof (sorted_wf _ Sl) as Rl. pose proof (sorted_wf _ Sr) as Rr. unfold range_wf in Rl, Rr.
      assert (pos_lt (rend (nrange nl)) (rstart (nrange nr))) as Hlt.
      { eapply pos_le_lt_trans; [exact Wl2|]. eapply pos_le_lt_trans; [exact Hsep|].
        eapply pos_lt_le_trans; [exact Hw2|]. eapply pos_le_trans; [exact Hoptr|exact Wr1]. }
      split; [destruct tl; discriminate|]. split.
      + apply sorted_tree_unfold. unfold mk_binop. cbn [nrange nchildren map seq_sorted].
        split; [psolve2|]. split.
        * constructor; [split; [exact Sl|psolve2]|constructor; [split; [exact Sr|psolve2]|constructor]].
        * split; [constructor; [exact Hlt|constructor]|]. split; [constructor|exact I].
      + unfold mk_binop, within.
        rewrite fst_start_app by exact Nl. rewrite lst_end_app by discriminate. rewrite lst_end_cons by exact Nr.
        psolve2.
  Qed.
End ExpGood.

(* ---------- argument lists ---------- *)

Lemma Args_good (R : rel) ts ns : GoodRel R -> Args TComma R ts ns -> tord ts ->
  ts <> [] /\ Forall sorted_tree ns /\ seq_sorted (map nrange ns) /\ Forall (within ts) ns.
Proof.
  intros HR H. induction H as [ts n Hn|ts n cm ts' ns Hn Hcm Hrest IH]; intro Ht.
  - destruct (HR _ _ Hn Ht) as (N & S & W). repeat split; auto. repeat constructor.
  - apply tord_app in Ht as (Htl & Hotr & Hsep). apply tord_cons in Hotr as (Hwcm & Htr & Hcmtr).
    destruct (HR _ _ Hn Htl) as (N & S & W1 & W2). destruct (IH Htr) as (N' & S' & SS' & W').
    specialize (Hsep N ltac:(discriminate)). cbn [fst_start] in Hsep. specialize (Hcmtr N').
    destruct Hwcm as [Hw1 Hw2]. specialize (Hw2 ltac:(rewrite Hcm; apply nonlit; reflexivity)).
    split; [destruct ts; discriminate|]. split; [constructor; assumption|]. split; [|constructor].
    + cbn [map seq_sorted]. split; [|exact SS']. apply Forall_forall. intros r Hr. apply in_map_iff in Hr as (x & <- & Hx).
      rewrite Forall_forall in W'. destruct (W' x Hx) as [X1 _].
      eapply pos_le_lt_trans; [exact W2|]. eapply pos_le_lt_trans; [exact Hsep|].
      eapply pos_lt_le_trans; [exact Hw2|]. eapply pos_le_trans; [exact Hcmtr|exact X1].
    + split; [rewrite fst_start_app by exact N; exact W1|].
      rewrite lst_end_app by discriminate. rewrite lst_end_cons by exact N'.
      eapply pos_le_trans; [exact W2|]. eapply pos_le_trans; [exact Hsep|]. eapply pos_le_trans; [exact Hw1|].
      eapply pos_le_trans; [exact Hcmtr|]. apply tord_span; assumption.
    + apply Forall_forall. intros x Hx. rewrite Forall_forall in W'. destruct (W' x Hx) as [X1 X2].
      split.
      * rewrite fst_start_app by exact N. eapply pos_le_trans; [apply (tord_span _ Htl N)|].
        eapply pos_le_trans; [exact Hsep|]. eapply pos_le_trans; [exact Hw1|]. eapply pos_le_trans; [exact Hcmtr|exact X1].
      * rewrite lst_end_app by discriminate. rewrite lst_end_cons by exact N'. exact X2.
Qed.



(* children derived from a token list sit inside any range that covers the list *)
Lemma enclosed_children (ts : list tok) ns rg :
  Forall sorted_tree ns -> Forall (within ts) ns ->
  pos_le (rstart rg) (fst_start ts) -> pos_le (lst_end ts) (rend rg) ->
  Forall (fun x => sorted_tree x /\ encloses rg (nrange x)) ns.
Proof.
  intros S W H1 H2. apply Forall_forall. intros x Hx. rewrite Forall_forall in S, W.
  destruct (W x Hx) as [X1 X2]. split; [apply S; exact Hx|]. split; eapply pos_le_trans; eauto.
Qed.

(* pre ++ ts ++ [c] *)
Lemma tord_bracket pre ts c : tord (pre ++ ts ++ [c]) -> pre <> [] -> ts <> [] ->
  tord pre /\ tord ts /\ twf c /\ pos_le (lst_end pre) (fst_start ts) /\ pos_le (lst_end ts) (tstart c) /\
  pos_le (fst_start ts) (lst_end ts).
Proof.
  intros H Np Nt. apply tord_app in H as (Hp & H & Hsep1). apply tord_app in H as (Hts & Hc & Hsep2).
  specialize (Hsep1 Np ltac:(destruct ts; discriminate)). rewrite fst_start_app in Hsep1 by exact Nt.
  specialize (Hsep2 Nt ltac:(discriminate)). cbn [fst_start] in Hsep2. cbn [tord] in Hc.
  repeat split; try assumption; try apply Hc. apply tord_span; assumption.
Qed.

Lemma lst_end_bracket pre ts c : lst_end (pre ++ ts ++ [c]) = tend c.
Proof. rewrite lst_end_app by (destruct ts; discriminate). rewrite lst_end_app by discriminate. reflexivity. Qed.

Lemma tord_mid pre ts post : tord (pre ++ ts ++ post) -> tord ts.
Proof. intro H. apply tord_app in H as (_ & H & _). apply tord_app in H as (H & _ & _). exact H. Qed.

(* ---------- one level of the knot ---------- *)

Section LevelGood.
  Variables RE RP : rel.
  Variable ae : Prop.
  Hypothesis HRE : GoodRel RE.
  Hypothesis HRP : GoodRel RP.

  Lemma DotItem_good : GoodRel (DotItem RE ae).
  Proof.
    intros ts n H Ht. destruct H as [t Ht0|t o c Hae Ht0 Ho Hc|t o ts ns c Ht0 Ho Ha Hc|t o ts n c Ht0 Ho Hn Hc].
    - apply Good_terminal. cbn [tord] in Ht. apply Ht.
    - (* f() *)
      split; [discriminate|]. cbn [tord] in Ht. destruct Ht as ((Hwt & _) & Hto & (Hwo & _) & Hoc & (Hwc & _) & _).
      split.
      + apply sorted_tree_unfold. unfold mk_call. cbn [nrange nchildren map seq_sorted].
        repeat split; auto. psolve2.
      + unfold mk_call, within. cbn [lst_end]. psolve2.
    - (* f(args) *)
      change (t :: o :: ts ++ [c]) with ([t; o] ++ ts ++ [c]) in *.
      destruct (Args_good RE ts ns HRE Ha (tord_mid _ _ _ Ht)) as (N & S & SS & W).
      destruct (tord_bracket _ _ _ Ht ltac:(discriminate) N) as (Hp & Hts & (Hwc & _) & Hs1 & Hs2 & Hspan).
      cbn [tord lst_end] in Hp, Hs1. destruct Hp as ((Hwt & _) & Hto & (Hwo & _) & _).
      split; [discriminate|]. split.
      + apply sorted_tree_unfold. unfold mk_call. cbn [nrange nchildren]. split; [psolve2|]. split; [|exact SS].
        apply (enclosed_children ts); auto; psolve2.
      + unfold within. rewrite lst_end_bracket. cbn [app fst_start]. psolve2.
    - (* a[e] *)
      change (t :: o :: ts ++ [c]) with ([t; o] ++ ts ++ [c]) in *.
      destruct (HRE _ _ Hn (tord_mid _ _ _ Ht)) as (N & S & W1 & W2).
      destruct (tord_bracket _ _ _ Ht ltac:(discriminate) N) as (Hp & Hts & (Hwc & _) & Hs1 & Hs2 & Hspan).
      cbn [tord lst_end] in Hp, Hs1. destruct Hp as ((Hwt & _) & Hto & (Hwo & Hwo2) & _).
      specialize (Hwo2 ltac:(rewrite Ho; apply nonlit; reflexivity)).
      pose proof (sorted_wf _ S) as Rn.
      split; [discriminate|]. split.
      + apply sorted_tree_unfold. unfold mk_idx. cbn [nrange nchildren map seq_sorted]. split; [psolve2|]. split.
        * constructor; [split|constructor; [split; [exact S|]|constructor]].
          -- apply sorted_tree_unfold. cbn. repeat split; auto.
          -- psolve2.
          -- psolve2.
        * split; [constructor; [psolve2|constructor]|split; [constructor|exact I]].
      + unfold within. rewrite lst_end_bracket. cbn [app fst_start]. psolve2.
  Qed.

  Lemma Dots_good : GoodRel (Dots RE ae).
  Proof.
    apply Exp_good; [apply DotItem_good|].
    intros j ty H. destruct j as [|[|j]]; simpl in H; try tauto. destruct H as [<-|[]]. apply nonlit. reflexivity.
  Qed.

  Lemma Prim_good : GoodRel (Prim RE RP ae).
  Proof.
    intros ts n H Ht.
    destruct H as [o ts n c Ho Hn Hc|op ts n Hop Hn|ts n op Hd Hop|ts n Hd|t Ht0|o c Hae Ho Hc|o ts ns c Ho Ha Hc].
    - (* ( e ): the tree of e, inside a wider span *)
      change (o :: ts ++ [c]) with ([o] ++ ts ++ [c]) in *.
      destruct (HRE _ _ Hn (tord_mid _ _ _ Ht)) as (N & S & W1 & W2).
      destruct (tord_bracket _ _ _ Ht ltac:(discriminate) N) as (Hp & Hts & (Hwc & _) & Hs1 & Hs2 & Hspan).
      cbn [tord lst_end] in Hp, Hs1. destruct Hp as ((Hwo & _) & _).
      split; [discriminate|]. split; [exact S|]. unfold within. rewrite lst_end_bracket. cbn [app fst_start]. psolve2.
    - (* prefix operator *)
      apply tord_cons in Ht as ((Hw1 & _) & Ht & Hots). destruct (HRP _ _ Hn Ht) as (N & S & W1 & W2).
      specialize (Hots N). pose proof (sorted_wf _ S) as Rn.
      split; [discriminate|]. split.
      + apply sorted_tree_unfold. unfold mk_unary_pre. cbn [nrange nchildren map seq_sorted].
        split; [psolve2|]. split; [|split; [constructor|exact I]]. constructor; [split; [exact S|psolve2]|constructor].
      + unfold within. rewrite lst_end_cons by exact N. psolve2.
    - (* postfix operator *)
      apply tord_app in Ht as (Hts & Hop' & Hsep). destruct (Dots_good _ _ Hd Hts) as (N & S & W1 & W2).
      specialize (Hsep N ltac:(discriminate)). cbn [tord] in Hop'. destruct Hop' as ((Hwop & _) & _ & _).
      pose proof (sorted_wf _ S) as Rn.
      split; [destruct ts; discriminate|]. split.
      + apply sorted_tree_unfold. unfold mk_unary_post. cbn [nrange nchildren map seq_sorted].
        split; [psolve2|]. split; [|split; [constructor|exact I]]. constructor; [split; [exact S|psolve2]|constructor].
      + unfold within. rewrite lst_end_app by discriminate. rewrite fst_start_app by exact N. cbn [lst_end]. psolve2.
    - apply Dots_good; assumption.
    - apply Good_terminal. cbn [tord] in Ht. apply Ht.
    - (* [] *)
      split; [discriminate|]. cbn [tord] in Ht. destruct Ht as ((Hwo & _) & Hoc & (Hwc & _) & _).
      split.
      + apply sorted_tree_unfold. unfold mk_set. cbn [nrange nchildren map seq_sorted]. repeat split; auto. psolve2.
      + unfold mk_set, within. cbn [lst_end]. psolve2.
    - (* [ items ] *)
      change (o :: ts ++ [c]) with ([o] ++ ts ++ [c]) in *.
      destruct (Args_good RP ts ns HRP Ha (tord_mid _ _ _ Ht)) as (N & S & SS & W).
      destruct (tord_bracket _ _ _ Ht ltac:(discriminate) N) as (Hp & Hts & (Hwc & _) & Hs1 & Hs2 & Hspan).
      cbn [tord lst_end] in Hp, Hs1. destruct Hp as ((Hwo & _) & _).
      split; [discriminate|]. split.
      + apply sorted_tree_unfold. unfold mk_set. cbn [nrange nchildren]. split; [psolve2|]. split; [|exact SS].
        apply (enclosed_children ts); auto; psolve2.
      + unfold within. rewrite lst_end_bracket. cbn [app fst_start]. psolve2.
  Qed.
End LevelGood.

Lemma ladder_nonlit j ty : In ty (nth j ladder []) -> ~ In ty literal_types.
Proof.
  intros H X. apply In_nth_concat in H. apply (disj_b_spec (concat ladder) literal_types ty eq_refl H X).
Qed.

(* ---------- the knot ---------- *)

Theorem gram_good f : GoodRel (GExpr f) /\ GoodRel (GPrim f).
Proof.
  induction f as [|f [IHe IHp]]; [split; intros ts n []|].
  assert (GoodRel (GPrim (S f))) as Hp by (rewrite GPrim_S; apply Prim_good; assumption).
  split; [|exact Hp]. rewrite GExpr_S. rewrite <- GPrim_S. apply Exp_good; [exact Hp|apply ladder_nonlit].
Qed.

Lemma GExprK_good f k : GoodRel (GExprK f k).
Proof. apply Exp_good; [apply gram_good|apply ladder_nonlit]. Qed.

Lemma GDots_good f : GoodRel (GDots f).
Proof. destruct f as [|f]; [intros ts n []|]. apply Dots_good. apply gram_good. Qed.

(* every node of a derived expression tree encloses its children *)
Theorem range_encloses f ts n : GExpr f ts n -> tord ts ->
  forall m c, subnode m n -> In c (nchildren m) -> encloses (nrange m) (nrange c).
Proof.
  intros H Ht m c Hm Hc. destruct (gram_good f) as [He _]. destruct (He _ _ H Ht) as (_ & S & _).
  eapply sorted_encloses; eauto.
Qed.

(* the innermost node at any position of a terminal's token is that terminal *)
Theorem innermost_is_ident f ts n : GExpr f ts n -> tord ts ->
  forall t, subnode (mk_terminal t) n -> forall p, contains (trange t) p = true ->
  search p n = mk_terminal t.
Proof.
  intros H Ht t Hsub p Hp. destruct (gram_good f) as [He _]. destruct (He _ _ H Ht) as (_ & S & _).
  rewrite (search_sub p n (mk_terminal t) S Hsub Hp). apply search_leaf. reflexivity.
Qed.

(* and the whole tree lies within the span of its tokens *)
Theorem expr_within_span f ts n : GExpr f ts n -> tord ts -> range_wf (nrange n) /\ within ts n.
Proof.
  intros H Ht. destruct (gram_good f) as [He _]. destruct (He _ _ H Ht) as (_ & S & W).
  split; [apply sorted_wf; exact S|exact W].
Qed.
