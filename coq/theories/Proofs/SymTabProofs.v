(* C18: the symbol-table model refines nested case-insensitive maps. *)
From GoldV Require Import Base SymTab.
From Coq Require Import Permutation.

(* ---------- specification: a scope is a case-insensitive map, a chain is first-hit ---------- *)

Definition ci_match (id : str) (x : sym) : bool := ci_eqb (sid x) id.

(* most recent insertion of the name in the scope *)
Definition spec_find (s : scope) (id : str) : option sym := find (ci_match id) (rev (syms s)).

Fixpoint spec_get (c : chain) (id : str) : option sym :=
  match c with
  | [] => None
  | s :: ps => match spec_find s id with Some x => Some x | None => spec_get ps id end
  end.

Fixpoint spec_search_all (c : chain) (id : str) : list (str * sym) :=
  match c with
  | [] => []
  | s :: ps => (match spec_find s id with Some x => [(cls s, x)] | None => [] end)
               ++ spec_search_all ps id
  end.

(* merged listing: per scope (nearest first) the live binding of every name of that scope, in
   insertion order, minus the names already bound in a nearer scope *)
Fixpoint live_spec (l : list sym) : list sym :=
  match l with
  | [] => []
  | x :: l' => (if existsb (ci_match (sid x)) l' then [] else [x]) ++ live_spec l'
  end.

Definition bound_in (s : scope) (id : str) : bool := existsb (ci_match id) (syms s).

Fixpoint merged (c : chain) : list sym :=
  match c with
  | [] => []
  | s :: ps => live_spec (syms s) ++ filter (fun x => negb (bound_in s (sid x))) (merged ps)
  end.

(* ---------- the representation invariant of one scope ---------- *)

Fixpoint last_idx_from (i : nat) (l : list sym) (id : str) : option nat :=
  match l with
  | [] => None
  | x :: l' => match last_idx_from (S i) l' id with
               | Some j => Some j
               | None => if ci_match id x then Some i else None
               end
  end.

Definition Inv (s : scope) : Prop :=
  forall id, alookup (upper id) (idx s) = last_idx_from 0 (syms s) id.

Lemma ci_match_upper id x : ci_match (upper id) x = ci_match id x.
Proof. unfold ci_match, ci_eqb. rewrite upper_idem. reflexivity. Qed.

Lemma ci_eqb_sym a b : ci_eqb a b = ci_eqb b a.
Proof.
  unfold ci_eqb. destruct (str_eqb (upper a) (upper b)) eqn:E.
  - apply str_eqb_eq in E. rewrite E. symmetry. apply str_eqb_refl.
  - symmetry. apply str_eqb_neq. apply str_eqb_neq in E. congruence.
Qed.

Lemma ci_eqb_true a b : ci_eqb a b = true <-> upper a = upper b.
Proof. unfold ci_eqb. apply str_eqb_eq. Qed.

Lemma last_idx_from_app i l y id :
  last_idx_from i (l ++ [y]) id =
  if ci_match id y then Some (i + length l)%nat else last_idx_from i l id.
Proof.
  revert i. induction l as [|x l IH]; intro i; simpl.
  - rewrite Nat.add_0_r. destruct (ci_match id y); reflexivity.
  - rewrite IH. destruct (ci_match id y).
    + f_equal. lia.
    + reflexivity.
Qed.

Lemma last_idx_from_bound i l id j : last_idx_from i l id = Some j -> (i <= j < i + length l)%nat.
Proof.
  revert i. induction l as [|x l IH]; intro i; simpl; [discriminate|].
  destruct (last_idx_from (S i) l id) eqn:E.
  - intro H; inversion H; subst. apply IH in E. lia.
  - destruct (ci_match id x); [|discriminate]. intro H; inversion H; subst. lia.
Qed.

Lemma last_idx_from_shift i l id :
  last_idx_from (S i) l id = option_map S (last_idx_from i l id).
Proof.
  revert i. induction l as [|x l IH]; intro i; simpl; [reflexivity|].
  rewrite (IH (S i)). destruct (last_idx_from (S i) l id); simpl; [reflexivity|].
  destruct (ci_match id x); reflexivity.
Qed.

(* the element at the last matching index is what the spec finds *)
Lemma last_idx_find l id :
  match last_idx_from 0 l id with
  | Some j => nth_error l j
  | None => None
  end = find (ci_match id) (rev l).
Proof.
  induction l as [|y l IH] using rev_ind; [reflexivity|].
  rewrite last_idx_from_app, rev_app_distr. simpl.
  destruct (ci_match id y) eqn:E.
  - rewrite nth_error_app2 by lia. replace (length l - length l)%nat with 0%nat by lia. reflexivity.
  - rewrite <- IH. destruct (last_idx_from 0 l id) eqn:E2; [|reflexivity].
    apply last_idx_from_bound in E2. rewrite nth_error_app1 by lia. reflexivity.
Qed.

Lemma Inv_empty c : Inv (empty_scope c).
Proof. intro id. reflexivity. Qed.

Lemma Inv_insert s id t : Inv s -> Inv (insert_scope s id t).
Proof.
  intros H id2. unfold insert_scope; simpl.
  rewrite last_idx_from_app. unfold ci_match at 1; simpl.
  destruct (ci_eqb id id2) eqn:E.
  - apply ci_eqb_true in E. rewrite <- E. apply alookup_ainsert_same.
  - rewrite alookup_ainsert_other; [apply H|].
    intro E2. unfold ci_eqb in E. apply str_eqb_neq in E. congruence.
Qed.

Lemma scope_find_spec s id : Inv s -> scope_find s id = spec_find s id.
Proof.
  intro H. unfold scope_find, spec_find. rewrite H. apply last_idx_find.
Qed.

(* no-panic side condition of search_symbol_info*: the stored index is always in range *)
Lemma scope_index_in_range s id i :
  Inv s -> alookup (upper id) (idx s) = Some i -> (i < length (syms s))%nat.
Proof. intros H E. rewrite H in E. apply last_idx_from_bound in E. lia. Qed.

(* ---------- lookups refine the spec ---------- *)

Lemma get_refines c id : Forall Inv c -> get c id = spec_get c id.
Proof.
  induction 1 as [|s ps Hs _ IH]; simpl; [reflexivity|].
  rewrite (scope_find_spec s id Hs), IH. reflexivity.
Qed.

Lemma search_wparent_refines c id :
  Forall Inv c -> option_map snd (search_wparent c id) = spec_get c id.
Proof.
  induction 1 as [|s ps Hs _ IH]; simpl; [reflexivity|].
  rewrite (scope_find_spec s id Hs). destruct (spec_find s id); simpl; auto.
Qed.

Lemma search_wparent_owner c id k x :
  Forall Inv c -> search_wparent c id = Some (k, x) ->
  exists pre s post, c = pre ++ s :: post /\ cls s = k /\ spec_find s id = Some x /\
                     Forall (fun s' => spec_find s' id = None) pre.
Proof.
  induction 1 as [|s ps Hs Hps IH]; simpl; [discriminate|].
  rewrite (scope_find_spec s id Hs). destruct (spec_find s id) eqn:E.
  - intro H; inversion H; subst. exists [], s, ps. repeat split; auto.
  - intro H. destruct (IH H) as (pre & s' & post & -> & Hk & Hf & Hpre).
    exists (s :: pre), s', post. repeat split; auto.
Qed.

Lemma search_refines s ps id :
  Inv s -> search (s :: ps) id = option_map (pair (cls s)) (spec_find s id).
Proof. intro H. simpl. rewrite (scope_find_spec s id H). destruct (spec_find s id); reflexivity. Qed.

Lemma search_all_refines c id : Forall Inv c -> search_all c id = spec_search_all c id.
Proof.
  induction 1 as [|s ps Hs _ IH]; simpl; [reflexivity|].
  rewrite (scope_find_spec s id Hs), IH. reflexivity.
Qed.

Lemma exists_refines c id :
  Forall Inv c -> exists_id c id = match spec_get c id with Some _ => true | None => false end.
Proof. intro H. unfold exists_id. rewrite (get_refines c id H). reflexivity. Qed.

(* case-insensitivity of every lookup *)
Lemma find_ext' {A} (f g : A -> bool) l : (forall x, f x = g x) -> find f l = find g l.
Proof. intro H. induction l as [|x l IH]; simpl; [reflexivity|]. rewrite H, IH. reflexivity. Qed.

Lemma spec_find_ci s a b : upper a = upper b -> spec_find s a = spec_find s b.
Proof.
  intro E. unfold spec_find. apply find_ext'. intro x. unfold ci_match, ci_eqb. rewrite E. reflexivity.
Qed.

Lemma spec_get_ci c a b : upper a = upper b -> spec_get c a = spec_get c b.
Proof.
  intro E. induction c as [|s ps IH]; simpl; [reflexivity|].
  rewrite (spec_find_ci s a b E), IH. reflexivity.
Qed.

Lemma existsb_ext' {A} (f g : A -> bool) l : (forall x, f x = g x) -> existsb f l = existsb g l.
Proof. intro H. induction l as [|x l IH]; simpl; [reflexivity|]. rewrite H, IH. reflexivity. Qed.

Lemma find_app_none {A} (f : A -> bool) l1 l2 :
  (forall z, In z l1 -> f z = false) -> find f (l1 ++ l2) = find f l2.
Proof.
  induction l1 as [|y l1 IH]; simpl; intro H; [reflexivity|].
  rewrite (H y) by auto. apply IH. auto.
Qed.

Lemma find_app_some {A} (f : A -> bool) l1 l2 x :
  find f l1 = Some x -> find f (l1 ++ l2) = Some x.
Proof.
  induction l1 as [|y l1 IH]; simpl; [discriminate|].
  destruct (f y); auto.
Qed.

(* the spec finds a symbol of that name, the latest one *)
Lemma spec_find_some s id x :
  spec_find s id = Some x ->
  ci_eqb (sid x) id = true /\
  exists l1 l2, syms s = l1 ++ x :: l2 /\ Forall (fun y => ci_match id y = false) l2.
Proof.
  unfold spec_find. generalize (syms s) as l. intro l.
  induction l as [|y l IH] using rev_ind; simpl; [discriminate|].
  rewrite rev_app_distr. simpl. destruct (ci_match id y) eqn:E.
  - intro H; inversion H; subst. split; [exact E|]. exists l, []. split; [reflexivity|constructor].
  - intro H. destruct (IH H) as (Hm & l1 & l2 & -> & Hall). split; [exact Hm|].
    exists l1, (l2 ++ [y]). split; [rewrite <- app_assoc; reflexivity|].
    apply Forall_app. split; [exact Hall|]. constructor; [exact E|constructor].
Qed.

Lemma spec_find_none s id :
  spec_find s id = None <-> bound_in s id = false.
Proof.
  unfold spec_find, bound_in. split; intro H.
  - destruct (existsb (ci_match id) (syms s)) eqn:E; [|reflexivity].
    apply existsb_exists in E as (x & Hin & Hm).
    apply in_rev in Hin. eapply find_none in H; [|exact Hin]. congruence.
  - destruct (find (ci_match id) (rev (syms s))) eqn:E; [|reflexivity].
    apply find_some in E as [Hin Hm]. apply in_rev in Hin.
    assert (existsb (ci_match id) (syms s) = true) by (apply existsb_exists; eauto). congruence.
Qed.

(* ---------- iteration ---------- *)

(* the symbols inserted into scope j by an operation sequence, in order, tags counting ops *)
Fixpoint inserted (j : nat) (t : N) (ops : list op) : list sym :=
  match ops with
  | [] => []
  | Insert j' id :: ops' => (if Nat.eqb j' j then [mkSym id t] else []) ++ inserted j (t + 1) ops'
  | _ :: ops' => inserted j (t + 1) ops'
  end.

Definition stepf (st : chain * N) (o : op) : chain * N := fst (step st o).

Lemma stepf_tag st o : snd (stepf st o) = snd st + 1.
Proof. destruct st as [c t]. destruct o; reflexivity. Qed.

Lemma update_nth_length {A} n (f : A -> A) l : length (update_nth n f l) = length l.
Proof. revert n; induction l as [|x l IH]; intros [|n]; simpl; auto. Qed.

Lemma nth_error_update_nth {A} n m (f : A -> A) l :
  nth_error (update_nth n f l) m =
  if Nat.eqb n m then option_map f (nth_error l m) else nth_error l m.
Proof.
  revert n m; induction l as [|x l IH]; intros n m.
  - destruct n, m; simpl; try reflexivity. destruct (Nat.eqb n m); reflexivity.
  - destruct n as [|n], m as [|m]; simpl; try reflexivity. apply IH.
Qed.

Lemma Forall_update_nth {A} (P : A -> Prop) n f l :
  Forall P l -> (forall x, P x -> P (f x)) -> Forall P (update_nth n f l).
Proof.
  intros H Hf. revert n. induction H as [|x l Hx Hl IH]; intros [|n]; simpl;
    try constructor; auto.
Qed.

Lemma stepf_inv st o : Forall Inv (fst st) -> Forall Inv (fst (stepf st o)).
Proof.
  destruct st as [c t]. destruct o; simpl; auto.
  intro H. apply Forall_update_nth; [exact H|]. intros s Hs. apply Inv_insert. exact Hs.
Qed.

Lemma fresh_inv i n : Forall Inv (fresh_chain_from i n).
Proof. revert i; induction n as [|n IH]; intro i; simpl; constructor; [apply Inv_empty|apply IH]. Qed.

Lemma fold_stepf_inv ops st :
  Forall Inv (fst st) -> Forall Inv (fst (fold_left stepf ops st)).
Proof.
  revert st; induction ops as [|o ops IH]; intros st H; simpl; [exact H|].
  apply IH. apply stepf_inv. exact H.
Qed.

(* every reachable chain satisfies the invariant *)
Theorem reachable_inv n ops : Forall Inv (final_chain n ops).
Proof. unfold final_chain. apply (fold_stepf_inv ops (fresh_chain_from 0 n, 0)). apply fresh_inv. Qed.

Definition syms_at (c : chain) (j : nat) : list sym :=
  match nth_error c j with Some s => syms s | None => [] end.

Lemma stepf_syms st o j :
  (j < length (fst st))%nat ->
  syms_at (fst (stepf st o)) j = syms_at (fst st) j ++ inserted j (snd st) [o].
Proof.
  destruct st as [c t]. intro Hj. simpl in Hj.
  destruct o; simpl; rewrite ?app_nil_r; auto.
  unfold syms_at. rewrite nth_error_update_nth.
  destruct (Nat.eqb j0 j) eqn:E.
  - destruct (nth_error c j) eqn:E2; simpl; [reflexivity|].
    apply nth_error_None in E2. lia.
  - rewrite app_nil_r. reflexivity.
Qed.

Lemma stepf_length st o : length (fst (stepf st o)) = length (fst st).
Proof. destruct st as [c t]. destruct o; simpl; auto. apply update_nth_length. Qed.

Lemma inserted_cons j t o ops : inserted j t (o :: ops) = inserted j t [o] ++ inserted j (t + 1) ops.
Proof. destruct o; simpl; rewrite ?app_nil_r; auto. Qed.

Lemma fold_stepf_syms ops st j :
  (j < length (fst st))%nat ->
  syms_at (fst (fold_left stepf ops st)) j = syms_at (fst st) j ++ inserted j (snd st) ops.
Proof.
  revert st; induction ops as [|o ops IH]; intros st Hj; simpl fold_left.
  - simpl. rewrite app_nil_r. reflexivity.
  - rewrite IH by (rewrite stepf_length; exact Hj).
    rewrite stepf_syms by exact Hj. rewrite stepf_tag, <- app_assoc.
    rewrite (inserted_cons j (snd st) o ops). reflexivity.
Qed.

Lemma fresh_length i n : length (fresh_chain_from i n) = n.
Proof. revert i; induction n; intro i; simpl; auto. Qed.

Lemma fresh_syms i n j : syms_at (fresh_chain_from i n) j = [].
Proof.
  revert i j; induction n as [|n IH]; intros i [|j]; unfold syms_at; simpl; auto.
  apply IH.
Qed.

(* iteration over scope j yields exactly its insertions, in insertion order *)
Lemma iter_skipn_syms_at c j : iter (skipn j c) = syms_at c j.
Proof.
  revert j; induction c as [|s c IH]; intros [|j]; unfold syms_at in *; simpl; auto.
Qed.

Theorem iter_insertion_order n ops j :
  (j < n)%nat -> iter (skipn j (final_chain n ops)) = inserted j 0 ops.
Proof.
  intro Hj. unfold final_chain. rewrite iter_skipn_syms_at.
  pose proof (fold_stepf_syms ops (fresh_chain_from 0 n, 0) j) as H.
  simpl fst in H; simpl snd in H. rewrite fresh_length, fresh_syms in H. simpl in H.
  apply H. exact Hj.
Qed.

(* ---------- merged listing ---------- *)

Lemma last_idx_none k l id : last_idx_from k l id = None <-> existsb (ci_match id) l = false.
Proof.
  revert k; induction l as [|y l IH]; intro k; simpl; [tauto|].
  destruct (last_idx_from (S k) l id) eqn:E.
  - split; [discriminate|]. intro H. apply orb_false_iff in H as [_ H].
    apply (IH (S k)) in H. congruence.
  - apply (IH (S k)) in E. rewrite E, orb_false_r.
    destruct (ci_match id y); split; auto; discriminate.
Qed.

Lemma last_idx_mid k pre x l :
  last_idx_from k (pre ++ x :: l) (sid x) =
  match last_idx_from (k + length pre + 1) l (sid x) with
  | Some j => Some j | None => Some (k + length pre)%nat end.
Proof.
  revert k. induction pre as [|p pre IHp]; intro k; simpl.
  - replace (k + 0 + 1)%nat with (S k) by lia. replace (k + 0)%nat with k by lia.
    destruct (last_idx_from (S k) l (sid x)); [reflexivity|].
    unfold ci_match, ci_eqb. rewrite str_eqb_refl. reflexivity.
  - rewrite IHp. replace (S k + length pre + 1)%nat with (k + S (length pre) + 1)%nat by lia.
    destruct (last_idx_from (k + S (length pre) + 1) l (sid x)); [reflexivity|].
    f_equal. lia.
Qed.

Lemma live_from_spec s i l pre :
  Inv s -> syms s = pre ++ l -> length pre = i -> live_from s i l = live_spec l.
Proof.
  intros HI. revert i pre. induction l as [|x l IH]; intros i pre Hs Hlen; simpl; [reflexivity|].
  rewrite (IH (S i) (pre ++ [x])); [|rewrite <- app_assoc; exact Hs|rewrite app_length; simpl; lia].
  f_equal. rewrite HI, Hs, last_idx_mid. simpl. rewrite Hlen.
  destruct (last_idx_from (i + 1) l (sid x)) eqn:E.
  - apply last_idx_from_bound in E as Hb.
    replace (Nat.eqb n i) with false by (symmetry; apply Nat.eqb_neq; lia).
    destruct (existsb (ci_match (sid x)) l) eqn:E2; [reflexivity|].
    apply (last_idx_none (i + 1)) in E2. congruence.
  - rewrite Nat.eqb_refl. apply last_idx_none in E. rewrite E. reflexivity.
Qed.

Lemma live_spec_eq s : Inv s -> live s = live_spec (syms s).
Proof. intro H. unfold live. apply (live_from_spec s 0 (syms s) []); auto. Qed.

Lemma live_spec_in l x : In x (live_spec l) -> In x l.
Proof.
  induction l as [|y l IH]; simpl; [auto|].
  intro H. apply in_app_or in H as [H|H].
  - destruct (existsb (ci_match (sid y)) l); [destruct H|]. destruct H as [H|[]]. auto.
  - auto.
Qed.

(* every name bound in l has a representative in live_spec l *)
Lemma live_spec_covers l id :
  existsb (ci_match id) l = existsb (ci_match id) (live_spec l).
Proof.
  induction l as [|y l IH]; simpl; [reflexivity|].
  rewrite existsb_app. rewrite <- IH.
  destruct (existsb (ci_match (sid y)) l) eqn:E; simpl.
  - destruct (ci_match id y) eqn:E2; simpl; [|reflexivity].
    (* y matches id and some later z matches y, hence z matches id *)
    symmetry. apply existsb_exists in E as (z & Hz & Hm).
    apply existsb_exists. exists z. split; [exact Hz|].
    unfold ci_match in *. apply ci_eqb_true in E2. apply ci_eqb_true in Hm. apply ci_eqb_true. congruence.
  - rewrite orb_false_r. reflexivity.
Qed.

Lemma seen_in_bound s x : Inv s -> seen_in (live s) x = bound_in s (sid x).
Proof.
  intro H. unfold seen_in, bound_in. rewrite (live_spec_eq s H).
  rewrite (live_spec_covers (syms s) (sid x)). reflexivity.
Qed.

(* the merged listing computed by the code is the specified one *)
Theorem collect_merged c : Forall Inv c -> collect c = merged c.
Proof.
  induction 1 as [|s ps Hs _ IH]; simpl; [reflexivity|].
  rewrite (live_spec_eq s Hs), IH. f_equal.
  apply filter_ext. intro x. rewrite <- (live_spec_eq s Hs), (seen_in_bound s x Hs). reflexivity.
Qed.

(* each name once *)
Definition key (x : sym) : str := upper (sid x).

Lemma live_spec_nodup l : NoDup (map key (live_spec l)).
Proof.
  induction l as [|y l IH]; simpl; [constructor|].
  destruct (existsb (ci_match (sid y)) l) eqn:E; simpl; [exact IH|].
  constructor; [|exact IH].
  intro Hin. apply in_map_iff in Hin as (z & Hk & Hz). apply live_spec_in in Hz.
  assert (existsb (ci_match (sid y)) l = true); [|congruence].
  apply existsb_exists. exists z. split; [exact Hz|]. apply ci_eqb_true. exact Hk.
Qed.

Lemma NoDup_map_filter {A B} (f : A -> B) p l : NoDup (map f l) -> NoDup (map f (filter p l)).
Proof.
  induction l as [|x l IH]; simpl; [auto|]. intro H. inversion H; subst.
  destruct (p x); simpl; [constructor|]; auto.
  intro Hin. apply in_map_iff in Hin as (z & Hz & Hin). apply filter_In in Hin as [Hin _].
  apply H2. apply in_map_iff. eauto.
Qed.

Lemma NoDup_app_intro {A} (l1 l2 : list A) :
  NoDup l1 -> NoDup l2 -> (forall x, In x l1 -> ~ In x l2) -> NoDup (l1 ++ l2).
Proof.
  induction l1 as [|x l1 IH]; simpl; intros H1 H2 Hd; [exact H2|].
  inversion H1; subst. constructor.
  - intro Hin. apply in_app_or in Hin as [Hin|Hin]; [contradiction|]. apply (Hd x); auto.
  - apply IH; auto.
Qed.

Theorem merged_each_name_once c : NoDup (map key (merged c)).
Proof.
  induction c as [|s ps IH]; simpl; [constructor|].
  rewrite map_app. apply NoDup_app_intro.
  - apply live_spec_nodup.
  - apply NoDup_map_filter. exact IH.
  - intros k H1 H2.
    apply in_map_iff in H1 as (z1 & Hk1 & Hz1). apply live_spec_in in Hz1.
    apply in_map_iff in H2 as (z2 & Hk2 & Hz2). apply filter_In in Hz2 as [_ Hb].
    apply negb_true_iff in Hb.
    assert (bound_in s (sid z2) = true); [|congruence].
    apply existsb_exists. exists z1. split; [exact Hz1|]. apply ci_eqb_true.
    unfold key in *. congruence.
Qed.

Lemma live_spec_find s x : In x (live_spec (syms s)) -> spec_find s (sid x) = Some x.
Proof.
  unfold spec_find. generalize (syms s) as l. intro l.
  induction l as [|y l IH]; simpl; [tauto|].
  intro H. apply in_app_or in H as [H|H].
  - destruct (existsb (ci_match (sid y)) l) eqn:E; [destruct H|]. destruct H as [->|[]].
    rewrite find_app_none.
    + simpl. unfold ci_match, ci_eqb. rewrite str_eqb_refl. reflexivity.
    + intros z Hz. apply in_rev in Hz.
      destruct (ci_match (sid x) z) eqn:E2; [|reflexivity].
      assert (existsb (ci_match (sid x)) l = true) by (apply existsb_exists; eauto). congruence.
  - erewrite find_app_some; [reflexivity|]. apply IH. exact H.
Qed.

(* the entry listed for a name is the one lookup returns: the nearest declaration wins *)
Theorem merged_nearest c x : In x (merged c) -> spec_get c (sid x) = Some x.
Proof.
  induction c as [|s ps IH]; simpl; [tauto|].
  intro H. apply in_app_or in H as [H|H].
  - rewrite (live_spec_find s x H). reflexivity.
  - apply filter_In in H as [Hin Hb]. apply negb_true_iff in Hb.
    apply spec_find_none in Hb. rewrite Hb. apply IH. exact Hin.
Qed.

(* every visible name is listed *)
Theorem merged_complete c id x :
  spec_get c id = Some x -> In x (merged c).
Proof.
  induction c as [|s ps IH]; simpl; [discriminate|].
  destruct (spec_find s id) eqn:E.
  - intro H; inversion H; subst. apply in_or_app. left.
    apply spec_find_some in E as (Hm & l1 & l2 & Hs & Hall).
    rewrite Hs. clear Hs. induction l1 as [|y l1 IHl]; simpl.
    + replace (existsb (ci_match (sid x)) l2) with false; [left; reflexivity|].
      symmetry. apply not_true_iff_false. intro Hex. apply existsb_exists in Hex as (z & Hz & Hmz).
      rewrite Forall_forall in Hall. specialize (Hall z Hz).
      unfold ci_match in *. apply ci_eqb_true in Hm. apply ci_eqb_true in Hmz.
      assert (ci_eqb (sid z) id = true) by (apply ci_eqb_true; congruence). congruence.
    + apply in_or_app. right. exact IHl.
  - intro H. apply in_or_app. right. apply filter_In. split; [apply IH; exact H|].
    apply negb_true_iff.
    (* x's name is ci-equal to id, which is unbound in s *)
    assert (Hx : exists s', In s' ps /\ spec_find s' id = Some x).
    { clear -H. induction ps as [|s' ps IHp]; simpl in H; [discriminate|].
      destruct (spec_find s' id) eqn:E'.
      - inversion H; subst. exists s'. split; [left; reflexivity|exact E'].
      - destruct (IHp H) as (s'' & Hin & Hf). exists s''. split; [right; exact Hin|exact Hf]. }
    destruct Hx as (s' & _ & Hf). apply spec_find_some in Hf as [Hm _].
    apply spec_find_none in E. unfold bound_in in *.
    rewrite <- E. apply existsb_ext'. intro y. unfold ci_match.
    apply ci_eqb_true in Hm. unfold ci_eqb. rewrite Hm. reflexivity.
Qed.

(* order: the listing is the concatenation, nearest scope first, of a sub-list (insertion order
   preserved) of each scope's symbols *)
Inductive sublist {A} : list A -> list A -> Prop :=
| sub_nil : sublist [] []
| sub_skip x l1 l2 : sublist l1 l2 -> sublist l1 (x :: l2)
| sub_keep x l1 l2 : sublist l1 l2 -> sublist (x :: l1) (x :: l2).

Lemma sublist_filter {A} (p : A -> bool) l : sublist (filter p l) l.
Proof.
  induction l as [|x l IH]; simpl; [constructor|].
  destruct (p x); [apply sub_keep|apply sub_skip]; exact IH.
Qed.

Lemma sublist_trans {A} (l1 l2 l3 : list A) : sublist l1 l2 -> sublist l2 l3 -> sublist l1 l3.
Proof.
  intros H12 H23. revert l1 H12. induction H23; intros l0 H12.
  - exact H12.
  - constructor. apply IHsublist. exact H12.
  - inversion H12; subst; [apply sub_skip; auto|apply sub_keep; auto].
Qed.

Lemma live_spec_sublist l : sublist (live_spec l) l.
Proof.
  induction l as [|x l IH]; simpl; [constructor|].
  destruct (existsb (ci_match (sid x)) l); simpl; [apply sub_skip|apply sub_keep]; exact IH.
Qed.

Theorem merged_order c :
  exists parts, merged c = concat parts /\ Forall2 (fun p s => sublist p (syms s)) parts c.
Proof.
  induction c as [|s ps (parts & Hm & Hf)]; simpl.
  - exists []. split; [reflexivity|constructor].
  - exists (live_spec (syms s) :: map (filter (fun x => negb (bound_in s (sid x)))) parts).
    split.
    + simpl. f_equal. rewrite Hm. clear. induction parts as [|p parts IH]; simpl; [reflexivity|].
      rewrite filter_app, IH. reflexivity.
    + constructor; [apply live_spec_sublist|].
      clear Hm. induction Hf; simpl; constructor; auto.
      eapply sublist_trans; [apply sublist_filter|eassumption].
Qed.

(* ---------- the behaviour before the fix (known finding D8) ---------- *)

(* witness 1: a name inserted twice in one scope is listed twice *)
Definition w_reinsert : list op := [Insert 0 [97]; Insert 0 [97]].
(* witness 2: parent declares Foo, child declares foo: both listed *)
Definition w_case : list op := [Insert 1 [70; 111; 111]; Insert 0 [102; 111; 111]].

Lemma collect_old_refuted_reinsert :
  map key (collect_old (final_chain 1 w_reinsert)) = [[65]; [65]].
Proof. vm_compute. reflexivity. Qed.

Lemma collect_old_refuted_case :
  map key (collect_old (final_chain 2 w_case)) = [[70; 79; 79]; [70; 79; 79]].
Proof. vm_compute. reflexivity. Qed.

(* ---------- reachable (sub-)chains ---------- *)
Definition reachable (c : chain) : Prop := exists n ops j, c = skipn j (final_chain n ops).

Lemma Forall_skipn {A} (P : A -> Prop) j l : Forall P l -> Forall P (skipn j l).
Proof. revert j; induction l as [|x l IH]; intros [|j] H; simpl; auto. inversion H; auto. Qed.

Lemma reachable_Inv c : reachable c -> Forall Inv c.
Proof. intros (n & ops & j & ->). apply Forall_skipn. apply reachable_inv. Qed.

Lemma lookup_ci c a b : Forall Inv c -> upper a = upper b -> get c a = get c b.
Proof. intros H E. rewrite !get_refines by exact H. apply spec_get_ci. exact E. Qed.
