(* A syntactic class of method headers that satisfy [is_header]:
     proc|func  Name[#Event]  [ "(" ")" ]  [return Type]  {private|protected|final|override}
   (no comments inside the header, parameter list absent or empty).  For these the header parsers
   consume exactly the header and return the same result whatever follows, provided the first
   non-comment token that follows does not extend the header (guard [extends_header]).
   Richer parameter lists satisfy [is_header] as well (the correspondence check generates them);
   proving it for them needs the look-ahead analysis of the type grammar and is not done here. *)
From GoldV Require Import Base Tokens Lexer AstKinds Tree Strings PComb Grammar ParserWF GrammarWF LocalitySpan.
From Coq Require Import Lia.

Definition next_is_not (ty : ttype) (y : list tok) : bool :=
  match first_sig y with Some t => negb (tt_eqb (tty t) ty) | None => true end.

Definition miss_msg (y : list tok) : str :=
  match first_sig y with Some t => msg_unexpected (tty t) | None => msg_eof end.

Lemma is_comment_ty t : is_comment t = true -> tty t = TComment.
Proof. unfold is_comment. apply tt_eqb_eq. Qed.

Lemma not_comment_of_ty t ty : tty t = ty -> tt_eqb ty TComment = false -> is_comment t = false.
Proof. intros H1 H2. unfold is_comment. rewrite H1. exact H2. Qed.

Lemma tt_eqb_refl ty : tt_eqb ty ty = true.
Proof. apply tt_eqb_eq. reflexivity. Qed.

Lemma tt_eqb_sym a b : tt_eqb a b = tt_eqb b a.
Proof. unfold tt_eqb. apply N.eqb_sym. Qed.

Lemma exp_token_go_miss ty orig y :
  tt_eqb TComment ty = false -> next_is_not ty y = true -> exp_token_go ty orig y = Err orig (miss_msg y).
Proof.
  intros Hc. unfold next_is_not, miss_msg. induction y as [|t y IH]; simpl; [reflexivity|].
  destruct (is_comment t) eqn:Ec.
  - apply is_comment_ty in Ec. rewrite Ec, Hc. exact IH.
  - intro H. apply negb_true_iff in H. rewrite H. reflexivity.
Qed.

Lemma exp_token_miss_next ty y c :
  tt_eqb TComment ty = false -> next_is_not ty y = true -> exp_token ty y c = (Err y (miss_msg y), c).
Proof. intros. unfold exp_token. rewrite exp_token_go_miss; auto. Qed.

Lemma exp_token_hit ty t l c : tty t = ty -> exp_token ty (t :: l) c = (Ok l t, c).
Proof. intro H. unfold exp_token. cbn [exp_token_go]. rewrite H, tt_eqb_refl. reflexivity. Qed.

Lemma next_is_not_cons ty t l : is_comment t = false -> next_is_not ty (t :: l) = negb (tt_eqb (tty t) ty).
Proof. intro H. unfold next_is_not. simpl. rewrite H. reflexivity. Qed.

(* ---------- alternatives ---------- *)

Lemma alt_go_all_fail {A} (ps : list (P A)) i c :
  Forall (fun p => exists m, p i c = (Err i m, c)) ps ->
  forall best, match best with Some (e, _) => e = i | None => ps <> [] end ->
  exists m, alt_go ps best i c = (Err i m, c).
Proof.
  induction 1 as [|p ps [m Hp] Hps IH]; intros best Hb; cbn [alt_go].
  - destruct best as [[e bm]|]; simpl in Hb. + subst; eauto. + exfalso; apply Hb; reflexivity.
  - rewrite Hp. apply IH. destruct best as [[be bm]|]; [|reflexivity].
    subst be. rewrite N.ltb_irrefl. reflexivity.
Qed.

Lemma alt_all_fail {A} (ps : list (P A)) i c :
  ps <> [] -> Forall (fun p => exists m, p i c = (Err i m, c)) ps -> exists m, alt ps i c = (Err i m, c).
Proof. intros Hne H. unfold alt. apply alt_go_all_fail; auto. Qed.

Lemma tok_alt_miss tys y c :
  tys <> [] -> forallb (fun ty => negb (tt_eqb TComment ty) && next_is_not ty y) tys = true ->
  exists m, tok_alt tys y c = (Err y m, c).
Proof.
  intros Hne H. unfold tok_alt. apply alt_all_fail; [destruct tys; [congruence|discriminate]|].
  clear Hne. induction tys as [|ty tys IH]; simpl; constructor.
  - simpl in H. apply andb_true_iff in H as [H _]. apply andb_true_iff in H as [H1 H2].
    apply negb_true_iff in H1. exists (miss_msg y). apply exp_token_miss_next; assumption.
  - apply IH. simpl in H. apply andb_true_iff in H as [_ H]. exact H.
Qed.

Lemma tok_alt_hit_go tys t l c : existsb (tt_eqb (tty t)) tys = true -> is_comment t = false ->
  forall best, alt_go (map exp_token tys) best (t :: l) c = (Ok l t, c).
Proof.
  intros H Hc. induction tys as [|ty tys IH]; intro best; simpl in *; [discriminate|].
  unfold exp_token at 1. cbn [exp_token_go]. destruct (tt_eqb (tty t) ty) eqn:E; [reflexivity|].
  rewrite Hc. simpl in H. apply IH. exact H.
Qed.

Lemma tok_alt_hit tys t l c : existsb (tt_eqb (tty t)) tys = true -> is_comment t = false ->
  tok_alt tys (t :: l) c = (Ok l t, c).
Proof. intros. unfold tok_alt, alt. apply tok_alt_hit_go; assumption. Qed.

(* ---------- the guard ---------- *)

Lemma guard_next ty x : existsb (tt_eqb ty) header_ext_types = true -> extends_header x = false ->
  next_is_not ty x = true.
Proof.
  unfold extends_header, next_is_not. destruct (first_sig x) as [t|]; [|reflexivity].
  intros Hty Hx. apply negb_true_iff. destruct (tt_eqb (tty t) ty) eqn:E; [|reflexivity].
  apply tt_eqb_eq in E. rewrite E in Hx. rewrite Hx in Hty. discriminate.
Qed.

(* ---------- names ---------- *)

Lemma parse_identifier_hit n l c : tty n = TIdentifier ->
  parse_identifier (n :: l) c = (Ok l (mk_terminal n), c).
Proof.
  intro H. unfold parse_identifier, parse_ident_token, bind.
  rewrite tok_alt_hit; [reflexivity| |].
  - rewrite H. reflexivity.
  - eapply not_comment_of_ty; eauto.
Qed.

Definition event_node (n e : tok) : node :=
  let mn := mk_terminal n in let ev := mk_terminal e in
  let id := nident mn ++ [35] ++ nident ev in
  Node KAstMethodNameWithEvent id (nraw mn) (new_range (nrange mn) (nrange ev)) [(K_str, AS id)] [mn; ev].

Inductive name_shape : list tok -> node -> Prop :=
| ns_plain n : tty n = TIdentifier -> name_shape [n] (mk_terminal n)
| ns_event n p e : tty n = TIdentifier -> tty p = TPound -> tty e = TIdentifier ->
    name_shape [n; p; e] (event_node n e).

Lemma name_ok nm nd y c : name_shape nm nd -> (length nm = 1%nat -> next_is_not TPound y = true) ->
  parse_method_name (nm ++ y) c = (Ok y nd, c).
Proof.
  intros H Hy. destruct H as [n Hn|n p e Hn Hp He]; cbn [app].
  - specialize (Hy eq_refl). unfold parse_method_name, alt. cbn [alt_go].
    unfold parse_method_name_uievent at 1. unfold bind at 1. rewrite parse_identifier_hit; auto.
    unfold bind at 1. rewrite exp_token_miss_next; auto.
    rewrite parse_identifier_hit; auto.
  - unfold parse_method_name, alt. cbn [alt_go].
    unfold parse_method_name_uievent, bind. rewrite parse_identifier_hit; auto.
    rewrite exp_token_hit; auto. rewrite parse_identifier_hit; auto.
Qed.

(* ---------- parameter lists: absent or empty ---------- *)

Inductive pl_shape : list tok -> option node -> Prop :=
| pls_none : pl_shape [] None
| pls_empty ob cb : tty ob = TOBracket -> tty cb = TCBracket ->
    pl_shape [ob; cb] (Some (Node KAstParameterDeclarationList S_param_decls (traw ob)
                                  (mkRange (tpos ob) (rend (trange cb))) [] [])).

Lemma param_decl_fails_at_cbracket ptype cb y c : tty cb = TCBracket ->
  exists m, parse_parameter_declaration ptype (cb :: y) c = (Err (cb :: y) m, c).
Proof.
  intro H. assert (is_comment cb = false) as Hc by (eapply not_comment_of_ty; eauto).
  unfold parse_parameter_declaration. unfold bind at 1. unfold recover_at_error.
  destruct (tok_alt_miss [TConst; TVar; TInOut] (cb :: y) c) as [m1 E1]; [discriminate| |].
  { simpl. rewrite !next_is_not_cons, H by exact Hc. reflexivity. }
  rewrite E1. unfold bind at 1.
  destruct (tok_alt_miss [TIdentifier; TType; TDistinct; TFrom; TSelect; TTop; TUsing; TWhere; TAllVersionsOf;
                          TPhantomsToo; TConditional; TDescending; TOrder; TBy; TFetch; TInto] (cb :: y) c) as [m2 E2];
    [discriminate| |].
  { simpl. rewrite !next_is_not_cons, H by exact Hc. reflexivity. }
  unfold parse_ident_token. rewrite E2. eauto.
Qed.

Lemma pl_ok ptype pl pn y c : pl_shape pl pn -> (pl = [] -> next_is_not TOBracket y = true) ->
  parse_parameter_declaration_list ptype (pl ++ y) c = (Ok y pn, c).
Proof.
  intros H Hy. destruct H as [|ob cb Ho Hc]; cbn [app].
  - specialize (Hy eq_refl). unfold parse_parameter_declaration_list, bind, recover_at_error.
    rewrite exp_token_miss_next; auto.
  - unfold parse_parameter_declaration_list. unfold bind at 1. unfold recover_at_error.
    rewrite exp_token_hit; auto. unfold bind at 1. unfold prepend at 1. unfold sep_list.
    destruct (param_decl_fails_at_cbracket ptype cb y c Hc) as [m E]. rewrite E.
    unfold bind, prepend. rewrite exp_token_hit; auto.
Qed.

(* ---------- modifiers ---------- *)

Definition member_mod_types : list ttype := [TPrivate; TProtected; TFinal; TOverride].
Definition is_member_mod (t : tok) : bool := existsb (tt_eqb (tty t)) member_mod_types.

Lemma member_mod_not_comment m : is_member_mod m = true -> is_comment m = false.
Proof.
  unfold is_member_mod, is_comment. intro H. destruct (tt_eqb (tty m) TComment) eqn:E; [|reflexivity].
  apply tt_eqb_eq in E. rewrite E in H. discriminate.
Qed.

Definition mods_info (ts : list tok) : option (N * range * N) :=
  match ts with
  | [] => None
  | first :: _ =>
      let last := match rev ts with t :: _ => t | [] => first end in
      let fwd := existsb (fun t => tt_eqb (tty t) TForward) ts in
      let ext := existsb (fun t => tt_eqb (tty t) TStringLiteral) ts in
      Some (traw first, new_range (trange first) (trange last), member_flags ts + 16 * b2n fwd + 32 * b2n ext)
  end.

Definition method_mod_parser : P tok := alt [parse_member_modifier_tokens; parse_method_external; exp_token TForward].

Lemma method_mod_hit m l c : is_member_mod m = true -> method_mod_parser (m :: l) c = (Ok l m, c).
Proof.
  intro H. unfold method_mod_parser, alt. cbn [alt_go]. unfold parse_member_modifier_tokens.
  rewrite tok_alt_hit; [reflexivity|exact H|apply member_mod_not_comment; exact H].
Qed.

Lemma method_mod_miss x c : extends_header x = false -> exists m, method_mod_parser x c = (Err x m, c).
Proof.
  intro Hx. unfold method_mod_parser. apply alt_all_fail; [discriminate|].
  repeat (apply Forall_cons || apply Forall_nil).
  - unfold parse_member_modifier_tokens. apply tok_alt_miss; [discriminate|].
    simpl. rewrite !(fun ty H => guard_next ty x H Hx) by reflexivity. reflexivity.
  - unfold parse_method_external, bind. cbn [seq_tokens]. unfold bind.
    rewrite exp_token_miss_next; [eauto|reflexivity|]. apply guard_next; [reflexivity|exact Hx].
  - exists (miss_msg x). apply exp_token_miss_next; [reflexivity|]. apply guard_next; [reflexivity|exact Hx].
Qed.

Lemma unm_mods mods x c : forallb is_member_mod mods = true -> extends_header x = false ->
  forall fuel acc, (length mods < fuel)%nat ->
  until_no_match_go fuel method_mod_parser acc (mods ++ x) c = (Ok x (rev acc ++ mods), c).
Proof.
  intros Hm Hx. induction mods as [|m mods IH]; intros fuel acc Hf; (destruct fuel as [|f]; [simpl in Hf; lia|]);
    cbn [until_no_match_go app].
  - rewrite app_nil_r. destruct x as [|t x']; [reflexivity|].
    destruct (method_mod_miss (t :: x') c Hx) as [msg E]. rewrite E. reflexivity.
  - simpl in Hm. apply andb_true_iff in Hm as [Hm1 Hm2].
    rewrite method_mod_hit; auto. rewrite IH; auto; [|simpl in Hf; lia].
    cbn [rev]. rewrite <- app_assoc. reflexivity.
Qed.

Lemma mods_ok mods x c : forallb is_member_mod mods = true -> extends_header x = false ->
  parse_method_modifiers (mods ++ x) c = (Ok x (mods_info mods), c).
Proof.
  intros Hm Hx. unfold parse_method_modifiers, until_no_match.
  change (alt [parse_member_modifier_tokens; parse_method_external; exp_token TForward]) with method_mod_parser.
  rewrite unm_mods; auto; [|rewrite app_length; lia].
  cbn [rev app]. destruct mods as [|first mods']; reflexivity.
Qed.

Lemma no_type_among_mods ty mods : forallb is_member_mod mods = true ->
  existsb (tt_eqb ty) member_mod_types = false -> existsb (fun t => tt_eqb (tty t) ty) mods = false.
Proof.
  intros Hm Hty. induction mods as [|m mods IH]; simpl; [reflexivity|].
  simpl in Hm. apply andb_true_iff in Hm as [Hm1 Hm2]. rewrite IH by exact Hm2. rewrite orb_false_r.
  destruct (tt_eqb (tty m) ty) eqn:E; [|reflexivity]. apply tt_eqb_eq in E.
  unfold is_member_mod in Hm1. rewrite E in Hm1. congruence.
Qed.

Lemma has_body_mods mods : forallb is_member_mod mods = true -> has_method_body (mods_info mods) = true.
Proof.
  intro Hm. unfold mods_info. destruct mods as [|first mods']; [reflexivity|].
  cbv zeta. rewrite (no_type_among_mods TForward), (no_type_among_mods TStringLiteral) by (exact Hm || reflexivity).
  unfold has_method_body, member_flags.
  destruct (existsb _ _), (existsb _ _), (existsb _ _), (existsb _ _); reflexivity.
Qed.

Lemma next_is_not_mods ty mods x : forallb is_member_mod mods = true ->
  existsb (tt_eqb ty) member_mod_types = false -> next_is_not ty x = true -> next_is_not ty (mods ++ x) = true.
Proof.
  intros Hm Hty Hx. destruct mods as [|m mods']; [exact Hx|]. cbn [app].
  simpl in Hm. apply andb_true_iff in Hm as [Hm1 _].
  rewrite next_is_not_cons by (apply member_mod_not_comment; exact Hm1).
  apply negb_true_iff. destruct (tt_eqb (tty m) ty) eqn:E; [|reflexivity]. apply tt_eqb_eq in E.
  unfold is_member_mod in Hm1. rewrite E in Hm1. congruence.
Qed.

(* what the header theorems need of a parameter list: it starts with `(` (or is absent), and the
   parameter-list parser consumes exactly it, whatever follows *)
Definition pl_first (pl : list tok) : Prop := pl = [] \/ exists ob rest, pl = ob :: rest /\ tty ob = TOBracket.
Definition pl_good (ptype : P node) (pl : list tok) (pn : option node) : Prop :=
  pl_first pl /\
  forall y c, (pl = [] -> next_is_not TOBracket y = true) ->
    parse_parameter_declaration_list ptype (pl ++ y) c = (Ok y pn, c).

Lemma pl_shape_good ptype pl pn : pl_shape pl pn -> pl_good ptype pl pn.
Proof.
  intro H. split.
  - destruct H as [|ob cb Ho Hc]; [left; reflexivity|right; eauto].
  - intros y c Hy. apply pl_ok; assumption.
Qed.

Lemma next_is_not_pl ty pl y : pl_first pl -> tt_eqb TOBracket ty = false ->
  next_is_not ty y = true -> next_is_not ty (pl ++ y) = true.
Proof.
  intros H Hty Hy. destruct H as [->|(ob & rest & -> & Ho)]; [exact Hy|]. cbn [app].
  rewrite next_is_not_cons by (eapply not_comment_of_ty; eauto). rewrite Ho, Hty. reflexivity.
Qed.

(* ---------- headers ---------- *)

Definition basic_type_node (ty : tok) : node :=
  Node KAstTypeBasic (tval ty) (traw ty) (trange ty) [(K_token, AT ty)] [].

Section Headers.
  Variable g : G.

  Theorem gen_proc_header p nm nd pl pn mods :
    tty p = TProc -> name_shape nm nd -> pl_good (g_type g) pl pn -> forallb is_member_mod mods = true ->
    is_header (proc_header g) (p :: nm ++ pl ++ mods) (mkH p nd pn None (mods_info mods)) [].
  Proof.
    intros Hp Hn [Hpf Hpl] Hm x c Hx. rewrite push_diags_nil. unfold proc_header.
    cbn [app]. unfold bind at 1. rewrite exp_token_hit by exact Hp.
    rewrite <- !app_assoc. unfold bind at 1. rewrite (name_ok nm nd _ c Hn).
    2:{ intros _. apply next_is_not_pl; auto. apply next_is_not_mods; auto. apply guard_next; auto. }
    unfold bind at 1. rewrite (Hpl _ c).
    2:{ intros _. apply next_is_not_mods; auto. apply guard_next; auto. }
    unfold bind at 1. rewrite mods_ok by assumption. reflexivity.
  Qed.

  Theorem gen_func_header f nm nd pl pn rt ty mods :
    tty f = TFunc -> name_shape nm nd -> pl_good (g_type g) pl pn -> tty rt = TReturn -> tty ty = TIdentifier ->
    forallb is_member_mod mods = true ->
    is_header (func_header g) (f :: nm ++ pl ++ rt :: ty :: mods)
              (mkH f nd pn (Some (basic_type_node ty)) (mods_info mods)) [].
  Proof.
    intros Hf Hn [Hpf Hpl] Hrt Hty Hm x c Hx. rewrite push_diags_nil. unfold func_header.
    cbn [app]. unfold bind at 1. rewrite exp_token_hit by exact Hf.
    rewrite <- !app_assoc. cbn [app].
    assert (is_comment rt = false) as Hrc by (eapply not_comment_of_ty; eauto).
    unfold bind at 1. rewrite (name_ok nm nd _ c Hn).
    2:{ intros _. apply next_is_not_pl; auto. rewrite next_is_not_cons, Hrt by exact Hrc. reflexivity. }
    unfold bind at 1. rewrite (Hpl _ c).
    2:{ intros _. rewrite next_is_not_cons, Hrt by exact Hrc. reflexivity. }
    unfold bind at 1. rewrite exp_token_hit by exact Hrt.
    unfold bind at 1. unfold alt. cbn [alt_go]. unfold parse_type_basic, bind.
    rewrite tok_alt_hit; [|rewrite Hty; reflexivity|eapply not_comment_of_ty; eauto].
    unfold ret. rewrite mods_ok by assumption. reflexivity.
  Qed.

  Theorem simple_proc_header p nm nd pl pn mods :
    tty p = TProc -> name_shape nm nd -> pl_shape pl pn -> forallb is_member_mod mods = true ->
    is_header (proc_header g) (p :: nm ++ pl ++ mods) (mkH p nd pn None (mods_info mods)) [].
  Proof. intros. apply gen_proc_header; auto. apply pl_shape_good; assumption. Qed.

  Theorem simple_func_header f nm nd pl pn rt ty mods :
    tty f = TFunc -> name_shape nm nd -> pl_shape pl pn -> tty rt = TReturn -> tty ty = TIdentifier ->
    forallb is_member_mod mods = true ->
    is_header (func_header g) (f :: nm ++ pl ++ rt :: ty :: mods)
              (mkH f nd pn (Some (basic_type_node ty)) (mods_info mods)) [].
  Proof. intros. apply gen_func_header; auto. apply pl_shape_good; assumption. Qed.
End Headers.
