(* C06: the token-order hypothesis [tord] of the enclosure theorems (RangeEnc.v), discharged for
   the output of the lexer model.

   A token's range is (start line, start column) .. (start line, start column + number of
   characters of its VALUE).  For every token the value is no longer than the chunk of text the
   token consumed (value = chunk for words, numbers, operators, #digits; chunk minus ';' for a
   comment; chunk minus the quotes, doubled quotes collapsed, for a string literal), so on the
   start line the end column is at most the column after the chunk, and when the chunk holds a
   line feed every later token starts on a later line.  Hence: each token ends at or before the
   next one starts.

   [twf] demands a NON-EMPTY range of every token that is not a literal.  The only tokens with an
   empty value are string literals ('' "" or an unterminated quote at the end of the text), which
   are literals, and EMPTY COMMENTS (a ';' directly followed by the end of the line): a comment's
   range covers the text after the ';' only, so it is zero columns wide, and TComment is not a
   literal type.  [tord] therefore holds exactly for the texts without an empty comment
   ([lex_tord_iff]); [empty_comment_refuted] is the witness.

   The rule the code had before commit f444e80 (range length = UTF-8 BYTE length of the value) is
   kept here as [old_tokens]; it breaks the order on a literal with multi-byte characters
   ([old_token_end_in_bytes_refuted]). *)
From GoldV Require Import Base Tokens Keywords AstKinds Tree Grammar LadderProofs ExprRT Encase RangeEnc DeclRT FileRT EnclRT
                          Unlex UnlexProofs Lexer LexerProofs.
From Coq Require Import Lia.

(* ---------- lengths of the string readers ---------- *)

Lemma read_sq_len_k k : forall l, (length l <= k)%nat -> forall off v rest nl n,
  read_sq l off = (v, rest, nl, n) -> lenN v <= n.
Proof.
  induction k as [|k IH]; intros l Hk off v rest nl n H.
  { destruct l; [|simpl in Hk; lia]. simpl in H. inversion H; subst. unfold lenN. simpl. lia. }
  destruct l as [|c l]; simpl in H.
  - inversion H; subst. unfold lenN. simpl. lia.
  - simpl in Hk. destruct (c =? 39).
    + destruct l as [|c2 l2].
      * inversion H; subst. unfold lenN. simpl. lia.
      * destruct (c2 =? 39).
        -- destruct (read_sq l2 (off + 2)) as [[[v' rest'] nl'] n'] eqn:E. inversion H; subst.
           pose proof (IH l2 ltac:(simpl in Hk; lia) _ _ _ _ _ E) as Hv.
           rewrite lenN_cons. lia.
        -- inversion H; subst. unfold lenN. simpl. lia.
    + destruct (read_sq l (off + 1)) as [[[v' rest'] nl'] n'] eqn:E. inversion H; subst.
      pose proof (IH l ltac:(lia) _ _ _ _ _ E) as Hv. rewrite lenN_cons. lia.
Qed.

Lemma read_sq_len l off v rest nl n : read_sq l off = (v, rest, nl, n) -> lenN v <= n.
Proof. apply (read_sq_len_k (length l)). lia. Qed.

Lemma read_dq_len l : forall off v rest nl n, read_dq l off = (v, rest, nl, n) -> lenN v <= n.
Proof.
  induction l as [|c l IH]; intros off v rest nl n H; simpl in H.
  - inversion H; subst. unfold lenN. simpl. lia.
  - destruct (c =? 34).
    + inversion H; subst. unfold lenN. simpl. lia.
    + destruct (read_dq l (off + 1)) as [[[v' rest'] nl'] n'] eqn:E. inversion H; subst.
      pose proof (IH _ _ _ _ _ E) as Hv. rewrite lenN_cons. lia.
Qed.

Lemma lenN_firstn n (l : str) : (N.to_nat n <= length l)%nat -> lenN (firstn (N.to_nat n) l) = n.
Proof. intro H. unfold lenN. rewrite firstn_length. lia. Qed.

(* ---------- per item, independent of the position ---------- *)

(* the token's end is on its start line, as many columns to the right as the value has
   characters, and the value is no longer than the chunk *)
Definition item_ok3 (it : item) : Prop :=
  match it with
  | ITok t ch =>
      tend t = mkPos (pline (tstart t)) (pcol (tstart t) + lenN (tval t)) /\
      lenN (tval t) <= lenN ch
  | _ => True
  end.

Lemma create_token_ok3 st off ty v ch : lenN v <= lenN ch -> item_ok3 (ITok (create_token st off ty v) ch).
Proof. intro H. split; [reflexivity|exact H]. Qed.

Lemma lex_step_ok3 off st c r it st' rest :
  lex_step off st c r = (it, st', rest) -> item_ok3 it.
Proof.
  unfold lex_step. intro H.
  destruct (is_blank c); [inversion H; exact I|].
  destruct (c =? 10); [inversion H; exact I|].
  destruct (c =? 13).
  { destruct r as [|c2 r2]; [inversion H; exact I|]. destruct (c2 =? 10); inversion H; exact I. }
  destruct (is_word_start c).
  { destruct (span is_word_char (c :: r)) as [w rest']. inversion H; subst.
    apply create_token_ok3. lia. }
  destruct (is_digit c).
  { destruct (span is_num_char (c :: r)) as [w rest']. inversion H; subst.
    apply create_token_ok3. lia. }
  destruct (single_op c) as [ty|].
  { inversion H; subst. apply create_token_ok3. lia. }
  destruct (c =? 39).
  { destruct (read_sq r (off + 1)) as [[[v rest'] nl] n] eqn:Er. inversion H; subst.
    apply create_token_ok3. pose proof (read_sq_len _ _ _ _ _ _ Er) as Hv.
    destruct (read_sq_spec _ _ _ _ _ _ st Er) as (_ & Hn & _).
    rewrite lenN_cons, (lenN_firstn _ _ Hn). lia. }
  destruct (c =? 34).
  { destruct (read_dq r (off + 1)) as [[[v rest'] nl] n] eqn:Er. inversion H; subst.
    apply create_token_ok3. pose proof (read_dq_len _ _ _ _ _ _ Er) as Hv.
    destruct (read_dq_spec _ _ _ _ _ _ st Er) as (_ & Hn & _).
    rewrite lenN_cons, (lenN_firstn _ _ Hn). lia. }
  destruct (c =? 59).
  { destruct (span not_eol r) as [v rest']. inversion H; subst.
    apply create_token_ok3. rewrite lenN_cons. lia. }
  destruct (c =? 35).
  { destruct (span is_digit r) as [d rest']. inversion H; subst.
    apply create_token_ok3. lia. }
  destruct (double_op c (match r with x :: _ => Some x | [] => None end)) as [[[ty v] dbl]|].
  { destruct dbl; inversion H; subst; apply create_token_ok3; lia. }
  inversion H; subst. exact I.
Qed.

Lemma lex_go_ok3 fuel : forall off st l, Forall item_ok3 (lex_go fuel off st l).
Proof.
  induction fuel as [|f IH]; intros off st l; [constructor|].
  destruct l as [|c r]; [constructor|]. cbn [lex_go].
  destruct (lex_step off st c r) as [[it st'] rest] eqn:E.
  constructor; [eapply lex_step_ok3; exact E|apply IH].
Qed.

(* a token with an empty value is a string literal or a comment (from the C05 item invariant:
   every other token's value is its non-empty chunk) *)
Lemma item_ok_empty pre t ch :
  item_ok pre (ITok t ch) -> tval t = [] -> tty t = TStringLiteral \/ tty t = TComment.
Proof.
  intros (Hne & _ & _ & Hlex & _) Hv. unfold lexeme_ok in Hlex.
  destruct (hd_is ch 39 || hd_is ch 34); [left; exact Hlex|].
  destruct (hd_is ch 59); [right; apply Hlex|]. congruence.
Qed.

(* ---------- the true position after a chunk ---------- *)

Definition lcp (pre : str) : pos := pos_of (line_col pre).

(* after a chunk: a later line, or the same line and as many columns further as the chunk is long *)
Lemma lcp_adv pre ch :
  pline (lcp pre) < pline (lcp (pre ++ ch)) \/
  (pline (lcp pre) = pline (lcp (pre ++ ch)) /\ pcol (lcp (pre ++ ch)) = pcol (lcp pre) + lenN ch).
Proof.
  induction ch as [|c ch IH] using rev_ind.
  - rewrite app_nil_r. right. unfold lenN. simpl. lia.
  - rewrite app_assoc. unfold lcp in *. rewrite line_col_snoc, lenN_app. unfold lc_step, pos_of in *.
    unfold lenN at 2. simpl length. cbn [pline pcol fst snd] in *.
    destruct (c =? 10); cbn [fst snd]; lia.
Qed.

Lemma lcp_app_le pre ch : pos_le (lcp pre) (lcp (pre ++ ch)).
Proof. unfold pos_le. pose proof (lcp_adv pre ch). lia. Qed.

(* the end of a token that starts at the true position of [pre] and whose value is no longer than
   its chunk is at or before the true position after the chunk *)
Lemma tok_end_le pre t ch :
  tstart t = lcp pre -> item_ok3 (ITok t ch) -> pos_le (tend t) (lcp (pre ++ ch)).
Proof.
  intros Hs [He Hl]. rewrite He, Hs. unfold pos_le. cbn [pline pcol].
  pose proof (lcp_adv pre ch). lia.
Qed.

(* ---------- the induction over the item list ---------- *)

Definition is_nil (s : str) : bool := match s with [] => true | _ => false end.

(* no comment token has an empty value *)
Definition nonempty_comments (ts : list tok) : bool :=
  forallb (fun t => negb (tt_eqb (tty t) TComment && is_nil (tval t))) ts.

Definition starts_after (p : pos) (l : list tok) : Prop :=
  match l with [] => True | t :: _ => pos_le p (tstart t) end.

Lemma starts_after_mono p q l : pos_le p q -> starts_after q l -> starts_after p l.
Proof. destruct l; [auto|]. cbn [starts_after]. apply pos_le_trans. Qed.

Lemma tokens_of_cons it its :
  tokens_of (it :: its) = match it with ITok t _ => t :: tokens_of its | _ => tokens_of its end.
Proof. destruct it; reflexivity. Qed.

Lemma TComment_not_literal : ~ In TComment literal_types.
Proof. intros [X|[X|[X|[X|[X|[]]]]]]; discriminate. Qed.

(* twf of one token *)
Lemma tok_twf pre t ch :
  item_ok pre (ITok t ch) -> item_ok3 (ITok t ch) ->
  negb (tt_eqb (tty t) TComment && is_nil (tval t)) = true -> twf t.
Proof.
  intros Hok [He Hl] Hc. split.
  - rewrite He. unfold pos_le. cbn [pline pcol]. lia.
  - intro Hlit. rewrite He. unfold pos_lt. cbn [pline pcol]. right. split; [reflexivity|].
    destruct (tval t) as [|x v] eqn:Ev; [|rewrite lenN_cons; lia]. exfalso.
    destruct (item_ok_empty _ _ _ Hok Ev) as [E|E].
    + apply Hlit. rewrite E. left. reflexivity.
    + rewrite E in Hc. rewrite (proj2 (tt_eqb_eq _ _) eq_refl) in Hc. discriminate.
Qed.

(* start <= end holds for every token, empty comment or not *)
Lemma tok_range_wf t ch : item_ok3 (ITok t ch) -> pos_le (tstart t) (tend t).
Proof. intros [He _]. rewrite He. unfold pos_le. cbn [pline pcol]. lia. Qed.

Lemma good_tord : forall its pre,
  good pre its -> Forall item_ok3 its -> nonempty_comments (tokens_of its) = true ->
  tord (tokens_of its) /\ starts_after (lcp pre) (tokens_of its).
Proof.
  induction its as [|it its IH]; intros pre Hg H3 Hc; [split; exact I|].
  destruct Hg as [Hit Hg]. inversion H3 as [|? ? Hit3 H3']; subst.
  rewrite tokens_of_cons in *.
  destruct it as [ch|t ch|e ch]; cbn [chunk_of] in *.
  - destruct (IH _ Hg H3' Hc) as [A B]. split; [exact A|].
    eapply starts_after_mono; [apply lcp_app_le|exact B].
  - cbn [nonempty_comments forallb] in Hc. apply andb_true_iff in Hc as [Hct Hc].
    destruct (IH _ Hg H3' Hc) as [A B].
    assert (tstart t = lcp pre) as Hs by apply Hit.
    split.
    + cbn [tord]. split; [eapply tok_twf; eassumption|]. split; [|exact A].
      change (starts_after (tend t) (tokens_of its)).
      eapply starts_after_mono; [|exact B]. apply tok_end_le; assumption.
    + cbn [starts_after]. rewrite Hs. apply pos_le_refl.
  - destruct (IH _ Hg H3' Hc) as [A B]. split; [exact A|].
    eapply starts_after_mono; [apply lcp_app_le|exact B].
Qed.

(* the converse: an ordered token list has no empty comment *)
Lemma tord_nonempty_comments : forall its,
  Forall item_ok3 its -> tord (tokens_of its) -> nonempty_comments (tokens_of its) = true.
Proof.
  induction its as [|it its IH]; intros H3 Ht; [reflexivity|].
  inversion H3 as [|? ? Hit3 H3']; subst. rewrite tokens_of_cons in *.
  destruct it as [ch|t ch|e ch]; try (apply IH; assumption).
  cbn [tord] in Ht. destruct Ht as ((_ & Hst) & _ & Ht).
  cbn [nonempty_comments forallb]. apply andb_true_iff. split; [|apply IH; assumption].
  destruct (tt_eqb (tty t) TComment) eqn:E; [|reflexivity]. apply tt_eqb_eq in E.
  destruct (tval t) as [|x v] eqn:Ev; [|reflexivity]. exfalso.
  destruct Hit3 as [He _]. rewrite Ev in He.
  assert (pos_lt (tstart t) (tend t)) as Hlt by (apply Hst; rewrite E; exact TComment_not_literal).
  rewrite He in Hlt. unfold pos_lt, lenN in Hlt. cbn [pline pcol length] in Hlt. lia.
Qed.

(* ---------- the theorems ---------- *)

(* every token of every text: start <= end, the end on the start line, value length columns wide *)
Theorem lex_ranges_wf text : Forall (fun t => pos_le (tstart t) (tend t)) (fst (lex text)).
Proof.
  unfold lex. cbn [fst]. pose proof (lex_go_ok3 (length text) 0 lst0 text) as H3.
  fold (lex_items text) in H3. induction H3 as [|it its Hit _ IH]; [constructor|].
  rewrite tokens_of_cons. destruct it; try exact IH. constructor; [eapply tok_range_wf; exact Hit|exact IH].
Qed.

(* the token-order hypothesis of the C06 enclosure theorems holds for the tokens of every text that
   has no empty comment *)
Theorem lex_tord text : nonempty_comments (fst (lex text)) = true -> tord (fst (lex text)).
Proof.
  unfold lex. cbn [fst]. intro Hc.
  apply (good_tord (lex_items text) [] (lex_items_good text) (lex_go_ok3 _ _ _ _) Hc).
Qed.

Theorem lex_tord_iff text : tord (fst (lex text)) <-> nonempty_comments (fst (lex text)) = true.
Proof.
  split; [|apply lex_tord]. unfold lex. cbn [fst]. apply tord_nonempty_comments. apply lex_go_ok3.
Qed.

(* "a ;" LF "b": the comment's range is 0:2-0:2 *)
Theorem empty_comment_refuted : exists text, ~ tord (fst (lex text)).
Proof.
  exists [97; 32; 59; 10; 98]. intro H. apply lex_tord_iff in H. vm_compute in H. discriminate.
Qed.

(* ---------- the rule before f444e80: range length in UTF-8 bytes ---------- *)

Definition old_range (t : tok) : tok :=
  mkTok (traw t)
        (mkRange (tstart t) (mkPos (pline (tstart t)) (pcol (tstart t) + utf8_len (tval t))))
        (tty t) (tval t).
Definition old_tokens (text : str) : list tok := map old_range (fst (lex text)).

(* for ASCII values the two rules agree *)
Lemma utf8_len_ascii v : forallb (fun c => c <? 128) v = true -> utf8_len v = lenN v.
Proof.
  induction v as [|c v IH]; [reflexivity|]. cbn [forallb]. intro H. apply andb_true_iff in H as [Hc Hv].
  rewrite lenN_cons. unfold utf8_len in *. cbn [fold_right]. rewrite (IH Hv). unfold utf8_len1. rewrite Hc. lia.
Qed.

(*  Foo('éééééé', xv) : the literal starts at column 4 and its value has 6 characters = 12 bytes, so
    the old end is column 16, past the comma at column 12 and the identifier xv at column 14 *)
Definition bytes_text : str := [70;111;111;40;39;233;233;233;233;233;233;39;44;32;120;118;41].

Theorem old_token_end_in_bytes_refuted : exists text, ~ tord (old_tokens text) /\ tord (fst (lex text)).
Proof.
  exists bytes_text. split.
  - vm_compute. intros (_ & _ & _ & _ & _ & H & _). destruct H as [H|[_ H]]; [discriminate|apply H; reflexivity].
  - apply lex_tord. vm_compute. reflexivity.
Qed.

(* ---------- the enclosure theorems for the tokens of a text ---------- *)

Lemma tord_sub a ts b : tord (a ++ ts ++ b) -> tord ts.
Proof. intro H. apply tord_app in H as (_ & H & _). apply tord_app in H as (H & _). exact H. Qed.

(* whole files *)
Theorem text_encloses text fuel ns :
  nonempty_comments (fst (lex text)) = true -> Decls fuel (fst (lex text)) ns -> Forall enc_tree ns.
Proof. intros Hc Hd. exact (file_encloses fuel _ ns Hd (lex_tord text Hc)). Qed.

(* an expression anywhere in a text: ts is a contiguous part of the text's token list *)
Theorem text_range_encloses text a ts b f n :
  nonempty_comments (fst (lex text)) = true -> fst (lex text) = a ++ ts ++ b -> GExpr f ts n ->
  forall m c, subnode m n -> In c (nchildren m) -> encloses (nrange m) (nrange c).
Proof.
  intros Hc He Hg. apply (range_encloses f ts n Hg). apply (tord_sub a ts b). rewrite <- He. apply lex_tord. exact Hc.
Qed.

Theorem text_innermost_is_ident text a ts b f n :
  nonempty_comments (fst (lex text)) = true -> fst (lex text) = a ++ ts ++ b -> GExpr f ts n ->
  forall t, subnode (mk_terminal t) n -> forall p, contains (trange t) p = true -> search p n = mk_terminal t.
Proof.
  intros Hc He Hg. apply (innermost_is_ident f ts n Hg). apply (tord_sub a ts b). rewrite <- He. apply lex_tord. exact Hc.
Qed.

(* printed lexemes: the condition is one on the lexemes *)
Definition lx_nonempty_comments (lx : list lexeme) : bool :=
  forallb (fun l => negb (tt_eqb (fst l) TComment && is_nil (snd l))) lx.

Lemma nonempty_comments_obs ts : nonempty_comments ts = lx_nonempty_comments (map lx_obs ts).
Proof. induction ts as [|t ts IH]; [reflexivity|]. unfold nonempty_comments, lx_nonempty_comments in *. cbn [map forallb]. rewrite IH. reflexivity. Qed.

Theorem unlex_tord lx : forallb printable lx = true -> lx_nonempty_comments lx = true -> tord (fst (lex (unlex lx))).
Proof.
  intros Hp Hc. apply lex_tord. rewrite nonempty_comments_obs. destruct (lex_unlex lx Hp) as (-> & _). exact Hc.
Qed.
