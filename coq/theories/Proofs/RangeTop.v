(* C08: memoisation keeps the range relation (cache invariant relative to the current method body),
   the knot over the fuel-indexed grammar, the method body parsed on its own slice, and the
   theorems about parse_gold, its diagnostics and the outline. *)
From GoldV Require Import Base Tokens Keywords Lexer AstKinds Tree Strings PComb Grammar Outline
                          LexerProofs ParserWF GrammarWF OutlineProofs
                          RangeBase RangeRel RangeComb RangeGrammar.
From Coq Require Import Sorted Lia.

(* ---------- the cache invariant ---------- *)
Definition suf (B : input) (n : N) : input := skipn (length B - N.to_nat n) B.

Lemma suf_suffix B i : Suffix i B -> suf B (ilen i) = i.
Proof.
  intros [p ->]. unfold suf, ilen. rewrite Nnat.Nat2N.id, app_length.
  replace (length p + length i - length i)%nat with (length p) by lia.
  rewrite skipn_app, skipn_all, Nat.sub_diag. reflexivity.
Qed.

Definition GoodRes (u : univ) (i : input) (r : res node) : Prop :=
  match r with
  | Ok rest a => Suffix rest i /\ NodeOK u (key u i) (key u rest) a
  | Err e _ => Suffix e i
  | _ => True
  end.

Definition CtxB (u : univ) (B : input) (c : ctx) : Prop :=
  DiagsOK u c /\ forall k n r, cache_find k n (ccache c) = Some r -> GoodRes u (suf B n) r.

Lemma DiagsOK_add u d c : DiagOK u d -> DiagsOK u c -> DiagsOK u (add_diag d c).
Proof. intros Hd Hc. unfold DiagsOK, add_diag. cbn [cdiags]. constructor; assumption. Qed.

Lemma CtxB_diag u B d c : DiagOK u d -> CtxB u B c -> CtxB u B (add_diag d c).
Proof. intros Hd [H1 H2]. split; [apply DiagsOK_add; assumption|]. unfold add_diag. cbn [ccache]. exact H2. Qed.

Lemma CtxB_clear u B c : DiagsOK u c -> CtxB u B (clear_cache c).
Proof. intro H. split; [exact H|]. intros k n r. cbn. discriminate. Qed.

Lemma CtxB_set u B k i r c : Suffix i B -> CtxB u B c -> GoodRes u i r -> CtxB u B (set_cache k (ilen i) r c).
Proof.
  intros Hs [H1 H2] Hr. split; [exact H1|]. unfold set_cache. cbn [ccache].
  destruct (cmemo c); [|exact H2]. intros k' n' r'. cbn [cache_find].
  destruct ((k' =? k) && (n' =? ilen i)) eqn:E; [|apply H2].
  intro Heq. inversion Heq; subst. apply andb_true_iff in E as [_ E]. apply N.eqb_eq in E. subst.
  rewrite (suf_suffix B i Hs). exact Hr.
Qed.

Lemma RK_memo u B k m p :
  RK u (CtxB u B) B m (NodeOK u) p -> RK u (CtxB u B) B m (NodeOK u) (memo k p).
Proof.
  intros Hp i c Hb Hs Hk Hc. unfold memo.
  destruct (get_cache k (ilen i) c) as [r|] eqn:E.
  - unfold get_cache in E. destruct (cmemo c); [|discriminate].
    pose proof (proj2 Hc _ _ _ E) as Hr. rewrite (suf_suffix B i Hs) in Hr.
    destruct r as [rest a|e msg|s|]; cbn [post GoodRes] in *; auto.
    destruct Hr as [A1 A2]. split; [exact A1|split; [exact A2|exact Hc]].
  - specialize (Hp i c Hb Hs Hk Hc). destruct (p i c) as [r c1].
    destruct r as [rest a|e msg|s|]; cbn [post] in *; auto.
    + destruct Hp as (A1 & A2 & A3). split; [exact A1|split; [exact A2|]]. apply CtxB_set; auto. split; assumption.
    + destruct Hp as (A1 & A3). split; auto. apply CtxB_set; auto.
Qed.

Lemma RK_memo_ok_only u B k m p :
  RK u (CtxB u B) B m (NodeOK u) p -> RK u (CtxB u B) B m (NodeOK u) (memo_ok_only k p).
Proof.
  intros Hp i c Hb Hs Hk Hc. unfold memo_ok_only.
  destruct (get_cache k (ilen i) c) as [r|] eqn:E.
  - unfold get_cache in E. destruct (cmemo c); [|discriminate].
    pose proof (proj2 Hc _ _ _ E) as Hr. rewrite (suf_suffix B i Hs) in Hr.
    destruct r as [rest a|e msg|s|]; cbn [post GoodRes] in *; auto.
    destruct Hr as [A1 A2]. split; [exact A1|split; [exact A2|exact Hc]].
  - specialize (Hp i c Hb Hs Hk Hc). destruct (p i c) as [r c1].
    destruct r as [rest a|e msg|s|]; cbn [post] in *; auto.
    destruct Hp as (A1 & A2 & A3). split; [exact A1|split; [exact A2|]]. apply CtxB_set; auto. split; assumption.
Qed.

(* ---------- the knot ---------- *)
Lemma RK_out_of_fuel u (Iv : ctx -> Prop) B m (Q : N -> N -> node -> Prop) : RK u Iv B m Q out_of_fuel.
Proof. intros i c _ _ _ _. exact I. Qed.

(* the type parsers never look at the cache: any invariant closed under add_diag *)
Lemma gram_type_R u (Iv : ctx -> Prop) B : (forall d c, DiagOK u d -> Iv c -> Iv (add_diag d c)) ->
  forall f m, RK u Iv B m (NodeOK u) (g_type (gram f)).
Proof.
  intro Hd. induction f as [|f IH]; intro m; [apply RK_out_of_fuel|].
  cbn [gram g_type]. apply R_parse_type_body; assumption.
Qed.

Theorem gram_R u B : forall f m,
  RK u (CtxB u B) B m (NodeOK u) (g_type (gram f)) /\ RK u (CtxB u B) B m (NodeOK u) (g_expr (gram f)) /\
  RK u (CtxB u B) B m (NodeOK u) (g_primary (gram f)) /\ RK u (CtxB u B) B m (NodeOK u) (g_stmt (gram f)).
Proof.
  pose proof (CtxB_diag u B) as Hd.
  pose proof (fun k m p => RK_memo u B k m p) as Hm. pose proof (fun k m p => RK_memo_ok_only u B k m p) as Hmo.
  induction f as [|f IH]; intro m; [repeat split; apply RK_out_of_fuel|].
  assert (forall m, RK u (CtxB u B) B m (NodeOK u) (g_type (gram f))) as Rt by (intro m'; apply IH).
  assert (forall m, RK u (CtxB u B) B m (NodeOK u) (g_expr (gram f))) as Re by (intro m'; apply IH).
  assert (forall m, RK u (CtxB u B) B m (NodeOK u) (g_primary (gram f))) as Rp by (intro m'; apply IH).
  assert (forall m, RK u (CtxB u B) B m (NodeOK u) (g_stmt (gram f))) as Rs by (intro m'; apply IH).
  cbn [gram g_type g_expr g_primary g_stmt].
  assert (forall m, RK u (CtxB u B) B m (NodeOK u) (parse_type_body (g_type (gram f)))) as Wt
    by (intro m'; apply R_parse_type_body; assumption).
  assert (forall m, RK u (CtxB u B) B m (NodeOK u) (parse_primary_body (g_expr (gram f)) (g_primary (gram f)))) as Wp
    by (intro m'; apply R_parse_primary_body; assumption).
  assert (forall m, RK u (CtxB u B) B m (NodeOK u)
            (parse_expr_body (parse_primary_body (g_expr (gram f)) (g_primary (gram f))))) as We
    by (intro m'; apply R_parse_expr_body; assumption).
  refine (conj (Wt m) (conj (We m) (conj (Wp m) _))).
  apply R_parse_statement_body; auto.
  - intro m'. apply R_parse_dot_ops; assumption.
  - intro m'. apply R_parse_compare; assumption.
Qed.

(* ---------- the method body ---------- *)
Lemma body_first_last u first rest lt rw :
  BodyOK u (first :: rest) -> rev (first :: rest) = lt :: rw -> T u first /\ T u lt /\ traw first <= traw lt.
Proof.
  intros Hb Hr. destruct (BodyOK_cons u _ _ Hb) as (Hf & _ & _).
  assert (In lt (first :: rest)) as Hin by (apply in_rev; rewrite Hr; left; reflexivity).
  split; [exact Hf|]. split; [destruct Hb as [_ Hi]; apply Hi; exact Hin|].
  apply (key_in u (first :: rest) lt Hb Hin).
Qed.

Lemma R_parse_method_body u B f body m : BodyOK u body ->
  RK u (DiagsOK u) B m (OptQ (WfQ u)) (parse_method_body (gram f) body).
Proof.
  intro Hbody. unfold parse_method_body. destruct body as [|first rest]; [apply RK_ret; intros; exact I|].
  set (body := first :: rest) in *.
  intros i c Hb Hs Hk Hc. unfold on_slice.
  (* the inner parser after clear_cache, under the cache invariant of the slice *)
  match goal with |- context [bind (with_ctx clear_cache) ?k] => set (kont := k) end.
  change (bind (with_ctx clear_cache) kont body c) with (kont tt body (clear_cache c)).
  assert (RK u (CtxB u body) body 0 (OptQ (WfQ u)) (kont tt)) as Hin.
  { unfold kont. eapply RK_bind.
    - eapply RK_repeat; [apply CtxB_diag|apply Mono_NodeOK|]. intro m'. apply gram_R.
    - intros stmts lo mid H1 H2 Hch.
      pose proof (Chain_AllWf _ _ _ _ Hch) as Hall.
      destruct stmts as [|s0 l]; cbv beta match zeta.
      + apply RK_ret_shift. intros hi H3 H4. unfold Shift. cbn [OptQ]. unfold WfQ.
        destruct (rev body) as [|lt rw] eqn:Er.
        { exfalso. apply (f_equal (@length tok)) in Er. rewrite rev_length in Er. discriminate. }
        destruct (body_first_last u first rest lt rw Hbody Er) as (Tf & Tl & Hle).
        destruct (toks_range_ok u first lt Tf Tl Hle) as [W1 W2].
        apply AllWf_node. split; [|constructor]. unfold new_range. split; [exact W1|]. split; [exact W2|].
        split; [apply sel_ok_none; reflexivity|apply name_ok_other; discriminate].
      + apply RK_ret_shift. intros hi H3 H4. unfold Shift. cbn [OptQ]. unfold WfQ.
        pose proof (chain_first_last_range u (NodeOK u) nrange lo mid s0 l (Mono_NodeOK u)
                      (fun lo hi a H => proj1 H) Hch) as HR.
        assert (match rev (s0 :: l) with [] => nrange s0 | n :: _ => nrange n end =
                nrange (match rev (s0 :: l) with y :: _ => y | [] => s0 end)) as Eq
          by (destruct (rev (s0 :: l)); reflexivity).
        rewrite Eq.
        apply AllWf_node. split; [|exact Hall].
        split; [eapply RangeOK_wf; exact HR|]. split; [eapply RangeOK_lines; exact HR|].
        split; [apply sel_ok_none; reflexivity|apply name_ok_other; discriminate]. }
  specialize (Hin body (clear_cache c) Hbody (Suffix_refl _) (N.le_0_l _) (CtxB_clear u body c Hc)).
  assert (NoErr (kont tt)) as Hne.
  { unfold kont. apply NoErr_bind; [apply NoErr_repeat|]. intro stmts. destruct stmts; cbv beta iota zeta; apply NoErr_ret. }
  specialize (Hne body (clear_cache c)).
  destruct (kont tt body (clear_cache c)) as [[r a|e msg|s|] c1]; cbn [post fst] in *; auto; [|contradiction].
  destruct Hin as (_ & A2 & A3). split; [apply Suffix_refl|]. split; [|exact (proj1 A3)].
  destruct a as [n|]; cbn [OptQ] in *; [exact A2|exact I].
Qed.

(* ---------- the universe of a sorted token list ---------- *)
Definition top_of (ts : list tok) : N := fold_right (fun t a => N.max (traw t + 1) a) 0 ts.

Lemma top_of_gt ts t : In t ts -> traw t < top_of ts.
Proof.
  induction ts as [|x ts IH]; intro H; [destruct H|]. cbn [top_of fold_right]. fold (top_of ts).
  destruct H as [->|H]; [lia|]. specialize (IH H). lia.
Qed.

Definition univ_of (L : N) (ts : list tok) (H : TokSorted L ts) : univ :=
  mkU L ts (top_of ts) H (top_of_gt ts).

Lemma BodyOK_all L ts (H : TokSorted L ts) : BodyOK (univ_of L ts H) ts.
Proof.
  split; [|intros t Ht; exact Ht]. destruct H as [Hs _].
  clear - Hs. induction Hs as [|x l Hs IH Hf]; constructor; [exact IH|].
  eapply Forall_impl; [|exact Hf]. intros a [Ha _]. exact Ha.
Qed.

(* ---------- parse_gold ---------- *)
Theorem parse_gold_ranges L ts (H : TokSorted L ts) memo fuel :
  let u := univ_of L ts H in
  match parse_gold_with memo fuel ts with
  | (Ok _ root, c) => AllWf u root /\ DiagsOK u c
  | (_, _) => True
  end.
Proof.
  intro u. unfold parse_gold_with.
  pose proof (BodyOK_all L ts H) as Hb. fold u in Hb.
  pose proof (R_top_loop u (DiagsOK u) ts (DiagsOK_add u) (gram fuel)
                (gram_type_R u (DiagsOK u) ts (DiagsOK_add u) fuel)
                (fun body m Hbody => R_parse_method_body u ts fuel body m Hbody)
                Hb (S (length ts)) [] ts (ctx0 memo) Hb (Suffix_refl _)) as HT.
  specialize (HT ltac:(constructor) ltac:(constructor)).
  destruct (top_loop (gram fuel) (S (length ts)) ts [] ts (ctx0 memo)) as [[r stmts|e m|s|] c]; auto.
  destruct HT as [H1 H2]. split; [|exact H2].
  unfold mk_root. apply AllWf_node. split; [|exact H1].
  destruct (range_default_ok u) as [W1 W2]. split; [exact W1|]. split; [exact W2|].
  split; [apply sel_ok_none; reflexivity|apply name_ok_other; discriminate].
Qed.

(* ---------- statements free of the proof's vocabulary ---------- *)
Fixpoint Forall_nodes (P : node -> Prop) (n : node) : Prop :=
  match n with
  | Node k id raw rng at_ ch =>
      P (Node k id raw rng at_ ch) /\
      (fix all (l : list node) : Prop := match l with [] => True | c :: l' => Forall_nodes P c /\ all l' end) ch
  end.

Lemma Forall_nodes_unfold P n : Forall_nodes P n <-> P n /\ Forall (Forall_nodes P) (nchildren n).
Proof.
  destruct n as [k id raw rng at_ ch]. cbn [Forall_nodes nchildren]. split; intros [H1 H2]; (split; [exact H1|]).
  - clear H1. induction ch as [|c ch IH]; [constructor|]. destruct H2 as [A B]. constructor; auto.
  - clear H1. induction ch as [|c ch IH]; [exact I|]. inversion H2; subst. split; [assumption|apply IH; assumption].
Qed.

Lemma Forall_nodes_impl (P Q : node -> Prop) : (forall n, P n -> Q n) -> forall n, Forall_nodes P n -> Forall_nodes Q n.
Proof.
  intro H. fix IH 1. intros [k id raw rng at_ ch] [H1 H2]. split; [apply H; exact H1|]. clear H1.
  induction ch as [|c ch IHc]; [exact I|]. destruct H2 as [A B]. split; [apply IH; exact A|apply IHc; exact B].
Qed.

Lemma AllWf_Forall_nodes u : forall n, AllWf u n -> Forall_nodes (LocalOK u) n.
Proof.
  fix IH 1. intros [k id raw rng at_ ch] [H1 H2]. split; [exact H1|]. clear H1.
  induction ch as [|c ch IHc]; [exact I|]. destruct H2 as [A B]. split; [apply IH; exact A|apply IHc; exact B].
Qed.

(* the identifier token of a node (attribute K_ident) lies inside the node's range; for a `for`
   block only when its end token was found; declaration kinds always carry the token *)
Definition SelOK (L : N) (n : node) : Prop :=
  (forall t, attr_tok K_ident n = Some t ->
     (nkind n = KAstForBlock -> attr_tok K_end n <> None) ->
     inside (trange t) (nrange n) /\ range_wf (trange t) /\ lines_le L (trange t)) /\
  (needs_ident (nkind n) = true -> attr_tok K_ident n <> None).

(* the name node (first child) of a procedure / function lies inside the node's range *)
Definition NameInside (n : node) : Prop :=
  nkind n = KAstProcedure \/ nkind n = KAstFunction ->
  match nchildren n with c :: _ => inside (nrange c) (nrange n) | [] => False end.

Definition NodeWf (L : N) (n : node) : Prop :=
  range_wf (nrange n) /\ lines_le L (nrange n) /\ SelOK L n /\ NameInside n.

Definition DiagWf (L : N) (d : pdiag) : Prop := range_wf (drange d) /\ lines_le L (drange d).

Theorem parse_gold_wf L ts memo fuel : TokSorted L ts ->
  match parse_gold_with memo fuel ts with
  | (Ok _ root, c) => Forall_nodes (NodeWf L) root /\ Forall (DiagWf L) (cdiags c)
  | (_, _) => True
  end.
Proof.
  intro H. pose proof (parse_gold_ranges L ts H memo fuel) as HP. cbv zeta in HP.
  destruct (parse_gold_with memo fuel ts) as [[r root|e m|s|] c]; auto.
  destruct HP as [H1 H2]. split.
  - apply AllWf_Forall_nodes in H1. eapply Forall_nodes_impl; [|exact H1]. intros n Hn. exact Hn.
  - exact H2.
Qed.

(* ---------- the outline ---------- *)
Definition DsLocal (L : N) (d : dsym) : Prop :=
  range_wf (ds_range d) /\ range_wf (ds_sel d) /\ inside (ds_sel d) (ds_range d) /\
  lines_le L (ds_range d) /\ lines_le L (ds_sel d).
Definition DsWf (L : N) (d : dsym) : Prop :=
  DsLocal L d /\ match ds_children d with Some l => Forall (DsLocal L) l | None => True end.

Lemma inside_lines L a b : inside a b -> range_wf a -> lines_le L b -> lines_le L a.
Proof. unfold inside, range_wf, lines_le, pos_le. intros. lia. Qed.

Lemma entry_wf L n e : Forall_nodes (NodeWf L) n -> entry n = Some e -> DsLocal L e /\ ds_children e = None.
Proof.
  intros Hn He. destruct (entry_ranges n e He) as (Er & Es & _). destruct (entry_leaf n e He) as [El _].
  split; [|exact El]. apply entry_Some in He as [Hd _]. unfold is_decl in Hd.
  apply Forall_nodes_unfold in Hn as [(W & Ls & [Sel Has] & Nm) Hch].
  unfold DsLocal. rewrite Er, Es. unfold name_range.
  destruct (nkind n) eqn:Ek; try discriminate Hd.
  - (* constant *)
    unfold tok_range. destruct (attr_tok K_ident n) as [t|] eqn:Et; [|exfalso; apply Has; reflexivity].
    destruct (Sel t eq_refl ltac:(intro X; discriminate X)) as (A & B & C). split; [exact W|split; [exact B|split; [exact A|split; [exact Ls|exact C]]]].
  - (* type declaration *)
    unfold tok_range. destruct (attr_tok K_ident n) as [t|] eqn:Et; [|exfalso; apply Has; reflexivity].
    destruct (Sel t eq_refl ltac:(intro X; discriminate X)) as (A & B & C). split; [exact W|split; [exact B|split; [exact A|split; [exact Ls|exact C]]]].
  - (* global variable *)
    unfold tok_range. destruct (attr_tok K_ident n) as [t|] eqn:Et; [|exfalso; apply Has; reflexivity].
    destruct (Sel t eq_refl ltac:(intro X; discriminate X)) as (A & B & C). split; [exact W|split; [exact B|split; [exact A|split; [exact Ls|exact C]]]].
  - (* procedure *)
    specialize (Nm (or_introl Ek)). unfold child_range. destruct (nchildren n) as [|c ch]; [contradiction|].
    cbn [nth_error]. inversion Hch; subst. apply Forall_nodes_unfold in H1 as [(Wc & Lc & _) _].
    split; [exact W|split; [exact Wc|split; [exact Nm|split; [exact Ls|exact Lc]]]].
  - (* function *)
    specialize (Nm (or_intror Ek)). unfold child_range. destruct (nchildren n) as [|c ch]; [contradiction|].
    cbn [nth_error]. inversion Hch; subst. apply Forall_nodes_unfold in H1 as [(Wc & Lc & _) _].
    split; [exact W|split; [exact Wc|split; [exact Nm|split; [exact Ls|exact Lc]]]].
Qed.

Lemma entries_wf L l : Forall (Forall_nodes (NodeWf L)) l -> Forall (DsLocal L) (filter_map entry l).
Proof.
  induction 1 as [|n l Hn Hl IH]; cbn [filter_map]; [constructor|].
  destruct (entry n) as [e|] eqn:E; [|exact IH]. constructor; [|exact IH]. apply (entry_wf L n e Hn E).
Qed.

Lemma header_wf L l c : Forall (Forall_nodes (NodeWf L)) l -> header l = Some c -> DsLocal L c.
Proof.
  induction 1 as [|n l Hn Hl IH]; cbn [header]; [discriminate|].
  apply Forall_nodes_unfold in Hn as [(W & Ls & _) _].
  destruct (is_kind KAstClass n).
  { intro E. inversion E; subst. unfold DsLocal, class_sym. cbn [ds_range ds_sel].
    split; [exact W|split; [exact W|split; [apply inside_refl|split; exact Ls]]]. }
  destruct (is_kind KAstModule n).
  { intro E. inversion E; subst. unfold DsLocal, module_sym. cbn [ds_range ds_sel].
    split; [exact W|split; [exact W|split; [apply inside_refl|split; exact Ls]]]. }
  exact IH.
Qed.

(* outline_wf: every outline symbol (and every child of the container) has well-formed range and
   selection range on existing lines, the selection inside the range *)
Theorem outline_wf L root : Forall_nodes (NodeWf L) root -> Forall (DsWf L) (outline root).
Proof.
  intro H. apply Forall_nodes_unfold in H as [_ Hch]. rewrite outline_char.
  pose proof (entries_wf L _ Hch) as He.
  destruct (header (nchildren root)) as [c|] eqn:Hh; cbn [wrap].
  - constructor; [|constructor]. pose proof (header_wf L _ c Hch Hh) as Hc. split.
    + destruct c; exact Hc.
    + destruct c; cbn. exact He.
  - rewrite Forall_forall in *. intros d Hd. split; [apply He; exact Hd|].
    apply filter_map_In in Hd as (n & _ & Hn). apply entry_leaf in Hn as [-> _]. exact I.
Qed.

(* ---------- boolean checkers (for the refutation witnesses) ---------- *)
Definition insideb (a b : range) : bool := pos_leb' (rstart b) (rstart a) && pos_leb' (rend a) (rend b).
Lemma insideb_spec a b : insideb a b = true <-> inside a b.
Proof. unfold insideb, inside. rewrite andb_true_iff, !pos_leb'_le. tauto. Qed.

Fixpoint all_nodes_b (p : node -> bool) (n : node) : bool :=
  match n with
  | Node k id raw rng at_ ch =>
      p (Node k id raw rng at_ ch) &&
      (fix all (l : list node) : bool := match l with [] => true | c :: l' => all_nodes_b p c && all l' end) ch
  end.

Lemma all_nodes_b_of (P : node -> Prop) (p : node -> bool) : (forall n, P n -> p n = true) ->
  forall n, Forall_nodes P n -> all_nodes_b p n = true.
Proof.
  intro H. fix IH 1. intros [k id raw rng at_ ch] [H1 H2]. cbn [all_nodes_b]. rewrite (H _ H1). cbn [andb]. clear H1.
  induction ch as [|c ch IHc]; [reflexivity|]. destruct H2 as [A B]. rewrite (IH c A). cbn [andb]. apply IHc. exact B.
Qed.

(* the identifier token inside the node range, WITHOUT the guard on `for` blocks *)
Definition sel_unguarded_b (n : node) : bool :=
  match attr_tok K_ident n with Some t => insideb (trange t) (nrange n) | None => true end.
