(* C05: the lexer model partitions the text and reports true positions. *)
From GoldV Require Import Base Tokens Keywords Lexer.

(* ---------- specification ---------- *)

(* the true (line, column) after a prefix: lines are separated by LF, columns count scalars *)
Definition lc_step (s : N * N) (c : N) : N * N :=
  if c =? 10 then (fst s + 1, 0) else (fst s, snd s + 1).
Definition line_col (pre : str) : N * N := fold_left lc_step pre (0, 0).
Definition pos_of (s : N * N) : pos := mkPos (fst s) (snd s).

Definition is_ws (c : N) : bool := (c =? 32) || (c =? 9) || (c =? 10) || (c =? 13).
Definition hd_is (ch : str) (c : N) : bool := match ch with x :: _ => x =? c | [] => false end.

(* the token's recorded offset points at its lexeme *)
Definition lexeme_ok (t : tok) (ch : str) : Prop :=
  if hd_is ch 39 || hd_is ch 34 then tty t = TStringLiteral
  else if hd_is ch 59 then tty t = TComment /\ ch = 59 :: tval t
  else ch = tval t.

Definition item_ok (pre : str) (it : item) : Prop :=
  match it with
  | IWs ch => ch <> [] /\ forallb is_ws ch = true
  | ITok t ch => ch <> [] /\ traw t = lenN pre /\ rstart (trange t) = pos_of (line_col pre) /\
                 lexeme_ok t ch /\ hd_is ch 32 = false /\ is_ws (hd 0 ch) = false /\
                 (is_word_start (hd 0 ch) = true -> tty t = classify ch /\ forallb is_word_char ch = true)
  | IErr e ch => ch = [echar e] /\ is_ws (echar e) = false /\
                 rstart (erange e) = pos_of (line_col pre)
  end.

Fixpoint good (pre : str) (its : list item) : Prop :=
  match its with
  | [] => True
  | it :: rest => item_ok pre it /\ good (pre ++ chunk_of it) rest
  end.

(* ---------- line state ---------- *)

Definition st_of (pre : str) : lst :=
  let s := line_col pre in (fst s, lenN pre - snd s).

Fixpoint adv (st : lst) (off : N) (ch : str) : lst :=
  match ch with
  | [] => st
  | c :: ch' => adv (if c =? 10 then record_nl off st else st) (off + 1) ch'
  end.

Lemma lenN_app a b : lenN (a ++ b) = lenN a + lenN b.
Proof. unfold lenN. rewrite app_length. lia. Qed.

Lemma lenN_cons c a : lenN (c :: a) = lenN a + 1.
Proof. unfold lenN. simpl length. lia. Qed.

Lemma line_col_snoc pre c : line_col (pre ++ [c]) = lc_step (line_col pre) c.
Proof. unfold line_col. rewrite fold_left_app. reflexivity. Qed.

Lemma col_le pre : snd (line_col pre) <= lenN pre.
Proof.
  induction pre as [|c pre IH] using rev_ind; [unfold line_col, lenN; simpl; lia|].
  rewrite line_col_snoc, lenN_app. unfold lc_step, lenN at 2. simpl length.
  destruct (c =? 10); simpl; lia.
Qed.

Lemma st_of_snoc pre c :
  st_of (pre ++ [c]) = if c =? 10 then record_nl (lenN pre) (st_of pre) else st_of pre.
Proof.
  unfold st_of. rewrite line_col_snoc, lenN_app. unfold lc_step, record_nl, lenN at 2. simpl length.
  destruct (c =? 10); simpl; f_equal; lia.
Qed.

Lemma adv_st_of ch : forall pre, adv (st_of pre) (lenN pre) ch = st_of (pre ++ ch).
Proof.
  induction ch as [|c ch IH]; intro pre; simpl; [rewrite app_nil_r; reflexivity|].
  replace (pre ++ c :: ch) with ((pre ++ [c]) ++ ch) by (rewrite <- app_assoc; reflexivity).
  rewrite <- IH, st_of_snoc, lenN_app. reflexivity.
Qed.

Lemma adv_nolf st off ch : forallb (fun c => negb (c =? 10)) ch = true -> adv st off ch = st.
Proof.
  revert st off. induction ch as [|c ch IH]; intros st off H; simpl; [reflexivity|].
  simpl in H. apply andb_true_iff in H as [H1 H2]. apply negb_true_iff in H1. rewrite H1. apply IH. exact H2.
Qed.

Lemma start_pos pre len :
  rstart (create_range (st_of pre) (lenN pre) len) = pos_of (line_col pre).
Proof.
  unfold create_range, st_of, pos_of. simpl. f_equal. pose proof (col_le pre). lia.
Qed.

(* ---------- readers ---------- *)

Lemma span_spec p l a b : span p l = (a, b) -> l = a ++ b /\ forallb p a = true.
Proof.
  revert a b. induction l as [|c l IH]; intros a b H; simpl in H.
  - inversion H. split; reflexivity.
  - destruct (p c) eqn:E.
    + destruct (span p l) as [a' b'] eqn:E2. inversion H; subst.
      destruct (IH a' b eq_refl) as [-> Hall]. split; [reflexivity|]. simpl. rewrite E, Hall. reflexivity.
    + inversion H; subst. split; reflexivity.
Qed.

Lemma forallb_impl {A} (p q : A -> bool) l :
  (forall x, p x = true -> q x = true) -> forallb p l = true -> forallb q l = true.
Proof.
  intro H. induction l as [|x l IH]; simpl; [auto|]. intro E. apply andb_true_iff in E as [E1 E2].
  rewrite (H x E1), (IH E2). reflexivity.
Qed.

Definition nolf (c : N) : bool := negb (c =? 10).

(* string readers: consumed prefix, rest, and the line-state effect of the recorded newlines *)
Lemma read_sq_spec_k k : forall l, (length l <= k)%nat -> forall off v rest nl n st,
  read_sq l off = (v, rest, nl, n) ->
  l = firstn (N.to_nat n) l ++ rest /\ (N.to_nat n <= length l)%nat /\
  fold_left (fun s p => record_nl p s) nl st = adv st off (firstn (N.to_nat n) l).
Proof.
  induction k as [|k IH]; intros l Hk off v rest nl n st H.
  { destruct l; [|simpl in Hk; lia]. simpl in H. inversion H; subst. simpl. repeat split; auto. }
  destruct l as [|c l]; simpl in H.
  - inversion H; subst. simpl. repeat split; auto.
  - simpl in Hk. destruct (c =? 39) eqn:Ec.
    + destruct l as [|c2 l2].
      * inversion H; subst. simpl. repeat split; auto. apply N.eqb_eq in Ec. subst.
        reflexivity.
      * destruct (c2 =? 39) eqn:Ec2.
        -- destruct (read_sq l2 (off + 2)) as [[[v' rest'] nl'] n'] eqn:E.
           inversion H; subst.
           destruct (IH l2 ltac:(simpl in Hk; lia) _ _ _ _ _ st E) as (Hl & Hn & Hf).
           replace (N.to_nat (n' + 2)) with (S (S (N.to_nat n'))) by lia.
           simpl firstn. split; [simpl; f_equal; f_equal; exact Hl|]. split; [simpl; lia|].
           simpl adv. apply N.eqb_eq in Ec. apply N.eqb_eq in Ec2. subst c c2.
           replace (39 =? 10) with false by reflexivity.
           replace (off + 1 + 1) with (off + 2) by lia. exact Hf.
        -- inversion H; subst. simpl. repeat split; auto; try lia.
           apply N.eqb_eq in Ec. subst c. reflexivity.
    + destruct (read_sq l (off + 1)) as [[[v' rest'] nl'] n'] eqn:E.
      inversion H; subst.
      replace (N.to_nat (n' + 1)) with (S (N.to_nat n')) by lia. simpl firstn.
      destruct (c =? 10) eqn:E10.
      * destruct (IH l ltac:(lia) _ _ _ _ _ (record_nl off st) E) as (Hl & Hn & Hf).
        split; [simpl; f_equal; exact Hl|]. split; [simpl; lia|]. simpl. rewrite E10. exact Hf.
      * destruct (IH l ltac:(lia) _ _ _ _ _ st E) as (Hl & Hn & Hf).
        split; [simpl; f_equal; exact Hl|]. split; [simpl; lia|]. simpl. rewrite E10. exact Hf.
Qed.

Lemma read_sq_spec l : forall off v rest nl n st,
  read_sq l off = (v, rest, nl, n) ->
  l = firstn (N.to_nat n) l ++ rest /\ (N.to_nat n <= length l)%nat /\
  fold_left (fun s p => record_nl p s) nl st = adv st off (firstn (N.to_nat n) l).
Proof. apply (read_sq_spec_k (length l)). lia. Qed.

Lemma read_dq_spec l : forall off v rest nl n st,
  read_dq l off = (v, rest, nl, n) ->
  l = firstn (N.to_nat n) l ++ rest /\ (N.to_nat n <= length l)%nat /\
  fold_left (fun s p => record_nl p s) nl st = adv st off (firstn (N.to_nat n) l).
Proof.
  induction l as [|c l IH]; intros off v rest nl n st H; simpl in H.
  - inversion H; subst. simpl. repeat split; auto.
  - destruct (c =? 34) eqn:Ec.
    + inversion H; subst. simpl. repeat split; auto; try lia.
      apply N.eqb_eq in Ec. subst c. reflexivity.
    + destruct (read_dq l (off + 1)) as [[[v' rest'] nl'] n'] eqn:E.
      inversion H; subst.
      replace (N.to_nat (n' + 1)) with (S (N.to_nat n')) by lia. simpl firstn.
      destruct (c =? 10) eqn:E10.
      * destruct (IH _ _ _ _ _ (record_nl off st) E) as (Hl & Hn & Hf).
        split; [simpl; f_equal; exact Hl|]. split; [simpl; lia|]. simpl. rewrite E10. exact Hf.
      * destruct (IH _ _ _ _ _ st E) as (Hl & Hn & Hf).
        split; [simpl; f_equal; exact Hl|]. split; [simpl; lia|]. simpl. rewrite E10. exact Hf.
Qed.

(* ---------- one iteration of the main loop ---------- *)

Lemma is_ws_blank c : is_blank c = true -> is_ws c = true.
Proof.
  unfold is_blank, is_ws. intro H. apply orb_true_iff in H as [H|H]; rewrite H; simpl; [reflexivity|].
  rewrite orb_true_r. reflexivity.
Qed.

Ltac neq_of H := apply N.eqb_neq in H.

Lemma word_start_not_ws c : is_word_start c = true -> is_ws c = false /\ (c =? 39) = false /\ (c =? 34) = false /\ (c =? 59) = false /\ (c =? 32) = false.
Proof.
  unfold is_word_start, is_alpha, is_lower, is_upper, is_ws. intro H.
  repeat rewrite orb_true_iff in H. repeat rewrite andb_true_iff in H. repeat rewrite N.leb_le in H.
  rewrite N.eqb_eq in H.
  assert (c <> 32 /\ c <> 9 /\ c <> 10 /\ c <> 13 /\ c <> 39 /\ c <> 34 /\ c <> 59) as (A&B&C&D&E&F&G) by lia.
  repeat split; repeat (apply orb_false_iff; split); apply N.eqb_neq; assumption.
Qed.

Lemma digit_not_ws c : is_digit c = true -> is_ws c = false /\ (c =? 39) = false /\ (c =? 34) = false /\ (c =? 59) = false /\ (c =? 32) = false.
Proof.
  unfold is_digit, is_ws. intro H. rewrite andb_true_iff in H. repeat rewrite N.leb_le in H.
  assert (c <> 32 /\ c <> 9 /\ c <> 10 /\ c <> 13 /\ c <> 39 /\ c <> 34 /\ c <> 59) as (A&B&C&D&E&F&G) by lia.
  repeat split; repeat (apply orb_false_iff; split); apply N.eqb_neq; assumption.
Qed.

Lemma nolf_of_word a : forallb is_word_char a = true -> forallb nolf a = true.
Proof.
  apply forallb_impl. intros x H. unfold nolf. apply negb_true_iff. apply N.eqb_neq. intro; subst. discriminate.
Qed.
Lemma nolf_of_num a : forallb is_num_char a = true -> forallb nolf a = true.
Proof.
  apply forallb_impl. intros x H. unfold nolf. apply negb_true_iff. apply N.eqb_neq. intro; subst. discriminate.
Qed.
Lemma nolf_of_digit a : forallb is_digit a = true -> forallb nolf a = true.
Proof.
  apply forallb_impl. intros x H. unfold nolf. apply negb_true_iff. apply N.eqb_neq. intro; subst. discriminate.
Qed.
Lemma nolf_of_noteol a : forallb not_eol a = true -> forallb nolf a = true.
Proof.
  apply forallb_impl. intros x H. unfold nolf, not_eol in *. apply negb_true_iff in H. apply orb_false_iff in H as [H _].
  rewrite H. reflexivity.
Qed.

Ltac solve_cls :=
  cbn [hd]; let Hx := fresh "Hx" in intro Hx;
  first [ split; [reflexivity|assumption] | congruence | discriminate Hx ].

(* what a token item needs, given the pieces *)
Lemma tok_item_ok pre ty v ch :
  ch <> [] -> lexeme_ok (create_token (st_of pre) (lenN pre) ty v) ch ->
  hd_is ch 32 = false -> is_ws (hd 0 ch) = false ->
  (is_word_start (hd 0 ch) = true -> ty = classify ch /\ forallb is_word_char ch = true) ->
  item_ok pre (ITok (create_token (st_of pre) (lenN pre) ty v) ch).
Proof.
  intros H1 H2 H3 H4 H5. unfold item_ok. split; [exact H1|]. split; [reflexivity|].
  split; [exact (start_pos pre (lenN v))|]. auto.
Qed.

Lemma single_op_facts c ty : single_op c = Some ty ->
  is_ws c = false /\ (c =? 39) = false /\ (c =? 34) = false /\ (c =? 59) = false /\ (c =? 32) = false /\ (c =? 10) = false.
Proof.
  unfold single_op. intro H.
  repeat match type of H with
  | (if ?b then _ else _) = _ => let E := fresh "E" in destruct b eqn:E;
      [apply N.eqb_eq in E; subst c; repeat split; reflexivity|clear E]
  end. discriminate.
Qed.

Lemma double_op_facts c nx ty v dbl : double_op c nx = Some (ty, v, dbl) ->
  (c = 60 \/ c = 62 \/ c = 38 \/ c = 43 \/ c = 45 \/ c = 58) /\
  match nx with
  | Some x => if dbl then v = [c; x] else v = [c]
  | None => dbl = false /\ v = [c]
  end.
Proof.
  unfold double_op. intro H.
  destruct nx as [x|];
  repeat match type of H with
  | (if ?b then _ else _) = _ => let E := fresh "E" in destruct b eqn:E; try (apply N.eqb_eq in E; subst)
  | Some _ = Some _ => inversion H; subst; clear H
  | None = Some _ => discriminate
  end; split; auto 10; try (split; reflexivity); try reflexivity; try discriminate.
Qed.

Lemma lex_step_spec pre c r it st' rest :
  lex_step (lenN pre) (st_of pre) c r = (it, st', rest) ->
  c :: r = chunk_of it ++ rest /\ item_ok pre it /\ st' = adv (st_of pre) (lenN pre) (chunk_of it).
Proof.
  unfold lex_step. intro H.
  destruct (is_blank c) eqn:Eb.
  { inversion H; subst. simpl. repeat split; try discriminate.
    - rewrite (is_ws_blank _ Eb). reflexivity.
    - unfold is_blank in Eb. destruct (c =? 10) eqn:E; [|reflexivity].
      apply N.eqb_eq in E; subst. discriminate. }
  destruct (c =? 10) eqn:E10.
  { inversion H; subst. apply N.eqb_eq in E10; subst. simpl. repeat split; discriminate || reflexivity. }
  destruct (c =? 13) eqn:E13.
  { apply N.eqb_eq in E13; subst c. destruct r as [|c2 r2].
    - inversion H; subst. simpl. repeat split; discriminate || reflexivity.
    - destruct (c2 =? 10) eqn:E2.
      + inversion H; subst. apply N.eqb_eq in E2; subst. simpl. repeat split; discriminate || reflexivity.
      + inversion H; subst. simpl. repeat split; discriminate || reflexivity. }
  destruct (is_word_start c) eqn:Ew.
  { destruct (span is_word_char (c :: r)) as [w rest'] eqn:Es. inversion H; subst.
    pose proof (span_spec _ _ _ _ Es) as [Hl Hall]. simpl chunk_of.
    assert (w <> []) as Hne.
    { simpl in Es. replace (is_word_char c) with true in Es.
      - destruct (span is_word_char r). inversion Es. discriminate.
      - unfold is_word_start, is_word_char in *. apply orb_true_iff in Ew as [Ew|Ew]; rewrite Ew; simpl; auto using orb_true_r. }
    destruct w as [|c' w']; [contradiction|]. simpl in Hl. inversion Hl; subst c'.
    destruct (word_start_not_ws c Ew) as (A & B & C & D & E).
    split; [first [exact Hl | reflexivity]|]. split.
    - apply tok_item_ok; auto; try solve_cls.
      unfold lexeme_ok, hd_is. rewrite B, C, D. reflexivity.
    - symmetry. apply adv_nolf. apply nolf_of_word. exact Hall. }
  destruct (is_digit c) eqn:Ed.
  { destruct (span is_num_char (c :: r)) as [w rest'] eqn:Es. inversion H; subst.
    pose proof (span_spec _ _ _ _ Es) as [Hl Hall]. simpl chunk_of.
    assert (w <> []) as Hne.
    { simpl in Es. replace (is_num_char c) with true in Es.
      - destruct (span is_num_char r). inversion Es. discriminate.
      - unfold is_num_char. rewrite Ed. reflexivity. }
    destruct w as [|c' w']; [contradiction|]. simpl in Hl. inversion Hl; subst c'.
    destruct (digit_not_ws c Ed) as (A & B & C & D & E).
    split; [first [exact Hl | reflexivity]|]. split.
    - apply tok_item_ok; auto; try solve_cls.
      unfold lexeme_ok, hd_is. rewrite B, C, D. reflexivity.
    - symmetry. apply adv_nolf. apply nolf_of_num. exact Hall. }
  destruct (single_op c) as [ty|] eqn:Eso.
  { inversion H; subst. destruct (single_op_facts _ _ Eso) as (A & B & C & D & E & F).
    simpl chunk_of. split; [reflexivity|]. split.
    - apply tok_item_ok; auto; try discriminate; try solve_cls. unfold lexeme_ok, hd_is. rewrite B, C, D. reflexivity.
    - simpl. rewrite F. reflexivity. }
  destruct (c =? 39) eqn:E39.
  { destruct (read_sq r (lenN pre + 1)) as [[[v rest'] nl] n] eqn:Er. inversion H; subst.
    apply N.eqb_eq in E39; subst c.
    destruct (read_sq_spec _ _ _ _ _ _ (st_of pre) Er) as (Hl & Hn & Hf).
    simpl chunk_of. split; [simpl; f_equal; exact Hl|]. split.
    - apply tok_item_ok; auto; try discriminate; try solve_cls. unfold lexeme_ok, hd_is. reflexivity.
    - simpl. exact Hf. }
  destruct (c =? 34) eqn:E34.
  { destruct (read_dq r (lenN pre + 1)) as [[[v rest'] nl] n] eqn:Er. inversion H; subst.
    apply N.eqb_eq in E34; subst c.
    destruct (read_dq_spec _ _ _ _ _ _ (st_of pre) Er) as (Hl & Hn & Hf).
    simpl chunk_of. split; [simpl; f_equal; exact Hl|]. split.
    - apply tok_item_ok; auto; try discriminate; try solve_cls. unfold lexeme_ok, hd_is. reflexivity.
    - simpl. exact Hf. }
  destruct (c =? 59) eqn:E59.
  { destruct (span not_eol r) as [v rest'] eqn:Es. inversion H; subst.
    apply N.eqb_eq in E59; subst c.
    pose proof (span_spec _ _ _ _ Es) as [Hl Hall]. simpl chunk_of.
    split; [simpl; f_equal; exact Hl|]. split.
    - apply tok_item_ok; auto; try discriminate; try solve_cls. unfold lexeme_ok, hd_is. simpl. split; reflexivity.
    - simpl. symmetry. apply adv_nolf. apply nolf_of_noteol. exact Hall. }
  destruct (c =? 35) eqn:E35.
  { destruct (span is_digit r) as [d rest'] eqn:Es. inversion H; subst.
    apply N.eqb_eq in E35; subst c.
    pose proof (span_spec _ _ _ _ Es) as [Hl Hall]. simpl chunk_of.
    split; [simpl; f_equal; exact Hl|]. split.
    - apply tok_item_ok; auto; try discriminate; try solve_cls. unfold lexeme_ok, hd_is. reflexivity.
    - simpl. symmetry. apply adv_nolf. apply nolf_of_digit. exact Hall. }
  destruct (double_op c (match r with x :: _ => Some x | [] => None end)) as [[[ty v] dbl]|] eqn:Edo.
  { destruct (double_op_facts _ _ _ _ _ Edo) as (Hc & Hv).
    assert (is_ws c = false /\ (c =? 39) = false /\ (c =? 34) = false /\ (c =? 59) = false /\ (c =? 32) = false /\ (c =? 10) = false) as (A & B & C & D & E & F).
    { destruct Hc as [->|[->|[->|[->|[->| ->]]]]]; repeat split; reflexivity. }
    destruct r as [|x r'].
    - destruct Hv as [-> ->]. inversion H; subst. simpl chunk_of. split; [reflexivity|]. split.
      + apply tok_item_ok; auto; try discriminate; try solve_cls. unfold lexeme_ok, hd_is. rewrite B, C, D. reflexivity.
      + simpl. rewrite F. reflexivity.
    - destruct dbl.
      + subst v. inversion H; subst. simpl chunk_of. split; [reflexivity|]. split.
        * apply tok_item_ok; auto; try discriminate; try solve_cls. unfold lexeme_ok, hd_is. rewrite B, C, D. reflexivity.
        * simpl. rewrite F.
          assert ((x =? 10) = false) as Fx.
          { unfold double_op in Edo.
            destruct (x =? 10) eqn:Ex; [|reflexivity]. apply N.eqb_eq in Ex; subst x.
            destruct Hc as [->|[->|[->|[->|[->| ->]]]]]; simpl in Edo; inversion Edo. }
          rewrite Fx. reflexivity.
      + subst v. inversion H; subst. simpl chunk_of. split; [reflexivity|]. split.
        * apply tok_item_ok; auto; try discriminate; try solve_cls. unfold lexeme_ok, hd_is. rewrite B, C, D. reflexivity.
        * simpl. rewrite F. reflexivity. }
  inversion H; subst. simpl chunk_of. split; [reflexivity|]. split.
  - unfold item_ok. split; [reflexivity|]. split; [|exact (start_pos pre 1)]. cbn [echar].
    unfold is_ws. unfold is_blank in Eb. apply orb_false_iff in Eb as [Eb1 Eb2].
    rewrite Eb1, Eb2, E10, E13. reflexivity.
  - simpl. rewrite E10. reflexivity.
Qed.

(* ---------- the main loop ---------- *)

Lemma chunk_nonempty pre it : item_ok pre it -> chunk_of it <> [].
Proof.
  destruct it; simpl.
  - intros [H _]; exact H.
  - intros [H _]; exact H.
  - intros [-> _]. discriminate.
Qed.

Lemma lex_go_good fuel : forall pre l, (length l <= fuel)%nat ->
  good pre (lex_go fuel (lenN pre) (st_of pre) l) /\
  concat (map chunk_of (lex_go fuel (lenN pre) (st_of pre) l)) = l.
Proof.
  induction fuel as [|fuel IH]; intros pre l Hl.
  - destruct l; [|simpl in Hl; lia]. simpl. auto.
  - destruct l as [|c r]; [simpl; auto|].
    cbn [lex_go]. destruct (lex_step (lenN pre) (st_of pre) c r) as [[it st'] rest] eqn:E.
    destruct (lex_step_spec _ _ _ _ _ _ E) as (Hcr & Hok & Hst).
    rewrite adv_st_of in Hst. subst st'. rewrite <- lenN_app.
    assert (length rest <= fuel)%nat as Hr.
    { pose proof (chunk_nonempty _ _ Hok) as Hne. apply (f_equal (@length N)) in Hcr.
      rewrite app_length in Hcr. simpl in Hcr, Hl.
      destruct (chunk_of it); [contradiction|]. simpl in Hcr. lia. }
    destruct (IH (pre ++ chunk_of it) rest Hr) as [Hg Hc].
    split; [simpl; split; assumption|].
    simpl. rewrite Hc. symmetry. exact Hcr.
Qed.

Theorem lex_items_good text : good [] (lex_items text).
Proof. apply (lex_go_good (length text) [] text). lia. Qed.

(* the chunks of tokens, skipped whitespace and error characters concatenate to the text *)
Theorem lex_partition text : concat (map chunk_of (lex_items text)) = text.
Proof. apply (lex_go_good (length text) [] text). lia. Qed.

Lemma good_split pre a it b :
  good pre (a ++ it :: b) -> item_ok (pre ++ concat (map chunk_of a)) it.
Proof.
  revert pre. induction a as [|x a IH]; intros pre H; simpl in *.
  - rewrite app_nil_r. tauto.
  - destruct H as [_ H]. rewrite app_assoc. apply IH. exact H.
Qed.

(* every item, wherever it occurs, is correct relative to the text before it *)
Theorem lex_item_ok text a it b :
  lex_items text = a ++ it :: b -> item_ok (concat (map chunk_of a)) it.
Proof.
  intro H. pose proof (lex_items_good text) as G. rewrite H in G.
  apply (good_split [] a it b G).
Qed.

(* and that prefix is literally the beginning of the text *)
Theorem lex_item_prefix text a it b :
  lex_items text = a ++ it :: b ->
  text = concat (map chunk_of a) ++ chunk_of it ++ concat (map chunk_of b).
Proof.
  intro H. rewrite <- (lex_partition text) at 1. rewrite H, map_app, concat_app. reflexivity.
Qed.

(* ---------- keyword classification ---------- *)

Lemma classify_ci w w' : upper w = upper w' -> classify w = classify w'.
Proof. intro H. unfold classify. rewrite H. reflexivity. Qed.

Lemma kw_lookup_in u t ty : kw_lookup u t = Some ty -> In (u, ty) t.
Proof.
  induction t as [|[k ty'] t IH]; simpl; [discriminate|].
  destruct (str_eqb u k) eqn:E.
  - intro H; inversion H; subst. apply str_eqb_eq in E; subst. left; reflexivity.
  - intro H. right. apply IH. exact H.
Qed.

(* a keyword type is produced only for a spelling of that keyword *)
Lemma classify_keyword_only w :
  classify w <> kw_default -> In (upper w, classify w) kw_table.
Proof.
  unfold classify. destruct (kw_lookup (upper w) kw_table) eqn:E; [|congruence].
  intros _. apply kw_lookup_in. exact E.
Qed.

(* facts about the generated table, by computation *)
Definition kw_keys_upper : bool := forallb (fun p => str_eqb (upper (fst p)) (fst p)) kw_table.
Definition kw_no_default : bool := forallb (fun p => negb (tt_eqb (snd p) kw_default)) kw_table.
Definition kw_keys_words : bool :=
  forallb (fun p => match fst p with [] => false | c :: _ => is_word_start c && forallb is_word_char (fst p) end) kw_table.
(* every key is reachable: its own lookup yields its own type (no arm is shadowed by an earlier one) *)
Definition kw_reachable : bool :=
  forallb (fun p => match kw_lookup (fst p) kw_table with Some ty => tt_eqb ty (snd p) | None => false end) kw_table.

Lemma kw_table_ok : kw_keys_upper = true /\ kw_no_default = true /\ kw_keys_words = true /\ kw_reachable = true.
Proof. vm_compute. repeat split; reflexivity. Qed.

(* every spelling (in any letter case) of a table key is classified with that key's type *)
Lemma classify_spelling k ty w :
  In (k, ty) kw_table -> upper w = k -> classify w = ty.
Proof.
  intros Hin Hw. destruct kw_table_ok as (_ & _ & _ & Hr).
  unfold kw_reachable in Hr. rewrite forallb_forall in Hr. specialize (Hr _ Hin). cbn [fst snd] in Hr.
  unfold classify. rewrite Hw. destruct (kw_lookup k kw_table); [|discriminate].
  apply tt_eqb_eq in Hr. exact Hr.
Qed.

(* an identifier is never classified as a keyword: the default type is produced exactly when the
   upper-cased word is not a key *)
Lemma classify_identifier w :
  classify w = kw_default <-> (forall ty, ~ In (upper w, ty) kw_table).
Proof.
  split.
  - intros H ty Hin. rewrite (classify_spelling _ _ w Hin eq_refl) in H.
    destruct kw_table_ok as (_ & Hnd & _). unfold kw_no_default in Hnd. rewrite forallb_forall in Hnd.
    specialize (Hnd _ Hin). cbn [fst snd] in Hnd. apply negb_true_iff in Hnd.
    assert (tt_eqb ty kw_default = true) by (apply tt_eqb_eq; exact H). congruence.
  - intro H. unfold classify. destruct (kw_lookup (upper w) kw_table) eqn:E; [|reflexivity].
    exfalso. apply (H t). apply kw_lookup_in. exact E.
Qed.

(* words are classified by `classify`: the token of a chunk that starts with a word character *)
Lemma word_token_classified pre c r it st' rest :
  is_word_start c = true -> is_blank c = false ->
  lex_step (lenN pre) (st_of pre) c r = (it, st', rest) ->
  exists w, it = ITok (create_token (st_of pre) (lenN pre) (classify w) w) w /\
            forallb is_word_char w = true /\ hd 0 w = c.
Proof.
  intros Hw Hb H. unfold lex_step in H. rewrite Hb in H.
  destruct (word_start_not_ws c Hw) as (A & _).
  assert ((c =? 10) = false /\ (c =? 13) = false) as [E10 E13].
  { unfold is_ws in A. repeat rewrite orb_false_iff in A. tauto. }
  rewrite E10, E13, Hw in H.
  destruct (span is_word_char (c :: r)) as [w rest'] eqn:Es. inversion H; subst.
  exists w. split; [reflexivity|]. pose proof (span_spec _ _ _ _ Es) as [Hl Hall]. split; [exact Hall|].
  assert (is_word_char c = true) as Hc.
  { unfold is_word_start, is_word_char in *. apply orb_true_iff in Hw as [Hw|Hw]; rewrite Hw; simpl; auto using orb_true_r. }
  simpl in Es. rewrite Hc in Es. destruct (span is_word_char r). inversion Es. reflexivity.
Qed.
