(* C17, tree-level consumers, part 1: the document outline (Model/Outline.v, C12) on trees that are
   equal up to the letter case of words (node_sim) -- for ALL trees, no bounds.

     outline_sim                 node_sim r r'  ->  the two outlines are pairwise similar (dsym_sim:
                                 kinds, ranges, selection ranges, nesting equal; names and details
                                 equal ignoring case)
     outline_decl_exact          + declarations left as written  ->  the outlines are identical except
                                 for the letter case of the DETAIL strings
     outline_identical_refuted   the details are references echoed as written (parent class, field
                                 type, return type): "identical" is false
     outline_identical           + those references (and a constant's value word) left as written
                                 ->  identical

   The first section holds helpers shared with RecaseUnusedVar.v and RecaseLints.v. *)
From GoldV Require Import Base Tokens Keywords Lexer AstKinds Tree Recase RecaseBase Outline.
From GoldV Require Strings PComb Grammar.

(* ================= shared helpers ================= *)

Inductive opt_rel {A B : Type} (R : A -> B -> Prop) : option A -> option B -> Prop :=
| OR_None : opt_rel R None None
| OR_Some x y : R x y -> opt_rel R (Some x) (Some y).

Lemma opt_rel_eq {A} (a b : option A) : opt_rel eq a b -> a = b.
Proof. destruct 1; congruence. Qed.

Lemma opt_rel_refl_eq {A} (a b : option A) : a = b -> opt_rel eq a b.
Proof. intros ->. destruct b; constructor; reflexivity. Qed.

Lemma opt_rel_impl {A B} (R R' : A -> B -> Prop) a b :
  (forall x y, R x y -> R' x y) -> opt_rel R a b -> opt_rel R' a b.
Proof. intros H []; constructor; auto. Qed.

Lemma Forall2_eq {A} (l l' : list A) : Forall2 eq l l' -> l = l'.
Proof. induction 1; congruence. Qed.

Lemma Forall2_map_eq {A B} (f : A -> B) l l' : Forall2 (fun x y => f x = f y) l l' -> map f l = map f l'.
Proof. induction 1; cbn [map]; congruence. Qed.

Lemma Forall2_impl {A B} (R R' : A -> B -> Prop) l l' :
  (forall x y, R x y -> R' x y) -> Forall2 R l l' -> Forall2 R' l l'.
Proof. intros H. induction 1; constructor; auto. Qed.

Lemma Forall2_and {A B} (R R' : A -> B -> Prop) l l' :
  Forall2 R l l' -> Forall2 R' l l' -> Forall2 (fun x y => R x y /\ R' x y) l l'.
Proof. intro H. induction H; intro H'; inversion H'; subst; constructor; auto. Qed.

Lemma Forall2_app2 {A B} (R : A -> B -> Prop) l1 l1' l2 l2' :
  Forall2 R l1 l1' -> Forall2 R l2 l2' -> Forall2 R (l1 ++ l2) (l1' ++ l2').
Proof. induction 1; cbn [app]; auto. Qed.

(* structural induction on trees *)
Lemma node_ind' (Q : node -> Prop) :
  (forall k id raw rg at_ ch, Forall Q ch -> Q (Node k id raw rg at_ ch)) -> forall n, Q n.
Proof.
  intro HQ. fix IH 1. intros [k id raw rg at_ ch]. apply HQ.
  induction ch as [|c ch IHc]; constructor; [apply IH|exact IHc].
Qed.

(* the i-th child of similar trees *)
Lemma nth_child_sim i n n' : node_sim n n' ->
  opt_rel node_sim (nth_error (nchildren n) i) (nth_error (nchildren n') i).
Proof.
  intro H. pose proof (Forall2_nth_error node_sim _ _ i (node_sim_children _ _ H)) as L.
  destruct (nth_error (nchildren n) i), (nth_error (nchildren n') i); try contradiction; constructor; exact L.
Qed.

Lemma attr_tok_rel k n n' : node_sim n n' -> opt_rel tok_sim (attr_tok k n) (attr_tok k n').
Proof.
  intro H. pose proof (attr_tok_sim k _ _ H) as L.
  destruct (attr_tok k n), (attr_tok k n'); cbn [opt_tok_sim] in L; try contradiction; constructor; exact L.
Qed.

Lemma is_kind_decl k n : is_kind k n = true -> decl_kind k = true -> decl_kind (nkind n) = true.
Proof. unfold is_kind. intros H1 H2. apply ak_eqb_eq in H1. rewrite H1. exact H2. Qed.

Lemma is_kind_meth k n : is_kind k n = true -> meth_kind k = true -> meth_kind (nkind n) = true.
Proof. unfold is_kind. intros H1 H2. apply ak_eqb_eq in H1. rewrite H1. exact H2. Qed.

(* every identifier of a tree, pre-order (to tell two trees apart by computation) *)
Fixpoint spellings (n : node) : list str :=
  match n with
  | Node _ id _ _ _ ch =>
      id :: (fix go (l : list node) : list str := match l with [] => [] | c :: r => spellings c ++ go r end) ch
  end.

(* concrete trees for witnesses: the parser model on a text *)
Definition parse_text (s : String.string) : node :=
  match fst (Grammar.parse_gold (fst (lex (Strings.s2l s)))) with
  | PComb.Ok _ r => r
  | _ => Node KAstRoot [] 0 range0 [] []
  end.

(* ================= the outline ================= *)

(* name related by RN, detail by RD, everything else equal, children pairwise related *)
Inductive dsym_rel (RN RD : str -> str -> Prop) : dsym -> dsym -> Prop :=
| DsymRel n n' d d' k r s c c' :
    RN n n' -> opt_rel RD d d' -> opt_rel (Forall2 (dsym_rel RN RD)) c c' ->
    dsym_rel RN RD (mkDsym n d k r s c) (mkDsym n' d' k r s c').

(* kind, range, selection range equal; name and detail equal ignoring case; children None/None or
   lists pairwise similar *)
Definition dsym_sim : dsym -> dsym -> Prop := dsym_rel ci_eq ci_eq.

Fixpoint norm_detail (d : dsym) : dsym :=
  match d with
  | mkDsym n dt k r s c => mkDsym n (option_map upper dt) k r s (option_map (map norm_detail) c)
  end.

Lemma dsym_rel_eq : forall d d', dsym_rel eq eq d d' -> d = d'.
Proof.
  fix IH 3. intros d d' H. destruct H as [n n' dt dt' k r s c c' H1 H2 H3].
  subst n'. apply opt_rel_eq in H2. subst dt'. f_equal.
  destruct H3 as [|l l' Hl]; [reflexivity|]. f_equal.
  revert l l' Hl. fix IHl 3. intros l l' Hl. destruct Hl as [|x y l l' Hxy Hl]; [reflexivity|].
  f_equal; [apply IH; exact Hxy|apply IHl; exact Hl].
Qed.

Lemma dsym_rel_norm : forall d d', dsym_rel eq ci_eq d d' -> norm_detail d = norm_detail d'.
Proof.
  fix IH 3. intros d d' H. destruct H as [n n' dt dt' k r s c c' H1 H2 H3].
  subst n'. cbn [norm_detail]. f_equal.
  - destruct H2 as [|x y Hxy]; cbn [option_map]; [reflexivity|]. f_equal. exact Hxy.
  - destruct H3 as [|l l' Hl]; cbn [option_map]; [reflexivity|]. f_equal.
    revert l l' Hl. fix IHl 3. intros l l' Hl. destruct Hl as [|x y l l' Hxy Hl]; [reflexivity|].
    cbn [map]. f_equal; [apply IH; exact Hxy|apply IHl; exact Hl].
Qed.

Lemma dsym_rel_children RN RD c c' : dsym_rel RN RD c c' ->
  opt_rel (Forall2 (dsym_rel RN RD)) (ds_children c) (ds_children c').
Proof. destruct 1; assumption. Qed.

Lemma dsym_rel_set RN RD c c' l l' : dsym_rel RN RD c c' -> Forall2 (dsym_rel RN RD) l l' ->
  dsym_rel RN RD (set_children c (Some l)) (set_children c' (Some l')).
Proof.
  destruct 1. intro Hl. unfold set_children. cbn [ds_name ds_detail ds_kind ds_range ds_sel].
  constructor; auto. constructor. exact Hl.
Qed.

(* ---- the loop of generate_symbols, for any relation with the two properties above ---- *)
Section Loop.
  Variable R : dsym -> dsym -> Prop.
  Hypothesis R_children : forall c c', R c c' -> opt_rel (Forall2 R) (ds_children c) (ds_children c').
  Hypothesis R_set : forall c c' l l', R c c' -> Forall2 R l l' ->
    R (set_children c (Some l)) (set_children c' (Some l')).

  Definition st_rel (st st' : list dsym * option dsym) : Prop :=
    Forall2 R (fst st) (fst st') /\ opt_rel R (snd st) (snd st').

  Lemma push_sym_rel st st' s s' : st_rel st st' -> R s s' -> opt_rel st_rel (push_sym st s) (push_sym st' s').
  Proof.
    destruct st as [res c], st' as [res' c']. intros [H1 H2] Hs. cbn [fst snd] in H1, H2.
    destruct H2 as [|x y Hxy]; cbn [push_sym].
    - constructor. split; cbn [fst snd]; [|constructor].
      apply Forall2_app2; [exact H1|]. constructor; [exact Hs|constructor].
    - pose proof (R_children _ _ Hxy) as Hc. destruct Hc as [|ch ch' Hch]; constructor.
      split; cbn [fst snd]; [exact H1|]. constructor. apply R_set; [exact Hxy|].
      apply Forall2_app2; [exact Hch|]. constructor; [exact Hs|constructor].
  Qed.

  Lemma sym_loop_rel l l' : Forall2 (fun n n' => opt_rel R (entry n) (entry n')) l l' ->
    forall st st', st_rel st st' -> opt_rel st_rel (sym_loop l st) (sym_loop l' st').
  Proof.
    induction 1 as [|n n' l l' Hn Hl IH]; intros st st' Hst; cbn [sym_loop]; [constructor; exact Hst|].
    destruct Hn as [|s s' Hs]; [apply IH; exact Hst|].
    destruct (push_sym_rel _ _ _ _ Hst Hs) as [|x y Hxy]; [constructor|]. apply IH. exact Hxy.
  Qed.

  Definition hdr_ok (n n' : node) : Prop :=
    nkind n = nkind n' /\
    (is_kind KAstClass n = true -> R (class_sym n) (class_sym n')) /\
    (is_kind KAstModule n = true -> R (module_sym n) (module_sym n')).

  Lemma header_rel l l' : Forall2 hdr_ok l l' -> opt_rel R (header l) (header l').
  Proof.
    induction 1 as [|n n' l l' [Hk [Hc Hm]] Hl IH]; cbn [header]; [constructor|].
    unfold is_kind in *. rewrite <- Hk.
    destruct (ak_eqb (nkind n) KAstClass); [constructor; auto|].
    destruct (ak_eqb (nkind n) KAstModule); [constructor; auto|]. exact IH.
  Qed.

  Lemma outline_run_rel r r' :
    Forall2 (fun n n' => opt_rel R (entry n) (entry n')) (nchildren r) (nchildren r') ->
    Forall2 hdr_ok (nchildren r) (nchildren r') ->
    opt_rel (Forall2 R) (outline_run r) (outline_run r').
  Proof.
    intros He Hh. unfold outline_run.
    assert (Hst : st_rel ([], header (nchildren r)) ([], header (nchildren r'))).
    { split; cbn [fst snd]; [constructor|apply header_rel; exact Hh]. }
    destruct (sym_loop_rel _ _ He _ _ Hst) as [|[res c] [res' c'] [H1 H2]]; [constructor|].
    cbn [fst snd] in H1, H2. destruct H2 as [|x y Hxy]; constructor; [exact H1|].
    apply Forall2_app2; [exact H1|]. constructor; [exact Hxy|constructor].
  Qed.
End Loop.

(* ---- one top-level node ---- *)
Section Entry.
  Variables RN RD : str -> str -> Prop.

  (* the names a top-level declaration shows *)
  Definition names_rel (n n' : node) : Prop :=
    (decl_kind (nkind n) = true ->
       RN (tok_value (attr_tok K_ident n)) (tok_value (attr_tok K_ident n')) /\ RN (nident n) (nident n')) /\
    (meth_kind (nkind n) = true -> RN (child_ident 0 n) (child_ident 0 n')).

  (* the words a top-level declaration echoes as its detail *)
  Definition details_rel (n n' : node) : Prop :=
    (is_kind KAstConstantDeclaration n = true ->
       RD (tok_value (attr_tok K_value n)) (tok_value (attr_tok K_value n'))) /\
    (is_kind KAstGlobalVariableDeclaration n = true -> RD (child_ident 0 n) (child_ident 0 n')) /\
    (is_kind KAstFunction n = true -> RD (child_ident 1 n) (child_ident 1 n')) /\
    (is_kind KAstClass n = true ->
       opt_rel RD (option_map tval (attr_tok K_parent n)) (option_map tval (attr_tok K_parent n'))).

  Lemma tok_range_sim k n n' : node_sim n n' -> tok_range (attr_tok k n) = tok_range (attr_tok k n').
  Proof.
    intro H. destruct (attr_tok_rel k _ _ H) as [|t t' Ht]; [reflexivity|]. cbn [tok_range]. apply Ht.
  Qed.

  Lemma child_range_sim i n n' : node_sim n n' -> child_range i n = child_range i n'.
  Proof.
    intro H. unfold child_range. destruct (nth_child_sim i _ _ H) as [|c c' Hc]; [reflexivity|].
    apply node_sim_range. exact Hc.
  Qed.

  Let R := dsym_rel RN RD.

  Lemma overwrite_rel a a' b b' : opt_rel R a a' -> opt_rel R b b' -> opt_rel R (overwrite a b) (overwrite a' b').
  Proof. intros Ha Hb. destruct Hb; cbn [overwrite]; [exact Ha|constructor; assumption]. Qed.

  Lemma entry_rel n n' : node_sim n n' -> names_rel n n' -> details_rel n n' ->
    opt_rel R (entry n) (entry n').
  Proof.
    intros Hs [Hd Hm] [D1 [D2 [D3 _]]]. unfold entry.
    pose proof (node_sim_range _ _ Hs) as Hr.
    pose proof (tok_range_sim K_ident _ _ Hs) as Hti.
    pose proof (child_range_sim 0 _ _ Hs) as Hc0.
    repeat apply overwrite_rel; [constructor| | | | |].
    - unfold gen_constant. rewrite <- (node_sim_is_kind _ _ _ Hs).
      destruct (is_kind KAstConstantDeclaration n) eqn:E; constructor.
      rewrite <- Hr, <- Hti. constructor; [|constructor; auto|constructor].
      apply Hd. eapply is_kind_decl; [exact E|reflexivity].
    - unfold gen_type. rewrite <- (node_sim_is_kind _ _ _ Hs).
      destruct (is_kind KAstTypeDeclaration n) eqn:E; constructor.
      rewrite <- Hr, <- Hti. constructor; [|constructor|constructor].
      apply Hd. eapply is_kind_decl; [exact E|reflexivity].
    - unfold gen_gvar. rewrite <- (node_sim_is_kind _ _ _ Hs).
      destruct (is_kind KAstGlobalVariableDeclaration n) eqn:E; constructor.
      rewrite <- Hr, <- Hti. constructor; [|constructor; auto|constructor].
      apply Hd. eapply is_kind_decl; [exact E|reflexivity].
    - unfold gen_proc. rewrite <- (node_sim_is_kind _ _ _ Hs).
      destruct (is_kind KAstProcedure n) eqn:E; constructor.
      rewrite <- Hr, <- Hc0. constructor; [|constructor|constructor].
      apply Hm. eapply is_kind_meth; [exact E|reflexivity].
    - unfold gen_func. rewrite <- (node_sim_is_kind _ _ _ Hs).
      destruct (is_kind KAstFunction n) eqn:E; constructor.
      rewrite <- Hr, <- Hc0. constructor; [|constructor; auto|constructor].
      apply Hm. eapply is_kind_meth; [exact E|reflexivity].
  Qed.

  Lemma hdr_rel n n' : node_sim n n' -> names_rel n n' -> details_rel n n' -> hdr_ok R n n'.
  Proof.
    intros Hs [Hd _] [_ [_ [_ D4]]]. pose proof (node_sim_range _ _ Hs) as Hr.
    split; [apply node_sim_kind; exact Hs|]. split; intro E.
    - unfold class_sym. rewrite <- Hr. constructor; [|auto|constructor; constructor].
      apply Hd. eapply is_kind_decl; [exact E|reflexivity].
    - unfold module_sym. rewrite <- Hr. constructor; [|constructor|constructor; constructor].
      apply Hd. eapply is_kind_decl; [exact E|reflexivity].
  Qed.

  Lemma outline_run_gen r r' :
    Forall2 (fun n n' => node_sim n n' /\ names_rel n n' /\ details_rel n n') (nchildren r) (nchildren r') ->
    opt_rel (Forall2 R) (outline_run r) (outline_run r').
  Proof.
    intro H. apply outline_run_rel.
    - apply dsym_rel_children.
    - apply dsym_rel_set.
    - eapply Forall2_impl; [|exact H]. intros n n' [A [B C]]. apply entry_rel; assumption.
    - eapply Forall2_impl; [|exact H]. intros n n' [A [B C]]. apply hdr_rel; assumption.
  Qed.
End Entry.

(* ---- what node_sim and decl_exact give for one node ---- *)
Lemma tok_value_ci k n n' : node_sim n n' -> ci_eq (tok_value (attr_tok k n)) (tok_value (attr_tok k n')).
Proof.
  intro H. destruct (attr_tok_rel k _ _ H) as [|t t' Ht]; [apply ci_eq_refl|]. cbn [tok_value]. apply Ht.
Qed.

Lemma child_ident_ci i n n' : node_sim n n' -> ci_eq (child_ident i n) (child_ident i n').
Proof.
  intro H. unfold child_ident. destruct (nth_child_sim i _ _ H) as [|c c' Hc]; [apply ci_eq_refl|].
  apply node_sim_ident. exact Hc.
Qed.

Lemma names_rel_ci n n' : node_sim n n' -> names_rel ci_eq n n'.
Proof.
  intro H. split; intros _; [split|].
  - apply tok_value_ci. exact H.
  - apply node_sim_ident. exact H.
  - apply child_ident_ci. exact H.
Qed.

Lemma details_rel_ci n n' : node_sim n n' -> details_rel ci_eq n n'.
Proof.
  intro H. repeat split; intros _.
  - apply tok_value_ci. exact H.
  - apply child_ident_ci. exact H.
  - apply child_ident_ci. exact H.
  - destruct (attr_tok_rel K_parent _ _ H) as [|t t' Ht]; cbn [option_map]; constructor. apply Ht.
Qed.

Lemma child_ident0_eq n : child_ident 0 n = child_ident0 n.
Proof. unfold child_ident, child_ident0. destruct (nchildren n); reflexivity. Qed.

Lemma tok_value_of_map o o' : option_map tval o = option_map tval o' -> tok_value o = tok_value o'.
Proof. destruct o, o'; cbn [option_map tok_value]; congruence. Qed.

Lemma names_rel_exact n n' : decl_exact1 n n' -> names_rel eq n n'.
Proof.
  intros [H1 H2]. split; intro E.
  - destruct (H1 E) as [A B]. split; [apply tok_value_of_map; exact B|exact A].
  - rewrite !child_ident0_eq. apply H2. exact E.
Qed.

(* ---- the theorems ---- *)

Theorem outline_sim : forall r r', node_sim r r' ->
  opt_rel (Forall2 dsym_sim) (outline_run r) (outline_run r').
Proof.
  intros r r' H. apply outline_run_gen.
  eapply Forall2_impl; [|exact (node_sim_children _ _ H)].
  intros n n' Hn. auto using names_rel_ci, details_rel_ci.
Qed.

Lemma outline_of_run (R : dsym -> dsym -> Prop) r r' :
  opt_rel (Forall2 R) (outline_run r) (outline_run r') -> Forall2 R (outline r) (outline r').
Proof. unfold outline. destruct 1; [constructor|assumption]. Qed.

Theorem outline_sim_list : forall r r', node_sim r r' -> Forall2 dsym_sim (outline r) (outline r').
Proof. intros r r' H. apply outline_of_run. apply outline_sim. exact H. Qed.

(* the panic case (None) is the same in both runs *)
Corollary outline_run_none_sim r r' : node_sim r r' -> (outline_run r = None <-> outline_run r' = None).
Proof. intro H. destruct (outline_sim _ _ H); split; intro; congruence. Qed.

Lemma outline_run_decl_exact_rel r r' : node_sim r r' -> decl_exact r r' ->
  opt_rel (Forall2 (dsym_rel eq ci_eq)) (outline_run r) (outline_run r').
Proof.
  intros H He. apply outline_run_gen.
  eapply Forall2_impl; [|exact (Forall2_and _ _ _ _ (node_sim_children _ _ H) (decl_exact_children _ _ He))].
  intros n n' [Hn Hd]. split; [exact Hn|]. split; [|apply details_rel_ci; exact Hn].
  apply names_rel_exact. apply decl_exact_here. exact Hd.
Qed.

(* declarations left as written: names, kinds, ranges, selection ranges and nesting are EQUAL; the
   details (echoed references) are equal after upper-casing *)
Theorem outline_decl_exact : forall r r', node_sim r r' -> decl_exact r r' ->
  map norm_detail (outline r) = map norm_detail (outline r').
Proof.
  intros r r' H He. apply Forall2_map_eq.
  eapply Forall2_impl; [|apply outline_of_run; apply outline_run_decl_exact_rel; eassumption].
  apply dsym_rel_norm.
Qed.

Theorem outline_run_decl_exact : forall r r', node_sim r r' -> decl_exact r r' ->
  option_map (map norm_detail) (outline_run r) = option_map (map norm_detail) (outline_run r').
Proof.
  intros r r' H He. destruct (outline_run_decl_exact_rel _ _ H He) as [|l l' Hl]; [reflexivity|].
  cbn [option_map]. f_equal. apply Forall2_map_eq. eapply Forall2_impl; [|exact Hl]. apply dsym_rel_norm.
Qed.

(* the exact guard: the words echoed as details are left as written.  For every top-level child:
   the K_parent token value of a class, the identifier of child 0 (the type) of a global variable
   declaration, of child 1 (the return type) of a function; and the value token of a constant (a
   literal in every parsed tree, hence never a word: const_value_literal below) *)
Definition detail_exact1 (n n' : node) : Prop :=
  (is_kind KAstClass n = true ->
     option_map tval (attr_tok K_parent n) = option_map tval (attr_tok K_parent n')) /\
  (is_kind KAstGlobalVariableDeclaration n = true -> child_ident 0 n = child_ident 0 n') /\
  (is_kind KAstFunction n = true -> child_ident 1 n = child_ident 1 n') /\
  (is_kind KAstConstantDeclaration n = true ->
     tok_value (attr_tok K_value n) = tok_value (attr_tok K_value n')).

Definition detail_refs_exact (r r' : node) : Prop := Forall2 detail_exact1 (nchildren r) (nchildren r').

(* the fourth clause holds by itself when the value token is not a word (the parser accepts only a
   string or numeric literal there) *)
Lemma const_value_literal n n' : node_sim n n' ->
  match attr_tok K_value n with Some t => word_ty (tty t) = false | None => True end ->
  tok_value (attr_tok K_value n) = tok_value (attr_tok K_value n').
Proof.
  intros H Hw. destruct (attr_tok_rel K_value _ _ H) as [|t t' Ht]; [reflexivity|].
  cbn [tok_value]. apply Ht. exact Hw.
Qed.

Lemma details_rel_exact n n' : detail_exact1 n n' -> details_rel eq n n'.
Proof.
  intros [A [B [C D]]]. repeat split; auto. intro E. apply opt_rel_refl_eq. auto.
Qed.

Theorem outline_identical : forall r r', node_sim r r' -> decl_exact r r' -> detail_refs_exact r r' ->
  outline_run r = outline_run r'.
Proof.
  intros r r' H He Hd.
  assert (L : opt_rel (Forall2 (dsym_rel eq eq)) (outline_run r) (outline_run r')).
  { apply outline_run_gen.
    pose proof (Forall2_and _ _ _ _ (node_sim_children _ _ H)
                  (Forall2_and _ _ _ _ (decl_exact_children _ _ He) Hd)) as F.
    eapply Forall2_impl; [|exact F]. intros n n' [Hn [Hx Hy]]. split; [exact Hn|]. split.
    - apply names_rel_exact. apply decl_exact_here. exact Hx.
    - apply details_rel_exact. exact Hy. }
  destruct L as [|l l' Hl]; [reflexivity|]. f_equal. apply Forall2_eq.
  eapply Forall2_impl; [|exact Hl]. apply dsym_rel_eq.
Qed.

Corollary outline_identical_list : forall r r', node_sim r r' -> decl_exact r r' -> detail_refs_exact r r' ->
  outline r = outline r'.
Proof. intros r r' A B C. unfold outline. rewrite (outline_identical _ _ A B C). reflexivity. Qed.

(* ================= witnesses ================= *)
From Coq Require Import String.
Open Scope string_scope.

(* class aB (aA) ... : the parent class, a field's type and a function's return type re-cased; every
   keyword re-cased; all declarations as written *)
Definition ow_text : string := "class aB (aA)
memory x : aFoo
func f return aBar
endfunc
proc p
endproc
const cX = 12
".
Definition ow_text' : string := "CLASS aB (AA)
Memory x : AFOO
FUNC f RETURN abar
EndFunc
PROC p
endPROC
CONST cX = 12
".
Definition ow : node := parse_text ow_text.
Definition ow' : node := parse_text ow_text'.

(* only the parent class re-cased *)
Definition ow1 : node := parse_text "class aB (aA)".
Definition ow1' : node := parse_text "class aB (AA)".

(* a re-cased DECLARATION: similar, not decl_exact *)
Definition ow2 : node := parse_text "class aB (aA)
memory x : aFoo".
Definition ow2' : node := parse_text "class AB (aA)
memory X : aFoo".

Close Scope string_scope.

Lemma ow_sim : node_sim ow ow'.
Proof. apply node_simb_sound. vm_compute. reflexivity. Qed.
Lemma ow_exact : decl_exact ow ow'.
Proof. apply decl_exactb_sound. vm_compute. reflexivity. Qed.
Lemma ow_differ : ow <> ow'.
Proof. intro H. apply (f_equal outline) in H. vm_compute in H. discriminate H. Qed.

(* the literal clause "the outline is identical" is false: the details echo references as written *)
Theorem outline_identical_refuted : exists r r', node_sim r r' /\ decl_exact r r' /\ outline r <> outline r'.
Proof.
  exists ow1, ow1'. split; [apply node_simb_sound; vm_compute; reflexivity|].
  split; [apply decl_exactb_sound; vm_compute; reflexivity|].
  intro H. vm_compute in H. discriminate H.
Qed.

(* the same with a field type, a return type and all keywords *)
Example outline_identical_refuted_fields : node_sim ow ow' /\ decl_exact ow ow' /\ outline ow <> outline ow'.
Proof.
  split; [exact ow_sim|]. split; [exact ow_exact|]. intro H. vm_compute in H. discriminate H.
Qed.

(* without decl_exact the names change too: decl_exact is needed for outline_decl_exact *)
Example outline_decl_exact_guard_needed :
  node_sim ow2 ow2' /\ map norm_detail (outline ow2) <> map norm_detail (outline ow2').
Proof.
  split; [apply node_simb_sound; vm_compute; reflexivity|]. intro H. vm_compute in H. discriminate H.
Qed.

(* non-vacuity: the hypotheses of outline_sim / outline_decl_exact hold of two trees that really
   differ, the outline is not empty, and the conclusions hold of them *)
Example outline_sim_nonvacuous :
  node_sim ow ow' /\ decl_exact ow ow' /\ ow <> ow' /\ List.length (outline ow) = 1%nat /\
  Forall2 dsym_sim (outline ow) (outline ow') /\
  map norm_detail (outline ow) = map norm_detail (outline ow').
Proof.
  split; [exact ow_sim|]. split; [exact ow_exact|]. split; [exact ow_differ|].
  split; [vm_compute; reflexivity|]. split.
  - apply outline_sim_list. exact ow_sim.
  - apply outline_decl_exact; [exact ow_sim|exact ow_exact].
Qed.

(* non-vacuity of outline_identical: keywords re-cased, references in details as written *)
Definition ow3 : node := parse_text "class aB (aA)
memory x : aFoo
func f return aBar
 x = f
endfunc
const cX = 'v'
"%string.
Definition ow3' : node := parse_text "CLASS aB (aA)
MEMORY x : aFoo
Func f Return aBar
 X = F
ENDFUNC
Const cX = 'v'
"%string.

Lemma detail_exact1b_sound : forall l l',
  forall2b (fun n n' =>
    opt_str_eqb (option_map tval (attr_tok K_parent n)) (option_map tval (attr_tok K_parent n')) &&
    str_eqb (child_ident 0 n) (child_ident 0 n') && str_eqb (child_ident 1 n) (child_ident 1 n') &&
    str_eqb (tok_value (attr_tok K_value n)) (tok_value (attr_tok K_value n'))) l l' = true ->
  Forall2 detail_exact1 l l'.
Proof.
  apply forall2b_sound. intros n n' H. rewrite !andb_true_iff in H. destruct H as [[[A B] C] D].
  apply opt_str_eqb_eq in A. apply str_eqb_eq in B. apply str_eqb_eq in C. apply str_eqb_eq in D.
  repeat split; auto.
Qed.

Example outline_identical_nonvacuous :
  node_sim ow3 ow3' /\ decl_exact ow3 ow3' /\ detail_refs_exact ow3 ow3' /\ ow3 <> ow3' /\
  outline_run ow3 = outline_run ow3' /\ outline_run ow3 <> None /\ outline ow3 <> [].
Proof.
  assert (A : node_sim ow3 ow3') by (apply node_simb_sound; vm_compute; reflexivity).
  assert (B : decl_exact ow3 ow3') by (apply decl_exactb_sound; vm_compute; reflexivity).
  assert (C : detail_refs_exact ow3 ow3') by (apply detail_exact1b_sound; vm_compute; reflexivity).
  split; [exact A|]. split; [exact B|]. split; [exact C|]. split.
  - intro H. apply (f_equal spellings) in H. vm_compute in H. discriminate H.
  - split; [apply outline_identical; assumption|]. split; intro H; vm_compute in H; discriminate H.
Qed.

(* the fourth clause of detail_exact1 is needed for arbitrary trees: a constant whose value token is a
   WORD (no parser builds it: the value is a string or numeric literal).  The tree has no class, no
   global variable and no function, so the other three clauses hold vacuously. *)
Definition cw (v : str) : node :=
  Node KAstRoot [] 0 range0 [] [
    Node KAstConstantDeclaration [99;88] 0 (mkRange (mkPos 0 0) (mkPos 0 12))
      [(K_ident, AT (mkTok 6 (mkRange (mkPos 0 6) (mkPos 0 8)) TIdentifier [99;88]));
       (K_value, AL [mkTok 11 (mkRange (mkPos 0 11) (mkPos 0 13)) TIdentifier v])] []].

Example outline_const_clause_needed :
  node_sim (cw [97;98]) (cw [65;66]) /\ decl_exact (cw [97;98]) (cw [65;66]) /\
  outline (cw [97;98]) <> outline (cw [65;66]).
Proof.
  split; [apply node_simb_sound; vm_compute; reflexivity|].
  split; [apply decl_exactb_sound; vm_compute; reflexivity|].
  intro H. vm_compute in H. discriminate H.
Qed.
