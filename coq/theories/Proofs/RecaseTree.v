(* C17 carried through the tree-level models, part 1: the relation, the annotator's tables (Model/Annot.v),
   the assembled diagnostics response (Model/Report.v) and go-to-definition / completion inside one
   document (Model/DefTree.v).  For ALL trees.

   ref_sim t t'   ("t ~ref t'"): the two trees are equal except that REFERENCES may differ in letter case:
                  same kinds, offsets, ranges, children shape and attribute keys; identifiers and token
                  values equal ignoring case (and EQUAL for tokens that are not words); every DECLARING node
                  (class / module header, constant, type, field, procedure, function, parameter, local
                  variable, enum variant, record field) carries the same identifier, the same name token
                  (K_ident) and, for a method, the same name node in both trees.
   ref_sim_iff    ref_sim t t' <-> node_sim t t' /\ decl_exact t t': it IS the parser-level similarity
                  (Proofs/RecaseBase.v, the conclusion of C17_tree_shape) restricted to "declared names
                  spelled the same", so text -> tokens -> trees -> analyses composes (recased_text_ref_sim).

   annot_recase     the tables of the two trees: same for_class_or_module, same symbols_list (names as
                    declared, kinds, selection ranges, ranges), uses_entities pairwise equal ignoring case
   annot_uses_refuted   ... and `equal` is false for uses_entities (they are references, kept as written)
   report_recase    the WHOLE diagnostics response is identical (the naming rules included: they read
                    declarations only), for the same parser diagnostics
   deftree_recase   definition / completion of the one-document model: identical at every position *)
From GoldV Require Import Base Tokens Keywords Lexer AstKinds Tree Recase RecaseBase RecaseOutline.
From GoldV Require Import Encase SymTab SymTabProofs Scoping ScopingProofs Annot AnnotProofs DefTree.
From GoldV Require RecaseLex RecaseSummary RecaseLints RecaseUnusedVar Report ReportProofs UnusedVar Lints.
From Coq Require Import Lia.

(* ====================================================================================== *)
(* 1. the relation                                                                        *)
(* ====================================================================================== *)

Inductive ref_sim : node -> node -> Prop :=
| RefSim k id id' raw rg at_ at' ch ch' :
    ci_eq id id' -> Forall2 attr_sim at_ at' ->
    decl_exact1 (Node k id raw rg at_ ch) (Node k id' raw rg at' ch') ->
    Forall2 ref_sim ch ch' ->
    ref_sim (Node k id raw rg at_ ch) (Node k id' raw rg at' ch').

Notation "t '~ref' u" := (ref_sim t u) (at level 70).

Lemma ref_sim_ind' (Q : node -> node -> Prop) :
  (forall k id id' raw rg at_ at' ch ch',
      ci_eq id id' -> Forall2 attr_sim at_ at' ->
      decl_exact1 (Node k id raw rg at_ ch) (Node k id' raw rg at' ch') ->
      Forall2 ref_sim ch ch' -> Forall2 Q ch ch' ->
      Q (Node k id raw rg at_ ch) (Node k id' raw rg at' ch')) ->
  forall n n', ref_sim n n' -> Q n n'.
Proof.
  intro HQ. fix IH 3. intros n n' H. destruct H as [k id id' raw rg at_ at' ch ch' H1 H2 H3 H4].
  apply HQ; auto. clear H3.
  revert ch ch' H4. fix IHl 3. intros ch ch' H4. destruct H4 as [|x y l l' Hxy Hl]; constructor.
  - apply IH. exact Hxy.
  - apply IHl. exact Hl.
Qed.

Lemma Forall2_mp {A B} (P Q : A -> B -> Prop) l l' :
  Forall2 (fun x y => P x y -> Q x y) l l' -> Forall2 P l l' -> Forall2 Q l l'.
Proof. intro H. induction H; intro H'; inversion H'; subst; constructor; auto. Qed.

Definition nsx := RecaseLints.nsx.
Definition nsx_sim := RecaseLints.nsx_sim.
Definition nsx_children := RecaseLints.nsx_children.

(* the relation IS the parser-level similarity with the declarations left as written *)
Theorem ref_sim_iff n n' : ref_sim n n' <-> node_sim n n' /\ decl_exact n n'.
Proof.
  split.
  - revert n n'. apply ref_sim_ind'. intros k id id' raw rg at_ at' ch ch' H1 H2 H3 _ IH. split.
    + apply NodeSim; [exact H1|exact H2|]. eapply Forall2_impl; [|exact IH]. intros x y [A _]. exact A.
    + constructor; [exact H3|]. cbn [nchildren]. eapply Forall2_impl; [|exact IH]. intros x y [_ A]. exact A.
  - intros [Hs Hd]. revert Hd. revert n n' Hs.
    apply (node_sim_ind' (fun n n' => decl_exact n n' -> ref_sim n n')).
    intros k id id' raw rg at_ at' ch ch' H1 H2 _ IH Hd.
    apply RefSim; [exact H1|exact H2|exact (decl_exact_here _ _ Hd)|].
    apply (Forall2_mp _ _ _ _ IH). exact (decl_exact_children _ _ Hd).
Qed.

Lemma ref_sim_nsx n n' : ref_sim n n' -> nsx n n'.
Proof. intro H. apply ref_sim_iff. exact H. Qed.

Lemma ref_sim_refl n : ref_sim n n.
Proof. apply ref_sim_iff. split; [apply node_sim_refl|apply decl_exact_refl]. Qed.

(* the boolean checkers of Model/Recase.v decide it (used by the examples) *)
Lemma ref_simb_sound n n' : node_simb n n' = true -> decl_exactb n n' = true -> ref_sim n n'.
Proof. intros A B. apply ref_sim_iff. split; [apply node_simb_sound; exact A|apply decl_exactb_sound; exact B]. Qed.

(* the chain from texts: a re-cased text whose declarations are left as written parses to a ~ref tree *)
Theorem recased_text_ref_sim text text' : RecaseLex.text_recased text text' ->
  exists d d', RecaseSummary.document_of text = Some d /\ RecaseSummary.document_of text' = Some d' /\
    RecaseSummary.pd_diags d = RecaseSummary.pd_diags d' /\ RecaseSummary.pd_lexerrs d' = RecaseSummary.pd_lexerrs d /\
    (decl_exact (RecaseSummary.pd_root d) (RecaseSummary.pd_root d') -> ref_sim (RecaseSummary.pd_root d) (RecaseSummary.pd_root d')).
Proof.
  intro H. destruct (RecaseSummary.document_recased text text' H) as (d & d' & E & E' & Hs & Hp & Hl).
  exists d, d'. repeat (split; [assumption|]). intro Hd. apply ref_sim_iff. split; assumption.
Qed.

(* ---------- what the relation gives at one node ---------- *)

Lemma nsx_kind n n' : nsx n n' -> nkind n = nkind n'.
Proof. intro H. apply node_sim_kind. apply nsx_sim. exact H. Qed.
Lemma nsx_range n n' : nsx n n' -> nrange n = nrange n'.
Proof. intro H. apply node_sim_range. apply nsx_sim. exact H. Qed.
Lemma nsx_is_kind k n n' : nsx n n' -> is_kind k n = is_kind k n'.
Proof. intro H. apply node_sim_is_kind. apply nsx_sim. exact H. Qed.
Lemma nsx_ci n n' : nsx n n' -> ci_eq (nident n) (nident n').
Proof. intro H. apply node_sim_ident. apply nsx_sim. exact H. Qed.

Lemma dkind_of_sim n n' : nsx n n' -> dkind_of n = dkind_of n'.
Proof. intro H. unfold dkind_of. rewrite (nsx_kind _ _ H). reflexivity. Qed.

(* a node some handler other than handle_uses acts on declares its identifier *)
Lemma dkind_decl n k : dkind_of n = Some k -> k <> DUses -> decl_kind (nkind n) = true.
Proof. unfold dkind_of. destruct (nkind n); intros H Hk; try discriminate; try reflexivity. inversion H. congruence. Qed.

Lemma nsx_decl_name n n' k : nsx n n' -> dkind_of n = Some k -> k <> DUses -> nident n = nident n'.
Proof. intros H Hk Hu. apply (RecaseLints.nsx_name _ _ H). eapply dkind_decl; eassumption. Qed.

Lemma first_child_range_sim n n' : node_sim n n' ->
  match nchildren n with c :: _ => nrange c | [] => range0 end =
  match nchildren n' with c :: _ => nrange c | [] => range0 end.
Proof.
  intro H. destruct (node_sim_children _ _ H) as [|c c' l l' Hc _]; [reflexivity|]. apply node_sim_range. exact Hc.
Qed.

Lemma tok_range_sim k n n' : node_sim n n' -> tok_range (attr_tok k n) = tok_range (attr_tok k n').
Proof. intro H. destruct (attr_tok_rel k _ _ H) as [|t t' Ht]; [reflexivity|]. cbn [tok_range]. apply Ht. Qed.

Lemma aname_range_sim n n' : nsx n n' -> Annot.name_range n = Annot.name_range n'.
Proof.
  intro H. unfold Annot.name_range. rewrite <- (dkind_of_sim _ _ H).
  pose proof (first_child_range_sim _ _ (nsx_sim _ _ H)) as A. pose proof (tok_range_sim K_ident _ _ (nsx_sim _ _ H)) as B.
  destruct (dkind_of n) as [[]|]; assumption.
Qed.

Lemma sym_of_sim k n n' d : nsx n n' -> dkind_of n = Some d -> d <> DUses -> sym_of k n = sym_of k n'.
Proof.
  intros H Hd Hu. unfold sym_of. rewrite (nsx_decl_name _ _ _ H Hd Hu), (aname_range_sim _ _ H), (nsx_range _ _ H). reflexivity.
Qed.

Lemma self_of_sim n n' : nsx n n' -> self_of n = self_of n'.
Proof. intro H. unfold self_of. rewrite (aname_range_sim _ _ H), (nsx_range _ _ H). reflexivity. Qed.

Lemma uses_names_sim n n' : node_sim n n' -> Forall2 ci_eq (uses_names n) (uses_names n').
Proof.
  intro H. unfold uses_names. pose proof (attr_sim_lookup K_uses _ _ (node_sim_attrs _ _ H)) as L.
  destruct (attr K_uses (nattrs n)) as [v|], (attr K_uses (nattrs n')) as [v'|]; try contradiction; [|constructor].
  destruct L as [x|s s' Hs|t t' Ht|l l' Hl]; try constructor.
  - apply Ht.
  - constructor.
  - induction Hl as [|t t' l l' Ht _ IH]; cbn [map]; constructor; [apply Ht|exact IH].
Qed.

(* ====================================================================================== *)
(* 2. the annotator's tables                                                              *)
(* ====================================================================================== *)

Definition table_sim (T T' : table) : Prop :=
  t_cls T = t_cls T' /\ t_syms T = t_syms T' /\ Forall2 ci_eq (t_uses T) (t_uses T').

Lemma table_sim_refl T : table_sim T T.
Proof. repeat split. apply Forall2_refl. apply ci_eq_refl. Qed.

Definition state_sim (s s' : astate) : Prop :=
  table_sim (st_root s) (st_root s') /\ opt_rel table_sim (st_cur s) (st_cur s') /\
  Forall2 table_sim (st_done s) (st_done s').

Definition vsim (p p' : vnode) : Prop := fst p = fst p' /\ nsx (snd p) (snd p').

Lemma t_insert_sim T T' s : table_sim T T' -> table_sim (t_insert T s) (t_insert T' s).
Proof. intros (A & B & C). unfold t_insert. repeat split; cbn [t_cls t_syms t_uses]; [exact A|rewrite B; reflexivity|exact C]. Qed.

Lemma t_add_uses_sim T T' u u' : table_sim T T' -> Forall2 ci_eq u u' -> table_sim (t_add_uses T u) (t_add_uses T' u').
Proof. intros (A & B & C) Hu. unfold t_add_uses. repeat split; cbn [t_cls t_syms t_uses]; [exact A|exact B|apply Forall2_app2; assumption]. Qed.

Ltac ssplit := split; [|split]; cbn [st_root st_cur st_done].

Lemma cur_insert_sim st st' s : state_sim st st' -> state_sim (cur_insert st s) (cur_insert st' s).
Proof.
  intros (A & B & C). unfold cur_insert. destruct B as [|c c' Hc]; ssplit; auto.
  - apply t_insert_sim; exact A.
  - constructor.
  - constructor. apply t_insert_sim. exact Hc.
Qed.

Lemma cur_add_uses_sim st st' u u' : state_sim st st' -> Forall2 ci_eq u u' -> state_sim (cur_add_uses st u) (cur_add_uses st' u').
Proof.
  intros (A & B & C) Hu. unfold cur_add_uses. destruct B as [|c c' Hc]; ssplit; auto.
  - apply t_add_uses_sim; assumption.
  - constructor.
  - constructor. apply t_add_uses_sim; assumption.
Qed.

Lemma root_set_cls_sim st st' c : state_sim st st' -> state_sim (root_set_cls st c) (root_set_cls st' c).
Proof.
  intros ((A1 & A2 & A3) & B & C). unfold root_set_cls, t_set_cls. ssplit; auto.
  split; [|split]; cbn [t_cls t_syms t_uses]; auto.
Qed.

Lemma end_method_sim st st' : state_sim st st' -> state_sim (end_method st) (end_method st').
Proof.
  intros (A & B & C). unfold end_method. inversion B as [E1 E2|c c' Hc E1 E2]; [ssplit; auto; rewrite <- E1, <- E2; exact B|].
  ssplit; auto; [constructor|]. apply Forall2_app2; [exact C|]. constructor; [exact Hc|constructor].
Qed.

Lemma new_scope_sim st st' : state_sim st st' -> state_sim (new_scope st) (new_scope st').
Proof.
  intros (A & B & C). unfold new_scope. ssplit; auto.
  constructor. destruct A as (A1 & A2 & A3). split; [|split]; cbn [t_cls t_syms t_uses]; auto.
Qed.

Lemma dkind_at_sim p p' : vsim p p' -> dkind_at p = dkind_at p'.
Proof. intros [A B]. unfold dkind_at. rewrite <- (dkind_of_sim _ _ B), A. reflexivity. Qed.

Lemma dkind_at_of p k : dkind_at p = Some k -> dkind_of (snd p) = Some k.
Proof. unfold dkind_at. destruct (dkind_of (snd p)) as [[]|]; try (intro H; exact H). destruct (fst p); [auto|discriminate]. Qed.

Lemma visit_sim st st' p p' : state_sim st st' -> vsim p p' -> state_sim (visit st p) (visit st' p').
Proof.
  intros Hst Hp. unfold visit. cbv zeta. rewrite <- (dkind_at_sim _ _ Hp). destruct Hp as [_ Hn].
  destruct (dkind_at p) as [k|] eqn:E; [|exact Hst]. apply dkind_at_of in E.
  destruct k;
    try rewrite <- (sym_of_sim _ _ _ _ Hn E ltac:(discriminate));
    try rewrite <- (self_of_sim _ _ Hn);
    try rewrite <- (nsx_decl_name _ _ _ Hn E ltac:(discriminate));
    auto using cur_insert_sim, root_set_cls_sim, new_scope_sim, end_method_sim.
  apply cur_add_uses_sim; [exact Hst|]. apply uses_names_sim. apply nsx_sim. exact Hn.
Qed.

Lemma fold_visit_sim l l' : Forall2 vsim l l' -> forall st st', state_sim st st' ->
  state_sim (fold_left visit l st) (fold_left visit l' st').
Proof. induction 1 as [|p p' l l' Hp _ IH]; intros st st' Hst; cbn [fold_left]; [exact Hst|]. apply IH. apply visit_sim; assumption. Qed.

(* ---------- the walk ---------- *)

Lemma post_eq gm pm n :
  post gm pm n = flat_map (post pm (is_method_kind (nkind n))) (nchildren n) ++ [(gm, n)].
Proof.
  destruct n as [k id raw rg at_ ch]. cbn [post nchildren nkind]. f_equal.
Qed.

Lemma Forall2_flat_map {A B} (R : A -> A -> Prop) (S : B -> B -> Prop) (f f' : A -> list B) l l' :
  Forall2 (fun x y => Forall2 S (f x) (f' y)) l l' -> Forall2 S (flat_map f l) (flat_map f' l').
Proof. induction 1; cbn [flat_map]; [constructor|]. apply Forall2_app2; assumption. Qed.

Lemma post_sim : forall n n', nsx n n' -> forall gm pm, Forall2 vsim (post gm pm n) (post gm pm n').
Proof.
  intro n. pattern n. apply node_ind'. clear n. intros k id raw rg at_ ch IHn n' Hn gm pm.
  rewrite !post_eq. pose proof (nsx_children _ _ Hn) as HC. rewrite <- (nsx_kind _ _ Hn).
  apply Forall2_app2; [|constructor; [split; [reflexivity|exact Hn]|constructor]].
  cbn [nchildren nkind] in *. apply (Forall2_flat_map nsx). clear Hn.
  induction HC as [|c c' l l' Hc _ IH]; [constructor|]. inversion IHn; subst. constructor; auto.
Qed.

Lemma post_list_sim l l' gm pm : Forall2 nsx l l' -> Forall2 vsim (post_list gm pm l) (post_list gm pm l').
Proof.
  intro H. unfold post_list. apply (Forall2_flat_map nsx). eapply Forall2_impl; [|exact H].
  intros x y Hxy. apply post_sim. exact Hxy.
Qed.

Lemma below_sim t t' c c' : nsx t t' -> nsx c c' -> Forall2 vsim (below t c) (below t' c').
Proof.
  intros Ht Hc. unfold below. rewrite <- (nsx_kind _ _ Ht), <- (nsx_kind _ _ Hc). apply post_list_sim. apply nsx_children. exact Hc.
Qed.

Lemma top_seq_sim d t t' c c' : nsx t t' -> nsx c c' -> Forall2 vsim (top_seq d t c) (top_seq d t' c').
Proof.
  intros Ht Hc. unfold top_seq. constructor; [split; [reflexivity|exact Hc]|]. destruct d; [constructor|apply below_sim; assumption].
Qed.

Lemma visit_seq_sim d t t' : nsx t t' -> Forall2 vsim (visit_seq d t) (visit_seq d t').
Proof.
  intro Ht. unfold visit_seq. constructor; [split; [reflexivity|exact Ht]|].
  apply (Forall2_flat_map nsx). eapply Forall2_impl; [|apply nsx_children; exact Ht].
  intros c c' Hc. apply top_seq_sim; assumption.
Qed.

Lemma annotate_sim d t t' : nsx t t' -> state_sim (annotate d t) (annotate d t').
Proof.
  intro H. unfold annotate. apply end_method_sim. apply fold_visit_sim; [apply visit_seq_sim; exact H|].
  unfold init_state. ssplit; [apply table_sim_refl|constructor|constructor].
Qed.

(* ANNOT: the tables of the two trees, one by one: same class, same symbols (the declared names, their kinds,
   selection ranges and ranges), `uses` entities pairwise equal ignoring case *)
Theorem annot_recase d t t' : ref_sim t t' -> Forall2 table_sim (tables_of d t) (tables_of d t').
Proof.
  intro H. destruct (annotate_sim d t t' (ref_sim_nsx _ _ H)) as (A & _ & C). constructor; assumption.
Qed.

Corollary annot_recase_syms d t t' : ref_sim t t' ->
  map t_cls (tables_of d t) = map t_cls (tables_of d t') /\ map t_syms (tables_of d t) = map t_syms (tables_of d t').
Proof.
  intro H. pose proof (annot_recase d t t' H) as A. split; apply Forall2_map_eq; (eapply Forall2_impl; [|exact A]); intros x y (H1 & H2 & _); assumption.
Qed.

Lemma root_table_sim d t t' : nsx t t' -> table_sim (root_table_of d t) (root_table_of d t').
Proof. intro H. apply (annotate_sim d t t' H). Qed.

Lemma method_tables_sim d t t' : nsx t t' -> Forall2 table_sim (method_tables_of d t) (method_tables_of d t').
Proof. intro H. apply (annotate_sim d t t' H). Qed.

(* ====================================================================================== *)
(* 3. the diagnostics response                                                            *)
(* ====================================================================================== *)

Lemma v2_visit_sim c c' anc anc' n n' out : RecaseLints.ctx_rel nsx c c' -> Forall2 nsx anc anc' -> nsx n n' ->
  Report.v2_visit c anc n out = Report.v2_visit c' anc' n' out.
Proof.
  intros Hc Ha Hn. unfold Report.v2_visit.
  assert (E1 : Lints.unp_visit c anc n out = Lints.unp_visit c' anc' n' out).
  { apply Forall2_eq. eapply Forall2_impl; [apply RecaseLints.ldiag_rel_eq|].
    apply (RecaseLints.unp_visit_rel eq RecaseLints.nsx RecaseLints.nsx_sim RecaseLints.nsx_children RecaseLints.nsx_name);
      [exact Hn|]. apply Forall2_refl. intro x. repeat split. }
  rewrite E1. rewrite (RecaseLints.name_visit_exact n n' Hn c c' anc anc' _ Ha).
  apply Forall2_eq. eapply Forall2_impl; [apply RecaseLints.ldiag_rel_eq|].
  apply (RecaseLints.inh_visit_rel eq RecaseLints.nsx RecaseLints.nsx_sim RecaseLints.nsx_name); [exact Hn|].
  apply Forall2_refl. intro x. repeat split.
Qed.

Lemma v2_walk_sim t t' : nsx t t' -> Report.v2_walk t = Report.v2_walk t'.
Proof.
  intro H. unfold Report.v2_walk.
  apply (RecaseLints.run2_rel eq RecaseLints.nsx Report.v2_visit RecaseLints.nsx_sim RecaseLints.nsx_children).
  - intros c c' anc anc' n n' s s' Hc Ha Hn ->. apply v2_visit_sim; assumption.
  - auto.
  - exact H.
  - reflexivity.
Qed.

(* REPORT: the whole response -- parser items, unused variables, return types, and the shared collector of the
   three tree checkers in its interleaved order -- is identical; so is every later request on the document *)
Theorem report_recase t t' pd : ref_sim t t' -> Report.report t pd = Report.report t' pd.
Proof.
  intro H. apply ref_sim_iff in H. destruct H as [Hs Hd]. unfold Report.report, Report.v1_report.
  rewrite (RecaseUnusedVar.unusedvar_exact _ _ Hs Hd), (RecaseLints.ret_type_lint_eq _ _ Hs),
          (v2_walk_sim t t' (conj Hs Hd)). reflexivity.
Qed.
